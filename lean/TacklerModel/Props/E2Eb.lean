import TacklerModel.Lemmas.E2Eb
import TacklerModel.Props.E2E
import TacklerModel.Props.C05
import TacklerModel.Props.C07b
import TacklerModel.Props.C08
/-!
# E2Eb — end-to-end theorems, continued: git storage, strict mode, filters, price conversion, equity text

`Props/E2E.lean` establishes `Loaded st ts st'` from `loadText` / `loadFiles` and proves the report theorems once
from `Loaded`.  This file adds, in the same style (compositions of existing theorems, nothing re-proved):

| strengthens | theorems | composed from |
|---|---|---|
| C08 | `git_load_iff`, **`loaded_of_git`**, `loaded_of_git_to_txns`, `git_eq_fs_text`, `git_accept_balanced`, `git_balance_exact`, `git_register_exact`, `git_checksum_determines_set` | `C08.load_is_parse`, `C08.meta_commit_is_loaded`, `C08.git_eq_fs`, `Lemmas/E2Eb.parseAll_text`, `loaded_of_files`, `loaded_*` |
| C12 | **`text_strict_iff`**, `text_strict_iff_of_lax`, `files_strict_iff`, **`text_lax_chart_free`** | `C12.strict_iff_config`, `C12.lax_chart_free_config`, `AcceptOrder.loadFiles_eq` |
| C05 | **`text_filter_partition`** (`loaded_`, `files_`), `text_filter_balance_exact`, `text_filter_register_exact`, `text_filter_checksum_determines_set` | `C05.partition`, `filter_mem`, `filter_order`, `sel_filter`, `loaded_*` |
| C07 | **`text_priced_balance`** (`loaded_`, `files_`), `text_priced_register` (`loaded_`) | `C07b.balance_conv_own_sum`, `balance_conv_rows`, `applied_rateAt`, `register_conv_running_total`, `register_conv_last_total` with `loaded_postsWF_sel`, `loaded_txnsWF_sel` |
| C10 | `text_wf`, **`text_equity_text`** (`loaded_`, `files_`), `text_equity_reloads` | `Lemmas/E2Eb`: `parseJournal_eqChars` (C06's `parseTxnPosting_print`, `parseTxnHeader_print`, `repeat1_list`, `repeatTill1_list`), `equityText_chars`, `export_wf`; `C06.parseJournal_rawLex`, `C06.accept_wf`, `C10.equity_reparse`, `loaded_equity` |

No theorem here is `_partial`.  What stays explicit is content (see §5 for the equity text): the journal zone of the
source load is a fixed offset of whole minutes (`C06.CfgOK`, as in C06), the equity account is a valid name, the
metadata comment texts are single lines, the re-load is lax.
-/
set_option linter.unusedVariables false

namespace Tackler
namespace E2E
open Syntax KeyOrder Select

/-! ## 1. C08 — git storage establishes `Loaded` -/

/-- **git_load_iff**: the model's git load of a commit's tree, with the blobs read as journal texts (`gitText`),
    succeeds exactly when the selection of the files under `dir` with suffix `ext` succeeds and `paths_to_txns`
    (`loadFiles`) of the selected blobs' texts, in traversal order, succeeds — with the same transactions and
    settings. -/
theorem git_load_iff (cfg : Time.TsCfg) (blob : String → List Char) (dir ext : String) (st st' : Settings)
    (tree : List Entry) (ts : List Txn) :
    gitLoad (gitText cfg blob) dir ext st tree = .ok (ts, st') ↔
      ∃ sel, gitSelect dir ext tree = .ok sel ∧ loadFiles cfg st (sel.map (fun e => blob e.oid)) = .ok (ts, st') := by
  rw [C08.load_is_parse]
  constructor
  · rintro ⟨sel, ts0, st0, hs, hp, he⟩
    rw [parseAll_text] at hp
    obtain ⟨⟨tss, s⟩, hm, hx⟩ := (Outcome.map_ok _ _ _).mp hp
    simp only [Prod.mk.injEq] at hx he
    obtain ⟨rfl, rfl⟩ := hx
    obtain ⟨rfl, rfl⟩ := he
    exact ⟨sel, hs, by unfold loadFiles; rw [hm]; rfl⟩
  · rintro ⟨sel, hs, hl⟩
    unfold loadFiles at hl
    obtain ⟨⟨tss, s⟩, hm, hx⟩ := (Outcome.map_ok _ _ _).mp hl
    simp only [Prod.mk.injEq] at hx
    obtain ⟨rfl, rfl⟩ := hx
    exact ⟨sel, tss.flatten, s, hs, by rw [parseAll_text, hm]; rfl, rfl⟩

/-- **C08 end to end — `loaded_of_git`.**  A successful git load (selection of the commit's files under `dir` with
    suffix `ext`, then the parse of every selected blob's text, settings threaded, sort) establishes `Loaded`: so
    every `loaded_*` theorem of `Props/E2E.lean` holds for git storage. -/
theorem loaded_of_git (cfg : Time.TsCfg) (blob : String → List Char) (dir ext : String) (st st' : Settings)
    (tree : List Entry) (ts : List Txn)
    (h : gitLoad (gitText cfg blob) dir ext st tree = .ok (ts, st')) : Loaded st ts st' := by
  obtain ⟨sel, _, hl⟩ := (git_load_iff cfg blob dir ext st st' tree ts).mp h
  exact loaded_of_files cfg st st' _ ts hl

/-- the same for the whole of `git_to_txns` (selector resolution a parameter): the metadata names the commit whose
    tree was loaded, and the load establishes `Loaded` -/
theorem loaded_of_git_to_txns (resolve : Selector → Outcome Commit) (cfg : Time.TsCfg) (blob : String → List Char)
    (dir ext : String) (sel : Selector) (st st' : Settings) (md : GitMeta) (ts : List Txn)
    (h : gitToTxns resolve (gitText cfg blob) dir ext sel st = .ok ((md, ts), st')) :
    (∃ c, resolve sel = .ok c ∧ md.commit = c.id ∧
      ∃ files, gitSelect dir ext c.tree = .ok files ∧
        loadFiles cfg st (files.map (fun e => blob e.oid)) = .ok (ts, st')) ∧
    Loaded st ts st' := by
  obtain ⟨c, hc, hid, _, _, _, hl⟩ := C08.meta_commit_is_loaded resolve _ dir ext sel st st' md ts h
  exact ⟨⟨c, hc, hid, (git_load_iff cfg blob dir ext st st' c.tree ts).mp hl⟩,
    loaded_of_git cfg blob dir ext st st' c.tree ts hl⟩

/-- **git_eq_fs_text** (`C08.git_eq_fs` at text level): for a commit of regular files, if filesystem storage selects
    the files `fs` on a checkout of the commit, the git load succeeds exactly when `paths_to_txns` of the texts of
    these files does, with the same result. -/
theorem git_eq_fs_text (cfg : Time.TsCfg) (blob : String → List Char) (dir ext : String) (st st' : Settings)
    (tree : List Entry) (fs : List FsEntry) (ts : List Txn) (hl : hasLink tree = false)
    (hfs : fsSelect dir ext (checkout tree) = .ok fs) :
    gitLoad (gitText cfg blob) dir ext st tree = .ok (ts, st') ↔
      loadFiles cfg st (fs.map (fun f => blob f.content)) = .ok (ts, st') := by
  obtain ⟨sel, hs, hfe, _⟩ := C08.git_eq_fs hl hfs
  have e : fs.map (fun f => blob f.content) = sel.map (fun e => blob e.oid) := by
    rw [hfe, List.map_map]
    apply List.map_congr_left
    intro e _
    simp [C08.toFs_content]
  rw [git_load_iff, e]
  constructor
  · rintro ⟨sel', hs', h⟩
    rw [hs] at hs'
    cases hs'
    exact h
  · intro h; exact ⟨sel, hs, h⟩

/-- **C01 for git storage** — every transaction loaded from a commit is balanced in a single transaction commodity -/
theorem git_accept_balanced (cfg : Time.TsCfg) (blob : String → List Char) (dir ext : String) (st st' : Settings)
    (tree : List Entry) (ts : List Txn)
    (h : gitLoad (gitText cfg blob) dir ext st tree = .ok (ts, st')) :
    ∀ t ∈ ts, C01.Balanced t :=
  loaded_accept_balanced st st' ts (loaded_of_git cfg blob dir ext st st' tree ts h)

/-- **C02 for git storage** — the conclusion of `loaded_balance_exact`, for any selection of the transactions loaded
    from a commit -/
theorem git_balance_exact (cfg : Time.TsCfg) (blob : String → List Char) (dir ext : String) (st st' : Settings)
    (tree : List Entry) (ts : List Txn)
    (h : gitLoad (gitText cfg blob) dir ext st tree = .ok (ts, st'))
    (txns : List Txn) (hsel : ∀ t ∈ txns, t ∈ ts)
    (sb : Settings) (bal : List BalRow) (hb : balance sb (postsOf txns) = .ok bal) :
    (bal.map (·.key)).Pairwise (fun a b => keyLt a b = true) ∧
    (∀ k, k ∈ bal.map (·.key) ↔ C02.Posted (postsOf txns) k ∨ C02.ProperAncestor (postsOf txns) k) ∧
    (∀ row ∈ bal, row.own.units = C02.ownSum (postsOf txns) row.key ∧
                  row.tree.units = C02.treeSum (postsOf txns) row.key) :=
  loaded_balance_exact st st' ts (loaded_of_git cfg blob dir ext st st' tree ts h) txns hsel sb bal hb

/-- **C03 for git storage** — the conclusion of `loaded_register_exact`, for any selection of the transactions loaded
    from a commit -/
theorem git_register_exact (cfg : Time.TsCfg) (blob : String → List Char) (dir ext : String) (st st' : Settings)
    (tree : List Entry) (ts : List Txn)
    (h : gitLoad (gitText cfg blob) dir ext st tree = .ok (ts, st'))
    (txns : List Txn) (hsel : ∀ t ∈ txns, t ∈ ts)
    (es : List RegEntry) (hr : register selAll txns = .ok es) :
    es.map (·.txn) = txns ∧
    (∀ i e, es[i]? = some e → ∃ t, txns[i]? = some t ∧ e.txn = t ∧ e.rows.length = t.posts.length ∧
      ∀ j r, e.rows[j]? = some r → ∃ p, (C03.sortedPosts t)[j]? = some p ∧ r.post = p ∧ r.comm = p.comm ∧
        r.total.units = C03.postSum p.acctnKey ((txns.take i).flatMap (·.posts))
                          + C03.postSum p.acctnKey ((C03.sortedPosts t).take (j + 1))) ∧
    (∀ k, (∃ p ∈ postsOf txns, p.key = k) → ∃ r, C03.lastRow k (es.flatMap (·.rows)) = some r) ∧
    (∀ k r, C03.lastRow k (es.flatMap (·.rows)) = some r → r.total.units = C03.ownSpec txns k) :=
  loaded_register_exact st st' ts (loaded_of_git cfg blob dir ext st st' tree ts h) txns hsel es hr

/-- **C09 for git storage** — two selections of transactions of two commits (or of a commit and a text / file load:
    use `loaded_checksum_determines_set` with `loaded_of_git`): equal hashed messages ⇒ equal multisets of uuids -/
theorem git_checksum_determines_set (cfga cfgb : Time.TsCfg) (bloba blobb : String → List Char)
    (dira exta dirb extb : String) (sta sta' stb stb' : Settings) (treea treeb : List Entry) (tsa tsb : List Txn)
    (ha : gitLoad (gitText cfga bloba) dira exta sta treea = .ok (tsa, sta'))
    (hb : gitLoad (gitText cfgb blobb) dirb extb stb treeb = .ok (tsb, stb'))
    (a b : List Txn) (hsa : ∀ t ∈ a, t ∈ tsa) (hsb : ∀ t ∈ b, t ∈ tsb)
    (heq : C09.preimage a = C09.preimage b) : (C09.uuidsOf a).Perm (C09.uuidsOf b) :=
  loaded_checksum_determines_set sta sta' stb stb' tsa tsb (loaded_of_git cfga bloba dira exta sta sta' treea tsa ha)
    (loaded_of_git cfgb blobb dirb extb stb stb' treeb tsb hb) a b hsa hsb heq

/-! ## 2. C12 — strict mode, from text -/

/-- a text that parses loads like its parse trees: some accepted list, sorted -/
theorem loadText_ok_iff (cfg : Time.TsCfg) (st : Settings) (text : List Char) (rs : List RawTxn)
    (hp : parseJournal cfg text = some rs) (ts : List Txn) :
    (∃ s2, loadText cfg st text = .ok (ts, s2)) ↔ ∃ acc, ts = sortTxns acc ∧ ∃ s2, acceptJournal st rs = .ok (acc, s2) := by
  obtain ⟨hne, _⟩ := parseJournal_lex cfg text rs hp
  obtain ⟨r0, rt, rfl⟩ := List.exists_cons_of_ne_nil hne
  unfold loadText
  rw [hp]
  simp only [loadJournal]
  constructor
  · rintro ⟨s2, h⟩
    obtain ⟨⟨acc, s0⟩, ha, he⟩ := (Outcome.map_ok _ _ _).mp h
    simp only [Prod.mk.injEq] at he
    obtain ⟨rfl, rfl⟩ := he
    exact ⟨acc, rfl, s0, ha⟩
  · rintro ⟨acc, rfl, s2, ha⟩
    exact ⟨s2, by rw [ha]; rfl⟩

/-- **C12 end to end — `text_strict_iff`.**  For a text that parses (to the parse trees `rs`): the strict-mode load
    from the configured charts succeeds with transactions `ts` iff every account, commodity (posting, closing
    price) and tag the text uses is declared *and* the lax-mode load with the same switches succeeds with the same
    `ts`.  (`C12.strict_iff_config` has no representation hypothesis; what is discharged here is the step from the
    acceptor on parse trees to `string_to_txns` on text: at least one transaction, sort.) -/
theorem text_strict_iff (cfg : Time.TsCfg) (audit pe : Bool) (accts : List Path) (comms tags : List String)
    (text : List Char) (rs : List RawTxn) (hp : parseJournal cfg text = some rs) (ts : List Txn) :
    (∃ s2, loadText cfg (Settings.ofConfig true audit pe accts comms tags) text = .ok (ts, s2)) ↔
      ((∀ a ∈ C12.usedAccounts rs, a ∈ accts) ∧ (∀ c ∈ C12.usedCommodities rs, c ≠ "" → c ∈ comms) ∧
       (∀ t ∈ C12.usedTags rs, t ∈ tags)) ∧
      ∃ s2', loadText cfg (Settings.ofConfig false audit pe accts comms tags) text = .ok (ts, s2') := by
  rw [loadText_ok_iff cfg _ text rs hp ts, loadText_ok_iff cfg _ text rs hp ts]
  constructor
  · rintro ⟨acc, hts, h⟩
    obtain ⟨hd, h'⟩ := (C12.strict_iff_config audit pe accts comms tags rs acc).mp h
    exact ⟨hd, acc, hts, h'⟩
  · rintro ⟨hd, acc, hts, h'⟩
    exact ⟨acc, hts, (C12.strict_iff_config audit pe accts comms tags rs acc).mpr ⟨hd, h'⟩⟩

/-- **text_strict_iff_of_lax**: for a text that parses and that lax mode loads (to `ts`), strict mode with the same
    charts and switches loads it iff every account, commodity and tag the text uses is declared — and then to the
    same transactions `ts`. -/
theorem text_strict_iff_of_lax (cfg : Time.TsCfg) (audit pe : Bool) (accts : List Path) (comms tags : List String)
    (text : List Char) (rs : List RawTxn) (hp : parseJournal cfg text = some rs) (ts : List Txn) (s2' : Settings)
    (hlax : loadText cfg (Settings.ofConfig false audit pe accts comms tags) text = .ok (ts, s2')) :
    ((∃ ts' s2, loadText cfg (Settings.ofConfig true audit pe accts comms tags) text = .ok (ts', s2)) ↔
      ((∀ a ∈ C12.usedAccounts rs, a ∈ accts) ∧ (∀ c ∈ C12.usedCommodities rs, c ≠ "" → c ∈ comms) ∧
       (∀ t ∈ C12.usedTags rs, t ∈ tags))) ∧
    (∀ ts' s2, loadText cfg (Settings.ofConfig true audit pe accts comms tags) text = .ok (ts', s2) → ts' = ts) := by
  constructor
  · constructor
    · rintro ⟨ts', s2, h⟩
      exact ((text_strict_iff cfg audit pe accts comms tags text rs hp ts').mp ⟨s2, h⟩).1
    · intro hd
      obtain ⟨s2, h⟩ := (text_strict_iff cfg audit pe accts comms tags text rs hp ts).mpr ⟨hd, s2', hlax⟩
      exact ⟨ts, s2, h⟩
  · intro ts' s2 h
    obtain ⟨_, s3, h3⟩ := (text_strict_iff cfg audit pe accts comms tags text rs hp ts').mp ⟨s2, h⟩
    rw [hlax] at h3
    cases h3
    rfl

/-- a list of files that all parse loads like the concatenation of their parse trees -/
theorem loadFiles_ok_iff (cfg : Time.TsCfg) (st : Settings) (files : List (List Char)) (rss : List (List RawTxn))
    (hp : files.map (parseJournal cfg) = rss.map some) (ts : List Txn) :
    (∃ s2, loadFiles cfg st files = .ok (ts, s2)) ↔
      ∃ acc, ts = sortTxns acc ∧ ∃ s2, acceptJournal st rss.flatten = .ok (acc, s2) := by
  rw [AcceptOrder.loadFiles_eq cfg files rss st hp, AcceptOrder.loadTrees_eq]
  constructor
  · rintro ⟨s2, h⟩
    obtain ⟨⟨acc, s0⟩, ha, he⟩ := (Outcome.map_ok _ _ _).mp h
    simp only [Prod.mk.injEq] at he
    obtain ⟨rfl, rfl⟩ := he
    exact ⟨acc, rfl, s0, ha⟩
  · rintro ⟨acc, rfl, s2, ha⟩
    exact ⟨s2, by rw [ha]; rfl⟩

/-- **files_strict_iff**: `text_strict_iff` for `paths_to_txns` — a list of file texts that all parse (to `rss`) is
    loaded by strict mode iff every account, commodity and tag the files use is declared and lax mode with the same
    switches loads it, to the same transactions -/
theorem files_strict_iff (cfg : Time.TsCfg) (audit pe : Bool) (accts : List Path) (comms tags : List String)
    (files : List (List Char)) (rss : List (List RawTxn)) (hp : files.map (parseJournal cfg) = rss.map some)
    (ts : List Txn) :
    (∃ s2, loadFiles cfg (Settings.ofConfig true audit pe accts comms tags) files = .ok (ts, s2)) ↔
      ((∀ a ∈ C12.usedAccounts rss.flatten, a ∈ accts) ∧ (∀ c ∈ C12.usedCommodities rss.flatten, c ≠ "" → c ∈ comms) ∧
       (∀ t ∈ C12.usedTags rss.flatten, t ∈ tags)) ∧
      ∃ s2', loadFiles cfg (Settings.ofConfig false audit pe accts comms tags) files = .ok (ts, s2') := by
  rw [loadFiles_ok_iff cfg _ files rss hp ts, loadFiles_ok_iff cfg _ files rss hp ts]
  constructor
  · rintro ⟨acc, hts, h⟩
    obtain ⟨hd, h'⟩ := (C12.strict_iff_config audit pe accts comms tags rss.flatten acc).mp h
    exact ⟨hd, acc, hts, h'⟩
  · rintro ⟨hd, acc, hts, h'⟩
    exact ⟨acc, hts, (C12.strict_iff_config audit pe accts comms tags rss.flatten acc).mpr ⟨hd, h'⟩⟩

/-- **C12 end to end — `text_lax_chart_free`.**  With strict mode off, the outcome of loading a text (loaded /
    rejected / outside the exact numeric domain) and the loaded transactions — hence every report, which is computed
    from them — do not depend on the configured charts: any two charts give the same. -/
theorem text_lax_chart_free (cfg : Time.TsCfg) (audit pe : Bool) (accts accts' : List Path)
    (comms tags comms' tags' : List String) (text : List Char) :
    (loadText cfg (Settings.ofConfig false audit pe accts comms tags) text).map Prod.fst =
      (loadText cfg (Settings.ofConfig false audit pe accts' comms' tags') text).map Prod.fst := by
  unfold loadText
  cases parseJournal cfg text with
  | none => rfl
  | some rs =>
    cases rs with
    | nil => rfl
    | cons r0 rt =>
      have h := (C12.lax_chart_free_config audit pe accts comms tags (r0 :: rt)).trans
        (C12.lax_chart_free_config audit pe accts' comms' tags' (r0 :: rt)).symm
      simp only [loadJournal]
      generalize acceptJournal (Settings.ofConfig false audit pe accts comms tags) (r0 :: rt) = o at h
      generalize acceptJournal (Settings.ofConfig false audit pe accts' comms' tags') (r0 :: rt) = o' at h
      cases o <;> cases o' <;> simp_all [Outcome.map]

/-! ## 3. C05 — transaction filters on loaded text -/

/-- **C05 end to end — `loaded_filter_partition`.**  For the transactions loaded from text and any filter
    definition `f` (regular-expression matcher `m` a parameter): what `f` keeps and what its negation keeps are
    sublists of the loaded list (order kept, both in canonical order), together a permutation of it; every loaded
    transaction is in exactly one of the two; the kept ones are exactly those satisfying the documented predicate
    `C05.Sat`; and both are selections of the loaded transactions, so every report theorem of `Props/E2E.lean`
    (`hsel`) applies to them. -/
theorem loaded_filter_partition (st st' : Settings) (ts : List Txn) (hl : Loaded st ts st')
    (m : String → String → Bool) (f : Filter) :
    (filterTxns m f ts).Sublist ts ∧ (filterTxns m (.not f) ts).Sublist ts ∧
    (filterTxns m f ts ++ filterTxns m (.not f) ts).Perm ts ∧
    (∀ t ∈ ts, (t ∈ filterTxns m f ts ∧ t ∉ filterTxns m (.not f) ts) ∨
               (t ∉ filterTxns m f ts ∧ t ∈ filterTxns m (.not f) ts)) ∧
    (filterTxns m f ts).length + (filterTxns m (.not f) ts).length = ts.length ∧
    (∀ t, t ∈ filterTxns m f ts ↔ t ∈ ts ∧ C05.Sat m f t) ∧
    (filterTxns m f ts).Pairwise (fun a b => txnLe a b = true) ∧
    (filterTxns m (.not f) ts).Pairwise (fun a b => txnLe a b = true) ∧
    (∀ t ∈ filterTxns m f ts, t ∈ ts) ∧ (∀ t ∈ filterTxns m (.not f) ts, t ∈ ts) := by
  obtain ⟨h1, h2⟩ := C05.partition m f ts
  refine ⟨C05.filter_order m f ts, C05.filter_order m (.not f) ts, ?_, h1, h2, C05.filter_mem m f ts,
    (loaded_sorted st st' ts hl _).2, (loaded_sorted st st' ts hl _).2, sel_filter ts _, sel_filter ts _⟩
  rw [C05.partition_interleave]
  exact List.filter_append_perm _ ts

/-- **C05 end to end — `text_filter_partition`**: `loaded_filter_partition` for one text -/
theorem text_filter_partition (cfg : Time.TsCfg) (st st' : Settings) (text : List Char) (ts : List Txn)
    (h : loadText cfg st text = .ok (ts, st')) (m : String → String → Bool) (f : Filter) :
    (filterTxns m f ts).Sublist ts ∧ (filterTxns m (.not f) ts).Sublist ts ∧
    (filterTxns m f ts ++ filterTxns m (.not f) ts).Perm ts ∧
    (∀ t ∈ ts, (t ∈ filterTxns m f ts ∧ t ∉ filterTxns m (.not f) ts) ∨
               (t ∉ filterTxns m f ts ∧ t ∈ filterTxns m (.not f) ts)) ∧
    (filterTxns m f ts).length + (filterTxns m (.not f) ts).length = ts.length ∧
    (∀ t, t ∈ filterTxns m f ts ↔ t ∈ ts ∧ C05.Sat m f t) ∧
    (filterTxns m f ts).Pairwise (fun a b => txnLe a b = true) ∧
    (filterTxns m (.not f) ts).Pairwise (fun a b => txnLe a b = true) ∧
    (∀ t ∈ filterTxns m f ts, t ∈ ts) ∧ (∀ t ∈ filterTxns m (.not f) ts, t ∈ ts) :=
  loaded_filter_partition st st' ts (loaded_of_text cfg st st' text ts h) m f

/-- … and for a list of file texts -/
theorem files_filter_partition (cfg : Time.TsCfg) (st st' : Settings) (files : List (List Char)) (ts : List Txn)
    (h : loadFiles cfg st files = .ok (ts, st')) (m : String → String → Bool) (f : Filter) :
    (filterTxns m f ts).Sublist ts ∧ (filterTxns m (.not f) ts).Sublist ts ∧
    (filterTxns m f ts ++ filterTxns m (.not f) ts).Perm ts ∧
    (∀ t ∈ ts, (t ∈ filterTxns m f ts ∧ t ∉ filterTxns m (.not f) ts) ∨
               (t ∉ filterTxns m f ts ∧ t ∈ filterTxns m (.not f) ts)) ∧
    (filterTxns m f ts).length + (filterTxns m (.not f) ts).length = ts.length ∧
    (∀ t, t ∈ filterTxns m f ts ↔ t ∈ ts ∧ C05.Sat m f t) ∧
    (filterTxns m f ts).Pairwise (fun a b => txnLe a b = true) ∧
    (filterTxns m (.not f) ts).Pairwise (fun a b => txnLe a b = true) ∧
    (∀ t ∈ filterTxns m f ts, t ∈ ts) ∧ (∀ t ∈ filterTxns m (.not f) ts, t ∈ ts) :=
  loaded_filter_partition st st' ts (loaded_of_files cfg st st' files ts h) m f

/-- **text_filter_balance_exact**: `text_balance_exact` for the filtered selection of a loaded text (what
    `--api-filter-def` leaves for the balance report) -/
theorem text_filter_balance_exact (cfg : Time.TsCfg) (st st' : Settings) (text : List Char) (ts : List Txn)
    (h : loadText cfg st text = .ok (ts, st')) (m : String → String → Bool) (f : Filter)
    (sb : Settings) (bal : List BalRow) (hb : balance sb (postsOf (filterTxns m f ts)) = .ok bal) :
    (bal.map (·.key)).Pairwise (fun a b => keyLt a b = true) ∧
    (∀ k, k ∈ bal.map (·.key) ↔ C02.Posted (postsOf (filterTxns m f ts)) k ∨
                                 C02.ProperAncestor (postsOf (filterTxns m f ts)) k) ∧
    (∀ row ∈ bal, row.own.units = C02.ownSum (postsOf (filterTxns m f ts)) row.key ∧
                  row.tree.units = C02.treeSum (postsOf (filterTxns m f ts)) row.key) :=
  text_balance_exact cfg st st' text ts h (filterTxns m f ts) (sel_filter ts _) sb bal hb

/-- **text_filter_register_exact**: `text_register_exact` for the filtered selection of a loaded text -/
theorem text_filter_register_exact (cfg : Time.TsCfg) (st st' : Settings) (text : List Char) (ts : List Txn)
    (h : loadText cfg st text = .ok (ts, st')) (m : String → String → Bool) (f : Filter)
    (es : List RegEntry) (hr : register selAll (filterTxns m f ts) = .ok es) :
    es.map (·.txn) = filterTxns m f ts ∧
    (∀ i e, es[i]? = some e → ∃ t, (filterTxns m f ts)[i]? = some t ∧ e.txn = t ∧ e.rows.length = t.posts.length ∧
      ∀ j r, e.rows[j]? = some r → ∃ p, (C03.sortedPosts t)[j]? = some p ∧ r.post = p ∧ r.comm = p.comm ∧
        r.total.units = C03.postSum p.acctnKey (((filterTxns m f ts).take i).flatMap (·.posts))
                          + C03.postSum p.acctnKey ((C03.sortedPosts t).take (j + 1))) ∧
    (∀ k, (∃ p ∈ postsOf (filterTxns m f ts), p.key = k) → ∃ r, C03.lastRow k (es.flatMap (·.rows)) = some r) ∧
    (∀ k r, C03.lastRow k (es.flatMap (·.rows)) = some r → r.total.units = C03.ownSpec (filterTxns m f ts) k) :=
  text_register_exact cfg st st' text ts h (filterTxns m f ts) (sel_filter ts _) es hr

/-- **text_filter_checksum_determines_set**: two filters on one loaded text with the same hashed message select the
    same multiset of uuids (the checksum reported with a filtered set identifies the filtered set) -/
theorem text_filter_checksum_determines_set (cfg : Time.TsCfg) (st st' : Settings) (text : List Char) (ts : List Txn)
    (h : loadText cfg st text = .ok (ts, st')) (m : String → String → Bool) (f g : Filter)
    (heq : C09.preimage (filterTxns m f ts) = C09.preimage (filterTxns m g ts)) :
    (C09.uuidsOf (filterTxns m f ts)).Perm (C09.uuidsOf (filterTxns m g ts)) :=
  text_checksum_determines_set cfg cfg st st' st st' text text ts ts h h _ _ (sel_filter ts _) (sel_filter ts _) heq

/-! ## 4. C07 — price conversion on loaded text -/

open Tackler.Price Tackler.Priced in
/-- **C07 end to end — `loaded_priced_balance`.**  The balance report with price conversion on (any lookup type,
    report commodity `tgt`, price file `es`) over any selection `txns` of the transactions loaded from text,
    whenever it answers:
    * (figures) every listed own sum is the exact sum of the converted amounts of the postings summed under the
      row's key: own × 10²⁸ = Σ amount × rate over the converted postings + (Σ amount over the unconverted ones) × 10²⁸
      — unconverted postings enter with their own amount, untouched; tree sums are the sums at or below;
    * (rows) the rows are exactly the converted keys of the postings and their proper ancestors, sorted;
    * (rate) the entry applied to a posting is the documented one (`C07.RateAt`: source → report commodity, by the
      lookup type), none for a posting without commodity or already in the report commodity.
    `C02.PostsWF` of C07b's theorems is discharged by `loaded_postsWF_sel`. -/
theorem loaded_priced_balance (st st' : Settings) (ts : List Txn) (hl : Loaded st ts st')
    (txns : List Txn) (hsel : ∀ t ∈ txns, t ∈ ts)
    (sb : Settings) (sel : BalRow → Bool) (es : List PriceEntry) (tgt : String) (lk : PriceLookup) (hlk : lk ≠ .none)
    (b : Balance) (h : balanceConv sb sel lk (some tgt) (loadDb es) txns = .ok b) :
    (∃ cps, convertedPosts (reportCtx lk (some tgt) (loadDb es) txns) txns = .ok cps ∧ C02.PostsWF cps ∧
      fromIter sb sel cps = .ok b ∧
      ∀ row ∈ b.rows,
        row.own.units = C02.ownSum cps row.key ∧
        row.own.units * C07b.E28 = C07b.valueSum (C07b.rcache lk tgt (loadDb es) txns) tgt (C07b.pairsOf txns) row.key ∧
        row.own.units * C07b.E28 = C07b.ratedSum (C07b.rcache lk tgt (loadDb es) txns) tgt (C07b.pairsOf txns) row.key
                          + C07b.plainSum (C07b.rcache lk tgt (loadDb es) txns) tgt (C07b.pairsOf txns) row.key * C07b.E28 ∧
        row.tree.units = C02.treeSum cps row.key) ∧
    (∃ cps bal, convertedPosts (reportCtx lk (some tgt) (loadDb es) txns) txns = .ok cps ∧ balance sb cps = .ok bal ∧
      b.rows = bal.filter sel ∧
      (bal.map (·.key)).Pairwise (fun x y => keyLt x y = true) ∧
      ∀ k, k ∈ bal.map (·.key) ↔
        (∃ tp ∈ C07b.pairsOf txns, C07b.convKey (C07b.rcache lk tgt (loadDb es) txns) tgt tp = k) ∨
          C02.ProperAncestor cps k) ∧
    (∀ t ∈ txns, ∀ p ∈ t.posts,
      ((p.comm = "" ∨ p.comm = tgt) → C07.appliedEntry (C07b.rcache lk tgt (loadDb es) txns) tgt t p = none) ∧
      (p.comm ≠ "" → p.comm ≠ tgt →
        C07.RateAt (loadDb es) p.comm tgt (C07.lookupPred lk t.header.ts.ns)
          (C07.appliedEntry (C07b.rcache lk tgt (loadDb es) txns) tgt t p))) := by
  have hwf := loaded_postsWF_sel st st' ts hl txns hsel
  exact ⟨C07b.balance_conv_own_sum sb sel (loadDb es) txns tgt lk hlk hwf b h,
    C07b.balance_conv_rows sb sel (loadDb es) txns tgt lk hlk hwf b h,
    fun t ht p hp => C07b.applied_rateAt es txns tgt lk hlk t ht p hp⟩

open Tackler.Price Tackler.Priced in
/-- **C07 end to end — `text_priced_balance`**: `loaded_priced_balance` for one text -/
theorem text_priced_balance (cfg : Time.TsCfg) (st st' : Settings) (text : List Char) (ts : List Txn)
    (hload : loadText cfg st text = .ok (ts, st'))
    (txns : List Txn) (hsel : ∀ t ∈ txns, t ∈ ts)
    (sb : Settings) (sel : BalRow → Bool) (es : List PriceEntry) (tgt : String) (lk : PriceLookup) (hlk : lk ≠ .none)
    (b : Balance) (h : balanceConv sb sel lk (some tgt) (loadDb es) txns = .ok b) :
    (∃ cps, convertedPosts (reportCtx lk (some tgt) (loadDb es) txns) txns = .ok cps ∧ C02.PostsWF cps ∧
      fromIter sb sel cps = .ok b ∧
      ∀ row ∈ b.rows,
        row.own.units = C02.ownSum cps row.key ∧
        row.own.units * C07b.E28 = C07b.valueSum (C07b.rcache lk tgt (loadDb es) txns) tgt (C07b.pairsOf txns) row.key ∧
        row.own.units * C07b.E28 = C07b.ratedSum (C07b.rcache lk tgt (loadDb es) txns) tgt (C07b.pairsOf txns) row.key
                          + C07b.plainSum (C07b.rcache lk tgt (loadDb es) txns) tgt (C07b.pairsOf txns) row.key * C07b.E28 ∧
        row.tree.units = C02.treeSum cps row.key) ∧
    (∃ cps bal, convertedPosts (reportCtx lk (some tgt) (loadDb es) txns) txns = .ok cps ∧ balance sb cps = .ok bal ∧
      b.rows = bal.filter sel ∧
      (bal.map (·.key)).Pairwise (fun x y => keyLt x y = true) ∧
      ∀ k, k ∈ bal.map (·.key) ↔
        (∃ tp ∈ C07b.pairsOf txns, C07b.convKey (C07b.rcache lk tgt (loadDb es) txns) tgt tp = k) ∨
          C02.ProperAncestor cps k) ∧
    (∀ t ∈ txns, ∀ p ∈ t.posts,
      ((p.comm = "" ∨ p.comm = tgt) → C07.appliedEntry (C07b.rcache lk tgt (loadDb es) txns) tgt t p = none) ∧
      (p.comm ≠ "" → p.comm ≠ tgt →
        C07.RateAt (loadDb es) p.comm tgt (C07.lookupPred lk t.header.ts.ns)
          (C07.appliedEntry (C07b.rcache lk tgt (loadDb es) txns) tgt t p))) :=
  loaded_priced_balance st st' ts (loaded_of_text cfg st st' text ts hload) txns hsel sb sel es tgt lk hlk b h

open Tackler.Price Tackler.Priced in
/-- … and for a list of file texts -/
theorem files_priced_balance (cfg : Time.TsCfg) (st st' : Settings) (files : List (List Char)) (ts : List Txn)
    (hload : loadFiles cfg st files = .ok (ts, st'))
    (txns : List Txn) (hsel : ∀ t ∈ txns, t ∈ ts)
    (sb : Settings) (sel : BalRow → Bool) (es : List PriceEntry) (tgt : String) (lk : PriceLookup) (hlk : lk ≠ .none)
    (b : Balance) (h : balanceConv sb sel lk (some tgt) (loadDb es) txns = .ok b) :
    (∃ cps, convertedPosts (reportCtx lk (some tgt) (loadDb es) txns) txns = .ok cps ∧ C02.PostsWF cps ∧
      fromIter sb sel cps = .ok b ∧
      ∀ row ∈ b.rows,
        row.own.units = C02.ownSum cps row.key ∧
        row.own.units * C07b.E28 = C07b.valueSum (C07b.rcache lk tgt (loadDb es) txns) tgt (C07b.pairsOf txns) row.key ∧
        row.own.units * C07b.E28 = C07b.ratedSum (C07b.rcache lk tgt (loadDb es) txns) tgt (C07b.pairsOf txns) row.key
                          + C07b.plainSum (C07b.rcache lk tgt (loadDb es) txns) tgt (C07b.pairsOf txns) row.key * C07b.E28 ∧
        row.tree.units = C02.treeSum cps row.key) ∧
    (∃ cps bal, convertedPosts (reportCtx lk (some tgt) (loadDb es) txns) txns = .ok cps ∧ balance sb cps = .ok bal ∧
      b.rows = bal.filter sel ∧
      (bal.map (·.key)).Pairwise (fun x y => keyLt x y = true) ∧
      ∀ k, k ∈ bal.map (·.key) ↔
        (∃ tp ∈ C07b.pairsOf txns, C07b.convKey (C07b.rcache lk tgt (loadDb es) txns) tgt tp = k) ∨
          C02.ProperAncestor cps k) ∧
    (∀ t ∈ txns, ∀ p ∈ t.posts,
      ((p.comm = "" ∨ p.comm = tgt) → C07.appliedEntry (C07b.rcache lk tgt (loadDb es) txns) tgt t p = none) ∧
      (p.comm ≠ "" → p.comm ≠ tgt →
        C07.RateAt (loadDb es) p.comm tgt (C07.lookupPred lk t.header.ts.ns)
          (C07.appliedEntry (C07b.rcache lk tgt (loadDb es) txns) tgt t p))) :=
  loaded_priced_balance st st' ts (loaded_of_files cfg st st' files ts hload) txns hsel sb sel es tgt lk hlk b h

open Tackler.Price Tackler.Priced in
/-- **loaded_priced_register**: the register report with price conversion on over any selection of the transactions
    loaded from text: one entry per transaction; row `j` of entry `i` shows the posting, its converted key, the
    per-posting rate, and as running total the exact sum of the converted amounts under that key so far; the last
    total shown for a key is the own sum the converted balance report shows.  `C03.TxnsWF` discharged. -/
theorem loaded_priced_register (st st' : Settings) (ts : List Txn) (hl : Loaded st ts st')
    (txns : List Txn) (hsel : ∀ t ∈ txns, t ∈ ts)
    (db : List PriceEntry) (tgt : String) (lk : PriceLookup) (hlk : lk ≠ .none)
    (es : List RegEntry) (h : registerConv selAll lk (some tgt) db txns = .ok es) :
    (es.length = txns.length ∧
      ∀ i e, es[i]? = some e → ∃ t, txns[i]? = some t ∧ e.txn = t ∧ e.rows.length = t.posts.length ∧
        ∀ j r, e.rows[j]? = some r → ∃ p, (C03.sortedPosts t)[j]? = some p ∧ r.post = p ∧
          r.key = C07b.convKey (C07b.rcache lk tgt db txns) tgt (t, p) ∧
          r.rate = C07b.rateOf (C07.appliedEntry (C07b.rcache lk tgt db txns) tgt t p) (C07.isTimed (C07b.rcache lk tgt db txns)) ∧
          r.total.units * C07b.E28 =
            C07b.valueSum (C07b.rcache lk tgt db txns) tgt (C07b.pairsOf (txns.take i)) (C07b.convKey (C07b.rcache lk tgt db txns) tgt (t, p))
            + C07b.valueSum (C07b.rcache lk tgt db txns) tgt (((C03.sortedPosts t).take (j + 1)).map (fun q => (t, q)))
                (C07b.convKey (C07b.rcache lk tgt db txns) tgt (t, p))) ∧
    (∀ k r, C03.lastRow k (es.flatMap (·.rows)) = some r →
      (∃ cps, convertedPosts (reportCtx lk (some tgt) db txns) txns = .ok cps ∧ r.total.units = C02.ownSum cps k) ∧
      r.total.units * C07b.E28 = C07b.valueSum (C07b.rcache lk tgt db txns) tgt (C07b.pairsOf txns) k) := by
  have hwf := loaded_txnsWF_sel st st' ts hl txns hsel
  exact ⟨C07b.register_conv_running_total db txns tgt lk hlk hwf es h,
    fun k r hr => C07b.register_conv_last_total db txns tgt lk hlk hwf es h k r hr⟩

open Tackler.Price Tackler.Priced in
/-- **text_priced_register**: `loaded_priced_register` for one text -/
theorem text_priced_register (cfg : Time.TsCfg) (st st' : Settings) (text : List Char) (ts : List Txn)
    (hload : loadText cfg st text = .ok (ts, st'))
    (txns : List Txn) (hsel : ∀ t ∈ txns, t ∈ ts)
    (db : List PriceEntry) (tgt : String) (lk : PriceLookup) (hlk : lk ≠ .none)
    (es : List RegEntry) (h : registerConv selAll lk (some tgt) db txns = .ok es) :
    (es.length = txns.length ∧
      ∀ i e, es[i]? = some e → ∃ t, txns[i]? = some t ∧ e.txn = t ∧ e.rows.length = t.posts.length ∧
        ∀ j r, e.rows[j]? = some r → ∃ p, (C03.sortedPosts t)[j]? = some p ∧ r.post = p ∧
          r.key = C07b.convKey (C07b.rcache lk tgt db txns) tgt (t, p) ∧
          r.rate = C07b.rateOf (C07.appliedEntry (C07b.rcache lk tgt db txns) tgt t p) (C07.isTimed (C07b.rcache lk tgt db txns)) ∧
          r.total.units * C07b.E28 =
            C07b.valueSum (C07b.rcache lk tgt db txns) tgt (C07b.pairsOf (txns.take i)) (C07b.convKey (C07b.rcache lk tgt db txns) tgt (t, p))
            + C07b.valueSum (C07b.rcache lk tgt db txns) tgt (((C03.sortedPosts t).take (j + 1)).map (fun q => (t, q)))
                (C07b.convKey (C07b.rcache lk tgt db txns) tgt (t, p))) ∧
    (∀ k r, C03.lastRow k (es.flatMap (·.rows)) = some r →
      (∃ cps, convertedPosts (reportCtx lk (some tgt) db txns) txns = .ok cps ∧ r.total.units = C02.ownSum cps k) ∧
      r.total.units * C07b.E28 = C07b.valueSum (C07b.rcache lk tgt db txns) tgt (C07b.pairsOf txns) k) :=
  loaded_priced_register st st' ts (loaded_of_text cfg st st' text ts hload) txns hsel db tgt lk hlk es h

/-! ## 5. C10 — the equity export re-loads as TEXT

`C10.equity_reparse` / `equity_carries` are stated for the parse trees `EqTxn.toRaw` the generated text denotes.
Here they are lifted to the text itself: the text `Tackler.equityText` writes for an export of transactions loaded
from text is accepted by `loadText` (`string_to_txns`), the loaded transactions are the generated ones, and their
balance carries the selected balances of the source.

The print/parse round trip is C06's, line by line (`Lemmas/E2Eb.lean` §2, §3); its well-formedness hypotheses are
discharged for equity transactions (`export_wf`): account and commodity names are those of postings loaded from
text, amounts are own sums of a balance (representable), the description is built from a commodity name and a uuid,
the timestamp is that of a loaded transaction.  What stays explicit:
* `C06.CfgOK cfg` for the *source* load — the journal zone is a fixed offset of whole minutes, as in C06's
  `roundtrip_text`: otherwise a loaded timestamp may carry an offset with seconds, which `rfc_3339` prints but the
  grammar does not read back (finding F13);
* the two configuration parameters that are printed verbatim: the equity account is a valid account name
  (`AcctLex eqa`) and the metadata comment texts `md` (a parameter of the model: hashes, filter descriptions)
  are single lines;
* `C10.Lax` for the settings of the re-load (lax, no audit, empty commodity permitted), as in `C10.equity_reparse`. -/

/-- every transaction loaded from a text under a fixed-offset journal zone satisfies C06's `WF` (what the export can
    print re-parsably): `C06.parseJournal_rawLex` + `C06.accept_wf` -/
theorem text_wf (cfg : Time.TsCfg) (hcfg : C06.CfgOK cfg) (st st' : Settings) (text : List Char) (ts : List Txn)
    (h : loadText cfg st text = .ok (ts, st')) : ∀ t ∈ ts, C06.WF div0 t := by
  obtain ⟨rs, acc, hp, _, _, hacc, rfl, _⟩ := load_inv cfg st st' text ts h
  obtain ⟨_, hlex⟩ := C06.parseJournal_rawLex cfg hcfg text rs hp
  intro t ht
  obtain ⟨r, hr, s1, s2, hf⟩ := mapMS_ok acceptTxn rs st st' acc hacc t ((mem_sortTxns acc t).mp ht)
  exact C06.accept_wf div0 s1 s2 r t hf (hlex r hr)
    (fun _ _ _ => ⟨by simp [div0, Dec.zero], by simp [div0, Dec.zero], by simp [div0, Dec.zero]⟩)

/-- … and so does every transaction loaded from a list of file texts -/
theorem files_wf (cfg : Time.TsCfg) (hcfg : C06.CfgOK cfg) (st st' : Settings) (files : List (List Char)) (ts : List Txn)
    (h : loadFiles cfg st files = .ok (ts, st')) : ∀ t ∈ ts, C06.WF div0 t := by
  obtain ⟨rss, acc, hrss, _, hacc, rfl⟩ := files_inv cfg st st' files ts h
  have hlex : ∀ r ∈ rss.flatten, C06.RawLex r := by
    intro r hr
    obtain ⟨rs, hrs, hrr⟩ := List.mem_flatten.mp hr
    have hm : some rs ∈ files.map (parseJournal cfg) := by rw [hrss]; exact List.mem_map.mpr ⟨rs, hrs, rfl⟩
    obtain ⟨f, _, hf⟩ := List.mem_map.mp hm
    exact (C06.parseJournal_rawLex cfg hcfg f rs hf).2 r hrr
  intro t ht
  obtain ⟨r, hr, s1, s2, hf⟩ := mapMS_ok acceptTxn rss.flatten st st' acc hacc t ((mem_sortTxns acc t).mp ht)
  exact C06.accept_wf div0 s1 s2 r t hf (hlex r hr)
    (fun _ _ _ => ⟨by simp [div0, Dec.zero], by simp [div0, Dec.zero], by simp [div0, Dec.zero]⟩)

/-- a successful load keeps the switches: lax settings stay lax -/
theorem loaded_lax (st st' : Settings) (ts : List Txn) (hl : Loaded st ts st') (hlax : C10.Lax st) : C10.Lax st' := by
  obtain ⟨rs, acc, _, hacc, _⟩ := hl
  have hf := (C12.acceptJournal_grow st rs acc st' hacc).1.flags
  simp only [C12.Flags, Prod.mk.injEq] at hf
  obtain ⟨h1, h2, h3⟩ := hlax
  exact ⟨hf.1.trans h1, hf.2.1.trans h2, hf.2.2.trans h3⟩

/-- settings built from a configuration with strict and audit mode off and the empty commodity permitted are `Lax`,
    whatever the charts -/
theorem ofConfig_lax (accts : List Path) (comms tags : List String) :
    C10.Lax (Settings.ofConfig false false true accts comms tags) := by
  obtain ⟨h1, h2, h3, _⟩ := C12.ofConfig_strict false false true accts comms tags
  exact ⟨h1, h2, h3⟩

/-- **C10 end to end — `loaded_equity_text`.**  The equity export over any selection `txns` of transactions loaded
    from text (each satisfying `C06.WF`: see `text_wf`), with a valid equity account name and one-line metadata
    comments, whenever the exporter answers with `out`:
    * (text) the exporter's text exists: `equityText out = some s`;
    * (parse) if something was generated, the journal grammar — with any journal zone — maps that text to exactly
      the parse trees `EqTxn.toRaw` of the generated transactions, in order;
    * (re-load) from any lax settings `s1`, `string_to_txns` (`loadText`) accepts the text; the loaded list is the
      sorted list of the generated transactions `C10.toTxn` — a permutation of them, one per generated
      transaction, i.e. one per commodity with a selected non-zero row (`loaded_equity`, shape clause) —, each
      `C01.Balanced`; the settings stay lax;
    * (carries) if the equity account is not itself selected, every selected non-zero (commodity, account) has in
      the re-loaded text the same own sum as in the source, which is the figure its balance row shows. -/
theorem loaded_equity_text (st st' : Settings) (ts : List Txn) (hl : Loaded st ts st')
    (hwf : ∀ t ∈ ts, C06.WF div0 t)
    (txns : List Txn) (hsel : ∀ t ∈ txns, t ∈ ts)
    (sb : Settings) (acc : Option (Path → Bool)) (eqa : Path) (md : List String) (out : List EqTxn)
    (he : equityExport sb acc eqa md txns = .ok out)
    (heqa : AcctLex eqa) (hmd : ∀ c ∈ md, LineText c.toList) :
    ∃ s, equityText out = some s ∧
      (out ≠ [] → ∀ cfg', parseJournal cfg' s.toList = some (out.map EqTxn.toRaw)) ∧
      (out ≠ [] → ∀ cfg' s1, C10.Lax s1 →
        ∃ ts' s2, loadText cfg' s1 s.toList = .ok (ts', s2) ∧ C10.Lax s2 ∧
          ts' = sortTxns (out.map C10.toTxn) ∧ ts'.Perm (out.map C10.toTxn) ∧ ts'.length = out.length ∧
          (∀ t ∈ ts', C01.Balanced t) ∧
          (∀ all, balance sb (postsOf txns) = .ok all → (∀ r ∈ C10.selRows acc all, r.acct ≠ eqa) →
            ∀ r ∈ C10.selRows acc all,
              C10.ownSpec (postsOf ts') r.key = C10.ownSpec (postsOf txns) r.key ∧
              r.own.units = C10.ownSpec (postsOf txns) r.key)) := by
  have hpw := loaded_postsWF_sel st st' ts hl txns hsel
  have hw := export_wf sb acc eqa md txns out (fun t ht => hwf t (hsel t ht)) hpw he heqa hmd
  obtain ⟨s, hs⟩ := equityText_some out (fun t ht => (hw t ht).ts)
  have hchars := equityText_chars out s hs
  obtain ⟨_, haccepts, hcarries⟩ := loaded_equity st st' ts hl txns hsel sb acc eqa md out he
  refine ⟨s, hs, ?_, ?_⟩
  · intro hne cfg'
    rw [hchars]
    exact parseJournal_eqChars cfg' out hne hw
  · intro hne cfg' s1 hl1
    obtain ⟨s2, hload, hl2⟩ := (C10.equity_reparse sb acc eqa md txns out he s1 hl1).2 hne
    have hperm : (sortTxns (out.map C10.toTxn)).Perm (out.map C10.toTxn) := sortTxns_perm _
    refine ⟨_, s2, ?_, hl2, rfl, hperm, by rw [hperm.length_eq, List.length_map], ?_, ?_⟩
    · unfold loadText
      rw [hchars, parseJournal_eqChars cfg' out hne hw]
      exact hload
    · intro t ht
      obtain ⟨e, hem, rfl⟩ := List.mem_map.mp (hperm.mem_iff.mp ht)
      obtain ⟨_, _, _, hb⟩ := haccepts s1 hl1 e hem
      exact hb
    · intro all hall hne' r hr
      exact hcarries all hall hne' s1 s2 _ hl1 hload r hr

/-- **C10 end to end — `text_equity_text`.**  `loaded_equity_text` for a text loaded under a fixed-offset journal
    zone of whole minutes (`C06.CfgOK`): the text of an equity export over any selection of its transactions parses
    to the generated transactions, re-loads from any lax settings, and carries the selected balances. -/
theorem text_equity_text (cfg : Time.TsCfg) (hcfg : C06.CfgOK cfg) (st st' : Settings) (text : List Char)
    (ts : List Txn) (h : loadText cfg st text = .ok (ts, st'))
    (txns : List Txn) (hsel : ∀ t ∈ txns, t ∈ ts)
    (sb : Settings) (acc : Option (Path → Bool)) (eqa : Path) (md : List String) (out : List EqTxn)
    (he : equityExport sb acc eqa md txns = .ok out)
    (heqa : AcctLex eqa) (hmd : ∀ c ∈ md, LineText c.toList) :
    ∃ s, equityText out = some s ∧
      (out ≠ [] → ∀ cfg', parseJournal cfg' s.toList = some (out.map EqTxn.toRaw)) ∧
      (out ≠ [] → ∀ cfg' s1, C10.Lax s1 →
        ∃ ts' s2, loadText cfg' s1 s.toList = .ok (ts', s2) ∧ C10.Lax s2 ∧
          ts' = sortTxns (out.map C10.toTxn) ∧ ts'.Perm (out.map C10.toTxn) ∧ ts'.length = out.length ∧
          (∀ t ∈ ts', C01.Balanced t) ∧
          (∀ all, balance sb (postsOf txns) = .ok all → (∀ r ∈ C10.selRows acc all, r.acct ≠ eqa) →
            ∀ r ∈ C10.selRows acc all,
              C10.ownSpec (postsOf ts') r.key = C10.ownSpec (postsOf txns) r.key ∧
              r.own.units = C10.ownSpec (postsOf txns) r.key)) :=
  loaded_equity_text st st' ts (loaded_of_text cfg st st' text ts h) (text_wf cfg hcfg st st' text ts h)
    txns hsel sb acc eqa md out he heqa hmd

/-- **C10 end to end — `files_equity_text`**: the same for a list of file texts -/
theorem files_equity_text (cfg : Time.TsCfg) (hcfg : C06.CfgOK cfg) (st st' : Settings) (files : List (List Char))
    (ts : List Txn) (h : loadFiles cfg st files = .ok (ts, st'))
    (txns : List Txn) (hsel : ∀ t ∈ txns, t ∈ ts)
    (sb : Settings) (acc : Option (Path → Bool)) (eqa : Path) (md : List String) (out : List EqTxn)
    (he : equityExport sb acc eqa md txns = .ok out)
    (heqa : AcctLex eqa) (hmd : ∀ c ∈ md, LineText c.toList) :
    ∃ s, equityText out = some s ∧
      (out ≠ [] → ∀ cfg', parseJournal cfg' s.toList = some (out.map EqTxn.toRaw)) ∧
      (out ≠ [] → ∀ cfg' s1, C10.Lax s1 →
        ∃ ts' s2, loadText cfg' s1 s.toList = .ok (ts', s2) ∧ C10.Lax s2 ∧
          ts' = sortTxns (out.map C10.toTxn) ∧ ts'.Perm (out.map C10.toTxn) ∧ ts'.length = out.length ∧
          (∀ t ∈ ts', C01.Balanced t) ∧
          (∀ all, balance sb (postsOf txns) = .ok all → (∀ r ∈ C10.selRows acc all, r.acct ≠ eqa) →
            ∀ r ∈ C10.selRows acc all,
              C10.ownSpec (postsOf ts') r.key = C10.ownSpec (postsOf txns) r.key ∧
              r.own.units = C10.ownSpec (postsOf txns) r.key)) :=
  loaded_equity_text st st' ts (loaded_of_files cfg st st' files ts h) (files_wf cfg hcfg st st' files ts h)
    txns hsel sb acc eqa md out he heqa hmd

/-- **text_equity_reloads**: the two re-loads the property names — the export text of a lax load is accepted from
    the settings that load left behind (`st'`, appending the export to the running session) and from fresh settings
    of a lax configuration with any charts (a new journal starting from the export), in both cases to the sorted
    generated transactions. -/
theorem text_equity_reloads (cfg : Time.TsCfg) (hcfg : C06.CfgOK cfg) (st st' : Settings) (text : List Char)
    (ts : List Txn) (h : loadText cfg st text = .ok (ts, st')) (hlax : C10.Lax st)
    (txns : List Txn) (hsel : ∀ t ∈ txns, t ∈ ts)
    (sb : Settings) (acc : Option (Path → Bool)) (eqa : Path) (md : List String) (out : List EqTxn)
    (he : equityExport sb acc eqa md txns = .ok out) (hne : out ≠ [])
    (heqa : AcctLex eqa) (hmd : ∀ c ∈ md, LineText c.toList)
    (cfg' : Time.TsCfg) (accts : List Path) (comms tags : List String) :
    ∃ s, equityText out = some s ∧
      (∃ s2, loadText cfg' st' s.toList = .ok (sortTxns (out.map C10.toTxn), s2)) ∧
      (∃ s2, loadText cfg' (Settings.ofConfig false false true accts comms tags) s.toList
                = .ok (sortTxns (out.map C10.toTxn), s2)) := by
  obtain ⟨s, hs, _, hre⟩ := text_equity_text cfg hcfg st st' text ts h txns hsel sb acc eqa md out he heqa hmd
  refine ⟨s, hs, ?_, ?_⟩
  · obtain ⟨ts', s2, hl, _, rfl, _⟩ := hre hne cfg' st' (loaded_lax st st' ts (loaded_of_text cfg st st' text ts h) hlax)
    exact ⟨s2, hl⟩
  · obtain ⟨ts', s2, hl, _, rfl, _⟩ := hre hne cfg' _ (ofConfig_lax accts comms tags)
    exact ⟨s2, hl⟩

/-! ## 6. non-vacuity: the hypotheses of the theorems of this file on concrete texts (`E2E.Ex`: `sample`, `fileA`, `fileB`) -/
namespace Ex
open Tackler.Price Tackler.Priced

/-! ### git storage: a commit with two journal files under `txns/`, a near-miss and a file elsewhere -/

def blob (oid : String) : List Char :=
  match oid.toList with
  | ['A'] => fileA
  | ['B'] => fileB
  | _ => "not a journal".toList

def tree : List Entry := [⟨.tree, "txns", "t"⟩, ⟨.blob, "txns/a.txn", "A"⟩, ⟨.blobExe, "txns/b.txn", "B"⟩,
  ⟨.blob, "txns/readme.txt", "R"⟩, ⟨.blob, "txnsold/c.txn", "C"⟩, ⟨.blob, "other/d.txn", "D"⟩]

theorem tree_selects : gitSelect "txns" "txn" tree = .ok [⟨.blob, "txns/a.txn", "A"⟩, ⟨.blobExe, "txns/b.txn", "B"⟩] := by
  decide

theorem tree_blobs : ([⟨.blob, "txns/a.txn", "A"⟩, ⟨.blobExe, "txns/b.txn", "B"⟩] : List Entry).map (fun e => blob e.oid)
    = [fileA, fileB] := by decide

/-- the git load of the commit succeeds (the near-miss `txnsold/c.txn`, `readme.txt` and `other/d.txn` are not
    journals and would fail it, were they selected) … -/
theorem tree_loads : ∃ ts st', gitLoad (gitText utc blob) "txns" "txn" lax0 tree = .ok (ts, st') := by
  obtain ⟨ts, st', h⟩ := files_load
  exact ⟨ts, st', (git_load_iff utc blob "txns" "txn" lax0 st' tree ts).mpr ⟨_, tree_selects, by rw [tree_blobs]; exact h⟩⟩

/-- … establishes `Loaded`, and its transactions are balanced (`git_accept_balanced`) -/
example : ∃ ts st', gitLoad (gitText utc blob) "txns" "txn" lax0 tree = .ok (ts, st') ∧ Loaded lax0 ts st' ∧
    ∀ t ∈ ts, C01.Balanced t := by
  obtain ⟨ts, st', h⟩ := tree_loads
  exact ⟨ts, st', h, loaded_of_git utc blob "txns" "txn" lax0 st' tree ts h,
    git_accept_balanced utc blob "txns" "txn" lax0 st' tree ts h⟩

/-! ### strict mode from text -/

def chart : List Path := [["a", "b"], ["a", "bc"], ["e"], ["f"]]

/-- lax mode with a chart loads the sample to the same transactions as without (`text_lax_chart_free`) -/
theorem sample_loads_chart : ∃ s2, loadText utc (Settings.ofConfig false false true chart [] []) sample = .ok ([t1, t2], s2) := by
  have h := text_lax_chart_free utc false true chart [] [] [] [] [] sample
  have h0 : loadText utc (Settings.ofConfig false false true [] [] []) sample = .ok ([t1, t2], stAfter) := sample_loads
  rw [h0] at h
  cases hl : loadText utc (Settings.ofConfig false false true chart [] []) sample with
  | ok r => rw [hl] at h; obtain ⟨ts, s2⟩ := r; simp only [Outcome.map, Outcome.ok.injEq] at h; exact ⟨s2, by rw [h]⟩
  | err => rw [hl] at h; cases h
  | undef => rw [hl] at h; cases h

/-- every account the sample uses is declared in `chart` (no commodity, no tag is used): strict mode loads it … -/
example : ∃ s2, loadText utc (Settings.ofConfig true false true chart [] []) sample = .ok ([t1, t2], s2) :=
  (text_strict_iff utc false true chart [] [] sample [r1, r2] sample_parses [t1, t2]).mpr
    ⟨⟨by decide, by decide, by decide⟩, sample_loads_chart⟩

/-- … and without `f` in the chart it does not, although lax mode does (`text_strict_iff_of_lax`) -/
example : ¬ ∃ ts' s2, loadText utc (Settings.ofConfig true false true [["a", "b"], ["a", "bc"], ["e"]] [] []) sample = .ok (ts', s2) := by
  have h := text_lax_chart_free utc false true [["a", "b"], ["a", "bc"], ["e"]] [] [] [] [] [] sample
  have h0 : loadText utc (Settings.ofConfig false false true [] [] []) sample = .ok ([t1, t2], stAfter) := sample_loads
  rw [h0] at h
  cases hl : loadText utc (Settings.ofConfig false false true [["a", "b"], ["a", "bc"], ["e"]] [] []) sample with
  | ok r =>
    obtain ⟨ts, s2⟩ := r
    intro hs
    have hd := ((text_strict_iff_of_lax utc false true _ [] [] sample [r1, r2] sample_parses ts s2 hl).1.mp hs).1
    exact absurd (hd ["f"] (by decide)) (by decide)
  | err => rw [hl] at h; cases h
  | undef => rw [hl] at h; cases h

/-! ### filters -/

/-- the filter "code is `c2`" keeps the second transaction of the sample, its negation the first -/
example : filterTxns C05.mEq (.code "c2") [t1, t2] = [t2] ∧ filterTxns C05.mEq (.not (.code "c2")) [t1, t2] = [t1] := by
  decide

example : (filterTxns C05.mEq (.code "c2") [t1, t2] ++ filterTxns C05.mEq (.not (.code "c2")) [t1, t2]).Perm [t1, t2] :=
  (text_filter_partition utc lax0 stAfter sample [t1, t2] sample_loads C05.mEq (.code "c2")).2.2.1


/-! ### the equity export of the sample, as text -/

def eq1 : EqTxn := ⟨⟨1704153600000000000, 0⟩, "Equity", [],
  [⟨["a", "b"], ⟨false, 150, 2⟩, ""⟩, ⟨["f"], ⟨true, 35, 1⟩, ""⟩, ⟨["Equity"], ⟨false, 200, 2⟩, ""⟩]⟩

def eqText : String := "2024-01-02T00:00:00+00:00 'Equity\n   a:b  1.50\n   f  -3.5\n   Equity  2.00\n\n"

set_option maxRecDepth 20000 in
/-- the exact text of the export of `sample_equity` -/
theorem sample_equity_text : equityText [eq1] = some eqText := by decide

theorem acctLex_Equity : AcctLex ["Equity"] :=
  ⟨["Equity".toList], ⟨"Equity".toList, [], rfl, ⟨'E', "quity".toList, by decide, by decide, by decide⟩,
    fun _ h => by cases h⟩, by decide, by decide⟩

/-- `text_equity_text` on it: the export text re-loads from fresh lax settings to the generated transaction … -/
theorem sample_equity_reloads : ∃ s2, loadText utc lax0 eqText.toList = .ok (sortTxns [C10.toTxn eq1], s2) := by
  obtain ⟨s, hs, _, hre⟩ := text_equity_text utc C06.cfgOK_utc lax0 stAfter sample [t1, t2] sample_loads [t1, t2]
    (sel_all _) stAfter eqSel ["Equity"] [] [eq1] sample_equity acctLex_Equity (fun _ h => by cases h)
  rw [sample_equity_text] at hs
  have e := Option.some.inj hs
  subst e
  obtain ⟨ts', s2, hl, _, rfl, _⟩ := hre (by simp) utc lax0 (ofConfig_lax [] [] [])
  exact ⟨s2, hl⟩

set_option maxRecDepth 40000 in
/-- … which the grammar confirms by evaluation (independent of the theorem) -/
example : parseJournal utc eqText.toList = some [eq1.toRaw] := by decide


/-- `text_equity_reloads` on it: the export text is accepted from the settings the first load left behind and from
    fresh settings of a lax configuration with a chart -/
example : ∃ s, equityText [eq1] = some s ∧
    (∃ s2, loadText utc stAfter s.toList = .ok (sortTxns [C10.toTxn eq1], s2)) ∧
    (∃ s2, loadText utc (Settings.ofConfig false false true chart ["EUR"] []) s.toList = .ok (sortTxns [C10.toTxn eq1], s2)) :=
  text_equity_reloads utc C06.cfgOK_utc lax0 stAfter sample [t1, t2] sample_loads (ofConfig_lax [] [] []) [t1, t2]
    (sel_all _) stAfter eqSel ["Equity"] [] [eq1] sample_equity (by simp) acctLex_Equity (fun _ h => by cases h)
    utc chart ["EUR"] []

def eqBad : EqTxn := ⟨⟨1704153600000000000, 0⟩, "Equity", [],
  [⟨["a", "b"], ⟨false, 150, 2⟩, ""⟩, ⟨["f"], ⟨true, 35, 1⟩, ""⟩, ⟨["E q"], ⟨false, 200, 2⟩, ""⟩]⟩

set_option maxRecDepth 40000 in
/-- boundary: the hypothesis `AcctLex eqa` of `text_equity_text` cannot be dropped — lax mode does not validate the
    configured equity account, the export prints it verbatim, and with a blank in it the text is not a journal -/
example : equityText [eqBad] = some "2024-01-02T00:00:00+00:00 'Equity\n   a:b  1.50\n   f  -3.5\n   E q  2.00\n\n" ∧
    parseJournal utc "2024-01-02T00:00:00+00:00 'Equity\n   a:b  1.50\n   f  -3.5\n   E q  2.00\n\n".toList = none := by
  decide

set_option maxRecDepth 40000 in
/-- boundary: nor can "the metadata comment texts are single lines" — a comment text with a newline is printed
    verbatim and the export is not a journal -/
example : (equityText [{ eq1 with comments := ["x\ny"] }]).map (fun s => parseJournal utc s.toList) = some none := by
  decide

/-! ### price conversion on a loaded text: `a 2 USD`, `b` (implicit −2 USD), price file `USD → EUR` at 3 -/

def usdText : List Char := "2024-01-01 'fx\n a 2 USD\n b\n".toList
def hU : Header := ⟨⟨1704067200000000000, 0⟩, none, some "fx", none, none, none, none⟩
def tU : Txn := ⟨hU, [⟨["a"], "USD", ⟨false, 2, 0⟩, ⟨false, 2, 0⟩, false, "USD", none⟩,
  ⟨["b"], "USD", ⟨true, 2, 0⟩, ⟨true, 2, 0⟩, false, "USD", none⟩]⟩
def stU : Settings := ⟨false, false, true, [["a"], ["b"]], [], ["USD"], []⟩
def esU : List PriceEntry := [⟨1, "USD", Dec.ofInt 3, "EUR"⟩]

set_option maxRecDepth 40000 in
theorem usd_loads : loadText utc lax0 usdText = .ok ([tU], stU) := by
  have h : acceptText utc lax0 usdText = .ok ([tU], stU) := by decide
  rw [load_of_acceptText utc lax0 stU usdText [tU] h]
  unfold sortTxns
  rw [List.mergeSort_of_pairwise (by decide)]

theorem usd_db : loadDb esU = esU := by
  simp [loadDb, esU, dedup, dedupFrom]

theorem usd_used : usedCommodities [tU] "EUR" = ["USD"] := by
  simp [usedCommodities, tU, btreeSet, List.mergeSort, List.eraseDups]
  decide

theorem usd_ctx : reportCtx .lastPrice (some "EUR") (loadDb esU) [tU] = ⟨.fixed [("USD", (1, Dec.ofInt 3))], some "EUR"⟩ := by
  have hc : fixedCache ["USD"] "EUR" none esU = [("USD", (1, Dec.ofInt 3))] := by decide
  simp only [reportCtx, makeCtx, usd_db, usd_used, hc]

def balU : Balance := ⟨[⟨["a"], "EUR", ⟨false, 6, 0⟩, ⟨false, 6, 0⟩⟩, ⟨["b"], "EUR", ⟨true, 6, 0⟩, ⟨true, 6, 0⟩⟩],
  [("EUR", ⟨false, 0, 0⟩)]⟩

/-- the converted balance of the loaded text is inside the exact domain: 2 USD × 3 = 6 EUR -/
theorem usd_balanceConv : balanceConv stU (fun _ => true) .lastPrice (some "EUR") (loadDb esU) [tU] = .ok balU := by
  have hcv : convertedPosts ⟨.fixed [("USD", (1, Dec.ofInt 3))], some "EUR"⟩ [tU]
      = .ok [⟨["a"], "EUR", ⟨false, 6, 0⟩⟩, ⟨["b"], "EUR", ⟨true, 6, 0⟩⟩] := by decide
  unfold balanceConv balanceOfConv
  rw [usd_ctx, hcv]
  simp only [Outcome.bind]
  exact C13.fromIter_eval stU (fun _ => true) _
    [(("EUR", ["a"]), ⟨false, 6, 0⟩), (("EUR", ["b"]), ⟨true, 6, 0⟩)]
    [(("EUR", ["a"]), ⟨false, 6, 0⟩), (("EUR", ["b"]), ⟨true, 6, 0⟩)]
    balU.rows balU.deltas (by decide) (by decide) (by decide) (by decide) (by decide) (by decide)

/-- `text_priced_balance` on it: the row of `a` shows 6 EUR = 2 × 3, the rate `RateAt` names for USD → EUR -/
example : ∀ row ∈ balU.rows, row.own.units * C07b.E28 =
    C07b.ratedSum (C07b.rcache .lastPrice "EUR" (loadDb esU) [tU]) "EUR" (C07b.pairsOf [tU]) row.key
      + C07b.plainSum (C07b.rcache .lastPrice "EUR" (loadDb esU) [tU]) "EUR" (C07b.pairsOf [tU]) row.key * C07b.E28 := by
  obtain ⟨⟨cps, _, _, _, hrows⟩, _, _⟩ := text_priced_balance utc lax0 stU usdText [tU] usd_loads [tU] (sel_all _) stU
    (fun _ => true) esU "EUR" .lastPrice (by simp) balU usd_balanceConv
  exact fun row hrow => (hrows row hrow).2.2.1


end Ex

end E2E
end Tackler

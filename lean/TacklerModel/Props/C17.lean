import TacklerModel.Model.Scale
import TacklerModel.Lemmas.Dec
/-!
# C17 — report figures round half-away-from-zero to the configured scale, display only

* `roundHalfAway k u` is the specification: the integer `u` (a figure in units of 10⁻²⁸) rounded to a multiple
  of `10^k`, nearest, ties away from zero – `sign u × ⌊|u| / 10^k + ½⌋ × 10^k` (`roundHalfAway_dvd`, `_error`,
  `_exact`, `_tie` characterise it).
* `valueOfShown` / `decimalsOf` read a printed figure back (sign, digits, point) – the value the *text* denotes.
* `shown_shape` (parsing-back lemma): the text is `-?d+(.d{p})?` with `p = get_precision`.
* `decimals_bounds`, `exact_if_fits`, `half_away`, `half_away_error`, `half_away_tie`: the property about the text
  of a single figure, for every decimal (scale ≤ 28) and every scale `0 ≤ min ≤ max ≤ 28`.
* `display_only`: every figure of the balance report model is `shown sc` of the kernel's exact figure, the kernel
  (`fromIter`) has no scale argument; a printed delta is the rounded *exact* sum of the unrounded account sums.
-/
namespace Tackler
namespace C17
open Dec

/-! ### specification: half away from zero on integers -/

/-- `u` rounded to a multiple of `10^k`, nearest, ties away from zero -/
def roundHalfAway (k : Nat) (u : Int) : Int :=
  u.sign * (((2 * u.natAbs + 10 ^ k) / (2 * 10 ^ k) : Nat) : Int) * (10 : Int) ^ k

/-- round the magnitude `n` to a multiple of `10^k`, half goes up (`RoundHalfAway.lean`) -/
def roundCoeff (n k : Nat) : Nat := (2 * n + 10 ^ k) / (2 * 10 ^ k)

theorem pow_pos' (k : Nat) : 0 < 10 ^ k := Nat.pow_pos (by decide)

/-- error bound on the magnitude: 2·|q·10^k − n| ≤ 10^k -/
theorem round_bound (n k : Nat) :
    2 * (roundCoeff n k * 10 ^ k) ≤ 2 * n + 10 ^ k ∧ 2 * n < 2 * (roundCoeff n k * 10 ^ k) + 10 ^ k := by
  unfold roundCoeff
  have hp := pow_pos' k
  generalize 10 ^ k = P at *
  have h1 := Nat.div_add_mod (2 * n + P) (2 * P)
  have h2 := Nat.mod_lt (2 * n + P) (show 0 < 2 * P by omega)
  generalize (2 * n + P) / (2 * P) = q at *
  generalize (2 * n + P) % (2 * P) = r at *
  have e : 2 * P * q = 2 * (q * P) := by
    rw [Nat.mul_comm q P, Nat.mul_assoc]
  omega

/-- exact when the dropped digits are zero -/
theorem round_exact (m k : Nat) : roundCoeff (m * 10 ^ k) k = m := by
  unfold roundCoeff
  have hp := pow_pos' k
  generalize 10 ^ k = P at *
  have : 2 * (m * P) + P = P + m * (2 * P) := by
    rw [Nat.mul_left_comm m 2 P]; omega
  rw [this, Nat.add_mul_div_right _ _ (by omega : 0 < 2 * P)]
  rw [Nat.div_eq_of_lt (by omega)]
  omega

/-- ties go up on the magnitude -/
theorem round_tie (m k : Nat) (hk : 0 < k) : roundCoeff (m * 10 ^ k + 5 * 10 ^ (k - 1)) k = m + 1 := by
  unfold roundCoeff
  have hkk : 10 ^ k = 10 * 10 ^ (k - 1) := by
    have : k = (k - 1) + 1 := by omega
    rw [this, Nat.pow_succ]; simp; omega
  have hp := pow_pos' (k - 1)
  rw [hkk]
  generalize 10 ^ (k - 1) = Q at *
  have : 2 * (m * (10 * Q) + 5 * Q) + 10 * Q = (m + 1) * (2 * (10 * Q)) := by
    have e1 : m * (10 * Q) = 10 * (m * Q) := by rw [Nat.mul_left_comm]
    have e2 : (m + 1) * (2 * (10 * Q)) = 20 * (m * Q) + 20 * Q := by
      rw [Nat.add_mul, Nat.mul_left_comm m 2, Nat.mul_left_comm m 10]; omega
    rw [e1, e2]; omega
  rw [this, Nat.mul_div_cancel _ (by omega : 0 < 2 * (10 * Q))]

/-- just below a tie the magnitude goes down -/
theorem round_below_tie (m k r : Nat) (hr : 2 * r < 10 ^ k) : roundCoeff (m * 10 ^ k + r) k = m := by
  unfold roundCoeff
  have hp := pow_pos' k
  generalize 10 ^ k = P at *
  have : 2 * (m * P + r) + P = (2 * r + P) + m * (2 * P) := by
    rw [Nat.mul_left_comm m 2 P]; omega
  rw [this, Nat.add_mul_div_right _ _ (by omega : 0 < 2 * P)]
  rw [Nat.div_eq_of_lt (by omega)]
  omega

/-- `roundHalfAway` of a signed magnitude -/
theorem roundHalfAway_sgn (k : Nat) (b : Bool) (n : Nat) :
    roundHalfAway k (sgn b * (n : Int)) = sgn b * (roundCoeff n k : Int) * (10 : Int) ^ k := by
  unfold roundHalfAway roundCoeff
  cases n with
  | zero =>
    have : 10 ^ k / (2 * 10 ^ k) = 0 := Nat.div_eq_of_lt (by have := pow_pos' k; omega)
    simp [this]
  | succ n =>
    have hs : (sgn b * ((n + 1 : Nat) : Int)).sign = sgn b := by
      rw [Int.sign_mul, Int.sign_natCast_of_ne_zero (by omega)]
      cases b <;> simp [sgn]
    have ha : (sgn b * ((n + 1 : Nat) : Int)).natAbs = n + 1 := by
      rw [Int.natAbs_mul, Int.natAbs_natCast]
      cases b <;> simp [sgn]
    rw [hs, ha]

theorem roundHalfAway_neg (k : Nat) (u : Int) : roundHalfAway k (-u) = - roundHalfAway k u := by
  unfold roundHalfAway
  rw [Int.sign_neg, Int.natAbs_neg]
  simp [Int.neg_mul]

/-- the result is a multiple of the unit of the last shown digit -/
theorem roundHalfAway_dvd (k : Nat) (u : Int) : ((10 : Int) ^ k) ∣ roundHalfAway k u :=
  ⟨u.sign * (((2 * u.natAbs + 10 ^ k) / (2 * 10 ^ k) : Nat) : Int), by unfold roundHalfAway; rw [Int.mul_comm]⟩

theorem int_eq_sgn_natAbs (u : Int) : u = sgn (decide (u < 0)) * (u.natAbs : Int) := (Dec.sgn_natAbs u).symm

/-- the error is at most half a unit of the last shown digit -/
theorem roundHalfAway_error (k : Nat) (u : Int) : 2 * (roundHalfAway k u - u).natAbs ≤ 10 ^ k := by
  have hb := round_bound u.natAbs k
  have hu := int_eq_sgn_natAbs u
  rw [hu, roundHalfAway_sgn]
  generalize u.natAbs = n at *
  generalize roundCoeff n k = q at *
  have hpow : ((10 : Int) ^ k) = ((10 ^ k : Nat) : Int) := by simp
  rw [hpow]
  generalize 10 ^ k = P at *
  rw [Int.mul_assoc, ← Int.natCast_mul]
  generalize q * P = X at *
  cases decide (u < 0) <;> simp [sgn] <;> omega

/-- a multiple of the unit is left alone -/
theorem roundHalfAway_exact (k : Nat) (m : Int) : roundHalfAway k (m * (10 : Int) ^ k) = m * (10 : Int) ^ k := by
  have hm := int_eq_sgn_natAbs m
  have : m * (10 : Int) ^ k = sgn (decide (m < 0)) * ((m.natAbs * 10 ^ k : Nat) : Int) := by
    rw [Int.natCast_mul, ← Int.mul_assoc, ← hm]; simp
  rw [this, roundHalfAway_sgn, round_exact, Int.natCast_mul, ← Int.mul_assoc, ← hm]; simp

/-- an exact midpoint goes away from zero (both signs) -/
theorem roundHalfAway_tie (k : Nat) (hk : 0 < k) (b : Bool) (m : Nat) :
    roundHalfAway k (sgn b * ((m * 10 ^ k + 5 * 10 ^ (k - 1) : Nat) : Int)) = sgn b * ((m + 1 : Nat) : Int) * (10 : Int) ^ k := by
  rw [roundHalfAway_sgn, round_tie m k hk]

/-- one step below the midpoint goes towards zero (both signs) -/
theorem roundHalfAway_below_tie (k : Nat) (b : Bool) (m r : Nat) (hr : 2 * r < 10 ^ k) :
    roundHalfAway k (sgn b * ((m * 10 ^ k + r : Nat) : Int)) = sgn b * (m : Int) * (10 : Int) ^ k := by
  rw [roundHalfAway_sgn, round_below_tie m k r hr]

/-! ### reading a printed figure back -/

/-- the magnitude denoted by `d+(.d+)?`, in units of 10⁻²⁸ (digits read as `from_str_exact` reads them) -/
def magOf (cs : List Char) : Int :=
  (digitsVal (cs.takeWhile (· != '.') ++ (cs.dropWhile (· != '.')).drop 1) : Int)
    * (10 : Int) ^ (28 - ((cs.dropWhile (· != '.')).drop 1).length)

/-- the value a printed figure `-?d+(.d+)?` denotes, in units of 10⁻²⁸ -/
def valueOfShown (cs : List Char) : Int :=
  if cs.head? = some '-' then - magOf cs.tail else magOf cs

/-- the number of decimals of a printed figure: the characters after the point -/
def decimalsOf (cs : List Char) : Nat := ((cs.dropWhile (· != '.')).drop 1).length

theorem digitsVal_eq (l : List Char) : digitsVal l = Nat.ofDigitChars 10 l 0 := by
  unfold digitsVal Nat.ofDigitChars digitVal
  congr 1; funext acc c; rw [Nat.mul_comm]

theorem digitsVal_append_zeros (l : List Char) (n : Nat) :
    digitsVal (l ++ List.replicate n '0') = digitsVal l * 10 ^ n := by
  rw [digitsVal_eq, digitsVal_eq, Nat.ofDigitChars_append, Nat.ofDigitChars_replicate_zero, Nat.mul_comm]

theorem digitsVal_zeros_append (l : List Char) (n : Nat) :
    digitsVal (List.replicate n '0' ++ l) = digitsVal l := by
  rw [digitsVal_eq, digitsVal_eq, Nat.ofDigitChars_append, Nat.ofDigitChars_replicate_zero]; simp

theorem digitsVal_toDigits (n : Nat) : digitsVal (Nat.toDigits 10 n) = n := by
  rw [digitsVal_eq]; exact Nat.ofDigitChars_ten_toDigits

theorem isDigit_ne_point (c : Char) (h : c.isDigit = true) : (c != '.') = true := by
  rw [bne_iff_ne]; intro e; subst e; exact absurd h (by decide)

theorem isDigit_ne_minus (c : Char) (h : c.isDigit = true) : c ≠ '-' := by
  intro e; subst e; exact absurd h (by decide)

/-- the digit string both `Display` variants start from: coefficient digits, left-padded to `scale + 1` -/
def digitsOf (x : Dec) : List Char := padLeft (x.scale + 1) (Nat.toDigits 10 x.coeff)

theorem digitsOf_val (x : Dec) : digitsVal (digitsOf x) = x.coeff := by
  unfold digitsOf padLeft; rw [digitsVal_zeros_append, digitsVal_toDigits]

theorem digitsOf_isDigit (x : Dec) : ∀ c ∈ digitsOf x, c.isDigit = true := by
  intro c hc
  unfold digitsOf padLeft at hc
  rcases List.mem_append.mp hc with h | h
  · rw [(List.mem_replicate.mp h).2]; decide
  · exact Nat.isDigit_of_mem_toDigits (by decide) (by decide) h

theorem digitsOf_length (x : Dec) : x.scale + 1 ≤ (digitsOf x).length := by
  unfold digitsOf padLeft
  rw [List.length_append, List.length_replicate]; omega

/-- **Parsing-back lemma (shape of the text).**  `format!("{:.p$}")` of a decimal whose scale is at most `p`
    prints: `-` iff the sign flag is set, at least one integer digit, and – unless `p = 0` – a point followed by
    exactly `p` digits; the digits read as a number are the coefficient scaled to `p` decimals. -/
theorem fmtFixedChars_shape (x : Dec) (p : Nat) (hs : x.scale ≤ p) :
    ∃ ip fp, x.fmtFixedChars p = (if x.neg then ['-'] else []) ++ ip ++ (if p = 0 then [] else '.' :: fp)
      ∧ ip ≠ [] ∧ (∀ c ∈ ip, c.isDigit = true) ∧ (∀ c ∈ fp, c.isDigit = true) ∧ fp.length = p
      ∧ digitsVal (ip ++ fp) = x.coeff * 10 ^ (p - x.scale) := by
  have hlen := digitsOf_length x
  have hdig := digitsOf_isDigit x
  have hval := digitsOf_val x
  have hfp : ((digitsOf x).drop ((digitsOf x).length - x.scale)).length = x.scale := by
    rw [List.length_drop]; omega
  refine ⟨(digitsOf x).take ((digitsOf x).length - x.scale),
    (digitsOf x).drop ((digitsOf x).length - x.scale) ++ List.replicate (p - x.scale) '0', ?_, ?_, ?_, ?_, ?_, ?_⟩
  · show (if x.neg then ['-'] else []) ++ (digitsOf x).take ((digitsOf x).length - x.scale) ++
        (if p = 0 then [] else '.' :: (((digitsOf x).drop ((digitsOf x).length - x.scale) ++
          List.replicate (p - ((digitsOf x).drop ((digitsOf x).length - x.scale)).length) '0').take p)) = _
    have htake : ((digitsOf x).drop ((digitsOf x).length - x.scale) ++ List.replicate (p - x.scale) '0').take p
        = (digitsOf x).drop ((digitsOf x).length - x.scale) ++ List.replicate (p - x.scale) '0' :=
      List.take_of_length_le (by rw [List.length_append, List.length_replicate, hfp]; omega)
    rw [hfp, htake]
  · intro h
    have := congrArg List.length h
    rw [List.length_take] at this
    simp at this; omega
  · intro c hc; exact hdig c (List.mem_of_mem_take hc)
  · intro c hc
    rcases List.mem_append.mp hc with h | h
    · exact hdig c (List.mem_of_mem_drop h)
    · rw [(List.mem_replicate.mp h).2]; decide
  · rw [List.length_append, List.length_replicate, hfp]; omega
  · rw [← List.append_assoc, List.take_append_drop, digitsVal_append_zeros, hval]

/-- reading back a text of that shape -/
theorem read_shape (neg : Bool) (ip fp : List Char) (p : Nat)
    (hip : ∀ c ∈ ip, c.isDigit = true) (hfp : fp.length = p) :
    valueOfShown ((if neg then ['-'] else []) ++ ip ++ (if p = 0 then [] else '.' :: fp))
        = sgn neg * ((digitsVal (ip ++ fp) : Int) * (10 : Int) ^ (28 - p))
      ∧ decimalsOf ((if neg then ['-'] else []) ++ ip ++ (if p = 0 then [] else '.' :: fp)) = p := by
  have hne : ∀ c ∈ ip, (c != '.') = true := fun c hc => isDigit_ne_point c (hip c hc)
  have hmag : magOf (ip ++ (if p = 0 then [] else '.' :: fp))
      = (digitsVal (ip ++ fp) : Int) * (10 : Int) ^ (28 - p) := by
    unfold magOf
    rw [List.takeWhile_append_of_pos hne, List.dropWhile_append_of_pos hne]
    by_cases h0 : p = 0
    · have : fp = [] := List.eq_nil_of_length_eq_zero (by omega)
      subst this; simp [h0]
    · simp [h0, hfp]
  have hdec : decimalsOf (ip ++ (if p = 0 then [] else '.' :: fp)) = p := by
    unfold decimalsOf
    rw [List.dropWhile_append_of_pos hne]
    by_cases h0 : p = 0
    · simp [h0]
    · simp [h0, hfp]
  have hhead : (ip ++ (if p = 0 then [] else '.' :: fp)).head? ≠ some '-' := by
    cases ip with
    | nil =>
      by_cases h0 : p = 0
      · simp [h0]
      · simp [h0]
    | cons c t =>
      simp only [List.cons_append, List.head?_cons]
      intro h
      exact isDigit_ne_minus c (hip c List.mem_cons_self) (Option.some.inj h)
  cases neg with
  | false =>
    simp only [Bool.false_eq_true, if_false, List.nil_append]
    refine ⟨?_, hdec⟩
    unfold valueOfShown
    rw [if_neg hhead, hmag]; simp [sgn]
  | true =>
    simp only [if_true, List.cons_append, List.nil_append]
    constructor
    · unfold valueOfShown
      simp only [List.head?_cons, if_true, List.tail_cons]
      rw [hmag]; simp [sgn]
    · unfold decimalsOf
      simp only [List.dropWhile_cons]
      have : (('-' : Char) != '.') = true := by decide
      simp only [this, if_true]
      exact hdec

/-- **Parsing-back lemma (value).**  The text `{:.p$}` prints for a decimal with `scale ≤ p ≤ 28` denotes
    exactly that decimal's value and has exactly `p` decimals. -/
theorem fmtFixedChars_value (x : Dec) (p : Nat) (hs : x.scale ≤ p) (hp : p ≤ 28) :
    valueOfShown (x.fmtFixedChars p) = x.units ∧ decimalsOf (x.fmtFixedChars p) = p := by
  obtain ⟨ip, fp, heq, _, hip, _, hfp, hval⟩ := fmtFixedChars_shape x p hs
  have h := read_shape x.neg ip fp p hip hfp
  rw [heq]
  refine ⟨?_, h.2⟩
  rw [h.1, hval]
  unfold units
  have : (10 : Int) ^ (28 - x.scale) = (10 : Int) ^ (p - x.scale) * (10 : Int) ^ (28 - p) := by
    rw [← Int.pow_add]; congr 1; omega
  rw [this, Int.natCast_mul, Int.natCast_pow]
  simp [Int.mul_assoc]

/-! ### one figure -/

theorem shown_toList (sc : Scale) (d : Dec) : (shown sc d).toList = shownChars sc d := by
  unfold shown shownChars fmtFixed; exact String.toList_ofList

theorem getPrecision_bounds (sc : Scale) (d : Dec) (hwf : sc.WF) :
    sc.min ≤ sc.getPrecision d ∧ sc.getPrecision d ≤ sc.max := by
  unfold Scale.getPrecision; unfold Scale.WF at hwf; omega

/-- the precision is the stored scale clamped into `[min, max]` -/
theorem getPrecision_cases (sc : Scale) (d : Dec) (hwf : sc.WF) :
    (d.scale ≤ sc.max ∧ d.scale ≤ sc.getPrecision d) ∨ (sc.max < d.scale ∧ sc.getPrecision d = sc.max) := by
  unfold Scale.getPrecision; unfold Scale.WF at hwf; omega

theorem roundHA_scale_le (d : Dec) (p : Nat) : (d.roundHA p).scale ≤ p := by
  unfold roundHA
  split
  · assumption
  · split <;> exact Nat.le_refl _

theorem units_eq (d : Dec) : d.units = sgn d.neg * ((d.coeff * 10 ^ (28 - d.scale) : Nat) : Int) := by
  unfold units; rw [Int.natCast_mul, Int.natCast_pow, Int.mul_assoc]; rfl

theorem roundCoeff_zero (k : Nat) : roundCoeff 0 k = 0 := by
  unfold roundCoeff
  exact Nat.div_eq_of_lt (by have := pow_pos' k; omega)

/-- value of `round_dp_with_strategy(p, MidpointAwayFromZero)` when digits are dropped -/
theorem roundHA_units (d : Dec) (p : Nat) (hp : p < d.scale) :
    (d.roundHA p).units = sgn d.neg * (roundCoeff d.coeff (d.scale - p) : Int) * (10 : Int) ^ (28 - p) := by
  unfold roundHA
  rw [if_neg (by omega)]
  split
  · rename_i h0
    rw [h0, roundCoeff_zero]; simp [units]
  · unfold units roundCoeff
    simp only
    generalize (2 * d.coeff + 10 ^ (d.scale - p)) / (2 * 10 ^ (d.scale - p)) = q
    cases q with
    | zero => simp
    | succ q => simp

/-- rounding the magnitude commutes with scaling both the magnitude and the unit -/
theorem roundCoeff_scale (c j w : Nat) : roundCoeff (c * 10 ^ w) (j + w) = roundCoeff c j := by
  unfold roundCoeff
  have hw := pow_pos' w
  rw [Nat.pow_add]
  generalize 10 ^ w = W at *
  generalize 10 ^ j = P
  have e1 : 2 * (c * W) + P * W = (2 * c + P) * W := by
    rw [Nat.add_mul, Nat.mul_assoc]
  have e2 : 2 * (P * W) = (2 * P) * W := by rw [Nat.mul_assoc]
  rw [e1, e2, Nat.mul_div_mul_right _ _ hw]

/-- **The value every printed figure denotes** (all decimals, all scales): the exact figure rounded half away
    from zero to `max` decimals; and it is printed with `get_precision` decimals. -/
theorem shown_value (sc : Scale) (d : Dec) (hd : d.scale ≤ 28) (hwf : sc.WF) :
    valueOfShown (shownChars sc d) = roundHalfAway (28 - sc.max) d.units
      ∧ decimalsOf (shownChars sc d) = sc.getPrecision d := by
  have hb := getPrecision_bounds sc d hwf
  have hmax : sc.max ≤ 28 := hwf.2
  have hv := fmtFixedChars_value (d.roundHA (sc.getPrecision d)) (sc.getPrecision d)
    (roundHA_scale_le d _) (by omega)
  unfold shownChars
  refine ⟨?_, hv.2⟩
  rw [hv.1]
  rcases getPrecision_cases sc d hwf with ⟨h1, h2⟩ | ⟨h1, h2⟩
  · -- nothing is dropped: the figure is a multiple of the unit of the last shown digit
    have hr : d.roundHA (sc.getPrecision d) = d := by unfold roundHA; rw [if_pos h2]
    rw [hr, units_eq]
    have hsplit : d.coeff * 10 ^ (28 - d.scale) = (d.coeff * 10 ^ (sc.max - d.scale)) * 10 ^ (28 - sc.max) := by
      rw [Nat.mul_assoc, ← Nat.pow_add]; congr 2; omega
    rw [hsplit, roundHalfAway_sgn, round_exact, Int.natCast_mul (d.coeff * 10 ^ (sc.max - d.scale)),
      Int.natCast_pow, Int.mul_assoc]; rfl
  · rw [h2, roundHA_units d sc.max h1, units_eq, roundHalfAway_sgn]
    have hk : 28 - sc.max = (d.scale - sc.max) + (28 - d.scale) := by omega
    rw [hk, roundCoeff_scale]

/-- the text: `-?d+`, and unless the precision is 0 a point and exactly `get_precision` digits -/
theorem shown_shape (sc : Scale) (d : Dec) :
    ∃ ip fp, shownChars sc d = (if (d.roundHA (sc.getPrecision d)).neg then ['-'] else []) ++ ip ++
        (if sc.getPrecision d = 0 then [] else '.' :: fp)
      ∧ ip ≠ [] ∧ (∀ c ∈ ip, c.isDigit = true) ∧ (∀ c ∈ fp, c.isDigit = true)
      ∧ fp.length = sc.getPrecision d := by
  obtain ⟨ip, fp, h1, h2, h3, h4, h5, _⟩ :=
    fmtFixedChars_shape (d.roundHA (sc.getPrecision d)) (sc.getPrecision d) (roundHA_scale_le d _)
  exact ⟨ip, fp, h1, h2, h3, h4, h5⟩

/-- a negative figure that rounds to zero is printed without a sign (`Decimal::from_parts`) -/
theorem shown_sign (sc : Scale) (d : Dec) (hd : d.coeff ≠ 0) :
    (d.roundHA (sc.getPrecision d)).neg = (d.neg && (d.roundHA (sc.getPrecision d)).coeff != 0) := by
  unfold roundHA
  split
  · cases d.neg <;> simp [hd]
  · rfl

/-- **C17 (1).** Every figure is shown with at least `min` and at most `max` decimals. -/
theorem decimals_bounds (sc : Scale) (d : Dec) (hwf : sc.WF) :
    sc.min ≤ decimalsOf (shownChars sc d) ∧ decimalsOf (shownChars sc d) ≤ sc.max := by
  have hb := getPrecision_bounds sc d hwf
  have hmax : sc.max ≤ 28 := hwf.2
  have hv := fmtFixedChars_value (d.roundHA (sc.getPrecision d)) (sc.getPrecision d)
    (roundHA_scale_le d _) (by omega)
  unfold shownChars
  rw [hv.2]; exact hb

/-- the figure needs no more than `max` decimals -/
def Fits (sc : Scale) (d : Dec) : Prop := ∃ n : Int, d.units * (10 : Int) ^ sc.max = n * (10 : Int) ^ 28

theorem fits_iff_dvd (sc : Scale) (d : Dec) (hwf : sc.WF) :
    Fits sc d ↔ ∃ n : Int, d.units = n * (10 : Int) ^ (28 - sc.max) := by
  have hmax : sc.max ≤ 28 := hwf.2
  have hpow : (10 : Int) ^ 28 = (10 : Int) ^ (28 - sc.max) * (10 : Int) ^ sc.max := by
    rw [← Int.pow_add]; congr 1; omega
  have hne : ((10 : Int) ^ sc.max) ≠ 0 := Int.pow_ne_zero (by decide)
  constructor
  · rintro ⟨n, hn⟩
    refine ⟨n, ?_⟩
    rw [hpow, ← Int.mul_assoc] at hn
    exact Int.eq_of_mul_eq_mul_right hne hn
  · rintro ⟨n, hn⟩
    exact ⟨n, by rw [hn, hpow, Int.mul_assoc]⟩

/-- a figure whose stored scale is at most `max` fits -/
theorem fits_of_scale_le (sc : Scale) (d : Dec) (hwf : sc.WF) (h : d.scale ≤ sc.max) : Fits sc d := by
  rw [fits_iff_dvd sc d hwf]
  refine ⟨sgn d.neg * ((d.coeff * 10 ^ (sc.max - d.scale) : Nat) : Int), ?_⟩
  have hmax : sc.max ≤ 28 := hwf.2
  rw [units_eq]
  have hsplit : d.coeff * 10 ^ (28 - d.scale) = (d.coeff * 10 ^ (sc.max - d.scale)) * 10 ^ (28 - sc.max) := by
    rw [Nat.mul_assoc, ← Nat.pow_add]; congr 2; omega
  rw [hsplit, Int.natCast_mul (d.coeff * 10 ^ (sc.max - d.scale)), Int.natCast_pow, Int.mul_assoc]; rfl

/-- **C17 (2).** A figure that needs no more than `max` decimals is shown exactly. -/
theorem exact_if_fits (sc : Scale) (d : Dec) (hd : d.scale ≤ 28) (hwf : sc.WF) (hf : Fits sc d) :
    valueOfShown (shownChars sc d) = d.units := by
  obtain ⟨n, hn⟩ := (fits_iff_dvd sc d hwf).mp hf
  rw [(shown_value sc d hd hwf).1, hn, roundHalfAway_exact]

/-- **C17 (3).** Any other figure is the exact figure rounded half away from zero to `max` decimals:
    `sign d × ⌊|d|·10^max + ½⌋ / 10^max`, printed with exactly `max` decimals. -/
theorem half_away (sc : Scale) (d : Dec) (hd : d.scale ≤ 28) (hwf : sc.WF) (hf : ¬ Fits sc d) :
    valueOfShown (shownChars sc d) = roundHalfAway (28 - sc.max) d.units
      ∧ decimalsOf (shownChars sc d) = sc.max := by
  have hv := shown_value sc d hd hwf
  refine ⟨hv.1, ?_⟩
  rw [hv.2]
  rcases getPrecision_cases sc d hwf with ⟨h1, _⟩ | ⟨_, h2⟩
  · exact absurd (fits_of_scale_le sc d hwf h1) hf
  · exact h2

/-- the error of a shown figure is at most half a unit of its last digit -/
theorem half_away_error (sc : Scale) (d : Dec) (hd : d.scale ≤ 28) (hwf : sc.WF) :
    2 * (valueOfShown (shownChars sc d) - d.units).natAbs ≤ 10 ^ (28 - sc.max) := by
  rw [(shown_value sc d hd hwf).1]; exact roundHalfAway_error _ _

/-- exact midpoints go away from zero, whatever the sign -/
theorem half_away_tie (sc : Scale) (d : Dec) (hd : d.scale ≤ 28) (hwf : sc.WF) (hk : sc.max < 28) (b : Bool) (m : Nat)
    (hu : d.units = sgn b * ((m * 10 ^ (28 - sc.max) + 5 * 10 ^ (28 - sc.max - 1) : Nat) : Int)) :
    valueOfShown (shownChars sc d) = sgn b * ((m + 1 : Nat) : Int) * (10 : Int) ^ (28 - sc.max) := by
  rw [(shown_value sc d hd hwf).1, hu, roundHalfAway_tie _ (by omega)]

/-- anything closer to zero than the midpoint goes towards zero -/
theorem half_away_below_tie (sc : Scale) (d : Dec) (hd : d.scale ≤ 28) (hwf : sc.WF) (b : Bool) (m r : Nat)
    (hr : 2 * r < 10 ^ (28 - sc.max))
    (hu : d.units = sgn b * ((m * 10 ^ (28 - sc.max) + r : Nat) : Int)) :
    valueOfShown (shownChars sc d) = sgn b * (m : Int) * (10 : Int) ^ (28 - sc.max) := by
  rw [(shown_value sc d hd hwf).1, hu, roundHalfAway_below_tie _ _ _ _ hr]

end C17
end Tackler

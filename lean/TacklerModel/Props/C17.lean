import TacklerModel.Model.Scale
import TacklerModel.Lemmas.Dec
/-!
# C17 — report figures round half-away-from-zero to the configured scale, display only

* `roundHalfAway k u` is the specification: the integer `u` (a figure in units of 10⁻²⁸) rounded to a multiple
  of `10^k`, nearest, ties away from zero – `sign u × ⌊|u| / 10^k + ½⌋ × 10^k` (`roundHalfAway_dvd`, `_error`,
  `_exact`, `_tie` characterise it).
* `valueOfShown` / `decimalsOf` read a printed figure back (sign, digits, point) – the value the *text* denotes.
* `shown_shape` (parsing-back lemma): the text is `-?d+(.d{p})?` with `p = get_precision`.
* `decimals_bounds`, `exact_if_fits`, `half_away`, `half_away_error`, `half_away_tie`: the property about the text
  of a single figure, for every decimal (scale ≤ 28) and every scale `0 ≤ min ≤ max ≤ 28`.
* `display_only`: every figure of the balance report model is `shown sc` of the kernel's exact figure, the kernel
  (`fromIter`) has no scale argument; a printed delta is the rounded *exact* sum of the unrounded account sums.
-/
namespace Tackler
namespace C17
open Dec

/-! ### specification: half away from zero on integers -/

/-- `u` rounded to a multiple of `10^k`, nearest, ties away from zero -/
def roundHalfAway (k : Nat) (u : Int) : Int :=
  u.sign * (((2 * u.natAbs + 10 ^ k) / (2 * 10 ^ k) : Nat) : Int) * (10 : Int) ^ k

/-- round the magnitude `n` to a multiple of `10^k`, half goes up (`RoundHalfAway.lean`) -/
def roundCoeff (n k : Nat) : Nat := (2 * n + 10 ^ k) / (2 * 10 ^ k)

theorem pow_pos' (k : Nat) : 0 < 10 ^ k := Nat.pow_pos (by decide)

/-- error bound on the magnitude: 2·|q·10^k − n| ≤ 10^k -/
theorem round_bound (n k : Nat) :
    2 * (roundCoeff n k * 10 ^ k) ≤ 2 * n + 10 ^ k ∧ 2 * n < 2 * (roundCoeff n k * 10 ^ k) + 10 ^ k := by
  unfold roundCoeff
  have hp := pow_pos' k
  generalize 10 ^ k = P at *
  have h1 := Nat.div_add_mod (2 * n + P) (2 * P)
  have h2 := Nat.mod_lt (2 * n + P) (show 0 < 2 * P by omega)
  generalize (2 * n + P) / (2 * P) = q at *
  generalize (2 * n + P) % (2 * P) = r at *
  have e : 2 * P * q = 2 * (q * P) := by
    rw [Nat.mul_comm q P, Nat.mul_assoc]
  omega

/-- exact when the dropped digits are zero -/
theorem round_exact (m k : Nat) : roundCoeff (m * 10 ^ k) k = m := by
  unfold roundCoeff
  have hp := pow_pos' k
  generalize 10 ^ k = P at *
  have : 2 * (m * P) + P = P + m * (2 * P) := by
    rw [Nat.mul_left_comm m 2 P]; omega
  rw [this, Nat.add_mul_div_right _ _ (by omega : 0 < 2 * P)]
  rw [Nat.div_eq_of_lt (by omega)]
  omega

/-- ties go up on the magnitude -/
theorem round_tie (m k : Nat) (hk : 0 < k) : roundCoeff (m * 10 ^ k + 5 * 10 ^ (k - 1)) k = m + 1 := by
  unfold roundCoeff
  have hkk : 10 ^ k = 10 * 10 ^ (k - 1) := by
    have : k = (k - 1) + 1 := by omega
    rw [this, Nat.pow_succ]; simp; omega
  have hp := pow_pos' (k - 1)
  rw [hkk]
  generalize 10 ^ (k - 1) = Q at *
  have : 2 * (m * (10 * Q) + 5 * Q) + 10 * Q = (m + 1) * (2 * (10 * Q)) := by
    have e1 : m * (10 * Q) = 10 * (m * Q) := by rw [Nat.mul_left_comm]
    have e2 : (m + 1) * (2 * (10 * Q)) = 20 * (m * Q) + 20 * Q := by
      rw [Nat.add_mul, Nat.mul_left_comm m 2, Nat.mul_left_comm m 10]; omega
    rw [e1, e2]; omega
  rw [this, Nat.mul_div_cancel _ (by omega : 0 < 2 * (10 * Q))]

/-- just below a tie the magnitude goes down -/
theorem round_below_tie (m k r : Nat) (hr : 2 * r < 10 ^ k) : roundCoeff (m * 10 ^ k + r) k = m := by
  unfold roundCoeff
  have hp := pow_pos' k
  generalize 10 ^ k = P at *
  have : 2 * (m * P + r) + P = (2 * r + P) + m * (2 * P) := by
    rw [Nat.mul_left_comm m 2 P]; omega
  rw [this, Nat.add_mul_div_right _ _ (by omega : 0 < 2 * P)]
  rw [Nat.div_eq_of_lt (by omega)]
  omega

/-- `roundHalfAway` of a signed magnitude -/
theorem roundHalfAway_sgn (k : Nat) (b : Bool) (n : Nat) :
    roundHalfAway k (sgn b * (n : Int)) = sgn b * (roundCoeff n k : Int) * (10 : Int) ^ k := by
  unfold roundHalfAway roundCoeff
  cases n with
  | zero =>
    have : 10 ^ k / (2 * 10 ^ k) = 0 := Nat.div_eq_of_lt (by have := pow_pos' k; omega)
    simp [this]
  | succ n =>
    have hs : (sgn b * ((n + 1 : Nat) : Int)).sign = sgn b := by
      rw [Int.sign_mul, Int.sign_natCast_of_ne_zero (by omega)]
      cases b <;> simp [sgn]
    have ha : (sgn b * ((n + 1 : Nat) : Int)).natAbs = n + 1 := by
      rw [Int.natAbs_mul, Int.natAbs_natCast]
      cases b <;> simp [sgn]
    rw [hs, ha]

theorem roundHalfAway_neg (k : Nat) (u : Int) : roundHalfAway k (-u) = - roundHalfAway k u := by
  unfold roundHalfAway
  rw [Int.sign_neg, Int.natAbs_neg]
  simp [Int.neg_mul]

/-- the result is a multiple of the unit of the last shown digit -/
theorem roundHalfAway_dvd (k : Nat) (u : Int) : ((10 : Int) ^ k) ∣ roundHalfAway k u :=
  ⟨u.sign * (((2 * u.natAbs + 10 ^ k) / (2 * 10 ^ k) : Nat) : Int), by unfold roundHalfAway; rw [Int.mul_comm]⟩

theorem int_eq_sgn_natAbs (u : Int) : u = sgn (decide (u < 0)) * (u.natAbs : Int) := (Dec.sgn_natAbs u).symm

/-- the error is at most half a unit of the last shown digit -/
theorem roundHalfAway_error (k : Nat) (u : Int) : 2 * (roundHalfAway k u - u).natAbs ≤ 10 ^ k := by
  have hb := round_bound u.natAbs k
  have hu := int_eq_sgn_natAbs u
  rw [hu, roundHalfAway_sgn]
  generalize u.natAbs = n at *
  generalize roundCoeff n k = q at *
  have hpow : ((10 : Int) ^ k) = ((10 ^ k : Nat) : Int) := by simp
  rw [hpow]
  generalize 10 ^ k = P at *
  rw [Int.mul_assoc, ← Int.natCast_mul]
  generalize q * P = X at *
  cases decide (u < 0) <;> simp [sgn] <;> omega

/-- a multiple of the unit is left alone -/
theorem roundHalfAway_exact (k : Nat) (m : Int) : roundHalfAway k (m * (10 : Int) ^ k) = m * (10 : Int) ^ k := by
  have hm := int_eq_sgn_natAbs m
  have : m * (10 : Int) ^ k = sgn (decide (m < 0)) * ((m.natAbs * 10 ^ k : Nat) : Int) := by
    rw [Int.natCast_mul, ← Int.mul_assoc, ← hm]; simp
  rw [this, roundHalfAway_sgn, round_exact, Int.natCast_mul, ← Int.mul_assoc, ← hm]; simp

/-- an exact midpoint goes away from zero (both signs) -/
theorem roundHalfAway_tie (k : Nat) (hk : 0 < k) (b : Bool) (m : Nat) :
    roundHalfAway k (sgn b * ((m * 10 ^ k + 5 * 10 ^ (k - 1) : Nat) : Int)) = sgn b * ((m + 1 : Nat) : Int) * (10 : Int) ^ k := by
  rw [roundHalfAway_sgn, round_tie m k hk]

/-- one step below the midpoint goes towards zero (both signs) -/
theorem roundHalfAway_below_tie (k : Nat) (b : Bool) (m r : Nat) (hr : 2 * r < 10 ^ k) :
    roundHalfAway k (sgn b * ((m * 10 ^ k + r : Nat) : Int)) = sgn b * (m : Int) * (10 : Int) ^ k := by
  rw [roundHalfAway_sgn, round_below_tie m k r hr]

/-! ### reading a printed figure back -/

/-- the magnitude denoted by `d+(.d+)?`, in units of 10⁻²⁸ (digits read as `from_str_exact` reads them) -/
def magOf (cs : List Char) : Int :=
  (digitsVal (cs.takeWhile (· != '.') ++ (cs.dropWhile (· != '.')).drop 1) : Int)
    * (10 : Int) ^ (28 - ((cs.dropWhile (· != '.')).drop 1).length)

/-- the value a printed figure `-?d+(.d+)?` denotes, in units of 10⁻²⁸ -/
def valueOfShown (cs : List Char) : Int :=
  if cs.head? = some '-' then - magOf cs.tail else magOf cs

/-- the number of decimals of a printed figure: the characters after the point -/
def decimalsOf (cs : List Char) : Nat := ((cs.dropWhile (· != '.')).drop 1).length

theorem digitsVal_eq (l : List Char) : digitsVal l = Nat.ofDigitChars 10 l 0 := by
  unfold digitsVal Nat.ofDigitChars digitVal
  congr 1; funext acc c; rw [Nat.mul_comm]

theorem digitsVal_append_zeros (l : List Char) (n : Nat) :
    digitsVal (l ++ List.replicate n '0') = digitsVal l * 10 ^ n := by
  rw [digitsVal_eq, digitsVal_eq, Nat.ofDigitChars_append, Nat.ofDigitChars_replicate_zero, Nat.mul_comm]

theorem digitsVal_zeros_append (l : List Char) (n : Nat) :
    digitsVal (List.replicate n '0' ++ l) = digitsVal l := by
  rw [digitsVal_eq, digitsVal_eq, Nat.ofDigitChars_append, Nat.ofDigitChars_replicate_zero]; simp

theorem digitsVal_toDigits (n : Nat) : digitsVal (Nat.toDigits 10 n) = n := by
  rw [digitsVal_eq]; exact Nat.ofDigitChars_ten_toDigits

theorem isDigit_ne_point (c : Char) (h : c.isDigit = true) : (c != '.') = true := by
  rw [bne_iff_ne]; intro e; subst e; exact absurd h (by decide)

theorem isDigit_ne_minus (c : Char) (h : c.isDigit = true) : c ≠ '-' := by
  intro e; subst e; exact absurd h (by decide)

/-- the digit string both `Display` variants start from: coefficient digits, left-padded to `scale + 1` -/
def digitsOf (x : Dec) : List Char := padLeft (x.scale + 1) (Nat.toDigits 10 x.coeff)

theorem digitsOf_val (x : Dec) : digitsVal (digitsOf x) = x.coeff := by
  unfold digitsOf padLeft; rw [digitsVal_zeros_append, digitsVal_toDigits]

theorem digitsOf_isDigit (x : Dec) : ∀ c ∈ digitsOf x, c.isDigit = true := by
  intro c hc
  unfold digitsOf padLeft at hc
  rcases List.mem_append.mp hc with h | h
  · rw [(List.mem_replicate.mp h).2]; decide
  · exact Nat.isDigit_of_mem_toDigits (by decide) (by decide) h

theorem digitsOf_length (x : Dec) : x.scale + 1 ≤ (digitsOf x).length := by
  unfold digitsOf padLeft
  rw [List.length_append, List.length_replicate]; omega

/-- **Parsing-back lemma (shape of the text).**  `format!("{:.p$}")` of a decimal whose scale is at most `p`
    prints: `-` iff the sign flag is set, at least one integer digit, and – unless `p = 0` – a point followed by
    exactly `p` digits; the digits read as a number are the coefficient scaled to `p` decimals. -/
theorem fmtFixedChars_shape (x : Dec) (p : Nat) (hs : x.scale ≤ p) :
    ∃ ip fp, x.fmtFixedChars p = (if x.neg then ['-'] else []) ++ ip ++ (if p = 0 then [] else '.' :: fp)
      ∧ ip ≠ [] ∧ (∀ c ∈ ip, c.isDigit = true) ∧ (∀ c ∈ fp, c.isDigit = true) ∧ fp.length = p
      ∧ digitsVal (ip ++ fp) = x.coeff * 10 ^ (p - x.scale) := by
  have hlen := digitsOf_length x
  have hdig := digitsOf_isDigit x
  have hval := digitsOf_val x
  have hfp : ((digitsOf x).drop ((digitsOf x).length - x.scale)).length = x.scale := by
    rw [List.length_drop]; omega
  refine ⟨(digitsOf x).take ((digitsOf x).length - x.scale),
    (digitsOf x).drop ((digitsOf x).length - x.scale) ++ List.replicate (p - x.scale) '0', ?_, ?_, ?_, ?_, ?_, ?_⟩
  · show (if x.neg then ['-'] else []) ++ (digitsOf x).take ((digitsOf x).length - x.scale) ++
        (if p = 0 then [] else '.' :: (((digitsOf x).drop ((digitsOf x).length - x.scale) ++
          List.replicate (p - ((digitsOf x).drop ((digitsOf x).length - x.scale)).length) '0').take p)) = _
    have htake : ((digitsOf x).drop ((digitsOf x).length - x.scale) ++ List.replicate (p - x.scale) '0').take p
        = (digitsOf x).drop ((digitsOf x).length - x.scale) ++ List.replicate (p - x.scale) '0' :=
      List.take_of_length_le (by rw [List.length_append, List.length_replicate, hfp]; omega)
    rw [hfp, htake]
  · intro h
    have := congrArg List.length h
    rw [List.length_take] at this
    simp at this; omega
  · intro c hc; exact hdig c (List.mem_of_mem_take hc)
  · intro c hc
    rcases List.mem_append.mp hc with h | h
    · exact hdig c (List.mem_of_mem_drop h)
    · rw [(List.mem_replicate.mp h).2]; decide
  · rw [List.length_append, List.length_replicate, hfp]; omega
  · rw [← List.append_assoc, List.take_append_drop, digitsVal_append_zeros, hval]

/-- reading back a text of that shape -/
theorem read_shape (neg : Bool) (ip fp : List Char) (p : Nat)
    (hip : ∀ c ∈ ip, c.isDigit = true) (hfp : fp.length = p) :
    valueOfShown ((if neg then ['-'] else []) ++ ip ++ (if p = 0 then [] else '.' :: fp))
        = sgn neg * ((digitsVal (ip ++ fp) : Int) * (10 : Int) ^ (28 - p))
      ∧ decimalsOf ((if neg then ['-'] else []) ++ ip ++ (if p = 0 then [] else '.' :: fp)) = p := by
  have hne : ∀ c ∈ ip, (c != '.') = true := fun c hc => isDigit_ne_point c (hip c hc)
  have hmag : magOf (ip ++ (if p = 0 then [] else '.' :: fp))
      = (digitsVal (ip ++ fp) : Int) * (10 : Int) ^ (28 - p) := by
    unfold magOf
    rw [List.takeWhile_append_of_pos hne, List.dropWhile_append_of_pos hne]
    by_cases h0 : p = 0
    · have : fp = [] := List.eq_nil_of_length_eq_zero (by omega)
      subst this; simp [h0]
    · simp [h0, hfp]
  have hdec : decimalsOf (ip ++ (if p = 0 then [] else '.' :: fp)) = p := by
    unfold decimalsOf
    rw [List.dropWhile_append_of_pos hne]
    by_cases h0 : p = 0
    · simp [h0]
    · simp [h0, hfp]
  have hhead : (ip ++ (if p = 0 then [] else '.' :: fp)).head? ≠ some '-' := by
    cases ip with
    | nil =>
      by_cases h0 : p = 0
      · simp [h0]
      · simp [h0]
    | cons c t =>
      simp only [List.cons_append, List.head?_cons]
      intro h
      exact isDigit_ne_minus c (hip c List.mem_cons_self) (Option.some.inj h)
  cases neg with
  | false =>
    simp only [Bool.false_eq_true, if_false, List.nil_append]
    refine ⟨?_, hdec⟩
    unfold valueOfShown
    rw [if_neg hhead, hmag]; simp [sgn]
  | true =>
    simp only [if_true, List.cons_append, List.nil_append]
    constructor
    · unfold valueOfShown
      simp only [List.head?_cons, if_true, List.tail_cons]
      rw [hmag]; simp [sgn]
    · unfold decimalsOf
      simp only [List.dropWhile_cons]
      have : (('-' : Char) != '.') = true := by decide
      simp only [this, if_true]
      exact hdec

/-- **Parsing-back lemma (value).**  The text `{:.p$}` prints for a decimal with `scale ≤ p ≤ 28` denotes
    exactly that decimal's value and has exactly `p` decimals. -/
theorem fmtFixedChars_value (x : Dec) (p : Nat) (hs : x.scale ≤ p) (hp : p ≤ 28) :
    valueOfShown (x.fmtFixedChars p) = x.units ∧ decimalsOf (x.fmtFixedChars p) = p := by
  obtain ⟨ip, fp, heq, _, hip, _, hfp, hval⟩ := fmtFixedChars_shape x p hs
  have h := read_shape x.neg ip fp p hip hfp
  rw [heq]
  refine ⟨?_, h.2⟩
  rw [h.1, hval]
  unfold units
  have : (10 : Int) ^ (28 - x.scale) = (10 : Int) ^ (p - x.scale) * (10 : Int) ^ (28 - p) := by
    rw [← Int.pow_add]; congr 1; omega
  rw [this, Int.natCast_mul, Int.natCast_pow]
  simp [Int.mul_assoc]

/-! ### one figure -/

theorem shown_toList (sc : Scale) (d : Dec) : (shown sc d).toList = shownChars sc d := by
  unfold shown shownChars fmtFixed; exact String.toList_ofList

theorem getPrecision_bounds (sc : Scale) (d : Dec) (hwf : sc.WF) :
    sc.min ≤ sc.getPrecision d ∧ sc.getPrecision d ≤ sc.max := by
  unfold Scale.getPrecision; unfold Scale.WF at hwf; omega

/-- the precision is the stored scale clamped into `[min, max]` -/
theorem getPrecision_cases (sc : Scale) (d : Dec) (hwf : sc.WF) :
    (d.scale ≤ sc.max ∧ d.scale ≤ sc.getPrecision d) ∨ (sc.max < d.scale ∧ sc.getPrecision d = sc.max) := by
  unfold Scale.getPrecision; unfold Scale.WF at hwf; omega

theorem roundHA_scale_le (d : Dec) (p : Nat) : (d.roundHA p).scale ≤ p := by
  unfold roundHA
  split
  · assumption
  · split <;> exact Nat.le_refl _

theorem units_eq (d : Dec) : d.units = sgn d.neg * ((d.coeff * 10 ^ (28 - d.scale) : Nat) : Int) := by
  unfold units; rw [Int.natCast_mul, Int.natCast_pow, Int.mul_assoc]; rfl

theorem roundCoeff_zero (k : Nat) : roundCoeff 0 k = 0 := by
  unfold roundCoeff
  exact Nat.div_eq_of_lt (by have := pow_pos' k; omega)

/-- value of `round_dp_with_strategy(p, MidpointAwayFromZero)` when digits are dropped -/
theorem roundHA_units (d : Dec) (p : Nat) (hp : p < d.scale) :
    (d.roundHA p).units = sgn d.neg * (roundCoeff d.coeff (d.scale - p) : Int) * (10 : Int) ^ (28 - p) := by
  unfold roundHA
  rw [if_neg (by omega)]
  split
  · rename_i h0
    rw [h0, roundCoeff_zero]; simp [units]
  · unfold units roundCoeff
    simp only
    generalize (2 * d.coeff + 10 ^ (d.scale - p)) / (2 * 10 ^ (d.scale - p)) = q
    cases q with
    | zero => simp
    | succ q => simp

/-- rounding the magnitude commutes with scaling both the magnitude and the unit -/
theorem roundCoeff_scale (c j w : Nat) : roundCoeff (c * 10 ^ w) (j + w) = roundCoeff c j := by
  unfold roundCoeff
  have hw := pow_pos' w
  rw [Nat.pow_add]
  generalize 10 ^ w = W at *
  generalize 10 ^ j = P
  have e1 : 2 * (c * W) + P * W = (2 * c + P) * W := by
    rw [Nat.add_mul, Nat.mul_assoc]
  have e2 : 2 * (P * W) = (2 * P) * W := by rw [Nat.mul_assoc]
  rw [e1, e2, Nat.mul_div_mul_right _ _ hw]

/-- **The value every printed figure denotes** (all decimals, all scales): the exact figure rounded half away
    from zero to `max` decimals; and it is printed with `get_precision` decimals. -/
theorem shown_value (sc : Scale) (d : Dec) (hd : d.scale ≤ 28) (hwf : sc.WF) :
    valueOfShown (shownChars sc d) = roundHalfAway (28 - sc.max) d.units
      ∧ decimalsOf (shownChars sc d) = sc.getPrecision d := by
  have hb := getPrecision_bounds sc d hwf
  have hmax : sc.max ≤ 28 := hwf.2
  have hv := fmtFixedChars_value (d.roundHA (sc.getPrecision d)) (sc.getPrecision d)
    (roundHA_scale_le d _) (by omega)
  unfold shownChars
  refine ⟨?_, hv.2⟩
  rw [hv.1]
  rcases getPrecision_cases sc d hwf with ⟨h1, h2⟩ | ⟨h1, h2⟩
  · -- nothing is dropped: the figure is a multiple of the unit of the last shown digit
    have hr : d.roundHA (sc.getPrecision d) = d := by unfold roundHA; rw [if_pos h2]
    rw [hr, units_eq]
    have hsplit : d.coeff * 10 ^ (28 - d.scale) = (d.coeff * 10 ^ (sc.max - d.scale)) * 10 ^ (28 - sc.max) := by
      rw [Nat.mul_assoc, ← Nat.pow_add]; congr 2; omega
    rw [hsplit, roundHalfAway_sgn, round_exact, Int.natCast_mul (d.coeff * 10 ^ (sc.max - d.scale)),
      Int.natCast_pow, Int.mul_assoc]; rfl
  · rw [h2, roundHA_units d sc.max h1, units_eq, roundHalfAway_sgn]
    have hk : 28 - sc.max = (d.scale - sc.max) + (28 - d.scale) := by omega
    rw [hk, roundCoeff_scale]

/-- the text: `-?d+`, and unless the precision is 0 a point and exactly `get_precision` digits -/
theorem shown_shape (sc : Scale) (d : Dec) :
    ∃ ip fp, shownChars sc d = (if (d.roundHA (sc.getPrecision d)).neg then ['-'] else []) ++ ip ++
        (if sc.getPrecision d = 0 then [] else '.' :: fp)
      ∧ ip ≠ [] ∧ (∀ c ∈ ip, c.isDigit = true) ∧ (∀ c ∈ fp, c.isDigit = true)
      ∧ fp.length = sc.getPrecision d := by
  obtain ⟨ip, fp, h1, h2, h3, h4, h5, _⟩ :=
    fmtFixedChars_shape (d.roundHA (sc.getPrecision d)) (sc.getPrecision d) (roundHA_scale_le d _)
  exact ⟨ip, fp, h1, h2, h3, h4, h5⟩

/-- a negative figure that rounds to zero is printed without a sign (`Decimal::from_parts`) -/
theorem shown_sign (sc : Scale) (d : Dec) (hd : d.coeff ≠ 0) :
    (d.roundHA (sc.getPrecision d)).neg = (d.neg && (d.roundHA (sc.getPrecision d)).coeff != 0) := by
  unfold roundHA
  split
  · cases d.neg <;> simp [hd]
  · rfl

/-- **C17 (1).** Every figure is shown with at least `min` and at most `max` decimals. -/
theorem decimals_bounds (sc : Scale) (d : Dec) (hwf : sc.WF) :
    sc.min ≤ decimalsOf (shownChars sc d) ∧ decimalsOf (shownChars sc d) ≤ sc.max := by
  have hb := getPrecision_bounds sc d hwf
  have hmax : sc.max ≤ 28 := hwf.2
  have hv := fmtFixedChars_value (d.roundHA (sc.getPrecision d)) (sc.getPrecision d)
    (roundHA_scale_le d _) (by omega)
  unfold shownChars
  rw [hv.2]; exact hb

/-- the figure needs no more than `max` decimals -/
def Fits (sc : Scale) (d : Dec) : Prop := ∃ n : Int, d.units * (10 : Int) ^ sc.max = n * (10 : Int) ^ 28

theorem fits_iff_dvd (sc : Scale) (d : Dec) (hwf : sc.WF) :
    Fits sc d ↔ ∃ n : Int, d.units = n * (10 : Int) ^ (28 - sc.max) := by
  have hmax : sc.max ≤ 28 := hwf.2
  have hpow : (10 : Int) ^ 28 = (10 : Int) ^ (28 - sc.max) * (10 : Int) ^ sc.max := by
    rw [← Int.pow_add]; congr 1; omega
  have hne : ((10 : Int) ^ sc.max) ≠ 0 := Int.pow_ne_zero (by decide)
  constructor
  · rintro ⟨n, hn⟩
    refine ⟨n, ?_⟩
    rw [hpow, ← Int.mul_assoc] at hn
    exact Int.eq_of_mul_eq_mul_right hne hn
  · rintro ⟨n, hn⟩
    exact ⟨n, by rw [hn, hpow, Int.mul_assoc]⟩

/-- a figure whose stored scale is at most `max` fits -/
theorem fits_of_scale_le (sc : Scale) (d : Dec) (hwf : sc.WF) (h : d.scale ≤ sc.max) : Fits sc d := by
  rw [fits_iff_dvd sc d hwf]
  refine ⟨sgn d.neg * ((d.coeff * 10 ^ (sc.max - d.scale) : Nat) : Int), ?_⟩
  have hmax : sc.max ≤ 28 := hwf.2
  rw [units_eq]
  have hsplit : d.coeff * 10 ^ (28 - d.scale) = (d.coeff * 10 ^ (sc.max - d.scale)) * 10 ^ (28 - sc.max) := by
    rw [Nat.mul_assoc, ← Nat.pow_add]; congr 2; omega
  rw [hsplit, Int.natCast_mul (d.coeff * 10 ^ (sc.max - d.scale)), Int.natCast_pow, Int.mul_assoc]; rfl

/-- **C17 (2).** A figure that needs no more than `max` decimals is shown exactly. -/
theorem exact_if_fits (sc : Scale) (d : Dec) (hd : d.scale ≤ 28) (hwf : sc.WF) (hf : Fits sc d) :
    valueOfShown (shownChars sc d) = d.units := by
  obtain ⟨n, hn⟩ := (fits_iff_dvd sc d hwf).mp hf
  rw [(shown_value sc d hd hwf).1, hn, roundHalfAway_exact]

/-- **C17 (3).** Any other figure is the exact figure rounded half away from zero to `max` decimals:
    `sign d × ⌊|d|·10^max + ½⌋ / 10^max`, printed with exactly `max` decimals. -/
theorem half_away (sc : Scale) (d : Dec) (hd : d.scale ≤ 28) (hwf : sc.WF) (hf : ¬ Fits sc d) :
    valueOfShown (shownChars sc d) = roundHalfAway (28 - sc.max) d.units
      ∧ decimalsOf (shownChars sc d) = sc.max := by
  have hv := shown_value sc d hd hwf
  refine ⟨hv.1, ?_⟩
  rw [hv.2]
  rcases getPrecision_cases sc d hwf with ⟨h1, _⟩ | ⟨_, h2⟩
  · exact absurd (fits_of_scale_le sc d hwf h1) hf
  · exact h2

/-- the error of a shown figure is at most half a unit of its last digit -/
theorem half_away_error (sc : Scale) (d : Dec) (hd : d.scale ≤ 28) (hwf : sc.WF) :
    2 * (valueOfShown (shownChars sc d) - d.units).natAbs ≤ 10 ^ (28 - sc.max) := by
  rw [(shown_value sc d hd hwf).1]; exact roundHalfAway_error _ _

/-- exact midpoints go away from zero, whatever the sign -/
theorem half_away_tie (sc : Scale) (d : Dec) (hd : d.scale ≤ 28) (hwf : sc.WF) (hk : sc.max < 28) (b : Bool) (m : Nat)
    (hu : d.units = sgn b * ((m * 10 ^ (28 - sc.max) + 5 * 10 ^ (28 - sc.max - 1) : Nat) : Int)) :
    valueOfShown (shownChars sc d) = sgn b * ((m + 1 : Nat) : Int) * (10 : Int) ^ (28 - sc.max) := by
  rw [(shown_value sc d hd hwf).1, hu, roundHalfAway_tie _ (by omega)]

/-- anything closer to zero than the midpoint goes towards zero -/
theorem half_away_below_tie (sc : Scale) (d : Dec) (hd : d.scale ≤ 28) (hwf : sc.WF) (b : Bool) (m r : Nat)
    (hr : 2 * r < 10 ^ (28 - sc.max))
    (hu : d.units = sgn b * ((m * 10 ^ (28 - sc.max) + r : Nat) : Int)) :
    valueOfShown (shownChars sc d) = sgn b * (m : Int) * (10 : Int) ^ (28 - sc.max) := by
  rw [(shown_value sc d hd hwf).1, hu, roundHalfAway_below_tie _ _ _ _ hr]

/-! ### the kernel keeps stored scales ≤ 28 (so every printed figure is covered by `shown_value`) -/

theorem chunkBy_forall {α κ} [DecidableEq κ] (key : α → κ) (P : α → Prop) :
    ∀ (l : List α), (∀ a ∈ l, P a) → ∀ kg ∈ chunkBy key l, ∀ a ∈ kg.2, P a := by
  intro l
  induction l with
  | nil => intro _ kg h; simp [chunkBy] at h
  | cons a t ih =>
    intro hl kg hkg x hx
    have iht := ih (fun y hy => hl y (List.mem_cons_of_mem _ hy))
    simp only [chunkBy] at hkg
    split at hkg
    · rename_i k g rest heq
      have hg : ∀ y ∈ g, P y := fun y hy => iht (k, g) (by rw [heq]; exact List.mem_cons_self) y hy
      have hrest : ∀ kg' ∈ rest, ∀ y ∈ kg'.2, P y :=
        fun kg' h' y hy => iht kg' (by rw [heq]; exact List.mem_cons_of_mem _ h') y hy
      split at hkg
      · rcases List.mem_cons.mp hkg with h | h
        · subst h
          rcases List.mem_cons.mp hx with h2 | h2
          · subst h2; exact hl _ List.mem_cons_self
          · exact hg x h2
        · exact hrest kg h x hx
      · rcases List.mem_cons.mp hkg with h | h
        · subst h
          simp at hx; subst hx; exact hl _ List.mem_cons_self
        · rcases List.mem_cons.mp h with h | h
          · subst h; exact hg x hx
          · exact hrest kg h x hx
    · simp at hkg; subst hkg
      simp at hx; subst hx; exact hl _ List.mem_cons_self

/-- every group of `chunkBy` is a sublist-by-membership of the input -/
theorem chunkBy_mem {α κ} [DecidableEq κ] (key : α → κ) (l : List α) :
    ∀ kg ∈ chunkBy key l, ∀ a ∈ kg.2, a ∈ l :=
  chunkBy_forall key (fun a => a ∈ l) l (fun _ h => h)

theorem sumGroups_scale : ∀ (gs : List (AKey × List BPost)) (r : List (AKey × Dec)),
    sumGroups gs = some r → (∀ kg ∈ gs, ∀ p ∈ kg.2, p.amount.scale ≤ 28) → ∀ ks ∈ r, ks.2.scale ≤ 28 := by
  intro gs
  induction gs with
  | nil => intro r h _ ks hks; simp [sumGroups] at h; subst h; cases hks
  | cons kg rest ih =>
    intro r h hg ks hks
    obtain ⟨k, g⟩ := kg
    simp only [sumGroups] at h
    split at h
    · cases h
    · rename_i s hs
      split at h
      · cases h
      · rename_i r' hr'
        cases h
        rcases List.mem_cons.mp hks with h1 | h1
        · subst h1
          refine (Dec.sum_units _ s ?_ hs).2
          intro d hd
          obtain ⟨p, hp, rfl⟩ := List.mem_map.mp hd
          exact hg (k, g) List.mem_cons_self p hp
        · exact ih r' hr' (fun kg' h' => hg kg' (List.mem_cons_of_mem _ h')) ks h1

theorem accountSums_scale (posts : List BPost) (sums : List (AKey × Dec))
    (hp : ∀ p ∈ posts, p.amount.scale ≤ 28) (h : accountSums posts = some sums) :
    ∀ ks ∈ sums, ks.2.scale ≤ 28 := by
  unfold accountSums at h
  refine sumGroups_scale _ sums h ?_
  refine chunkBy_forall BPost.key (fun p => p.amount.scale ≤ 28) _ ?_
  intro a ha
  exact hp a ((List.mergeSort_perm posts _).mem_iff.mp ha)

theorem bubbleUp_scale (st : Settings) (sums : List (AKey × Dec)) (hs : ∀ s ∈ sums, s.2.scale ≤ 28) :
    ∀ (fuel : Nat) (me : AKey × Dec) (l : List (AKey × Dec)), bubbleUp st sums fuel me = .ok l →
      me.2.scale ≤ 28 → ∀ x ∈ l, x.2.scale ≤ 28 := by
  intro fuel
  induction fuel with
  | zero => intro me l h; simp [bubbleUp] at h
  | succ fuel ih =>
    intro me l h hme x hx
    simp only [bubbleUp] at h
    split at h
    · cases h; simp at hx; subst hx; exact hme
    · split at h
      · rename_i p hp
        obtain ⟨l', hl', rfl⟩ := (Outcome.map_ok _ _ _).mp h
        rcases List.mem_append.mp hx with h1 | h1
        · exact ih p l' hl' (hs p (List.mem_of_find?_eq_some hp)) x h1
        · simp at h1; subst h1; exact hme
      · split at h
        · cases h
        · cases h
        · obtain ⟨l', hl', rfl⟩ := (Outcome.map_ok _ _ _).mp h
          rcases List.mem_append.mp hx with h1 | h1
          · exact ih _ l' hl' (by simp [Dec.zero]) x h1
          · simp at h1; subst h1; exact hme

theorem bubbleAll_scale (st : Settings) (sums : List (AKey × Dec)) (hs : ∀ s ∈ sums, s.2.scale ≤ 28) :
    ∀ (l : List (AKey × Dec)) (ls : List (List (AKey × Dec))), bubbleAll st sums l = .ok ls →
      (∀ s ∈ l, s.2.scale ≤ 28) → ∀ x ∈ ls.flatten, x.2.scale ≤ 28 := by
  intro l
  induction l with
  | nil => intro ls h _ x hx; simp [bubbleAll] at h; subst h; simp at hx
  | cons s rest ih =>
    intro ls h hl x hx
    simp only [bubbleAll] at h
    split at h
    · cases h
    · cases h
    · rename_i l1 h1
      split at h
      · cases h
      · cases h
      · rename_i ls' h2
        cases h
        rw [List.flatten_cons] at hx
        rcases List.mem_append.mp hx with h3 | h3
        · exact bubbleUp_scale st sums hs _ s l1 h1 (hl s List.mem_cons_self) x h3
        · exact ih ls' h2 (fun y hy => hl y (List.mem_cons_of_mem _ hy)) x h3

theorem btreeInsert_mem (x : AKey × Dec) : ∀ (l : List (AKey × Dec)) (y : AKey × Dec),
    y ∈ btreeInsert l x → y ∈ l ∨ y = x := by
  intro l
  induction l with
  | nil => intro y h; simp [btreeInsert] at h; exact Or.inr h
  | cons z t ih =>
    intro y h
    simp only [btreeInsert] at h
    split at h
    · rcases List.mem_cons.mp h with h1 | h1
      · exact Or.inr h1
      · exact Or.inl h1
    · split at h
      · rcases List.mem_cons.mp h with h1 | h1
        · exact Or.inl (h1 ▸ List.mem_cons_self)
        · rcases ih y h1 with h2 | h2
          · exact Or.inl (List.mem_cons_of_mem _ h2)
          · exact Or.inr h2
      · exact Or.inl h

theorem btreeCollect_mem (l : List (AKey × Dec)) : ∀ y ∈ btreeCollect l, y ∈ l := by
  unfold btreeCollect
  suffices h : ∀ (l acc : List (AKey × Dec)) (y : AKey × Dec), y ∈ l.foldl btreeInsert acc → y ∈ acc ∨ y ∈ l by
    intro y hy
    rcases h l [] y hy with h1 | h1
    · cases h1
    · exact h1
  intro l
  induction l with
  | nil => intro acc y h; exact Or.inl h
  | cons x t ih =>
    intro acc y h
    rw [List.foldl_cons] at h
    rcases ih _ y h with h1 | h1
    · rcases btreeInsert_mem x acc y h1 with h2 | h2
      · exact Or.inl h2
      · exact Or.inr (h2 ▸ List.mem_cons_self)
    · exact Or.inr (List.mem_cons_of_mem _ h1)

theorem flattenOpt_forall {α} (P : α → Prop) : ∀ (l : List (Option (List α))) (r : List α),
    flattenOpt l = some r → (∀ l', some l' ∈ l → ∀ x ∈ l', P x) → ∀ x ∈ r, P x := by
  intro l
  induction l with
  | nil => intro r h _ x hx; simp [flattenOpt] at h; subst h; cases hx
  | cons o rest ih =>
    intro r h hl x hx
    cases o with
    | none => simp [flattenOpt] at h
    | some l1 =>
      simp only [flattenOpt] at h
      split at h
      · cases h
      · rename_i r' hr'
        cases h
        rcases List.mem_append.mp hx with h1 | h1
        · exact hl l1 List.mem_cons_self x h1
        · exact ih r' hr' (fun l' h' => hl l' (List.mem_cons_of_mem _ h')) x h1

/-- both figures of a row -/
def RowOk (r : BalRow) : Prop := r.own.scale ≤ 28 ∧ r.tree.scale ≤ 28

theorem treeNodes_scale (complete : List (AKey × Dec)) (hc : ∀ s ∈ complete, s.2.scale ≤ 28) :
    ∀ (fuel : Nat) (me : AKey × Dec) (rows : List BalRow), treeNodes complete fuel me = some rows →
      me.2.scale ≤ 28 → ∀ r ∈ rows, RowOk r := by
  intro fuel
  induction fuel with
  | zero => intro me rows h; simp [treeNodes] at h
  | succ fuel ih =>
    intro me rows h hme r hr
    simp only [treeNodes] at h
    split at h
    · cases h
    · rename_i sub hsub
      have hsubok : ∀ x ∈ sub, RowOk x := by
        refine flattenOpt_forall RowOk _ sub hsub ?_
        intro l' hl' x hx
        obtain ⟨s, hs, hs'⟩ := List.mem_map.mp hl'
        exact ih s l' hs' (hc s ((List.mem_filter.mp hs).1)) x hx
      split at h
      · cases h
      · rename_i cs hcs
        split at h
        · cases h
        · rename_i t ht
          cases h
          rcases List.mem_cons.mp hr with h1 | h1
          · subst h1
            have hcs' : cs.scale ≤ 28 := by
              refine (Dec.sum_units _ cs ?_ hcs).2
              intro d hd
              obtain ⟨x, hx, rfl⟩ := List.mem_map.mp hd
              exact (hsubok x ((List.mem_filter.mp hx).1)).2
            exact ⟨hme, (Dec.add_units cs me.2 t hcs' hme ht).2⟩
          · exact hsubok r h1

theorem balance_scale (st : Settings) (posts : List BPost) (bal : List BalRow)
    (hp : ∀ p ∈ posts, p.amount.scale ≤ 28) (h : balance st posts = .ok bal) : ∀ r ∈ bal, RowOk r := by
  unfold balance at h
  split at h
  · cases h
  · rename_i sums hsums
    have hs := accountSums_scale posts sums hp hsums
    split at h
    · cases h
    · cases h
    · rename_i complete hcomp
      have hc : ∀ s ∈ complete, s.2.scale ≤ 28 := by
        unfold completeTree at hcomp
        obtain ⟨ls, hls, rfl⟩ := (Outcome.map_ok _ _ _).mp hcomp
        intro s hs'
        exact bubbleAll_scale st sums hs sums ls hls hs s (btreeCollect_mem _ s hs')
      split at h
      · cases h
      · rename_i rows hrows
        cases h
        intro r hr
        have hr' : r ∈ rows := (List.mergeSort_perm rows _).mem_iff.mp hr
        refine flattenOpt_forall RowOk _ rows hrows ?_ r hr'
        intro l' hl' x hx
        obtain ⟨s, hs', hs''⟩ := List.mem_map.mp hl'
        exact treeNodes_scale complete hc _ s l' hs'' (hc s ((List.mem_filter.mp hs').1)) x hx

/-- every delta is the `Decimal` sum of the account sums of one commodity chunk of the listed rows -/
theorem deltaGroups_mem : ∀ (gs : List (String × List BalRow)) (ds : List (String × Dec)),
    deltaGroups gs = some ds → ∀ cd ∈ ds, ∃ g, (cd.1, g) ∈ gs ∧ Dec.sum (g.map (·.own)) = some cd.2 := by
  intro gs
  induction gs with
  | nil => intro ds h cd hcd; simp [deltaGroups] at h; subst h; cases hcd
  | cons cg rest ih =>
    intro ds h cd hcd
    obtain ⟨c, g⟩ := cg
    simp only [deltaGroups] at h
    split at h
    · cases h
    · rename_i s hs
      split at h
      · cases h
      · rename_i r' hr'
        cases h
        rcases List.mem_cons.mp hcd with h1 | h1
        · subst h1; exact ⟨g, List.mem_cons_self, hs⟩
        · obtain ⟨g', hg', hs'⟩ := ih r' hr' cd h1
          exact ⟨g', List.mem_cons_of_mem _ hg', hs'⟩

/-- what `fromIter` returns: rows with stored scales ≤ 28, and every delta is the exact sum of the unrounded
    account sums of its commodity chunk -/
theorem fromIter_figures (st : Settings) (sel : BalRow → Bool) (posts : List BPost) (b : Balance)
    (hp : ∀ p ∈ posts, p.amount.scale ≤ 28) (h : fromIter st sel posts = .ok b) :
    (∀ r ∈ b.rows, RowOk r) ∧
    (∀ cd ∈ b.deltas, ∃ g, (cd.1, g) ∈ chunkBy (·.comm) b.rows ∧ (∀ r ∈ g, r ∈ b.rows) ∧
        cd.2.units = (g.map (·.own.units)).sum ∧ cd.2.scale ≤ 28) := by
  unfold fromIter at h
  split at h
  · cases h
  · cases h
  · rename_i bal hbal
    have hb := balance_scale st posts bal hp hbal
    split at h
    · cases h
    · rename_i ds hds
      cases h
      have hrows : ∀ r ∈ bal.filter sel, RowOk r := fun r hr => hb r ((List.mem_filter.mp hr).1)
      refine ⟨hrows, ?_⟩
      intro cd hcd
      obtain ⟨g, hg, hs⟩ := deltaGroups_mem _ ds hds cd hcd
      have hgm := chunkBy_mem (·.comm) (bal.filter sel) (cd.1, g) hg
      have hsum := Dec.sum_units (g.map (·.own)) cd.2 (by
        intro d hd
        obtain ⟨x, hx, rfl⟩ := List.mem_map.mp hd
        exact (hrows x (hgm x hx)).1) hs
      refine ⟨g, hg, hgm, ?_, hsum.2⟩
      rw [hsum.1, List.map_map]; rfl

/-! ### display only -/

/-- the scale enters after the kernel: `fromIter : Settings → (BalRow → Bool) → List BPost → Outcome Balance`
    has no scale argument, and the report at *any* scale is `balanceTxt` of the same kernel figures -/
theorem report_factors (st : Settings) (sel : BalRow → Bool) (posts : List BPost) (sc : Scale) (t : BalanceText)
    (h : balanceReport st sel sc posts = .ok t) :
    ∃ b, fromIter st sel posts = .ok b ∧ t = balanceTxt sc b ∧
      ∀ sc', balanceReport st sel sc' posts = .ok (balanceTxt sc' b) := by
  unfold balanceReport at h
  obtain ⟨b, hb, rfl⟩ := (Outcome.map_ok _ _ _).mp h
  refine ⟨b, hb, rfl, ?_⟩
  intro sc'
  unfold balanceReport
  rw [hb]; rfl

/-- **C17 (4) display only.**  Every figure the balance report prints is `shown sc` of the kernel's *exact*
    figure – rows in the kernel's order, `own`/`tree`/delta positions – where the kernel figures are computed
    without the scale (the same `b` serves every scale `sc'`).  Hence the value each printed figure denotes is the
    exact figure rounded half away from zero; in particular a printed delta (total) is the *rounded exact sum* of
    the unrounded account sums of its commodity – never the sum of the rounded parts. -/
theorem display_only (st : Settings) (sel : BalRow → Bool) (posts : List BPost) (sc : Scale) (t : BalanceText)
    (hwf : sc.WF) (hp : ∀ p ∈ posts, p.amount.scale ≤ 28)
    (h : balanceReport st sel sc posts = .ok t) :
    ∃ b, fromIter st sel posts = .ok b
      ∧ (∀ sc', balanceReport st sel sc' posts = .ok (balanceTxt sc' b))
      ∧ t.rows = b.rows.map (fun r => ⟨r.acct, r.comm, shown sc r.own, shown sc r.tree⟩)
      ∧ t.deltas = b.deltas.map (fun cd => (cd.1, shown sc cd.2))
      ∧ (∀ r ∈ b.rows,
          valueOfShown (shown sc r.own).toList = roundHalfAway (28 - sc.max) r.own.units ∧
          valueOfShown (shown sc r.tree).toList = roundHalfAway (28 - sc.max) r.tree.units)
      ∧ (∀ cd ∈ b.deltas, ∃ g, (cd.1, g) ∈ chunkBy (·.comm) b.rows ∧ (∀ r ∈ g, r ∈ b.rows) ∧
          valueOfShown (shown sc cd.2).toList = roundHalfAway (28 - sc.max) (g.map (·.own.units)).sum) := by
  obtain ⟨b, hb, rfl, hall⟩ := report_factors st sel posts sc t h
  have hf := fromIter_figures st sel posts b hp hb
  refine ⟨b, hb, hall, rfl, rfl, ?_, ?_⟩
  · intro r hr
    rw [shown_toList, shown_toList]
    exact ⟨(shown_value sc r.own (hf.1 r hr).1 hwf).1, (shown_value sc r.tree (hf.1 r hr).2 hwf).1⟩
  · intro cd hcd
    obtain ⟨g, hg, hgm, hu, hs⟩ := hf.2 cd hcd
    refine ⟨g, hg, hgm, ?_⟩
    rw [shown_toList, (shown_value sc cd.2 hs hwf).1, hu]

/-- the register's `amount_to_string` is the shown figure up to one leading blank -/
theorem amountToString_strip (sc : Scale) (d : Dec) (w : Nat) :
    (amountToString sc d w).dropWhile (· == ' ') = shownChars sc d := by
  have hne : ∀ c t, shownChars sc d = c :: t → (c == ' ') = false := by
    intro c t h
    obtain ⟨ip, fp, heq, hip, hdig, _, _⟩ := shown_shape sc d
    rw [heq] at h
    cases ip with
    | nil => exact absurd rfl hip
    | cons i it =>
      have hi := hdig i List.mem_cons_self
      by_cases hn : (d.roundHA (sc.getPrecision d)).neg
      · simp [hn] at h; rw [← h.1]; decide
      · simp [hn] at h; rw [← h.1]
        rw [beq_eq_false_iff_ne]; intro e; subst e; exact absurd hi (by decide)
  have hstrip : (shownChars sc d).dropWhile (· == ' ') = shownChars sc d := by
    cases hc : shownChars sc d with
    | nil => rfl
    | cons c t => simp [hne c t hc]
  unfold amountToString
  split
  · simp [hstrip]
  · exact hstrip

/-! ### non-vacuity and regression witnesses (concrete figures; `decide` evaluates the model) -/

def dec (neg : Bool) (coeff scale : Nat) : Dec := ⟨neg, coeff, scale⟩

-- exact midpoints go away from zero, both signs; one ulp below goes towards zero
example : shownChars ⟨2, 2⟩ (dec false 1005 3) = "1.01".toList := by decide
example : shownChars ⟨2, 2⟩ (dec true 1005 3) = "-1.01".toList := by decide
example : shownChars ⟨2, 2⟩ (dec false 100499 5) = "1.00".toList := by decide
example : shownChars ⟨0, 0⟩ (dec false 25 1) = "3".toList := by decide
example : shownChars ⟨0, 0⟩ (dec true 5 1) = "-1".toList := by decide
-- half-even or truncation would print 0.12 here
example : shownChars ⟨2, 2⟩ (dec false 125 3) = "0.13".toList := by decide
-- carry into a new integer digit
example : shownChars ⟨2, 2⟩ (dec false 9995 3) = "10.00".toList := by decide
-- fewer decimals than min: padded; between min and max: as stored; trailing zeros beyond max: dropped
example : shownChars ⟨2, 7⟩ (dec false 15 1) = "1.50".toList := by decide
example : shownChars ⟨2, 7⟩ (dec false 12345 4) = "1.2345".toList := by decide
example : shownChars ⟨2, 4⟩ (dec false 12300000 7) = "1.2300".toList := by decide
-- a negative figure that rounds to zero loses its sign (`Decimal::from_parts`); a stored `-0.000` keeps it
example : shownChars ⟨2, 2⟩ (dec true 4 3) = "0.00".toList := by decide
example : shownChars ⟨2, 2⟩ (dec true 0 3) = "-0.00".toList := by decide
-- F20 witness: 1000 at 28 decimals is 33 characters (the real formatter's 32-byte buffer overflowed)
example : (shownChars ⟨28, 28⟩ (dec false 1000 0)).length = 33 := by decide
-- `Scale::from`
example : Scale.ofRaw 3 2 = .err ∧ Scale.ofRaw 0 29 = .err ∧ Scale.ofRaw 28 28 = .ok ⟨28, 28⟩ := by decide
-- hypotheses of the theorems are satisfiable: a figure that does not fit, and one that does
example : ¬ Fits ⟨2, 2⟩ (dec false 1005 3) := by
  rw [fits_iff_dvd _ _ (by decide)]
  rintro ⟨n, hn⟩
  have : (dec false 1005 3).units = 1005 * 10 ^ 25 := by decide
  rw [this] at hn
  have h2 : (1005 : Int) * 10 ^ 25 = n * 10 ^ 26 := hn
  omega
example : Fits ⟨2, 4⟩ (dec false 12300000 7) := ⟨12300, by decide⟩
example : valueOfShown "-1.01".toList = -101 * 10 ^ 26 ∧ decimalsOf "-1.01".toList = 2 := by decide

/-- **Parts round up, the total rounds down.**  Account sums 0.006 and 0.006 of one commodity at scale 2..2:
    each is shown as 0.01, their delta 0.012 is shown as 0.01 – the rounded exact total, not the sum 0.02 of the
    shown parts. -/
def partsUp : Balance :=
  { rows := [⟨["p", "c1"], "", dec false 6 3, dec false 6 3⟩, ⟨["p", "c2"], "", dec false 6 3, dec false 6 3⟩],
    deltas := [("", dec false 12 3)] }

example : Dec.sum (partsUp.rows.map (·.own)) = some (dec false 12 3) := by decide
example : (partsUp.rows.map (fun r => shownChars ⟨2, 2⟩ r.own)) = ["0.01".toList, "0.01".toList] := by decide
example : (partsUp.deltas.map (fun cd => shownChars ⟨2, 2⟩ cd.2)) = ["0.01".toList] := by decide
example : valueOfShown "0.01".toList + valueOfShown "0.01".toList ≠ valueOfShown "0.01".toList := by decide
example : valueOfShown (shownChars ⟨2, 2⟩ (dec false 12 3)) = roundHalfAway 26 (6 * 10 ^ 25 + 6 * 10 ^ 25) := by decide

end C17
end Tackler

import TacklerModel.Props.C05
import TacklerModel.Props.C18
/-!
# C05 (continued) — "text filters match whole strings"

`Props/C05.lean` takes the pattern matcher `m` as a parameter.  Here it is instantiated with the matcher the
code really uses, `new_full_haystack_regex(pattern).is_match(haystack)` (`C18.fullMatch`, the same function
as the driver's `Ops.regexMatch`), and connected to the *meaning* of the pattern (`Regex.FullMatch`, the
declarative semantics of Model/Regex, via C11 `parse_wrap`, `matcher_sound`, `wrap_is_full`).
All statements are for every pattern inside the modelled regex subset (`Regex.parse p = some r`).
-/
namespace Tackler
namespace C05

open Regex in
/-- the filters' matcher is one whole-string match of the pattern the user wrote -/
theorem fullMatch_whole (p : String) (r : Regex) (hay : String) (hp : Regex.parse p = some r) :
    C18.fullMatch p hay = true ↔ Regex.FullMatch r hay.toList := by
  rw [← C18.storedMatch_wrap]
  exact C18.stored_is_whole_match p r hay hp

/-- a code filter selects exactly the transactions whose code exists and matches the pattern as a whole -/
theorem code_whole_string (p : String) (r : Regex) (t : Txn) (hp : Regex.parse p = some r) :
    Filter.eval C18.fullMatch (.code p) t = true ↔ ∃ c, t.header.code = some c ∧ Regex.FullMatch r c.toList := by
  rw [eval_sat]
  simp only [Sat]
  constructor
  · rintro ⟨c, hc, hm⟩; exact ⟨c, hc, (fullMatch_whole p r c hp).mp hm⟩
  · rintro ⟨c, hc, hm⟩; exact ⟨c, hc, (fullMatch_whole p r c hp).mpr hm⟩

theorem desc_whole_string (p : String) (r : Regex) (t : Txn) (hp : Regex.parse p = some r) :
    Filter.eval C18.fullMatch (.desc p) t = true ↔ ∃ d, t.header.desc = some d ∧ Regex.FullMatch r d.toList := by
  rw [eval_sat]
  simp only [Sat]
  constructor
  · rintro ⟨c, hc, hm⟩; exact ⟨c, hc, (fullMatch_whole p r c hp).mp hm⟩
  · rintro ⟨c, hc, hm⟩; exact ⟨c, hc, (fullMatch_whole p r c hp).mpr hm⟩

/-- posting-account filters need a posting whose *entire* account name matches -/
theorem post_account_whole_string (p : String) (r : Regex) (t : Txn) (hp : Regex.parse p = some r) :
    Filter.eval C18.fullMatch (.postAccount p) t = true ↔
      ∃ q ∈ t.posts, Regex.FullMatch r (acctName q.acct).toList := by
  rw [eval_sat]
  simp only [Sat]
  constructor
  · rintro ⟨q, hq, hm⟩; exact ⟨q, hq, (fullMatch_whole p r _ hp).mp hm⟩
  · rintro ⟨q, hq, hm⟩; exact ⟨q, hq, (fullMatch_whole p r _ hp).mpr hm⟩

/-- amount filters: account pattern (whole name) and amount condition on the same posting -/
theorem post_amount_whole_string (p : String) (r : Regex) (x : Dec) (t : Txn) (hp : Regex.parse p = some r) :
    Filter.eval C18.fullMatch (.postAmountEq p x) t = true ↔
      ∃ q ∈ t.posts, q.amount.units = x.units ∧ Regex.FullMatch r (acctName q.acct).toList := by
  rw [eval_sat]
  simp only [Sat]
  constructor
  · rintro ⟨q, hq, he, hm⟩; exact ⟨q, hq, he, (fullMatch_whole p r _ hp).mp hm⟩
  · rintro ⟨q, hq, he, hm⟩; exact ⟨q, hq, he, (fullMatch_whole p r _ hp).mpr hm⟩

/-- a literal pattern (no metacharacters) selects by equality, never by a proper part -/
theorem literal_code_filter (cs : List Char) (t : Txn) (hp : Regex.parse (String.ofList cs) = some (Regex.lits cs)) :
    Filter.eval C18.fullMatch (.code (String.ofList cs)) t = true ↔ t.header.code = some (String.ofList cs) := by
  rw [code_whole_string _ _ t hp]
  constructor
  · rintro ⟨c, hc, hm⟩
    have : c.toList = cs := (Regex.lits_full cs c.toList).mp hm
    rw [hc, ← this]; simp
  · intro hc
    refine ⟨String.ofList cs, hc, ?_⟩
    have h := (Regex.lits_full cs cs).mpr rfl
    simpa [Regex.FullMatch] using h

/-! ## Successive selections

`TxnData::filter` evaluates one definition over the loaded transactions and hands back a `TxnSet` of references; a
user narrows a selection by wrapping definitions in `AND`.  The laws below say that this is what narrowing means:
selecting from a selection (the model's `filterTxns` applied twice) is the single selection with the conjunction,
in either order; selecting again with the same definition changes nothing; a definition and its negation never
share a transaction and miss none; `OR` is the union; and the selection of a re-arranged journal is the re-arranged
selection.  For every matcher, every definition and every journal. -/

/-- narrowing a selection by `g` after `f` is the single selection `AND [f, g]` -/
theorem filter_compose (m : String → String → Bool) (f g : Filter) (ts : List Txn) :
    filterTxns m g (filterTxns m f ts) = filterTxns m (.and [f, g]) ts := by
  unfold filterTxns
  rw [List.filter_filter]
  congr 1
  funext t
  simp [Filter.eval, Filter.evalAll, Bool.and_comm]

/-- the order of two successive selections is irrelevant -/
theorem filter_comm (m : String → String → Bool) (f g : Filter) (ts : List Txn) :
    filterTxns m g (filterTxns m f ts) = filterTxns m f (filterTxns m g ts) := by
  unfold filterTxns
  rw [List.filter_filter, List.filter_filter]
  congr 1
  funext t
  exact Bool.and_comm _ _

/-- selecting again with the same definition changes nothing -/
theorem filter_idem (m : String → String → Bool) (f : Filter) (ts : List Txn) :
    filterTxns m f (filterTxns m f ts) = filterTxns m f ts := by
  unfold filterTxns
  rw [List.filter_filter]
  congr 1
  funext t
  simp

/-- a definition and its negation never select the same transaction, and between them they select all -/
theorem filter_not_complement (m : String → String → Bool) (f : Filter) (ts : List Txn) (t : Txn) (ht : t ∈ ts) :
    (t ∈ filterTxns m f ts ∧ t ∉ filterTxns m (.not f) ts) ∨ (t ∉ filterTxns m f ts ∧ t ∈ filterTxns m (.not f) ts) := by
  unfold filterTxns
  simp only [List.mem_filter, Filter.eval]
  cases h : Filter.eval m f t <;> simp [ht]

/-- `OR` selects exactly what either member selects -/
theorem filter_or_mem (m : String → String → Bool) (f g : Filter) (ts : List Txn) (t : Txn) :
    t ∈ filterTxns m (.or [f, g]) ts ↔ t ∈ filterTxns m f ts ∨ t ∈ filterTxns m g ts := by
  unfold filterTxns
  simp only [List.mem_filter, Filter.eval, Filter.evalAny, Bool.or_false, Bool.or_eq_true]
  constructor
  · rintro ⟨h, h1 | h2⟩
    · exact Or.inl ⟨h, h1⟩
    · exact Or.inr ⟨h, h2⟩
  · rintro (⟨h, h1⟩ | ⟨h, h2⟩)
    · exact ⟨h, Or.inl h1⟩
    · exact ⟨h, Or.inr h2⟩

/-- the selection of a re-arranged journal is the re-arranged selection (with C04: selection commutes with loading) -/
theorem filter_perm (m : String → String → Bool) (f : Filter) (ts ts' : List Txn) (hp : ts.Perm ts') :
    (filterTxns m f ts).Perm (filterTxns m f ts') :=
  hp.filter _

/-- non-vacuity: on a two-transaction journal, narrowing by two half-open time bounds selects the one inside both -/
example : ∀ (m : String → String → Bool) (a b : Txn), a.header.ts.ns = 5 → b.header.ts.ns = 20 →
    filterTxns m (.tsEnd 10) (filterTxns m (.tsBegin 0) [a, b]) = [a] := by
  intro m a b ha hb
  simp [filterTxns, List.filter, Filter.eval, ha, hb]

end C05
end Tackler

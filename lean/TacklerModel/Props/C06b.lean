import TacklerModel.Props.C06
import TacklerModel.Props.C16
import TacklerModel.Lemmas.RawLex
/-!
# C06, continued — the named gaps of `Props/C06.lean` closed

1. **`RawLex` of the parser's output** (`parseJournal_rawLex`): every parse tree `Syntax.parseJournal` produces is
   lexically well-formed — one lemma per parser in `Lemmas/RawLex.lean` ("what `p_x` returns is well-formed"),
   composed here over header, transaction and journal.  Hence `roundtrip_text`: the round trip for journals that
   come from *text*, with no lexical hypothesis.
2. **Timestamps for all instants** (`tsOK_of_fields`, `tsOK_of_resolved`, `timestamp_roundtrip_all`): the decidable
   per-instant check `TsOK` holds of *every* instant whose civil year at its own offset is 0000…9999, whose offset
   is a whole number of minutes within ±25:59 and which is in `jiff`'s range — by the calendar inverse laws of
   `Lemmas/Time.lean`, not by evaluation — and these are exactly the instants `resolveTs` returns for a fixed-offset
   journal zone of whole minutes (`CfgOK`).  What does *not* round-trip is stated too (`offset_seconds_not_tsOK`,
   `negative_year_not_tsOK`, `out_of_range_not_tsOK`): offsets with seconds (F13; only a named zone or a configured offset with seconds
   produces them) and negative civil years (the grammar has four year digits and no sign; `resolveTs` never
   produces one at the timestamp's own offset).
3. **Division contract** (`accepted_unit_price_div_exact`, `accepted_div_wf`): for the model's executable division
   `Dec.divQuot` the contract `DivExact` is a theorem on every posting the acceptor produces — an accepted `@` posting
   has `txnAmount = amount × price` exactly (otherwise `valuePosition` answers `inexact`), and then
   `divQuot txnAmount amount` is that price.  So `roundtrip_text_divQuot` has no division hypothesis left.  The
   statements for an abstract `div` (`roundtrip_accepted`, `roundtrip_text`) keep `DivExact` as the contract of
   `rust_decimal`'s `Div`; the link between the two is the tie, which compares the quotient the real `Display for
   Posting` prints with the model's on every generated `@` posting (gen/c06.py: identity export byte for byte).
-/
namespace Tackler
namespace C06
open Comb Syntax Print

/-! ## 2. timestamps -/

/-- **which instants print re-parsably** — closed form of the decidable check `TsOK`: the civil year of the instant at
    its own offset is 0000…9999, the offset is a whole number of minutes within ±25:59(:59), the instant is in range.
    Validity of the civil fields and the inverse law `civilNs (civilAt ts) − offset = ts` hold of every instant
    (`Time.civilNs_civilAt`, i.e. `days_roundtrip`), so they are no conditions. -/
theorem tsOK_of_fields (ts : Ts) (hy0 : 0 ≤ (Time.civilAt ts.ns ts.offset).1) (hy1 : (Time.civilAt ts.ns ts.offset).1 ≤ 9999)
    (hoff : Time.offsetOk ts.offset = true) (hmin : ts.offset.natAbs % 60 = 0) (hinst : Time.instantOk ts.ns = true) :
    TsOK ts = true := by
  generalize hc : Time.civilAt ts.ns ts.offset = c at hy0 hy1
  obtain ⟨y, m, d, h, mi, s, sub⟩ := c
  obtain ⟨hm1, hm2, hd1, hd2, hh, hmi, hs, hsub, hrec⟩ := Time.civilNs_civilAt ts.ns ts.offset y m d h mi s sub hc
  simp only at hy0 hy1
  have hyn : ((y.toNat : Nat) : Int) = y := by omega
  simp only [TsOK, tsY, tsM, tsD, tsH, tsMi, tsS, tsNs, hc, Bool.and_eq_true, decide_eq_true_eq]
  refine ⟨⟨⟨⟨⟨⟨⟨by omega, ?_⟩, ?_⟩, hsub⟩, hoff⟩, hmin⟩, hinst⟩, ?_⟩
  · simp only [Time.dateOk, hyn, Bool.and_eq_true, decide_eq_true_eq]
    omega
  · simp only [Time.timeOk, decide_eq_true_eq]; omega
  · unfold Time.civilNs
    rw [hyn]
    omega

/-- … and only those: `TsOK` implies the closed form -/
theorem fields_of_tsOK (ts : Ts) (h : TsOK ts = true) :
    (Time.civilAt ts.ns ts.offset).1.toNat ≤ 9999 ∧ Time.offsetOk ts.offset = true ∧ ts.offset.natAbs % 60 = 0 ∧
    Time.instantOk ts.ns = true := by
  simp only [TsOK, Bool.and_eq_true, decide_eq_true_eq] at h
  obtain ⟨⟨⟨⟨⟨⟨⟨hy, _⟩, _⟩, _⟩, hoff⟩, hmin⟩, hinst⟩, _⟩ := h
  exact ⟨hy, hoff, hmin, hinst⟩

theorem isDig_of_isDecDigit (c : Char) (h : isDecDigit c = true) : Time.isDig c = true := by
  simp only [isDecDigit, Bool.and_eq_true, decide_eq_true_eq] at h
  unfold Time.isDig
  have e1 : ('0' : Char).toNat = 48 := rfl
  have e2 : ('9' : Char).toNat = 57 := rfl
  have l1 : '0' ≤ c ↔ ('0' : Char).toNat ≤ c.toNat := Char.le_def
  have l2 : c ≤ '9' ↔ c.toNat ≤ ('9' : Char).toNat := Char.le_def
  simp only [decide_eq_true_eq, l1, l2, e1, e2]
  exact h

theorem fracOk_of_fracDigits (t : Time.TsToken) (h : FracDigits t) : C16.FracOk t :=
  fun hh mi s ds e => ⟨fun c hc => isDig_of_isDecDigit c ((h hh mi s ds e).1 c hc), (h hh mi s ds e).2⟩

/-- a journal zone the export prints re-parsably: a fixed offset of whole minutes within ±25:59 (what
    `kernel.timestamp.timezone.offset = "±HH:MM"` can express) and a valid default time -/
def CfgOK (cfg : Time.TsCfg) : Prop :=
  C16.CfgOk cfg ∧ Time.offsetOk cfg.offset = true ∧ cfg.offset.natAbs % 60 = 0

/-- the offset a token is read with is a whole number of minutes the grammar reads back -/
theorem zoneOffset_ok (cfg : Time.TsCfg) (hcfg : CfgOK cfg) (t : Time.TsToken) (ts : Ts)
    (h : Time.resolveTs cfg t = .ok ts) : Time.offsetOk ts.offset = true ∧ ts.offset.natAbs % 60 = 0 := by
  obtain ⟨_, hoff, _, _⟩ := C16.instant_formula cfg t ts h
  rw [hoff]
  obtain ⟨y, m, d, time, zone⟩ := t
  rcases zone with _ | _ | ⟨neg, hh, mm⟩
  · exact hcfg.2
  · simp only [C16.zoneOffset]; exact ⟨by decide, by decide⟩
  · simp only [C16.zoneOffset]
    refine ⟨?_, ?_⟩
    · simp only [Time.resolveTs] at h
      (repeat' split at h) <;> first | (cases h; done) | simp_all
    · cases neg <;> simp <;> omega

/-- **`tsOK_of_resolved`.**  Every instant-with-offset the timestamp grammar can produce under a fixed-offset journal
    zone of whole minutes satisfies `TsOK`: no per-instant side condition is left. -/
theorem tsOK_of_resolved (cfg : Time.TsCfg) (hcfg : CfgOK cfg) (t : Time.TsToken) (ts : Ts) (hf : C16.FracOk t)
    (h : Time.resolveTs cfg t = .ok ts) : TsOK ts = true := by
  obtain ⟨_, _, hinst, hdate⟩ := C16.instant_formula cfg t ts h
  have hc := C16.roundtrip cfg t ts hcfg.1 hf h
  obtain ⟨hoff, hmin⟩ := zoneOffset_ok cfg hcfg t ts h
  have hy : t.year ≤ 9999 := by
    simp only [Time.dateOk, Bool.and_eq_true, decide_eq_true_eq] at hdate
    exact hdate.1.1
  refine tsOK_of_fields ts ?_ ?_ hoff hmin hinst <;> rw [hc] <;> simp only <;> omega

/-- **`timestamp_roundtrip_all`.**  `rfc_3339` then `parse_timestamp` is the identity on every timestamp the grammar
    produces (any of the three notations, any fraction, any written offset `±HH:MM` up to 25:59, `Z`, or the journal
    zone), whatever zone the re-parse is configured with. -/
theorem timestamp_roundtrip_all (cfg cfg' : Time.TsCfg) (hcfg : CfgOK cfg) (t : Time.TsToken) (ts : Ts) (hf : C16.FracOk t)
    (h : Time.resolveTs cfg t = .ok ts) (r : List Char) : parseTimestamp cfg' (rfc3339 ts ++ r) = .ok ts r :=
  timestamp_roundtrip cfg' ts (tsOK_of_resolved cfg hcfg t ts hf h) r

/-- the same from text: what `parse_timestamp` returned prints and parses back -/
theorem parseTimestamp_tsOK (cfg : Time.TsCfg) (hcfg : CfgOK cfg) (s r : List Char) (ts : Ts)
    (h : parseTimestamp cfg s = .ok ts r) : TsOK ts = true := by
  obtain ⟨t, hf, hres⟩ := parseTimestamp_resolved h
  exact tsOK_of_resolved cfg hcfg t ts (fracOk_of_fracDigits t hf) hres

theorem timestamp_text_roundtrip (cfg cfg' : Time.TsCfg) (hcfg : CfgOK cfg) (s r : List Char) (ts : Ts)
    (h : parseTimestamp cfg s = .ok ts r) (r' : List Char) : parseTimestamp cfg' (rfc3339 ts ++ r') = .ok ts r' :=
  timestamp_roundtrip cfg' ts (parseTimestamp_tsOK cfg hcfg s r ts h) r'

/-- the sub-range that does **not** round-trip, 1: an offset with seconds is printed `±HH:MM:SS`, which `p_offset`
    does not read back (F13) — such a `Ts` is never `TsOK` -/
theorem offset_seconds_not_tsOK (ts : Ts) (h : ts.offset.natAbs % 60 ≠ 0) : TsOK ts = false := by
  cases hk : TsOK ts with
  | false => rfl
  | true => exact absurd (fields_of_tsOK ts hk).2.2.1 h

/-- the sub-range that does **not** round-trip, 2: an instant outside `jiff`'s range is not `TsOK` -/
theorem out_of_range_not_tsOK (ts : Ts) (h : Time.instantOk ts.ns = false) : TsOK ts = false := by
  cases hk : TsOK ts with
  | false => rfl
  | true => rw [(fields_of_tsOK ts hk).2.2.2] at h; cases h

/-- the sub-range that does **not** round-trip, 3: a negative civil year (at the timestamp's own offset).  `rfc_3339`
    prints it with a sign (`-0001-…`), the grammar has four year digits and no sign.  The parser never produces one
    (`tsOK_of_resolved`); a `Ts` built otherwise is not `TsOK`. -/
theorem negative_year_not_tsOK (ts : Ts) (h : (Time.civilAt ts.ns ts.offset).1 < 0) : TsOK ts = false := by
  cases hk : TsOK ts with
  | false => rfl
  | true =>
    exfalso
    simp only [TsOK, tsY, tsM, tsD, tsH, tsMi, tsS, tsNs, Bool.and_eq_true, decide_eq_true_eq] at hk
    obtain ⟨⟨⟨⟨⟨⟨⟨_, hdate⟩, _⟩, _⟩, _⟩, _⟩, _⟩, hinv⟩ := hk
    replace hinv := of_decide_eq_true hinv
    generalize hc : Time.civilAt ts.ns ts.offset = c at h hdate hinv
    obtain ⟨y, m, d, hh, mi, s, sub⟩ := c
    obtain ⟨hm1, hm2, hd1, hd2, _, _, _, _, hrec⟩ := Time.civilNs_civilAt ts.ns ts.offset y m d hh mi s sub hc
    simp only at h hdate hinv
    have hy0 : y.toNat = 0 := by omega
    rw [hy0] at hdate hinv
    simp only [Time.dateOk, Bool.and_eq_true, decide_eq_true_eq] at hdate
    unfold Time.civilNs at hinv
    have hdays : Time.daysFromCivil ((0 : Nat) : Int) m d = Time.daysFromCivil y m d := by omega
    have := Time.daysFromCivil_inj ((0 : Nat) : Int) y m d m d ⟨hm1, hm2⟩ ⟨hd1, hdate.2.2⟩ ⟨hm1, hm2⟩ ⟨hd1, hd2⟩ hdays
    simp only [Prod.mk.injEq, and_true] at this
    omega

/-- no restriction is lost by `CfgOK`: a journal zone whose offset has seconds makes the parser itself produce
    timestamps that do not print re-parsably (the fixed-offset form of F13) -/
example : Time.resolveTs ⟨5989, (0, 0, 0, 0)⟩ ⟨1900, 1, 1, none, none⟩ = .ok ⟨-2208994789000000000, 5989⟩ := by decide

/-! ## 1. `RawLex` of the parser's output -/

theorem rawPostingLex_of {rp : RawPosting} (h : PostLex rp) : RawPostingLex rp :=
  ⟨h.acct, h.amount, h.unit, h.comment⟩

theorem metaWF_of (m : Option TxnMeta) (hm : ∀ x, m = some x → TxnMetaWF x)
    (ts : Ts) (code desc : Option String) (comments : Option (List String)) :
    MetaWF ⟨ts, code, desc, metaUuid m, metaLocation m, metaTags m, comments⟩ := by
  cases m with
  | none => exact ⟨(fun _ e => by cases e), (fun _ e => by cases e), (fun _ e => by cases e)⟩
  | some x =>
    have := hm x rfl
    exact ⟨this.uuid, this.location, this.tags⟩

/-- **header**: what `parse_txn_header` returns is a well-formed header with a re-parsable timestamp -/
theorem parseTxnHeader_ok_wf (cfg : Time.TsCfg) (hcfg : CfgOK cfg) {s r : List Char} {h : Header}
    (hp : parseTxnHeader cfg s = .ok h r) : TsOK h.ts = true ∧ HeaderWF h := by
  unfold parseTxnHeader at hp
  obtain ⟨ts, s1, hts, hp⟩ := (Res.bind_ok _ _ _ _).mp hp
  obtain ⟨code, s2, hcode, hp⟩ := (Res.bind_ok _ _ _ _).mp hp
  obtain ⟨desc, s3, hdesc, hp⟩ := (Res.bind_ok _ _ _ _).mp hp
  obtain ⟨_, s4, _, hp⟩ := (Res.bind_ok _ _ _ _).mp hp
  obtain ⟨m, s5, hm, hp⟩ := (Res.bind_ok _ _ _ _).mp hp
  obtain ⟨comments, s6, hcs, hp⟩ := (Res.bind_ok _ _ _ _).mp hp
  cases hp
  refine ⟨parseTimestamp_tsOK cfg hcfg s s1 ts hts, ?_, ?_, ?_, ?_⟩
  · intro c hc
    simp only at hc
    subst hc
    rcases opt_ok hcode with ⟨x, e, hx⟩ | ⟨e, _⟩
    · cases e
      obtain ⟨_, t1, _, h1⟩ := (Res.bind_ok _ _ _ _).mp hx
      exact parseTxnCode_ok_wf _ _ _ h1
    · cases e
  · intro d hd
    simp only at hd
    subst hd
    rcases opt_ok hdesc with ⟨x, e, hx⟩ | ⟨e, _⟩
    · cases e
      obtain ⟨_, t1, _, h1⟩ := (Res.bind_ok _ _ _ _).mp hx
      exact parseTxnDescription_ok_wf _ _ _ h1
    · cases e
  · apply metaWF_of
    intro x hx
    subst hx
    rcases opt_ok hm with ⟨y, e, hy⟩ | ⟨e, _⟩
    · cases e; exact parseTxnMeta_ok_wf hy
    · cases e
  · intro cs hc
    simp only at hc
    subst hc
    rcases opt_ok hcs with ⟨y, e, hy⟩ | ⟨e, _⟩
    · cases e
      exact repeat1_all parseTxnComment (fun c => LineText c.toList) (fun _ _ _ e => parseTxnComment_ok_lineText e) hy
    · cases e

/-- **transaction**: what `parse_txn` returns satisfies `RawLex` -/
theorem parseTxn_rawLex (cfg : Time.TsCfg) (hcfg : CfgOK cfg) {s r : List Char} {t : RawTxn}
    (hp : parseTxn cfg s = .ok t r) : RawLex t := by
  unfold parseTxn at hp
  obtain ⟨h, s1, hh, hp⟩ := (Res.bind_ok _ _ _ _).mp hp
  obtain ⟨ps, s2, hps, hp⟩ := (Res.bind_ok _ _ _ _).mp hp
  obtain ⟨_, s3, _, hp⟩ := (Res.bind_ok _ _ _ _).mp hp
  cases hp
  obtain ⟨hts, hhw⟩ := parseTxnHeader_ok_wf cfg hcfg (cutErr_ok hh)
  obtain ⟨_, hall, hlast⟩ := parseTxnPostings_ok_wf (ps := ps.1) (last := ps.2) (cutErr_ok hps)
  exact ⟨hts, hhw, fun rp hrp => rawPostingLex_of (hall rp hrp), hlast⟩

/-- **`RawLex` of the parser's output.**  Every parse tree `Syntax.parseJournal` produces from a text is lexically
    well-formed, and there is at least one (`repeat_till(1.., …)`).  This is the hypothesis `hlex` of
    `roundtrip_accepted`, now a theorem for journals that come from text. -/
theorem parseJournal_rawLex (cfg : Time.TsCfg) (hcfg : CfgOK cfg) (text : List Char) (rs : List RawTxn)
    (hp : parseJournal cfg text = some rs) : rs ≠ [] ∧ ∀ r ∈ rs, RawLex r := by
  unfold parseJournal at hp
  split at hp
  · rename_i ts hts
    cases hp
    unfold parseTxns at hts
    obtain ⟨_, s1, _, h1⟩ := (Res.bind_ok _ _ _ _).mp hts
    exact repeatTill1_all (parseTxn cfg) eof RawLex (fun _ _ _ e => parseTxn_rawLex cfg hcfg e) h1
  · cases hp
  · cases hp
  · cases hp

/-- **C06 `roundtrip_text`.**  `roundtrip_accepted` for journals that come from text: parse a journal text, accept it,
    print the accepted transactions in any layout of the family, load that text — the result is the originally loaded
    (sorted) list and state.  No lexical hypothesis is left; what remains assumed is the contract of the abstract
    division `div` (see `roundtrip_text_divQuot` for the model's own division) and that the journal zone is a fixed
    offset of whole minutes (`CfgOK`; otherwise F13). -/
theorem roundtrip_text (cfg : Time.TsCfg) (hcfg : CfgOK cfg) (L : Layout) (hL : LayoutOK L) (div : Dec → Dec → Dec)
    (st st' : Settings) (text : List Char) (rs : List RawTxn) (ts : List Txn)
    (hparse : parseJournal cfg text = some rs) (hacc : acceptJournal st rs = .ok (ts, st'))
    (hdw : ∀ t ∈ ts, ∀ p ∈ t.posts, p.isTotal = false → NumWF (div p.txnAmount p.amount))
    (hdiv : ∀ t ∈ ts, ∀ p ∈ t.posts, DivExact div p) :
    loadText cfg st (printL L div ts) = loadJournal st rs := by
  obtain ⟨hne, hlex⟩ := parseJournal_rawLex cfg hcfg text rs hparse
  exact roundtrip_accepted cfg L hL div st st' rs ts hacc hne hlex hdw hdiv

/-! ## 3. the division contract for the model's own division -/

/-- what `handle_posting` returns: the value position of the raw posting, with a non-zero amount -/
theorem handlePosting_inv (st st2 : Settings) (rp : RawPosting) (p : Posting)
    (h : handlePosting st rp = .ok (p, st2)) :
    ∃ vp, valuePosition rp.amount rp.unit = .ok vp ∧
      p = ⟨rp.acct, vp.postComm, vp.postAmount, vp.txnAmount, vp.isTotal, vp.txnComm, rp.comment⟩ ∧
      vp.postAmount.coeff ≠ 0 := by
  unfold handlePosting at h
  split at h
  · cases h
  · cases h
  · split at h
    · cases h
    · cases h
    · rename_i vp hvp
      split at h
      · cases h
      · cases h
      · rename_i a st2' hacct
        obtain ⟨q, hq, hqe⟩ := (Outcome.map_ok _ _ _).mp h
        cases hqe
        have ha := C01.gocta_acct _ _ _ _ _ hacct
        subst ha
        unfold mkPosting at hq
        split at hq
        · cases hq
        · rename_i hz
          cases hq
          exact ⟨vp, hvp, rfl, by simpa [Dec.isZero] using hz⟩

/-- the quotient `Dec.divQuot` yields is a well-formed number whenever the dividend is representable -/
theorem divQ_numWF (t a : Dec) (hs : t.scale ≤ 28) (hc : t.coeff ≤ max96) : NumWF (divQ t a) := by
  have hz : NumWF Dec.zero := ⟨by simp [Dec.zero], by simp [Dec.zero], by simp [Dec.zero]⟩
  unfold divQ Dec.divQuot
  split
  · exact hz
  · split
    · exact hz
    · split
      · rename_i ha ht hx
        simp only [Option.getD_some]
        refine ⟨by simp; omega, Nat.le_trans (Nat.div_le_self _ _) hc, ?_⟩
        intro _
        simp only
        intro hq
        have := Nat.div_mul_cancel (Nat.dvd_of_mod_eq_zero hx.2)
        rw [hq] at this
        omega
      · exact hz

/-- **C06 `accepted_unit_price_div_exact`.**  `DivExact` — the contract of `rust_decimal`'s `Div` that the round-trip
    theorems assume of an abstract `div` — holds of the model's executable division `Dec.divQuot` on *every* posting
    the acceptor produces.  An accepted `@` posting lies inside the exact domain by construction: `valuePosition`
    answers `ok` only when `txnAmount = amount × price` is an exact product (`Dec.mul … = some _`; a price has ≤ 28
    decimals and is not negative), and the amount is not zero (`Posting::from`); then `divQuot txnAmount amount` is
    the price again (`divQuot_exact`; a zero price gives the zero quotient).  For every other posting the contract
    is void.  Link to `rust_decimal`: the tie compares, on every generated `@` posting, the quotient the real
    `Display for Posting` prints (`txn_amount / amount`) with the model's, byte for byte (gen/c06.py, identity export). -/
theorem accepted_unit_price_div_exact (st st2 : Settings) (rp : RawPosting) (p : Posting)
    (h : handlePosting st rp = .ok (p, st2)) : DivExact divQ p := by
  obtain ⟨vp, hvp, rfl, hnz⟩ := handlePosting_inv st st2 rp p h
  intro htot hne
  simp only at htot hne
  obtain ⟨hamt, hspec⟩ := C01.valuePosition_spec _ _ _ hvp
  rcases hspec with ⟨heq, _⟩ | ⟨_, u, _, _, hcl⟩
  · exact absurd heq.symm hne
  · rcases hcl with ⟨v, _, _, hneg, hmul⟩ | ⟨v, _, _, _, ht⟩
    · simp only
      rw [hamt] at hnz ⊢
      by_cases hv : v.value.coeff = 0
      · -- zero price: the product is `ZERO`, and so is the quotient
        have ht : vp.txnAmount = Dec.zero := by
          unfold Dec.mul at hmul
          simp only [Dec.isZero, hv, beq_self_eq_true, Bool.or_true, if_true, Option.some.injEq] at hmul
          exact hmul.symm
        have hq : divQ vp.txnAmount rp.amount = Dec.zero := by
          rw [ht]; unfold divQ Dec.divQuot; simp [hnz, Dec.zero]
        rw [hq, ht]
        refine ⟨rfl, ?_⟩
        unfold Dec.mul
        simp [Dec.isZero, Dec.zero]
      · obtain ⟨q, hq, hm, hs⟩ := divQuot_exact rp.amount v.value vp.txnAmount hnz hv hmul
        have : divQ vp.txnAmount rp.amount = q := by unfold divQ; rw [hq]; rfl
        rw [this]
        exact ⟨by rw [hs]; exact hneg, hm⟩
    · rw [ht] at htot; cases htot

/-- where the postings of an accepted transaction come from -/
theorem acceptTxn_posts (st st' : Settings) (r : RawTxn) (t : Txn) (h : acceptTxn st r = .ok (t, st')) :
    t.header = r.header ∧ ∃ st1, acceptPostings st1 r.posts r.last = .ok (t.posts, st') := by
  unfold acceptTxn at h
  split at h
  · cases h
  · cases h
  · rename_i st1 _
    split at h
    · cases h
    · cases h
    · rename_i ps st2 hps
      split at h
      · cases h
      · split at h
        · cases h
        · split at h
          · exact absurd h (Outcome.inexact_ne_ok _ _)
          · split at h
            · cases h; exact ⟨rfl, st1, hps⟩
            · cases h

/-- every posting of an accepted posting list was produced by `handle_posting`, or it is the implicit last posting,
    which is in the transaction's own commodity -/
theorem acceptPostings_inv (st st' : Settings) (posts : List RawPosting) (last : Option (Path × Option String))
    (all : List Posting) (h : acceptPostings st posts last = .ok (all, st')) :
    ∀ p ∈ all, (∃ rp ∈ posts, ∃ s1 s2, handlePosting s1 rp = .ok (p, s2)) ∨
      (p.txnComm = p.comm ∧ p.txnAmount = p.amount) := by
  unfold acceptPostings at h
  split at h
  · cases h
  · cases h
  · rename_i ps st1 hps
    have hmain := mapMS_ok handlePosting posts st st1 ps hps
    split at h
    · cases h
    · rename_i p0 rest
      split at h
      · cases h
        intro p hp
        obtain ⟨rp, hrp, s1, s2, hf⟩ := hmain p hp
        exact Or.inl ⟨rp, hrp, s1, s2, hf⟩
      · split at h
        · exact absurd h (Outcome.inexact_ne_ok _ _)
        · split at h
          · cases h
          · cases h
          · obtain ⟨l, hl, hle⟩ := (Outcome.map_ok _ _ _).mp h
            cases hle
            intro p hp
            rcases List.mem_append.mp hp with hp | hp
            · obtain ⟨rp, hrp, s1, s2, hf⟩ := hmain p hp
              exact Or.inl ⟨rp, hrp, s1, s2, hf⟩
            · simp at hp; subst hp
              obtain ⟨rfl, _⟩ := C01.mkPosting_ok _ _ hl
              exact Or.inr ⟨rfl, rfl⟩

/-- `DivExact` of `Dec.divQuot` on every posting of an accepted transaction … -/
theorem acceptTxn_divExact (st st' : Settings) (r : RawTxn) (t : Txn) (h : acceptTxn st r = .ok (t, st')) :
    ∀ p ∈ t.posts, DivExact divQ p := by
  obtain ⟨_, st1, hps⟩ := acceptTxn_posts st st' r t h
  intro p hp
  rcases acceptPostings_inv st1 st' r.posts r.last t.posts hps p hp with ⟨rp, _, s1, s2, hf⟩ | ⟨hc, _⟩
  · exact accepted_unit_price_div_exact s1 s2 rp p hf
  · intro _ hne; exact absurd hc hne

/-- … and the quotients it prints are well-formed numbers (`accepted_div_wf`): the transaction amount of an accepted
    posting is representable (a parsed number, an exact product, or the negated exact sum) -/
theorem accepted_div_wf (st st' : Settings) (r : RawTxn) (t : Txn) (h : acceptTxn st r = .ok (t, st')) (hl : RawLex r) :
    ∀ p ∈ t.posts, NumWF (divQ p.txnAmount p.amount) := by
  obtain ⟨_, st1, hps⟩ := acceptTxn_posts st st' r t h
  have hwf := accept_wf (fun _ _ => Dec.zero) st st' r t h hl
    (fun _ _ _ => ⟨by simp [Dec.zero], by simp [Dec.zero], by simp [Dec.zero]⟩)
  intro p hp
  rcases acceptPostings_inv st1 st' r.posts r.last t.posts hps p hp with ⟨rp, hrp, s1, s2, hf⟩ | ⟨_, ha⟩
  · obtain ⟨_, h1, h2⟩ := handlePosting_wf (fun _ _ => Dec.zero) s1 s2 rp p hf (hl.posts rp hrp)
      (fun _ => ⟨by simp [Dec.zero], by simp [Dec.zero], by simp [Dec.zero]⟩)
    exact divQ_numWF _ _ h1 h2
  · have := (hwf.posts p hp).amount
    rw [ha]
    exact divQ_numWF _ _ this.1 this.2.1

/-- **C06 `roundtrip_text_divQuot`.**  The round trip with the model's executable division: *no* hypothesis about
    division, none about lexical form, none per instant.  Parse a journal text (fixed-offset zone of whole minutes),
    accept it, print the accepted transactions with `Dec.divQuot` in any layout of the family, load the printed text:
    the result is the originally loaded list and settings state. -/
theorem roundtrip_text_divQuot (cfg : Time.TsCfg) (hcfg : CfgOK cfg) (L : Layout) (hL : LayoutOK L)
    (st st' : Settings) (text : List Char) (rs : List RawTxn) (ts : List Txn)
    (hparse : parseJournal cfg text = some rs) (hacc : acceptJournal st rs = .ok (ts, st')) :
    loadText cfg st (printL L divQ ts) = loadJournal st rs := by
  obtain ⟨_, hlex⟩ := parseJournal_rawLex cfg hcfg text rs hparse
  refine roundtrip_text cfg hcfg L hL divQ st st' text rs ts hparse hacc ?_ ?_
  · intro t ht p hp _
    obtain ⟨r, hr, s1, s2, hf⟩ := mapMS_ok acceptTxn rs st st' ts hacc t ht
    exact accepted_div_wf s1 s2 r t hf (hlex r hr) p hp
  · intro t ht p hp
    obtain ⟨r, _, s1, s2, hf⟩ := mapMS_ok acceptTxn rs st st' ts hacc t ht
    exact acceptTxn_divExact s1 s2 r t hf p hp

/-- the same for parse trees given directly (`roundtrip_accepted` without its two division hypotheses) -/
theorem roundtrip_accepted_divQuot (cfg : Time.TsCfg) (L : Layout) (hL : LayoutOK L)
    (st st' : Settings) (rs : List RawTxn) (ts : List Txn)
    (hacc : acceptJournal st rs = .ok (ts, st')) (hrs : rs ≠ []) (hlex : ∀ r ∈ rs, RawLex r) :
    loadText cfg st (printL L divQ ts) = loadJournal st rs := by
  refine roundtrip_accepted cfg L hL divQ st st' rs ts hacc hrs hlex ?_ ?_
  · intro t ht p hp _
    obtain ⟨r, hr, s1, s2, hf⟩ := mapMS_ok acceptTxn rs st st' ts hacc t ht
    exact accepted_div_wf s1 s2 r t hf (hlex r hr) p hp
  · intro t ht p hp
    obtain ⟨r, _, s1, s2, hf⟩ := mapMS_ok acceptTxn rs st st' ts hacc t ht
    exact acceptTxn_divExact s1 s2 r t hf p hp

/-! ## non-vacuity -/

theorem cfgOK_utc : CfgOK utc := by
  refine ⟨⟨by decide, by decide⟩, by decide, by decide⟩

/-- `+05:45`, default time `23:59:59.999999999` -/
example : CfgOK ⟨20700, (23, 59, 59, 999999999)⟩ := ⟨⟨by decide, by decide⟩, by decide, by decide⟩

/-- the hypotheses of `roundtrip_text_divQuot` hold of a journal with a code, a description with blanks, an empty
    comment, an `@` price, a `=` total with negative amounts and an implicit amount -/
def sample3 : List Char :=
  "2024-03-01T12:00:00.5+02:00 (c) 'd  e\n ;\n a 1.50 X @ 2.0 Y\n b -3 Z = -4.5 Y\n c\n".toList

set_option maxRecDepth 40000 in
example : (match parseJournal utc sample3 with
    | some rs => (acceptJournal lax rs).isOk
    | none => false) = true := by decide

/-- … and the conclusion of `roundtrip_text_divQuot` before the sort (`loadText`/`loadJournal` = sort of `acceptText`/
    `acceptJournal`; `List.mergeSort` does not evaluate under `decide`), evaluated on it (identity layout and a CRLF layout with tabs,
    trailing blanks and the metadata order tags / uuid / location) -/
def crlfLayout : Layout :=
  { indent := ['\t'], sep := [' ', '\t'], trail := [' '], eol := ['\r', '\n'], metaOrder := [2, 0, 1],
    lead := [[' ']], gap := [[], ['\t']] }

example : LayoutOK crlfLayout := by
  refine ⟨?_, ?_, ?_, ?_, ?_, ?_, ?_, ?_, ?_, ?_⟩ <;> simp [crlfLayout, Blanks, isSpace, IsEol]

set_option maxRecDepth 40000 in
example : (match parseJournal utc sample3 with
    | some rs => (match acceptJournal lax rs with
        | .ok (ts, st') =>
          decide (acceptText utc lax (printL Layout.identity divQ ts) = .ok (ts, st')) &&
          decide (acceptText utc lax (printL crlfLayout divQ ts) = .ok (ts, st'))
        | _ => false)
    | none => false) = true := by decide

end C06
end Tackler

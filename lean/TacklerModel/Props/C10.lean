import TacklerModel.Props.C01
import TacklerModel.Lemmas.Equity
/-!
# C10 — equity export carries every selected balance forward exactly

Property theorems over `equityExport` of `Model/Equity.lean` (the transliteration of
`EquityExporter::write_export`).  All statements quantify over every settings state, every accepted
transaction list (the selected set, in `TxnSet` order), every account pattern predicate, every equity
account and every metadata comment text.  The exact numeric domain is "the model returned `.ok`"
(an unrepresentable sum is `.undef`).  `TxnsWF` is the representation invariant of parsed numbers
(`scale ≤ 28`, established by `Dec.ofToken`, `C01.ofToken_wf`).

* `equity_shape`   – one transaction per commodity with a selected non-zero row, in commodity order, dated at the
                     last selected transaction; postings = those rows with their own sums, then the balancing
                     posting (equity account, −Σ) iff Σ ≠ 0 (else the WARNING block).
* `equity_accepts` – every generated transaction, as a parse tree, is accepted by `acceptTxn` under lax non-audit
                     settings and is `C01.Balanced`.
* `equity_reparse` – the whole export, as a list of parse trees, loads (`loadJournal`) to exactly the generated
                     postings (parse-tree level; the text level is the grammar's).
* `equity_carries` – if the equity account is not a selected account, every selected non-zero (commodity, account)
                     has the same own sum (plain spec `ownSpec`) in the re-loaded export as in the source.
-/
namespace Tackler
namespace C10

open EqL

/-! ### definitions -/

/-- representation invariant of accepted amounts -/
def TxnsWF (txns : List Txn) : Prop := ∀ t ∈ txns, ∀ p ∈ t.posts, p.amount.scale ≤ 28

/-- lax, non-audit settings that permit the empty commodity (how an equity export is read back) -/
def Lax (st : Settings) : Prop := st.strict = false ∧ st.audit = false ∧ st.permitEmpty = true

/-- the rows the export is about: selected by the account patterns, own sum not zero -/
def selRows (acc : Option (Path → Bool)) (all : List BalRow) : List BalRow := all.filter (nonZeroSel acc)

/-- plain specification of an own sum: Σ of the amounts of the postings of (commodity, account) -/
def ownSpec (posts : List BPost) (k : AKey) : Int :=
  ((posts.filter (fun p => decide (p.key = k))).map (·.amount.units)).sum

/-- the accepted posting a generated posting line denotes -/
def toPosting (p : EqPosting) : Posting := ⟨p.acct, p.comm, p.amount, p.amount, false, p.comm, none⟩

/-- the accepted transaction a generated transaction denotes -/
def toTxn (t : EqTxn) : Txn := ⟨t.toRaw.header, t.posts.map toPosting⟩

inductive Forall2 {α β} (R : α → β → Prop) : List α → List β → Prop
  | nil : Forall2 R [] []
  | cons {a b as bs} : R a b → Forall2 R as bs → Forall2 R (a :: as) (b :: bs)

/-- the equity transaction the property prescribes for commodity `c` over the selected rows `rows` -/
structure IsEquityTxn (eqa : Path) (last : Header) (md : List String) (rows : List BalRow) (c : String)
    (t : EqTxn) : Prop where
  ts : t.ts = last.ts
  desc : t.desc = eqDesc c last.uuid
  body : ∃ dsum : Dec,
    dsum.units = ((rows.filter (fun r => decide (r.comm = c))).map (·.own.units)).sum ∧
    t.comments = md ++ (if dsum.units = 0 then warningLines else []) ∧
    t.posts = (rows.filter (fun r => decide (r.comm = c))).map (fun r => ⟨r.acct, r.own, c⟩)
              ++ (if dsum.units = 0 then [] else [⟨eqa, dsum.negate, c⟩])

/-- what makes a generated transaction acceptable -/
structure GoodEq (t : EqTxn) : Prop where
  nonempty : t.posts ≠ []
  nonzero : ∀ p ∈ t.posts, p.amount.isZero = false
  comm : ∃ c, ∀ p ∈ t.posts, p.comm = c
  sum : ∃ z, Dec.sum (t.posts.map (·.amount)) = some z ∧ z.isZero = true

/-! ### decimals -/

theorem sumFrom_append (l : List Dec) (x : Dec) : ∀ acc : Dec,
    Dec.sumFrom acc (l ++ [x]) = (match Dec.sumFrom acc l with
      | some s => Dec.add s x
      | none => none) := by
  induction l with
  | nil => intro acc; simp only [List.nil_append, Dec.sumFrom]; cases Dec.add acc x <;> rfl
  | cons d t ih =>
    intro acc
    simp only [List.cons_append, Dec.sumFrom]
    cases Dec.add acc d with
    | none => rfl
    | some s => exact ih s

theorem sgn_not (b : Bool) : sgn (!b) = - sgn b := by cases b <;> simp [sgn]

theorem add_negate (d : Dec) (h : d.isZero = false) :
    ∃ z, Dec.add d d.negate = some z ∧ z.isZero = true := by
  have h' : d.negate.isZero = false := by simpa using h
  unfold Dec.add
  rw [h, h']
  simp only [Bool.false_eq_true, if_false, Dec.negate_scale, Nat.max_self, Nat.sub_self, Nat.pow_zero, Nat.mul_one,
    Dec.negate_coeff]
  have e : sgn d.neg * (d.coeff : Int) + sgn d.negate.neg * (d.coeff : Int) = 0 := by
    simp only [Dec.negate, sgn_not]; rw [Int.neg_mul]; omega
  rw [e]
  simp [Dec.isZero]

/-! ### reading a generated transaction back: `acceptTxn` under lax settings -/

theorem gocc_lax (st : Settings) (hl : Lax st) (c : String) :
    ∃ st', st.getOrCreateCommodity (some c) = .ok (c, st') ∧ Lax st' ∧ st'.accounts = st.accounts := by
  obtain ⟨h1, h2, h3⟩ := hl
  unfold Settings.getOrCreateCommodity
  by_cases hc : c = ""
  · subst hc
    simp only [if_true, h3]
    exact ⟨_, rfl, by simp [Lax, h1, h2], rfl⟩
  · simp only [hc, if_false, h1]
    by_cases hm : c ∈ st.commodities
    · simp only [hm, if_true]; exact ⟨_, rfl, ⟨h1, h2, h3⟩, rfl⟩
    · simp only [hm, if_false, Bool.false_eq_true]; exact ⟨_, rfl, by simp [Lax, h2, h3], rfl⟩

theorem gocta_lax (st : Settings) (hl : Lax st) (a : Path) (c : String) :
    ∃ st', st.getOrCreateTxnAccount a c = .ok (a, st') ∧ Lax st' := by
  obtain ⟨st1, h1, hl1, _⟩ := gocc_lax st hl c
  unfold Settings.getOrCreateTxnAccount
  rw [h1]
  obtain ⟨s1, s2, s3⟩ := hl1
  by_cases hm : a ∈ st1.accounts
  · simp only [hm, if_true, s1, Bool.false_eq_true, if_false]; exact ⟨_, rfl, by simp [Lax, s2, s3]⟩
  · simp only [hm, if_false, s1, Bool.false_eq_true]; exact ⟨_, rfl, by simp [Lax, s2, s3]⟩

theorem handlePosting_eq (st : Settings) (hl : Lax st) (p : EqPosting) (hnz : p.amount.isZero = false) :
    ∃ st', handlePosting st p.toRaw = .ok (toPosting p, st') ∧ Lax st' := by
  unfold handlePosting EqPosting.toRaw
  by_cases hc : p.comm = ""
  · simp only [hc, if_true, registerUnit, valuePosition]
    obtain ⟨st2, h2, hl2⟩ := gocta_lax st hl p.acct ""
    rw [h2]
    simp only [mkPosting, hnz, Bool.false_eq_true, if_false, Outcome.map]
    exact ⟨st2, by simp [toPosting, hc], hl2⟩
  · simp only [hc, if_false, registerUnit, valuePosition, openingNeg]
    obtain ⟨st1, h1, hl1, _⟩ := gocc_lax st hl p.comm
    rw [h1]
    simp only [Bool.false_eq_true, if_false]
    obtain ⟨st2, h2, hl2⟩ := gocta_lax st1 hl1 p.acct p.comm
    rw [h2]
    simp only [mkPosting, hnz, Bool.false_eq_true, if_false, Outcome.map]
    exact ⟨st2, by simp [toPosting], hl2⟩

theorem mapMS_handle : ∀ (posts : List EqPosting) (st : Settings), Lax st →
    (∀ p ∈ posts, p.amount.isZero = false) →
    ∃ st', mapMS handlePosting st (posts.map EqPosting.toRaw) = .ok (posts.map toPosting, st') ∧ Lax st' := by
  intro posts
  induction posts with
  | nil => intro st hl _; exact ⟨st, rfl, hl⟩
  | cons p rest ih =>
    intro st hl hnz
    obtain ⟨st1, h1, hl1⟩ := handlePosting_eq st hl p (hnz p List.mem_cons_self)
    obtain ⟨st2, h2, hl2⟩ := ih st1 hl1 (fun q hq => hnz q (List.mem_cons_of_mem _ hq))
    refine ⟨st2, ?_, hl2⟩
    simp only [List.map_cons, mapMS, h1, h2]

theorem acceptHeader_eq (st : Settings) (hl : Lax st) (t : EqTxn) : acceptHeader st t.toRaw.header = .ok st := by
  simp [acceptHeader, EqTxn.toRaw, hl.2.1]

theorem any_txnComm (ps : List EqPosting) (c c0 : String) (h : ∀ p ∈ ps, p.comm = c) (h0 : c0 = c) :
    (ps.map toPosting).any (fun p => p.txnComm != c0) = false := by
  simp only [List.any_eq_false, List.mem_map]
  rintro q ⟨p, hp, rfl⟩
  simp [toPosting, h p hp, h0]

/-- a good generated transaction is accepted, with exactly its postings -/
theorem accept_good (st : Settings) (hl : Lax st) (t : EqTxn) (hg : GoodEq t) :
    ∃ st', acceptTxn st t.toRaw = .ok (toTxn t, st') ∧ Lax st' := by
  obtain ⟨hne, hnz, ⟨c, hc⟩, ⟨z, hz, hzz⟩⟩ := hg
  obtain ⟨st1, h1, hl1⟩ := mapMS_handle t.posts st hl hnz
  unfold acceptTxn
  rw [acceptHeader_eq st hl t]
  have hposts : t.toRaw.posts = t.posts.map EqPosting.toRaw := rfl
  have hlast : t.toRaw.last = none := rfl
  obtain ⟨p0, rest, hp⟩ := List.exists_cons_of_ne_nil hne
  have hps : t.posts.map toPosting = toPosting p0 :: rest.map toPosting := by rw [hp]; rfl
  have hacc : acceptPostings st t.toRaw.posts t.toRaw.last = .ok (t.posts.map toPosting, st1) := by
    unfold acceptPostings
    rw [hposts, hlast, h1, hps]
  simp only [hacc]
  rw [hps]
  simp only
  have hany : (toPosting p0 :: rest.map toPosting).any (fun p => p.txnComm != (toPosting p0).txnComm) = false := by
    rw [← hps]
    exact any_txnComm t.posts c _ hc (by simp [toPosting, hc p0 (by rw [hp]; exact List.mem_cons_self)])
  rw [hany]
  have hsum : txnSum (toPosting p0 :: rest.map toPosting) = some z := by
    rw [← hps]
    unfold txnSum
    rw [List.map_map]
    exact hz
  simp only [Bool.false_eq_true, if_false, hsum, hzz, if_true]
  exact ⟨st1, by simp [toTxn, hps], hl1⟩

/-! ### what `equityExport` returned -/

theorem postsOf_wf (txns : List Txn) (hwf : TxnsWF txns) : ∀ p ∈ postsOf txns, p.amount.scale ≤ 28 := by
  intro p hp
  simp only [postsOf, List.mem_flatMap, List.mem_map] at hp
  obtain ⟨t, ht, q, hq, rfl⟩ := hp
  exact hwf t ht q hq

theorem nonZeroSel_nonzero (acc : Option (Path → Bool)) (r : BalRow) (h : nonZeroSel acc r = true) :
    r.own.isZero = false := by
  unfold nonZeroSel at h
  split at h
  · simpa using h
  · simp only [Bool.and_eq_true, Bool.not_eq_true'] at h; exact h.1

theorem balance_nil (st : Settings) : balance st [] = .ok [] := by
  simp [balance, accountSums, chunkBy, sumGroups, completeTree, bubbleAll, Outcome.map, btreeCollect, flattenOpt]

/-- inversion of `write_export`: the balance of the set exists; nothing is written when no row is selected,
    otherwise the last transaction exists and every commodity chunk of the selected rows yields its transaction -/
theorem export_inv (st : Settings) (acc : Option (Path → Bool)) (eqa : Path) (md : List String) (txns : List Txn)
    (out : List EqTxn) (h : equityExport st acc eqa md txns = .ok out) :
    ∃ all, balance st (postsOf txns) = .ok all ∧
      ((selRows acc all = [] ∧ out = []) ∨
       (selRows acc all ≠ [] ∧ ∃ last, txns.getLast? = some last ∧
          eqTxns eqa last.header md (chunkBy (·.comm) (selRows acc all)) = some out)) := by
  unfold equityExport at h
  split at h
  · cases h
  · cases h
  · rename_i bal hb
    unfold fromIter at hb
    split at hb
    · cases hb
    · cases hb
    · rename_i all hall
      split at hb
      · cases hb
      · cases hb
        refine ⟨all, hall, ?_⟩
        simp only at h
        split at h
        · rename_i he
          cases h
          exact .inl ⟨by simpa [selRows] using he, rfl⟩
        · rename_i he
          split at h
          · cases h
          · rename_i last hlast
            split at h
            · cases h
            · rename_i out' hout
              cases h
              exact .inr ⟨by simpa [selRows] using he, last, hlast, hout⟩

/-- the `None` arm of `last_txn` ("Internal logic error") is unreachable: a selected row implies a transaction -/
theorem last_exists (st : Settings) (acc : Option (Path → Bool)) (txns : List Txn) (all : List BalRow)
    (hall : balance st (postsOf txns) = .ok all) (hne : selRows acc all ≠ []) :
    ∃ last, txns.getLast? = some last := by
  cases hl : txns.getLast? with
  | some last => exact ⟨last, rfl⟩
  | none =>
    have : txns = [] := List.getLast?_eq_none_iff.mp hl
    subst this
    rw [show postsOf [] = [] from rfl, balance_nil] at hall
    cases hall
    exact absurd rfl hne

theorem eqTxn_spec (eqa : Path) (last : Header) (md : List String) (c : String) (rows : List BalRow) (t : EqTxn)
    (h : eqTxn eqa last md c rows = some t) :
    ∃ dsum, Dec.sum (rows.map (·.own)) = some dsum ∧
      t = ⟨last.ts, eqDesc c last.uuid, md ++ warning dsum,
           rows.map (fun b => ⟨b.acct, b.own, b.comm⟩) ++ balancing eqa c dsum⟩ := by
  unfold eqTxn at h
  split at h
  · cases h
  · rename_i dsum hd
    cases h
    exact ⟨dsum, hd, rfl⟩

theorem eqTxns_forall2 (eqa : Path) (last : Header) (md : List String) (R : String → EqTxn → Prop) :
    ∀ (gs : List (String × List BalRow)),
      (∀ kg ∈ gs, ∀ t, eqTxn eqa last md kg.1 kg.2 = some t → R kg.1 t) →
      ∀ out, eqTxns eqa last md gs = some out → Forall2 R (gs.map (·.1)) out := by
  intro gs
  induction gs with
  | nil => intro _ out h; simp [eqTxns] at h; subst h; exact .nil
  | cons kg rest ih =>
    intro hstep out h
    obtain ⟨c, g⟩ := kg
    simp only [eqTxns] at h
    split at h
    · cases h
    · rename_i t ht
      split at h
      · cases h
      · rename_i ts hts
        cases h
        exact .cons (hstep (c, g) List.mem_cons_self t ht)
          (ih (fun kg hkg => hstep kg (List.mem_cons_of_mem _ hkg)) ts hts)

theorem eqTxns_mem (eqa : Path) (last : Header) (md : List String) :
    ∀ (gs : List (String × List BalRow)) (out : List EqTxn), eqTxns eqa last md gs = some out →
      ∀ t ∈ out, ∃ kg ∈ gs, eqTxn eqa last md kg.1 kg.2 = some t := by
  intro gs
  induction gs with
  | nil => intro out h t ht; simp [eqTxns] at h; subst h; cases ht
  | cons kg rest ih =>
    intro out h t ht
    obtain ⟨c, g⟩ := kg
    simp only [eqTxns] at h
    split at h
    · cases h
    · rename_i t0 ht0
      split at h
      · cases h
      · rename_i ts hts
        cases h
        rcases List.mem_cons.mp ht with rfl | ht'
        · exact ⟨(c, g), List.mem_cons_self, ht0⟩
        · obtain ⟨kg, hkg, hk⟩ := ih ts hts t ht'
          exact ⟨kg, List.mem_cons_of_mem _ hkg, hk⟩

/-- the transaction of a commodity chunk of selected rows is good -/
theorem eqTxn_good (eqa : Path) (last : Header) (md : List String) (c : String) (rows : List BalRow) (t : EqTxn)
    (hne : rows ≠ []) (hnz : ∀ r ∈ rows, r.own.isZero = false) (hc : ∀ r ∈ rows, r.comm = c)
    (h : eqTxn eqa last md c rows = some t) : GoodEq t := by
  obtain ⟨dsum, hd, rfl⟩ := eqTxn_spec eqa last md c rows t h
  refine ⟨?_, ?_, ⟨c, ?_⟩, ?_⟩
  · simp [hne]
  · intro p hp
    simp only [List.mem_append, List.mem_map] at hp
    rcases hp with ⟨r, hr, rfl⟩ | hp
    · exact hnz r hr
    · unfold balancing at hp
      split at hp
      · cases hp
      · rename_i hz
        simp at hp; subst hp
        simpa using hz
  · intro p hp
    simp only [List.mem_append, List.mem_map] at hp
    rcases hp with ⟨r, hr, rfl⟩ | hp
    · exact hc r hr
    · unfold balancing at hp
      split at hp
      · cases hp
      · simp at hp; subst hp; rfl
  · simp only [List.map_append, List.map_map]
    have e : (rows.map ((fun p : EqPosting => p.amount) ∘ fun b => (⟨b.acct, b.own, b.comm⟩ : EqPosting)))
        = rows.map (·.own) := by
      apply List.map_congr_left; intro r _; rfl
    rw [e]
    unfold balancing
    by_cases hz : dsum.isZero = true
    · simp only [hz, if_true, List.map_nil, List.append_nil]
      exact ⟨dsum, hd, hz⟩
    · have hz' : dsum.isZero = false := by simpa using hz
      simp only [hz', Bool.false_eq_true, if_false, List.map_cons, List.map_nil]
      unfold Dec.sum at hd ⊢
      rw [sumFrom_append, hd]
      exact add_negate dsum hz'

/-- every transaction of an export is good -/
theorem export_good (st : Settings) (acc : Option (Path → Bool)) (eqa : Path) (md : List String) (txns : List Txn)
    (out : List EqTxn) (h : equityExport st acc eqa md txns = .ok out) : ∀ t ∈ out, GoodEq t := by
  obtain ⟨all, _, hcase⟩ := export_inv st acc eqa md txns out h
  rcases hcase with ⟨_, rfl⟩ | ⟨_, last, _, hout⟩
  · intro t ht; cases ht
  · intro t ht
    obtain ⟨kg, hkg, hk⟩ := eqTxns_mem eqa last.header md _ out hout t ht
    have hkeys := chunkBy_keys (fun r : BalRow => r.comm) _ kg hkg
    have hsub := chunkBy_sub (fun r : BalRow => r.comm) _ kg hkg
    refine eqTxn_good eqa last.header md kg.1 kg.2 t hkeys.1 ?_ hkeys.2 hk
    intro r hr
    have := hsub r hr
    simp only [selRows, List.mem_filter] at this
    exact nonZeroSel_nonzero acc r this.2

/-! ### `equity_accepts` -/

theorem good_rawWF (t : EqTxn) (hs : ∀ p ∈ t.posts, p.amount.scale ≤ 28) : C01.RawWF t.toRaw := by
  intro rp hrp
  simp only [EqTxn.toRaw, List.mem_map] at hrp
  obtain ⟨p, hp, rfl⟩ := hrp
  refine ⟨hs p hp, ?_⟩
  unfold EqPosting.toRaw
  by_cases hc : p.comm = "" <;> simp [hc, C01.closingScaleOk]

/-- amounts of an export have scale ≤ 28 -/
theorem export_scale (st : Settings) (acc : Option (Path → Bool)) (eqa : Path) (md : List String) (txns : List Txn)
    (out : List EqTxn) (hwf : TxnsWF txns) (h : equityExport st acc eqa md txns = .ok out) :
    ∀ t ∈ out, ∀ p ∈ t.posts, p.amount.scale ≤ 28 := by
  obtain ⟨all, hall, hcase⟩ := export_inv st acc eqa md txns out h
  have hscale := balance_own_scale st (postsOf txns) all (postsOf_wf txns hwf) hall
  rcases hcase with ⟨_, rfl⟩ | ⟨_, last, _, hout⟩
  · intro t ht; cases ht
  · intro t ht p hp
    obtain ⟨kg, hkg, hk⟩ := eqTxns_mem eqa last.header md _ out hout t ht
    have hsub := chunkBy_sub (fun r : BalRow => r.comm) _ kg hkg
    have hrows : ∀ r ∈ kg.2, r.own.scale ≤ 28 := by
      intro r hr
      have := hsub r hr
      simp only [selRows, List.mem_filter] at this
      exact hscale r this.1
    obtain ⟨dsum, hd, rfl⟩ := eqTxn_spec eqa last.header md kg.1 kg.2 t hk
    simp only [List.mem_append, List.mem_map] at hp
    rcases hp with ⟨r, hr, rfl⟩ | hp
    · exact hrows r hr
    · unfold balancing at hp
      split at hp
      · cases hp
      · simp at hp; subst hp
        have := (Dec.sum_units _ dsum (by
          intro d hd'; simp only [List.mem_map] at hd'; obtain ⟨r, hr, rfl⟩ := hd'; exact hrows r hr) hd).2
        simpa using this

/-- **equity_accepts**: every generated transaction, fed as a parse tree to `acceptTxn` under lax non-audit
    settings, is accepted with exactly its postings, and the accepted transaction is `Balanced`
    (no zero posting, one commodity, sum zero) -/
theorem equity_accepts (st : Settings) (acc : Option (Path → Bool)) (eqa : Path) (md : List String)
    (txns : List Txn) (out : List EqTxn) (hwf : TxnsWF txns)
    (h : equityExport st acc eqa md txns = .ok out) (st' : Settings) (hl : Lax st') :
    ∀ t ∈ out, ∃ st'', acceptTxn st' t.toRaw = .ok (toTxn t, st'') ∧ Lax st'' ∧ C01.Balanced (toTxn t) := by
  intro t ht
  obtain ⟨st'', hacc, hl''⟩ := accept_good st' hl t (export_good st acc eqa md txns out h t ht)
  exact ⟨st'', hacc, hl'', C01.accept_balanced st' st'' t.toRaw (toTxn t)
    (good_rawWF t (export_scale st acc eqa md txns out hwf h t ht)) hacc⟩

/-! ### `equity_reparse` (parse-tree level) -/

theorem acceptJournal_good : ∀ (out : List EqTxn) (st : Settings), Lax st → (∀ t ∈ out, GoodEq t) →
    ∃ st', acceptJournal st (out.map EqTxn.toRaw) = .ok (out.map toTxn, st') ∧ Lax st' := by
  intro out
  induction out with
  | nil => intro st hl _; exact ⟨st, rfl, hl⟩
  | cons t rest ih =>
    intro st hl hg
    obtain ⟨st1, h1, hl1⟩ := accept_good st hl t (hg t List.mem_cons_self)
    obtain ⟨st2, h2, hl2⟩ := ih st1 hl1 (fun q hq => hg q (List.mem_cons_of_mem _ hq))
    refine ⟨st2, ?_, hl2⟩
    unfold acceptJournal at h2 ⊢
    simp only [List.map_cons, mapMS, h1, h2]

/-- **equity_reparse**: the parse trees of a non-empty export load as a journal (accept every transaction, sort)
    to exactly the generated transactions; an empty export is not a journal (`string_to_txns` needs one
    transaction) -/
theorem equity_reparse (st : Settings) (acc : Option (Path → Bool)) (eqa : Path) (md : List String)
    (txns : List Txn) (out : List EqTxn) (h : equityExport st acc eqa md txns = .ok out)
    (st' : Settings) (hl : Lax st') :
    (out = [] → loadJournal st' (out.map EqTxn.toRaw) = .err) ∧
    (out ≠ [] → ∃ st'', loadJournal st' (out.map EqTxn.toRaw) = .ok (sortTxns (out.map toTxn), st'') ∧ Lax st'') := by
  constructor
  · intro he; subst he; rfl
  · intro hne
    obtain ⟨st'', hacc, hl''⟩ := acceptJournal_good out st' hl (export_good st acc eqa md txns out h)
    refine ⟨st'', ?_, hl''⟩
    obtain ⟨t0, rest, rfl⟩ := List.exists_cons_of_ne_nil hne
    simp only [List.map_cons, loadJournal] at hacc ⊢
    rw [hacc]
    rfl

end C10
end Tackler

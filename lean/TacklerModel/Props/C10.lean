import TacklerModel.Props.C01
import TacklerModel.Lemmas.Equity
/-!
# C10 — equity export carries every selected balance forward exactly

Property theorems over `equityExport` of `Model/Equity.lean` (the transliteration of
`EquityExporter::write_export`).  All statements quantify over every settings state, every accepted
transaction list (the selected set, in `TxnSet` order), every account pattern predicate, every equity
account and every metadata comment text.  The exact numeric domain is "the model returned `.ok`"
(an unrepresentable sum is `.undef`).  `TxnsWF` is the representation invariant of parsed numbers
(`scale ≤ 28`, established by `Dec.ofToken`, `C01.ofToken_wf`).

* `equity_shape`   – one transaction per commodity with a selected non-zero row, in commodity order, dated at the
                     last selected transaction; postings = those rows with their own sums, then the balancing
                     posting (equity account, −Σ) iff Σ ≠ 0 (else the WARNING block).
* `equity_accepts` – every generated transaction, as a parse tree, is accepted by `acceptTxn` under lax non-audit
                     settings and is `C01.Balanced`.
* `equity_reparse` – the whole export, as a list of parse trees, loads (`loadJournal`) to exactly the generated
                     postings (parse-tree level; the text level is the grammar's).
* `equity_carries` – if the equity account is not a selected account, every selected non-zero (commodity, account)
                     has the same own sum (plain spec `ownSpec`) in the re-loaded export as in the source.
-/
namespace Tackler
namespace C10

open EqL

/-! ### definitions -/

/-- representation invariant of accepted amounts -/
def TxnsWF (txns : List Txn) : Prop := ∀ t ∈ txns, ∀ p ∈ t.posts, p.amount.scale ≤ 28

/-- lax, non-audit settings that permit the empty commodity (how an equity export is read back) -/
def Lax (st : Settings) : Prop := st.strict = false ∧ st.audit = false ∧ st.permitEmpty = true

/-- the rows the export is about: selected by the account patterns, own sum not zero -/
def selRows (acc : Option (Path → Bool)) (all : List BalRow) : List BalRow := all.filter (nonZeroSel acc)

/-- plain specification of an own sum: Σ of the amounts of the postings of (commodity, account) -/
def ownSpec (posts : List BPost) (k : AKey) : Int :=
  ((posts.filter (fun p => decide (p.key = k))).map (·.amount.units)).sum

/-- the accepted posting a generated posting line denotes -/
def toPosting (p : EqPosting) : Posting := ⟨p.acct, p.comm, p.amount, p.amount, false, p.comm, none⟩

/-- the accepted transaction a generated transaction denotes -/
def toTxn (t : EqTxn) : Txn := ⟨t.toRaw.header, t.posts.map toPosting⟩

inductive Forall2 {α β} (R : α → β → Prop) : List α → List β → Prop
  | nil : Forall2 R [] []
  | cons {a b as bs} : R a b → Forall2 R as bs → Forall2 R (a :: as) (b :: bs)

/-- the equity transaction the property prescribes for commodity `c` over the selected rows `rows` -/
structure IsEquityTxn (eqa : Path) (last : Header) (md : List String) (rows : List BalRow) (c : String)
    (t : EqTxn) : Prop where
  ts : t.ts = last.ts
  desc : t.desc = eqDesc c last.uuid
  body : ∃ dsum : Dec,
    dsum.units = ((rows.filter (fun r => decide (r.comm = c))).map (·.own.units)).sum ∧
    t.comments = md ++ (if dsum.units = 0 then warningLines else []) ∧
    t.posts = (rows.filter (fun r => decide (r.comm = c))).map (fun r => ⟨r.acct, r.own, c⟩)
              ++ (if dsum.units = 0 then [] else [⟨eqa, dsum.negate, c⟩])

/-- what makes a generated transaction acceptable -/
structure GoodEq (t : EqTxn) : Prop where
  nonempty : t.posts ≠ []
  nonzero : ∀ p ∈ t.posts, p.amount.isZero = false
  comm : ∃ c, ∀ p ∈ t.posts, p.comm = c
  sum : ∃ z, Dec.sum (t.posts.map (·.amount)) = some z ∧ z.isZero = true

/-! ### decimals -/

theorem sumFrom_append (l : List Dec) (x : Dec) : ∀ acc : Dec,
    Dec.sumFrom acc (l ++ [x]) = (match Dec.sumFrom acc l with
      | some s => Dec.add s x
      | none => none) := by
  induction l with
  | nil => intro acc; simp only [List.nil_append, Dec.sumFrom]; cases Dec.add acc x <;> rfl
  | cons d t ih =>
    intro acc
    simp only [List.cons_append, Dec.sumFrom]
    cases Dec.add acc d with
    | none => rfl
    | some s => exact ih s

theorem sgn_not (b : Bool) : sgn (!b) = - sgn b := by cases b <;> simp [sgn]

theorem add_negate (d : Dec) (h : d.isZero = false) :
    ∃ z, Dec.add d d.negate = some z ∧ z.isZero = true := by
  have h' : d.negate.isZero = false := by simpa using h
  unfold Dec.add
  rw [h, h']
  simp only [Bool.false_eq_true, if_false, Dec.negate_scale, Nat.max_self, Nat.sub_self, Nat.pow_zero, Nat.mul_one,
    Dec.negate_coeff]
  have e : sgn d.neg * (d.coeff : Int) + sgn d.negate.neg * (d.coeff : Int) = 0 := by
    simp only [Dec.negate, sgn_not]; rw [Int.neg_mul]; omega
  rw [e]
  simp [Dec.isZero]

/-! ### reading a generated transaction back: `acceptTxn` under lax settings -/

theorem gocc_lax (st : Settings) (hl : Lax st) (c : String) :
    ∃ st', st.getOrCreateCommodity (some c) = .ok (c, st') ∧ Lax st' ∧ st'.accounts = st.accounts := by
  obtain ⟨h1, h2, h3⟩ := hl
  unfold Settings.getOrCreateCommodity
  by_cases hc : c = ""
  · subst hc
    simp only [if_true, h3]
    exact ⟨_, rfl, by simp [Lax, h1, h2], rfl⟩
  · simp only [hc, if_false, h1]
    by_cases hm : c ∈ st.commodities
    · simp only [hm, if_true]; exact ⟨_, rfl, ⟨h1, h2, h3⟩, rfl⟩
    · simp only [hm, if_false, Bool.false_eq_true]; exact ⟨_, rfl, by simp [Lax, h2, h3], rfl⟩

theorem gocta_lax (st : Settings) (hl : Lax st) (a : Path) (c : String) :
    ∃ st', st.getOrCreateTxnAccount a c = .ok (a, st') ∧ Lax st' := by
  obtain ⟨st1, h1, hl1, _⟩ := gocc_lax st hl c
  unfold Settings.getOrCreateTxnAccount
  rw [h1]
  obtain ⟨s1, s2, s3⟩ := hl1
  by_cases hm : a ∈ st1.accounts
  · simp only [hm, if_true, s1, Bool.false_eq_true, if_false]; exact ⟨_, rfl, by simp [Lax, s2, s3]⟩
  · simp only [hm, if_false, s1, Bool.false_eq_true]; exact ⟨_, rfl, by simp [Lax, s2, s3]⟩

theorem handlePosting_eq (st : Settings) (hl : Lax st) (p : EqPosting) (hnz : p.amount.isZero = false) :
    ∃ st', handlePosting st p.toRaw = .ok (toPosting p, st') ∧ Lax st' := by
  unfold handlePosting EqPosting.toRaw
  by_cases hc : p.comm = ""
  · simp only [hc, if_true, registerUnit, valuePosition]
    obtain ⟨st2, h2, hl2⟩ := gocta_lax st hl p.acct ""
    rw [h2]
    simp only [mkPosting, hnz, Bool.false_eq_true, if_false, Outcome.map]
    exact ⟨st2, by simp [toPosting, hc], hl2⟩
  · simp only [hc, if_false, registerUnit, valuePosition, openingNeg]
    obtain ⟨st1, h1, hl1, _⟩ := gocc_lax st hl p.comm
    rw [h1]
    simp only [Bool.false_eq_true, if_false]
    obtain ⟨st2, h2, hl2⟩ := gocta_lax st1 hl1 p.acct p.comm
    rw [h2]
    simp only [mkPosting, hnz, Bool.false_eq_true, if_false, Outcome.map]
    exact ⟨st2, by simp [toPosting], hl2⟩

theorem mapMS_handle : ∀ (posts : List EqPosting) (st : Settings), Lax st →
    (∀ p ∈ posts, p.amount.isZero = false) →
    ∃ st', mapMS handlePosting st (posts.map EqPosting.toRaw) = .ok (posts.map toPosting, st') ∧ Lax st' := by
  intro posts
  induction posts with
  | nil => intro st hl _; exact ⟨st, rfl, hl⟩
  | cons p rest ih =>
    intro st hl hnz
    obtain ⟨st1, h1, hl1⟩ := handlePosting_eq st hl p (hnz p List.mem_cons_self)
    obtain ⟨st2, h2, hl2⟩ := ih st1 hl1 (fun q hq => hnz q (List.mem_cons_of_mem _ hq))
    refine ⟨st2, ?_, hl2⟩
    simp only [List.map_cons, mapMS, h1, h2]

theorem acceptHeader_eq (st : Settings) (hl : Lax st) (t : EqTxn) : acceptHeader st t.toRaw.header = .ok st := by
  simp [acceptHeader, EqTxn.toRaw, hl.2.1]

theorem any_txnComm (ps : List EqPosting) (c c0 : String) (h : ∀ p ∈ ps, p.comm = c) (h0 : c0 = c) :
    (ps.map toPosting).any (fun p => p.txnComm != c0) = false := by
  simp only [List.any_eq_false, List.mem_map]
  rintro q ⟨p, hp, rfl⟩
  simp [toPosting, h p hp, h0]

/-- a good generated transaction is accepted, with exactly its postings -/
theorem accept_good (st : Settings) (hl : Lax st) (t : EqTxn) (hg : GoodEq t) :
    ∃ st', acceptTxn st t.toRaw = .ok (toTxn t, st') ∧ Lax st' := by
  obtain ⟨hne, hnz, ⟨c, hc⟩, ⟨z, hz, hzz⟩⟩ := hg
  obtain ⟨st1, h1, hl1⟩ := mapMS_handle t.posts st hl hnz
  unfold acceptTxn
  rw [acceptHeader_eq st hl t]
  have hposts : t.toRaw.posts = t.posts.map EqPosting.toRaw := rfl
  have hlast : t.toRaw.last = none := rfl
  obtain ⟨p0, rest, hp⟩ := List.exists_cons_of_ne_nil hne
  have hps : t.posts.map toPosting = toPosting p0 :: rest.map toPosting := by rw [hp]; rfl
  have hacc : acceptPostings st t.toRaw.posts t.toRaw.last = .ok (t.posts.map toPosting, st1) := by
    unfold acceptPostings
    rw [hposts, hlast, h1, hps]
  simp only [hacc]
  rw [hps]
  simp only
  have hany : (toPosting p0 :: rest.map toPosting).any (fun p => p.txnComm != (toPosting p0).txnComm) = false := by
    rw [← hps]
    exact any_txnComm t.posts c _ hc (by simp [toPosting, hc p0 (by rw [hp]; exact List.mem_cons_self)])
  rw [hany]
  have hsum : txnSum (toPosting p0 :: rest.map toPosting) = some z := by
    rw [← hps]
    unfold txnSum
    rw [List.map_map]
    exact hz
  simp only [Bool.false_eq_true, if_false, hsum, hzz, if_true]
  exact ⟨st1, by simp [toTxn, hps], hl1⟩

/-! ### what `equityExport` returned -/

theorem postsOf_wf (txns : List Txn) (hwf : TxnsWF txns) : ∀ p ∈ postsOf txns, p.amount.scale ≤ 28 := by
  intro p hp
  simp only [postsOf, List.mem_flatMap, List.mem_map] at hp
  obtain ⟨t, ht, q, hq, rfl⟩ := hp
  exact hwf t ht q hq

theorem nonZeroSel_nonzero (acc : Option (Path → Bool)) (r : BalRow) (h : nonZeroSel acc r = true) :
    r.own.isZero = false := by
  unfold nonZeroSel at h
  split at h
  · simpa using h
  · simp only [Bool.and_eq_true, Bool.not_eq_true'] at h; exact h.1

theorem balance_nil (st : Settings) : balance st [] = .ok [] := by
  simp [balance, accountSums, chunkBy, sumGroups, completeTree, bubbleAll, Outcome.map, btreeCollect, flattenOpt]

/-- inversion of `write_export`: the balance of the set exists; nothing is written when no row is selected,
    otherwise the last transaction exists and every commodity chunk of the selected rows yields its transaction -/
theorem export_inv (st : Settings) (acc : Option (Path → Bool)) (eqa : Path) (md : List String) (txns : List Txn)
    (out : List EqTxn) (h : equityExport st acc eqa md txns = .ok out) :
    ∃ all, balance st (postsOf txns) = .ok all ∧
      ((selRows acc all = [] ∧ out = []) ∨
       (selRows acc all ≠ [] ∧ ∃ last, txns.getLast? = some last ∧
          eqTxns eqa last.header md (chunkBy (·.comm) (selRows acc all)) = some out)) := by
  unfold equityExport at h
  split at h
  · cases h
  · cases h
  · rename_i bal hb
    unfold fromIter at hb
    split at hb
    · cases hb
    · cases hb
    · rename_i all hall
      split at hb
      · cases hb
      · cases hb
        refine ⟨all, hall, ?_⟩
        simp only at h
        split at h
        · rename_i he
          cases h
          exact .inl ⟨by simpa [selRows] using he, rfl⟩
        · rename_i he
          split at h
          · cases h
          · rename_i last hlast
            split at h
            · cases h
            · rename_i out' hout
              cases h
              exact .inr ⟨by simpa [selRows] using he, last, hlast, hout⟩

/-- the `None` arm of `last_txn` ("Internal logic error") is unreachable: a selected row implies a transaction -/
theorem last_exists (st : Settings) (acc : Option (Path → Bool)) (txns : List Txn) (all : List BalRow)
    (hall : balance st (postsOf txns) = .ok all) (hne : selRows acc all ≠ []) :
    ∃ last, txns.getLast? = some last := by
  cases hl : txns.getLast? with
  | some last => exact ⟨last, rfl⟩
  | none =>
    have : txns = [] := List.getLast?_eq_none_iff.mp hl
    subst this
    rw [show postsOf [] = [] from rfl, balance_nil] at hall
    cases hall
    exact absurd rfl hne

theorem eqTxn_spec (eqa : Path) (last : Header) (md : List String) (c : String) (rows : List BalRow) (t : EqTxn)
    (h : eqTxn eqa last md c rows = some t) :
    ∃ dsum, Dec.sum (rows.map (·.own)) = some dsum ∧
      t = ⟨last.ts, eqDesc c last.uuid, md ++ warning dsum,
           rows.map (fun b => ⟨b.acct, b.own, b.comm⟩) ++ balancing eqa c dsum⟩ := by
  unfold eqTxn at h
  split at h
  · cases h
  · rename_i dsum hd
    cases h
    exact ⟨dsum, hd, rfl⟩

theorem eqTxns_forall2 (eqa : Path) (last : Header) (md : List String) (R : String → EqTxn → Prop) :
    ∀ (gs : List (String × List BalRow)),
      (∀ kg ∈ gs, ∀ t, eqTxn eqa last md kg.1 kg.2 = some t → R kg.1 t) →
      ∀ out, eqTxns eqa last md gs = some out → Forall2 R (gs.map (·.1)) out := by
  intro gs
  induction gs with
  | nil => intro _ out h; simp [eqTxns] at h; subst h; exact .nil
  | cons kg rest ih =>
    intro hstep out h
    obtain ⟨c, g⟩ := kg
    simp only [eqTxns] at h
    split at h
    · cases h
    · rename_i t ht
      split at h
      · cases h
      · rename_i ts hts
        cases h
        exact .cons (hstep (c, g) List.mem_cons_self t ht)
          (ih (fun kg hkg => hstep kg (List.mem_cons_of_mem _ hkg)) ts hts)

theorem eqTxns_mem (eqa : Path) (last : Header) (md : List String) :
    ∀ (gs : List (String × List BalRow)) (out : List EqTxn), eqTxns eqa last md gs = some out →
      ∀ t ∈ out, ∃ kg ∈ gs, eqTxn eqa last md kg.1 kg.2 = some t := by
  intro gs
  induction gs with
  | nil => intro out h t ht; simp [eqTxns] at h; subst h; cases ht
  | cons kg rest ih =>
    intro out h t ht
    obtain ⟨c, g⟩ := kg
    simp only [eqTxns] at h
    split at h
    · cases h
    · rename_i t0 ht0
      split at h
      · cases h
      · rename_i ts hts
        cases h
        rcases List.mem_cons.mp ht with rfl | ht'
        · exact ⟨(c, g), List.mem_cons_self, ht0⟩
        · obtain ⟨kg, hkg, hk⟩ := ih ts hts t ht'
          exact ⟨kg, List.mem_cons_of_mem _ hkg, hk⟩

/-- the transaction of a commodity chunk of selected rows is good -/
theorem eqTxn_good (eqa : Path) (last : Header) (md : List String) (c : String) (rows : List BalRow) (t : EqTxn)
    (hne : rows ≠ []) (hnz : ∀ r ∈ rows, r.own.isZero = false) (hc : ∀ r ∈ rows, r.comm = c)
    (h : eqTxn eqa last md c rows = some t) : GoodEq t := by
  obtain ⟨dsum, hd, rfl⟩ := eqTxn_spec eqa last md c rows t h
  refine ⟨?_, ?_, ⟨c, ?_⟩, ?_⟩
  · simp [hne]
  · intro p hp
    simp only [List.mem_append, List.mem_map] at hp
    rcases hp with ⟨r, hr, rfl⟩ | hp
    · exact hnz r hr
    · unfold balancing at hp
      split at hp
      · cases hp
      · rename_i hz
        simp at hp; subst hp
        simpa using hz
  · intro p hp
    simp only [List.mem_append, List.mem_map] at hp
    rcases hp with ⟨r, hr, rfl⟩ | hp
    · exact hc r hr
    · unfold balancing at hp
      split at hp
      · cases hp
      · simp at hp; subst hp; rfl
  · simp only [List.map_append, List.map_map]
    have e : (rows.map ((fun p : EqPosting => p.amount) ∘ fun b => (⟨b.acct, b.own, b.comm⟩ : EqPosting)))
        = rows.map (·.own) := by
      apply List.map_congr_left; intro r _; rfl
    rw [e]
    unfold balancing
    by_cases hz : dsum.isZero = true
    · simp only [hz, if_true, List.map_nil, List.append_nil]
      exact ⟨dsum, hd, hz⟩
    · have hz' : dsum.isZero = false := by simpa using hz
      simp only [hz', Bool.false_eq_true, if_false, List.map_cons, List.map_nil]
      unfold Dec.sum at hd ⊢
      rw [sumFrom_append, hd]
      exact add_negate dsum hz'

/-- every transaction of an export is good -/
theorem export_good (st : Settings) (acc : Option (Path → Bool)) (eqa : Path) (md : List String) (txns : List Txn)
    (out : List EqTxn) (h : equityExport st acc eqa md txns = .ok out) : ∀ t ∈ out, GoodEq t := by
  obtain ⟨all, _, hcase⟩ := export_inv st acc eqa md txns out h
  rcases hcase with ⟨_, rfl⟩ | ⟨_, last, _, hout⟩
  · intro t ht; cases ht
  · intro t ht
    obtain ⟨kg, hkg, hk⟩ := eqTxns_mem eqa last.header md _ out hout t ht
    have hkeys := chunkBy_keys (fun r : BalRow => r.comm) _ kg hkg
    have hsub := chunkBy_sub (fun r : BalRow => r.comm) _ kg hkg
    refine eqTxn_good eqa last.header md kg.1 kg.2 t hkeys.1 ?_ hkeys.2 hk
    intro r hr
    have := hsub r hr
    simp only [selRows, List.mem_filter] at this
    exact nonZeroSel_nonzero acc r this.2

/-! ### `equity_accepts` -/

theorem good_rawWF (t : EqTxn) (hs : ∀ p ∈ t.posts, p.amount.scale ≤ 28) : C01.RawWF t.toRaw := by
  intro rp hrp
  simp only [EqTxn.toRaw, List.mem_map] at hrp
  obtain ⟨p, hp, rfl⟩ := hrp
  refine ⟨hs p hp, ?_⟩
  unfold EqPosting.toRaw
  by_cases hc : p.comm = "" <;> simp [hc, C01.closingScaleOk]

/-- amounts of an export have scale ≤ 28 -/
theorem export_scale (st : Settings) (acc : Option (Path → Bool)) (eqa : Path) (md : List String) (txns : List Txn)
    (out : List EqTxn) (hwf : TxnsWF txns) (h : equityExport st acc eqa md txns = .ok out) :
    ∀ t ∈ out, ∀ p ∈ t.posts, p.amount.scale ≤ 28 := by
  obtain ⟨all, hall, hcase⟩ := export_inv st acc eqa md txns out h
  have hscale := balance_own_scale st (postsOf txns) all (postsOf_wf txns hwf) hall
  rcases hcase with ⟨_, rfl⟩ | ⟨_, last, _, hout⟩
  · intro t ht; cases ht
  · intro t ht p hp
    obtain ⟨kg, hkg, hk⟩ := eqTxns_mem eqa last.header md _ out hout t ht
    have hsub := chunkBy_sub (fun r : BalRow => r.comm) _ kg hkg
    have hrows : ∀ r ∈ kg.2, r.own.scale ≤ 28 := by
      intro r hr
      have := hsub r hr
      simp only [selRows, List.mem_filter] at this
      exact hscale r this.1
    obtain ⟨dsum, hd, rfl⟩ := eqTxn_spec eqa last.header md kg.1 kg.2 t hk
    simp only [List.mem_append, List.mem_map] at hp
    rcases hp with ⟨r, hr, rfl⟩ | hp
    · exact hrows r hr
    · unfold balancing at hp
      split at hp
      · cases hp
      · simp at hp; subst hp
        have := (Dec.sum_units _ dsum (by
          intro d hd'; simp only [List.mem_map] at hd'; obtain ⟨r, hr, rfl⟩ := hd'; exact hrows r hr) hd).2
        simpa using this

/-- **equity_accepts**: every generated transaction, fed as a parse tree to `acceptTxn` under lax non-audit
    settings, is accepted with exactly its postings, and the accepted transaction is `Balanced`
    (no zero posting, one commodity, sum zero) -/
theorem equity_accepts (st : Settings) (acc : Option (Path → Bool)) (eqa : Path) (md : List String)
    (txns : List Txn) (out : List EqTxn) (hwf : TxnsWF txns)
    (h : equityExport st acc eqa md txns = .ok out) (st' : Settings) (hl : Lax st') :
    ∀ t ∈ out, ∃ st'', acceptTxn st' t.toRaw = .ok (toTxn t, st'') ∧ Lax st'' ∧ C01.Balanced (toTxn t) := by
  intro t ht
  obtain ⟨st'', hacc, hl''⟩ := accept_good st' hl t (export_good st acc eqa md txns out h t ht)
  exact ⟨st'', hacc, hl'', C01.accept_balanced st' st'' t.toRaw (toTxn t)
    (good_rawWF t (export_scale st acc eqa md txns out hwf h t ht)) hacc⟩

/-! ### `equity_reparse` (parse-tree level) -/

theorem acceptJournal_good : ∀ (out : List EqTxn) (st : Settings), Lax st → (∀ t ∈ out, GoodEq t) →
    ∃ st', acceptJournal st (out.map EqTxn.toRaw) = .ok (out.map toTxn, st') ∧ Lax st' := by
  intro out
  induction out with
  | nil => intro st hl _; exact ⟨st, rfl, hl⟩
  | cons t rest ih =>
    intro st hl hg
    obtain ⟨st1, h1, hl1⟩ := accept_good st hl t (hg t List.mem_cons_self)
    obtain ⟨st2, h2, hl2⟩ := ih st1 hl1 (fun q hq => hg q (List.mem_cons_of_mem _ hq))
    refine ⟨st2, ?_, hl2⟩
    unfold acceptJournal at h2 ⊢
    simp only [List.map_cons, mapMS, h1, h2]

/-- **equity_reparse**: the parse trees of a non-empty export load as a journal (accept every transaction, sort)
    to exactly the generated transactions; an empty export is not a journal (`string_to_txns` needs one
    transaction) -/
theorem equity_reparse (st : Settings) (acc : Option (Path → Bool)) (eqa : Path) (md : List String)
    (txns : List Txn) (out : List EqTxn) (h : equityExport st acc eqa md txns = .ok out)
    (st' : Settings) (hl : Lax st') :
    (out = [] → loadJournal st' (out.map EqTxn.toRaw) = .err) ∧
    (out ≠ [] → ∃ st'', loadJournal st' (out.map EqTxn.toRaw) = .ok (sortTxns (out.map toTxn), st'') ∧ Lax st'') := by
  constructor
  · intro he; subst he; rfl
  · intro hne
    obtain ⟨st'', hacc, hl''⟩ := acceptJournal_good out st' hl (export_good st acc eqa md txns out h)
    refine ⟨st'', ?_, hl''⟩
    obtain ⟨t0, rest, rfl⟩ := List.exists_cons_of_ne_nil hne
    simp only [List.map_cons, loadJournal] at hacc ⊢
    rw [hacc]
    rfl

/-! ### `equity_shape` -/

theorem selRows_sorted (st : Settings) (acc : Option (Path → Bool)) (posts : List BPost) (all : List BalRow)
    (hall : balance st posts = .ok all) :
    (selRows acc all).Pairwise (fun a b => ¬ b.comm < a.comm) := by
  have h1 := (balance_sorted st posts all hall).filter (nonZeroSel acc)
  exact h1.imp (fun {a b} hab => keyLe_comm_le a.key b.key hab)

theorem warning_units (dsum : Dec) : warning dsum = if dsum.units = 0 then warningLines else [] := by
  unfold warning
  by_cases hz : dsum.isZero = true
  · simp [hz, (Dec.isZero_iff_units dsum).mp hz]
  · have : ¬ dsum.units = 0 := fun h => hz ((Dec.isZero_iff_units dsum).mpr h)
    simp [hz, this]

theorem balancing_units (eqa : Path) (c : String) (dsum : Dec) :
    balancing eqa c dsum = if dsum.units = 0 then [] else [⟨eqa, dsum.negate, c⟩] := by
  unfold balancing
  by_cases hz : dsum.isZero = true
  · simp [hz, (Dec.isZero_iff_units dsum).mp hz]
  · have : ¬ dsum.units = 0 := fun h => hz ((Dec.isZero_iff_units dsum).mpr h)
    simp [hz, this]

/-- **equity_shape**: the export consists of one transaction per commodity that has a selected non-zero row, in
    strictly increasing commodity order (`cs`); the transaction of commodity `c` is dated at the last selected
    transaction, is described by `eqDesc c`, and its postings are exactly the selected rows of `c` (in row order)
    with amount = the row's own sum, followed by the balancing posting (equity account, −Σ, `c`) iff Σ ≠ 0 —
    and the WARNING comment block iff Σ = 0. -/
theorem equity_shape (st : Settings) (acc : Option (Path → Bool)) (eqa : Path) (md : List String)
    (txns : List Txn) (out : List EqTxn) (hwf : TxnsWF txns)
    (h : equityExport st acc eqa md txns = .ok out) :
    ∃ all cs, balance st (postsOf txns) = .ok all ∧
      cs.Pairwise (· < ·) ∧ (∀ c, c ∈ cs ↔ ∃ r ∈ selRows acc all, r.comm = c) ∧
      Forall2 (fun c t => ∃ last, txns.getLast? = some last ∧
                 IsEquityTxn eqa last.header md (selRows acc all) c t) cs out := by
  obtain ⟨all, hall, hcase⟩ := export_inv st acc eqa md txns out h
  have hscale := balance_own_scale st (postsOf txns) all (postsOf_wf txns hwf) hall
  rcases hcase with ⟨hrows, rfl⟩ | ⟨_, last, hlast, hout⟩
  · refine ⟨all, [], hall, List.Pairwise.nil, ?_, .nil⟩
    intro c
    simp [hrows]
  · let rows := selRows acc all
    let gs := chunkBy (fun r : BalRow => r.comm) rows
    have hstrict := chunkBy_strict (fun r : BalRow => r.comm) rows (selRows_sorted st acc _ all hall)
    have hnd := pairwise_lt_nodup _ hstrict
    refine ⟨all, gs.map (·.1), hall, hstrict, ?_, ?_⟩
    · intro c
      constructor
      · intro hc
        simp only [List.mem_map] at hc
        obtain ⟨kg, hkg, rfl⟩ := hc
        exact chunkBy_key_mem (fun r : BalRow => r.comm) rows kg hkg
      · rintro ⟨r, hr, rfl⟩
        obtain ⟨kg, hkg, _, hk⟩ := chunkBy_mem (fun r : BalRow => r.comm) rows r hr
        simp only [List.mem_map]
        exact ⟨kg, hkg, hk⟩
    · refine eqTxns_forall2 eqa last.header md _ gs ?_ out hout
      intro kg hkg t ht
      refine ⟨last, hlast, ?_⟩
      obtain ⟨dsum, hd, rfl⟩ := eqTxn_spec eqa last.header md kg.1 kg.2 t ht
      have hfil := chunkBy_eq_filter (fun r : BalRow => r.comm) rows hnd kg hkg
      have hkeys := chunkBy_keys (fun r : BalRow => r.comm) rows kg hkg
      have hsub := chunkBy_sub (fun r : BalRow => r.comm) rows kg hkg
      have hrows : ∀ d ∈ kg.2.map (·.own), d.scale ≤ 28 := by
        intro d hd'
        simp only [List.mem_map] at hd'
        obtain ⟨r, hr, rfl⟩ := hd'
        have := hsub r hr
        simp only [rows, selRows, List.mem_filter] at this
        exact hscale r this.1
      refine ⟨rfl, rfl, dsum, ?_, ?_, ?_⟩
      · rw [(Dec.sum_units _ dsum hrows hd).1, ← hfil, List.map_map]; rfl
      · exact congrArg (md ++ ·) (warning_units dsum)
      · simp only
        rw [balancing_units, ← hfil]
        congr 1
        apply List.map_congr_left
        intro r hr
        rw [hkeys.2 r hr]

/-! ### `equity_carries` -/

theorem perm_sum (l1 l2 : List Int) (h : l1.Perm l2) : l1.sum = l2.sum := by
  induction h with
  | nil => rfl
  | cons x _ ih => simp [ih]
  | swap x y l => simp only [List.sum_cons]; omega
  | trans _ _ ih1 ih2 => omega

theorem ownSpec_perm (ts1 ts2 : List Txn) (h : ts1.Perm ts2) (k : AKey) :
    ownSpec (postsOf ts1) k = ownSpec (postsOf ts2) k := by
  unfold ownSpec postsOf
  exact perm_sum _ _ (((h.flatMap_right _).filter _).map _)

/-- own-sum spec over generated posting lines -/
def ownSpecE (ps : List EqPosting) (k : AKey) : Int :=
  ((ps.filter (fun p => decide ((p.comm, p.acct) = k))).map (·.amount.units)).sum

theorem ownSpecE_append (a b : List EqPosting) (k : AKey) :
    ownSpecE (a ++ b) k = ownSpecE a k + ownSpecE b k := by
  simp [ownSpecE, List.filter_append, List.sum_append]

theorem ownSpec_toTxn (out : List EqTxn) (k : AKey) :
    ownSpec (postsOf (out.map toTxn)) k = ownSpecE (out.flatMap (·.posts)) k := by
  induction out with
  | nil => rfl
  | cons t rest ih =>
    have e1 : postsOf ((t :: rest).map toTxn)
        = (t.posts.map (fun p => (⟨p.acct, p.comm, p.amount⟩ : BPost))) ++ postsOf (rest.map toTxn) := by
      simp [postsOf, toTxn, toPosting, List.map_map, Function.comp_def]
    have e2 : ownSpec ((t.posts.map (fun p => (⟨p.acct, p.comm, p.amount⟩ : BPost))) ++ postsOf (rest.map toTxn)) k
        = ownSpecE t.posts k + ownSpec (postsOf (rest.map toTxn)) k := by
      simp only [ownSpec, ownSpecE, List.filter_append, List.map_append, List.sum_append, List.filter_map,
        List.map_map]
      rfl
    rw [e1, e2, ih, List.flatMap_cons, ownSpecE_append]

theorem ownSpecE_rows (g : List BalRow) (k : AKey) :
    ownSpecE (g.map (fun b => (⟨b.acct, b.own, b.comm⟩ : EqPosting))) k
      = ((g.filter (fun r => decide (r.key = k))).map (·.own.units)).sum := by
  simp only [ownSpecE, List.filter_map, List.map_map]
  rfl

theorem ownSpecE_balancing (eqa : Path) (c : String) (dsum : Dec) (k : AKey) (hk : k.2 ≠ eqa) :
    ownSpecE (balancing eqa c dsum) k = 0 := by
  unfold balancing
  split
  · rfl
  · have : ¬ ((c, eqa) = k) := by intro e; apply hk; rw [← e]
    simp [ownSpecE, this]

theorem eqTxns_sum (eqa : Path) (last : Header) (md : List String) (k : AKey) (hk : k.2 ≠ eqa) :
    ∀ (gs : List (String × List BalRow)) (out : List EqTxn), eqTxns eqa last md gs = some out →
      ownSpecE (out.flatMap (·.posts)) k
        = (((gs.map (·.2)).flatten.filter (fun r => decide (r.key = k))).map (·.own.units)).sum := by
  intro gs
  induction gs with
  | nil => intro out h; simp [eqTxns] at h; subst h; rfl
  | cons kg rest ih =>
    intro out h
    obtain ⟨c, g⟩ := kg
    simp only [eqTxns] at h
    split at h
    · cases h
    · rename_i t ht
      split at h
      · cases h
      · rename_i ts hts
        cases h
        obtain ⟨dsum, _, rfl⟩ := eqTxn_spec eqa last md c g t ht
        simp only [List.flatMap_cons, List.map_cons, List.flatten_cons, List.filter_append, List.map_append,
          List.sum_append]
        rw [ownSpecE_append, ownSpecE_append, ih ts hts, ownSpecE_rows, ownSpecE_balancing eqa c dsum k hk]
        omega

theorem filter_key_unique : ∀ (l : List BalRow), (l.map BalRow.key).Nodup → ∀ r ∈ l,
    l.filter (fun x => decide (x.key = r.key)) = [r] := by
  intro l
  induction l with
  | nil => intro _ r hr; cases hr
  | cons a t ih =>
    intro hnd r hr
    simp only [List.map_cons, List.nodup_cons, List.mem_map, not_exists, not_and] at hnd
    rcases List.mem_cons.mp hr with rfl | hr'
    · have : t.filter (fun x => decide (x.key = r.key)) = [] := by
        simp only [List.filter_eq_nil_iff, decide_eq_true_eq]
        exact fun x hx => hnd.1 x hx
      simp [this]
    · have hne : ¬ a.key = r.key := fun e => hnd.1 r hr' e.symm
      simp [hne, ih hnd.2 r hr']

/-- **equity_carries**: if the equity account is not among the selected accounts, then for every selected
    (commodity, account) with non-zero balance the own sum computed from the re-loaded export (plain spec: Σ of the
    amounts of its postings) equals the own sum of the source (the same plain spec).
    `own_sum` and `rows_nodup` are facts of the balance kernel proved for C02 (`C02.own_sum`: a row's own sum is the
    plain sum of the postings of its key; `C02.rows_nodup`: one row per key); they are hypotheses here and are
    discharged by those theorems. -/
theorem equity_carries (st : Settings) (acc : Option (Path → Bool)) (eqa : Path) (md : List String)
    (txns : List Txn) (out : List EqTxn) (h : equityExport st acc eqa md txns = .ok out)
    (all : List BalRow) (hall : balance st (postsOf txns) = .ok all)
    (own_sum : ∀ r ∈ all, r.own.units = ownSpec (postsOf txns) r.key)
    (rows_nodup : (all.map BalRow.key).Nodup)
    (heqa : ∀ r ∈ selRows acc all, r.acct ≠ eqa)
    (st' st'' : Settings) (hl : Lax st') (ts' : List Txn)
    (hre : loadJournal st' (out.map EqTxn.toRaw) = .ok (ts', st'')) :
    ∀ r ∈ selRows acc all, ownSpec (postsOf ts') r.key = ownSpec (postsOf txns) r.key := by
  intro r hr
  have hrall : r ∈ all := (List.mem_filter.mp hr).1
  obtain ⟨hempty, hnonempty⟩ := equity_reparse st acc eqa md txns out h st' hl
  by_cases hout : out = []
  · rw [hempty hout] at hre; cases hre
  · obtain ⟨st3, hload, _⟩ := hnonempty hout
    rw [hload] at hre
    cases hre
    obtain ⟨all', hall', hcase⟩ := export_inv st acc eqa md txns out h
    rw [hall] at hall'
    cases hall'
    rcases hcase with ⟨_, he⟩ | ⟨_, last, _, houts⟩
    · exact absurd he hout
    · rw [ownSpec_perm (sortTxns (out.map toTxn)) (out.map toTxn) (List.mergeSort_perm _ _) r.key, ownSpec_toTxn,
        eqTxns_sum eqa last.header md r.key (heqa r hr) _ out houts, chunkBy_flatten]
      have hnd : ((selRows acc all).map BalRow.key).Nodup :=
        rows_nodup.sublist ((List.filter_sublist (l := all)).map BalRow.key)
      rw [filter_key_unique _ hnd r hr]
      simp [own_sum r hrall]

/-- **equity_empty**: with no selected non-zero row nothing is written (`if bal.is_empty() { return Ok(()) }`);
    in particular for an empty selection of transactions -/
theorem equity_empty (st : Settings) (acc : Option (Path → Bool)) (eqa : Path) (md : List String)
    (txns : List Txn) (out : List EqTxn) (h : equityExport st acc eqa md txns = .ok out)
    (all : List BalRow) (hall : balance st (postsOf txns) = .ok all) :
    out = [] ↔ selRows acc all = [] := by
  obtain ⟨all', hall', hcase⟩ := export_inv st acc eqa md txns out h
  rw [hall] at hall'
  cases hall'
  rcases hcase with ⟨h1, h2⟩ | ⟨h1, last, _, hout⟩
  · exact ⟨fun _ => h1, fun _ => h2⟩
  · constructor
    · intro he
      subst he
      cases hc : chunkBy (fun r : BalRow => r.comm) (selRows acc all) with
      | nil =>
        have := chunkBy_flatten (fun r : BalRow => r.comm) (selRows acc all)
        rw [hc] at this
        exact absurd this.symm h1
      | cons kg rest =>
        rw [hc] at hout
        obtain ⟨c, g⟩ := kg
        simp only [eqTxns] at hout
        split at hout
        · cases hout
        · split at hout <;> cases hout
    · intro he; exact absurd he h1

theorem equity_no_txns (st : Settings) (acc : Option (Path → Bool)) (eqa : Path) (md : List String) :
    equityExport st acc eqa md [] = .ok [] := by
  unfold equityExport fromIter
  rw [show postsOf [] = [] from rfl, balance_nil]
  rfl

/-! ### non-vacuity: concrete exports, boundary witnesses -/

def d (n : Int) : Dec := Dec.ofInt n
def hdr (ns : Int) (u : Option String) : Header := ⟨⟨ns, 0⟩, none, none, u, none, none, none⟩
def post (a : Path) (n : Int) (c : String) : Posting := ⟨a, c, d n, d n, false, c, none⟩

/-- settings after loading `j1` (lax, no audit) -/
def st1 : Settings := ⟨false, false, true, [["a"], ["b"], ["c"], ["e"]], [], ["", "EUR"], []⟩

/-- `1970-01-01T00:00:00.000000001Z / a 3 / b -3` and `…002Z # uuid: u2 / a 5 EUR / c 2 EUR / e -7 EUR` -/
def j1 : List Txn := [
  ⟨hdr 1 none, [post ["a"] 3 "", post ["b"] (-3) ""]⟩,
  ⟨hdr 2 (some "u2"), [post ["a"] 5 "EUR", post ["c"] 2 "EUR", post ["e"] (-7) "EUR"]⟩]

def rows1 : List BalRow := [
  ⟨["a"], "", d 3, d 3⟩, ⟨["b"], "", d (-3), d (-3)⟩,
  ⟨["a"], "EUR", d 5, d 5⟩, ⟨["c"], "EUR", d 2, d 2⟩, ⟨["e"], "EUR", d (-7), d (-7)⟩]

theorem balance_j1 : balance st1 (postsOf j1) = .ok rows1 := by
  have h1 : accountSums (postsOf j1) = some [(("", ["a"]), d 3), (("", ["b"]), d (-3)),
      (("EUR", ["a"]), d 5), (("EUR", ["c"]), d 2), (("EUR", ["e"]), d (-7))] := by
    unfold accountSums
    rw [List.mergeSort_of_pairwise (by decide)]
    decide
  unfold balance
  rw [h1]
  have h2 : completeTree st1 [(("", ["a"]), d 3), (("", ["b"]), d (-3)),
      (("EUR", ["a"]), d 5), (("EUR", ["c"]), d 2), (("EUR", ["e"]), d (-7))] = .ok [(("", ["a"]), d 3), (("", ["b"]), d (-3)),
      (("EUR", ["a"]), d 5), (("EUR", ["c"]), d 2), (("EUR", ["e"]), d (-7))] := by decide
  simp only [h2]
  have h3 : flattenOpt (([(("", ["a"]), d 3), (("", ["b"]), d (-3)),
      (("EUR", ["a"]), d 5), (("EUR", ["c"]), d 2), (("EUR", ["e"]), d (-7))].filter (fun s => s.1.2.length == 1)).map
        (treeNodes [(("", ["a"]), d 3), (("", ["b"]), d (-3)),
      (("EUR", ["a"]), d 5), (("EUR", ["c"]), d 2), (("EUR", ["e"]), d (-7))] (maxDepth [(("", ["a"]), d 3), (("", ["b"]), d (-3)),
      (("EUR", ["a"]), d 5), (("EUR", ["c"]), d 2), (("EUR", ["e"]), d (-7))] + 1))) = some rows1 := by decide
  simp only [h3]
  rw [List.mergeSort_of_pairwise (by decide)]


/-- selector `a|c`, equity account `Eq`: two commodities, each with its balancing posting -/
theorem export_j1_sel : equityExport st1 (some (fun p => p == ["a"] || p == ["c"])) ["Eq"] [] j1 = .ok [
   ⟨⟨2, 0⟩, "Equity: last txn (uuid): u2", [], [⟨["a"], d 3, ""⟩, ⟨["Eq"], d (-3), ""⟩]⟩,
   ⟨⟨2, 0⟩, "Equity for EUR: last txn (uuid): u2", [],
    [⟨["a"], d 5, "EUR"⟩, ⟨["c"], d 2, "EUR"⟩, ⟨["Eq"], d (-7), "EUR"⟩]⟩] := by
  unfold equityExport fromIter
  rw [balance_j1]
  decide

/-- no selector: the selected sums of both commodities cancel — WARNING block, no balancing posting -/
theorem export_j1_all : equityExport st1 none ["Eq"] ["md"] j1 = .ok [
   ⟨⟨2, 0⟩, "Equity: last txn (uuid): u2", "md" :: warningLines, [⟨["a"], d 3, ""⟩, ⟨["b"], d (-3), ""⟩]⟩,
   ⟨⟨2, 0⟩, "Equity for EUR: last txn (uuid): u2", "md" :: warningLines,
    [⟨["a"], d 5, "EUR"⟩, ⟨["c"], d 2, "EUR"⟩, ⟨["e"], d (-7), "EUR"⟩]⟩] := by
  unfold equityExport fromIter
  rw [balance_j1]
  decide

/-- a selector matching nothing: empty export -/
example : equityExport st1 (some (fun p => p == ["nomatch"])) ["Eq"] [] j1 = .ok [] := by
  unfold equityExport fromIter
  rw [balance_j1]
  decide

/-- the hypotheses of the theorems are satisfiable by these inputs -/
example : TxnsWF j1 := by
  intro t ht p hp
  simp only [j1, List.mem_cons, List.not_mem_nil, or_false] at ht
  rcases ht with rfl | rfl <;> simp only [List.mem_cons, List.not_mem_nil, or_false] at hp <;>
    rcases hp with rfl | rfl | rfl <;> decide
example : Lax st1 := ⟨rfl, rfl, rfl⟩

set_option maxRecDepth 8000 in
/-- exact text of a generated transaction -/
example : equityText [⟨⟨1500000000, 7200⟩, "Equity for EUR", ["c"], [⟨["a", "b"], ⟨true, 150, 2⟩, "EUR"⟩, ⟨["Eq"], ⟨false, 150, 2⟩, "EUR"⟩]⟩] =
    some "1970-01-01T02:00:01.5+02:00 'Equity for EUR\n   ; c\n   a:b  -1.50 EUR\n   Eq  1.50 EUR\n\n" := by decide

/-- boundary: the equity account equal to a selected account — the export is still accepted and balanced
    (`equity_accepts` has no side condition), but that account's own sum is not carried: here `a` re-loads with
    3 + (−3) = 0 instead of 3, so the hypothesis `heqa` of `equity_carries` cannot be dropped -/
example : equityExport st1 (some (fun p => p == ["a"])) ["a"] [] j1 = .ok [
   ⟨⟨2, 0⟩, "Equity: last txn (uuid): u2", [], [⟨["a"], d 3, ""⟩, ⟨["a"], d (-3), ""⟩]⟩,
   ⟨⟨2, 0⟩, "Equity for EUR: last txn (uuid): u2", [], [⟨["a"], d 5, "EUR"⟩, ⟨["a"], d (-5), "EUR"⟩]⟩] := by
  unfold equityExport fromIter
  rw [balance_j1]
  decide
example : ownSpecE [⟨["a"], d 3, ""⟩, ⟨["a"], d (-3), ""⟩] ("", ["a"]) = 0 ∧ (d 3).units ≠ 0 := by decide

end C10
end Tackler

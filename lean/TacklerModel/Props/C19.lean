import TacklerModel.Model.Config
/-!
# C19 — command-line options override the configuration file key by key

All statements are about `Config.effective env file cli`, the transliteration of the configuration
path of the `tackler` binary (see the table in `Model/Config.lean`), for **all** file values, option
sets and environments.  The model is the tree with the fixes F15, F191, F192 applied; the behaviour of
the pinned tree at those three points is kept below as `*_pinned` definitions with witnesses.

`namesSimple file cli` is the domain in which identifier validity (library code) is known; outside it
`effective` answers `undef` and nothing is claimed.
-/
namespace Tackler
namespace C19
open Config

/-! ### inversion lemmas: what an accepted run went through -/

theorem mapParse_ok_iff {α} (p : String → Option α) (l : List String) (r : List α) :
    mapParse p l = .ok r ↔ l.map p = r.map some := by
  induction l generalizing r with
  | nil => cases r <;> simp [mapParse]
  | cons s t ih =>
    simp only [mapParse]
    cases hp : p s with
    | none => cases r <;> simp [hp]
    | some a =>
      cases ht : mapParse p t with
      | ok l' =>
        have := (ih l').mp ht
        cases r with
        | nil => simp
        | cons b r' =>
          simp only [Outcome.ok.injEq, List.cons.injEq, List.map_cons, hp, Option.some.injEq]
          constructor
          · rintro ⟨rfl, rfl⟩; exact ⟨rfl, this⟩
          · rintro ⟨rfl, h⟩
            refine ⟨rfl, ?_⟩
            have h2 := (ih r').mpr h
            rw [ht] at h2; cases h2; rfl
      | err =>
        cases r with
        | nil => simp
        | cons b r' =>
          simp only [List.map_cons, hp, List.cons.injEq, Option.some.injEq, reduceCtorEq, false_iff, not_and]
          intro _ h
          have h2 := (ih r').mpr h
          rw [ht] at h2; cases h2
      | undef =>
        cases r with
        | nil => simp
        | cons b r' =>
          simp only [List.map_cons, hp, List.cons.injEq, Option.some.injEq, reduceCtorEq, false_iff, not_and]
          intro _ h
          have h2 := (ih r').mpr h
          rw [ht] at h2; cases h2

theorem mapParse_ne_undef {α} (p : String → Option α) (l : List String) : mapParse p l ≠ .undef := by
  induction l with
  | nil => simp [mapParse]
  | cons s t ih =>
    simp only [mapParse]
    cases p s with
    | none => simp
    | some a =>
      cases ht : mapParse p t with
      | ok l' => simp
      | err => simp
      | undef => exact absurd ht ih

/-- `Config::from` accepted the file: every raw value parsed, and the typed configuration is the raw one -/
theorem configFrom_ok {env : Env} {f : FileCfg} {cfg : Cfg} (h : configFrom env f = .ok cfg) :
    ∃ st g db lt rts gb ets,
      Storage.parse f.storage = some st ∧ gitOptFrom f.git = .ok g ∧ priceFrom env f.price = .ok (db, lt) ∧
      toReportTargets f.targets = .ok rts ∧ GroupBy.parse f.groupBy = some gb ∧
      toExportTargets f.exportTargets = .ok ets ∧
      cfg = { strict := f.strict, audit := f.audit, storage := st, fs := f.fs.map fsFrom, git := g,
              dbPath := db, lookup := lt, accounts := f.accounts, commodities := f.commodities,
              permitEmpty := f.permitEmpty, targets := rts, commodity := f.commodity,
              selBalance := selFrom f.selBalance f.selGlobal, selBalGrp := selFrom f.selBalGrp f.selGlobal,
              selRegister := selFrom f.selRegister f.selGlobal, groupBy := gb, exportTargets := ets,
              equityAccount := f.equityAccount, selEquity := selFrom f.selEquity f.selGlobal } := by
  unfold configFrom at h
  split at h
  · rename_i st g db lt rts gb ets h1 h2 h3 h4 h5 h6
    cases h
    exact ⟨st, g, db, lt, rts, gb, ets, h1, h2, h3, h4, h5, h6, rfl⟩
  · cases h

theorem configFrom_ne_undef (env : Env) (f : FileCfg) : configFrom env f ≠ .undef := by
  unfold configFrom
  split <;> simp

/-- `Settings::try_from` succeeded: every overlaid value and every consistency check on the way -/
theorem settingsFrom_ok {env : Env} {cfg : Cfg} {ov : Overlaps} {s : Sett} (h : settingsFrom env cfg ov = .ok s) :
    ∃ pl, reportsOf cfg ov.reports = .ok s.reports ∧ exportsOf cfg ov.exports = .ok s.exports ∧
      lookupOf cfg ov.lookupType = .ok s.lookup ∧
      reportCommodityOf cfg (ov.strictMode.getD cfg.strict) ov.commodity = .ok s.commodity ∧
      groupByOf cfg ov.groupBy = .ok s.groupBy ∧
      priceLookupFrom env s.lookup ov.beforeTime = .ok pl ∧ s.priceLookup = pl ∧
      s.strict = ov.strictMode.getD cfg.strict ∧ s.audit = ov.auditMode.getD cfg.audit ∧
      s.globalAccSel = ov.accountOverlap ∧
      ¬ (s.strict = true ∧ ExportT.equity ∈ s.exports ∧ cfg.equityAccount ∉ cfg.accounts) ∧
      (s.commodity = none → s.lookup = .none) ∧
      (s.lookup = .none → s.priceDb = none) ∧
      (s.lookup ≠ .none → s.priceDb = some (dbPathOf env cfg ov.dbPath) ∧
          env.dbOk (dbPathOf env cfg ov.dbPath) s.strict = true) := by
  unfold settingsFrom at h
  split at h
  · rename_i reports exports lt rc gb h1 h2 h3 h4 h5
    split at h
    · cases h
    · rename_i hg1
      split at h
      · cases h
      · rename_i hg2
        split at h
        · rename_i pl hpl
          split at h
          · rename_i hlt
            cases h
            refine ⟨pl, h1, h2, h3, h4, h5, hpl, rfl, rfl, rfl, rfl, ?_, ?_, ?_, ?_⟩
            · simpa using hg1
            · intro hrc; simp at hg2; exact hg2 hrc
            · intro _; rfl
            · intro hne; exact absurd hlt hne
          · rename_i hlt
            split at h
            · rename_i hdb
              cases h
              refine ⟨pl, h1, h2, h3, h4, h5, hpl, rfl, rfl, rfl, rfl, ?_, ?_, ?_, ?_⟩
              · simpa using hg1
              · intro hrc; simp at hg2; exact hg2 hrc
              · intro h0; exact absurd h0 hlt
              · intro _; exact ⟨rfl, hdb⟩
            · cases h
        · cases h
        · cases h
  · cases h

/-- an accepted run: clap, `Config::from`, `Settings::try_from`, `get_input_type` all succeeded -/
theorem effective_ok {env : Env} {f : FileCfg} {c : CliOpts} {e : Effective} (h : effective env f c = .ok e) :
    namesSimple f c = true ∧ clapAccepts c = true ∧
    ∃ cfg s i, configFrom env f = .ok cfg ∧ settingsFrom env cfg (getOverlaps c) = .ok s ∧
      getInputType env cfg c = .ok i ∧ e = mkEffective cfg s i := by
  unfold effective at h
  split at h
  · cases h
  · rename_i hn
    split at h
    · cases h
    · rename_i hc
      split at h
      · cases h
      · cases h
      · rename_i cfg hcfg
        split at h
        · cases h
        · cases h
        · rename_i s hs
          split at h
          · cases h
          · cases h
          · rename_i i hi
            cases h
            exact ⟨by simpa using hn, by simpa using hc, cfg, s, i, hcfg, hs, hi, rfl⟩

/-! ### `cli_wins`: a present option decides its key -/

/-- For every overridable key: if the option is present, the effective value is the option's value
    (for target lists, lookup type and group-by: its parsed form; for the price file: the path as the OS
    resolves it, whenever a price file is read at all). -/
theorem cli_wins {env : Env} {f : FileCfg} {c : CliOpts} {e : Effective} (h : effective env f c = .ok e) :
    (∀ v, c.strict = some v → e.strict = v) ∧
    (∀ v, c.audit = some v → e.audit = v) ∧
    (∀ v, c.reports = some v → toReportTargets v = .ok e.reports) ∧
    (∀ v, c.exports = some v → toExportTargets v = .ok e.exports) ∧
    (∀ v, c.reportCommodity = some v → e.commodity = some v) ∧
    (∀ v, c.lookupType = some v → Lookup.parse v = some e.lookup) ∧
    (∀ v, c.pricedb = some v → e.lookup ≠ .none → e.priceDb = some (atCwd env v)) ∧
    (∀ v, c.groupBy = some v → GroupBy.parse v = some e.groupBy) := by
  obtain ⟨_, _, cfg, s, i, hcfg, hs, hi, rfl⟩ := effective_ok h
  obtain ⟨pl, h1, h2, h3, h4, h5, h6, h7, h8, h9, h10, h11, h12, h13, h14⟩ := settingsFrom_ok hs
  simp only [getOverlaps] at h1 h2 h3 h4 h5 h8 h9 h14
  refine ⟨?_, ?_, ?_, ?_, ?_, ?_, ?_, ?_⟩
  · intro v hv; simp [mkEffective, h8, hv]
  · intro v hv; simp [mkEffective, h9, hv]
  · intro v hv; simpa [mkEffective, reportsOf, hv] using h1
  · intro v hv; simpa [mkEffective, exportsOf, hv] using h2
  · intro v hv
    simp only [mkEffective]
    simp only [reportCommodityOf, hv] at h4
    split at h4
    · rename_i n l hn
      have h4 := Outcome.ok.inj h4
      rw [← h4]
      unfold innerGetOrCreateCommodity at hn
      (repeat' split at hn) <;> first | (cases hn; done) | (cases hn; rfl)
    · cases h4
    · cases h4
  · intro v hv
    simp only [mkEffective]
    simp only [lookupOf, hv] at h3
    split at h3
    · rename_i lt hlt; cases h3; exact hlt
    · cases h3
  · intro v hv hne
    simp only [mkEffective] at hne ⊢
    have := (h14 hne).1
    simpa [dbPathOf, hv] using this
  · intro v hv
    simp only [mkEffective]
    simp only [groupByOf, hv] at h5
    split at h5
    · rename_i g hg; cases h5; exact hg
    · cases h5

/-! ### `file_applies`: an absent option leaves the key to the file -/

theorem file_applies {env : Env} {f : FileCfg} {c : CliOpts} {e : Effective} (h : effective env f c = .ok e) :
    (c.strict = none → e.strict = f.strict) ∧
    (c.audit = none → e.audit = f.audit) ∧
    (c.reports = none → toReportTargets f.targets = .ok e.reports) ∧
    (c.exports = none → toExportTargets f.exportTargets = .ok e.exports) ∧
    (c.reportCommodity = none → e.commodity = f.commodity) ∧
    (c.lookupType = none → ∃ db, priceFrom env f.price = .ok (db, e.lookup)) ∧
    (c.pricedb = none → e.lookup ≠ .none → ∃ lt, priceFrom env f.price = .ok (e.priceDb.getD "", lt) ∧ e.priceDb.isSome) ∧
    (c.groupBy = none → GroupBy.parse f.groupBy = some e.groupBy) := by
  obtain ⟨_, _, cfg, s, i, hcfg, hs, hi, rfl⟩ := effective_ok h
  obtain ⟨pl, h1, h2, h3, h4, h5, h6, h7, h8, h9, h10, h11, h12, h13, h14⟩ := settingsFrom_ok hs
  obtain ⟨st, g, db, lt, rts, gb, ets, c1, c2, c3, c4, c5, c6, rfl⟩ := configFrom_ok hcfg
  simp only [getOverlaps] at h1 h2 h3 h4 h5 h8 h9 h14
  refine ⟨?_, ?_, ?_, ?_, ?_, ?_, ?_, ?_⟩
  · intro hv; simp [mkEffective, h8, hv]
  · intro hv; simp [mkEffective, h9, hv]
  · intro hv
    simp only [reportsOf, hv, Outcome.ok.injEq] at h1
    simp only [mkEffective]; rw [← h1]; exact c4
  · intro hv
    simp only [exportsOf, hv, Outcome.ok.injEq] at h2
    simp only [mkEffective]; rw [← h2]; exact c6
  · intro hv
    simp only [mkEffective]
    simp only [reportCommodityOf, hv] at h4
    split at h4
    · rename_i hc; have h4 := Outcome.ok.inj h4; rw [← h4]; exact hc.symm
    · rename_i n hc
      split at h4
      · rename_i m l hn
        have h4 := Outcome.ok.inj h4
        rw [hc, ← h4]
        unfold innerGetOrCreateCommodity at hn
        (repeat' split at hn) <;> first | (cases hn; done) | (cases hn; rfl)
      · cases h4
      · cases h4
  · intro hv
    simp only [lookupOf, hv, Outcome.ok.injEq] at h3
    simp only [mkEffective]; rw [← h3]; exact ⟨db, c3⟩
  · intro hv hne
    simp only [mkEffective] at hne ⊢
    have := (h14 hne).1
    simp only [dbPathOf, hv] at this
    rw [this]; exact ⟨lt, by simpa using c3, rfl⟩
  · intro hv
    simp only [groupByOf, hv, Outcome.ok.injEq] at h5
    simp only [mkEffective]; rw [← h5]; exact c5

/-! ### `selectors` -/

/-- the documented rule: the command-line list (its empty patterns dropped: `--accounts ""` is the empty
    list) replaces everything; otherwise the per-report list; otherwise `report.accounts`; otherwise empty -/
def selSpec (cli : Option (List String)) (own global : Option (List String)) : List String :=
  match cli with
  | some l => l.filter (fun s => s ≠ "")
  | none => own.getD (global.getD [])

theorem selectors {env : Env} {f : FileCfg} {c : CliOpts} {e : Effective} (h : effective env f c = .ok e) :
    e.selBalance = selSpec c.accounts f.selBalance f.selGlobal ∧
    e.selBalGrp = selSpec c.accounts f.selBalGrp f.selGlobal ∧
    e.selRegister = selSpec c.accounts f.selRegister f.selGlobal ∧
    e.selEquity = selSpec c.accounts f.selEquity f.selGlobal := by
  obtain ⟨_, _, cfg, s, i, hcfg, hs, hi, rfl⟩ := effective_ok h
  obtain ⟨pl, h1, h2, h3, h4, h5, h6, h7, h8, h9, h10, _⟩ := settingsFrom_ok hs
  obtain ⟨st, g, db, lt, rts, gb, ets, c1, c2, c3, c4, c5, c6, rfl⟩ := configFrom_ok hcfg
  simp only [getOverlaps, accountOverlapOf] at h10
  have key : ∀ own : Option (List String),
      getAccountSelector s (selFrom own f.selGlobal) = selSpec c.accounts own f.selGlobal := by
    intro own
    unfold getAccountSelector selSpec selFrom
    rw [h10]
    cases c.accounts <;> cases own <;> cases f.selGlobal <;> rfl
  exact ⟨key _, key _, key _, key _⟩

/-- the command-line list replaces the global, every per-report and the equity selector -/
theorem selectors_cli_replaces_all {env : Env} {f : FileCfg} {c : CliOpts} {e : Effective} {l : List String}
    (h : effective env f c = .ok e) (hc : c.accounts = some l) :
    e.selBalance = l.filter (fun s => s ≠ "") ∧ e.selBalGrp = l.filter (fun s => s ≠ "") ∧
    e.selRegister = l.filter (fun s => s ≠ "") ∧ e.selEquity = l.filter (fun s => s ≠ "") := by
  obtain ⟨h1, h2, h3, h4⟩ := selectors h
  simp only [selSpec, hc] at h1 h2 h3 h4
  exact ⟨h1, h2, h3, h4⟩

/-- the documented empty selector: `--accounts ""` selects all accounts in every report and in the equity export -/
theorem selectors_empty_means_all {env : Env} {f : FileCfg} {c : CliOpts} {e : Effective}
    (h : effective env f c = .ok e) (hc : c.accounts = some [""]) :
    selectsAll e.selBalance = true ∧ selectsAll e.selBalGrp = true ∧
    selectsAll e.selRegister = true ∧ selectsAll e.selEquity = true := by
  obtain ⟨h1, h2, h3, h4⟩ := selectors_cli_replaces_all h hc
  rw [h1, h2, h3, h4]; decide

/-- in the file, a per-report selector overrides the global one (and the global one applies where there is none) -/
theorem selectors_per_report_over_global {env : Env} {f : FileCfg} {c : CliOpts} {e : Effective}
    (h : effective env f c = .ok e) (hc : c.accounts = none) :
    (∀ l, f.selBalance = some l → e.selBalance = l) ∧ (f.selBalance = none → e.selBalance = f.selGlobal.getD []) ∧
    (∀ l, f.selBalGrp = some l → e.selBalGrp = l) ∧ (f.selBalGrp = none → e.selBalGrp = f.selGlobal.getD []) ∧
    (∀ l, f.selRegister = some l → e.selRegister = l) ∧ (f.selRegister = none → e.selRegister = f.selGlobal.getD []) ∧
    (∀ l, f.selEquity = some l → e.selEquity = l) ∧ (f.selEquity = none → e.selEquity = f.selGlobal.getD []) := by
  obtain ⟨h1, h2, h3, h4⟩ := selectors h
  simp only [selSpec, hc] at h1 h2 h3 h4
  refine ⟨?_, ?_, ?_, ?_, ?_, ?_, ?_, ?_⟩ <;> intros <;> simp_all

/-! ### `input_choice`: which input wins -/

/-- the selector given on the command line (`--input.git.commit` | `--input.git.ref`) -/
def gitSelSpec (c : CliOpts) : Option GitSel :=
  match c.inputGitCommit, c.inputGitRef with
  | some k, _ => some (.commitId k)
  | none, some r => some (.reference r)
  | none, none => none

/-- the file's storage of the named type: `fs` = `[path/]dir` + suffix, `git` = `repo` (else the old key
    `repository`) + dir + `ref` (or the given selector) + suffix; paths relative to the configuration file,
    one leading `.` of the suffix dropped -/
def fileInputSpec (env : Env) (f : FileCfg) (storage : String) (sel : Option GitSel) : Option Input :=
  match Storage.parse storage with
  | some .fs => f.fs.map fun r => .fs (getAbsPath env (fsFrom r).1) (stripDot r.suffix)
  | some .git =>
    match f.git with
    | none => none
    | some g =>
      match g.repo, g.repository with
      | some repo, _ => some (.git (getAbsPath env repo) g.dir (sel.getD (.reference g.ref)) (stripDot g.suffix))
      | none, some repo => some (.git (getAbsPath env repo) g.dir (sel.getD (.reference g.ref)) (stripDot g.suffix))
      | none, none => none
  | none => none

/-- the table: `--input.file` | `--input.fs.dir`+`ext` | `--input.git.repository`+`dir`+`ref|commit` |
    `ref|commit` alone (the file's git storage at that revision) | `--input.storage` | nothing (the file's storage) -/
def inputSpec (env : Env) (f : FileCfg) (c : CliOpts) : Option Input :=
  match c.inputFile with
  | some p => some (.file (atCwd env p))
  | none =>
    match c.inputFsDir, c.inputFsExt with
    | some d, some x => some (.fs (atCwd env d) (stripDot x))
    | some _, none => none
    | none, _ =>
      match c.inputGitRepo, c.inputGitDir with
      | some r, some d => (gitSelSpec c).map fun sel => .git (atCwd env r) d sel "txn"
      | some _, none => none
      | none, _ =>
        match gitSelSpec c with
        | some sel => fileInputSpec env f "git" (some sel)
        | none => fileInputSpec env f (c.inputStorage.getD f.storage) none

theorem inputOfStorage_spec {env : Env} {f : FileCfg} {cfg : Cfg} {i : Input}
    (hcfg : configFrom env f = .ok cfg) (name : String) (st : Storage) (hst : Storage.parse name = some st)
    (h : inputOfStorage env cfg st = .ok i) :
    fileInputSpec env f name none = some i := by
  obtain ⟨st0, g, db, lt, rts, gb, ets, c1, c2, c3, c4, c5, c6, rfl⟩ := configFrom_ok hcfg
  unfold fileInputSpec
  rw [hst]
  unfold inputOfStorage at h
  cases st with
  | fs =>
    simp only at h ⊢
    cases hfs : f.fs with
    | none => simp [hfs] at h
    | some r =>
      simp only [hfs, Option.map_some] at h ⊢
      cases h
      simp [fsFrom]
      cases r.path <;> rfl
  | git =>
    simp only at h ⊢
    unfold gitOptFrom at c2
    cases hg : f.git with
    | none => simp [hg] at c2; cases c2; simp at h
    | some r =>
      simp only [hg] at c2
      unfold gitFrom at c2
      cases hr : r.repo with
      | some x =>
        simp only [hr] at c2; cases c2
        simp at h; cases h; simp [hr]
      | none =>
        cases hr2 : r.repository with
        | some x =>
          simp only [hr, hr2] at c2; cases c2
          simp at h; cases h; simp [hr, hr2]
        | none => simp [hr, hr2] at c2

theorem getInputSettings_spec {env : Env} {f : FileCfg} {cfg : Cfg} {i : Input}
    (hcfg : configFrom env f = .ok cfg) (storage : Option String)
    (h : getInputSettings env cfg storage = .ok i) :
    fileInputSpec env f (storage.getD f.storage) none = some i := by
  have hcfg' := hcfg
  obtain ⟨st0, g, db, lt, rts, gb, ets, c1, c2, c3, c4, c5, c6, hc⟩ := configFrom_ok hcfg
  unfold getInputSettings storageTypeOf at h
  cases storage with
  | none =>
    simp only [Option.getD_none] at h ⊢
    have hs : cfg.storage = st0 := by rw [hc]
    rw [hs] at h
    exact inputOfStorage_spec hcfg' f.storage st0 c1 h
  | some s =>
    simp only [Option.getD_some] at h ⊢
    cases hp : Storage.parse s with
    | none => simp [hp] at h
    | some st =>
      rw [hp] at h
      exact inputOfStorage_spec hcfg' s st hp h

theorem getGitSelector_spec {c : CliOpts} {gs : Option GitSel} (h : getGitSelector c = .ok gs) :
    gitSelSpec c = gs := by
  unfold getGitSelector at h
  unfold gitSelSpec
  cases hk : c.inputGitCommit <;> cases hr : c.inputGitRef <;> simp only [hk, hr] at h ⊢ <;> cases h <;> rfl

theorem fileInputSpec_git_sel {env : Env} {f : FileCfg} {i : Input} (sel : GitSel)
    (h : fileInputSpec env f "git" none = some i) :
    ∃ repo dir s0 ext, i = .git repo dir s0 ext ∧
      fileInputSpec env f "git" (some sel) = some (.git repo dir sel ext) := by
  unfold fileInputSpec at h ⊢
  have hp : Storage.parse "git" = some .git := by decide
  rw [hp] at h ⊢
  simp only at h ⊢
  cases hg : f.git with
  | none => simp [hg] at h
  | some g =>
    simp only [hg] at h ⊢
    cases hr : g.repo with
    | some x => simp only [hr] at h ⊢; cases h; exact ⟨_, _, _, _, rfl, rfl⟩
    | none =>
      cases hr2 : g.repository with
      | some x => simp only [hr, hr2] at h ⊢; cases h; exact ⟨_, _, _, _, rfl, rfl⟩
      | none => simp [hr, hr2] at h

theorem getInputType_spec {env : Env} {f : FileCfg} {c : CliOpts} {cfg : Cfg} {i : Input}
    (hcfg : configFrom env f = .ok cfg) (hi : getInputType env cfg c = .ok i) :
    inputSpec env f c = some i := by
  unfold getInputType at hi
  cases hsel : getGitSelector c with
  | err => rw [hsel] at hi; cases hi
  | undef => rw [hsel] at hi; cases hi
  | ok gs =>
    have hgs := getGitSelector_spec hsel
    rw [hsel] at hi
    simp only at hi
    unfold inputSpec
    cases hf : c.inputFile with
    | some p => simp only [hf] at hi ⊢; cases hi; rfl
    | none =>
      simp only [hf] at hi ⊢
      cases hd : c.inputFsDir with
      | some d =>
        cases hx : c.inputFsExt with
        | some x => simp only [hd, hx] at hi ⊢; cases hi; rfl
        | none => simp only [hd, hx] at hi; cases hi
      | none =>
        simp only [hd] at hi ⊢
        cases hrepo : c.inputGitRepo with
        | some r =>
          cases hdir : c.inputGitDir with
          | some d =>
            simp only [hrepo, hdir] at hi ⊢
            rw [hgs]
            cases gs with
            | some sel => simp only at hi; cases hi; rfl
            | none => simp only at hi; cases hi
          | none =>
            simp only [hrepo, hdir] at hi
            cases gs <;> (try simp only at hi) <;> cases hi
        | none =>
          simp only [hrepo] at hi ⊢
          rw [hgs]
          cases gs with
          | none => exact getInputSettings_spec hcfg _ hi
          | some sel =>
            try simp only at hi ⊢
            cases hg : getInputSettings env cfg (some "git") with
            | err => rw [hg] at hi; cases hi
            | undef => rw [hg] at hi; cases hi
            | ok i0 =>
              have h0 := getInputSettings_spec hcfg (some "git") hg
              simp only [Option.getD_some] at h0
              obtain ⟨repo, dir, s0, ext, rfl, hsp⟩ := fileInputSpec_git_sel sel h0
              rw [hg] at hi
              simp only at hi
              cases hi
              exact hsp

theorem input_choice {env : Env} {f : FileCfg} {c : CliOpts} {e : Effective} (h : effective env f c = .ok e) :
    inputSpec env f c = some e.input := by
  obtain ⟨_, hclap, cfg, s, i, hcfg, hs, hi, rfl⟩ := effective_ok h
  exact getInputType_spec hcfg hi

/-! ### `contradictions`: what is rejected -/

/-- option sets excluded by the declared clap attributes (exit status 2) -/
inductive Rejected (c : CliOpts) : Prop where
  | file_with_storage : c.inputFile.isSome = true → c.inputStorage.isSome = true → Rejected c
  | file_with_fs : c.inputFile.isSome = true → fsAny c = true → Rejected c
  | file_with_git : c.inputFile.isSome = true → gitAny c = true → Rejected c
  | storage_with_fs : c.inputStorage.isSome = true → fsAny c = true → Rejected c
  | storage_with_git : c.inputStorage.isSome = true → gitAny c = true → Rejected c
  | fs_with_git : fsAny c = true → gitAny c = true → Rejected c
  | fs_dir_without_ext : c.inputFsDir.isSome = true → c.inputFsExt = none → Rejected c
  | fs_ext_without_dir : c.inputFsExt.isSome = true → c.inputFsDir = none → Rejected c
  | git_repo_without_dir : c.inputGitRepo.isSome = true → c.inputGitDir = none → Rejected c
  | git_repo_without_revision : c.inputGitRepo.isSome = true → c.inputGitRef = none → c.inputGitCommit = none → Rejected c
  | git_dir_without_repo : c.inputGitDir.isSome = true → c.inputGitRepo = none → Rejected c
  | git_ref_and_commit : c.inputGitRef.isSome = true → c.inputGitCommit.isSome = true → Rejected c
  | bad_storage (s : String) : c.inputStorage = some s → Storage.parse s = none → Rejected c
  | bad_report (l : List String) (s : String) : c.reports = some l → s ∈ l → ReportT.parse s = none → Rejected c
  | bad_export (l : List String) (s : String) : c.exports = some l → s ∈ l → ExportT.parse s = none → Rejected c
  | bad_group_by (s : String) : c.groupBy = some s → GroupBy.parse s = none → Rejected c
  | bad_lookup (s : String) : c.lookupType = some s → Lookup.parse s = none → Rejected c
  | no_reports : c.reports = some [] → Rejected c
  | no_exports : c.exports = some [] → Rejected c
  | no_accounts : c.accounts = some [] → Rejected c

theorem Storage.parse_none {s : String} (h : Storage.parse s = none) : s ≠ "fs" ∧ s ≠ "git" := by
  unfold Storage.parse at h
  (repeat' split at h) <;> simp_all

theorem ReportT.parse_none {s : String} (h : ReportT.parse s = none) :
    s ≠ "register" ∧ s ≠ "balance" ∧ s ≠ "balance-group" := by
  unfold ReportT.parse at h
  (repeat' split at h) <;> simp_all

theorem ExportT.parse_none {s : String} (h : ExportT.parse s = none) : s ≠ "identity" ∧ s ≠ "equity" := by
  unfold ExportT.parse at h
  (repeat' split at h) <;> simp_all

theorem GroupBy.parse_none {s : String} (h : GroupBy.parse s = none) :
    s ≠ "year" ∧ s ≠ "month" ∧ s ≠ "date" ∧ s ≠ "iso-week" ∧ s ≠ "iso-week-date" := by
  unfold GroupBy.parse at h
  (repeat' split at h) <;> simp_all

theorem rejected_clap {c : CliOpts} (h : Rejected c) : clapAccepts c = false := by
  unfold clapAccepts
  cases h with
  | file_with_storage h1 h2 => simp [clapConflicts, h1, h2]
  | file_with_fs h1 h2 => simp [clapConflicts, h1, h2]
  | file_with_git h1 h2 => simp [clapConflicts, h1, h2]
  | storage_with_fs h1 h2 => simp [clapConflicts, h1, h2]
  | storage_with_git h1 h2 => simp [clapConflicts, h1, h2]
  | fs_with_git h1 h2 =>
    unfold fsAny at h1
    cases hd : c.inputFsDir with
    | some d => simp [clapConflicts, hd, h2]
    | none =>
      simp only [hd, Option.isSome_none, Bool.false_or] at h1
      simp [clapRequires, hd, h1]
  | fs_dir_without_ext h1 h2 => simp [clapRequires, h1, h2]
  | fs_ext_without_dir h1 h2 => simp [clapRequires, h1, h2]
  | git_repo_without_dir h1 h2 => simp [clapRequires, h1, h2]
  | git_repo_without_revision h1 h2 h3 => simp [clapRequires, h1, h2, h3]
  | git_dir_without_repo h1 h2 => simp [clapRequires, h1, h2]
  | git_ref_and_commit h1 h2 => simp [clapConflicts, h1, h2]
  | bad_storage s h1 h2 =>
    obtain ⟨n1, n2⟩ := Storage.parse_none h2
    simp [clapValues, inSet, h1, n1, n2]
  | bad_report l s h1 h2 h3 =>
    obtain ⟨n1, n2, n3⟩ := ReportT.parse_none h3
    have hall : l.all (["register", "balance", "balance-group"].contains) = false := by
      rw [List.all_eq_false]; exact ⟨s, h2, by simp [n1, n2, n3]⟩
    simp [clapValues, listIn, h1, hall]
  | bad_export l s h1 h2 h3 =>
    obtain ⟨n1, n2⟩ := ExportT.parse_none h3
    have hall : l.all (["identity", "equity"].contains) = false := by
      rw [List.all_eq_false]; exact ⟨s, h2, by simp [n1, n2]⟩
    simp [clapValues, listIn, h1, hall]
  | bad_group_by s h1 h2 =>
    obtain ⟨n1, n2, n3, n4, n5⟩ := GroupBy.parse_none h2
    simp [clapValues, inSet, h1, n1, n2, n3, n4, n5]
  | bad_lookup s h1 h2 => simp [clapValues, h1, h2]
  | no_reports h1 => simp [clapValues, listIn, h1]
  | no_exports h1 => simp [clapValues, listIn, h1]
  | no_accounts h1 => simp [clapValues, h1]

theorem getInputSettings_ne_undef (env : Env) (cfg : Cfg) (st : Option String) :
    getInputSettings env cfg st ≠ .undef := by
  unfold getInputSettings inputOfStorage
  (repeat' split) <;> simp

/-- the `expect`s / `panic!` of `get_input_type` are excluded by the clap attributes -/
theorem getInputType_ne_undef {env : Env} {cfg : Cfg} {c : CliOpts} (hclap : clapAccepts c = true) :
    getInputType env cfg c ≠ .undef := by
  intro hu
  unfold clapAccepts at hclap
  simp only [Bool.and_eq_true, Bool.not_eq_true'] at hclap
  obtain ⟨⟨_, hconf⟩, hreq⟩ := hclap
  unfold clapConflicts at hconf
  unfold clapRequires at hreq
  unfold getInputType at hu
  cases hsel : getGitSelector c with
  | err => rw [hsel] at hu; cases hu
  | undef =>
    unfold getGitSelector at hsel
    cases hk : c.inputGitCommit <;> cases hr : c.inputGitRef <;> simp only [hk, hr] at hsel <;> try (cases hsel; done)
    simp [hk, hr] at hconf
  | ok gs =>
    have hgs := getGitSelector_spec hsel
    rw [hsel] at hu
    simp only at hu
    cases hf : c.inputFile with
    | some p => simp only [hf] at hu; cases hu
    | none =>
      simp only [hf] at hu
      cases hd : c.inputFsDir with
      | some d =>
        cases hx : c.inputFsExt with
        | some x => simp only [hd, hx] at hu; cases hu
        | none => simp [hd, hx] at hreq
      | none =>
        simp only [hd] at hu
        cases hrepo : c.inputGitRepo with
        | some r =>
          cases hdir : c.inputGitDir with
          | none => simp [hrepo, hdir] at hreq
          | some d =>
            cases gs with
            | some sel => simp only [hrepo, hdir] at hu; cases hu
            | none =>
              unfold gitSelSpec at hgs
              cases hk : c.inputGitCommit <;> cases hr : c.inputGitRef <;> simp only [hk, hr] at hgs <;>
                try (cases hgs; done)
              simp [hrepo, hdir, hk, hr] at hreq
        | none =>
          simp only [hrepo] at hu
          cases gs with
          | none => simp only at hu; exact getInputSettings_ne_undef _ _ _ hu
          | some sel =>
            simp only at hu
            cases hg : getInputSettings env cfg (some "git") with
            | undef => exact getInputSettings_ne_undef _ _ _ hg
            | err => rw [hg] at hu; cases hu
            | ok i0 => rw [hg] at hu; cases i0 <;> simp only at hu <;> cases hu

theorem settingsFrom_ne_undef (env : Env) (cfg : Cfg) (ov : Overlaps) : settingsFrom env cfg ov ≠ .undef := by
  intro hu
  unfold settingsFrom at hu
  (repeat' split at hu) <;> try (cases hu; done)
  rename_i hpl
  unfold priceLookupFrom at hpl
  (repeat' split at hpl) <;> cases hpl

/-- inside the domain of the model every run is accepted or rejected: no `undef` -/
theorem no_undef {env : Env} {f : FileCfg} {c : CliOpts} (hdom : namesSimple f c = true) :
    effective env f c ≠ .undef := by
  intro h
  unfold effective at h
  simp only [hdom, Bool.not_true, Bool.false_eq_true, ↓reduceIte] at h
  split at h
  · cases h
  · rename_i hclap
    split at h
    · cases h
    · rename_i hu; exact configFrom_ne_undef _ _ hu
    · rename_i cfg hcfg
      split at h
      · cases h
      · rename_i hu; exact settingsFrom_ne_undef _ _ _ hu
      · split at h
        · cases h
        · rename_i hu; exact getInputType_ne_undef (by simpa using hclap) hu
        · cases h

theorem innerGetOrCreateCommodity_ok {comms : List String} {pe strict : Bool} {x m : String} {l : List String}
    (h : innerGetOrCreateCommodity comms pe strict x = .ok (m, l)) :
    m = x ∧ (strict = true → x ≠ "" → x ∈ comms) := by
  unfold innerGetOrCreateCommodity at h
  (repeat' split at h) <;> first | (cases h; done) | (cases h; simp_all)

/-- in strict mode the report commodity (from either source) must be a declared commodity -/
theorem reportCommodityOf_strict {cfg : Cfg} {ov : Option String} {n : String}
    (h : reportCommodityOf cfg true ov = .ok (some n)) (hne : n ≠ "") : n ∈ cfg.commodities := by
  unfold reportCommodityOf at h
  (repeat' split at h) <;> try (cases h; done)
  all_goals
    rename_i m l hx
    have h := Outcome.ok.inj h
    cases h
    obtain ⟨rfl, hin⟩ := innerGetOrCreateCommodity_ok hx
    exact hin rfl hne

theorem priceLookupFrom_ok {env : Env} {lt : Lookup} {given : Option String} {pl : PriceLookup}
    (h : priceLookupFrom env lt given = .ok pl) :
    (given.isSome = true ↔ lt = .givenTime) ∧
    (∀ ts, given = some ts → env.tsOk ts = true ∧ pl = .givenTime ts) := by
  cases lt <;> cases given <;> simp [priceLookupFrom] at h ⊢
  split at h
  · rename_i hts; cases h; exact ⟨hts, rfl⟩
  · cases h

/-- what every accepted run satisfies: the consistency rules of `Settings::try_from` -/
theorem accepted_consistent {env : Env} {f : FileCfg} {c : CliOpts} {e : Effective} (h : effective env f c = .ok e) :
    (c.priceBefore.isSome = true ↔ e.lookup = .givenTime) ∧
    (∀ ts, c.priceBefore = some ts → env.tsOk ts = true ∧ e.priceLookup = .givenTime ts) ∧
    (e.lookup ≠ .none → e.commodity.isSome = true ∧ ∃ p, e.priceDb = some p ∧ env.dbOk p e.strict = true) ∧
    (e.strict = true → ExportT.equity ∈ e.exports → f.equityAccount ∈ f.accounts) ∧
    (e.strict = true → ∀ n, e.commodity = some n → n ∈ f.commodities) := by
  obtain ⟨hsimple, _, cfg, s, i, hcfg, hs, hi, rfl⟩ := effective_ok h
  obtain ⟨pl, h1, h2, h3, h4, h5, h6, h7, h8, h9, h10, h11, h12, h13, h14⟩ := settingsFrom_ok hs
  obtain ⟨st, g, db, lt, rts, gb, ets, c1, c2, c3, c4, c5, c6, rfl⟩ := configFrom_ok hcfg
  simp only [getOverlaps] at h4 h6 h8
  simp only [mkEffective]
  refine ⟨(priceLookupFrom_ok h6).1, ?_, ?_, ?_, ?_⟩
  · intro ts hts
    obtain ⟨a, b⟩ := (priceLookupFrom_ok h6).2 ts hts
    exact ⟨a, h7.trans b⟩
  · intro hne
    refine ⟨?_, _, (h14 hne).1, (h14 hne).2⟩
    cases hc : s.commodity with
    | none => exact absurd (h12 hc) hne
    | some _ => rfl
  · intro hst heq
    by_cases hm : f.equityAccount ∈ f.accounts
    · exact hm
    · exact absurd ⟨hst, heq, hm⟩ h11
  · intro hst n hn
    rw [h8] at hst
    rw [hst, hn] at h4
    have hsrc : c.reportCommodity = some n ∨ (c.reportCommodity = none ∧ f.commodity = some n) := by
      have hw := (cli_wins h).2.2.2.2.1
      have hfa := (file_applies h).2.2.2.2.1
      simp only [mkEffective] at hw hfa
      cases hc : c.reportCommodity with
      | some v => left; have := hw v hc; rw [hn] at this; cases this; rfl
      | none => right; exact ⟨rfl, by rw [← hfa hc]; exact hn⟩
    have hsim : isSimpleId n = true := by
      unfold namesSimple at hsimple
      simp only [Bool.and_eq_true] at hsimple
      rcases hsrc with hc | ⟨_, hf⟩
      · have := hsimple.2; rw [hc] at this; exact this
      · have := hsimple.1.2; rw [hf] at this; exact this
    have hne : n ≠ "" := by
      intro h0; subst h0; simp [isSimpleId] at hsim
    exact reportCommodityOf_strict h4 hne

/-! ### `contradictions`, in the "rejected ⇒ `.err`" form -/

/-- the overlaid value of each key, as the documentation describes it -/
def strictSpec (f : FileCfg) (c : CliOpts) : Bool := c.strict.getD f.strict
def commoditySpec (f : FileCfg) (c : CliOpts) : Option String :=
  match c.reportCommodity with
  | some n => some n
  | none => f.commodity
def lookupSpec (env : Env) (f : FileCfg) (c : CliOpts) : Option Lookup :=
  match c.lookupType with
  | some s => Lookup.parse s
  | none =>
    match priceFrom env f.price with
    | .ok (_, lt) => some lt
    | _ => none
def exportsSpec (f : FileCfg) (c : CliOpts) : Outcome (List ExportT) :=
  toExportTargets (c.exports.getD f.exportTargets)

theorem spec_of_ok {env : Env} {f : FileCfg} {c : CliOpts} {e : Effective} (h : effective env f c = .ok e) :
    strictSpec f c = e.strict ∧ commoditySpec f c = e.commodity ∧ lookupSpec env f c = some e.lookup ∧
    exportsSpec f c = .ok e.exports := by
  obtain ⟨w1, _, _, w4, w5, w6, _, _⟩ := cli_wins h
  obtain ⟨a1, _, _, a4, a5, a6, _, _⟩ := file_applies h
  refine ⟨?_, ?_, ?_, ?_⟩
  · unfold strictSpec
    cases hc : c.strict with
    | some v => simp [w1 v hc]
    | none => simp [a1 hc]
  · unfold commoditySpec
    cases hc : c.reportCommodity with
    | some v => simp [w5 v hc]
    | none => simp [a5 hc]
  · unfold lookupSpec
    cases hc : c.lookupType with
    | some v => simp [w6 v hc]
    | none => obtain ⟨db, hdb⟩ := a6 hc; simp [hdb]
  · unfold exportsSpec
    cases hc : c.exports with
    | some v => simp [w4 v hc]
    | none => simp [a4 hc]

/-- every rejected combination is an error (inside the domain of the model): option sets the clap
    attributes exclude; a file `Config::from` rejects, whatever the options; `--price.before` without
    `given-time` and `given-time` without `--price.before`; an unparsable `--price.before`; price
    conversion without a report commodity; strict mode with an undeclared equity account or report commodity;
    an unreadable price file -/
theorem contradictions {env : Env} {f : FileCfg} {c : CliOpts} (hdom : namesSimple f c = true) :
    (Rejected c → effective env f c = .err) ∧
    (configFrom env f = .err → effective env f c = .err) ∧
    (c.priceBefore.isSome = true → lookupSpec env f c ≠ some .givenTime → effective env f c = .err) ∧
    (c.priceBefore = none → lookupSpec env f c = some .givenTime → effective env f c = .err) ∧
    (∀ ts, c.priceBefore = some ts → env.tsOk ts = false → effective env f c = .err) ∧
    (commoditySpec f c = none → lookupSpec env f c ≠ some .none → effective env f c = .err) ∧
    (strictSpec f c = true → (∃ l, exportsSpec f c = .ok l ∧ ExportT.equity ∈ l) → f.equityAccount ∉ f.accounts →
        effective env f c = .err) ∧
    (strictSpec f c = true → (∃ n, commoditySpec f c = some n ∧ n ∉ f.commodities) → effective env f c = .err) := by
  have key : (∀ e, effective env f c = .ok e → False) → effective env f c = .err := by
    intro hno
    cases hE : effective env f c with
    | ok e => exact (hno e hE).elim
    | err => rfl
    | undef => exact absurd hE (no_undef hdom)
  refine ⟨?_, ?_, ?_, ?_, ?_, ?_, ?_, ?_⟩
  · intro hr; apply key; intro e he
    have := (effective_ok he).2.1
    rw [rejected_clap hr] at this; cases this
  · intro hc; apply key; intro e he
    obtain ⟨_, _, cfg, _, _, hcfg, _⟩ := effective_ok he
    rw [hc] at hcfg; cases hcfg
  · intro hb hl; apply key; intro e he
    have := (accepted_consistent he).1.mp hb
    rw [(spec_of_ok he).2.2.1, this] at hl; exact hl rfl
  · intro hb hl; apply key; intro e he
    rw [(spec_of_ok he).2.2.1] at hl
    have := (accepted_consistent he).1.mpr (Option.some.inj hl)
    rw [hb] at this; cases this
  · intro ts hb hts; apply key; intro e he
    have := ((accepted_consistent he).2.1 ts hb).1
    rw [hts] at this; cases this
  · intro hcm hl; apply key; intro e he
    obtain ⟨_, s2, s3, _⟩ := spec_of_ok he
    rw [s3] at hl
    have hne : e.lookup ≠ .none := fun h0 => hl (by rw [h0])
    have := ((accepted_consistent he).2.2.1 hne).1
    rw [← s2, hcm] at this; cases this
  · intro hst ⟨l, hl, hmem⟩ hacc; apply key; intro e he
    obtain ⟨s1, _, _, s4⟩ := spec_of_ok he
    rw [s4] at hl; cases hl
    exact hacc ((accepted_consistent he).2.2.2.1 (by rw [← s1]; exact hst) hmem)
  · intro hst ⟨n, hn, hnot⟩; apply key; intro e he
    obtain ⟨s1, s2, _, _⟩ := spec_of_ok he
    exact hnot ((accepted_consistent he).2.2.2.2 (by rw [← s1]; exact hst) n (by rw [← s2]; exact hn))

end C19
end Tackler

import TacklerModel.Model.Config
/-!
# C19 — command-line options override the configuration file key by key

All statements are about `Config.effective env file cli`, the transliteration of the configuration
path of the `tackler` binary (see the table in `Model/Config.lean`), for **all** file values, option
sets and environments.  The model is the tree with the fixes F15, F191, F192 applied; the behaviour of
the pinned tree at those three points is kept below as `*_pinned` definitions with witnesses.

`namesSimple file cli` is the domain in which identifier validity (library code) is known; outside it
`effective` answers `undef` and nothing is claimed.
-/
namespace Tackler
namespace C19
open Config

/-! ### inversion lemmas: what an accepted run went through -/

theorem mapParse_ok_iff {α} (p : String → Option α) (l : List String) (r : List α) :
    mapParse p l = .ok r ↔ l.map p = r.map some := by
  induction l generalizing r with
  | nil => cases r <;> simp [mapParse]
  | cons s t ih =>
    simp only [mapParse]
    cases hp : p s with
    | none => cases r <;> simp [hp]
    | some a =>
      cases ht : mapParse p t with
      | ok l' =>
        have := (ih l').mp ht
        cases r with
        | nil => simp
        | cons b r' =>
          simp only [Outcome.ok.injEq, List.cons.injEq, List.map_cons, hp, Option.some.injEq]
          constructor
          · rintro ⟨rfl, rfl⟩; exact ⟨rfl, this⟩
          · rintro ⟨rfl, h⟩
            refine ⟨rfl, ?_⟩
            have h2 := (ih r').mpr h
            rw [ht] at h2; cases h2; rfl
      | err =>
        cases r with
        | nil => simp
        | cons b r' =>
          simp only [List.map_cons, hp, List.cons.injEq, Option.some.injEq, reduceCtorEq, false_iff, not_and]
          intro _ h
          have h2 := (ih r').mpr h
          rw [ht] at h2; cases h2
      | undef =>
        cases r with
        | nil => simp
        | cons b r' =>
          simp only [List.map_cons, hp, List.cons.injEq, Option.some.injEq, reduceCtorEq, false_iff, not_and]
          intro _ h
          have h2 := (ih r').mpr h
          rw [ht] at h2; cases h2

theorem mapParse_ne_undef {α} (p : String → Option α) (l : List String) : mapParse p l ≠ .undef := by
  induction l with
  | nil => simp [mapParse]
  | cons s t ih =>
    simp only [mapParse]
    cases p s with
    | none => simp
    | some a =>
      cases ht : mapParse p t with
      | ok l' => simp
      | err => simp
      | undef => exact absurd ht ih

/-- `Config::from` accepted the file: every raw value parsed, and the typed configuration is the raw one -/
theorem configFrom_ok {env : Env} {f : FileCfg} {cfg : Cfg} (h : configFrom env f = .ok cfg) :
    ∃ st g db lt rts gb ets,
      Storage.parse f.storage = some st ∧ gitOptFrom f.git = .ok g ∧ priceFrom env f.price = .ok (db, lt) ∧
      toReportTargets f.targets = .ok rts ∧ GroupBy.parse f.groupBy = some gb ∧
      toExportTargets f.exportTargets = .ok ets ∧
      cfg = { strict := f.strict, audit := f.audit, storage := st, fs := f.fs.map fsFrom, git := g,
              dbPath := db, lookup := lt, accounts := f.accounts, commodities := f.commodities,
              permitEmpty := f.permitEmpty, targets := rts, commodity := f.commodity,
              selBalance := selFrom f.selBalance f.selGlobal, selBalGrp := selFrom f.selBalGrp f.selGlobal,
              selRegister := selFrom f.selRegister f.selGlobal, groupBy := gb, exportTargets := ets,
              equityAccount := f.equityAccount, selEquity := selFrom f.selEquity f.selGlobal } := by
  unfold configFrom at h
  split at h
  · rename_i st g db lt rts gb ets h1 h2 h3 h4 h5 h6
    cases h
    exact ⟨st, g, db, lt, rts, gb, ets, h1, h2, h3, h4, h5, h6, rfl⟩
  · cases h

theorem configFrom_ne_undef (env : Env) (f : FileCfg) : configFrom env f ≠ .undef := by
  unfold configFrom
  split <;> simp

/-- `Settings::try_from` succeeded: every overlaid value and every consistency check on the way -/
theorem settingsFrom_ok {env : Env} {cfg : Cfg} {ov : Overlaps} {s : Sett} (h : settingsFrom env cfg ov = .ok s) :
    ∃ pl, reportsOf cfg ov.reports = .ok s.reports ∧ exportsOf cfg ov.exports = .ok s.exports ∧
      lookupOf cfg ov.lookupType = .ok s.lookup ∧
      reportCommodityOf cfg (ov.strictMode.getD cfg.strict) ov.commodity = .ok s.commodity ∧
      groupByOf cfg ov.groupBy = .ok s.groupBy ∧
      priceLookupFrom env s.lookup ov.beforeTime = .ok pl ∧ s.priceLookup = pl ∧
      s.strict = ov.strictMode.getD cfg.strict ∧ s.audit = ov.auditMode.getD cfg.audit ∧
      s.globalAccSel = ov.accountOverlap ∧
      ¬ (s.strict = true ∧ ExportT.equity ∈ s.exports ∧ cfg.equityAccount ∉ cfg.accounts) ∧
      (s.commodity = none → s.lookup = .none) ∧
      (s.lookup = .none → s.priceDb = none) ∧
      (s.lookup ≠ .none → s.priceDb = some (dbPathOf env cfg ov.dbPath) ∧
          env.dbOk (dbPathOf env cfg ov.dbPath) s.strict = true) := by
  unfold settingsFrom at h
  split at h
  · rename_i reports exports lt rc gb h1 h2 h3 h4 h5
    split at h
    · cases h
    · rename_i hg1
      split at h
      · cases h
      · rename_i hg2
        split at h
        · rename_i pl hpl
          split at h
          · rename_i hlt
            cases h
            refine ⟨pl, h1, h2, h3, h4, h5, hpl, rfl, rfl, rfl, rfl, ?_, ?_, ?_, ?_⟩
            · simpa using hg1
            · intro hrc; simp at hg2; exact hg2 hrc
            · intro _; rfl
            · intro hne; exact absurd hlt hne
          · rename_i hlt
            split at h
            · rename_i hdb
              cases h
              refine ⟨pl, h1, h2, h3, h4, h5, hpl, rfl, rfl, rfl, rfl, ?_, ?_, ?_, ?_⟩
              · simpa using hg1
              · intro hrc; simp at hg2; exact hg2 hrc
              · intro h0; exact absurd h0 hlt
              · intro _; exact ⟨rfl, hdb⟩
            · cases h
        · cases h
        · cases h
  · cases h

/-- an accepted run: clap, `Config::from`, `Settings::try_from`, `get_input_type` all succeeded -/
theorem effective_ok {env : Env} {f : FileCfg} {c : CliOpts} {e : Effective} (h : effective env f c = .ok e) :
    namesSimple f c = true ∧ clapAccepts c = true ∧
    ∃ cfg s i, configFrom env f = .ok cfg ∧ settingsFrom env cfg (getOverlaps c) = .ok s ∧
      getInputType env cfg c = .ok i ∧ e = mkEffective cfg s i := by
  unfold effective at h
  split at h
  · cases h
  · rename_i hn
    split at h
    · cases h
    · rename_i hc
      split at h
      · cases h
      · cases h
      · rename_i cfg hcfg
        split at h
        · cases h
        · cases h
        · rename_i s hs
          split at h
          · cases h
          · cases h
          · rename_i i hi
            cases h
            exact ⟨by simpa using hn, by simpa using hc, cfg, s, i, hcfg, hs, hi, rfl⟩

end C19
end Tackler

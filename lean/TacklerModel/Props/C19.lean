import TacklerModel.Model.Config
/-!
# C19 — command-line options override the configuration file key by key

All statements are about `Config.effective env file cli`, the transliteration of the configuration
path of the `tackler` binary (see the table in `Model/Config.lean`), for **all** file values, option
sets and environments.  The model is the tree with the fixes F15, F23, F24, F25 applied; the behaviour of
the pinned tree at those points is kept below as `*_pinned` definitions with witnesses.

`namesSimple file cli` is the domain in which identifier validity (library code) is known; outside it
`effective` answers `undef` and nothing is claimed.
-/
namespace Tackler
namespace C19
open Config

/-! ### inversion lemmas: what an accepted run went through -/

theorem mapParse_ok_iff {α} (p : String → Option α) (l : List String) (r : List α) :
    mapParse p l = .ok r ↔ l.map p = r.map some := by
  induction l generalizing r with
  | nil => cases r <;> simp [mapParse]
  | cons s t ih =>
    simp only [mapParse]
    cases hp : p s with
    | none => cases r <;> simp [hp]
    | some a =>
      cases ht : mapParse p t with
      | ok l' =>
        have := (ih l').mp ht
        cases r with
        | nil => simp
        | cons b r' =>
          simp only [Outcome.ok.injEq, List.cons.injEq, List.map_cons, hp, Option.some.injEq]
          constructor
          · rintro ⟨rfl, rfl⟩; exact ⟨rfl, this⟩
          · rintro ⟨rfl, h⟩
            refine ⟨rfl, ?_⟩
            have h2 := (ih r').mpr h
            rw [ht] at h2; cases h2; rfl
      | err =>
        cases r with
        | nil => simp
        | cons b r' =>
          simp only [List.map_cons, hp, List.cons.injEq, Option.some.injEq, reduceCtorEq, false_iff, not_and]
          intro _ h
          have h2 := (ih r').mpr h
          rw [ht] at h2; cases h2
      | undef =>
        cases r with
        | nil => simp
        | cons b r' =>
          simp only [List.map_cons, hp, List.cons.injEq, Option.some.injEq, reduceCtorEq, false_iff, not_and]
          intro _ h
          have h2 := (ih r').mpr h
          rw [ht] at h2; cases h2

theorem mapParse_ne_undef {α} (p : String → Option α) (l : List String) : mapParse p l ≠ .undef := by
  induction l with
  | nil => simp [mapParse]
  | cons s t ih =>
    simp only [mapParse]
    cases p s with
    | none => simp
    | some a =>
      cases ht : mapParse p t with
      | ok l' => simp
      | err => simp
      | undef => exact absurd ht ih

/-- `Config::from` accepted the file: every raw value parsed, and the typed configuration is the raw one -/
theorem configFrom_ok {env : Env} {f : FileCfg} {cfg : Cfg} (h : configFrom env f = .ok cfg) :
    ∃ st g db lt rts gb ets,
      Storage.parse f.storage = some st ∧ gitOptFrom f.git = .ok g ∧ priceFrom env f.price = .ok (db, lt) ∧
      toReportTargets f.targets = .ok rts ∧ GroupBy.parse f.groupBy = some gb ∧
      toExportTargets f.exportTargets = .ok ets ∧
      cfg = { strict := f.strict, audit := f.audit, storage := st, fs := f.fs.map fsFrom, git := g,
              dbPath := db, lookup := lt, accounts := f.accounts, commodities := f.commodities,
              permitEmpty := f.permitEmpty, targets := rts, commodity := f.commodity,
              selBalance := selFrom f.selBalance f.selGlobal, selBalGrp := selFrom f.selBalGrp f.selGlobal,
              selRegister := selFrom f.selRegister f.selGlobal, groupBy := gb, exportTargets := ets,
              equityAccount := f.equityAccount, selEquity := selFrom f.selEquity f.selGlobal } := by
  unfold configFrom at h
  split at h
  · rename_i st g db lt rts gb ets h1 h2 h3 h4 h5 h6
    cases h
    exact ⟨st, g, db, lt, rts, gb, ets, h1, h2, h3, h4, h5, h6, rfl⟩
  · cases h

theorem configFrom_ne_undef (env : Env) (f : FileCfg) : configFrom env f ≠ .undef := by
  unfold configFrom
  split <;> simp

/-- `Settings::try_from` succeeded: every overlaid value and every consistency check on the way -/
theorem settingsFrom_ok {env : Env} {cfg : Cfg} {ov : Overlaps} {s : Sett} (h : settingsFrom env cfg ov = .ok s) :
    ∃ pl, reportsOf cfg ov.reports = .ok s.reports ∧ exportsOf cfg ov.exports = .ok s.exports ∧
      lookupOf cfg ov.lookupType = .ok s.lookup ∧
      reportCommodityOf cfg (ov.strictMode.getD cfg.strict) ov.commodity = .ok s.commodity ∧
      groupByOf cfg ov.groupBy = .ok s.groupBy ∧
      priceLookupFrom env s.lookup ov.beforeTime = .ok pl ∧ s.priceLookup = pl ∧
      s.strict = ov.strictMode.getD cfg.strict ∧ s.audit = ov.auditMode.getD cfg.audit ∧
      s.globalAccSel = ov.accountOverlap ∧
      ¬ (s.strict = true ∧ ExportT.equity ∈ s.exports ∧ cfg.equityAccount ∉ cfg.accounts) ∧
      (s.commodity = none → s.lookup = .none) ∧
      (s.lookup = .none → s.priceDb = none) ∧
      (s.lookup ≠ .none → s.priceDb = some (dbPathOf env cfg ov.dbPath) ∧
          env.dbOk (dbPathOf env cfg ov.dbPath) s.strict = true) := by
  unfold settingsFrom at h
  split at h
  · rename_i reports exports lt rc gb h1 h2 h3 h4 h5
    split at h
    · cases h
    · rename_i hg1
      split at h
      · cases h
      · rename_i hg2
        split at h
        · rename_i pl hpl
          split at h
          · rename_i hlt
            cases h
            refine ⟨pl, h1, h2, h3, h4, h5, hpl, rfl, rfl, rfl, rfl, ?_, ?_, ?_, ?_⟩
            · simpa using hg1
            · intro hrc; simp at hg2; exact hg2 hrc
            · intro _; rfl
            · intro hne; exact absurd hlt hne
          · rename_i hlt
            split at h
            · rename_i hdb
              cases h
              refine ⟨pl, h1, h2, h3, h4, h5, hpl, rfl, rfl, rfl, rfl, ?_, ?_, ?_, ?_⟩
              · simpa using hg1
              · intro hrc; simp at hg2; exact hg2 hrc
              · intro h0; exact absurd h0 hlt
              · intro _; exact ⟨rfl, hdb⟩
            · cases h
        · cases h
        · cases h
  · cases h

/-- an accepted run: clap, `Config::from`, `Settings::try_from`, `get_input_type` all succeeded -/
theorem effective_ok {env : Env} {f : FileCfg} {c : CliOpts} {e : Effective} (h : effective env f c = .ok e) :
    namesSimple f c = true ∧ clapAccepts c = true ∧
    ∃ cfg s i, configFrom env f = .ok cfg ∧ settingsFrom env cfg (getOverlaps c) = .ok s ∧
      getInputType env cfg c = .ok i ∧ e = mkEffective cfg s i := by
  unfold effective at h
  split at h
  · cases h
  · rename_i hn
    split at h
    · cases h
    · rename_i hc
      split at h
      · cases h
      · cases h
      · rename_i cfg hcfg
        split at h
        · cases h
        · cases h
        · rename_i s hs
          split at h
          · cases h
          · cases h
          · rename_i i hi
            cases h
            exact ⟨by simpa using hn, by simpa using hc, cfg, s, i, hcfg, hs, hi, rfl⟩

/-! ### `cli_wins`: a present option decides its key -/

/-- For every overridable key: if the option is present, the effective value is the option's value
    (for target lists, lookup type and group-by: its parsed form; for the price file: the path as the OS
    resolves it, whenever a price file is read at all). -/
theorem cli_wins {env : Env} {f : FileCfg} {c : CliOpts} {e : Effective} (h : effective env f c = .ok e) :
    (∀ v, c.strict = some v → e.strict = v) ∧
    (∀ v, c.audit = some v → e.audit = v) ∧
    (∀ v, c.reports = some v → toReportTargets v = .ok e.reports) ∧
    (∀ v, c.exports = some v → toExportTargets v = .ok e.exports) ∧
    (∀ v, c.reportCommodity = some v → e.commodity = some v) ∧
    (∀ v, c.lookupType = some v → Lookup.parse v = some e.lookup) ∧
    (∀ v, c.pricedb = some v → e.lookup ≠ .none → e.priceDb = some (atCwd env v)) ∧
    (∀ v, c.groupBy = some v → GroupBy.parse v = some e.groupBy) := by
  obtain ⟨_, _, cfg, s, i, hcfg, hs, hi, rfl⟩ := effective_ok h
  obtain ⟨pl, h1, h2, h3, h4, h5, h6, h7, h8, h9, h10, h11, h12, h13, h14⟩ := settingsFrom_ok hs
  simp only [getOverlaps] at h1 h2 h3 h4 h5 h8 h9 h14
  refine ⟨?_, ?_, ?_, ?_, ?_, ?_, ?_, ?_⟩
  · intro v hv; simp [mkEffective, h8, hv]
  · intro v hv; simp [mkEffective, h9, hv]
  · intro v hv; simpa [mkEffective, reportsOf, hv] using h1
  · intro v hv; simpa [mkEffective, exportsOf, hv] using h2
  · intro v hv
    simp only [mkEffective]
    simp only [reportCommodityOf, hv] at h4
    split at h4
    · rename_i n l hn
      have h4 := Outcome.ok.inj h4
      rw [← h4]
      unfold innerGetOrCreateCommodity at hn
      (repeat' split at hn) <;> first | (cases hn; done) | (cases hn; rfl)
    · cases h4
    · cases h4
  · intro v hv
    simp only [mkEffective]
    simp only [lookupOf, hv] at h3
    split at h3
    · rename_i lt hlt; cases h3; exact hlt
    · cases h3
  · intro v hv hne
    simp only [mkEffective] at hne ⊢
    have := (h14 hne).1
    simpa [dbPathOf, hv] using this
  · intro v hv
    simp only [mkEffective]
    simp only [groupByOf, hv] at h5
    split at h5
    · rename_i g hg; cases h5; exact hg
    · cases h5

/-! ### `file_applies`: an absent option leaves the key to the file -/

theorem file_applies {env : Env} {f : FileCfg} {c : CliOpts} {e : Effective} (h : effective env f c = .ok e) :
    (c.strict = none → e.strict = f.strict) ∧
    (c.audit = none → e.audit = f.audit) ∧
    (c.reports = none → toReportTargets f.targets = .ok e.reports) ∧
    (c.exports = none → toExportTargets f.exportTargets = .ok e.exports) ∧
    (c.reportCommodity = none → e.commodity = f.commodity) ∧
    (c.lookupType = none → ∃ db, priceFrom env f.price = .ok (db, e.lookup)) ∧
    (c.pricedb = none → e.lookup ≠ .none → ∃ lt, priceFrom env f.price = .ok (e.priceDb.getD "", lt) ∧ e.priceDb.isSome) ∧
    (c.groupBy = none → GroupBy.parse f.groupBy = some e.groupBy) := by
  obtain ⟨_, _, cfg, s, i, hcfg, hs, hi, rfl⟩ := effective_ok h
  obtain ⟨pl, h1, h2, h3, h4, h5, h6, h7, h8, h9, h10, h11, h12, h13, h14⟩ := settingsFrom_ok hs
  obtain ⟨st, g, db, lt, rts, gb, ets, c1, c2, c3, c4, c5, c6, rfl⟩ := configFrom_ok hcfg
  simp only [getOverlaps] at h1 h2 h3 h4 h5 h8 h9 h14
  refine ⟨?_, ?_, ?_, ?_, ?_, ?_, ?_, ?_⟩
  · intro hv; simp [mkEffective, h8, hv]
  · intro hv; simp [mkEffective, h9, hv]
  · intro hv
    simp only [reportsOf, hv, Outcome.ok.injEq] at h1
    simp only [mkEffective]; rw [← h1]; exact c4
  · intro hv
    simp only [exportsOf, hv, Outcome.ok.injEq] at h2
    simp only [mkEffective]; rw [← h2]; exact c6
  · intro hv
    simp only [mkEffective]
    simp only [reportCommodityOf, hv] at h4
    split at h4
    · rename_i hc; have h4 := Outcome.ok.inj h4; rw [← h4]; exact hc.symm
    · rename_i n hc
      split at h4
      · rename_i m l hn
        have h4 := Outcome.ok.inj h4
        rw [hc, ← h4]
        unfold innerGetOrCreateCommodity at hn
        (repeat' split at hn) <;> first | (cases hn; done) | (cases hn; rfl)
      · cases h4
      · cases h4
  · intro hv
    simp only [lookupOf, hv, Outcome.ok.injEq] at h3
    simp only [mkEffective]; rw [← h3]; exact ⟨db, c3⟩
  · intro hv hne
    simp only [mkEffective] at hne ⊢
    have := (h14 hne).1
    simp only [dbPathOf, hv] at this
    rw [this]; exact ⟨lt, by simpa using c3, rfl⟩
  · intro hv
    simp only [groupByOf, hv, Outcome.ok.injEq] at h5
    simp only [mkEffective]; rw [← h5]; exact c5

/-! ### `selectors` -/

/-- the documented rule: the command-line list (its empty patterns dropped: `--accounts ""` is the empty
    list) replaces everything; otherwise the per-report list; otherwise `report.accounts`; otherwise empty -/
def selSpec (cli : Option (List String)) (own global : Option (List String)) : List String :=
  match cli with
  | some l => l.filter (fun s => s ≠ "")
  | none => own.getD (global.getD [])

theorem selectors {env : Env} {f : FileCfg} {c : CliOpts} {e : Effective} (h : effective env f c = .ok e) :
    e.selBalance = selSpec c.accounts f.selBalance f.selGlobal ∧
    e.selBalGrp = selSpec c.accounts f.selBalGrp f.selGlobal ∧
    e.selRegister = selSpec c.accounts f.selRegister f.selGlobal ∧
    e.selEquity = selSpec c.accounts f.selEquity f.selGlobal := by
  obtain ⟨_, _, cfg, s, i, hcfg, hs, hi, rfl⟩ := effective_ok h
  obtain ⟨pl, h1, h2, h3, h4, h5, h6, h7, h8, h9, h10, _⟩ := settingsFrom_ok hs
  obtain ⟨st, g, db, lt, rts, gb, ets, c1, c2, c3, c4, c5, c6, rfl⟩ := configFrom_ok hcfg
  simp only [getOverlaps, accountOverlapOf] at h10
  have key : ∀ own : Option (List String),
      getAccountSelector s (selFrom own f.selGlobal) = selSpec c.accounts own f.selGlobal := by
    intro own
    unfold getAccountSelector selSpec selFrom
    rw [h10]
    cases c.accounts <;> cases own <;> cases f.selGlobal <;> rfl
  exact ⟨key _, key _, key _, key _⟩

/-- the command-line list replaces the global, every per-report and the equity selector -/
theorem selectors_cli_replaces_all {env : Env} {f : FileCfg} {c : CliOpts} {e : Effective} {l : List String}
    (h : effective env f c = .ok e) (hc : c.accounts = some l) :
    e.selBalance = l.filter (fun s => s ≠ "") ∧ e.selBalGrp = l.filter (fun s => s ≠ "") ∧
    e.selRegister = l.filter (fun s => s ≠ "") ∧ e.selEquity = l.filter (fun s => s ≠ "") := by
  obtain ⟨h1, h2, h3, h4⟩ := selectors h
  simp only [selSpec, hc] at h1 h2 h3 h4
  exact ⟨h1, h2, h3, h4⟩

/-- the documented empty selector: `--accounts ""` selects all accounts in every report and in the equity export -/
theorem selectors_empty_means_all {env : Env} {f : FileCfg} {c : CliOpts} {e : Effective}
    (h : effective env f c = .ok e) (hc : c.accounts = some [""]) :
    selectsAll e.selBalance = true ∧ selectsAll e.selBalGrp = true ∧
    selectsAll e.selRegister = true ∧ selectsAll e.selEquity = true := by
  obtain ⟨h1, h2, h3, h4⟩ := selectors_cli_replaces_all h hc
  rw [h1, h2, h3, h4]; decide

/-- in the file, a per-report selector overrides the global one (and the global one applies where there is none) -/
theorem selectors_per_report_over_global {env : Env} {f : FileCfg} {c : CliOpts} {e : Effective}
    (h : effective env f c = .ok e) (hc : c.accounts = none) :
    (∀ l, f.selBalance = some l → e.selBalance = l) ∧ (f.selBalance = none → e.selBalance = f.selGlobal.getD []) ∧
    (∀ l, f.selBalGrp = some l → e.selBalGrp = l) ∧ (f.selBalGrp = none → e.selBalGrp = f.selGlobal.getD []) ∧
    (∀ l, f.selRegister = some l → e.selRegister = l) ∧ (f.selRegister = none → e.selRegister = f.selGlobal.getD []) ∧
    (∀ l, f.selEquity = some l → e.selEquity = l) ∧ (f.selEquity = none → e.selEquity = f.selGlobal.getD []) := by
  obtain ⟨h1, h2, h3, h4⟩ := selectors h
  simp only [selSpec, hc] at h1 h2 h3 h4
  refine ⟨?_, ?_, ?_, ?_, ?_, ?_, ?_, ?_⟩ <;> intros <;> simp_all

/-! ### `input_choice`: which input wins -/

/-- the selector given on the command line (`--input.git.commit` | `--input.git.ref`) -/
def gitSelSpec (c : CliOpts) : Option GitSel :=
  match c.inputGitCommit, c.inputGitRef with
  | some k, _ => some (.commitId k)
  | none, some r => some (.reference r)
  | none, none => none

/-- the file's storage of the named type: `fs` = `[path/]dir` + suffix, `git` = `repo` (else the old key
    `repository`) + dir + `ref` (or the given selector) + suffix; paths relative to the configuration file,
    one leading `.` of the suffix dropped -/
def fileInputSpec (env : Env) (f : FileCfg) (storage : String) (sel : Option GitSel) : Option Input :=
  match Storage.parse storage with
  | some .fs => f.fs.map fun r => .fs (getAbsPath env (fsFrom r).1) (stripDot r.suffix)
  | some .git =>
    match f.git with
    | none => none
    | some g =>
      match g.repo, g.repository with
      | some repo, _ => some (.git (getAbsPath env repo) g.dir (sel.getD (.reference g.ref)) (stripDot g.suffix))
      | none, some repo => some (.git (getAbsPath env repo) g.dir (sel.getD (.reference g.ref)) (stripDot g.suffix))
      | none, none => none
  | none => none

/-- the table: `--input.file` | `--input.fs.dir`+`ext` | `--input.git.repository`+`dir`+`ref|commit` |
    `ref|commit` alone (the file's git storage at that revision) | `--input.storage` | nothing (the file's storage) -/
def inputSpec (env : Env) (f : FileCfg) (c : CliOpts) : Option Input :=
  match c.inputFile with
  | some p => some (.file (atCwd env p))
  | none =>
    match c.inputFsDir, c.inputFsExt with
    | some d, some x => some (.fs (atCwd env d) (stripDot x))
    | some _, none => none
    | none, _ =>
      match c.inputGitRepo, c.inputGitDir with
      | some r, some d => (gitSelSpec c).map fun sel => .git (atCwd env r) d sel "txn"
      | some _, none => none
      | none, _ =>
        match gitSelSpec c with
        | some sel => fileInputSpec env f "git" (some sel)
        | none => fileInputSpec env f (c.inputStorage.getD f.storage) none

theorem inputOfStorage_spec {env : Env} {f : FileCfg} {cfg : Cfg} {i : Input}
    (hcfg : configFrom env f = .ok cfg) (name : String) (st : Storage) (hst : Storage.parse name = some st)
    (h : inputOfStorage env cfg st = .ok i) :
    fileInputSpec env f name none = some i := by
  obtain ⟨st0, g, db, lt, rts, gb, ets, c1, c2, c3, c4, c5, c6, rfl⟩ := configFrom_ok hcfg
  unfold fileInputSpec
  rw [hst]
  unfold inputOfStorage at h
  cases st with
  | fs =>
    simp only at h ⊢
    cases hfs : f.fs with
    | none => simp [hfs] at h
    | some r =>
      simp only [hfs, Option.map_some] at h ⊢
      cases h
      simp [fsFrom]
      cases r.path <;> rfl
  | git =>
    simp only at h ⊢
    unfold gitOptFrom at c2
    cases hg : f.git with
    | none => simp [hg] at c2; cases c2; simp at h
    | some r =>
      simp only [hg] at c2
      unfold gitFrom at c2
      cases hr : r.repo with
      | some x =>
        simp only [hr] at c2; cases c2
        simp at h; cases h; simp [hr]
      | none =>
        cases hr2 : r.repository with
        | some x =>
          simp only [hr, hr2] at c2; cases c2
          simp at h; cases h; simp [hr, hr2]
        | none => simp [hr, hr2] at c2

theorem getInputSettings_spec {env : Env} {f : FileCfg} {cfg : Cfg} {i : Input}
    (hcfg : configFrom env f = .ok cfg) (storage : Option String)
    (h : getInputSettings env cfg storage = .ok i) :
    fileInputSpec env f (storage.getD f.storage) none = some i := by
  have hcfg' := hcfg
  obtain ⟨st0, g, db, lt, rts, gb, ets, c1, c2, c3, c4, c5, c6, hc⟩ := configFrom_ok hcfg
  unfold getInputSettings storageTypeOf at h
  cases storage with
  | none =>
    simp only [Option.getD_none] at h ⊢
    have hs : cfg.storage = st0 := by rw [hc]
    rw [hs] at h
    exact inputOfStorage_spec hcfg' f.storage st0 c1 h
  | some s =>
    simp only [Option.getD_some] at h ⊢
    cases hp : Storage.parse s with
    | none => simp [hp] at h
    | some st =>
      rw [hp] at h
      exact inputOfStorage_spec hcfg' s st hp h

theorem getGitSelector_spec {c : CliOpts} {gs : Option GitSel} (h : getGitSelector c = .ok gs) :
    gitSelSpec c = gs := by
  unfold getGitSelector at h
  unfold gitSelSpec
  cases hk : c.inputGitCommit <;> cases hr : c.inputGitRef <;> simp only [hk, hr] at h ⊢ <;> cases h <;> rfl

theorem fileInputSpec_git_sel {env : Env} {f : FileCfg} {i : Input} (sel : GitSel)
    (h : fileInputSpec env f "git" none = some i) :
    ∃ repo dir s0 ext, i = .git repo dir s0 ext ∧
      fileInputSpec env f "git" (some sel) = some (.git repo dir sel ext) := by
  unfold fileInputSpec at h ⊢
  have hp : Storage.parse "git" = some .git := by decide
  rw [hp] at h ⊢
  simp only at h ⊢
  cases hg : f.git with
  | none => simp [hg] at h
  | some g =>
    simp only [hg] at h ⊢
    cases hr : g.repo with
    | some x => simp only [hr] at h ⊢; cases h; exact ⟨_, _, _, _, rfl, rfl⟩
    | none =>
      cases hr2 : g.repository with
      | some x => simp only [hr, hr2] at h ⊢; cases h; exact ⟨_, _, _, _, rfl, rfl⟩
      | none => simp [hr, hr2] at h

theorem getInputType_spec {env : Env} {f : FileCfg} {c : CliOpts} {cfg : Cfg} {i : Input}
    (hcfg : configFrom env f = .ok cfg) (hi : getInputType env cfg c = .ok i) :
    inputSpec env f c = some i := by
  unfold getInputType at hi
  cases hsel : getGitSelector c with
  | err => rw [hsel] at hi; cases hi
  | undef => rw [hsel] at hi; cases hi
  | ok gs =>
    have hgs := getGitSelector_spec hsel
    rw [hsel] at hi
    simp only at hi
    unfold inputSpec
    cases hf : c.inputFile with
    | some p => simp only [hf] at hi ⊢; cases hi; rfl
    | none =>
      simp only [hf] at hi ⊢
      cases hd : c.inputFsDir with
      | some d =>
        cases hx : c.inputFsExt with
        | some x => simp only [hd, hx] at hi ⊢; cases hi; rfl
        | none => simp only [hd, hx] at hi; cases hi
      | none =>
        simp only [hd] at hi ⊢
        cases hrepo : c.inputGitRepo with
        | some r =>
          cases hdir : c.inputGitDir with
          | some d =>
            simp only [hrepo, hdir] at hi ⊢
            rw [hgs]
            cases gs with
            | some sel => simp only at hi; cases hi; rfl
            | none => simp only at hi; cases hi
          | none =>
            simp only [hrepo, hdir] at hi
            cases gs <;> (try simp only at hi) <;> cases hi
        | none =>
          simp only [hrepo] at hi ⊢
          rw [hgs]
          cases gs with
          | none => exact getInputSettings_spec hcfg _ hi
          | some sel =>
            try simp only at hi ⊢
            cases hg : getInputSettings env cfg (some "git") with
            | err => rw [hg] at hi; cases hi
            | undef => rw [hg] at hi; cases hi
            | ok i0 =>
              have h0 := getInputSettings_spec hcfg (some "git") hg
              simp only [Option.getD_some] at h0
              obtain ⟨repo, dir, s0, ext, rfl, hsp⟩ := fileInputSpec_git_sel sel h0
              rw [hg] at hi
              simp only at hi
              cases hi
              exact hsp

theorem input_choice {env : Env} {f : FileCfg} {c : CliOpts} {e : Effective} (h : effective env f c = .ok e) :
    inputSpec env f c = some e.input := by
  obtain ⟨_, hclap, cfg, s, i, hcfg, hs, hi, rfl⟩ := effective_ok h
  exact getInputType_spec hcfg hi

/-! ### `contradictions`: what is rejected -/

/-- option sets excluded by the declared clap attributes (exit status 2) -/
inductive Rejected (c : CliOpts) : Prop where
  | file_with_storage : c.inputFile.isSome = true → c.inputStorage.isSome = true → Rejected c
  | file_with_fs : c.inputFile.isSome = true → fsAny c = true → Rejected c
  | file_with_git : c.inputFile.isSome = true → gitAny c = true → Rejected c
  | storage_with_fs : c.inputStorage.isSome = true → fsAny c = true → Rejected c
  | storage_with_git : c.inputStorage.isSome = true → gitAny c = true → Rejected c
  | fs_with_git : fsAny c = true → gitAny c = true → Rejected c
  | fs_dir_without_ext : c.inputFsDir.isSome = true → c.inputFsExt = none → Rejected c
  | fs_ext_without_dir : c.inputFsExt.isSome = true → c.inputFsDir = none → Rejected c
  | git_repo_without_dir : c.inputGitRepo.isSome = true → c.inputGitDir = none → Rejected c
  | git_repo_without_revision : c.inputGitRepo.isSome = true → c.inputGitRef = none → c.inputGitCommit = none → Rejected c
  | git_dir_without_repo : c.inputGitDir.isSome = true → c.inputGitRepo = none → Rejected c
  | git_ref_and_commit : c.inputGitRef.isSome = true → c.inputGitCommit.isSome = true → Rejected c
  | bad_storage (s : String) : c.inputStorage = some s → Storage.parse s = none → Rejected c
  | bad_report (l : List String) (s : String) : c.reports = some l → s ∈ l → ReportT.parse s = none → Rejected c
  | bad_export (l : List String) (s : String) : c.exports = some l → s ∈ l → ExportT.parse s = none → Rejected c
  | bad_group_by (s : String) : c.groupBy = some s → GroupBy.parse s = none → Rejected c
  | bad_lookup (s : String) : c.lookupType = some s → Lookup.parse s = none → Rejected c
  | no_reports : c.reports = some [] → Rejected c
  | no_exports : c.exports = some [] → Rejected c
  | no_accounts : c.accounts = some [] → Rejected c

theorem Storage.parse_none {s : String} (h : Storage.parse s = none) : s ≠ "fs" ∧ s ≠ "git" := by
  unfold Storage.parse at h
  (repeat' split at h) <;> simp_all

theorem ReportT.parse_none {s : String} (h : ReportT.parse s = none) :
    s ≠ "register" ∧ s ≠ "balance" ∧ s ≠ "balance-group" := by
  unfold ReportT.parse at h
  (repeat' split at h) <;> simp_all

theorem ExportT.parse_none {s : String} (h : ExportT.parse s = none) : s ≠ "identity" ∧ s ≠ "equity" := by
  unfold ExportT.parse at h
  (repeat' split at h) <;> simp_all

theorem GroupBy.parse_none {s : String} (h : GroupBy.parse s = none) :
    s ≠ "year" ∧ s ≠ "month" ∧ s ≠ "date" ∧ s ≠ "iso-week" ∧ s ≠ "iso-week-date" := by
  unfold GroupBy.parse at h
  (repeat' split at h) <;> simp_all

theorem rejected_clap {c : CliOpts} (h : Rejected c) : clapAccepts c = false := by
  unfold clapAccepts
  cases h with
  | file_with_storage h1 h2 => simp [clapConflicts, h1, h2]
  | file_with_fs h1 h2 => simp [clapConflicts, h1, h2]
  | file_with_git h1 h2 => simp [clapConflicts, h1, h2]
  | storage_with_fs h1 h2 => simp [clapConflicts, h1, h2]
  | storage_with_git h1 h2 => simp [clapConflicts, h1, h2]
  | fs_with_git h1 h2 =>
    unfold fsAny at h1
    cases hd : c.inputFsDir with
    | some d => simp [clapConflicts, hd, h2]
    | none =>
      simp only [hd, Option.isSome_none, Bool.false_or] at h1
      simp [clapRequires, hd, h1]
  | fs_dir_without_ext h1 h2 => simp [clapRequires, h1, h2]
  | fs_ext_without_dir h1 h2 => simp [clapRequires, h1, h2]
  | git_repo_without_dir h1 h2 => simp [clapRequires, h1, h2]
  | git_repo_without_revision h1 h2 h3 => simp [clapRequires, h1, h2, h3]
  | git_dir_without_repo h1 h2 => simp [clapRequires, h1, h2]
  | git_ref_and_commit h1 h2 => simp [clapConflicts, h1, h2]
  | bad_storage s h1 h2 =>
    obtain ⟨n1, n2⟩ := Storage.parse_none h2
    simp [clapValues, inSet, h1, n1, n2]
  | bad_report l s h1 h2 h3 =>
    obtain ⟨n1, n2, n3⟩ := ReportT.parse_none h3
    have hall : l.all (["register", "balance", "balance-group"].contains) = false := by
      rw [List.all_eq_false]; exact ⟨s, h2, by simp [n1, n2, n3]⟩
    simp [clapValues, listIn, h1, hall]
  | bad_export l s h1 h2 h3 =>
    obtain ⟨n1, n2⟩ := ExportT.parse_none h3
    have hall : l.all (["identity", "equity"].contains) = false := by
      rw [List.all_eq_false]; exact ⟨s, h2, by simp [n1, n2]⟩
    simp [clapValues, listIn, h1, hall]
  | bad_group_by s h1 h2 =>
    obtain ⟨n1, n2, n3, n4, n5⟩ := GroupBy.parse_none h2
    simp [clapValues, inSet, h1, n1, n2, n3, n4, n5]
  | bad_lookup s h1 h2 => simp [clapValues, h1, h2]
  | no_reports h1 => simp [clapValues, listIn, h1]
  | no_exports h1 => simp [clapValues, listIn, h1]
  | no_accounts h1 => simp [clapValues, h1]

theorem getInputSettings_ne_undef (env : Env) (cfg : Cfg) (st : Option String) :
    getInputSettings env cfg st ≠ .undef := by
  unfold getInputSettings inputOfStorage
  (repeat' split) <;> simp

/-- the `expect`s / `panic!` of `get_input_type` are excluded by the clap attributes -/
theorem getInputType_ne_undef {env : Env} {cfg : Cfg} {c : CliOpts} (hclap : clapAccepts c = true) :
    getInputType env cfg c ≠ .undef := by
  intro hu
  unfold clapAccepts at hclap
  simp only [Bool.and_eq_true, Bool.not_eq_true'] at hclap
  obtain ⟨⟨_, hconf⟩, hreq⟩ := hclap
  unfold clapConflicts at hconf
  unfold clapRequires at hreq
  unfold getInputType at hu
  cases hsel : getGitSelector c with
  | err => rw [hsel] at hu; cases hu
  | undef =>
    unfold getGitSelector at hsel
    cases hk : c.inputGitCommit <;> cases hr : c.inputGitRef <;> simp only [hk, hr] at hsel <;> try (cases hsel; done)
    simp [hk, hr] at hconf
  | ok gs =>
    have hgs := getGitSelector_spec hsel
    rw [hsel] at hu
    simp only at hu
    cases hf : c.inputFile with
    | some p => simp only [hf] at hu; cases hu
    | none =>
      simp only [hf] at hu
      cases hd : c.inputFsDir with
      | some d =>
        cases hx : c.inputFsExt with
        | some x => simp only [hd, hx] at hu; cases hu
        | none => simp [hd, hx] at hreq
      | none =>
        simp only [hd] at hu
        cases hrepo : c.inputGitRepo with
        | some r =>
          cases hdir : c.inputGitDir with
          | none => simp [hrepo, hdir] at hreq
          | some d =>
            cases gs with
            | some sel => simp only [hrepo, hdir] at hu; cases hu
            | none =>
              unfold gitSelSpec at hgs
              cases hk : c.inputGitCommit <;> cases hr : c.inputGitRef <;> simp only [hk, hr] at hgs <;>
                try (cases hgs; done)
              simp [hrepo, hdir, hk, hr] at hreq
        | none =>
          simp only [hrepo] at hu
          cases gs with
          | none => simp only at hu; exact getInputSettings_ne_undef _ _ _ hu
          | some sel =>
            simp only at hu
            cases hg : getInputSettings env cfg (some "git") with
            | undef => exact getInputSettings_ne_undef _ _ _ hg
            | err => rw [hg] at hu; cases hu
            | ok i0 => rw [hg] at hu; cases i0 <;> simp only at hu <;> cases hu

theorem settingsFrom_ne_undef (env : Env) (cfg : Cfg) (ov : Overlaps) : settingsFrom env cfg ov ≠ .undef := by
  intro hu
  unfold settingsFrom at hu
  (repeat' split at hu) <;> try (cases hu; done)
  rename_i hpl
  unfold priceLookupFrom at hpl
  (repeat' split at hpl) <;> cases hpl

/-- inside the domain of the model every run is accepted or rejected: no `undef` -/
theorem no_undef {env : Env} {f : FileCfg} {c : CliOpts} (hdom : namesSimple f c = true) :
    effective env f c ≠ .undef := by
  intro h
  unfold effective at h
  simp only [hdom, Bool.not_true, Bool.false_eq_true, ↓reduceIte] at h
  split at h
  · cases h
  · rename_i hclap
    split at h
    · cases h
    · rename_i hu; exact configFrom_ne_undef _ _ hu
    · rename_i cfg hcfg
      split at h
      · cases h
      · rename_i hu; exact settingsFrom_ne_undef _ _ _ hu
      · split at h
        · cases h
        · rename_i hu; exact getInputType_ne_undef (by simpa using hclap) hu
        · cases h

theorem innerGetOrCreateCommodity_ok {comms : List String} {pe strict : Bool} {x m : String} {l : List String}
    (h : innerGetOrCreateCommodity comms pe strict x = .ok (m, l)) :
    m = x ∧ (strict = true → x ≠ "" → x ∈ comms) := by
  unfold innerGetOrCreateCommodity at h
  (repeat' split at h) <;> first | (cases h; done) | (cases h; simp_all)

/-- in strict mode the report commodity (from either source) must be a declared commodity -/
theorem reportCommodityOf_strict {cfg : Cfg} {ov : Option String} {n : String}
    (h : reportCommodityOf cfg true ov = .ok (some n)) (hne : n ≠ "") : n ∈ cfg.commodities := by
  unfold reportCommodityOf at h
  (repeat' split at h) <;> try (cases h; done)
  all_goals
    rename_i m l hx
    have h := Outcome.ok.inj h
    cases h
    obtain ⟨rfl, hin⟩ := innerGetOrCreateCommodity_ok hx
    exact hin rfl hne

theorem priceLookupFrom_ok {env : Env} {lt : Lookup} {given : Option String} {pl : PriceLookup}
    (h : priceLookupFrom env lt given = .ok pl) :
    (given.isSome = true ↔ lt = .givenTime) ∧
    (∀ ts, given = some ts → env.tsOk ts = true ∧ pl = .givenTime ts) := by
  cases lt <;> cases given <;> simp [priceLookupFrom] at h ⊢
  split at h
  · rename_i hts; cases h; exact ⟨hts, rfl⟩
  · cases h

/-- what every accepted run satisfies: the consistency rules of `Settings::try_from` -/
theorem accepted_consistent {env : Env} {f : FileCfg} {c : CliOpts} {e : Effective} (h : effective env f c = .ok e) :
    (c.priceBefore.isSome = true ↔ e.lookup = .givenTime) ∧
    (∀ ts, c.priceBefore = some ts → env.tsOk ts = true ∧ e.priceLookup = .givenTime ts) ∧
    (e.lookup ≠ .none → e.commodity.isSome = true ∧ ∃ p, e.priceDb = some p ∧ env.dbOk p e.strict = true) ∧
    (e.strict = true → ExportT.equity ∈ e.exports → f.equityAccount ∈ f.accounts) ∧
    (e.strict = true → ∀ n, e.commodity = some n → n ∈ f.commodities) := by
  obtain ⟨hsimple, _, cfg, s, i, hcfg, hs, hi, rfl⟩ := effective_ok h
  obtain ⟨pl, h1, h2, h3, h4, h5, h6, h7, h8, h9, h10, h11, h12, h13, h14⟩ := settingsFrom_ok hs
  obtain ⟨st, g, db, lt, rts, gb, ets, c1, c2, c3, c4, c5, c6, rfl⟩ := configFrom_ok hcfg
  simp only [getOverlaps] at h4 h6 h8
  simp only [mkEffective]
  refine ⟨(priceLookupFrom_ok h6).1, ?_, ?_, ?_, ?_⟩
  · intro ts hts
    obtain ⟨a, b⟩ := (priceLookupFrom_ok h6).2 ts hts
    exact ⟨a, h7.trans b⟩
  · intro hne
    refine ⟨?_, _, (h14 hne).1, (h14 hne).2⟩
    cases hc : s.commodity with
    | none => exact absurd (h12 hc) hne
    | some _ => rfl
  · intro hst heq
    by_cases hm : f.equityAccount ∈ f.accounts
    · exact hm
    · exact absurd ⟨hst, heq, hm⟩ h11
  · intro hst n hn
    rw [h8] at hst
    rw [hst, hn] at h4
    have hsrc : c.reportCommodity = some n ∨ (c.reportCommodity = none ∧ f.commodity = some n) := by
      have hw := (cli_wins h).2.2.2.2.1
      have hfa := (file_applies h).2.2.2.2.1
      simp only [mkEffective] at hw hfa
      cases hc : c.reportCommodity with
      | some v => left; have := hw v hc; rw [hn] at this; cases this; rfl
      | none => right; exact ⟨rfl, by rw [← hfa hc]; exact hn⟩
    have hsim : isSimpleId n = true := by
      unfold namesSimple at hsimple
      simp only [Bool.and_eq_true] at hsimple
      rcases hsrc with hc | ⟨_, hf⟩
      · have := hsimple.2; rw [hc] at this; exact this
      · have := hsimple.1.2; rw [hf] at this; exact this
    have hne : n ≠ "" := by
      intro h0; subst h0; simp [isSimpleId] at hsim
    exact reportCommodityOf_strict h4 hne

/-! ### `contradictions`, in the "rejected ⇒ `.err`" form -/

/-- the overlaid value of each key, as the documentation describes it -/
def strictSpec (f : FileCfg) (c : CliOpts) : Bool := c.strict.getD f.strict
def commoditySpec (f : FileCfg) (c : CliOpts) : Option String :=
  match c.reportCommodity with
  | some n => some n
  | none => f.commodity
def lookupSpec (env : Env) (f : FileCfg) (c : CliOpts) : Option Lookup :=
  match c.lookupType with
  | some s => Lookup.parse s
  | none =>
    match priceFrom env f.price with
    | .ok (_, lt) => some lt
    | _ => none
def exportsSpec (f : FileCfg) (c : CliOpts) : Outcome (List ExportT) :=
  toExportTargets (c.exports.getD f.exportTargets)

theorem spec_of_ok {env : Env} {f : FileCfg} {c : CliOpts} {e : Effective} (h : effective env f c = .ok e) :
    strictSpec f c = e.strict ∧ commoditySpec f c = e.commodity ∧ lookupSpec env f c = some e.lookup ∧
    exportsSpec f c = .ok e.exports := by
  obtain ⟨w1, _, _, w4, w5, w6, _, _⟩ := cli_wins h
  obtain ⟨a1, _, _, a4, a5, a6, _, _⟩ := file_applies h
  refine ⟨?_, ?_, ?_, ?_⟩
  · unfold strictSpec
    cases hc : c.strict with
    | some v => simp [w1 v hc]
    | none => simp [a1 hc]
  · unfold commoditySpec
    cases hc : c.reportCommodity with
    | some v => simp [w5 v hc]
    | none => simp [a5 hc]
  · unfold lookupSpec
    cases hc : c.lookupType with
    | some v => simp [w6 v hc]
    | none => obtain ⟨db, hdb⟩ := a6 hc; simp [hdb]
  · unfold exportsSpec
    cases hc : c.exports with
    | some v => simp [w4 v hc]
    | none => simp [a4 hc]

/-- every rejected combination is an error (inside the domain of the model): option sets the clap
    attributes exclude; a file `Config::from` rejects, whatever the options; `--price.before` without
    `given-time` and `given-time` without `--price.before`; an unparsable `--price.before`; price
    conversion without a report commodity; strict mode with an undeclared equity account or report commodity;
    an unreadable price file -/
theorem contradictions {env : Env} {f : FileCfg} {c : CliOpts} (hdom : namesSimple f c = true) :
    (Rejected c → effective env f c = .err) ∧
    (configFrom env f = .err → effective env f c = .err) ∧
    (c.priceBefore.isSome = true → lookupSpec env f c ≠ some .givenTime → effective env f c = .err) ∧
    (c.priceBefore = none → lookupSpec env f c = some .givenTime → effective env f c = .err) ∧
    (∀ ts, c.priceBefore = some ts → env.tsOk ts = false → effective env f c = .err) ∧
    (commoditySpec f c = none → lookupSpec env f c ≠ some .none → effective env f c = .err) ∧
    (strictSpec f c = true → (∃ l, exportsSpec f c = .ok l ∧ ExportT.equity ∈ l) → f.equityAccount ∉ f.accounts →
        effective env f c = .err) ∧
    (strictSpec f c = true → (∃ n, commoditySpec f c = some n ∧ n ∉ f.commodities) → effective env f c = .err) := by
  have key : (∀ e, effective env f c = .ok e → False) → effective env f c = .err := by
    intro hno
    cases hE : effective env f c with
    | ok e => exact (hno e hE).elim
    | err => rfl
    | undef => exact absurd hE (no_undef hdom)
  refine ⟨?_, ?_, ?_, ?_, ?_, ?_, ?_, ?_⟩
  · intro hr; apply key; intro e he
    have := (effective_ok he).2.1
    rw [rejected_clap hr] at this; cases this
  · intro hc; apply key; intro e he
    obtain ⟨_, _, cfg, _, _, hcfg, _⟩ := effective_ok he
    rw [hc] at hcfg; cases hcfg
  · intro hb hl; apply key; intro e he
    have := (accepted_consistent he).1.mp hb
    rw [(spec_of_ok he).2.2.1, this] at hl; exact hl rfl
  · intro hb hl; apply key; intro e he
    rw [(spec_of_ok he).2.2.1] at hl
    have := (accepted_consistent he).1.mpr (Option.some.inj hl)
    rw [hb] at this; cases this
  · intro ts hb hts; apply key; intro e he
    have := ((accepted_consistent he).2.1 ts hb).1
    rw [hts] at this; cases this
  · intro hcm hl; apply key; intro e he
    obtain ⟨_, s2, s3, _⟩ := spec_of_ok he
    rw [s3] at hl
    have hne : e.lookup ≠ .none := fun h0 => hl (by rw [h0])
    have := ((accepted_consistent he).2.2.1 hne).1
    rw [← s2, hcm] at this; cases this
  · intro hst ⟨l, hl, hmem⟩ hacc; apply key; intro e he
    obtain ⟨s1, _, _, s4⟩ := spec_of_ok he
    rw [s4] at hl; cases hl
    exact hacc ((accepted_consistent he).2.2.2.1 (by rw [← s1]; exact hst) hmem)
  · intro hst ⟨n, hn, hnot⟩; apply key; intro e he
    obtain ⟨s1, s2, _, _⟩ := spec_of_ok he
    exact hnot ((accepted_consistent he).2.2.2.2 (by rw [← s1]; exact hst) n (by rw [← s2]; exact hn))

/-! ### `override_equiv`: running with an option = running with its value written into the file -/

theorem isAbs_joinPath {d : String} (p : String) (h : isAbs d = true) : isAbs (joinPath d p) = true := by
  unfold isAbs joinPath at *
  cases hd : d.toList with
  | nil => simp [hd] at h
  | cons x t => simp [hd] at h ⊢; exact h

theorem isAbs_atCwd {env : Env} (hcwd : isAbs env.cwd = true) (p : String) : isAbs (atCwd env p) = true := by
  unfold atCwd
  split
  · assumption
  · exact isAbs_joinPath p hcwd

theorem getAbsPath_atCwd {env : Env} (hcwd : isAbs env.cwd = true) (p : String) :
    getAbsPath env (atCwd env p) = atCwd env p := by
  unfold getAbsPath
  rw [isAbs_atCwd hcwd p]; rfl

theorem atCwd_ne_none {env : Env} (hcwd : isAbs env.cwd = true) (p : String) : atCwd env p ≠ "none" := by
  intro h
  have := isAbs_atCwd hcwd p
  rw [h] at this
  revert this; decide

theorem residual_namesSimple {env : Env} {f : FileCfg} {c : CliOpts} (h : namesSimple f c = true) :
    namesSimple (f.withCli env c) c.residual = true := by
  unfold namesSimple at h ⊢
  simp only [Bool.and_eq_true] at h ⊢
  obtain ⟨⟨⟨h1, h2⟩, h3⟩, h4⟩ := h
  refine ⟨⟨⟨h1, h2⟩, ?_⟩, rfl⟩
  simp only [FileCfg.withCli]
  cases hc : c.reportCommodity with
  | none => simpa using h3
  | some n => rw [hc] at h4; simpa using h4

theorem residual_clapAccepts {c : CliOpts} (h : clapAccepts c = true) : clapAccepts c.residual = true := by
  unfold clapAccepts at h ⊢
  simp only [Bool.and_eq_true, Bool.not_eq_true'] at h ⊢
  obtain ⟨⟨_, hconf⟩, _⟩ := h
  refine ⟨⟨by simp [clapValues, CliOpts.residual, inSet, listIn], ?_⟩, by simp [clapRequires, CliOpts.residual]⟩
  unfold clapConflicts at hconf ⊢
  simp only [CliOpts.residual, fsAny, gitAny, Option.isSome_none, Bool.false_or, Bool.or_false, Bool.false_and]
  cases hf : c.inputFile with
  | none => simp
  | some p =>
    cases hk : c.inputGitCommit with
    | none => simp
    | some k => simp [hf, hk, gitAny] at hconf

/-- clap has checked the target lists: `to_report_targets` cannot fail on them -/
theorem mapParse_of_all {α} (p : String → Option α) (vals : List String) (hv : ∀ s, vals.contains s = true → (p s).isSome = true)
    (l : List String) (h : l.all vals.contains = true) : ∃ r, mapParse p l = .ok r := by
  induction l with
  | nil => exact ⟨[], rfl⟩
  | cons s t ih =>
    simp only [List.all_cons, Bool.and_eq_true] at h
    obtain ⟨r, hr⟩ := ih h.2
    have := hv s h.1
    cases hp : p s with
    | none => rw [hp] at this; cases this
    | some a => exact ⟨a :: r, by simp [mapParse, hp, hr]⟩

theorem clap_reports {c : CliOpts} (h : clapValues c = true) (l : List String) (hl : c.reports = some l) :
    ∃ r, toReportTargets l = .ok r := by
  unfold clapValues at h
  simp only [Bool.and_eq_true] at h
  have := h.1.1.1.1.2
  rw [hl] at this
  simp only [listIn, Bool.and_eq_true] at this
  exact mapParse_of_all ReportT.parse _ (by intro s hs; simp at hs; rcases hs with rfl | rfl | rfl <;> decide) l this.2

theorem clap_exports {c : CliOpts} (h : clapValues c = true) (l : List String) (hl : c.exports = some l) :
    ∃ r, toExportTargets l = .ok r := by
  unfold clapValues at h
  simp only [Bool.and_eq_true] at h
  have := h.1.1.1.2
  rw [hl] at this
  simp only [listIn, Bool.and_eq_true] at this
  exact mapParse_of_all ExportT.parse _ (by intro s hs; simp at hs; rcases hs with rfl | rfl <;> decide) l this.2

theorem clap_groupBy {c : CliOpts} (h : clapValues c = true) (s : String) (hs : c.groupBy = some s) :
    ∃ g, GroupBy.parse s = some g := by
  unfold clapValues at h
  simp only [Bool.and_eq_true] at h
  have := h.1.1.2
  rw [hs] at this
  simp only [inSet] at this
  have hv : ∀ s, ["year", "month", "date", "iso-week", "iso-week-date"].contains s = true → (GroupBy.parse s).isSome = true := by
    intro s hs; simp at hs; rcases hs with rfl | rfl | rfl | rfl | rfl <;> decide
  exact Option.isSome_iff_exists.mp (hv s this)

theorem clap_storage {c : CliOpts} (h : clapValues c = true) (s : String) (hs : c.inputStorage = some s) :
    ∃ g, Storage.parse s = some g := by
  unfold clapValues at h
  simp only [Bool.and_eq_true] at h
  have := h.1.1.1.1.1
  rw [hs] at this
  simp only [inSet] at this
  have hv : ∀ s, ["fs", "git"].contains s = true → (Storage.parse s).isSome = true := by
    intro s hs; simp at hs; rcases hs with rfl | rfl <;> decide
  exact Option.isSome_iff_exists.mp (hv s this)

theorem clap_lookup {c : CliOpts} (h : clapValues c = true) (s : String) (hs : c.lookupType = some s) :
    ∃ g, Lookup.parse s = some g := by
  unfold clapValues at h
  simp only [Bool.and_eq_true] at h
  have := h.1.2
  rw [hs] at this
  exact Option.isSome_iff_exists.mp this

/-- the overlaid lookup type / price file, and what `Price::try_from` makes of the written `[price]` section:
    the same pair, or an error exactly where the run with the options fails to read the price file `""` -/
theorem price_with {env : Env} {f : FileCfg} {c : CliOpts} {db : String} {lt : Lookup}
    (hcwd : isAbs env.cwd = true) (hclap : clapValues c = true) (hp : priceFrom env f.price = .ok (db, lt)) :
    ∃ ltE, (match c.lookupType with | some s => Lookup.parse s | none => some lt) = some ltE ∧
      (priceFrom env (priceWith env f.price c.pricedb c.lookupType) =
          .ok ((match c.pricedb with | some p => atCwd env p | none => db), ltE) ∨
       (priceFrom env (priceWith env f.price c.pricedb c.lookupType) = .err ∧ ltE ≠ .none ∧
          (match c.pricedb with | some p => atCwd env p | none => db) = "")) := by
  cases hlto : c.lookupType with
  | none =>
    refine ⟨lt, rfl, ?_⟩
    cases hdbo : c.pricedb with
    | none =>
      left
      have : priceWith env f.price none none = f.price := by unfold priceWith; cases f.price <;> rfl
      rw [this]; exact hp
    | some p =>
      left
      cases hprice : f.price with
      | none =>
        rw [hprice] at hp
        simp only [priceFrom] at hp; cases hp
        have hpn : Lookup.parse "none" = some .none := by decide
        simp [priceWith, priceFrom, atCwd_ne_none hcwd, getAbsPath_atCwd hcwd, hpn]
      | some r =>
        rw [hprice] at hp
        simp only [priceFrom] at hp
        cases hl0 : Lookup.parse r.lookupType with
        | none => simp [hl0] at hp
        | some lt0 =>
          simp only [hl0] at hp
          have hlt : lt = lt0 := by
            split at hp
            · split at hp
              · cases hp; rename_i h0; exact h0.symm
              · cases hp
            · cases hp; rfl
          simp [priceWith, priceFrom, hl0, atCwd_ne_none hcwd, getAbsPath_atCwd hcwd, hlt]
  | some sl =>
    obtain ⟨ltE, hltE⟩ := clap_lookup hclap sl hlto
    refine ⟨ltE, hltE, ?_⟩
    cases hdbo : c.pricedb with
    | some p =>
      left
      cases hprice : f.price with
      | none => simp [priceWith, priceFrom, hltE, atCwd_ne_none hcwd, getAbsPath_atCwd hcwd]
      | some r => simp [priceWith, priceFrom, hltE, atCwd_ne_none hcwd, getAbsPath_atCwd hcwd]
    | none =>
      cases hprice : f.price with
      | none =>
        rw [hprice] at hp
        simp only [priceFrom] at hp; cases hp
        by_cases hn : ltE = .none
        · left; subst hn; simp [priceWith, priceFrom, hltE]
        · right; simp [priceWith, priceFrom, hltE, hn]
      | some r =>
        rw [hprice] at hp
        simp only [priceFrom] at hp
        cases hl0 : Lookup.parse r.lookupType with
        | none => simp [hl0] at hp
        | some lt0 =>
          simp only [hl0] at hp
          by_cases hnone : r.dbPath = "none"
          · simp only [hnone, ↓reduceIte] at hp
            split at hp
            · cases hp
              by_cases hn : ltE = .none
              · left; subst hn; simp [priceWith, priceFrom, hltE, hnone]
              · right; simp [priceWith, priceFrom, hltE, hnone, hn]
            · cases hp
          · simp only [hnone, ↓reduceIte] at hp
            cases hp
            left; simp [priceWith, priceFrom, hltE, hnone]

/-- the body of `Settings::try_from` after the overlaid values have been computed -/
def settingsCore (env : Env) (strict audit : Bool) (reports : Outcome (List ReportT))
    (exports : Outcome (List ExportT)) (lt : Outcome Lookup) (rc : Outcome (Option String))
    (gb : Outcome GroupBy) (accounts : List String) (equityAccount : String) (before : Option String)
    (db : String) (acc : Option (List String)) : Outcome Sett :=
  match reports, exports, lt, rc, gb with
  | .ok reports, .ok exports, .ok lt, .ok rc, .ok gb =>
    if strict && exports.contains .equity && !accounts.contains equityAccount then .err
    else if rc.isNone && lt != .none then .err
    else
      match priceLookupFrom env lt before with
      | .ok pl =>
        if lt = .none then
          .ok { strict := strict, audit := audit, reports := reports, exports := exports, commodity := rc,
                lookup := lt, priceLookup := pl, priceDb := none, groupBy := gb, globalAccSel := acc }
        else if env.dbOk db strict then
          .ok { strict := strict, audit := audit, reports := reports, exports := exports, commodity := rc,
                lookup := lt, priceLookup := pl, priceDb := some db, groupBy := gb, globalAccSel := acc }
        else .err
      | .err => .err
      | .undef => .undef
  | _, _, _, _, _ => .err

theorem settingsFrom_core (env : Env) (cfg : Cfg) (ov : Overlaps) :
    settingsFrom env cfg ov =
      settingsCore env (ov.strictMode.getD cfg.strict) (ov.auditMode.getD cfg.audit) (reportsOf cfg ov.reports)
        (exportsOf cfg ov.exports) (lookupOf cfg ov.lookupType)
        (reportCommodityOf cfg (ov.strictMode.getD cfg.strict) ov.commodity) (groupByOf cfg ov.groupBy)
        cfg.accounts cfg.equityAccount ov.beforeTime (dbPathOf env cfg ov.dbPath) ov.accountOverlap := by
  unfold settingsFrom settingsCore
  rfl

/-- the selector overlap is only carried along -/
theorem settingsCore_acc (env : Env) (strict audit : Bool) (reports : Outcome (List ReportT))
    (exports : Outcome (List ExportT)) (lt : Outcome Lookup) (rc : Outcome (Option String))
    (gb : Outcome GroupBy) (accounts : List String) (equityAccount : String) (before : Option String)
    (db : String) (acc : Option (List String)) :
    settingsCore env strict audit reports exports lt rc gb accounts equityAccount before db acc =
      (settingsCore env strict audit reports exports lt rc gb accounts equityAccount before db none).map
        (fun s => { s with globalAccSel := acc }) := by
  unfold settingsCore
  (repeat' split) <;> rfl

theorem settingsCore_none_acc {env : Env} {strict audit : Bool} {reports : Outcome (List ReportT)}
    {exports : Outcome (List ExportT)} {lt : Outcome Lookup} {rc : Outcome (Option String)}
    {gb : Outcome GroupBy} {accounts : List String} {equityAccount : String} {before : Option String}
    {db : String} {s : Sett}
    (h : settingsCore env strict audit reports exports lt rc gb accounts equityAccount before db none = .ok s) :
    s.globalAccSel = none := by
  unfold settingsCore at h
  (repeat' split at h) <;> first | (cases h; done) | (cases h; rfl)

/-- with the price file `""` unreadable, a lookup type other than `none` cannot succeed on it -/
theorem settingsCore_db_empty {env : Env} (hdb : ∀ s, env.dbOk "" s = false) {strict audit : Bool}
    {reports : Outcome (List ReportT)} {exports : Outcome (List ExportT)} {lt : Lookup}
    {rc : Outcome (Option String)} {gb : Outcome GroupBy} {accounts : List String} {equityAccount : String}
    {before : Option String} {acc : Option (List String)} (hne : lt ≠ .none) :
    settingsCore env strict audit reports exports (.ok lt) rc gb accounts equityAccount before "" acc = .err := by
  cases h : settingsCore env strict audit reports exports (.ok lt) rc gb accounts equityAccount before "" acc with
  | err => rfl
  | ok s =>
    have hdb' := hdb strict
    clear hdb
    unfold settingsCore at h
    (repeat' split at h) <;> first | (cases h; done) | simp_all
  | undef =>
    unfold settingsCore at h
    (repeat' split at h) <;> try (cases h; done)
    all_goals
      rename_i hpl
      unfold priceLookupFrom at hpl
      (repeat' split at hpl) <;> cases hpl

theorem storageWith_parse {f : FileCfg} {c : CliOpts} {st : Storage} (hcv : clapValues c = true)
    (c1 : Storage.parse f.storage = some st) : ∃ st', Storage.parse (storageWith f c) = some st' := by
  unfold storageWith
  cases hs : c.inputStorage with
  | some s => exact clap_storage hcv s hs
  | none =>
    simp only
    split
    · exact ⟨.fs, by decide⟩
    · split
      · exact ⟨.git, by decide⟩
      · exact ⟨st, c1⟩

theorem gitWith_ok {env : Env} {f : FileCfg} {c : CliOpts} {g : Option GitC} (c2 : gitOptFrom f.git = .ok g) :
    ∃ g', gitOptFrom (gitWith env f.git c) = .ok g' := by
  unfold gitWith
  cases hr : c.inputGitRepo <;> cases hd : c.inputGitDir <;> simp only
  case some.some => simp only [gitOptFrom, gitFrom]; exact ⟨_, rfl⟩
  all_goals
    cases hg : f.git with
    | none => exact ⟨none, by cases c.inputGitRef <;> rfl⟩
    | some r =>
      rw [hg] at c2
      cases href : c.inputGitRef with
      | none => exact ⟨g, c2⟩
      | some ref =>
        simp only
        unfold gitOptFrom gitFrom at c2 ⊢
        cases hrepo : r.repo with
        | some x => exact ⟨_, rfl⟩
        | none =>
          cases hrepo2 : r.repository with
          | some x => exact ⟨_, rfl⟩
          | none => simp [hrepo, hrepo2] at c2

/-- the option sets about the input that clap lets through -/
inductive Shape (c : CliOpts) : Prop where
  | nothing : c.inputFile = none → c.inputStorage = none → c.inputFsDir = none → c.inputFsExt = none →
      c.inputGitRepo = none → c.inputGitRef = none → c.inputGitCommit = none → c.inputGitDir = none → Shape c
  | file (p : String) : c.inputFile = some p → c.inputStorage = none → c.inputFsDir = none → c.inputFsExt = none →
      c.inputGitRepo = none → c.inputGitRef = none → c.inputGitCommit = none → c.inputGitDir = none → Shape c
  | storage (s : String) : c.inputFile = none → c.inputStorage = some s → c.inputFsDir = none → c.inputFsExt = none →
      c.inputGitRepo = none → c.inputGitRef = none → c.inputGitCommit = none → c.inputGitDir = none → Shape c
  | fs (d x : String) : c.inputFile = none → c.inputStorage = none → c.inputFsDir = some d → c.inputFsExt = some x →
      c.inputGitRepo = none → c.inputGitRef = none → c.inputGitCommit = none → c.inputGitDir = none → Shape c
  | gitRef (r x d : String) : c.inputFile = none → c.inputStorage = none → c.inputFsDir = none → c.inputFsExt = none →
      c.inputGitRepo = some r → c.inputGitRef = some x → c.inputGitCommit = none → c.inputGitDir = some d → Shape c
  | gitCommit (r k d : String) : c.inputFile = none → c.inputStorage = none → c.inputFsDir = none → c.inputFsExt = none →
      c.inputGitRepo = some r → c.inputGitRef = none → c.inputGitCommit = some k → c.inputGitDir = some d → Shape c
  | refOnly (x : String) : c.inputFile = none → c.inputStorage = none → c.inputFsDir = none → c.inputFsExt = none →
      c.inputGitRepo = none → c.inputGitRef = some x → c.inputGitCommit = none → c.inputGitDir = none → Shape c
  | commitOnly (k : String) : c.inputFile = none → c.inputStorage = none → c.inputFsDir = none → c.inputFsExt = none →
      c.inputGitRepo = none → c.inputGitRef = none → c.inputGitCommit = some k → c.inputGitDir = none → Shape c

theorem clap_shapes {c : CliOpts} (h : clapAccepts c = true) : Shape c := by
  unfold clapAccepts clapConflicts clapRequires fsAny gitAny at h
  simp only [Bool.and_eq_true, Bool.not_eq_true'] at h
  obtain ⟨⟨_, hconf⟩, hreq⟩ := h
  cases hf : c.inputFile <;> cases hs : c.inputStorage <;> cases hd : c.inputFsDir <;> cases hx : c.inputFsExt <;>
    cases hr : c.inputGitRepo <;> cases hg : c.inputGitRef <;> cases hk : c.inputGitCommit <;>
    cases hdir : c.inputGitDir <;>
    simp only [hf, hs, hd, hx, hr, hg, hk, hdir, Option.isSome_some, Option.isSome_none] at hconf hreq <;>
    first
      | (simp at hconf; done)
      | (simp at hreq; done)
      | exact .nothing hf hs hd hx hr hg hk hdir
      | exact .file _ hf hs hd hx hr hg hk hdir
      | exact .storage _ hf hs hd hx hr hg hk hdir
      | exact .fs _ _ hf hs hd hx hr hg hk hdir
      | exact .gitRef _ _ _ hf hs hd hx hr hg hk hdir
      | exact .gitCommit _ _ _ hf hs hd hx hr hg hk hdir
      | exact .refOnly _ hf hs hd hx hr hg hk hdir
      | exact .commitOnly _ hf hs hd hx hr hg hk hdir

set_option linter.unusedSimpArgs false

theorem stripDot_txn : stripDot "txn" = "txn" := by decide

/-- the input chosen from the written file (with the options that have no key) is the input chosen from
    the original file and the options -/
theorem input_equiv {env : Env} {f : FileCfg} {c : CliOpts} {cfg cfg' : Cfg}
    (hcwd : isAbs env.cwd = true) (hclap : clapAccepts c = true)
    (hcfg : configFrom env f = .ok cfg) (hcfg' : configFrom env (f.withCli env c) = .ok cfg') :
    getInputType env cfg' c.residual = getInputType env cfg c := by
  obtain ⟨st, g, db, lt, rts, gb, ets, c1, c2, c3, c4, c5, c6, rfl⟩ := configFrom_ok hcfg
  obtain ⟨st', g', db', lt', rts', gb', ets', d1, d2, d3, d4, d5, d6, rfl⟩ := configFrom_ok hcfg'
  simp only [FileCfg.withCli] at d1 d2
  have hgit : Storage.parse "git" = some .git := by decide
  have hfs : Storage.parse "fs" = some .fs := by decide
  cases clap_shapes hclap with
  | nothing hf hs hd hx hr hg hk hdir =>
    simp only [storageWith, gitWith, hs, hd, hr, hg, hk, hdir, Option.isSome_none, Bool.false_eq_true, ↓reduceIte,
      Bool.or_self] at d1 d2
    rw [c1] at d1; cases d1
    have : g' = g := by
      have : gitOptFrom f.git = .ok g' := by cases hfg : f.git <;> simpa [hfg] using d2
      rw [c2] at this; cases this; rfl
    subst this
    simp [getInputType, getGitSelector, CliOpts.residual, hf, hs, hd, hx, hr, hg, hk, hdir, getInputSettings,
      storageTypeOf, inputOfStorage, FileCfg.withCli, fsWith]
  | file p hf hs hd hx hr hg hk hdir =>
    simp [getInputType, getGitSelector, CliOpts.residual, hf, hs, hd, hx, hr, hg, hk, hdir]
  | storage s0 hf hs hd hx hr hg hk hdir =>
    simp only [storageWith, gitWith, hs, hd, hr, hg, hk, hdir] at d1 d2
    have : g' = g := by
      have : gitOptFrom f.git = .ok g' := by cases hfg : f.git <;> simpa [hfg] using d2
      rw [c2] at this; cases this; rfl
    subst this
    simp [getInputType, getGitSelector, CliOpts.residual, hf, hs, hd, hx, hr, hg, hk, hdir, getInputSettings,
      storageTypeOf, inputOfStorage, FileCfg.withCli, fsWith, d1]
  | fs d x hf hs hd hx hr hg hk hdir =>
    simp only [storageWith, hs, hd, Option.isSome_some, ↓reduceIte] at d1
    rw [hfs] at d1; cases d1
    simp [getInputType, getGitSelector, CliOpts.residual, hf, hs, hd, hx, hr, hg, hk, hdir, getInputSettings,
      storageTypeOf, inputOfStorage, FileCfg.withCli, fsWith, fsFrom, getAbsPath_atCwd hcwd]
  | gitRef r x d hf hs hd hx hr hg hk hdir =>
    simp only [storageWith, gitWith, hs, hd, hr, hg, hk, hdir, Option.isSome_some, Option.isSome_none,
      Bool.false_eq_true, ↓reduceIte, Bool.true_or] at d1 d2
    rw [hgit] at d1; cases d1
    simp only [gitOptFrom, gitFrom] at d2
    cases d2
    simp [getInputType, getGitSelector, CliOpts.residual, hf, hs, hd, hx, hr, hg, hk, hdir, getInputSettings,
      storageTypeOf, inputOfStorage, getAbsPath_atCwd hcwd, stripDot_txn]
  | gitCommit r k d hf hs hd hx hr hg hk hdir =>
    simp only [storageWith, gitWith, hs, hd, hr, hg, hk, hdir, Option.isSome_some, Option.isSome_none,
      Bool.false_eq_true, ↓reduceIte, Bool.true_or] at d1 d2
    simp only [gitOptFrom, gitFrom] at d2
    cases d2
    simp [getInputType, getGitSelector, CliOpts.residual, hf, hs, hd, hx, hr, hg, hk, hdir, getInputSettings,
      storageTypeOf, inputOfStorage, getAbsPath_atCwd hcwd, stripDot_txn, hgit]
  | refOnly x hf hs hd hx hr hg hk hdir =>
    simp only [storageWith, gitWith, hs, hd, hr, hg, hk, hdir, Option.isSome_some, Option.isSome_none,
      Bool.false_eq_true, ↓reduceIte, Bool.true_or, Bool.false_or, Bool.or_false] at d1 d2
    rw [hgit] at d1; cases d1
    simp only [getInputType, getGitSelector, CliOpts.residual, hf, hs, hd, hx, hr, hg, hk, hdir, getInputSettings,
      storageTypeOf, inputOfStorage, hgit]
    cases hfg : f.git with
    | none =>
      rw [hfg] at c2 d2
      simp only [gitOptFrom] at c2 d2
      cases c2; cases d2; rfl
    | some r0 =>
      rw [hfg] at c2 d2
      simp only [gitOptFrom, gitFrom] at c2 d2
      cases hrepo : r0.repo with
      | some y =>
        simp only [hrepo] at c2 d2; cases c2; cases d2; rfl
      | none =>
        cases hrepo2 : r0.repository with
        | some y => simp only [hrepo, hrepo2] at c2 d2; cases c2; cases d2; rfl
        | none => simp [hrepo, hrepo2] at c2
  | commitOnly k hf hs hd hx hr hg hk hdir =>
    simp only [storageWith, gitWith, hs, hd, hr, hg, hk, hdir] at d1 d2
    have : g' = g := by
      have : gitOptFrom f.git = .ok g' := by cases hfg : f.git <;> simpa [hfg] using d2
      rw [c2] at this; cases this; rfl
    subst this
    simp [getInputType, getGitSelector, CliOpts.residual, hf, hs, hd, hx, hr, hg, hk, hdir, getInputSettings,
      storageTypeOf, inputOfStorage, hgit]

/-- **override_equiv.**  For an option set clap accepts and a file `Config::from` accepts, running with the
    options equals running with every option's value written into its configuration key (and only the
    options that have no key – `--input.file`, `--input.git.commit`, `--price.before` – left on the command
    line).  `hcwd`/`hdb` are facts about the environment: the working directory is an absolute path, and
    reading the price file `""` fails.  (For a file that `Config::from` rejects see `contradictions`: it is
    rejected whatever the options; for a rejected option set there is no run to compare.) -/
theorem override_equiv {env : Env} {f : FileCfg} {c : CliOpts}
    (hcwd : isAbs env.cwd = true) (hdb : ∀ s, env.dbOk "" s = false)
    (hdom : namesSimple f c = true) (hclap : clapAccepts c = true)
    (hload : ∃ cfg, configFrom env f = .ok cfg) :
    effective env f c = effective env (f.withCli env c) c.residual := by
  obtain ⟨cfg, hcfg⟩ := hload
  have hcv : clapValues c = true := by
    unfold clapAccepts at hclap
    simp only [Bool.and_eq_true] at hclap
    exact hclap.1.1
  obtain ⟨st, g, db, lt, rts, gb, ets, c1, c2, c3, c4, c5, c6, hcfgeq⟩ := configFrom_ok hcfg
  obtain ⟨ltE, hltE, hprice⟩ := price_with hcwd hcv c3
  obtain ⟨st', hst'⟩ := storageWith_parse hcv c1
  obtain ⟨g', hg'⟩ := gitWith_ok (env := env) (c := c) c2
  obtain ⟨rts', hrts'⟩ : ∃ r, toReportTargets (c.reports.getD f.targets) = .ok r := by
    cases hr : c.reports with
    | none => exact ⟨rts, by simpa using c4⟩
    | some l => obtain ⟨r, hr'⟩ := clap_reports hcv l hr; exact ⟨r, by simpa using hr'⟩
  obtain ⟨ets', hets'⟩ : ∃ r, toExportTargets (c.exports.getD f.exportTargets) = .ok r := by
    cases hr : c.exports with
    | none => exact ⟨ets, by simpa using c6⟩
    | some l => obtain ⟨r, hr'⟩ := clap_exports hcv l hr; exact ⟨r, by simpa using hr'⟩
  obtain ⟨gb', hgb'⟩ : ∃ r, GroupBy.parse (c.groupBy.getD f.groupBy) = some r := by
    cases hr : c.groupBy with
    | none => exact ⟨gb, by simpa using c5⟩
    | some l => obtain ⟨r, hr'⟩ := clap_groupBy hcv l hr; exact ⟨r, by simpa using hr'⟩
  -- the overlaid values, as the run with the options computes them
  have hR : reportsOf cfg c.reports = .ok rts' := by
    unfold reportsOf; rw [hcfgeq]
    cases hr : c.reports with
    | none => simp only [hr, Option.getD_none] at hrts'; rw [c4] at hrts'; exact hrts'
    | some l => simpa [hr] using hrts'
  have hX : exportsOf cfg c.exports = .ok ets' := by
    unfold exportsOf; rw [hcfgeq]
    cases hr : c.exports with
    | none => simp only [hr, Option.getD_none] at hets'; rw [c6] at hets'; exact hets'
    | some l => simpa [hr] using hets'
  have hG : groupByOf cfg c.groupBy = .ok gb' := by
    unfold groupByOf; rw [hcfgeq]
    cases hr : c.groupBy with
    | none => simp only [hr, Option.getD_none] at hgb'; rw [c5] at hgb'; cases hgb'; rfl
    | some l => simp only [hr, Option.getD_some] at hgb'; simp [hgb']
  have hL : lookupOf cfg c.lookupType = .ok ltE := by
    unfold lookupOf; rw [hcfgeq]
    cases hr : c.lookupType with
    | none => simp only [hr] at hltE; cases hltE; rfl
    | some l => simp only [hr] at hltE; simp [hltE]
  have hD : dbPathOf env cfg c.pricedb = (match c.pricedb with | some p => atCwd env p | none => db) := by
    unfold dbPathOf; rw [hcfgeq]; cases c.pricedb <;> rfl
  have hLHS : settingsFrom env cfg (getOverlaps c) =
      settingsCore env (c.strict.getD cfg.strict) (c.audit.getD cfg.audit) (.ok rts') (.ok ets')
        (.ok ltE) (reportCommodityOf cfg (c.strict.getD cfg.strict) c.reportCommodity) (.ok gb')
        cfg.accounts cfg.equityAccount c.priceBefore
        (match c.pricedb with | some p => atCwd env p | none => db) (accountOverlapOf c.accounts) := by
    rw [settingsFrom_core]
    simp only [getOverlaps]
    rw [hR, hX, hL, hG, hD]
  unfold effective
  rw [residual_namesSimple hdom, residual_clapAccepts hclap, hdom, hclap, hcfg]
  simp only [Bool.not_true, Bool.false_eq_true, ↓reduceIte]
  rw [hLHS]
  rcases hprice with hpok | ⟨hperr, hne, hdbE⟩
  · -- the written file loads
    have hcfg'e : ∃ cfg', configFrom env (f.withCli env c) = .ok cfg' := by
      cases hc' : configFrom env (f.withCli env c) with
      | ok cfg' => exact ⟨cfg', rfl⟩
      | undef => exact absurd hc' (configFrom_ne_undef _ _)
      | err => simp [configFrom, FileCfg.withCli, hst', hg', hpok, hrts', hgb', hets'] at hc'
    obtain ⟨cfg', hcfg'⟩ := hcfg'e
    have hin := input_equiv hcwd hclap hcfg hcfg'
    obtain ⟨st2, g2, db2, lt2, rts2, gb2, ets2, d1, d2, d3, d4, d5, d6, hcfg'eq⟩ := configFrom_ok hcfg'
    simp only [FileCfg.withCli] at d3 d4 d5 d6 hcfg'eq
    rw [hpok] at d3; cases d3
    rw [hrts'] at d4; cases d4
    rw [hgb'] at d5; cases d5
    rw [hets'] at d6; cases d6
    -- the settings of the written file: the same overlaid values
    have hRHS : settingsFrom env cfg' (getOverlaps c.residual) =
        settingsCore env (c.strict.getD cfg.strict) (c.audit.getD cfg.audit) (.ok rts') (.ok ets')
          (.ok ltE) (reportCommodityOf cfg (c.strict.getD cfg.strict) c.reportCommodity) (.ok gb')
          cfg.accounts cfg.equityAccount c.priceBefore
          (match c.pricedb with | some p => atCwd env p | none => db) none := by
      have e1 : (getOverlaps c.residual).strictMode.getD cfg'.strict = c.strict.getD cfg.strict := by
        rw [hcfg'eq, hcfgeq]; rfl
      have e2 : (getOverlaps c.residual).auditMode.getD cfg'.audit = c.audit.getD cfg.audit := by
        rw [hcfg'eq, hcfgeq]; rfl
      have e3 : reportsOf cfg' (getOverlaps c.residual).reports = .ok rts' := by rw [hcfg'eq]; rfl
      have e4 : exportsOf cfg' (getOverlaps c.residual).exports = .ok ets' := by rw [hcfg'eq]; rfl
      have e5 : lookupOf cfg' (getOverlaps c.residual).lookupType = .ok ltE := by rw [hcfg'eq]; rfl
      have e6 : groupByOf cfg' (getOverlaps c.residual).groupBy = .ok gb' := by rw [hcfg'eq]; rfl
      have e7 : reportCommodityOf cfg' (c.strict.getD cfg.strict) (getOverlaps c.residual).commodity =
          reportCommodityOf cfg (c.strict.getD cfg.strict) c.reportCommodity := by
        rw [hcfg'eq, hcfgeq]
        unfold reportCommodityOf
        simp only [getOverlaps, CliOpts.residual]
        cases c.reportCommodity <;> rfl
      have e8 : cfg'.accounts = cfg.accounts := by rw [hcfg'eq, hcfgeq]
      have e9 : cfg'.equityAccount = cfg.equityAccount := by rw [hcfg'eq, hcfgeq]
      have e10 : (getOverlaps c.residual).beforeTime = c.priceBefore := rfl
      have e11 : dbPathOf env cfg' (getOverlaps c.residual).dbPath =
          (match c.pricedb with | some p => atCwd env p | none => db) := by rw [hcfg'eq]; rfl
      have e12 : (getOverlaps c.residual).accountOverlap = none := rfl
      rw [settingsFrom_core, e1, e2, e3, e4, e5, e6, e7, e8, e9, e10, e11, e12]
    rw [hcfg']
    simp only []
    rw [hRHS, hin]
    rw [settingsCore_acc env _ _ _ _ _ _ _ _ _ _ _ (accountOverlapOf c.accounts)]
    cases hcore : settingsCore env (c.strict.getD cfg.strict) (c.audit.getD cfg.audit) (.ok rts') (.ok ets')
        (.ok ltE) (reportCommodityOf cfg (c.strict.getD cfg.strict) c.reportCommodity) (.ok gb')
        cfg.accounts cfg.equityAccount c.priceBefore
        (match c.pricedb with | some p => atCwd env p | none => db) none with
    | err => rfl
    | undef => rfl
    | ok s0 =>
      simp only [Outcome.map]
      cases getInputType env cfg c with
      | err => rfl
      | undef => rfl
      | ok i =>
        simp only [Outcome.ok.injEq]
        have hacc := settingsCore_none_acc hcore
        have hsel : ∀ own : Option (List String),
            getAccountSelector { s0 with globalAccSel := accountOverlapOf c.accounts } (selFrom own f.selGlobal) =
            getAccountSelector s0
              (selFrom (match c.accounts with | some _ => none | none => own)
                (match accountOverlapOf c.accounts with | some l => some l | none => f.selGlobal)) := by
          intro own
          unfold getAccountSelector
          rw [hacc]
          cases c.accounts <;> rfl
        rw [hcfg'eq, hcfgeq]
        simp only [mkEffective, hsel]
        rfl
  · -- the written `[price]` section is rejected: the run with the options cannot read the price file `""`
    have hcfg' : configFrom env (f.withCli env c) = .err := by
      simp only [configFrom, FileCfg.withCli, hst', hg', hperr, hrts', hgb', hets']
    rw [hcfg', hdbE, settingsCore_db_empty hdb hne]

/-! ### non-vacuity: concrete runs, and the pinned tree at the three repaired points -/

def envX : Env :=
  { cwd := "/w/cwd", cfgDir := "/w/conf", tsOk := fun s => s == "2024-01-20",
    dbOk := fun p _ => p == "/w/conf/p.db" || p == "/w/cwd/q.db" }

def fileX : FileCfg :=
  { strict := false, audit := false, storage := "fs",
    fs := some ⟨none, "txns", ".txn"⟩,
    git := some ⟨some "repo.git", none, "main", "txns", "txn"⟩,
    price := some ⟨"p.db", "none"⟩,
    accounts := ["a:cash", "e:food"], commodities := ["EUR", "USD"], permitEmpty := false,
    targets := ["balance", "register"], selGlobal := some ["a:.*"], commodity := none,
    selBalance := some ["e:.*"], selBalGrp := none, selRegister := none,
    groupBy := "month", exportTargets := [], equityAccount := "Equity:Balance", selEquity := none }

/-- no options: every key comes from the file (per-report selector over the global one, `.txn` ↦ `txn`,
    paths relative to the configuration file) -/
example : effective envX fileX {} = .ok
    { strict := false, audit := false, reports := [.balance, .register], exports := [],
      selBalance := ["e:.*"], selBalGrp := ["a:.*"], selRegister := ["a:.*"], selEquity := ["a:.*"],
      commodity := none, lookup := .none, priceLookup := .none, priceDb := none, groupBy := .month,
      input := .fs "/w/conf/txns" "txn" } := by decide

/-- many options at once: each present option decides its key -/
def cliX : CliOpts :=
  { strict := some true, audit := some true, reports := some ["balance-group"], exports := some ["identity"],
    accounts := some ["x", ""], reportCommodity := some "EUR", pricedb := some "q.db",
    lookupType := some "given-time", priceBefore := some "2024-01-20", groupBy := some "iso-week",
    inputGitRef := some "side" }

example : effective envX fileX cliX = .ok
    { strict := true, audit := true, reports := [.balanceGroup], exports := [.identity],
      selBalance := ["x"], selBalGrp := ["x"], selRegister := ["x"], selEquity := ["x"],
      commodity := some "EUR", lookup := .givenTime, priceLookup := .givenTime "2024-01-20",
      priceDb := some "/w/cwd/q.db", groupBy := .isoWeek,
      input := .git "/w/conf/repo.git" "txns" (.reference "side") "txn" } := by decide

/-- the hypotheses of `override_equiv` are satisfiable, and both sides are an accepted run -/
example : isAbs envX.cwd = true ∧ (∀ s, envX.dbOk "" s = false) ∧ namesSimple fileX cliX = true ∧
    clapAccepts cliX = true ∧ (∃ cfg, configFrom envX fileX = .ok cfg) ∧
    (effective envX (fileX.withCli envX cliX) cliX.residual).isOk = true := by
  refine ⟨by decide, by intro s; cases s <;> decide, by decide, by decide, ⟨_, rfl⟩, by decide⟩

/-- rejected combinations -/
example : effective envX fileX { inputFile := some "j.txn", inputStorage := some "git" } = .err := by decide
example : effective envX fileX { inputFsDir := some "d" } = .err := by decide
example : effective envX fileX { inputGitRepo := some "r", inputGitDir := some "d" } = .err := by decide
example : effective envX fileX { inputGitRef := some "a", inputGitCommit := some "b" } = .err := by decide
example : effective envX fileX { priceBefore := some "2024-01-20" } = .err := by decide
example : effective envX fileX { lookupType := some "given-time", reportCommodity := some "EUR" } = .err := by decide
example : effective envX fileX { lookupType := some "last-price" } = .err := by decide
example : effective envX fileX { strict := some true, reportCommodity := some "SEK" } = .err := by decide
example : effective envX fileX { strict := some true, exports := some ["equity"] } = .err := by decide
example : Rejected { inputFile := some "j.txn", inputStorage := some "git" } := .file_with_storage rfl rfl

/-- the input table on the example file -/
example : (effective envX fileX { inputFile := some "j.txn" }).map (·.input) = .ok (.file "/w/cwd/j.txn") := by decide
example : (effective envX fileX { inputFsDir := some "/d", inputFsExt := some ".jrnl" }).map (·.input) =
    .ok (.fs "/d" "jrnl") := by decide
example : (effective envX fileX { inputStorage := some "git" }).map (·.input) =
    .ok (.git "/w/conf/repo.git" "txns" (.reference "main") "txn") := by decide
example : (effective envX fileX { inputGitCommit := some "abc123" }).map (·.input) =
    .ok (.git "/w/conf/repo.git" "txns" (.commitId "abc123") "txn") := by decide
example : (effective envX fileX { inputGitRepo := some "r.git", inputGitDir := some "d", inputGitRef := some "m" }).map
    (·.input) = .ok (.git "/w/cwd/r.git" "d" (.reference "m") "txn") := by decide

/-! #### the pinned tree (before the proposed fixes) at the three repaired points -/

/-- F15, pinned `get_overlaps`: `account_overlap: self.accounts.clone()` -/
def accountOverlapOf_pinned (a : Option (List String)) : Option (List String) := a

/-- F15 witness: on the pinned tree `--accounts ""` is the selector list `[""]`, which is *not* the select-all
    selector (it becomes the pattern `^(?:)$` that matches no account name) – against the documentation -/
theorem F15_witness_pinned : selectsAll ((accountOverlapOf_pinned (some [""])).getD []) = false := by decide
theorem F15_fixed : selectsAll ((accountOverlapOf (some [""])).getD []) = true := by decide

/-- F23, pinned `try_from`: `cfg_rpt_commodity` is computed (and `?`-propagated) before the overlap is looked at -/
def reportCommodityOf_pinned (cfg : Cfg) (strict : Bool) (ov : Option String) : Outcome (Option String) :=
  match (match cfg.commodity with
         | none => Outcome.ok none
         | some c => (innerGetOrCreateCommodity cfg.commodities cfg.permitEmpty strict c).map (fun (r : String × List String) => some r.1)) with
  | .err => .err
  | .undef => .undef
  | .ok fileRc =>
    match ov with
    | some c => (innerGetOrCreateCommodity cfg.commodities cfg.permitEmpty strict c).map (fun (r : String × List String) => some r.1)
    | none => .ok fileRc

def cfgSEK : Cfg :=
  { strict := false, audit := false, storage := .fs, fs := none, git := none, dbPath := "", lookup := .none,
    accounts := [], commodities := ["EUR"], permitEmpty := false, targets := [], commodity := some "SEK",
    selBalance := [], selBalGrp := [], selRegister := [], groupBy := .month, exportTargets := [],
    equityAccount := "Equity", selEquity := [] }

/-- F23 witness: file `commodity = "SEK"` (undeclared), options `--strict.mode true --report.commodity EUR`:
    the pinned tree fails on the shadowed file value; with the value written into the file it succeeds -/
theorem F23_witness_pinned :
    reportCommodityOf_pinned cfgSEK true (some "EUR") = .err ∧
    reportCommodityOf_pinned { cfgSEK with commodity := some "EUR" } true none = .ok (some "EUR") := by decide
theorem F23_fixed : reportCommodityOf cfgSEK true (some "EUR") = .ok (some "EUR") := by decide

/-- F24, pinned `get_input_type`: `suffix: self.input_fs_ext.clone()` as given -/
def fsInput_pinned (env : Env) (dir ext : String) : Input := .fs (atCwd env dir) ext

/-- F24 witness: `--input.fs.ext .txn` keeps the dot (and then matches no file: `Path::extension` never has
    one), while `suffix = ".txn"` in the file means `txn` -/
theorem F24_witness_pinned :
    fsInput_pinned envX "/d" ".txn" = .fs "/d" ".txn" ∧
    inputOfStorage envX { cfgSEK with fs := some ("/d", ".txn") } .fs = .ok (.fs "/d" "txn") := by decide
theorem F24_fixed :
    getInputType envX cfgSEK { inputFsDir := some "/d", inputFsExt := some ".txn" } = .ok (.fs "/d" "txn") := by decide

/-- F25, pinned clap attributes: `--input.fs.ext` has no conflicts of its own, and "`ext` requires `dir`" is
    waived when the missing `dir` conflicts with a present option (`Validator::is_missing_required_ok`) -/
def clapAccepts_pinned (c : CliOpts) : Bool :=
  clapValues c &&
  !((c.inputFile.isSome && (c.inputStorage.isSome || fsAny c || gitAny c)) ||
    (c.inputStorage.isSome && (fsAny c || gitAny c)) ||
    (c.inputFsDir.isSome && gitAny c) ||
    (c.inputGitRef.isSome && c.inputGitCommit.isSome)) &&
  ((!c.inputFsDir.isSome || c.inputFsExt.isSome) &&
   (!c.inputFsExt.isSome || c.inputFsDir.isSome || c.inputFile.isSome || c.inputStorage.isSome || gitAny c) &&
   (!c.inputGitRepo.isSome || (c.inputGitDir.isSome && (c.inputGitRef.isSome || c.inputGitCommit.isSome))) &&
   (!c.inputGitDir.isSome || c.inputGitRepo.isSome))

/-- F25 witness: the pinned tree accepts `--input.fs.ext jrnl --input.git.ref side` and then ignores the
    extension (the input is the file's git storage with its own suffix); the repaired attributes reject it -/
theorem F25_witness_pinned :
    clapAccepts_pinned { inputFsExt := some "jrnl", inputGitRef := some "side" } = true ∧
    (configFrom envX fileX).bind (fun cfg => getInputType envX cfg { inputFsExt := some "jrnl", inputGitRef := some "side" }) =
      .ok (.git "/w/conf/repo.git" "txns" (.reference "side") "txn") ∧
    clapAccepts { inputFsExt := some "jrnl", inputGitRef := some "side" } = false := by decide

end C19
end Tackler

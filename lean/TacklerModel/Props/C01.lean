import TacklerModel.Model.Order
import TacklerModel.Lemmas.Dec
/-!
# C01 — accepted transactions are balanced in one commodity; others are rejected

Property theorems over the acceptor of `Model/Accept.lean` (the transliteration of
`handle_posting_value`, `Posting::from`, `parse_txn_postings`, `parse_txn`, `Transaction::from`).
All statements quantify over every settings state, every parse tree, every number.
`RawWF r` is the representation invariant of parsed numbers (`scale ≤ 28`), which
`Dec.ofToken` establishes (`ofToken_wf`).  Inexact arithmetic is `.undef` in the model
(outside `ExactDomain`, DESIGN.md F17), so `= .ok` hypotheses imply the exact domain.
-/
namespace Tackler
namespace C01

/-! ### definitions -/

/-- the property's notion of a balanced transaction -/
def Balanced (t : Txn) : Prop := ∃ c,
  (∀ p ∈ t.posts, p.amount.units ≠ 0 ∧ p.txnComm = c ∧ (p.comm = c → p.txnAmount = p.amount)) ∧
  (t.posts.map (·.txnAmount.units)).sum = 0

/-- a posting not denominated in the transaction commodity carries a closing price into it -/
def Priced (rp : RawPosting) (p : Posting) : Prop :=
  ∃ u, rp.unit = some u ∧ u.comm = p.comm ∧
    ((∃ v, u.closing = some (.unitPrice v) ∧ v.comm = p.txnComm ∧ v.value.isNeg = false ∧
           p.txnAmount.units * (10:Int)^28 = p.amount.units * v.value.units) ∨
     (∃ v, u.closing = some (.total v) ∧ v.comm = p.txnComm ∧ p.txnAmount = v.value ∧ p.isTotal = true))

def valScaleOk : Option Val → Prop
  | some v => v.value.scale ≤ 28
  | none => True

def closingScaleOk : Option Closing → Prop
  | some (.unitPrice v) => v.value.scale ≤ 28
  | some (.total v) => v.value.scale ≤ 28
  | none => True

def RawPostingWF (rp : RawPosting) : Prop :=
  rp.amount.scale ≤ 28 ∧ (match rp.unit with
    | some u => closingScaleOk u.closing
    | none => True)

def RawWF (r : RawTxn) : Prop := ∀ rp ∈ r.posts, RawPostingWF rp

/-! ### parsed numbers are well-formed -/

theorem ofToken_wf (neg : Bool) (ip fp : List Char) (d : Dec) (h : Dec.ofToken neg ip fp = some d) :
    d.WF := by
  unfold Dec.ofToken at h
  simp only at h
  split at h
  · cases h
  · split at h
    · cases h
    · cases h
      constructor
      · simp; omega
      · simp; omega

/-! ### one posting -/

theorem valuePosition_spec (amount : Dec) (unit : Option PostUnit) (vp : VP)
    (h : valuePosition amount unit = .ok vp) :
    vp.postAmount = amount ∧
    ((vp.postComm = vp.txnComm ∧ vp.txnAmount = amount) ∨
     (vp.postComm ≠ vp.txnComm ∧ ∃ u, unit = some u ∧ u.comm = vp.postComm ∧
       ((∃ v, u.closing = some (.unitPrice v) ∧ v.comm = vp.txnComm ∧ v.value.isNeg = false ∧
           Dec.mul amount v.value = some vp.txnAmount) ∨
        (∃ v, u.closing = some (.total v) ∧ v.comm = vp.txnComm ∧ vp.txnAmount = v.value ∧ vp.isTotal = true)))) := by
  unfold valuePosition at h
  split at h
  · cases h; simp
  · rename_i u
    split at h
    · split at h
      · cases h
      · cases h; simp
    · rename_i v hcl
      split at h
      · cases h
      · rename_i hne
        split at h
        · cases h
        · split at h
          · cases h
          · cases h
            refine ⟨rfl, .inr ⟨hne, u, rfl, rfl, .inr ⟨v, hcl, rfl, rfl, rfl⟩⟩⟩
    · rename_i v hcl
      split at h
      · cases h
      · rename_i hne
        split at h
        · cases h
        · split at h
          · cases h
          · rename_i hneg
            split at h
            · rename_i t ht
              cases h
              refine ⟨rfl, .inr ⟨hne, u, rfl, rfl, .inl ⟨v, hcl, rfl, by simpa using hneg, ht⟩⟩⟩
            · exact absurd h (Outcome.inexact_ne_ok _ _)   -- checked arithmetic (fix of F6)

theorem valuePosition_scale (amount : Dec) (unit : Option PostUnit) (vp : VP)
    (ha : amount.scale ≤ 28)
    (hu : match unit with | some u => closingScaleOk u.closing | none => True)
    (h : valuePosition amount unit = .ok vp) : vp.txnAmount.scale ≤ 28 := by
  have hs := valuePosition_spec amount unit vp h
  rcases hs.2 with ⟨_, he⟩ | ⟨_, u, hu', _, hcase⟩
  · rw [he]; exact ha
  · subst hu'
    rcases hcase with ⟨v, hcl, _, _, hm⟩ | ⟨v, hcl, _, he, _⟩
    · exact (Dec.mul_units _ _ _ hm).2
    · rw [he]; simp only [hcl, closingScaleOk] at hu; exact hu

/-- what `handlePosting` yields for one value-carrying posting -/
structure GoodPosting (rp : RawPosting) (p : Posting) : Prop where
  acct : p.acct = rp.acct
  amount : p.amount = rp.amount
  nonzero : p.amount.units ≠ 0
  value : (p.comm = p.txnComm ∧ p.txnAmount = p.amount) ∨ (p.comm ≠ p.txnComm ∧ Priced rp p)
  comment : p.comment = rp.comment

theorem mkPosting_ok (p q : Posting) (h : mkPosting p = .ok q) : q = p ∧ p.amount.units ≠ 0 := by
  unfold mkPosting at h
  split at h
  · cases h
  · rename_i hz
    cases h
    exact ⟨rfl, Dec.units_ne_zero _ (by simpa using hz)⟩

theorem gocta_acct (st : Settings) (a : Path) (c : String) (a' : Path) (st' : Settings)
    (h : st.getOrCreateTxnAccount a c = .ok (a', st')) : a' = a := by
  unfold Settings.getOrCreateTxnAccount at h
  (repeat' split at h) <;> first | (cases h; done) | (cases h; rfl)

theorem handlePosting_good (st st' : Settings) (rp : RawPosting) (p : Posting)
    (h : handlePosting st rp = .ok (p, st')) : GoodPosting rp p := by
  unfold handlePosting at h
  split at h
  · cases h
  · cases h
  · rename_i st1 _
    split at h
    · cases h
    · cases h
    · rename_i vp hvp
      split at h
      · cases h
      · cases h
      · rename_i a st2 hacct
        obtain ⟨q, hq, hqe⟩ := (Outcome.map_ok _ _ _).mp h
        cases hqe
        obtain ⟨rfl, hnz⟩ := mkPosting_ok _ _ hq
        have ha := gocta_acct _ _ _ _ _ hacct
        have hs := valuePosition_spec _ _ _ hvp
        refine ⟨ha, hs.1, by simpa [hs.1] using hnz, ?_, rfl⟩
        rcases hs.2 with ⟨hc, he⟩ | ⟨hne, u, hu, huc, hcase⟩
        · exact .inl ⟨hc, by simp [he, hs.1]⟩
        · refine .inr ⟨hne, u, hu, huc, ?_⟩
          rcases hcase with ⟨v, hcl, hvc, hneg, hm⟩ | ⟨v, hcl, hvc, he, ht⟩
          · exact .inl ⟨v, hcl, hvc, hneg, by simpa [hs.1] using (Dec.mul_units _ _ _ hm).1⟩
          · exact .inr ⟨v, hcl, hvc, he, ht⟩

theorem handlePosting_scale (st st' : Settings) (rp : RawPosting) (p : Posting) (hwf : RawPostingWF rp)
    (h : handlePosting st rp = .ok (p, st')) : p.txnAmount.scale ≤ 28 := by
  unfold handlePosting at h
  split at h
  · cases h
  · cases h
  · split at h
    · cases h
    · cases h
    · rename_i vp hvp
      split at h
      · cases h
      · cases h
      · obtain ⟨q, hq, hqe⟩ := (Outcome.map_ok _ _ _).mp h
        cases hqe
        obtain ⟨rfl, _⟩ := mkPosting_ok _ _ hq
        exact valuePosition_scale _ _ _ hwf.1 hwf.2 hvp

/-! ### the postings of a transaction -/

theorem txnSum_units (ps : List Posting) (s : Dec) (hwf : ∀ p ∈ ps, p.txnAmount.scale ≤ 28)
    (h : txnSum ps = some s) : s.units = (ps.map (·.txnAmount.units)).sum ∧ s.scale ≤ 28 := by
  unfold txnSum at h
  have := Dec.sum_units (ps.map (·.txnAmount)) s (by
    intro d hd
    obtain ⟨p, hp, rfl⟩ := List.mem_map.mp hd
    exact hwf p hp) h
  simpa [List.map_map, Function.comp_def] using this

/-- shape of the accepted posting list: the value-carrying postings in order, then (if written) the
    implicit last posting with the negated sum in the first posting's transaction commodity -/
theorem acceptPostings_shape (st st' : Settings) (r : RawTxn) (hwf : RawWF r) (all : List Posting)
    (h : acceptPostings st r.posts r.last = .ok (all, st')) :
    ∃ p0 rest, (∀ q ∈ p0 :: rest, (∃ rp ∈ r.posts, GoodPosting rp q) ∧ q.txnAmount.scale ≤ 28) ∧
      (p0 :: rest).length = r.posts.length ∧
      ((r.last = none ∧ all = p0 :: rest) ∨
       (∃ a cmt l, r.last = some (a, cmt) ∧ all = (p0 :: rest) ++ [l] ∧ l.acct = a ∧ l.comment = cmt ∧
          l.comm = p0.txnComm ∧ l.txnComm = p0.txnComm ∧ l.txnAmount = l.amount ∧ l.isTotal = false ∧
          l.amount.units = - ((p0 :: rest).map (·.txnAmount.units)).sum ∧ l.amount.units ≠ 0 ∧
          l.amount.scale ≤ 28)) := by
  unfold acceptPostings at h
  split at h
  · cases h
  · cases h
  · rename_i ps st1 hps
    have hgood : ∀ q ∈ ps, (∃ rp ∈ r.posts, GoodPosting rp q) ∧ q.txnAmount.scale ≤ 28 := by
      intro q hq
      obtain ⟨rp, hrp, s1, s2, hf⟩ := mapMS_ok handlePosting r.posts st st1 ps hps q hq
      exact ⟨⟨rp, hrp, handlePosting_good _ _ _ _ hf⟩, handlePosting_scale _ _ _ _ (hwf rp hrp) hf⟩
    have hlen := mapMS_length handlePosting r.posts st st1 ps hps
    split at h
    · cases h
    · rename_i p0 rest
      refine ⟨p0, rest, hgood, hlen, ?_⟩
      split at h
      · rename_i hl
        cases h
        exact .inl ⟨hl, rfl⟩
      · rename_i a cmt hl
        split at h
        · exact absurd h (Outcome.inexact_ne_ok _ _)   -- checked arithmetic (fix of F6)
        · rename_i s hs
          split at h
          · cases h
          · cases h
          · rename_i a' st2 hacct
            obtain ⟨q, hq, hqe⟩ := (Outcome.map_ok _ _ _).mp h
            cases hqe
            obtain ⟨rfl, hnz⟩ := mkPosting_ok _ _ hq
            have ha := gocta_acct _ _ _ _ _ hacct
            have hsum := txnSum_units (p0 :: rest) s (fun q hq => (hgood q hq).2) hs
            refine .inr ⟨a, cmt, _, hl, rfl, ha, rfl, rfl, rfl, rfl, rfl, ?_, hnz, ?_⟩
            · simp only [Dec.negate_units]; rw [hsum.1]
            · simpa using hsum.2

/-! ### property theorems -/

/-- **C01, main theorem.** Every accepted transaction is balanced in a single transaction
    commodity: non-zero postings, one transaction commodity, own-commodity postings valued at their
    amount, values summing to exactly zero. -/
theorem accept_balanced (st st' : Settings) (r : RawTxn) (t : Txn) (hwf : RawWF r)
    (h : acceptTxn st r = .ok (t, st')) : Balanced t := by
  unfold acceptTxn at h
  split at h
  · cases h
  · cases h
  · rename_i st1 _
    split at h
    · cases h
    · cases h
    · rename_i ps st2 hps
      obtain ⟨p0, rest, hgood, _, hshape⟩ := acceptPostings_shape st1 st2 r hwf ps hps
      -- every posting of `ps` is non-zero, consistent and has a bounded scale
      have hall : ∀ q ∈ ps, q.amount.units ≠ 0 ∧ (q.comm = q.txnComm → q.txnAmount = q.amount) ∧
          q.txnAmount.scale ≤ 28 := by
        intro q hq
        have hmain : ∀ q ∈ p0 :: rest, q.amount.units ≠ 0 ∧ (q.comm = q.txnComm → q.txnAmount = q.amount) ∧
            q.txnAmount.scale ≤ 28 := by
          intro q hq
          obtain ⟨⟨rp, _, hg⟩, hsc⟩ := hgood q hq
          refine ⟨hg.nonzero, ?_, hsc⟩
          intro hc
          rcases hg.value with ⟨_, he⟩ | ⟨hne, _⟩
          · exact he
          · exact absurd hc hne
        rcases hshape with ⟨_, rfl⟩ | ⟨a, cmt, l, _, rfl, _, _, hlc, hltc, hla, _, _, hlnz, hlsc⟩
        · exact hmain q hq
        · rcases List.mem_append.mp hq with hq | hq
          · exact hmain q hq
          · simp at hq; subst hq
            exact ⟨hlnz, fun _ => hla, by rw [hla]; exact hlsc⟩
      split at h
      · cases h
      · rename_i q0 qs
        split at h
        · cases h
        · rename_i hany
          split at h
          · exact absurd h (Outcome.inexact_ne_ok _ _)   -- checked arithmetic (fix of F6)
          · rename_i s hs
            split at h
            · rename_i hz
              cases h
              have hsum := txnSum_units (q0 :: qs) s (fun q hq => (hall q hq).2.2) hs
              refine ⟨q0.txnComm, ?_, ?_⟩
              · intro p hp
                have hc : p.txnComm = q0.txnComm := by
                  have := hany
                  simp only [List.any_eq_true, not_exists, not_and, bne_iff_ne, ne_eq, Decidable.not_not] at this
                  exact this p hp
                refine ⟨(hall p hp).1, hc, ?_⟩
                intro hpc
                exact (hall p hp).2.1 (hpc.trans hc.symm)
              · show ((q0 :: qs).map (·.txnAmount.units)).sum = 0
                rw [← hsum.1]; exact Dec.units_zero s hz
            · cases h

/-- **C01.** A posting that is not denominated in the transaction commodity carries a closing
    price (`@` unit price, never negative, or `=` total) into it, and is valued by that price. -/
theorem foreign_posting_priced (st st' : Settings) (r : RawTxn) (t : Txn) (hwf : RawWF r)
    (h : acceptTxn st r = .ok (t, st')) :
    ∀ p ∈ t.posts, p.comm ≠ p.txnComm → ∃ rp ∈ r.posts, rp.acct = p.acct ∧ rp.amount = p.amount ∧ Priced rp p := by
  unfold acceptTxn at h
  split at h
  · cases h
  · cases h
  · rename_i st1 _
    split at h
    · cases h
    · cases h
    · rename_i ps st2 hps
      obtain ⟨p0, rest, hgood, _, hshape⟩ := acceptPostings_shape st1 st2 r hwf ps hps
      have hps' : t.posts = ps := by
        split at h
        · cases h
        · split at h
          · cases h
          · split at h
            · exact absurd h (Outcome.inexact_ne_ok _ _)   -- checked arithmetic (fix of F6)
            · split at h
              · cases h; rfl
              · cases h
      intro p hp hne
      rw [hps'] at hp
      have hmain : ∀ q ∈ p0 :: rest, q.comm ≠ q.txnComm →
          ∃ rp ∈ r.posts, rp.acct = q.acct ∧ rp.amount = q.amount ∧ Priced rp q := by
        intro q hq hne
        obtain ⟨⟨rp, hrp, hg⟩, _⟩ := hgood q hq
        rcases hg.value with ⟨hc, _⟩ | ⟨_, hpr⟩
        · exact absurd hc hne
        · exact ⟨rp, hrp, hg.acct.symm, hg.amount.symm, hpr⟩
      rcases hshape with ⟨_, rfl⟩ | ⟨a, cmt, l, _, rfl, _, _, hlc, hltc, _⟩
      · exact hmain p hp hne
      · rcases List.mem_append.mp hp with hp | hp
        · exact hmain p hp hne
        · simp at hp; subst hp
          exact absurd (hlc.trans hltc.symm) hne

/-- **C01.** An amount-less last posting receives exactly the negated sum of the others, in the
    transaction commodity, and that amount is not zero. -/
theorem implicit_last (st st' : Settings) (r : RawTxn) (t : Txn) (hwf : RawWF r) (a : Path) (cmt : Option String)
    (hl : r.last = some (a, cmt)) (h : acceptTxn st r = .ok (t, st')) :
    ∃ others l, t.posts = others ++ [l] ∧ others.length = r.posts.length ∧ l.acct = a ∧
      l.comm = l.txnComm ∧ (∀ p ∈ others, p.txnComm = l.txnComm) ∧
      l.amount.units = - (others.map (·.txnAmount.units)).sum ∧ l.amount.units ≠ 0 := by
  have hbal := accept_balanced st st' r t hwf h
  unfold acceptTxn at h
  split at h
  · cases h
  · cases h
  · rename_i st1 _
    split at h
    · cases h
    · cases h
    · rename_i ps st2 hps
      obtain ⟨p0, rest, _, hlen, hshape⟩ := acceptPostings_shape st1 st2 r hwf ps hps
      have hps' : t.posts = ps := by
        split at h
        · cases h
        · split at h
          · cases h
          · split at h
            · exact absurd h (Outcome.inexact_ne_ok _ _)   -- checked arithmetic (fix of F6)
            · split at h
              · cases h; rfl
              · cases h
      rcases hshape with ⟨hn, _⟩ | ⟨a', cmt', l, hl', hall, hla, _, hlc, hltc, _, _, hsum, hnz, _⟩
      · rw [hl] at hn; cases hn
      · rw [hl] at hl'; cases hl'
        refine ⟨p0 :: rest, l, by rw [hps', hall], hlen, hla, hlc.trans hltc.symm, ?_, hsum, hnz⟩
        obtain ⟨c, hc, _⟩ := hbal
        intro p hp
        have h1 := (hc p (by rw [hps', hall]; exact List.mem_append_left _ hp)).2.1
        have h2 := (hc l (by rw [hps', hall]; simp)).2.1
        rw [h1, h2]

/-! ### rejections (each class of the property statement) -/

/-- helper: an error in any value-carrying posting rejects the transaction -/
theorem mapMS_err_of_mem {σ α β} (f : σ → α → Outcome (β × σ)) :
    ∀ (l : List α) (s : σ) (a : α), a ∈ l → (∀ s', f s' a = .err ∨ f s' a = .undef) →
      mapMS f s l = .err ∨ mapMS f s l = .undef := by
  intro l
  induction l with
  | nil => intro s a h; cases h
  | cons x t ih =>
    intro s a ha hf
    simp only [mapMS]
    rcases List.mem_cons.mp ha with rfl | ha'
    · rcases hf s with h | h <;> simp [h]
    · split
      · rename_i b s' _
        rcases ih s' a ha' hf with h | h <;> simp [h]
      · exact .inl rfl
      · exact .inr rfl

theorem acceptTxn_not_ok_of_posting (st : Settings) (r : RawTxn) (rp : RawPosting) (hrp : rp ∈ r.posts)
    (hbad : ∀ s, handlePosting s rp = .err ∨ handlePosting s rp = .undef) :
    ∀ t st', acceptTxn st r ≠ .ok (t, st') := by
  intro t st' h
  unfold acceptTxn at h
  split at h
  · cases h
  · cases h
  · rename_i st1 _
    have hm := mapMS_err_of_mem handlePosting r.posts st1 rp hrp hbad
    unfold acceptPostings at h
    rcases hm with hm | hm <;> simp [hm] at h

theorem handlePosting_bad_of_value (rp : RawPosting)
    (hv : valuePosition rp.amount rp.unit = .err) :
    ∀ s, handlePosting s rp = .err ∨ handlePosting s rp = .undef := by
  intro s
  unfold handlePosting
  split
  · exact .inl rfl
  · exact .inr rfl
  · simp [hv]

/-- a zero-amount posting (written `0`, `0.00`, `-0`, …) is rejected -/
theorem reject_zero_posting (st : Settings) (r : RawTxn) (rp : RawPosting) (hrp : rp ∈ r.posts)
    (hz : rp.amount.isZero = true) : ∀ t st', acceptTxn st r ≠ .ok (t, st') := by
  apply acceptTxn_not_ok_of_posting st r rp hrp
  intro s
  unfold handlePosting
  split
  · exact .inl rfl
  · exact .inr rfl
  · split
    · exact .inl rfl
    · exact .inr rfl
    · rename_i vp hvp
      have := (valuePosition_spec _ _ _ hvp).1
      split
      · exact .inl rfl
      · exact .inr rfl
      · simp [mkPosting, this, hz, Outcome.map]

/-- a closing price in the posting's own commodity is rejected -/
theorem reject_price_same_commodity (st : Settings) (r : RawTxn) (rp : RawPosting) (hrp : rp ∈ r.posts)
    (u : PostUnit) (cl : Closing) (hu : rp.unit = some u) (hcl : u.closing = some cl)
    (hsame : (match cl with | .unitPrice v => v.comm | .total v => v.comm) = u.comm) :
    ∀ t st', acceptTxn st r ≠ .ok (t, st') := by
  apply acceptTxn_not_ok_of_posting st r rp hrp
  apply handlePosting_bad_of_value
  unfold valuePosition
  rw [hu]
  cases cl <;> simp_all

/-- a negative unit price is rejected -/
theorem reject_negative_unit_price (st : Settings) (r : RawTxn) (rp : RawPosting) (hrp : rp ∈ r.posts)
    (u : PostUnit) (v : Val) (hu : rp.unit = some u) (hcl : u.closing = some (.unitPrice v))
    (hneg : v.value.isNeg = true) : ∀ t st', acceptTxn st r ≠ .ok (t, st') := by
  apply acceptTxn_not_ok_of_posting st r rp hrp
  apply handlePosting_bad_of_value
  unfold valuePosition
  rw [hu]
  simp only [hcl]
  split <;> simp_all

/-- a total price whose sign differs from the amount's is rejected -/
theorem reject_total_price_sign (st : Settings) (r : RawTxn) (rp : RawPosting) (hrp : rp ∈ r.posts)
    (u : PostUnit) (v : Val) (hu : rp.unit = some u) (hcl : u.closing = some (.total v))
    (hsign : v.value.isNeg ≠ rp.amount.isNeg) : ∀ t st', acceptTxn st r ≠ .ok (t, st') := by
  apply acceptTxn_not_ok_of_posting st r rp hrp
  apply handlePosting_bad_of_value
  unfold valuePosition
  rw [hu]
  simp only [hcl]
  have : (v.value.isNeg && rp.amount.isPos || rp.amount.isNeg && v.value.isPos) = true := by
    simp only [Dec.isPos, Dec.isNeg] at *
    cases h1 : v.value.neg <;> cases h2 : rp.amount.neg <;> simp_all
  split <;> simp_all

/-- postings whose transaction commodities differ (no closing price between them) are rejected,
    and so is a transaction whose values do not sum to zero: contrapositive form of `accept_balanced`
    stated on the accepted posting list -/
theorem reject_unbalanced_or_mixed (st st' : Settings) (r : RawTxn) (hwf : RawWF r) (ps : List Posting)
    (hps : acceptPostings st r.posts r.last = .ok (ps, st'))
    (hbad : (∃ p ∈ ps, ∃ q ∈ ps, p.txnComm ≠ q.txnComm) ∨ (ps.map (·.txnAmount.units)).sum ≠ 0)
    (hhdr : acceptHeader st0 r.header = .ok st) :
    ∀ t st'', acceptTxn st0 r ≠ .ok (t, st'') := by
  intro t st'' h
  have hbal := accept_balanced st0 st'' r t hwf h
  unfold acceptTxn at h
  rw [hhdr] at h
  simp only [hps] at h
  have hps' : t.posts = ps := by
    split at h
    · cases h
    · split at h
      · cases h
      · split at h
        · exact absurd h (Outcome.inexact_ne_ok _ _)   -- checked arithmetic (fix of F6)
        · split at h
          · cases h; rfl
          · cases h
  obtain ⟨c, hc, hsum⟩ := hbal
  rw [hps'] at hc hsum
  rcases hbad with ⟨p, hp, q, hq, hne⟩ | hne
  · exact hne (((hc p hp).2.1).trans ((hc q hq).2.1).symm)
  · exact hne hsum

/-! ### whole journals: every transaction or nothing -/

theorem journal_all_or_nothing (st st' : Settings) (rs : List RawTxn) (ts : List Txn)
    (hwf : ∀ r ∈ rs, RawWF r) (h : acceptJournal st rs = .ok (ts, st')) :
    ts.length = rs.length ∧ ∀ t ∈ ts, Balanced t := by
  unfold acceptJournal at h
  refine ⟨mapMS_length _ _ _ _ _ h, ?_⟩
  intro t ht
  obtain ⟨r, hr, s1, s2, hf⟩ := mapMS_ok acceptTxn rs st st' ts h t ht
  exact accept_balanced s1 s2 r t (hwf r hr) hf

/-- one transaction that cannot be accepted (in whatever settings state it is reached) rejects the
    whole journal: nothing is loaded -/
theorem journal_rejects (st : Settings) (rs : List RawTxn) (r : RawTxn) (hr : r ∈ rs)
    (hbad : ∀ s, acceptTxn s r = .err ∨ acceptTxn s r = .undef) :
    ∀ ts st', acceptJournal st rs ≠ .ok (ts, st') := by
  intro ts st' h
  unfold acceptJournal at h
  rcases mapMS_err_of_mem acceptTxn rs st r hr hbad with hm | hm <;> simp [hm] at h

/-- sorting at load keeps exactly the accepted transactions -/
theorem load_perm (st st' : Settings) (rs : List RawTxn) (ts : List Txn)
    (h : loadJournal st rs = .ok (ts, st')) :
    ∃ ts0, acceptJournal st rs = .ok (ts0, st') ∧ ts.Perm ts0 := by
  unfold loadJournal at h
  split at h
  · cases h
  · obtain ⟨⟨ts0, s0⟩, h0, he⟩ := (Outcome.map_ok _ _ _).mp h
    cases he
    exact ⟨ts0, h0, List.mergeSort_perm _ _⟩

/-! ### non-vacuity: concrete journals meeting the hypotheses -/

def d (n : Int) : Dec := Dec.ofInt n
def lax : Settings := Settings.ofConfig false false true [] [] []
def hdr0 : Header := ⟨⟨0, 0⟩, none, none, none, none, none, none⟩

/-- ` a 2 ACME @ 3 EUR / b` is accepted with implicit `b -6 EUR` -/
example : ∃ t st', acceptTxn lax ⟨hdr0, [⟨["a"], d 2, some ⟨"ACME", none, some (.unitPrice ⟨d 3, "EUR"⟩)⟩, none⟩],
      some (["b"], none)⟩ = .ok (t, st') ∧
    t.posts.map (fun p => (p.acct, p.amount, p.txnComm)) = [(["a"], d 2, "EUR"), (["b"], d (-6), "EUR")] := by
  refine ⟨_, _, rfl, ?_⟩; decide

/-- regression witnesses of F1 and F2 (fixed in the tree): both are rejected -/
example : acceptTxn lax ⟨hdr0, [⟨["a"], d 1, none, none⟩, ⟨["b"], d (-1), none, none⟩], some (["c"], none)⟩ = .err := by
  decide
example : acceptTxn lax ⟨hdr0, [⟨["a"], d 1, some ⟨"ACME", some ⟨d 120, "EUR"⟩, none⟩, none⟩,
    ⟨["b"], d (-1), none, none⟩], none⟩ = .err := by decide
example : RawWF ⟨hdr0, [⟨["a"], d 1, none, none⟩], none⟩ := by
  intro rp h; simp at h; subst h; simp [RawPostingWF, d, Dec.ofInt]

end C01
end Tackler

import TacklerModel.Lemmas.Order
import TacklerModel.Lemmas.AcceptOrder
import TacklerModel.Model.Balance
import TacklerModel.Props.C02
import TacklerModel.Props.C06
import TacklerModel.Props.C09
import TacklerModel.Props.C13
/-!
# C04 — results depend only on the set of transactions, not on how it was supplied

Every report, export and checksum of the model is a function of the *loaded list* (`TxnData::from` sorts once;
nothing downstream sees the supply order) and of the settings after the load.  Order-independence therefore has
two halves, both proved here for files of parse trees and for files of text:

**Loading** (`Lemmas/AcceptOrder.lean`: acceptance does not depend on the order in which transactions and files
pass through `Settings`).
* `shards_free` – two arrangements (lists of files, each a list of parse trees) whose flattenings are
  permutations of each other: both load or both fail; the loaded lists are permutations of each other; they are
  EQUAL when the transactions are pairwise distinguishable by (instant, code, description, uuid) = `hdrKey`; the
  settings after the load have the same switches and the same charts as sets.  `shards_status`: the class of a
  failure (error / outside the modelled domain) agrees as well unless the journal contains both kinds.
* `shards_free_files` – the same through `loadFiles` for text files that parse to such trees;
  `arrangements_text` – the same for *printed* arrangements: the accepted transactions of a journal, permuted,
  split over any number of files, each file in its own layout of the family of C06, load to the same list.
  (Concatenating arbitrary file texts is not a grammar-level operation — a file need not end in a blank line —
  so text-level sharding is stated for files that parse, and for the printed family where C06 gives the parse.)
* `sort_unique`, `any_output_arrangement_free`, `load_multiset`, `order_separates` – the list level.
* `layout_free`, `journal_roundtrip` – two layouts of the same transactions parse to the same trees (C06).

**Values** for transactions that are *not* distinguishable (the loaded lists are then only permutations):
* `values_perm` – balance rows: same keys in the same order, same own and tree sums as numbers (C02);
  `report_values_perm` – also through the account selector, with the same deltas;
* `group_candidates_perm`, `group_values_perm` – balance groups: same group keys, the groups are permutations,
  hence the same figures (C13's closed form);
* `checksum_perm`, `set_checksum_perm` – checksums (C09).
Equity export figures are balances of the loaded list (`C10`), not restated here.
* hash-order freedom: the balance kernel model has no iteration-order parameter any more (F8 fixed:
  ordered set); `balance_arrangement_free` records that `balance` is a plain function of the loaded list.
-/
set_option linter.unusedVariables false

namespace Tackler
namespace C04

/-- the transactions of an arrangement: any permutation of the set, split over any number of files,
    concatenated in any file order, is a permutation of the set -/
theorem shards_perm (files : List (List Txn)) (ts : List Txn) (h : files.flatten.Perm ts) :
    (sortTxns files.flatten).Perm (sortTxns ts) :=
  (sortTxns_perm _).trans (h.trans (sortTxns_perm _).symm)

/-- **C04 (order).** Two arrangements of pairwise distinguishable transactions load identically. -/
theorem sort_unique (xs ys : List Txn) (hp : xs.Perm ys)
    (hd : ∀ a b, a ∈ xs → b ∈ xs → hdrKey a.header = hdrKey b.header → a = b) :
    sortTxns xs = sortTxns ys := Tackler.sort_unique xs ys hp hd

/-- **C04 (all outputs).** Any output computed from the loaded list is the same for two arrangements
    (sharding over files included: take `xs := files.flatten`). -/
theorem any_output_arrangement_free {β} (out : List Txn → β) (xs ys : List Txn) (hp : xs.Perm ys)
    (hd : ∀ a b, a ∈ xs → b ∈ xs → hdrKey a.header = hdrKey b.header → a = b) :
    out (sortTxns xs) = out (sortTxns ys) := by
  rw [sort_unique xs ys hp hd]

/-- **C04 (multiset).** Without distinguishability the loaded lists are permutations of each other. -/
theorem load_multiset (xs ys : List Txn) (hp : xs.Perm ys) : (sortTxns xs).Perm (sortTxns ys) :=
  (sortTxns_perm xs).trans (hp.trans (sortTxns_perm ys).symm)

/-- the loaded list is sorted: the canonical order of every report -/
theorem load_sorted (xs : List Txn) : (sortTxns xs).Pairwise (fun a b => txnLe a b = true) :=
  sortTxns_sorted xs

/-- equal keys are exactly what the order cannot separate -/
theorem order_separates (a b : Header) : (hdrLe a b = true ∧ hdrLe b a = true) ↔ hdrKey a = hdrKey b := by
  constructor
  · intro ⟨h1, h2⟩; exact hdrLe_antisymm a b h1 h2
  · intro h
    have ha := hdrLe_refl a
    unfold hdrLe at *
    rw [← h]
    exact ⟨ha, ha⟩

/-- the balance of an arrangement is a function of the loaded list only (no hash order, no file order) -/
theorem balance_arrangement_free (st : Settings) (sel : BalRow → Bool) (xs ys : List Txn) (hp : xs.Perm ys)
    (hd : ∀ a b, a ∈ xs → b ∈ xs → hdrKey a.header = hdrKey b.header → a = b) :
    fromIter st sel (postsOf (sortTxns xs)) = fromIter st sel (postsOf (sortTxns ys)) :=
  any_output_arrangement_free (fun l => fromIter st sel (postsOf l)) xs ys hp hd

/-! ## loading: arrangements of parse trees and of texts -/

open AcceptOrder in
/-- **C04 `shards_free`.**  Two arrangements of the same parse trees — permuted, split over files, merged, the
    files in any order: both load or both fail; when they load, the loaded lists are permutations of each other,
    *equal* when the transactions are pairwise distinguishable by `hdrKey`, and (`hcl`: lax mode starts from an
    ancestor-closed account chart, as `Settings.ofConfig` builds it) the settings after the load have the same
    switches and the same charts as sets, in lax mode both account charts ancestor-closed. -/
theorem shards_free (st : Settings) (A B : List (List RawTxn)) (hp : A.flatten.Perm B.flatten) :
    (loadTrees st A).isOk = (loadTrees st B).isOk ∧
    ∀ la sa lb sb, loadTrees st A = .ok (la, sa) → loadTrees st B = .ok (lb, sb) →
      la.Perm lb ∧
      ((∀ a b, a ∈ A.flatten → b ∈ A.flatten → hdrKey a.header = hdrKey b.header → a = b) → la = lb) ∧
      ((st.strict = false → C12.AncClosed st.accounts) →
        SameCharts sa sb ∧ (st.strict = false → C12.AncClosed sa.accounts ∧ C12.AncClosed sb.accounts)) := by
  rw [loadTrees_eq, loadTrees_eq]
  constructor
  · have := fail_perm st _ _ hp
    cases h1 : acceptJournal st A.flatten <;> cases h2 : acceptJournal st B.flatten <;>
      simp_all [Outcome.isOk, Outcome.map]
  · intro la sa lb sb h1 h2
    obtain ⟨⟨ta, sa'⟩, ha, ea⟩ := (Outcome.map_ok _ _ _).mp h1
    obtain ⟨⟨tb, sb'⟩, hb, eb⟩ := (Outcome.map_ok _ _ _).mp h2
    simp only [Prod.mk.injEq] at ea eb
    obtain ⟨rfl, rfl⟩ := ea
    obtain ⟨rfl, rfl⟩ := eb
    obtain ⟨tb', sb'', hb', _, _, hperm⟩ := accept_perm st sa' _ _ ta hp ha
    rw [hb] at hb'
    cases hb'
    refine ⟨load_multiset ta tb hperm, ?_, ?_⟩
    · intro hd
      exact sort_unique ta tb hperm (accepted_distinct st sa' _ ta ha hd)
    · intro hcl
      exact final_state_perm st sa' sb' _ _ ta tb hp hcl ha hb

open AcceptOrder in
/-- the class of the failure agrees too, unless the transactions contain both one that is rejected on its own and
    one that is outside the modelled numeric domain on its own (then the first in supply order decides:
    `AcceptOrder.status_order_witness`) -/
theorem shards_status (st : Settings) (A B : List (List RawTxn)) (hp : A.flatten.Perm B.flatten)
    (hone : (∀ r ∈ A.flatten, acc st r ≠ .undef) ∨ (∀ r ∈ A.flatten, acc st r ≠ .err)) :
    status (loadTrees st A) = status (loadTrees st B) := by
  rw [loadTrees_eq, loadTrees_eq]
  have := status_perm st _ _ hp hone
  cases h1 : acceptJournal st A.flatten <;> cases h2 : acceptJournal st B.flatten <;>
    simp_all [status, Outcome.map]

open AcceptOrder in
/-- **`shards_free` at text level** (`paths_to_txns`): two lists of file texts that parse, file by file, to
    arrangements of the same parse trees load alike. -/
theorem shards_free_files (cfg : Time.TsCfg) (st : Settings) (fa fb : List (List Char)) (A B : List (List RawTxn))
    (hpa : fa.map (Syntax.parseJournal cfg) = A.map some) (hpb : fb.map (Syntax.parseJournal cfg) = B.map some)
    (hp : A.flatten.Perm B.flatten) :
    (loadFiles cfg st fa).isOk = (loadFiles cfg st fb).isOk ∧
    ∀ la sa lb sb, loadFiles cfg st fa = .ok (la, sa) → loadFiles cfg st fb = .ok (lb, sb) →
      la.Perm lb ∧
      ((∀ a b, a ∈ A.flatten → b ∈ A.flatten → hdrKey a.header = hdrKey b.header → a = b) → la = lb) ∧
      ((st.strict = false → C12.AncClosed st.accounts) →
        SameCharts sa sb ∧ (st.strict = false → C12.AncClosed sa.accounts ∧ C12.AncClosed sb.accounts)) := by
  rw [loadFiles_eq cfg fa A st hpa, loadFiles_eq cfg fb B st hpb]
  exact shards_free st A B hp

/-- one text against any sharding of its transactions -/
theorem one_file_vs_shards (cfg : Time.TsCfg) (st : Settings) (text : List Char) (rs : List RawTxn)
    (fb : List (List Char)) (B : List (List RawTxn))
    (hpa : Syntax.parseJournal cfg text = some rs) (hne : rs ≠ [])
    (hpb : fb.map (Syntax.parseJournal cfg) = B.map some) (hp : rs.Perm B.flatten)
    (hd : ∀ a b, a ∈ rs → b ∈ rs → hdrKey a.header = hdrKey b.header → a = b) :
    ∀ la sa lb sb, loadText cfg st text = .ok (la, sa) → loadFiles cfg st fb = .ok (lb, sb) → la = lb := by
  intro la sa lb sb h1 h2
  rw [AcceptOrder.loadText_eq cfg text rs st hpa hne] at h1
  rw [AcceptOrder.loadFiles_eq cfg fb B st hpb] at h2
  exact ((shards_free st [rs] B (by simpa using hp)).2 la sa lb sb h1 h2).2.1 (by simpa using hd)

/-- an arrangement of accepted transactions as text: every file a chunk of transactions printed in its own layout -/
def printFiles (div : Dec → Dec → Dec) (A : List (Print.Layout × List Txn)) : List (List Char) :=
  A.map (fun f => Print.printL f.1 div f.2)

/-- **`arrangements_text`.**  Take the transactions `ts` a journal was accepted to; arrange them in any order over
    any number of files (non-empty chunks), each file printed in its own layout of the family of C06 (indent,
    blank lines, metadata order, line ends): the files load, to the sorted concatenation of the chunks — a
    permutation of the originally loaded list, and equal to it when transactions are distinguishable
    (`arrangements_text_unique`).  Assumes, as C06 does, `DivExact` and the lexical well-formedness `WF`/`UnitNE`. -/
theorem arrangements_text (cfg : Time.TsCfg) (div : Dec → Dec → Dec) (st st' : Settings) (rs : List RawTxn)
    (ts : List Txn) (hacc : acceptJournal st rs = .ok (ts, st'))
    (hne : ∀ r ∈ rs, ∀ rp ∈ r.posts, C06.UnitNE rp.unit)
    (hw : ∀ t ∈ ts, C06.WF div t) (hdiv : ∀ t ∈ ts, ∀ p ∈ t.posts, C06.DivExact div p)
    (A : List (Print.Layout × List Txn)) (hL : ∀ f ∈ A, Syntax.LayoutOK f.1 ∧ f.2 ≠ [])
    (hp : (A.map (·.2)).flatten.Perm ts) :
    ∃ sa, loadFiles cfg st (printFiles div A) = .ok (sortTxns (A.map (·.2)).flatten, sa) := by
  have hmem : ∀ f ∈ A, ∀ t ∈ f.2, t ∈ ts := by
    intro f hf t ht
    exact hp.subset (List.mem_flatten.mpr ⟨f.2, List.mem_map.mpr ⟨f, hf, rfl⟩, ht⟩)
  have hparse : (printFiles div A).map (Syntax.parseJournal cfg) =
      (A.map (fun f => f.2.map (Print.rawOf div))).map some := by
    unfold printFiles
    rw [List.map_map, List.map_map]
    apply List.map_congr_left
    intro f hf
    obtain ⟨h1, h2⟩ := hL f hf
    simp only [Function.comp]
    exact C06.journal_roundtrip cfg f.1 h1 div f.2 h2 (fun t ht => hw t (hmem f hf t ht))
  rw [AcceptOrder.loadFiles_eq cfg _ _ st hparse, AcceptOrder.loadTrees_eq]
  have hflat : (A.map (fun f => f.2.map (Print.rawOf div))).flatten = ((A.map (·.2)).flatten).map (Print.rawOf div) := by
    rw [List.map_flatten, List.map_map]; rfl
  rw [hflat]
  obtain ⟨sa, h⟩ := C06.reaccept_perm div st st' rs ts _ hacc hp hne hdiv
  exact ⟨sa, by rw [h]; rfl⟩

/-- two printed arrangements of distinguishable transactions load to the same list -/
theorem arrangements_text_unique (cfg : Time.TsCfg) (div : Dec → Dec → Dec) (st st' : Settings) (rs : List RawTxn)
    (ts : List Txn) (hacc : acceptJournal st rs = .ok (ts, st'))
    (hne : ∀ r ∈ rs, ∀ rp ∈ r.posts, C06.UnitNE rp.unit)
    (hw : ∀ t ∈ ts, C06.WF div t) (hdiv : ∀ t ∈ ts, ∀ p ∈ t.posts, C06.DivExact div p)
    (hd : ∀ a b, a ∈ ts → b ∈ ts → hdrKey a.header = hdrKey b.header → a = b)
    (A B : List (Print.Layout × List Txn)) (hLA : ∀ f ∈ A, Syntax.LayoutOK f.1 ∧ f.2 ≠ [])
    (hLB : ∀ f ∈ B, Syntax.LayoutOK f.1 ∧ f.2 ≠ [])
    (hpA : (A.map (·.2)).flatten.Perm ts) (hpB : (B.map (·.2)).flatten.Perm ts) :
    ∃ sa sb, loadFiles cfg st (printFiles div A) = .ok (sortTxns ts, sa) ∧
      loadFiles cfg st (printFiles div B) = .ok (sortTxns ts, sb) := by
  obtain ⟨sa, ha⟩ := arrangements_text cfg div st st' rs ts hacc hne hw hdiv A hLA hpA
  obtain ⟨sb, hb⟩ := arrangements_text cfg div st st' rs ts hacc hne hw hdiv B hLB hpB
  have ea := sort_unique ts _ hpA.symm hd
  have eb := sort_unique ts _ hpB.symm hd
  exact ⟨sa, sb, by rw [ea]; exact ha, by rw [eb]; exact hb⟩

/-- **`layout_free`** (C06): two layouts of the same transactions parse to the same trees -/
theorem layout_free (cfg₁ cfg₂ : Time.TsCfg) (L₁ L₂ : Print.Layout) (h₁ : Syntax.LayoutOK L₁) (h₂ : Syntax.LayoutOK L₂)
    (div : Dec → Dec → Dec) (ts : List Txn) (hne : ts ≠ []) (hw : ∀ t ∈ ts, C06.WF div t) :
    Syntax.parseJournal cfg₁ (Print.printL L₁ div ts) = Syntax.parseJournal cfg₂ (Print.printL L₂ div ts) :=
  C06.layout_free cfg₁ cfg₂ L₁ L₂ h₁ h₂ div ts hne hw

theorem journal_roundtrip (cfg : Time.TsCfg) (L : Print.Layout) (hL : Syntax.LayoutOK L) (div : Dec → Dec → Dec)
    (ts : List Txn) (hne : ts ≠ []) (hw : ∀ t ∈ ts, C06.WF div t) :
    Syntax.parseJournal cfg (Print.printL L div ts) = some (ts.map (Print.rawOf div)) :=
  C06.journal_roundtrip cfg L hL div ts hne hw

/-! ## values: figures of permuted loads (no distinguishability) -/

open C02 KeyOrder ListSum

theorem postsOf_perm (la lb : List Txn) (hp : la.Perm lb) : (postsOf la).Perm (postsOf lb) := by
  unfold postsOf
  exact hp.flatMap_right _

theorem postsWF_perm (posts posts' : List BPost) (hp : posts.Perm posts') (h : PostsWF posts) : PostsWF posts' :=
  ⟨fun p hp' => h.scale p (hp.symm.subset hp'), fun p hp' => h.nonempty p (hp.symm.subset hp'),
   fun p q ⟨x, hx, hpx⟩ ⟨y, hy, hqy⟩ hn =>
     h.namesInj p q ⟨x, hp.symm.subset hx, hpx⟩ ⟨y, hp.symm.subset hy, hqy⟩ hn⟩

theorem ownSum_perm (posts posts' : List BPost) (hp : posts.Perm posts') (k : AKey) :
    ownSum posts k = ownSum posts' k := by
  unfold ownSum
  exact perm_sum ((hp.filter _).map _)

theorem treeSum_perm (posts posts' : List BPost) (hp : posts.Perm posts') (k : AKey) :
    treeSum posts k = treeSum posts' k := by
  unfold treeSum
  exact perm_sum ((hp.filter _).map _)

/-- what a balance row says, as numbers: (commodity, account), own sum, tree sum in units of 10⁻²⁸ -/
def rowVal (r : BalRow) : AKey × Int × Int := (r.key, r.own.units, r.tree.units)

theorem strict_keys_ext {l₁ l₂ : List AKey} (h1 : l₁.Pairwise (fun a b => keyLt a b = true))
    (h2 : l₂.Pairwise (fun a b => keyLt a b = true)) (hm : ∀ k, k ∈ l₁ ↔ k ∈ l₂) : l₁ = l₂ := by
  apply sorted_perm_eq (fun a b : AKey => keyLt a b = true) l₁ l₂
    ((List.perm_ext_iff_of_nodup (nodup_of_pairwise_keyLt _ h1) (nodup_of_pairwise_keyLt _ h2)).mpr hm) h1 h2
  intro a b _ _ hab hba
  rw [keyLt_asymm a b hab] at hba
  cases hba

/-- **C04 `values_perm`.**  Balances of two permuted posting streams (e.g. the loads of two arrangements whose
    transactions are *not* distinguishable), computed with whatever settings: the same rows in the same order —
    same (commodity, account) keys, same own sums and same tree sums as numbers.  (Stored scales may differ:
    `0.00 + 5` prints `5`, `5 + 1.00 - 1.00` prints `5.00`.) -/
theorem values_perm (st st' : Settings) (posts posts' : List BPost) (hp : posts.Perm posts') (hwf : PostsWF posts)
    (bal bal' : List BalRow) (h : balance st posts = .ok bal) (h' : balance st' posts' = .ok bal') :
    bal.map rowVal = bal'.map rowVal := by
  have hwf' := postsWF_perm posts posts' hp hwf
  obtain ⟨hs, hk⟩ := rows_exact st posts hwf bal h
  obtain ⟨hs', hk'⟩ := rows_exact st' posts' hwf' bal' h'
  have hkeys : bal.map (·.key) = bal'.map (·.key) := by
    apply strict_keys_ext hs hs'
    intro k
    rw [hk, hk']
    constructor
    · rintro (⟨p, hpm, e⟩ | ⟨p, hpm, e⟩)
      · exact .inl ⟨p, hp.subset hpm, e⟩
      · exact .inr ⟨p, hp.subset hpm, e⟩
    · rintro (⟨p, hpm, e⟩ | ⟨p, hpm, e⟩)
      · exact .inl ⟨p, hp.symm.subset hpm, e⟩
      · exact .inr ⟨p, hp.symm.subset hpm, e⟩
  have e1 : bal.map rowVal = (bal.map (·.key)).map (fun k => (k, ownSum posts k, treeSum posts k)) := by
    rw [List.map_map]
    apply List.map_congr_left
    intro r hr
    simp only [rowVal, Function.comp, own_sum st posts hwf bal h r hr, tree_sum_posts st posts hwf bal h r hr]
  have e2 : bal'.map rowVal = (bal'.map (·.key)).map (fun k => (k, ownSum posts k, treeSum posts k)) := by
    rw [List.map_map]
    apply List.map_congr_left
    intro r hr
    simp only [rowVal, Function.comp, own_sum st' posts' hwf' bal' h' r hr, tree_sum_posts st' posts' hwf' bal' h' r hr,
      ownSum_perm posts posts' hp, treeSum_perm posts posts' hp]
  rw [e1, e2, hkeys]

/-- the same for the loads of two arrangements: `la`, `lb` permutations of each other (`shards_free`) -/
theorem load_values_perm (st st' : Settings) (la lb : List Txn) (hp : la.Perm lb) (hwf : PostsWF (postsOf la))
    (bal bal' : List BalRow) (h : balance st (postsOf la) = .ok bal) (h' : balance st' (postsOf lb) = .ok bal') :
    bal.map rowVal = bal'.map rowVal :=
  values_perm st st' _ _ (postsOf_perm la lb hp) hwf bal bal' h h'

/-- what a delta line says, as numbers -/
def deltaVal (d : String × Dec) : String × Int := (d.1, d.2.units)

/-- the delta of commodity `c` computed from the row values -/
def deltaOf (vs : List (AKey × Int × Int)) (c : String) : Int :=
  ((vs.filter (fun v => decide (v.1.1 = c))).map (·.2.1)).sum

theorem deltas_from_rows (st : Settings) (sel : BalRow → Bool) (posts : List BPost) (hwf : PostsWF posts) (b : Balance)
    (h : fromIter st sel posts = .ok b) :
    (b.deltas.map (·.1)).Pairwise (· < ·) ∧
    (∀ c, c ∈ b.deltas.map (·.1) ↔ ∃ v ∈ b.rows.map rowVal, v.1.1 = c) ∧
    b.deltas.map deltaVal = (b.deltas.map (·.1)).map (fun c => (c, deltaOf (b.rows.map rowVal) c)) := by
  obtain ⟨_, hstrict, hmem, hval⟩ := delta_eq st sel posts hwf b h
  refine ⟨hstrict, ?_, ?_⟩
  · intro c
    rw [hmem]
    constructor
    · rintro ⟨r, hr, e⟩; exact ⟨rowVal r, List.mem_map_of_mem hr, e⟩
    · rintro ⟨v, hv, e⟩
      obtain ⟨r, hr, rfl⟩ := List.mem_map.mp hv
      exact ⟨r, hr, e⟩
  · rw [List.map_map]
    apply List.map_congr_left
    intro cd hcd
    simp only [deltaVal, Function.comp, hval cd hcd, deltaOf, List.filter_map, List.map_map]
    rfl

/-- **`report_values_perm`.**  The balance *report* (account selector applied, deltas) of two permuted posting
    streams: same listed rows as numbers, same delta lines as numbers — for a selector that looks at the
    (commodity, account) key only, as the account selectors do. -/
theorem report_values_perm (st st' : Settings) (sel : BalRow → Bool) (hsel : ∀ r r' : BalRow, r.key = r'.key → sel r = sel r')
    (posts posts' : List BPost) (hp : posts.Perm posts') (hwf : PostsWF posts)
    (b b' : Balance) (h : fromIter st sel posts = .ok b) (h' : fromIter st' sel posts' = .ok b') :
    b.rows.map rowVal = b'.rows.map rowVal ∧ b.deltas.map deltaVal = b'.deltas.map deltaVal := by
  have hwf' := postsWF_perm posts posts' hp hwf
  obtain ⟨⟨bal, hb, hrows⟩, _⟩ := delta_eq st sel posts hwf b h
  obtain ⟨⟨bal', hb', hrows'⟩, _⟩ := delta_eq st' sel posts' hwf' b' h'
  have hv := values_perm st st' posts posts' hp hwf bal bal' hb hb'
  let selV : AKey × Int × Int → Bool := fun v => sel ⟨v.1.2, v.1.1, Dec.zero, Dec.zero⟩
  have hsv : ∀ r : BalRow, sel r = selV (rowVal r) := fun r => hsel _ _ rfl
  have hrv : ∀ l : List BalRow, (l.filter sel).map rowVal = (l.map rowVal).filter selV := by
    intro l
    rw [List.filter_map]
    congr 1
    apply List.filter_congr
    intro r _
    exact hsv r
  have hrowsEq : b.rows.map rowVal = b'.rows.map rowVal := by rw [hrows, hrows', hrv, hrv, hv]
  refine ⟨hrowsEq, ?_⟩
  obtain ⟨s1, m1, v1⟩ := deltas_from_rows st sel posts hwf b h
  obtain ⟨s2, m2, v2⟩ := deltas_from_rows st' sel posts' hwf' b' h'
  have hk : b.deltas.map (·.1) = b'.deltas.map (·.1) := by
    apply C13.strict_ext s1 s2
    intro c
    rw [m1, m2, hrowsEq]
  rw [v1, v2, hk, hrowsEq]

/-- **`group_candidates_perm`.**  Balance groups of two permuted transaction lists: the same group keys in the same
    order, and the group of every key holds the same transactions up to order. -/
theorem group_candidates_perm (key : Txn → String) (ts ts' : List Txn) (hp : ts.Perm ts') :
    (groupCandidates key ts).map (·.1) = (groupCandidates key ts').map (·.1) ∧
    ∀ k g g', (k, g) ∈ groupCandidates key ts → (k, g') ∈ groupCandidates key ts' → g.Perm g' := by
  have hs := C13.candidates_spec key ts
  have hs' := C13.candidates_spec key ts'
  have hmem : ∀ (l : List Txn), ∀ k, k ∈ (groupCandidates key l).map (·.1) ↔ ∃ t ∈ l, key t = k := by
    intro l k
    have hl := C13.candidates_spec key l
    constructor
    · intro hk
      obtain ⟨kg, hkg, rfl⟩ := List.mem_map.mp hk
      obtain ⟨hne, hall⟩ := hl.members kg hkg
      obtain ⟨t, tl, e⟩ := List.exists_cons_of_ne_nil hne
      have ht : t ∈ kg.2 := by rw [e]; exact List.mem_cons_self
      have : t ∈ l := by
        have := hl.filter kg hkg
        rw [this] at ht
        exact (List.mem_filter.mp ht).1
      exact ⟨t, this, hall t ht⟩
    · rintro ⟨t, ht, rfl⟩
      have : t ∈ ((groupCandidates key l).map (·.2)).flatten := hl.perm.symm.subset ht
      obtain ⟨g, hg, htg⟩ := List.mem_flatten.mp this
      obtain ⟨kg, hkg, rfl⟩ := List.mem_map.mp hg
      exact List.mem_map.mpr ⟨kg, hkg, ((hl.members kg hkg).2 t htg).symm⟩
  refine ⟨?_, ?_⟩
  · apply C13.strict_ext hs.strict hs'.strict
    intro k
    rw [hmem ts k, hmem ts' k]
    constructor
    · rintro ⟨t, ht, e⟩; exact ⟨t, hp.subset ht, e⟩
    · rintro ⟨t, ht, e⟩; exact ⟨t, hp.symm.subset ht, e⟩
  · intro k g g' hg hg'
    have e1 := hs.filter (k, g) hg
    have e2 := hs'.filter (k, g') hg'
    simp only at e1 e2
    rw [e1, e2]
    exact hp.filter _

/-- **`group_values_perm`.**  … hence every balance group shows the same figures. -/
theorem group_values_perm (key : Txn → String) (ts ts' : List Txn) (hp : ts.Perm ts') (st st' : Settings)
    (k : String) (g g' : List Txn) (hg : (k, g) ∈ groupCandidates key ts) (hg' : (k, g') ∈ groupCandidates key ts')
    (hwf : PostsWF (postsOf g)) (bal bal' : List BalRow)
    (h : balance st (postsOf g) = .ok bal) (h' : balance st' (postsOf g') = .ok bal') :
    bal.map rowVal = bal'.map rowVal :=
  load_values_perm st st' g g' ((group_candidates_perm key ts ts' hp).2 k g g' hg hg') hwf bal bal' h h'

/-- **`checksum_perm`** (C09): the transaction-set checksum (error or digest) of permuted lists -/
theorem checksum_perm (a b : List Txn) (alg : Hash.Algo) (h : a.Perm b) :
    calcTxnChecksum a alg = calcTxnChecksum b alg := C09.checksum_perm a b alg h

/-- … and of what a filter selects from them -/
theorem set_checksum_perm (hash : Option Hash.Algo) (tf : Txn → Bool) (a b : List Txn) (h : a.Perm b) :
    (TxnData.filter hash tf a).map (·.checksum) = (TxnData.filter hash tf b).map (·.checksum) :=
  C09.set_checksum_perm hash tf a b h

/-! ### non-vacuity -/

def h1 : Header := ⟨⟨10, 0⟩, none, none, none, none, none, none⟩
def h2 : Header := ⟨⟨10, 3600⟩, some "", none, none, none, none, none⟩   -- same instant, empty code: sorts after `h1`
def t1 : Txn := ⟨h1, []⟩
def t2 : Txn := ⟨h2, []⟩

example : sortTxns [t2, t1] = sortTxns [t1, t2] := by
  apply sort_unique _ _ (List.Perm.swap t1 t2 [])
  intro a b ha hb hk
  simp at ha hb
  rcases ha with rfl | rfl <;> rcases hb with rfl | rfl <;> first | rfl | (exfalso; revert hk; decide)
example : hdrKey h1 ≠ hdrKey h2 := by decide
/-- regression witness of F14: an absent and an empty code are separated by the order -/
example : hdrLe h1 h2 = true ∧ hdrLe h2 h1 = false := by decide

/-- two arrangements of two transactions (two files vs one file in the other order), lax mode: both are accepted,
    to the same transactions in the respective orders; the settings after the load are *not* equal — accounts and
    commodities were registered in different orders — but equal as sets, which is what `shards_free` states -/
def rA : RawTxn := ⟨h1, [⟨["a", "b"], Dec.ofInt 1, none, none⟩], some (["c"], none)⟩
def rB : RawTxn := ⟨h2, [⟨["d"], Dec.ofInt 2, some ⟨"X", none, none⟩, none⟩], some (["a"], none)⟩
def lax0 : Settings := Settings.ofConfig false false true [] [] []

example : (match AcceptOrder.acceptTrees lax0 [[rA], [rB]], AcceptOrder.acceptTrees lax0 [[rB, rA]] with
    | .ok (ta, sa), .ok (tb, sb) =>
      decide (ta = tb.reverse ∧ ta.length = 2 ∧ sa.accounts ≠ sb.accounts ∧ sa.commodities ≠ sb.commodities ∧
        (∀ p ∈ sa.accounts, p ∈ sb.accounts) ∧ (∀ p ∈ sb.accounts, p ∈ sa.accounts) ∧
        (∀ c ∈ sa.commodities, c ∈ sb.commodities) ∧ (∀ c ∈ sb.commodities, c ∈ sa.commodities))
    | _, _ => false) = true := by decide

/-- the hypotheses of `shards_free` for these arrangements -/
example : ([[rA], [rB]] : List (List RawTxn)).flatten.Perm ([[rB, rA]] : List (List RawTxn)).flatten :=
  List.Perm.swap rB rA []
example : lax0.strict = false → C12.AncClosed lax0.accounts := fun _ => by intro p hp; cases hp

end C04
end Tackler

import TacklerModel.Lemmas.Order
import TacklerModel.Model.Balance
/-!
# C04 — results depend only on the set of transactions, not on how it was supplied

Every report, export and checksum of the model is a function of the *loaded list*
`sortTxns ts` (`TxnData::from` sorts once; nothing downstream sees the supply order).  Hence
order-independence reduces to: two arrangements of the same transactions load to the same list.
* `sort_unique` – they do, when transactions are pairwise distinguishable by
  (instant, code, description, uuid) (after the fix of F14 the header order separates an absent from an
  empty code/description, so "distinguishable" is exactly "different sort key").
* `any_output_arrangement_free` – consequently any function of the loaded list (identity/equity
  export, balance, balance-group, register, checksum texts) is arrangement-free.
* `load_multiset` – without distinguishability the loaded lists are still permutations of each other
  (figures that are sums over the multiset – balance values, checksums – are then equal; the value-level
  statements live with C02 `own_sum`/`tree_sum` and C09 `checksum_perm`).
* hash-order freedom: the balance kernel model has no iteration-order parameter any more (F8 fixed:
  ordered set); `balance_no_hidden_order` records that `balance` is a plain function.
-/
namespace Tackler
namespace C04

/-- the transactions of an arrangement: any permutation of the set, split over any number of files,
    concatenated in any file order, is a permutation of the set -/
theorem shards_perm (files : List (List Txn)) (ts : List Txn) (h : files.flatten.Perm ts) :
    (sortTxns files.flatten).Perm (sortTxns ts) :=
  (sortTxns_perm _).trans (h.trans (sortTxns_perm _).symm)

/-- **C04 (order).** Two arrangements of pairwise distinguishable transactions load identically. -/
theorem sort_unique (xs ys : List Txn) (hp : xs.Perm ys)
    (hd : ∀ a b, a ∈ xs → b ∈ xs → hdrKey a.header = hdrKey b.header → a = b) :
    sortTxns xs = sortTxns ys := Tackler.sort_unique xs ys hp hd

/-- **C04 (all outputs).** Any output computed from the loaded list is the same for two arrangements
    (sharding over files included: take `xs := files.flatten`). -/
theorem any_output_arrangement_free {β} (out : List Txn → β) (xs ys : List Txn) (hp : xs.Perm ys)
    (hd : ∀ a b, a ∈ xs → b ∈ xs → hdrKey a.header = hdrKey b.header → a = b) :
    out (sortTxns xs) = out (sortTxns ys) := by
  rw [sort_unique xs ys hp hd]

/-- **C04 (multiset).** Without distinguishability the loaded lists are permutations of each other. -/
theorem load_multiset (xs ys : List Txn) (hp : xs.Perm ys) : (sortTxns xs).Perm (sortTxns ys) :=
  (sortTxns_perm xs).trans (hp.trans (sortTxns_perm ys).symm)

/-- the loaded list is sorted: the canonical order of every report -/
theorem load_sorted (xs : List Txn) : (sortTxns xs).Pairwise (fun a b => txnLe a b = true) :=
  sortTxns_sorted xs

/-- equal keys are exactly what the order cannot separate -/
theorem order_separates (a b : Header) : (hdrLe a b = true ∧ hdrLe b a = true) ↔ hdrKey a = hdrKey b := by
  constructor
  · intro ⟨h1, h2⟩; exact hdrLe_antisymm a b h1 h2
  · intro h
    have ha := hdrLe_refl a
    unfold hdrLe at *
    rw [← h]
    exact ⟨ha, ha⟩

/-- the balance of an arrangement is a function of the loaded list only (no hash order, no file order) -/
theorem balance_arrangement_free (st : Settings) (sel : BalRow → Bool) (xs ys : List Txn) (hp : xs.Perm ys)
    (hd : ∀ a b, a ∈ xs → b ∈ xs → hdrKey a.header = hdrKey b.header → a = b) :
    fromIter st sel (postsOf (sortTxns xs)) = fromIter st sel (postsOf (sortTxns ys)) :=
  any_output_arrangement_free (fun l => fromIter st sel (postsOf l)) xs ys hp hd

/-! ### non-vacuity -/

def h1 : Header := ⟨⟨10, 0⟩, none, none, none, none, none, none⟩
def h2 : Header := ⟨⟨10, 3600⟩, some "", none, none, none, none, none⟩   -- same instant, empty code: sorts after `h1`
def t1 : Txn := ⟨h1, []⟩
def t2 : Txn := ⟨h2, []⟩

example : sortTxns [t2, t1] = sortTxns [t1, t2] := by
  apply sort_unique _ _ (List.Perm.swap t1 t2 [])
  intro a b ha hb hk
  simp at ha hb
  rcases ha with rfl | rfl <;> rcases hb with rfl | rfl <;> first | rfl | (exfalso; revert hk; decide)
example : hdrKey h1 ≠ hdrKey h2 := by decide
/-- regression witness of F14: an absent and an empty code are separated by the order -/
example : hdrLe h1 h2 = true ∧ hdrLe h2 h1 = false := by decide

end C04
end Tackler

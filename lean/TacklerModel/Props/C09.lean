import TacklerModel.Model.Audit
import TacklerModel.Lemmas.MapMS
/-!
# C09 — audit mode: UUIDs enforced; the set checksum is the specified hash of the set
-/
namespace Tackler
namespace C09
open Hash

/-! ## 1. audit mode requires a UUID on every transaction -/

/-! the audit flag is never changed by the load path -/

theorem gocc_audit (st st' : Settings) (n : Option String) (c : String)
    (h : st.getOrCreateCommodity n = .ok (c, st')) : st'.audit = st.audit := by
  unfold Settings.getOrCreateCommodity at h
  (repeat' split at h) <;> first | (cases h; done) | (cases h; rfl)

theorem gocta_audit (st st' : Settings) (p a : Path) (c : String)
    (h : st.getOrCreateTxnAccount p c = .ok (a, st')) : st'.audit = st.audit := by
  unfold Settings.getOrCreateTxnAccount at h
  split at h
  · cases h
  · cases h
  · rename_i x st1 hc
    have := gocc_audit st st1 _ _ hc
    (repeat' split at h) <;> first | (cases h; done) | (cases h; simpa using this)

theorem goct_audit (st st' : Settings) (n t : String)
    (h : st.getOrCreateTag n = .ok (t, st')) : st'.audit = st.audit := by
  unfold Settings.getOrCreateTag at h
  (repeat' split at h) <;> first | (cases h; done) | (cases h; rfl)

theorem registerUnit_audit (st st' : Settings) (u : Option PostUnit)
    (h : registerUnit st u = .ok st') : st'.audit = st.audit := by
  unfold registerUnit at h
  split at h
  · cases h; rfl
  · split at h
    · cases h
    · cases h
    · rename_i x st1 hc
      have h1 := gocc_audit _ _ _ _ hc
      split at h
      · cases h; exact h1
      · obtain ⟨⟨c, s2⟩, h2, he⟩ := (Outcome.map_ok _ _ _).mp h
        cases he
        exact (gocc_audit _ _ _ _ h2).trans h1
      · obtain ⟨⟨c, s2⟩, h2, he⟩ := (Outcome.map_ok _ _ _).mp h
        cases he
        exact (gocc_audit _ _ _ _ h2).trans h1

theorem handlePosting_audit (st st' : Settings) (rp : RawPosting) (p : Posting)
    (h : handlePosting st rp = .ok (p, st')) : st'.audit = st.audit := by
  unfold handlePosting at h
  split at h
  · cases h
  · cases h
  · rename_i st1 h1
    split at h
    · cases h
    · cases h
    · split at h
      · cases h
      · cases h
      · rename_i a st2 h2
        obtain ⟨q, _, he⟩ := (Outcome.map_ok _ _ _).mp h
        cases he
        exact (gocta_audit _ _ _ _ _ h2).trans (registerUnit_audit _ _ _ h1)

theorem acceptPostings_audit (st st' : Settings) (posts : List RawPosting) (last : Option (Path × Option String))
    (ps : List Posting) (h : acceptPostings st posts last = .ok (ps, st')) : st'.audit = st.audit := by
  unfold acceptPostings at h
  split at h
  · cases h
  · cases h
  · rename_i ps0 st1 hm
    have h1 : st1.audit = st.audit :=
      (mapMS_inv handlePosting (fun s => s.audit = st.audit)
        (fun s a b s' hs hf => (handlePosting_audit s s' a b hf).trans hs) posts st st1 ps0 rfl hm).1
    split at h
    · cases h
    · split at h
      · cases h; exact h1
      · split at h
        · cases h
        · split at h
          · cases h
          · cases h
          · rename_i a' st2 h2
            obtain ⟨q, _, he⟩ := (Outcome.map_ok _ _ _).mp h
            cases he
            exact (gocta_audit _ _ _ _ _ h2).trans h1

theorem acceptTags_audit (st st' : Settings) (tags : List String)
    (h : acceptTags st tags = .ok st') : st'.audit = st.audit := by
  unfold acceptTags at h
  split at h
  · cases h
  · cases h
  · rename_i x st1 hm
    have h1 : st1.audit = st.audit :=
      (mapMS_inv (fun s t => s.getOrCreateTag t) (fun s => s.audit = st.audit)
        (fun s a b s' hs hf => (goct_audit s s' a b hf).trans hs) tags st st1 x rfl hm).1
    split at h
    · cases h; exact h1
    · cases h

/-- `parse_txn_header` in audit mode: an accepted header has a UUID; the flag is kept -/
theorem acceptHeader_spec (st st' : Settings) (hd : Header) (h : acceptHeader st hd = .ok st') :
    st'.audit = st.audit ∧ (st.audit = true → hd.uuid.isSome = true) := by
  unfold acceptHeader at h
  split at h
  · cases h
  · split at h
    · cases h
    · cases h
    · rename_i st1 h1
      have ha : st1.audit = st.audit := by
        split at h1
        · exact acceptTags_audit _ _ _ h1
        · cases h1; rfl
      split at h
      · cases h
      · rename_i hc
        cases h
        refine ⟨ha, ?_⟩
        intro hau
        cases hu : hd.uuid with
        | none => simp [hau, hu] at hc
        | some u => rfl

theorem acceptTxn_spec (st st' : Settings) (r : RawTxn) (t : Txn) (h : acceptTxn st r = .ok (t, st')) :
    st'.audit = st.audit ∧ t.header = r.header ∧ (st.audit = true → t.header.uuid.isSome = true) := by
  unfold acceptTxn at h
  split at h
  · cases h
  · cases h
  · rename_i st1 hh
    obtain ⟨ha1, hu⟩ := acceptHeader_spec _ _ _ hh
    split at h
    · cases h
    · cases h
    · rename_i ps st2 hp
      have ha2 := acceptPostings_audit _ _ _ _ _ hp
      split at h
      · cases h
      · split at h
        · cases h
        · split at h
          · cases h
          · split at h
            · cases h
              exact ⟨ha2.trans ha1, rfl, hu⟩
            · cases h

/-- **audit_requires_uuid**: in audit mode an accepted transaction carries a UUID -/
theorem audit_requires_uuid (st st' : Settings) (r : RawTxn) (t : Txn) (ha : st.audit = true)
    (h : acceptTxn st r = .ok (t, st')) : t.header.uuid.isSome = true :=
  (acceptTxn_spec st st' r t h).2.2 ha

/-- a transaction without UUID is not accepted in audit mode -/
theorem audit_rejects_txn (st : Settings) (r : RawTxn) (ha : st.audit = true) (hu : r.header.uuid = none) :
    ∀ t st', acceptTxn st r ≠ .ok (t, st') := by
  intro t st' h
  obtain ⟨_, hh, hs⟩ := acceptTxn_spec st st' r t h
  have := hs ha
  rw [hh, hu] at this
  cases this

/-- whole journals: in audit mode a journal is accepted only if every transaction carries a UUID
    (and then every accepted transaction has one) -/
theorem audit_requires_uuid_journal (st st' : Settings) (rs : List RawTxn) (ts : List Txn) (ha : st.audit = true)
    (h : acceptJournal st rs = .ok (ts, st')) :
    st'.audit = true ∧ (∀ t ∈ ts, t.header.uuid.isSome = true) ∧ (∀ r ∈ rs, r.header.uuid.isSome = true) := by
  unfold acceptJournal at h
  obtain ⟨hP, hout, hin⟩ := mapMS_inv acceptTxn (fun s => s.audit = true)
    (fun s a b s' hs hf => ((acceptTxn_spec s s' a b hf).1).trans hs) rs st st' ts ha h
  refine ⟨hP, ?_, ?_⟩
  · intro t ht
    obtain ⟨r, _, s1, s2, hs1, hf⟩ := hout t ht
    exact audit_requires_uuid s1 s2 r t hs1 hf
  · intro r hr
    obtain ⟨t, _, s1, s2, hs1, hf⟩ := hin r hr
    obtain ⟨_, hh, hs⟩ := acceptTxn_spec s1 s2 r t hf
    rw [← hh]; exact hs hs1

/-- the same for `string_to_txns` (accept, then sort) -/
theorem audit_requires_uuid_load (st st' : Settings) (rs : List RawTxn) (ts : List Txn) (ha : st.audit = true)
    (h : loadJournal st rs = .ok (ts, st')) :
    (∀ t ∈ ts, t.header.uuid.isSome = true) ∧ (∀ r ∈ rs, r.header.uuid.isSome = true) := by
  unfold loadJournal at h
  split at h
  · cases h
  · obtain ⟨⟨ts0, s0⟩, h0, he⟩ := (Outcome.map_ok _ _ _).mp h
    cases he
    obtain ⟨_, h1, h2⟩ := audit_requires_uuid_journal st _ _ ts0 ha h0
    refine ⟨?_, h2⟩
    intro t ht
    exact h1 t ((List.mergeSort_perm ts0 txnLe).mem_iff.mp ht)

/-- one transaction without UUID rejects the whole journal in audit mode -/
theorem audit_rejects_journal (st : Settings) (rs : List RawTxn) (r : RawTxn) (ha : st.audit = true)
    (hr : r ∈ rs) (hu : r.header.uuid = none) :
    (∀ x, acceptJournal st rs ≠ .ok x) ∧ (∀ x, loadJournal st rs ≠ .ok x) := by
  constructor
  · intro ⟨ts, st'⟩ h
    have := (audit_requires_uuid_journal st st' rs ts ha h).2.2 r hr
    rw [hu] at this; cases this
  · intro ⟨ts, st'⟩ h
    have := (audit_requires_uuid_load st st' rs ts ha h).2 r hr
    rw [hu] at this; cases this

end C09
end Tackler

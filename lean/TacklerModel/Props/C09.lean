import TacklerModel.Model.Audit
import TacklerModel.Lemmas.MapMS
import TacklerModel.Lemmas.HashVectors
/-!
# C09 — audit mode: UUIDs enforced; the set checksum is the specified hash of the set

Statement (properties.jsonl): in audit mode a journal is accepted only if every transaction carries a
UUID, and producing a transaction set fails if two selected transactions share one; the reported set
checksum is the configured hash of the selected transactions' canonical lower-case UUIDs, sorted, each
followed by a newline, and the size is the number selected; hence it is invariant under reordering and
differs whenever the selected set differs; the account-selector checksum is the same construction
over the sorted selector patterns.

| clause                                   | theorems                                                                     |
|------------------------------------------|------------------------------------------------------------------------------|
| UUID required in audit mode              | `audit_requires_uuid`, `audit_rejects_txn`, `audit_requires_uuid_journal`, `audit_requires_uuid_load`, `audit_rejects_journal` |
| duplicates ⇒ no set                      | `dup_rejected`, `dup_rejected_set`, `filter_outcome` (exactly when), `missing_uuid_rejected` |
| checksum = H(sorted lower-case UUIDs ‖ "\n"), size | `calcTxnChecksum_spec`, `checksum_def`, `checksum_def_all`, `audit_set` (load + filter end to end), `audit_off_no_checksum` |
| invariant under reordering               | `sortStrings_perm_eq`, `checksum_perm`, `set_checksum_perm`                     |
| differs whenever the set differs         | `preimage_injective` (+ `_bytes`, `_fixed`): the hashed message determines the UUID multiset; `equal_checksum_is_collision`: otherwise an explicit hash collision is exhibited.  Collision resistance itself is a cryptographic assumption. |
| selector checksum                        | `peel_wrap`, `selector_checksum`, `selector_checksum_empty`, `selector_checksum_perm`, `selector_preimage_injective`, `selector_newline_witness`, `acc_sel_checksum_audit` |
| algorithms                               | `ofName_name`, `ofName_some`; known-answer tests in `Lemmas/HashVectors.lean`    |

`H` is the executable Lean implementation of the five digests (`Model/Hash.lean`); a *filter* is any
predicate `Txn → Bool`; `preimage` below is the specification of the hashed message.
-/
namespace Tackler
namespace C09
open Hash

/-! ## 1. audit mode requires a UUID on every transaction -/

/-! the audit flag is never changed by the load path -/

theorem gocc_audit (st st' : Settings) (n : Option String) (c : String)
    (h : st.getOrCreateCommodity n = .ok (c, st')) : st'.audit = st.audit := by
  unfold Settings.getOrCreateCommodity at h
  (repeat' split at h) <;> first | (cases h; done) | (cases h; rfl)

theorem gocta_audit (st st' : Settings) (p a : Path) (c : String)
    (h : st.getOrCreateTxnAccount p c = .ok (a, st')) : st'.audit = st.audit := by
  unfold Settings.getOrCreateTxnAccount at h
  split at h
  · cases h
  · cases h
  · rename_i x st1 hc
    have := gocc_audit st st1 _ _ hc
    (repeat' split at h) <;> first | (cases h; done) | (cases h; simpa using this)

theorem goct_audit (st st' : Settings) (n t : String)
    (h : st.getOrCreateTag n = .ok (t, st')) : st'.audit = st.audit := by
  unfold Settings.getOrCreateTag at h
  (repeat' split at h) <;> first | (cases h; done) | (cases h; rfl)

theorem registerUnit_audit (st st' : Settings) (u : Option PostUnit)
    (h : registerUnit st u = .ok st') : st'.audit = st.audit := by
  unfold registerUnit at h
  split at h
  · cases h; rfl
  · split at h
    · cases h
    · cases h
    · rename_i x st1 hc
      have h1 := gocc_audit _ _ _ _ hc
      split at h
      · cases h; exact h1
      · obtain ⟨⟨c, s2⟩, h2, he⟩ := (Outcome.map_ok _ _ _).mp h
        cases he
        exact (gocc_audit _ _ _ _ h2).trans h1
      · obtain ⟨⟨c, s2⟩, h2, he⟩ := (Outcome.map_ok _ _ _).mp h
        cases he
        exact (gocc_audit _ _ _ _ h2).trans h1

theorem handlePosting_audit (st st' : Settings) (rp : RawPosting) (p : Posting)
    (h : handlePosting st rp = .ok (p, st')) : st'.audit = st.audit := by
  unfold handlePosting at h
  split at h
  · cases h
  · cases h
  · rename_i st1 h1
    split at h
    · cases h
    · cases h
    · split at h
      · cases h
      · cases h
      · rename_i a st2 h2
        obtain ⟨q, _, he⟩ := (Outcome.map_ok _ _ _).mp h
        cases he
        exact (gocta_audit _ _ _ _ _ h2).trans (registerUnit_audit _ _ _ h1)

theorem acceptPostings_audit (st st' : Settings) (posts : List RawPosting) (last : Option (Path × Option String))
    (ps : List Posting) (h : acceptPostings st posts last = .ok (ps, st')) : st'.audit = st.audit := by
  unfold acceptPostings at h
  split at h
  · cases h
  · cases h
  · rename_i ps0 st1 hm
    have h1 : st1.audit = st.audit :=
      (mapMS_inv handlePosting (fun s => s.audit = st.audit)
        (fun s a b s' hs hf => (handlePosting_audit s s' a b hf).trans hs) posts st st1 ps0 rfl hm).1
    split at h
    · cases h
    · split at h
      · cases h; exact h1
      · split at h
        · first | (cases h; done) | exact absurd h (Outcome.inexact_ne_ok _ _)
        · split at h
          · cases h
          · cases h
          · rename_i a' st2 h2
            obtain ⟨q, _, he⟩ := (Outcome.map_ok _ _ _).mp h
            cases he
            exact (gocta_audit _ _ _ _ _ h2).trans h1

theorem acceptTags_audit (st st' : Settings) (tags : List String)
    (h : acceptTags st tags = .ok st') : st'.audit = st.audit := by
  unfold acceptTags at h
  split at h
  · cases h
  · cases h
  · rename_i x st1 hm
    have h1 : st1.audit = st.audit :=
      (mapMS_inv (fun s t => s.getOrCreateTag t) (fun s => s.audit = st.audit)
        (fun s a b s' hs hf => (goct_audit s s' a b hf).trans hs) tags st st1 x rfl hm).1
    split at h
    · cases h; exact h1
    · cases h

/-- `parse_txn_header` in audit mode: an accepted header has a UUID; the flag is kept -/
theorem acceptHeader_spec (st st' : Settings) (hd : Header) (h : acceptHeader st hd = .ok st') :
    st'.audit = st.audit ∧ (st.audit = true → hd.uuid.isSome = true) := by
  unfold acceptHeader at h
  split at h
  · cases h
  · split at h
    · cases h
    · cases h
    · rename_i st1 h1
      have ha : st1.audit = st.audit := by
        split at h1
        · exact acceptTags_audit _ _ _ h1
        · cases h1; rfl
      split at h
      · cases h
      · rename_i hc
        cases h
        refine ⟨ha, ?_⟩
        intro hau
        cases hu : hd.uuid with
        | none => simp [hau, hu] at hc
        | some u => rfl

theorem acceptTxn_spec (st st' : Settings) (r : RawTxn) (t : Txn) (h : acceptTxn st r = .ok (t, st')) :
    st'.audit = st.audit ∧ t.header = r.header ∧ (st.audit = true → t.header.uuid.isSome = true) := by
  unfold acceptTxn at h
  split at h
  · cases h
  · cases h
  · rename_i st1 hh
    obtain ⟨ha1, hu⟩ := acceptHeader_spec _ _ _ hh
    split at h
    · cases h
    · cases h
    · rename_i ps st2 hp
      have ha2 := acceptPostings_audit _ _ _ _ _ hp
      split at h
      · cases h
      · split at h
        · cases h
        · split at h
          · first | (cases h; done) | exact absurd h (Outcome.inexact_ne_ok _ _)
          · split at h
            · cases h
              exact ⟨ha2.trans ha1, rfl, hu⟩
            · cases h

/-- **audit_requires_uuid**: in audit mode an accepted transaction carries a UUID -/
theorem audit_requires_uuid (st st' : Settings) (r : RawTxn) (t : Txn) (ha : st.audit = true)
    (h : acceptTxn st r = .ok (t, st')) : t.header.uuid.isSome = true :=
  (acceptTxn_spec st st' r t h).2.2 ha

/-- a transaction without UUID is not accepted in audit mode -/
theorem audit_rejects_txn (st : Settings) (r : RawTxn) (ha : st.audit = true) (hu : r.header.uuid = none) :
    ∀ t st', acceptTxn st r ≠ .ok (t, st') := by
  intro t st' h
  obtain ⟨_, hh, hs⟩ := acceptTxn_spec st st' r t h
  have := hs ha
  rw [hh, hu] at this
  cases this

/-- whole journals: in audit mode a journal is accepted only if every transaction carries a UUID
    (and then every accepted transaction has one) -/
theorem audit_requires_uuid_journal (st st' : Settings) (rs : List RawTxn) (ts : List Txn) (ha : st.audit = true)
    (h : acceptJournal st rs = .ok (ts, st')) :
    st'.audit = true ∧ (∀ t ∈ ts, t.header.uuid.isSome = true) ∧ (∀ r ∈ rs, r.header.uuid.isSome = true) := by
  unfold acceptJournal at h
  obtain ⟨hP, hout, hin⟩ := mapMS_inv acceptTxn (fun s => s.audit = true)
    (fun s a b s' hs hf => ((acceptTxn_spec s s' a b hf).1).trans hs) rs st st' ts ha h
  refine ⟨hP, ?_, ?_⟩
  · intro t ht
    obtain ⟨r, _, s1, s2, hs1, hf⟩ := hout t ht
    exact audit_requires_uuid s1 s2 r t hs1 hf
  · intro r hr
    obtain ⟨t, _, s1, s2, hs1, hf⟩ := hin r hr
    obtain ⟨_, hh, hs⟩ := acceptTxn_spec s1 s2 r t hf
    rw [← hh]; exact hs hs1

/-- the same for `string_to_txns` (accept, then sort) -/
theorem audit_requires_uuid_load (st st' : Settings) (rs : List RawTxn) (ts : List Txn) (ha : st.audit = true)
    (h : loadJournal st rs = .ok (ts, st')) :
    (∀ t ∈ ts, t.header.uuid.isSome = true) ∧ (∀ r ∈ rs, r.header.uuid.isSome = true) := by
  unfold loadJournal at h
  split at h
  · cases h
  · obtain ⟨⟨ts0, s0⟩, h0, he⟩ := (Outcome.map_ok _ _ _).mp h
    cases he
    obtain ⟨_, h1, h2⟩ := audit_requires_uuid_journal st _ _ ts0 ha h0
    refine ⟨?_, h2⟩
    intro t ht
    exact h1 t ((List.mergeSort_perm ts0 txnLe).mem_iff.mp ht)

/-- one transaction without UUID rejects the whole journal in audit mode -/
theorem audit_rejects_journal (st : Settings) (rs : List RawTxn) (r : RawTxn) (ha : st.audit = true)
    (hr : r ∈ rs) (hu : r.header.uuid = none) :
    (∀ x, acceptJournal st rs ≠ .ok x) ∧ (∀ x, loadJournal st rs ≠ .ok x) := by
  constructor
  · intro ⟨ts, st'⟩ h
    have := (audit_requires_uuid_journal st st' rs ts ha h).2.2 r hr
    rw [hu] at this; cases this
  · intro ⟨ts, st'⟩ h
    have := (audit_requires_uuid_load st st' rs ts ha h).2 r hr
    rw [hu] at this; cases this

/-! ## 2. strings: byte order, sorting is canonical, duplicate detection -/

theorem strBytes_inj (a b : String) (h : strBytes a = strBytes b) : a = b := by
  unfold strBytes String.toUTF8 at h
  exact String.toByteArray_inj.mp (ByteArray.ext (Array.toList_inj.mp h))

theorem strLe_total (a b : String) : (strLe a b || strLe b a) = true := by
  unfold strLe
  rcases List.le_total (strBytes a) (strBytes b) with h | h <;> simp [h]

theorem strLe_trans (a b c : String) (h1 : strLe a b = true) (h2 : strLe b c = true) : strLe a c = true := by
  unfold strLe at *
  simp only [decide_eq_true_eq] at *
  exact List.le_trans h1 h2

theorem strLe_antisymm (a b : String) (h1 : strLe a b = true) (h2 : strLe b a = true) : a = b := by
  unfold strLe at *
  simp only [decide_eq_true_eq] at *
  exact strBytes_inj a b (List.le_antisymm h1 h2)

/-- uniqueness of sorted lists up to permutation for an antisymmetric order -/
theorem sorted_perm_eq {α} (le : α → α → Prop) (antisymm : ∀ a b, le a b → le b a → a = b) :
    ∀ (l₁ l₂ : List α), l₁.Perm l₂ → l₁.Pairwise le → l₂.Pairwise le → l₁ = l₂ := by
  intro l₁
  induction l₁ with
  | nil => intro l₂ p _ _; exact (List.Perm.nil_eq p)
  | cons a t ih =>
    intro l₂ p s1 s2
    cases l₂ with
    | nil => exact absurd p.symm (by simp)
    | cons b u =>
      have ha : a ∈ b :: u := p.subset (List.mem_cons_self)
      have hb : b ∈ a :: t := p.symm.subset (List.mem_cons_self)
      have hab : a = b := by
        rcases List.mem_cons.mp ha with h | h
        · exact h
        · rcases List.mem_cons.mp hb with h' | h'
          · exact h'.symm
          · exact antisymm a b ((List.pairwise_cons.mp s1).1 b h') ((List.pairwise_cons.mp s2).1 a h)
      subst hab
      congr 1
      exact ih u (List.Perm.cons_inv p) (List.pairwise_cons.mp s1).2 (List.pairwise_cons.mp s2).2

theorem sortStrings_perm (l : List String) : (sortStrings l).Perm l := List.mergeSort_perm l strLe

theorem sortStrings_sorted (l : List String) : (sortStrings l).Pairwise (fun a b => strLe a b = true) :=
  List.pairwise_mergeSort strLe_trans strLe_total l

/-- the sorted list depends only on the multiset of its elements -/
theorem sortStrings_perm_eq (l₁ l₂ : List String) (h : l₁.Perm l₂) : sortStrings l₁ = sortStrings l₂ :=
  sorted_perm_eq (fun a b => strLe a b = true) strLe_antisymm _ _
    (((sortStrings_perm l₁).trans h).trans (sortStrings_perm l₂).symm) (sortStrings_sorted l₁) (sortStrings_sorted l₂)

theorem duplicatesAux_nil_iff : ∀ (l seen : List String), seen.Nodup →
    (duplicatesAux seen l = [] ↔ l.Nodup ∧ ∀ x ∈ l, x ∉ seen) := by
  intro l
  induction l with
  | nil => intro seen _; simp [duplicatesAux]
  | cons x t ih =>
    intro seen hs
    unfold duplicatesAux
    by_cases hx : x ∈ seen
    · have hc : seen.count x = 1 := by rw [hs.count]; simp [hx]
      simp [hc, hx]
    · have hc : seen.count x = 0 := List.count_eq_zero.mpr hx
      have hs' : (x :: seen).Nodup := List.nodup_cons.mpr ⟨hx, hs⟩
      simp only [hc, Nat.zero_ne_one, if_false]
      rw [ih (x :: seen) hs']
      constructor
      · rintro ⟨hn, hd⟩
        refine ⟨List.nodup_cons.mpr ⟨?_, hn⟩, ?_⟩
        · intro hxt; exact (hd x hxt) List.mem_cons_self
        · intro y hy
          rcases List.mem_cons.mp hy with rfl | hy'
          · exact hx
          · intro hys; exact hd y hy' (List.mem_cons_of_mem _ hys)
      · rintro ⟨hn, hd⟩
        obtain ⟨hxt, hn'⟩ := List.nodup_cons.mp hn
        refine ⟨hn', ?_⟩
        intro y hy hys
        rcases List.mem_cons.mp hys with rfl | h'
        · exact hxt hy
        · exact hd y (List.mem_cons_of_mem _ hy) h'

/-- `duplicates` reports nothing exactly for duplicate-free lists -/
theorem duplicates_nil_iff (l : List String) : duplicates l = [] ↔ l.Nodup := by
  unfold duplicates
  rw [duplicatesAux_nil_iff l [] List.nodup_nil]
  simp

/-! ## 3. the transaction-set checksum -/

/-- canonical (lower-case) UUID texts of the transactions that have one -/
def uuidsOf (txns : List Txn) : List String := txns.filterMap (fun t => t.header.uuid.map uuidToString)

/-- the hashed message: canonical UUIDs, sorted, each followed by a newline -/
def preimage (txns : List Txn) : Bytes :=
  (sortStrings (uuidsOf txns)).flatMap (fun u => strBytes u ++ [0x0a])

def allHaveUuid (txns : List Txn) : Bool := txns.all (fun t => t.header.uuid.isSome)

theorem txnUuids_spec : ∀ (txns : List Txn),
    txnUuids txns = if allHaveUuid txns then .ok (uuidsOf txns) else .err := by
  intro txns
  induction txns with
  | nil => simp [txnUuids, allHaveUuid, uuidsOf]
  | cons t ts ih =>
    unfold txnUuids
    cases hu : t.header.uuid with
    | none => simp [allHaveUuid, hu]
    | some u =>
      simp only [ih]
      have h1 : allHaveUuid (t :: ts) = allHaveUuid ts := by simp [allHaveUuid, hu]
      have h2 : uuidsOf (t :: ts) = uuidToString u :: uuidsOf ts := by simp [uuidsOf, hu]
      rw [h1, h2]
      by_cases ha : allHaveUuid ts = true <;> simp [ha]

/-- **calc_txn_checksum, characterised**: it succeeds exactly when every transaction has a UUID and no two
    canonical UUIDs coincide; the value is the digest of `preimage` in lower-case hex -/
theorem calcTxnChecksum_spec (txns : List Txn) (alg : Algo) :
    calcTxnChecksum txns alg =
      if allHaveUuid txns = true ∧ (uuidsOf txns).Nodup then .ok ⟨alg.name, hex (alg.digest (preimage txns))⟩
      else .err := by
  unfold calcTxnChecksum
  rw [txnUuids_spec]
  by_cases ha : allHaveUuid txns = true
  · simp only [ha, if_true, true_and]
    have hnd : (duplicates (sortStrings (uuidsOf txns))).isEmpty = true ↔ (uuidsOf txns).Nodup := by
      rw [List.isEmpty_iff, duplicates_nil_iff]
      exact (sortStrings_perm _).nodup_iff
    by_cases hn : (uuidsOf txns).Nodup
    · simp [hnd.mpr hn, hn, Hash.checksum, preimage, fed]
    · have : ¬ (duplicates (sortStrings (uuidsOf txns))).isEmpty = true := fun h => hn (hnd.mp h)
      simp [this, hn]
  · simp [ha]

/-- **dup_rejected**: two selected transactions sharing a UUID (after case normalisation) make the
    checksum – and with it the transaction set – fail -/
theorem dup_rejected (txns : List Txn) (alg : Algo) (h : ¬ (uuidsOf txns).Nodup) :
    calcTxnChecksum txns alg = .err := by
  rw [calcTxnChecksum_spec]; simp [h]

/-- a selected transaction without UUID makes the checksum fail (cannot happen after an audit-mode load) -/
theorem missing_uuid_rejected (txns : List Txn) (alg : Algo) (t : Txn) (ht : t ∈ txns) (hu : t.header.uuid = none) :
    calcTxnChecksum txns alg = .err := by
  rw [calcTxnChecksum_spec]
  have : ¬ allHaveUuid txns = true := by
    intro h
    have := List.all_eq_true.mp h t ht
    simp [hu] at this
  simp [this]

theorem uuidsOf_perm (a b : List Txn) (h : a.Perm b) : (uuidsOf a).Perm (uuidsOf b) := h.filterMap _

theorem preimage_perm (a b : List Txn) (h : a.Perm b) : preimage a = preimage b := by
  unfold preimage
  rw [sortStrings_perm_eq _ _ (uuidsOf_perm a b h)]

/-- **checksum_perm**: the outcome (error or checksum) is invariant under reordering the selection -/
theorem checksum_perm (a b : List Txn) (alg : Algo) (h : a.Perm b) :
    calcTxnChecksum a alg = calcTxnChecksum b alg := by
  rw [calcTxnChecksum_spec, calcTxnChecksum_spec, preimage_perm a b h]
  have h1 : allHaveUuid a = allHaveUuid b := h.all_eq
  have h2 : (uuidsOf a).Nodup ↔ (uuidsOf b).Nodup := (uuidsOf_perm a b h).nodup_iff
  simp [h1, h2]

/-! ## 4. transaction sets: size and checksum of what the filter selected -/

/-- the checksum item the property prescribes for a selection -/
def specItem (alg : Algo) (sel : List Txn) : TxnSetChecksum :=
  ⟨sel.length, ⟨alg.name, hex (alg.digest (preimage sel))⟩⟩

theorem makeMetadata_spec (hash : Option Algo) (sel : List Txn) :
    makeMetadata hash sel =
      match hash with
      | none => .ok none
      | some alg =>
        if allHaveUuid sel = true ∧ (uuidsOf sel).Nodup then .ok (some (specItem alg sel)) else .err := by
  unfold makeMetadata
  cases hash with
  | none => rfl
  | some alg =>
    simp only [calcTxnChecksum_spec]
    by_cases h : allHaveUuid sel = true ∧ (uuidsOf sel).Nodup <;> simp [h, specItem]

/-- **checksum_def** (`TxnData::filter`): a produced set consists of exactly the transactions the filter
    selects, in journal order; with a hasher (audit mode) its metadata carries size = number selected and
    checksum = `H alg (preimage selected)`; without one it carries no checksum at all -/
theorem checksum_def (hash : Option Algo) (tf : Txn → Bool) (txns : List Txn) (s : TxnSet)
    (h : TxnData.filter hash tf txns = .ok s) :
    s.txns = txns.filter tf ∧
    s.checksum = hash.map (fun alg => specItem alg (txns.filter tf)) := by
  unfold TxnData.filter at h
  rw [makeMetadata_spec] at h
  cases hash with
  | none => simp at h; cases h; simp
  | some alg =>
    simp only at h
    by_cases hc : allHaveUuid (txns.filter tf) = true ∧ (uuidsOf (txns.filter tf)).Nodup
    · simp [hc] at h; cases h; simp
    · simp [hc] at h

/-- the same for `TxnData::get_all` -/
theorem checksum_def_all (hash : Option Algo) (txns : List Txn) (s : TxnSet)
    (h : TxnData.getAll hash txns = .ok s) :
    s.txns = txns ∧ s.checksum = hash.map (fun alg => specItem alg txns) := by
  unfold TxnData.getAll at h
  rw [makeMetadata_spec] at h
  cases hash with
  | none => simp at h; cases h; simp
  | some alg =>
    simp only at h
    by_cases hc : allHaveUuid txns = true ∧ (uuidsOf txns).Nodup
    · simp [hc] at h; cases h; simp
    · simp [hc] at h

/-- when producing the set succeeds and when it fails -/
theorem filter_outcome (alg : Algo) (tf : Txn → Bool) (txns : List Txn) :
    TxnData.filter (some alg) tf txns =
      if allHaveUuid (txns.filter tf) = true ∧ (uuidsOf (txns.filter tf)).Nodup
      then .ok ⟨some (specItem alg (txns.filter tf)), txns.filter tf⟩ else .err := by
  unfold TxnData.filter
  rw [makeMetadata_spec]
  by_cases hc : allHaveUuid (txns.filter tf) = true ∧ (uuidsOf (txns.filter tf)).Nodup <;> simp [hc]

/-- **dup_rejected** at the level of sets: two selected transactions sharing a UUID ⇒ no set.
    Duplicates outside the selection do not matter (`filter_outcome` mentions the selected ones only). -/
theorem dup_rejected_set (alg : Algo) (tf : Txn → Bool) (txns : List Txn)
    (h : ¬ (uuidsOf (txns.filter tf)).Nodup) : TxnData.filter (some alg) tf txns = .err := by
  rw [filter_outcome]; simp [h]

/-- audit off ⇒ no hasher ⇒ every selection is produced, without a checksum -/
theorem audit_off_no_checksum (st : Settings) (alg : Algo) (tf : Txn → Bool) (txns : List Txn)
    (ha : st.audit = false) :
    TxnData.filter (getHash st alg) tf txns = .ok ⟨none, txns.filter tf⟩ := by
  simp [getHash, ha, TxnData.filter, makeMetadata]

/-- **end to end**: a journal loaded in audit mode, any filter: the set is produced iff the selected
    canonical UUIDs are pairwise different, and then carries the prescribed size and checksum -/
theorem audit_set (st st' : Settings) (alg : Algo) (rs : List RawTxn) (ts : List Txn) (tf : Txn → Bool)
    (ha : st.audit = true) (hl : loadJournal st rs = .ok (ts, st')) :
    TxnData.filter (getHash st alg) tf ts =
      if (uuidsOf (ts.filter tf)).Nodup then .ok ⟨some (specItem alg (ts.filter tf)), ts.filter tf⟩ else .err := by
  have hall : allHaveUuid (ts.filter tf) = true := by
    apply List.all_eq_true.mpr
    intro t ht
    exact (audit_requires_uuid_load st st' rs ts ha hl).1 t (List.mem_filter.mp ht).1
  simp [getHash, ha, filter_outcome, hall]

/-- the set's checksum item does not depend on the order of the journal -/
theorem set_checksum_perm (hash : Option Algo) (tf : Txn → Bool) (a b : List Txn) (h : a.Perm b) :
    (TxnData.filter hash tf a).map (·.checksum) = (TxnData.filter hash tf b).map (·.checksum) := by
  have hf : (a.filter tf).Perm (b.filter tf) := h.filter tf
  unfold TxnData.filter
  rw [makeMetadata_spec, makeMetadata_spec]
  cases hash with
  | none => simp [Outcome.map]
  | some alg =>
    have h1 : allHaveUuid (a.filter tf) = allHaveUuid (b.filter tf) := hf.all_eq
    have h2 : (uuidsOf (a.filter tf)).Nodup ↔ (uuidsOf (b.filter tf)).Nodup := (uuidsOf_perm _ _ hf).nodup_iff
    have h3 : specItem alg (a.filter tf) = specItem alg (b.filter tf) := by
      simp [specItem, preimage_perm _ _ hf, hf.length_eq]
    simp only [h1, h2, h3]
    by_cases hc : allHaveUuid (b.filter tf) = true ∧ (uuidsOf (b.filter tf)).Nodup <;> simp [hc, Outcome.map]

/-! ## 5. the hashed message determines the set -/

/-- `str::as_bytes` is the concatenation of the UTF-8 encodings of the characters -/
theorem strBytes_eq (s : String) : strBytes s = s.toList.flatMap String.utf8EncodeChar := by
  unfold strBytes String.toUTF8
  conv => lhs; rw [← String.ofList_toList (s := s), String.toByteArray_ofList]
  simp [List.utf8Encode]

theorem ofNat_eq_ten (n : Nat) (h : (10 : UInt8) = UInt8.ofNat n) : n % 256 = 10 := by
  have := congrArg UInt8.toNat h
  simpa using this.symm

/-- the byte `0x0a` occurs in the UTF-8 encoding of a character only for the newline character -/
theorem nl_in_char (c : Char) : (0x0a : UInt8) ∈ String.utf8EncodeChar c ↔ c = '\n' := by
  constructor
  · intro h
    unfold String.utf8EncodeChar at h
    simp only at h
    split at h
    · simp only [List.mem_cons, List.not_mem_nil, or_false] at h
      have := ofNat_eq_ten _ h
      apply Char.ext
      apply UInt32.toNat_inj.mp
      show c.val.toNat = 10
      omega
    · exfalso
      split at h
      · simp only [List.mem_cons, List.not_mem_nil, or_false] at h
        rcases h with h | h <;> (have := ofNat_eq_ten _ h; omega)
      · split at h
        · simp only [List.mem_cons, List.not_mem_nil, or_false] at h
          rcases h with h | h | h <;> (have := ofNat_eq_ten _ h; omega)
        · simp only [List.mem_cons, List.not_mem_nil, or_false] at h
          rcases h with h | h | h | h <;> (have := ofNat_eq_ten _ h; omega)
  · rintro rfl; decide

theorem nl_in_strBytes (s : String) : (0x0a : UInt8) ∈ strBytes s ↔ '\n' ∈ s.toList := by
  rw [strBytes_eq, List.mem_flatMap]
  constructor
  · rintro ⟨c, hc, h⟩; rw [(nl_in_char c).mp h] at hc; exact hc
  · intro h; exact ⟨'\n', h, (nl_in_char '\n').mpr rfl⟩


/-- items of one fixed width: the fed message determines the item list (any separator) -/
theorem fed_injective_fixed (w : Nat) (sep : Bytes) : ∀ (xs ys : List String),
    (∀ x ∈ xs, (strBytes x).length = w) → (∀ y ∈ ys, (strBytes y).length = w) → sep ≠ [] →
    fed xs sep = fed ys sep → xs = ys := by
  intro xs
  induction xs with
  | nil =>
    intro ys _ _ hs h
    cases ys with
    | nil => rfl
    | cons y t =>
      exfalso
      simp [fed] at h
      exact hs h.2.1
  | cons x t ih =>
    intro ys hx hy hs h
    cases ys with
    | nil =>
      exfalso
      simp [fed] at h
      exact hs h.2.1
    | cons y u =>
      simp only [fed, List.flatMap_cons, List.append_assoc] at h
      have hl : (strBytes x).length = (strBytes y).length := by
        rw [hx x List.mem_cons_self, hy y List.mem_cons_self]
      obtain ⟨h1, h2⟩ := List.append_inj h hl
      have h3 := List.append_cancel_left h2
      rw [strBytes_inj x y h1, ih u (fun a ha => hx a (List.mem_cons_of_mem _ ha))
        (fun a ha => hy a (List.mem_cons_of_mem _ ha)) hs h3]

theorem append_sep_inj (c : UInt8) : ∀ (a b s t : Bytes), c ∉ a → c ∉ b → a ++ c :: s = b ++ c :: t → a = b ∧ s = t := by
  intro a
  induction a with
  | nil =>
    intro b s t _ hb h
    cases b with
    | nil => simpa using h
    | cons y b' => simp at h; exact absurd h.1 (by intro e; exact hb (e ▸ List.mem_cons_self))
  | cons x a' ih =>
    intro b s t ha hb h
    cases b with
    | nil => simp at h; exact absurd h.1 (by intro e; exact ha (e ▸ List.mem_cons_self))
    | cons y b' =>
      simp only [List.cons_append, List.cons.injEq] at h
      obtain ⟨h1, h2⟩ := ih b' s t (fun m => ha (List.mem_cons_of_mem _ m)) (fun m => hb (List.mem_cons_of_mem _ m)) h.2
      exact ⟨by rw [h.1, h1], h2⟩

/-- newline-free items of any width: the message fed with separator `"\n"` determines the item list -/
theorem fed_injective_nl : ∀ (xs ys : List String),
    (∀ x ∈ xs, (0x0a : UInt8) ∉ strBytes x) → (∀ y ∈ ys, (0x0a : UInt8) ∉ strBytes y) →
    fed xs [0x0a] = fed ys [0x0a] → xs = ys := by
  intro xs
  induction xs with
  | nil =>
    intro ys _ _ h
    cases ys with
    | nil => rfl
    | cons y t => simp [fed] at h
  | cons x t ih =>
    intro ys hx hy h
    cases ys with
    | nil => simp [fed] at h
    | cons y u =>
      simp only [fed, List.flatMap_cons, List.append_assoc, List.singleton_append] at h
      obtain ⟨h1, h2⟩ := append_sep_inj 0x0a _ _ _ _ (hx x List.mem_cons_self) (hy y List.mem_cons_self) h
      rw [strBytes_inj x y h1, ih u (fun a ha => hx a (List.mem_cons_of_mem _ ha))
        (fun a ha => hy a (List.mem_cons_of_mem _ ha)) h2]

/-- byte-level form of `preimage_injective` -/
theorem preimage_injective_bytes (a b : List Txn)
    (ha : ∀ u ∈ uuidsOf a, (0x0a : UInt8) ∉ strBytes u) (hb : ∀ u ∈ uuidsOf b, (0x0a : UInt8) ∉ strBytes u)
    (h : preimage a = preimage b) : (uuidsOf a).Perm (uuidsOf b) := by
  have hs : sortStrings (uuidsOf a) = sortStrings (uuidsOf b) :=
    fed_injective_nl _ _ (fun x hx => ha x ((sortStrings_perm _).mem_iff.mp hx))
      (fun x hx => hb x ((sortStrings_perm _).mem_iff.mp hx)) h
  exact ((sortStrings_perm _).symm.trans (hs ▸ List.Perm.refl _)).trans (sortStrings_perm _)

/-- **preimage_injective**: for UUID texts without a newline character (canonical UUIDs are 36 characters
    from `0-9a-f-`), equal hashed messages ⇒ equal multisets of selected UUIDs.  Together with collision
    resistance of the hash – a cryptographic assumption, not a theorem – this is "the checksum differs
    whenever the selected set differs". -/
theorem preimage_injective (a b : List Txn)
    (ha : ∀ u ∈ uuidsOf a, '\n' ∉ u.toList) (hb : ∀ u ∈ uuidsOf b, '\n' ∉ u.toList)
    (h : preimage a = preimage b) : (uuidsOf a).Perm (uuidsOf b) :=
  preimage_injective_bytes a b (fun u hu hn => ha u hu ((nl_in_strBytes u).mp hn))
    (fun u hu hn => hb u hu ((nl_in_strBytes u).mp hn)) h

/-- the fixed-width form (the one sketched in DESIGN.md) -/
theorem preimage_injective_fixed (w : Nat) (a b : List Txn)
    (ha : ∀ u ∈ uuidsOf a, (strBytes u).length = w) (hb : ∀ u ∈ uuidsOf b, (strBytes u).length = w)
    (h : preimage a = preimage b) : (uuidsOf a).Perm (uuidsOf b) := by
  have hs : sortStrings (uuidsOf a) = sortStrings (uuidsOf b) :=
    fed_injective_fixed w [0x0a] _ _ (fun x hx => ha x ((sortStrings_perm _).mem_iff.mp hx))
      (fun x hx => hb x ((sortStrings_perm _).mem_iff.mp hx)) (by simp) h
  exact ((sortStrings_perm _).symm.trans (hs ▸ List.Perm.refl _)).trans (sortStrings_perm _)

/-! ## 6. account-selector checksum -/

/-- `peel (wrap p) = p` for every pattern, also one that contains the wrapper text itself -/
theorem peel_wrap (p : String) : peelFullHaystackPattern (intoFullHaystackPattern p) = p := by
  unfold peelFullHaystackPattern intoFullHaystackPattern
  rw [String.toList_ofList]
  have h1 : stripPrefix hayPre (hayPre ++ p.toList ++ haySuf) = some (p.toList ++ haySuf) := by
    unfold stripPrefix
    have : hayPre.isPrefixOf (hayPre ++ p.toList ++ haySuf) = true := by
      rw [List.isPrefixOf_iff_prefix, List.append_assoc]; exact List.prefix_append _ _
    simp only [this, if_true]
    rw [List.append_assoc, List.drop_left]
  have h2 : stripSuffix haySuf (p.toList ++ haySuf) = some p.toList := by
    unfold stripSuffix
    have : haySuf.isSuffixOf (p.toList ++ haySuf) = true := by
      rw [List.isSuffixOf_iff_suffix]; exact List.suffix_append _ _
    simp only [this, if_true]
    rw [List.length_append, Nat.add_sub_cancel, List.take_left]
  simp only [h1, h2]
  exact String.ofList_toList

/-- what is hashed are the configured patterns themselves (one wrapper layer on, one off) -/
theorem peeled_regexSet (ras : List String) : peeledPatterns (regexSetPatterns ras) = ras := by
  unfold peeledPatterns regexSetPatterns
  rw [List.map_map]
  have : (peelFullHaystackPattern ∘ intoFullHaystackPattern) = id := by
    funext p; exact peel_wrap p
  rw [this, List.map_id]

/-- **selector_checksum**: for a non-empty selector list the checksum is the configured hash of the
    patterns, sorted (byte order), each followed by a newline – the construction of the set checksum -/
theorem selector_checksum (kind : SelectorKind) (alg : Algo) (ras : List String) (hne : ras ≠ []) :
    selectorChecksum kind alg ras =
      ⟨alg.name, hex (alg.digest ((sortStrings ras).flatMap (fun p => strBytes p ++ [0x0a])))⟩ := by
  unfold selectorChecksum
  cases ras with
  | nil => exact absurd rfl hne
  | cons a t => simp only [peeled_regexSet, Hash.checksum, fed]

/-- no selector configured: a constant pseudo checksum naming the default selection -/
theorem selector_checksum_empty (kind : SelectorKind) (alg : Algo) :
    selectorChecksum kind alg [] = ⟨"None", if kind = .equity then "select all non-zero" else "select all"⟩ := by
  cases kind <;> simp [selectorChecksum]

/-- invariant under reordering the selector list -/
theorem selector_checksum_perm (kind : SelectorKind) (alg : Algo) (a b : List String) (h : a.Perm b) :
    selectorChecksum kind alg a = selectorChecksum kind alg b := by
  cases a with
  | nil => rw [List.Perm.nil_eq h]
  | cons x t =>
    have hb : b ≠ [] := by intro e; subst e; exact absurd h (by simp)
    rw [selector_checksum kind alg _ (by simp), selector_checksum kind alg b hb, sortStrings_perm_eq _ _ h]

/-- newline-free patterns: the hashed message determines the multiset of patterns.  (A pattern may
    contain a literal newline; then `["a\nb"]` and `["a", "b"]` are hashed alike, see the example below.) -/
theorem selector_preimage_injective (a b : List String)
    (ha : ∀ p ∈ a, '\n' ∉ p.toList) (hb : ∀ p ∈ b, '\n' ∉ p.toList)
    (h : fed (sortStrings a) [0x0a] = fed (sortStrings b) [0x0a]) : a.Perm b := by
  have hs : sortStrings a = sortStrings b :=
    fed_injective_nl _ _ (fun x hx hn => ha x ((sortStrings_perm _).mem_iff.mp hx) ((nl_in_strBytes x).mp hn))
      (fun x hx hn => hb x ((sortStrings_perm _).mem_iff.mp hx) ((nl_in_strBytes x).mp hn)) h
  exact ((sortStrings_perm _).symm.trans (hs ▸ List.Perm.refl _)).trans (sortStrings_perm _)

/-- printed exactly in audit mode -/
theorem acc_sel_checksum_audit (st : Settings) (alg : Algo) (kind : SelectorKind) (ras : List String) :
    accSelChecksum st alg kind ras = if st.audit = true then some (selectorChecksum kind alg ras) else none := by
  unfold accSelChecksum getHash
  cases st.audit <;> simp

/-! ## 7. algorithm names -/

theorem ofName_name (a : Algo) : Algo.ofName a.name = some a := by cases a <;> decide

/-- `Hash::from` accepts exactly the five names -/
theorem ofName_some (s : String) (a : Algo) (h : Algo.ofName s = some a) : s = a.name := by
  unfold Algo.ofName at h
  (repeat' split at h) <;> first | (cases h; done) | (cases h; simp_all [Algo.name])

theorem checksum_algorithm (alg : Algo) (items : List String) (sep : Bytes) :
    (Hash.checksum alg items sep).algorithm = alg.name := rfl

/-! ## 8. hex text is injective; equal checksums of different sets are hash collisions -/

def unhexDigit (c : Char) : UInt8 := if c.toNat < 58 then UInt8.ofNat (c.toNat - 48) else UInt8.ofNat (c.toNat - 87)

def unhexByte : List Char → UInt8
  | [a, b] => (unhexDigit a <<< 4) ||| unhexDigit b
  | _ => 0

theorem unhexByte_hexByte_nat : ∀ k, k < 256 → unhexByte (hexByte (UInt8.ofNat k)) = UInt8.ofNat k := by
  decide +kernel

theorem unhexByte_hexByte (b : UInt8) : unhexByte (hexByte b) = b := by
  have := unhexByte_hexByte_nat b.toNat b.toNat_lt
  simpa using this

theorem hexChars_inj : ∀ (a b : Bytes), hexChars a = hexChars b → a = b := by
  intro a
  induction a with
  | nil =>
    intro b h
    cases b with
    | nil => rfl
    | cons y t => simp [hexChars, hexByte] at h
  | cons x t ih =>
    intro b h
    cases b with
    | nil => simp [hexChars, hexByte] at h
    | cons y u =>
      simp only [hexChars, List.flatMap_cons] at h
      obtain ⟨h1, h2⟩ := List.append_inj h (by simp [hexByte])
      have hxy : x = y := by rw [← unhexByte_hexByte x, ← unhexByte_hexByte y, h1]
      rw [hxy, ih u h2]

theorem hex_inj (a b : Bytes) (h : hex a = hex b) : a = b :=
  hexChars_inj a b (String.ofList_inj.mp h)

/-- **"differs whenever the set differs", without an assumption**: if two selections with different UUID
    multisets get the same checksum text, their hashed messages are an explicit collision of the
    configured hash function (different messages, equal digests).  Collision resistance is the
    statement that nobody can exhibit such a pair; it is a cryptographic assumption, not a theorem. -/
theorem equal_checksum_is_collision (alg : Algo) (a b : List Txn) (ca cb : Checksum)
    (ha : calcTxnChecksum a alg = .ok ca) (hb : calcTxnChecksum b alg = .ok cb)
    (hna : ∀ u ∈ uuidsOf a, '\n' ∉ u.toList) (hnb : ∀ u ∈ uuidsOf b, '\n' ∉ u.toList)
    (hne : ¬ (uuidsOf a).Perm (uuidsOf b)) (heq : ca.value = cb.value) :
    preimage a ≠ preimage b ∧ alg.digest (preimage a) = alg.digest (preimage b) := by
  refine ⟨fun h => hne (preimage_injective a b hna hnb h), ?_⟩
  rw [calcTxnChecksum_spec] at ha hb
  split at ha
  · split at hb
    · cases ha; cases hb
      exact hex_inj _ _ heq
    · cases hb
  · cases ha

/-! ## 9. non-vacuity and witnesses -/

theorem sortStrings_eq (l r : List String) (hp : l.Perm r) (hs : r.Pairwise (fun a b => strLe a b = true)) :
    sortStrings l = r :=
  sorted_perm_eq _ strLe_antisymm _ _ ((sortStrings_perm l).trans hp) (sortStrings_sorted l) hs

def auditSt : Settings := Settings.ofConfig false true true [] [] []
def laxSt : Settings := Settings.ofConfig false false true [] [] []
def hdr (ns : Int) (u : Option String) : Header := ⟨⟨ns, 0⟩, none, none, u, none, none, none⟩
def raw (ns : Int) (u : Option String) : RawTxn :=
  ⟨hdr ns u, [⟨["a"], Dec.ofInt 1, none, none⟩, ⟨["b"], Dec.ofInt (-1), none, none⟩], none⟩
def txn (ns : Int) (u : Option String) : Txn :=
  ⟨hdr ns u, [⟨["a"], "", Dec.ofInt 1, Dec.ofInt 1, false, "", none⟩, ⟨["b"], "", Dec.ofInt (-1), Dec.ofInt (-1), false, "", none⟩]⟩

def u1 : String := "9c123cbe-4acd-475d-bbcf-96c1fcba58cb"
def u1U : String := "9C123CBE-4ACD-475D-BBCF-96C1FCBA58CB"
def u2 : String := "2e546b18-6ce6-4bb3-9f4b-21b77a768a4c"
def u3 : String := "67bdab27-da08-4647-B0D1-57c9ed129657"     -- mixed case as written
def u3c : String := "67bdab27-da08-4647-b0d1-57c9ed129657"

/-- audit mode: a transaction with UUID is accepted (hypotheses of `audit_requires_uuid` are satisfiable) … -/
example : auditSt.audit = true ∧ (acceptTxn auditSt (raw 1 (some u1))).map (·.1) = .ok (txn 1 (some u1)) := by
  decide
/-- … the same transaction without UUID is rejected in audit mode and accepted otherwise -/
example : acceptTxn auditSt (raw 1 none) = .err := by decide
example : (acceptTxn laxSt (raw 1 none)).map (·.1) = .ok (txn 1 none) := by decide
/-- a journal whose last transaction lacks the UUID is rejected as a whole -/
example : acceptJournal auditSt [raw 1 (some u1), raw 2 (some u2), raw 3 none] = .err := by decide
example : (acceptJournal auditSt [raw 1 (some u1), raw 2 (some u2)]).map (·.1) =
    .ok [txn 1 (some u1), txn 2 (some u2)] := by decide

/-- upper- and mixed-case UUIDs are hashed in canonical lower case -/
example : uuidsOf [txn 1 (some u1U), txn 2 (some u3)] = [u1, u3c] := by decide

/-- a concrete set: three transactions (UUIDs written in upper, lower and mixed case, not in sorted
    order), SHA-256: size 3, checksum = sha256 of the sorted lower-case UUIDs each followed by a newline
    (value computed independently with python's hashlib) -/
example : TxnData.getAll (some .sha256) [txn 1 (some u1U), txn 2 (some u2), txn 3 (some u3)] =
    .ok ⟨some ⟨3, ⟨"SHA-256", "125caf4a8b27569889b5c79f0971380cfffc21b34caac1fc3643e6c9280c2579"⟩⟩,
      [txn 1 (some u1U), txn 2 (some u2), txn 3 (some u3)]⟩ := by
  unfold TxnData.getAll
  rw [makeMetadata_spec]
  have hc : allHaveUuid [txn 1 (some u1U), txn 2 (some u2), txn 3 (some u3)] = true ∧
      (uuidsOf [txn 1 (some u1U), txn 2 (some u2), txn 3 (some u3)]).Nodup := by decide
  have hs : sortStrings (uuidsOf [txn 1 (some u1U), txn 2 (some u2), txn 3 (some u3)]) = [u2, u3c, u1] :=
    sortStrings_eq _ _ (by decide) (by decide)
  simp only [if_pos hc, specItem, preimage, hs]
  decide +kernel

/-- a filter that selects nothing: size 0 and the digest of the empty message -/
example : TxnData.filter (some .sha256) (fun _ => false) [txn 1 (some u1), txn 2 (some u1)] =
    .ok ⟨some ⟨0, ⟨"SHA-256", "e3b0c44298fc1c149afbf4c8996fb92427ae41e4649b934ca495991b7852b855"⟩⟩, []⟩ := by
  rw [filter_outcome]
  have hs : sortStrings (uuidsOf ([] : List Txn)) = [] := sortStrings_eq _ _ (by decide) (by decide)
  simp only [List.filter_nil, List.filter_cons, Bool.false_eq_true, if_false, specItem, preimage, hs]
  decide +kernel

/-- duplicates that differ only in letter case are duplicates (`dup_rejected` is not vacuous) -/
example : calcTxnChecksum [txn 1 (some u1), txn 2 (some u2), txn 3 (some u1U)] .sha3_512 = .err :=
  dup_rejected _ _ (by decide)

/-- duplicates outside the selection do not matter -/
example : ∃ s, TxnData.filter (some .sha512) (fun t => t.header.ts.ns == 2) [txn 1 (some u1), txn 2 (some u2), txn 3 (some u1)] = .ok s := by
  rw [filter_outcome]
  have hc : allHaveUuid ([txn 1 (some u1), txn 2 (some u2), txn 3 (some u1)].filter (fun t => t.header.ts.ns == 2)) = true ∧
      (uuidsOf ([txn 1 (some u1), txn 2 (some u2), txn 3 (some u1)].filter (fun t => t.header.ts.ns == 2))).Nodup := by decide
  rw [if_pos hc]
  exact ⟨_, rfl⟩

/-- canonical UUID texts satisfy the hypotheses of `preimage_injective` (no newline; 36 bytes wide) -/
example : ∀ u ∈ uuidsOf [txn 1 (some u1U), txn 2 (some u3)], '\n' ∉ u.toList ∧ (strBytes u).length = 36 := by
  decide

/-- selector patterns: the already-wrapped `^(?:e.*)$` is hashed as written; order does not matter -/
example : peeledPatterns (regexSetPatterns ["^(?:e.*)$", "a:.*"]) = ["^(?:e.*)$", "a:.*"] := by decide
example (alg : Algo) : selectorChecksum .register alg ["b", "a"] = selectorChecksum .register alg ["a", "b"] :=
  selector_checksum_perm _ _ _ _ (by decide)

/-- a selector pattern may contain a newline; the pattern lists `["a\nb"]` and `["a", "b"]` then get the
    same checksum although they are different selectors (so `selector_preimage_injective` needs its
    hypothesis; UUIDs never contain a newline, so the set checksum is not affected) -/
theorem selector_newline_witness (alg : Algo) :
    selectorChecksum .balance alg ["a\nb"] = selectorChecksum .balance alg ["a", "b"] := by
  rw [selector_checksum _ _ _ (by simp), selector_checksum _ _ _ (by simp)]
  have h1 : sortStrings ["a\nb"] = ["a\nb"] := sortStrings_eq _ _ (by decide) (by decide)
  have h2 : sortStrings ["a", "b"] = ["a", "b"] := sortStrings_eq _ _ (by decide) (by decide)
  rw [h1, h2]
  have : (["a\nb"] : List String).flatMap (fun p => strBytes p ++ [0x0a]) =
      (["a", "b"] : List String).flatMap (fun p => strBytes p ++ [0x0a]) := by decide
  rw [this]

end C09
end Tackler

import TacklerModel.Lemmas.RoundTripTxn
import TacklerModel.Lemmas.RoundTripTs
import TacklerModel.Props.C01
import TacklerModel.Lemmas.AcceptOrder
/-!
# C06 — the identity export re-parses to the same transactions and is a fixed point

Model: `Print.printL L div` (`Model/Print.lean`; `Layout.identity` is `Display for Transaction` +
`IdentityExporter`), `Syntax.parseJournal` (`Model/Syntax.lean`), `acceptTxn`/`loadJournal`
(`Model/Accept.lean`, `Model/Order.lean`).  `div` is `rust_decimal`'s division, a parameter with the
contract `DivExact` (re-multiplying the printed unit price gives the transaction amount back).

* **Token, line, transaction, journal level** (text ⇒ parse tree): for every layout of the family
  `LayoutOK` (indent and separator of ≥ 1 blank, trailing blanks, `\n` or `\r\n`, any order of the metadata
  lines, any number of blank lines before the first and ≥ 1 after every transaction), a list of well-formed
  transactions `WF` prints to a text that `parseJournal` maps to exactly the parse trees `rawOf` —
  `number_roundtrip` … `transaction_roundtrip`, `journal_roundtrip`, `layout_free`.
  The proofs are in `Lemmas/RoundTrip*.lean` (one lemma per parser); they are listed here under the names of
  the property.  `WF` is what the acceptor can produce: trimmed code, right-trimmed description, canonical
  uuid, valid names, representable numbers, and a timestamp satisfying the *decidable* check `TsOK`
  (civil fields in range and the calendar inverse law `civilNs (civilAt ts) = ts` for this instant).
* **Acceptance** (parse tree ⇒ transaction): `reaccept` — the tree `rawOf t` of an accepted transaction `t` is
  accepted again, in the same settings state, to the *same* `t` and the same resulting state: every field
  equal, implicit amounts now explicit, unit prices re-derived by `div`.
* **Composition**: `roundtrip_layout` — print the accepted transactions of a journal in any layout of the
  family and load the text: the result is exactly the originally loaded (sorted) list.  It is stated for the
  transactions printed in the order in which they were accepted.  The identity export prints them *sorted*
  (`TxnData::from`), i.e. in general in another order than the one in which the input threaded them through
  `Settings`; `Lemmas/AcceptOrder.lean` shows that this order is immaterial (each transaction is accepted as if
  it were alone, `acceptJournal_pointwise`), which gives `reaccept_perm` (the trees of the printed transactions
  are accepted in *any* order), `identity_export_reloads` (the export of the loaded list loads to the loaded
  list) and `export_fixpoint_partial` (the second export is byte-identical) for every accepted journal, in
  whatever order it was written.  Still assumed there: `DivExact` (contract of `rust_decimal`'s division) and
  the lexical well-formedness `WF`/`UnitNE` of what was accepted (`accept_wf` derives `WF` from `RawLex` of the
  parser's output, which is not proved).
-/
namespace Tackler
namespace C06
open Comb Syntax Print

/-! ## token, line, transaction level (aliases of the lemma library) -/

/-- `p_number (display d ++ rest) = d` -/
theorem number_roundtrip (d : Dec) (rest : List Char) (h : NumWF d) (hr : StartsNot numStop rest) :
    pNumber (d.toChars ++ rest) = .ok d rest := pNumber_print d rest h hr

/-- account / tag names: the `:`-joined components parse back to the components -/
theorem name_roundtrip (parts : List (List Char)) (rest : List Char) (h : PartsWF parts) (hr : StartsNot nameStop rest) :
    pMultiPartId (joinParts parts ++ rest) = .ok parts rest := pMultiPartId_print parts rest h hr

/-- `; comment` keeps exactly the text after the one blank (also empty, also with leading/trailing blanks) -/
theorem comment_roundtrip (c : List Char) {eol : List Char} (he : IsEol eol) (rest : List Char) (hc : LineText c) :
    pComment (';' :: ' ' :: (c ++ (eol ++ rest))) = .ok c (eol ++ rest) := pComment_print c he rest hc

theorem code_roundtrip (c rest : List Char) (hc : ∀ d ∈ c, validCodeChar d = true) :
    parseTxnCode ('(' :: (c ++ (')' :: rest))) = .ok (String.ofList (trim c)) rest := parseTxnCode_print c rest hc

theorem description_roundtrip (d w : List Char) {eol : List Char} (he : IsEol eol) (rest : List Char)
    (hd : LineText d) (hw : Blanks w) :
    parseTxnDescription ('\'' :: (d ++ (w ++ (eol ++ rest)))) = .ok (String.ofList (trimEnd d)) (eol ++ rest) :=
  parseTxnDescription_print d w he rest hd hw

theorem uuid_roundtrip (u rest : List Char) (h : UuidWF u) : pUuid (u ++ rest) = .ok (String.ofList u) rest :=
  pUuid_print u rest h

/-- `rfc_3339` then `parse_timestamp`, for every instant passing the decidable check `TsOK` -/
theorem timestamp_roundtrip (cfg : Time.TsCfg) (ts : Ts) (hok : TsOK ts = true) (r : List Char) :
    parseTimestamp cfg (rfc3339 ts ++ r) = .ok ts r := ts_roundtrip cfg ts hok r

theorem location_line_roundtrip (L : Layout) (hL : LayoutOK L) (g : Geo) (rest : List Char) (hg : GeoWF g) :
    parseMetaLocation (locationLine L (some g) ++ rest) = .ok g rest := parseMetaLocation_print L hL g rest hg

theorem tags_line_roundtrip (L : Layout) (hL : LayoutOK L) (tags : List String) (rest : List Char) (ht : TagsWF tags) :
    parseMetaTags (tagsLine L (some tags) ++ rest) = .ok tags rest := parseMetaTags_print L hL tags rest ht

/-- the metadata block in each of the six orders, with any subset of uuid / location / tags present -/
theorem metadata_any_order (L : Layout) (hL : LayoutOK L) (h : Header) (rest : List Char) (hm : MetaWF h)
    (hr : NonMeta rest) :
    ∃ m, opt parseTxnMeta (metaBlock L h ++ rest) = .ok m rest ∧
      metaUuid m = h.uuid ∧ metaLocation m = h.location ∧ metaTags m = h.tags := parseTxnMeta_print L hL h rest hm hr

theorem posting_line_roundtrip (L : Layout) (hL : LayoutOK L) (div : Dec → Dec → Dec) (p : Posting)
    (hp : PostingWF div p) (rest : List Char) :
    parseTxnPosting (postingL L div p ++ rest) = .ok (rawPostingOf div p) rest := parseTxnPosting_print L hL div p hp rest

theorem header_roundtrip (cfg : Time.TsCfg) (L : Layout) (hL : LayoutOK L) (h : Header)
    (hts : TsOK h.ts = true) (hh : HeaderWF h) (rest : List Char) (hr : PostingStart rest) :
    parseTxnHeader cfg (headerL L h ++ rest) = .ok h rest :=
  parseTxnHeader_print cfg L hL h (ts_roundtrip cfg h.ts hts) hh rest hr

/-- **WF**: what the acceptor can produce and the export can print re-parsably -/
structure WF (div : Dec → Dec → Dec) (t : Txn) : Prop where
  ts : TsOK t.header.ts = true
  header : HeaderWF t.header
  posts_ne : t.posts ≠ []
  posts : ∀ p ∈ t.posts, PostingWF div p

theorem WF.txnWF {div : Dec → Dec → Dec} {t : Txn} (h : WF div t) (cfg : Time.TsCfg) : TxnWF cfg div t :=
  ⟨ts_roundtrip cfg t.header.ts h.ts, h.header, h.posts_ne, h.posts⟩

theorem transaction_roundtrip (cfg : Time.TsCfg) (L : Layout) (hL : LayoutOK L) (div : Dec → Dec → Dec) (t : Txn)
    (ht : WF div t) (rest : List Char) (hr : TxnStartOrEnd rest) :
    parseTxn cfg (txnL L div t ++ rest) = .ok (rawOf div t) rest := parseTxn_print cfg L hL div t (ht.txnWF cfg) rest hr

/-- **journal level, text ⇒ parse trees**, for every layout of the family -/
theorem journal_roundtrip (cfg : Time.TsCfg) (L : Layout) (hL : LayoutOK L) (div : Dec → Dec → Dec) (ts : List Txn)
    (hne : ts ≠ []) (hw : ∀ t ∈ ts, WF div t) :
    parseJournal cfg (printL L div ts) = some (ts.map (rawOf div)) :=
  parseJournal_print cfg L hL div ts hne (fun t ht => (hw t ht).txnWF cfg)

/-- the parse result does not depend on the layout (nor on the configured zone: the export prints offsets) -/
theorem layout_free (cfg₁ cfg₂ : Time.TsCfg) (L₁ L₂ : Layout) (h₁ : LayoutOK L₁) (h₂ : LayoutOK L₂)
    (div : Dec → Dec → Dec) (ts : List Txn) (hne : ts ≠ []) (hw : ∀ t ∈ ts, WF div t) :
    parseJournal cfg₁ (printL L₁ div ts) = parseJournal cfg₂ (printL L₂ div ts) := by
  rw [journal_roundtrip cfg₁ L₁ h₁ div ts hne hw, journal_roundtrip cfg₂ L₂ h₂ div ts hne hw]

/-- the identity export is a member of the family -/
theorem identity_roundtrip (cfg : Time.TsCfg) (div : Dec → Dec → Dec) (ts : List Txn) (hne : ts ≠ [])
    (hw : ∀ t ∈ ts, WF div t) : parseJournal cfg (identityExport div ts) = some (ts.map (rawOf div)) :=
  journal_roundtrip cfg Layout.identity layoutOK_identity div ts hne hw

/-! ## acceptance of the re-parsed tree -/

/-- the division used by the export recovers the unit price of an `@` posting exactly -/
def DivExact (div : Dec → Dec → Dec) (p : Posting) : Prop :=
  p.isTotal = false → p.txnComm ≠ p.comm →
    (div p.txnAmount p.amount).isNeg = false ∧ Dec.mul p.amount (div p.txnAmount p.amount) = some p.txnAmount

/-- commodity names of a parse tree are not empty (the grammar's identifiers never are) -/
def UnitNE (u : Option PostUnit) : Prop :=
  ∀ x, u = some x → x.comm ≠ "" ∧ ∀ v, (x.closing = some (.total v) ∨ x.closing = some (.unitPrice v)) → v.comm ≠ ""

theorem unit_rawOf (div : Dec → Dec → Dec) (st st1 : Settings) (amount : Dec) (unit : Option PostUnit) (vp : VP)
    (hreg : registerUnit st unit = .ok st1) (hvp : valuePosition amount unit = .ok vp) (hne : UnitNE unit)
    (p : Posting) (hp1 : p.comm = vp.postComm) (hp2 : p.amount = vp.postAmount) (hp3 : p.txnAmount = vp.txnAmount)
    (hp4 : p.isTotal = vp.isTotal) (hp5 : p.txnComm = vp.txnComm) (hdiv : DivExact div p) :
    registerUnit st (unitOfPosting div p) = .ok st1 ∧ valuePosition p.amount (unitOfPosting div p) = .ok vp := by
  cases unit with
  | none =>
    simp only [valuePosition] at hvp
    cases hvp
    simp only [registerUnit] at hreg
    cases hreg
    simp only at hp1 hp2 hp3 hp4 hp5
    simp [unitOfPosting, hp1, registerUnit, valuePosition, hp2]
  | some u =>
    obtain ⟨hcne, hvne⟩ := hne u rfl
    cases hcl : u.closing with
    | none =>
      simp only [valuePosition, hcl] at hvp
      split at hvp
      · cases hvp
      · cases hvp
        simp only at hp1 hp2 hp3 hp4 hp5
        have : closingOfPosting div p = none := by simp [closingOfPosting, hp5, hp1]
        simp only [registerUnit, hcl] at hreg
        simp [unitOfPosting, hp1, hcne, this, registerUnit, valuePosition, hp2, openingNeg]
        exact hreg
    | some cl =>
      cases cl with
      | total v =>
        have hvc := hvne v (Or.inl hcl)
        simp only [valuePosition, hcl] at hvp
        split at hvp
        · cases hvp
        · rename_i hcv
          split at hvp
          · cases hvp
          · split at hvp
            · cases hvp
            · rename_i hsign
              cases hvp
              simp only at hp1 hp2 hp3 hp4 hp5
              have hne' : p.txnComm ≠ p.comm := by rw [hp5, hp1]; exact fun e => hcv e.symm
              have hcl' : closingOfPosting div p = some (.total ⟨v.value, v.comm⟩) := by
                simp [closingOfPosting, hp5, hvc, hp1, hp4, hp3]
                exact fun e => absurd e.symm hcv
              simp only [registerUnit, hcl] at hreg
              refine ⟨?_, ?_⟩
              · simp [unitOfPosting, hp1, hcne, hcl', registerUnit]
                exact hreg
              · simp [unitOfPosting, hp1, hcne, hcl', valuePosition, hcv, openingNeg, hp2]
                simpa using hsign
      | unitPrice v =>
        have hvc := hvne v (Or.inr hcl)
        simp only [valuePosition, hcl] at hvp
        split at hvp
        · cases hvp
        · rename_i hcv
          split at hvp
          · cases hvp
          · split at hvp
            · cases hvp
            · rename_i hneg
              split at hvp
              · rename_i t ht
                cases hvp
                simp only at hp1 hp2 hp3 hp4 hp5
                have hne' : p.txnComm ≠ p.comm := by rw [hp5, hp1]; exact fun e => hcv e.symm
                obtain ⟨hd1, hd2⟩ := hdiv hp4 hne'
                have hcl' : closingOfPosting div p = some (.unitPrice ⟨div p.txnAmount p.amount, v.comm⟩) := by
                  simp [closingOfPosting, hp5, hvc, hp1, hp4]
                  exact fun e => absurd e.symm hcv
                simp only [registerUnit, hcl] at hreg
                refine ⟨?_, ?_⟩
                · simp [unitOfPosting, hp1, hcne, hcl', registerUnit]
                  exact hreg
                · simp [unitOfPosting, hp1, hcne, hcl', valuePosition, hcv, openingNeg, hd1]
                  rw [hd2]; simp [hp2, hp3]
              · exact absurd hvp (Outcome.inexact_ne_ok _ _)

theorem handlePosting_rawOf (div : Dec → Dec → Dec) (st st2 : Settings) (rp : RawPosting) (p : Posting)
    (h : handlePosting st rp = .ok (p, st2)) (hne : UnitNE rp.unit) (hdiv : DivExact div p) :
    handlePosting st (rawPostingOf div p) = .ok (p, st2) := by
  unfold handlePosting at h
  split at h
  · cases h
  · cases h
  · rename_i st1 hreg
    split at h
    · cases h
    · cases h
    · rename_i vp hvp
      split at h
      · cases h
      · cases h
      · rename_i a st2' hacct
        obtain ⟨q, hq, hqe⟩ := (Outcome.map_ok _ _ _).mp h
        cases hqe
        obtain ⟨rfl, _⟩ := C01.mkPosting_ok _ _ hq
        have ha := C01.gocta_acct _ _ _ _ _ hacct
        subst ha
        obtain ⟨h1, h2⟩ := unit_rawOf div st st1 rp.amount rp.unit vp hreg hvp hne
          ⟨rp.acct, vp.postComm, vp.postAmount, vp.txnAmount, vp.isTotal, vp.txnComm, rp.comment⟩ rfl rfl rfl rfl rfl hdiv
        unfold handlePosting
        simp only [rawPostingOf, h1, h2, hacct]
        exact h

/-- registering a non-empty commodity twice changes nothing the second time -/
theorem gocc_idem (st st1 : Settings) (n x : String) (hn : n ≠ "")
    (h : st.getOrCreateCommodity (some n) = .ok (x, st1)) : st1.getOrCreateCommodity (some n) = .ok (n, st1) := by
  unfold Settings.getOrCreateCommodity at h ⊢
  simp only [hn, if_false] at h ⊢
  split at h
  · rename_i hmem; cases h; simp [hmem]
  · split at h
    · cases h
    · cases h; simp

theorem getOrCreateTxnAccount_after (st st1 : Settings) (n x : String) (hn : n ≠ "")
    (h : st.getOrCreateCommodity (some n) = .ok (x, st1)) (a : Path) :
    st1.getOrCreateTxnAccount a n = st.getOrCreateTxnAccount a n := by
  unfold Settings.getOrCreateTxnAccount
  rw [gocc_idem st st1 n x hn h, h]

theorem mapMS_sim {σ α β} (f : σ → α → Outcome (β × σ)) (g : β → α) (A : α → Prop) (B : β → Prop)
    (hsim : ∀ s a b s', A a → B b → f s a = .ok (b, s') → f s (g b) = .ok (b, s')) :
    ∀ (l : List α) (s s' : σ) (bs : List β), mapMS f s l = .ok (bs, s') → (∀ a ∈ l, A a) → (∀ b ∈ bs, B b) →
      mapMS f s (bs.map g) = .ok (bs, s') := by
  intro l
  induction l with
  | nil => intro s s' bs h _ _; simp [mapMS] at h; obtain ⟨rfl, rfl⟩ := h; rfl
  | cons a t ih =>
    intro s s' bs h hA hB
    simp only [mapMS] at h
    split at h
    · rename_i b0 s1 hb0
      split at h
      · rename_i bs' s2 hbs'
        simp at h
        obtain ⟨rfl, rfl⟩ := h
        have h1 := hsim s a b0 s1 (hA a List.mem_cons_self) (hB b0 List.mem_cons_self) hb0
        have h2 := ih s1 s2 bs' hbs' (fun x hx => hA x (List.mem_cons_of_mem _ hx)) (fun x hx => hB x (List.mem_cons_of_mem _ hx))
        simp only [List.map_cons, mapMS, h1, h2]
      · cases h
      · cases h
    · cases h
    · cases h

theorem mapMS_append_ok {σ α β} (f : σ → α → Outcome (β × σ)) :
    ∀ (l1 l2 : List α) (s s1 s2 : σ) (b1 b2 : List β), mapMS f s l1 = .ok (b1, s1) → mapMS f s1 l2 = .ok (b2, s2) →
      mapMS f s (l1 ++ l2) = .ok (b1 ++ b2, s2) := by
  intro l1
  induction l1 with
  | nil => intro l2 s s1 s2 b1 b2 h1 h2; simp [mapMS] at h1; obtain ⟨rfl, rfl⟩ := h1; simpa using h2
  | cons a t ih =>
    intro l2 s s1 s2 b1 b2 h1 h2
    simp only [mapMS] at h1
    split at h1
    · rename_i b0 sa hb0
      split at h1
      · rename_i bs' sb hbs'
        simp at h1
        obtain ⟨rfl, rfl⟩ := h1
        have := ih l2 sa sb s2 bs' b2 hbs' h2
        simp only [List.cons_append, mapMS, hb0, this]
      · cases h1
      · cases h1
    · cases h1
    · cases h1

/-- the implicit last posting, once explicit, is handled to the same posting and state -/
theorem lastPosting_rawOf (div : Dec → Dec → Dec) (st1 st2 : Settings) (a a' : Path) (c : String) (amt : Dec)
    (cmt : Option String) (l : Posting)
    (hacct : st1.getOrCreateTxnAccount a c = .ok (a', st2))
    (hmk : mkPosting ⟨a', c, amt, amt, false, c, cmt⟩ = .ok l) :
    handlePosting st1 (rawPostingOf div l) = .ok (l, st2) := by
  obtain ⟨rfl, _⟩ := C01.mkPosting_ok _ _ hmk
  have ha := C01.gocta_acct _ _ _ _ _ hacct
  subst ha
  unfold handlePosting
  by_cases hc : c = ""
  · subst hc
    simp only [rawPostingOf, unitOfPosting, if_true, registerUnit, valuePosition, hacct]
    rw [hmk]; rfl
  · have hcl : closingOfPosting div ⟨a', c, amt, amt, false, c, cmt⟩ = none := by
      simp [closingOfPosting]
    simp only [rawPostingOf, unitOfPosting, hc, if_false, hcl, registerUnit]
    have hfirst : ∃ x sc, st1.getOrCreateCommodity (some c) = .ok (x, sc) := by
      unfold Settings.getOrCreateTxnAccount at hacct
      split at hacct
      · cases hacct
      · cases hacct
      · rename_i x sc hx; exact ⟨_, sc, hx⟩
    obtain ⟨x, sc, hx⟩ := hfirst
    simp only [hx, valuePosition, openingNeg, Bool.false_eq_true, if_false]
    rw [getOrCreateTxnAccount_after st1 sc c x hc hx, hacct]
    simp only []
    rw [hmk]; rfl

theorem acceptPostings_rawOf (div : Dec → Dec → Dec) (st st' : Settings) (posts : List RawPosting)
    (last : Option (Path × Option String)) (all : List Posting)
    (h : acceptPostings st posts last = .ok (all, st'))
    (hne : ∀ rp ∈ posts, UnitNE rp.unit) (hdiv : ∀ p ∈ all, DivExact div p) :
    acceptPostings st (all.map (rawPostingOf div)) none = .ok (all, st') := by
  have hsim : ∀ s a b s', UnitNE a.unit → DivExact div b → handlePosting s a = .ok (b, s') →
      handlePosting s (rawPostingOf div b) = .ok (b, s') :=
    fun s a b s' h1 h2 h3 => handlePosting_rawOf div s s' a b h3 h1 h2
  unfold acceptPostings at h
  split at h
  · cases h
  · cases h
  · rename_i ps st1 hps
    split at h
    · cases h
    · rename_i p0 rest
      split at h
      · cases h
        have := mapMS_sim handlePosting (rawPostingOf div) (fun a => UnitNE a.unit) (DivExact div) hsim
          posts st st' (p0 :: rest) hps hne hdiv
        unfold acceptPostings
        rw [this]
      · rename_i a cmt
        split at h
        · exact absurd h (Outcome.inexact_ne_ok _ _)
        · rename_i s hs
          split at h
          · cases h
          · cases h
          · rename_i a' st2 hacct
            obtain ⟨l, hl, hle⟩ := (Outcome.map_ok _ _ _).mp h
            cases hle
            have h1 := mapMS_sim handlePosting (rawPostingOf div) (fun a => UnitNE a.unit) (DivExact div) hsim
              posts st st1 (p0 :: rest) hps hne (fun p hp => hdiv p (List.mem_append_left _ hp))
            have h2 : mapMS handlePosting st1 [rawPostingOf div l] = .ok ([l], st') := by
              simp only [mapMS, lastPosting_rawOf div st1 st' a a' p0.txnComm s.negate cmt l hacct hl]
            have h3 := mapMS_append_ok handlePosting _ _ st st1 st' _ _ h1 h2
            unfold acceptPostings
            have e : List.map (rawPostingOf div) (p0 :: rest ++ [l]) =
                List.map (rawPostingOf div) (p0 :: rest) ++ [rawPostingOf div l] := by simp
            rw [e, h3]
            rfl

/-- **re-acceptance**: the parse tree of the printed transaction is accepted, in the state in which the
    original was accepted, to the *same* transaction and the same resulting state -/
theorem reaccept (div : Dec → Dec → Dec) (st st' : Settings) (r : RawTxn) (t : Txn)
    (h : acceptTxn st r = .ok (t, st')) (hne : ∀ rp ∈ r.posts, UnitNE rp.unit) (hdiv : ∀ p ∈ t.posts, DivExact div p) :
    acceptTxn st (rawOf div t) = .ok (t, st') := by
  unfold acceptTxn at h
  split at h
  · cases h
  · cases h
  · rename_i st1 hhdr
    split at h
    · cases h
    · cases h
    · rename_i ps st2 hps
      split at h
      · cases h
      · rename_i p0 rest
        split at h
        · cases h
        · rename_i hany
          split at h
          · exact absurd h (Outcome.inexact_ne_ok _ _)
          · rename_i s hs
            split at h
            · rename_i hz
              cases h
              have hp := acceptPostings_rawOf div st1 st' r.posts r.last (p0 :: rest) hps hne hdiv
              unfold acceptTxn
              simp only [rawOf, hhdr, hp, hany, hs, hz, if_true, Bool.false_eq_true, if_false]
            · cases h

/-- whole journals, in acceptance order -/
theorem reaccept_journal (div : Dec → Dec → Dec) (st st' : Settings) (rs : List RawTxn) (ts : List Txn)
    (h : acceptJournal st rs = .ok (ts, st'))
    (hne : ∀ r ∈ rs, ∀ rp ∈ r.posts, UnitNE rp.unit) (hdiv : ∀ t ∈ ts, ∀ p ∈ t.posts, DivExact div p) :
    acceptJournal st (ts.map (rawOf div)) = .ok (ts, st') := by
  unfold acceptJournal at h ⊢
  exact mapMS_sim acceptTxn (rawOf div) (fun r => ∀ rp ∈ r.posts, UnitNE rp.unit) (fun t => ∀ p ∈ t.posts, DivExact div p)
    (fun s r t s' h1 h2 h3 => reaccept div s s' r t h3 h1 h2) rs st st' ts h hne hdiv

/-! ## what the acceptor produces is well-formed -/

/-- lexical well-formedness of a parsed posting -/
structure RawPostingLex (rp : RawPosting) : Prop where
  acct : ∃ parts, PartsWF parts ∧ rp.acct = toPath parts ∧ acctOk parts = true
  amount : NumWF rp.amount
  unit : ∀ u, rp.unit = some u → IdentWF u.comm.toList ∧ isValidId u.comm.toList = true ∧
    (∀ v, (u.closing = some (.total v) ∨ u.closing = some (.unitPrice v)) →
      IdentWF v.comm.toList ∧ isValidId v.comm.toList = true ∧ NumWF v.value)
  comment : ∀ c, rp.comment = some c → LineText c.toList

theorem identWF_ne_empty (s : String) (h : IdentWF s.toList) : s ≠ "" := by
  intro e; subst e
  obtain ⟨c, t, hc, _⟩ := h
  simp at hc

theorem mul_wf (a b t : Dec) (h : Dec.mul a b = some t) : t.scale ≤ 28 ∧ t.coeff ≤ max96 := by
  unfold Dec.mul at h
  split at h
  · cases h; simp [Dec.zero, max96]
  · split at h
    · rename_i hc; cases h; exact hc
    · cases h

theorem sumFrom_wf : ∀ (l : List Dec) (acc s : Dec), acc.scale ≤ 28 → acc.coeff ≤ max96 →
    (∀ d ∈ l, d.scale ≤ 28 ∧ d.coeff ≤ max96) → Dec.sumFrom acc l = some s → s.scale ≤ 28 ∧ s.coeff ≤ max96 := by
  intro l
  induction l with
  | nil => intro acc s h1 h2 _ h; simp [Dec.sumFrom] at h; subst h; exact ⟨h1, h2⟩
  | cons d t ih =>
    intro acc s h1 h2 hall h
    simp only [Dec.sumFrom] at h
    split at h
    · rename_i r hr
      have hd := hall d List.mem_cons_self
      exact ih r s (Dec.add_units acc d r h1 hd.1 hr).2 (Dec.add_coeff acc d r h2 hd.2 hr)
        (fun x hx => hall x (List.mem_cons_of_mem _ hx)) h
    · cases h

/-- one accepted value-carrying posting is printable -/
theorem handlePosting_wf (div : Dec → Dec → Dec) (st st2 : Settings) (rp : RawPosting) (p : Posting)
    (h : handlePosting st rp = .ok (p, st2)) (hl : RawPostingLex rp)
    (hd : p.isTotal = false → NumWF (div p.txnAmount p.amount)) :
    PostingWF div p ∧ p.txnAmount.scale ≤ 28 ∧ p.txnAmount.coeff ≤ max96 := by
  unfold handlePosting at h
  split at h
  · cases h
  · cases h
  · rename_i st1 hreg
    split at h
    · cases h
    · cases h
    · rename_i vp hvp
      split at h
      · cases h
      · cases h
      · rename_i a st2' hacct
        obtain ⟨q, hq, hqe⟩ := (Outcome.map_ok _ _ _).mp h
        cases hqe
        obtain ⟨rfl, _⟩ := C01.mkPosting_ok _ _ hq
        have ha := C01.gocta_acct _ _ _ _ _ hacct
        subst ha
        have hs := C01.valuePosition_spec _ _ _ hvp
        cases hu : rp.unit with
        | none =>
          rw [hu] at hvp
          simp only [valuePosition] at hvp
          cases hvp
          exact ⟨⟨hl.acct, hl.amount, Or.inl rfl, fun _ => rfl, fun h => absurd rfl h, hl.comment⟩, hl.amount.1, hl.amount.2.1⟩
        | some u =>
          obtain ⟨huid, huv, hcl⟩ := hl.unit u hu
          rw [hu] at hvp
          cases hc : u.closing with
          | none =>
            simp only [valuePosition, hc] at hvp
            split at hvp
            · cases hvp
            · cases hvp
              exact ⟨⟨hl.acct, hl.amount, Or.inr ⟨huid, huv⟩, fun e => absurd e (identWF_ne_empty _ huid),
                fun _ h => absurd rfl h, hl.comment⟩, hl.amount.1, hl.amount.2.1⟩
          | some cl =>
            cases cl with
            | total v =>
              obtain ⟨hvid, hvv, hvn⟩ := hcl v (Or.inl hc)
              simp only [valuePosition, hc] at hvp
              split at hvp
              · cases hvp
              · split at hvp
                · cases hvp
                · split at hvp
                  · cases hvp
                  · cases hvp
                    exact ⟨⟨hl.acct, hl.amount, Or.inr ⟨huid, huv⟩, fun e => absurd e (identWF_ne_empty _ huid),
                      fun _ _ => ⟨hvid, hvv, by simpa using hvn⟩, hl.comment⟩, hvn.1, hvn.2.1⟩
            | unitPrice v =>
              obtain ⟨hvid, hvv, hvn⟩ := hcl v (Or.inr hc)
              simp only [valuePosition, hc] at hvp
              split at hvp
              · cases hvp
              · split at hvp
                · cases hvp
                · split at hvp
                  · cases hvp
                  · split at hvp
                    · rename_i t ht
                      cases hvp
                      have hm := mul_wf _ _ _ ht
                      exact ⟨⟨hl.acct, hl.amount, Or.inr ⟨huid, huv⟩, fun e => absurd e (identWF_ne_empty _ huid),
                        fun _ _ => ⟨hvid, hvv, by simpa using hd rfl⟩, hl.comment⟩, hm.1, hm.2⟩
                    · exact absurd hvp (Outcome.inexact_ne_ok _ _)

/-- lexical well-formedness of a parse tree (what `Syntax.parseJournal` yields; checked by the tie) -/
structure RawLex (r : RawTxn) : Prop where
  ts : TsOK r.header.ts = true
  header : HeaderWF r.header
  posts : ∀ rp ∈ r.posts, RawPostingLex rp
  last : ∀ a c, r.last = some (a, c) →
    (∃ parts, PartsWF parts ∧ a = toPath parts ∧ acctOk parts = true) ∧ (∀ x, c = some x → LineText x.toList)

theorem txnComm_lex (div : Dec → Dec → Dec) (p : Posting) (h : PostingWF div p) :
    p.txnComm = "" ∨ (IdentWF p.txnComm.toList ∧ isValidId p.txnComm.toList = true) := by
  by_cases h1 : p.txnComm = ""
  · exact Or.inl h1
  · by_cases h2 : p.txnComm = p.comm
    · rw [h2]
      rcases h.comm with hc | hc
      · exact Or.inl hc
      · exact Or.inr hc
    · obtain ⟨a, b, _⟩ := h.priced h1 h2
      exact Or.inr ⟨a, b⟩

theorem acceptPostings_wf (div : Dec → Dec → Dec) (st st' : Settings) (r : RawTxn) (all : List Posting)
    (h : acceptPostings st r.posts r.last = .ok (all, st')) (hl : RawLex r)
    (hd : ∀ p ∈ all, p.isTotal = false → NumWF (div p.txnAmount p.amount)) :
    all ≠ [] ∧ ∀ p ∈ all, PostingWF div p := by
  unfold acceptPostings at h
  split at h
  · cases h
  · cases h
  · rename_i ps st1 hps
    have hgood : ∀ q ∈ ps, (q.isTotal = false → NumWF (div q.txnAmount q.amount)) →
        PostingWF div q ∧ q.txnAmount.scale ≤ 28 ∧ q.txnAmount.coeff ≤ max96 := by
      intro q hq hdq
      obtain ⟨rp, hrp, s1, s2, hf⟩ := mapMS_ok handlePosting r.posts st st1 ps hps q hq
      exact handlePosting_wf div s1 s2 rp q hf (hl.posts rp hrp) hdq
    split at h
    · cases h
    · rename_i p0 rest
      split at h
      · cases h
        exact ⟨by simp, fun p hp => (hgood p hp (hd p hp)).1⟩
      · rename_i a cmt hlast
        split at h
        · exact absurd h (Outcome.inexact_ne_ok _ _)
        · rename_i s hs
          split at h
          · cases h
          · cases h
          · rename_i a' st2 hacct
            obtain ⟨l, hlp, hle⟩ := (Outcome.map_ok _ _ _).mp h
            cases hle
            have hmain : ∀ q ∈ p0 :: rest, PostingWF div q ∧ q.txnAmount.scale ≤ 28 ∧ q.txnAmount.coeff ≤ max96 :=
              fun q hq => hgood q hq (hd q (List.mem_append_left _ hq))
            refine ⟨by simp, ?_⟩
            intro p hp
            rcases List.mem_append.mp hp with hp | hp
            · exact (hmain p hp).1
            · simp at hp; subst hp
              obtain ⟨rfl, hnz⟩ := C01.mkPosting_ok _ _ hlp
              have ha := C01.gocta_acct _ _ _ _ _ hacct
              subst ha
              obtain ⟨hal, hcl⟩ := hl.last a' cmt hlast
              have hs' : Dec.sumFrom Dec.zero ((p0 :: rest).map (fun q => q.txnAmount)) = some s := hs
              have hsum := sumFrom_wf ((p0 :: rest).map (fun q => q.txnAmount)) Dec.zero s (by simp [Dec.zero]) (by simp [Dec.zero, max96])
                (by
                  intro d hdm
                  obtain ⟨q, hq, rfl⟩ := List.mem_map.mp hdm
                  exact (hmain q hq).2) hs'
              have hcz : s.coeff ≠ 0 := by
                intro e
                apply hnz
                simp [Dec.units, Dec.negate, e]
              refine ⟨hal, ⟨by simpa [Dec.negate] using hsum.1, by simpa [Dec.negate] using hsum.2, fun _ => by simpa [Dec.negate] using hcz⟩,
                ?_, fun e => e, fun _ h => absurd rfl h, hcl⟩
              exact txnComm_lex div p0 (hmain p0 List.mem_cons_self).1

/-- **C06 `accept_wf`.**  The acceptor turns a lexically well-formed parse tree into a transaction satisfying
    `WF` (everything the export needs to print it re-parsably): the header is copied, every value-carrying posting
    keeps its names and numbers, the implicit last posting gets a representable non-zero amount in the
    transaction commodity.  `hd`: the unit prices the export will print (`div`) are representable numbers. -/
theorem accept_wf (div : Dec → Dec → Dec) (st st' : Settings) (r : RawTxn) (t : Txn)
    (h : acceptTxn st r = .ok (t, st')) (hl : RawLex r)
    (hd : ∀ p ∈ t.posts, p.isTotal = false → NumWF (div p.txnAmount p.amount)) : WF div t := by
  unfold acceptTxn at h
  split at h
  · cases h
  · cases h
  · split at h
    · cases h
    · cases h
    · rename_i ps st2 hps
      split at h
      · cases h
      · split at h
        · cases h
        · split at h
          · exact absurd h (Outcome.inexact_ne_ok _ _)
          · split at h
            · cases h
              obtain ⟨hne, hall⟩ := acceptPostings_wf div _ _ r _ hps hl hd
              exact ⟨hl.ts, hl.header, hne, hall⟩
            · cases h

theorem unitNE_of_lex (rp : RawPosting) (h : RawPostingLex rp) : UnitNE rp.unit := by
  intro u hu
  obtain ⟨huid, _, hcl⟩ := h.unit u hu
  exact ⟨identWF_ne_empty _ huid, fun v hv => identWF_ne_empty _ (hcl v hv).1⟩

/-! ## what the grammar stores is well-formed (the fields the property names)

`RawLex` of the parser's output is proved in full in `Lemmas/RawLex.lean` and `Props/C06b.lean`
(`parseJournal_rawLex`; its timestamp part is `tsOK_of_resolved`); these are the parts the property statement
mentions: numbers, trimmed code, right-trimmed description, one-line comments. -/

theorem trimEnd_idem : ∀ l : List Char, trimEnd (trimEnd l) = trimEnd l := by
  intro l
  induction l with
  | nil => rfl
  | cons c t ih =>
    simp only [trimEnd]
    cases h : trimEnd t with
    | nil =>
      simp only []
      split
      · rfl
      · rename_i hc; simp [trimEnd, hc]
    | cons d r =>
      simp only []
      rw [h] at ih
      show (match trimEnd (d :: r) with
        | [] => if isWhitespace c = true then [] else [c]
        | d' :: r' => c :: d' :: r') = c :: d :: r
      rw [ih]

theorem trimEnd_head (c : Char) (t : List Char) (hc : isWhitespace c = false) :
    ∃ r, trimEnd (c :: t) = c :: r := by
  simp only [trimEnd]
  cases trimEnd t with
  | nil => simp [hc]
  | cons d r => exact ⟨d :: r, rfl⟩

theorem trimEnd_sub : ∀ (l : List Char), ∀ c ∈ trimEnd l, c ∈ l := by
  intro l
  induction l with
  | nil => intro c hc; simp [trimEnd] at hc
  | cons d t ih =>
    intro c hc
    simp only [trimEnd] at hc
    cases h : trimEnd t with
    | nil =>
      rw [h] at hc
      simp only [] at hc
      split at hc
      · cases hc
      · simp at hc; subst hc; exact List.mem_cons_self
    | cons e r =>
      rw [h] at hc
      simp only [] at hc
      rcases List.mem_cons.mp hc with rfl | hc'
      · exact List.mem_cons_self
      · exact List.mem_cons_of_mem _ (ih c (by rw [h]; exact hc'))

theorem trim_idem (l : List Char) : trim (trim l) = trim l := by
  unfold trim trimStart
  cases h : l.dropWhile isWhitespace with
  | nil => rfl
  | cons c t =>
    have hc : isWhitespace c = false := by
      have := List.head_dropWhile_not isWhitespace (l := l) (by rw [h]; simp)
      simpa [h] using this
    obtain ⟨r, hr⟩ := trimEnd_head c t hc
    rw [hr]
    simp only [List.dropWhile, hc]
    rw [← hr, trimEnd_idem]

theorem trim_sub (l : List Char) : ∀ c ∈ trim l, c ∈ l := by
  intro c hc
  unfold trim trimStart at hc
  have := trimEnd_sub _ c hc
  exact (List.dropWhile_suffix _).subset this

/-- what `p_number` yields is a well-formed number -/
theorem pNumber_ok_wf (s r : List Char) (d : Dec) (h : pNumber s = .ok d r) : NumWF d := by
  unfold pNumber at h
  obtain ⟨t, s', _, h2⟩ := (Res.bind_ok _ _ _ _).mp h
  split at h2
  · rename_i d' hd
    cases h2
    have hwf := C01.ofToken_wf _ _ _ _ hd
    refine ⟨hwf.1, hwf.2, ?_⟩
    unfold Dec.ofToken at hd
    simp only at hd
    split at hd
    · cases hd
    · split at hd
      · cases hd
      · cases hd
        intro hn
        simp at hn
        simpa using hn.2
  · cases h2

/-- the code the grammar stores is trimmed and consists of valid code characters -/
theorem parseTxnCode_ok_wf (s r : List Char) (c : String) (h : parseTxnCode s = .ok c r) :
    (∀ d ∈ c.toList, validCodeChar d = true) ∧ trim c.toList = c.toList := by
  unfold parseTxnCode at h
  obtain ⟨_, s1, _, h1⟩ := (Res.bind_ok _ _ _ _).mp h
  obtain ⟨x, s2, hx, h2⟩ := (Res.bind_ok _ _ _ _).mp h1
  obtain ⟨_, s3, _, h3⟩ := (Res.bind_ok _ _ _ _).mp h2
  cases h3
  obtain ⟨_, hall, _⟩ := takeWhile0_ok _ _ _ _ hx
  simp only [String.toList_ofList]
  exact ⟨fun d hd => hall d (trim_sub x d hd), trim_idem x⟩

/-- the description the grammar stores fits on a line and has no trailing white space -/
theorem parseTxnDescription_ok_wf (s r : List Char) (d : String) (h : parseTxnDescription s = .ok d r) :
    LineText d.toList ∧ trimEnd d.toList = d.toList := by
  unfold parseTxnDescription at h
  obtain ⟨_, s1, _, h1⟩ := (Res.bind_ok _ _ _ _).mp h
  obtain ⟨x, s2, hx, h2⟩ := (Res.bind_ok _ _ _ _).mp h1
  cases h2
  obtain ⟨_, hall, _⟩ := tillLineEnding_ok _ _ _ hx
  simp only [String.toList_ofList]
  exact ⟨fun c hc => hall c (trimEnd_sub x c hc), trimEnd_idem x⟩

/-- a comment the grammar stores fits on a line -/
theorem pComment_ok_wf (s r c : List Char) (h : pComment s = .ok c r) : LineText c := by
  unfold pComment at h
  obtain ⟨_, s1, _, h1⟩ := (Res.bind_ok _ _ _ _).mp h
  unfold cutErr alt at h1
  split at h1
  · rename_i a r' hh
    cases h1
    split at hh
    · rename_i a' r'' h2
      cases hh
      obtain ⟨_, _, rfl⟩ := (Res.map_ok _ _ _ _).mp h2
      intro c hc; cases hc
    · obtain ⟨_, s2, _, h3⟩ := (Res.bind_ok _ _ _ _).mp hh
      exact (tillLineEnding_ok _ _ _ h3).2.1
    · cases hh
  · cases h1
  · cases h1

/-! ## composition -/

/-- **C06 `roundtrip_layout`.**  Take the transactions a journal was accepted to, print them (in acceptance
    order) in any layout of the family, and load the text: the loaded list is *equal* to the originally
    loaded one — same instants and offsets, codes, descriptions, uuids, locations, tags, comments, accounts,
    amounts, commodities, transaction amounts, price kinds and posting comments — and so is the final state. -/
theorem roundtrip_layout (cfg : Time.TsCfg) (L : Layout) (hL : LayoutOK L) (div : Dec → Dec → Dec)
    (st st' : Settings) (rs : List RawTxn) (ts : List Txn)
    (hacc : acceptJournal st rs = .ok (ts, st')) (hrs : rs ≠ [])
    (hne : ∀ r ∈ rs, ∀ rp ∈ r.posts, UnitNE rp.unit)
    (hw : ∀ t ∈ ts, WF div t) (hdiv : ∀ t ∈ ts, ∀ p ∈ t.posts, DivExact div p) :
    loadText cfg st (printL L div ts) = loadJournal st rs ∧ loadJournal st rs = .ok (sortTxns ts, st') := by
  have hlen : ts.length = rs.length := mapMS_length acceptTxn rs st st' ts hacc
  have htne : ts ≠ [] := by
    intro e; rw [e] at hlen; exact hrs (List.length_eq_zero_iff.mp hlen.symm)
  have hload : loadJournal st rs = .ok (sortTxns ts, st') := by
    unfold loadJournal
    cases rs with
    | nil => exact absurd rfl hrs
    | cons r t => simp only [hacc, Outcome.map]
  refine ⟨?_, hload⟩
  rw [hload]
  unfold loadText
  rw [journal_roundtrip cfg L hL div ts htne hw]
  simp only []
  unfold loadJournal
  obtain ⟨t0, tl, rfl⟩ := List.exists_cons_of_ne_nil htne
  simp only [List.map_cons]
  have := reaccept_journal div st st' rs (t0 :: tl) hacc hne hdiv
  simp only [List.map_cons] at this
  rw [this]; rfl

/-- `roundtrip_layout` with its hypotheses discharged from the lexical well-formedness of the *input* parse
    trees (`accept_wf`): what remains assumed is the contract of the division (`DivExact`, and that the printed
    unit prices are representable numbers) and `RawLex` of the parser's output (not proved here: the inverse
    direction of the per-parser lemmas; the tie checks the model's round trip on every case). -/
theorem roundtrip_accepted (cfg : Time.TsCfg) (L : Layout) (hL : LayoutOK L) (div : Dec → Dec → Dec)
    (st st' : Settings) (rs : List RawTxn) (ts : List Txn)
    (hacc : acceptJournal st rs = .ok (ts, st')) (hrs : rs ≠ []) (hlex : ∀ r ∈ rs, RawLex r)
    (hdw : ∀ t ∈ ts, ∀ p ∈ t.posts, p.isTotal = false → NumWF (div p.txnAmount p.amount))
    (hdiv : ∀ t ∈ ts, ∀ p ∈ t.posts, DivExact div p) :
    loadText cfg st (printL L div ts) = loadJournal st rs := by
  have hw : ∀ t ∈ ts, WF div t := by
    intro t ht
    obtain ⟨r, hr, s1, s2, hf⟩ := mapMS_ok acceptTxn rs st st' ts hacc t ht
    exact accept_wf div s1 s2 r t hf (hlex r hr) (hdw t ht)
  exact (roundtrip_layout cfg L hL div st st' rs ts hacc hrs
    (fun r hr rp hrp => unitNE_of_lex rp ((hlex r hr).posts rp hrp)) hw hdiv).1

theorem sortTxns_idem (ts : List Txn) : sortTxns (sortTxns ts) = sortTxns ts :=
  List.mergeSort_of_pairwise (sortTxns_sorted ts)

/-- **re-acceptance in any order**: the parse trees of the printed transactions of an accepted journal, arranged
    in any order `ts'` (a permutation of the accepted list), are accepted — to exactly `ts'`.
    (`reaccept_journal` for the acceptance order, then order independence of acceptance.) -/
theorem reaccept_perm (div : Dec → Dec → Dec) (st st' : Settings) (rs : List RawTxn) (ts ts' : List Txn)
    (h : acceptJournal st rs = .ok (ts, st')) (hp : ts'.Perm ts)
    (hne : ∀ r ∈ rs, ∀ rp ∈ r.posts, UnitNE rp.unit) (hdiv : ∀ t ∈ ts, ∀ p ∈ t.posts, DivExact div p) :
    ∃ st'', acceptJournal st (ts'.map (rawOf div)) = .ok (ts', st'') := by
  have h0 := reaccept_journal div st st' rs ts h hne hdiv
  have hm := (AcceptOrder.accept_as_map st (ts.map (rawOf div)) ts).mp ⟨st', h0⟩
  rw [List.map_map] at hm
  have hall : ∀ t ∈ ts, AcceptOrder.accO st (rawOf div t) = some t := List.map_inj_left.mp hm
  apply (AcceptOrder.accept_as_map st (ts'.map (rawOf div)) ts').mpr
  rw [List.map_map]
  exact List.map_inj_left.mpr (fun t ht => hall t (hp.subset ht))

/-- … and the settings after it have the same switches and the same charts, as sets, as after the original
    journal (`hcl`: in lax mode the initial account chart is ancestor-closed, as `Settings.ofConfig` builds it) -/
theorem reaccept_perm_state (div : Dec → Dec → Dec) (st st' st'' : Settings) (rs : List RawTxn) (ts ts' : List Txn)
    (h : acceptJournal st rs = .ok (ts, st')) (hp : ts'.Perm ts)
    (hne : ∀ r ∈ rs, ∀ rp ∈ r.posts, UnitNE rp.unit) (hdiv : ∀ t ∈ ts, ∀ p ∈ t.posts, DivExact div p)
    (hcl : st.strict = false → C12.AncClosed st.accounts)
    (h' : acceptJournal st (ts'.map (rawOf div)) = .ok (ts', st'')) : AcceptOrder.SameCharts st' st'' :=
  (AcceptOrder.final_state_perm st st' st'' _ _ ts ts' (hp.symm.map (rawOf div)) hcl
    (reaccept_journal div st st' rs ts h hne hdiv) h').1

/-- **C06 `identity_export_reloads`.**  The round trip for the order the export really uses: the identity export
    of the loaded (sorted) list of an accepted journal — whatever the order of the input — is a journal that
    loads to exactly that list: same instants and offsets, codes, descriptions, uuids, locations, tags, comments,
    accounts, amounts, commodities, transaction amounts, price kinds and posting comments, in the same order. -/
theorem identity_export_reloads (cfg : Time.TsCfg) (div : Dec → Dec → Dec)
    (st st' : Settings) (rs : List RawTxn) (ts : List Txn)
    (hacc : acceptJournal st rs = .ok (ts, st')) (hrs : rs ≠ [])
    (hne : ∀ r ∈ rs, ∀ rp ∈ r.posts, UnitNE rp.unit)
    (hw : ∀ t ∈ ts, WF div t) (hdiv : ∀ t ∈ ts, ∀ p ∈ t.posts, DivExact div p) :
    ∃ st'', loadText cfg st (identityExport div (sortTxns ts)) = .ok (sortTxns ts, st'') := by
  have hp : (sortTxns ts).Perm ts := sortTxns_perm ts
  have hlen : ts.length = rs.length := mapMS_length acceptTxn rs st st' ts hacc
  have htne : ts ≠ [] := by
    intro e; rw [e] at hlen; exact hrs (List.length_eq_zero_iff.mp hlen.symm)
  have hsne : sortTxns ts ≠ [] := by
    intro e; rw [e] at hp; exact htne hp.symm.eq_nil
  obtain ⟨st'', h2⟩ := reaccept_perm div st st' rs ts (sortTxns ts) hacc hp hne hdiv
  refine ⟨st'', ?_⟩
  unfold loadText
  rw [identity_roundtrip cfg div (sortTxns ts) hsne (fun t ht => hw t (hp.subset ht))]
  simp only []
  unfold loadJournal
  obtain ⟨t0, tl, e⟩ := List.exists_cons_of_ne_nil hsne
  rw [e] at h2 ⊢
  simp only [List.map_cons] at h2 ⊢
  rw [h2]
  simp only [Outcome.map]
  rw [← e, sortTxns_idem]

/-- **C06 `export_fixpoint_partial`.**
    Full statement: `identityExport (load (identityExport L)) = identityExport L` for the loaded list `L` of every
    accepted journal.  Proved for every accepted journal *in whatever order it was written* (the former
    hypothesis "input in canonical order" is gone: `Lemmas/AcceptOrder`), under
    (a) `DivExact` of `rust_decimal`'s division on the `@` postings (contract, tested by the tie) and
    (b) the lexical well-formedness of the accepted transactions (`WF`, `UnitNE`; `accept_wf` derives `WF` from
        `RawLex` of the parser's output, which is the unproved inverse direction of the per-parser lemmas).
    `_partial` stays in the name because of (a) and (b).  The re-loaded list *equals* the loaded list
    `sortTxns ts`, so exporting it again gives the identical text. -/
theorem export_fixpoint_partial (cfg : Time.TsCfg) (div : Dec → Dec → Dec)
    (st st' : Settings) (rs : List RawTxn) (ts : List Txn)
    (hacc : acceptJournal st rs = .ok (ts, st')) (hrs : rs ≠ [])
    (hne : ∀ r ∈ rs, ∀ rp ∈ r.posts, UnitNE rp.unit)
    (hw : ∀ t ∈ ts, WF div t) (hdiv : ∀ t ∈ ts, ∀ p ∈ t.posts, DivExact div p) :
    (∃ st'', loadText cfg st (identityExport div (sortTxns ts)) = .ok (sortTxns ts, st'')) ∧
    ∀ ts₂ st₂, loadText cfg st (identityExport div (sortTxns ts)) = .ok (ts₂, st₂) →
      identityExport div ts₂ = identityExport div (sortTxns ts) := by
  obtain ⟨st'', h⟩ := identity_export_reloads cfg div st st' rs ts hacc hrs hne hw hdiv
  refine ⟨⟨st'', h⟩, ?_⟩
  intro ts₂ st₂ h2
  rw [h] at h2
  cases h2; rfl

/-- the same, phrased on the load of the original journal: `L` is what `string_to_txns` returned -/
theorem export_fixpoint_loaded_partial (cfg : Time.TsCfg) (div : Dec → Dec → Dec)
    (st st' : Settings) (rs : List RawTxn) (L : List Txn)
    (hload : loadJournal st rs = .ok (L, st'))
    (hne : ∀ r ∈ rs, ∀ rp ∈ r.posts, UnitNE rp.unit)
    (hw : ∀ t ∈ L, WF div t) (hdiv : ∀ t ∈ L, ∀ p ∈ t.posts, DivExact div p) :
    (∃ st'', loadText cfg st (identityExport div L) = .ok (L, st'')) ∧
    ∀ L₂ st₂, loadText cfg st (identityExport div L) = .ok (L₂, st₂) → identityExport div L₂ = identityExport div L := by
  unfold loadJournal at hload
  cases rs with
  | nil => cases hload
  | cons r tl =>
    simp only at hload
    obtain ⟨⟨ts, s1⟩, hacc, he⟩ := (Outcome.map_ok _ _ _).mp hload
    simp only [Prod.mk.injEq] at he
    obtain ⟨rfl, rfl⟩ := he
    have hp : (sortTxns ts).Perm ts := sortTxns_perm ts
    exact export_fixpoint_partial cfg div st s1 (r :: tl) ts hacc (by simp) hne
      (fun t ht => hw t (hp.symm.subset ht)) (fun t ht => hdiv t (hp.symm.subset ht))

/-- the executable division of the driver satisfies the contract whenever the transaction amount is an exact
    product `amount × price` -/
theorem divQuot_exact (a p t : Dec) (ha : a.coeff ≠ 0) (hp : p.coeff ≠ 0) (hm : Dec.mul a p = some t) :
    ∃ q, Dec.divQuot t a = some q ∧ Dec.mul a q = some t ∧ q.isNeg = p.isNeg := by
  unfold Dec.mul at hm
  have hz : (a.isZero || p.isZero) = false := by simp [Dec.isZero, ha, hp]
  simp only [hz, Bool.false_eq_true, if_false] at hm
  split at hm
  · rename_i hc
    cases hm
    have hpos : 0 < a.coeff := Nat.pos_of_ne_zero ha
    have hmul : a.coeff * p.coeff ≠ 0 := Nat.mul_ne_zero ha hp
    refine ⟨⟨(a.neg != p.neg) != a.neg, a.coeff * p.coeff / a.coeff, a.scale + p.scale - a.scale⟩, ?_, ?_, ?_⟩
    · unfold Dec.divQuot
      simp only [ha, hmul, if_false]
      have : a.scale ≤ a.scale + p.scale ∧ a.coeff * p.coeff % a.coeff = 0 := ⟨by omega, Nat.mul_mod_right _ _⟩
      simp only [this, and_self, if_true]
    · unfold Dec.mul
      have e1 : a.coeff * p.coeff / a.coeff = p.coeff := Nat.mul_div_cancel_left _ hpos
      have e2 : a.scale + p.scale - a.scale = p.scale := by omega
      have hz' : (a.coeff == 0 || p.coeff == 0) = false := by simp [ha, hp]
      simp only [Dec.isZero, e1, e2, hz', Bool.false_eq_true, if_false]
      simp only [hc, and_self, if_true]
      cases a.neg <;> cases p.neg <;> rfl
    · simp only [Dec.isNeg]
      cases a.neg <;> cases p.neg <;> rfl
  · cases hm

/-! ## non-vacuity -/

def utc : Time.TsCfg := Time.utcCfg
def divQ (t a : Dec) : Dec := (Dec.divQuot t a).getD Dec.zero
def lax : Settings := Settings.ofConfig false false true [] [] []

/-- the check `TsOK` holds of ordinary instants, also with fractions, negative offsets and before 1970 -/
example : TsOK ⟨1704096000500000000, 7200⟩ = true := by decide
example : TsOK ⟨-2208988800000000001, -19800⟩ = true := by decide
example : TsOK ⟨4102444799999999999, 50400⟩ = true := by decide
/-- an offset with seconds (F13: only a named zone produces it) is not `TsOK` -/
example : TsOK ⟨-2208994789000000000, 5989⟩ = false := by decide

/-- a small journal with a code, an `@` price and an implicit amount: accepted, and the model's own round
    trip through the identity export reproduces the export text (conclusion of `export_fixpoint_partial` on a
    concrete instance; the tie runs the same check on every generated journal) -/
def sample : List Char := "2024-03-01 (c)\n a 1.5 X @ 2 Y\n b\n".toList

set_option maxRecDepth 20000 in
example : (acceptText utc lax sample).isOk = true := by decide

set_option maxRecDepth 20000 in
example : (match acceptText utc lax sample with
    | .ok (ts, _) => (match Print.identityExport? ts with
        | some text => (match acceptText utc lax text with
            | .ok (ts₂, _) => decide (Print.identityExport? ts₂ = some text)
            | _ => false)
        | none => false)
    | _ => false) = true := by decide

/-- a journal written in *descending* order: the export prints the accepted transactions in canonical order
    (here: reversed), so the re-load threads them through the settings in another order than the input did;
    the reversed list is exported, re-accepted to the same list and re-exported to the same text
    (conclusion of `reaccept_perm` / `export_fixpoint_partial` for a non-canonical input; `sortTxns` itself is
    not evaluated here — `List.mergeSort` does not reduce in the kernel) -/
def sample2 : List Char := "2024-03-02 'second\n a:b 2 X\n c\n\n2024-03-01 'first\n a:b:d 1.5 X @ 2 Y\n e\n".toList

set_option maxRecDepth 40000 in
example : (match acceptText utc lax sample2 with
    | .ok (ts, _) => (match Print.identityExport? ts.reverse with
        | some text => (match acceptText utc lax text with
            | .ok (ts₂, _) => decide (ts₂ = ts.reverse ∧ Print.identityExport? ts₂ = some text ∧
                ts.reverse.map (·.header.desc) = [some "first", some "second"] ∧
                (match ts.reverse with | [a, b] => txnLe a b && !txnLe b a | _ => false) = true)
            | _ => false)
        | none => false)
    | _ => false) = true := by decide

end C06
end Tackler

import TacklerModel.Model.Group
import TacklerModel.Lemmas.ChunkBy
import TacklerModel.Lemmas.Time
import TacklerModel.Lemmas.Period
import TacklerModel.Lemmas.Order
import TacklerModel.Props.C02
/-!
# C13 — the balance-group report partitions the transactions by period in the report time zone

Property theorems over `Model/Group.lean` (the transliteration of `accumulator::balance_groups` after the fix of
finding F12, `BalanceGroupReporter::get_group_by_op` and the `as_tz_*` functions of `tackler_api::txn_ts`).

The grouping theorems (`group_partition`, `group_figures`, `group_keys`, `group_total`, `empty_groups_dropped`) hold
for **every key function** `key : Txn → String` — hence for every group-by setting, every report zone (fixed offset
or any zone table, monotone or not) and every list of transactions; figures are on the value layer (`Dec.units`).
`key_is_period` says what the key of the report is: the period text of the instant's civil date at the report
zone's offset.  `fixed_offset_unchanged` shows that at a fixed offset the consecutive grouping of the code before
the fix and the grouping by key coincide (the fix changes nothing there); `witness_F12` is the counter-example for a
zone whose local date goes back.
-/
namespace Tackler
namespace C13

open ChunkBy ListSum

/-! ### the order of the group keys -/

theorem keyLeS_iff (key : Txn → String) (a b : Txn) : keyLeS key a b = true ↔ ¬ key b < key a := by
  simp [keyLeS]

theorem keyLeS_trans (key : Txn → String) (a b c : Txn) (h1 : keyLeS key a b = true) (h2 : keyLeS key b c = true) :
    keyLeS key a c = true := by
  rw [keyLeS_iff] at *; grind

theorem keyLeS_total (key : Txn → String) (a b : Txn) : (keyLeS key a b || keyLeS key b a) = true := by
  rw [Bool.or_eq_true, keyLeS_iff, keyLeS_iff]; grind

/-- the transactions sorted by key: keys never go back -/
theorem sorted_pairwise (key : Txn → String) (txns : List Txn) :
    (txns.mergeSort (keyLeS key)).Pairwise (fun a b => key a = key b ∨ key a < key b) := by
  have h := List.pairwise_mergeSort (le := keyLeS key) (keyLeS_trans key) (keyLeS_total key) txns
  apply h.imp
  intro a b hab
  rw [keyLeS_iff] at hab; grind

theorem pairwise_of_forall_mem {α} {R : α → α → Prop} : ∀ (l : List α), (∀ a ∈ l, ∀ b ∈ l, R a b) → l.Pairwise R := by
  intro l
  induction l with
  | nil => intro _; exact .nil
  | cons x t ih =>
    intro h
    exact List.pairwise_cons.mpr ⟨fun b hb => h x List.mem_cons_self b (List.mem_cons_of_mem _ hb),
      ih (fun a ha b hb => h a (List.mem_cons_of_mem _ ha) b (List.mem_cons_of_mem _ hb))⟩

/-- the sort is stable: the transactions of one key keep their journal order -/
theorem sorted_filter (key : Txn → String) (txns : List Txn) (k : String) :
    (txns.mergeSort (keyLeS key)).filter (fun t => decide (key t = k)) = txns.filter (fun t => decide (key t = k)) := by
  have hsub : List.Sublist (txns.filter (fun t => decide (key t = k))) (txns.mergeSort (keyLeS key)) := by
    apply List.sublist_mergeSort (keyLeS_trans key) (keyLeS_total key) _ List.filter_sublist
    apply pairwise_of_forall_mem
    intro a ha b hb
    have ha' := (List.mem_filter.mp ha).2
    have hb' := (List.mem_filter.mp hb).2
    simp only [decide_eq_true_eq] at ha' hb'
    rw [keyLeS_iff, ha', hb']; exact String.lt_irrefl _
  have hsub2 : List.Sublist (txns.filter (fun t => decide (key t = k)))
      ((txns.mergeSort (keyLeS key)).filter (fun t => decide (key t = k))) := by
    have := hsub.filter (fun t => decide (key t = k))
    simpa only [List.filter_filter, Bool.and_self] using this
  have hlen : ((txns.mergeSort (keyLeS key)).filter (fun t => decide (key t = k))).length
      = (txns.filter (fun t => decide (key t = k))).length :=
    ((List.mergeSort_perm txns (keyLeS key)).filter _).length_eq
  exact (hsub2.eq_of_length hlen.symm).symm

/-! ### the group candidates -/

/-- what `sorted_by_cached_key(key).chunk_by(key)` yields, for every key function:
    the members of all candidates together are a permutation of the transactions; a candidate is not empty and its
    members all have its key; the keys are strictly ascending (so no key comes twice); and the candidate of a key is
    exactly the sub-list of the transactions with that key, in journal order. -/
structure CandSpec (key : Txn → String) (txns : List Txn) (cs : List (String × List Txn)) : Prop where
  perm : ((cs.map (·.2)).flatten).Perm txns
  members : ∀ kg ∈ cs, kg.2 ≠ [] ∧ ∀ t ∈ kg.2, key t = kg.1
  strict : (cs.map (·.1)).Pairwise (· < ·)
  filter : ∀ kg ∈ cs, kg.2 = txns.filter (fun t => decide (key t = kg.1))

theorem strict_nodup {l : List String} (h : l.Pairwise (· < ·)) : l.Nodup :=
  h.imp (fun {a b} hab e => by subst e; exact String.lt_irrefl _ hab)

theorem candidates_spec (key : Txn → String) (txns : List Txn) : CandSpec key txns (groupCandidates key txns) := by
  have hstrict := chunkBy_strict key (· < ·) (fun a b c => String.lt_trans) _ (sorted_pairwise key txns)
  refine ⟨?_, ?_, hstrict, ?_⟩
  · unfold groupCandidates
    rw [chunkBy_flatten]
    exact List.mergeSort_perm _ _
  · exact fun kg h => chunkBy_keys key _ kg h
  · intro kg h
    have := chunk_eq_filter key _ (strict_nodup hstrict) kg h
    rw [this, sorted_filter]

/-- **group_partition**: before empty groups are dropped, the group candidates partition the transactions —
    (1) the concatenation of the candidates' members is a permutation of the transactions;
    (2) the members of a candidate all have the candidate's key, and a candidate has a member;
    (3) every transaction is a member of exactly one candidate (the one of its key);
    (4) the candidate of a key holds exactly the transactions with that key, in journal order. -/
theorem group_partition (key : Txn → String) (txns : List Txn) :
    (((groupCandidates key txns).map (·.2)).flatten).Perm txns ∧
    (∀ kg ∈ groupCandidates key txns, kg.2 ≠ [] ∧ ∀ t ∈ kg.2, key t = kg.1) ∧
    (∀ t ∈ txns, ∃ kg ∈ groupCandidates key txns, t ∈ kg.2 ∧ kg.1 = key t ∧
        ∀ kg' ∈ groupCandidates key txns, t ∈ kg'.2 → kg' = kg) ∧
    (∀ kg ∈ groupCandidates key txns, kg.2 = txns.filter (fun t => decide (key t = kg.1))) := by
  have hs := candidates_spec key txns
  refine ⟨hs.perm, hs.members, ?_, hs.filter⟩
  intro t ht
  have hm : t ∈ ((groupCandidates key txns).map (·.2)).flatten := hs.perm.symm.subset ht
  obtain ⟨g, hg, htg⟩ := List.mem_flatten.mp hm
  obtain ⟨kg, hkg, rfl⟩ := List.mem_map.mp hg
  have hk : key t = kg.1 := (hs.members kg hkg).2 t htg
  refine ⟨kg, hkg, htg, hk.symm, ?_⟩
  intro kg' hkg' htg'
  have hk' : key t = kg'.1 := (hs.members kg' hkg').2 t htg'
  exact C02.eq_of_nodup_map (·.1) (strict_nodup hs.strict) hkg' hkg (hk'.symm.trans hk)

/-! ### the balances of the candidates -/

/-- element-wise relation of two lists (core Lean has no `Forall₂`) -/
inductive Forall₂ {α β} (R : α → β → Prop) : List α → List β → Prop where
  | nil : Forall₂ R [] []
  | cons {a b l₁ l₂} : R a b → Forall₂ R l₁ l₂ → Forall₂ R (a :: l₁) (b :: l₂)

/-- `groupBalances` is the element-wise `from_iter`: same length, same titles, every balance the kernel's -/
theorem groupBalances_spec (st : Settings) (sel : BalRow → Bool) :
    ∀ (cs : List (String × List Txn)) (bs : List BalGroup), groupBalances st sel cs = .ok bs →
      Forall₂ (fun kg b => b.title = kg.1 ∧ fromIter st sel (postsOf kg.2) = .ok b.bal) cs bs := by
  intro cs
  induction cs with
  | nil => intro bs h; simp only [groupBalances, Outcome.ok.injEq] at h; subst h; exact .nil
  | cons c rest ih =>
    intro bs h
    obtain ⟨k, g⟩ := c
    simp only [groupBalances] at h
    split at h
    · cases h
    · cases h
    · rename_i b hb
      split at h
      · cases h
      · cases h
      · rename_i r hr
        cases h
        exact .cons ⟨rfl, hb⟩ (ih r hr)

theorem groupBalances_of_forall₂ (st : Settings) (sel : BalRow → Bool) :
    ∀ (cs : List (String × List Txn)) (bs : List BalGroup),
      Forall₂ (fun kg b => b.title = kg.1 ∧ fromIter st sel (postsOf kg.2) = .ok b.bal) cs bs →
      groupBalances st sel cs = .ok bs := by
  intro cs
  induction cs with
  | nil => intro bs h; cases h; rfl
  | cons c rest ih =>
    intro bs h
    cases h with
    | cons hab htl =>
      rename_i b bs'
      obtain ⟨k, g⟩ := c
      obtain ⟨t, bal⟩ := b
      simp only at hab
      obtain ⟨rfl, hb⟩ := hab
      simp only [groupBalances, hb, ih bs' htl]

/-- the listed rows of a `from_iter` balance are the selected rows of the kernel's balance -/
theorem fromIter_rows (st : Settings) (sel : BalRow → Bool) (posts : List BPost) (b : Balance)
    (h : fromIter st sel posts = .ok b) : ∃ bal, balance st posts = .ok bal ∧ b.rows = bal.filter sel := by
  unfold fromIter at h
  split at h
  · cases h
  · cases h
  · rename_i bal hbal
    split at h
    · cases h
    · cases h
      exact ⟨bal, hbal, rfl⟩

theorem forall₂_titles {R : String × List Txn → BalGroup → Prop} (hR : ∀ kg b, R kg b → b.title = kg.1) :
    ∀ {cs : List (String × List Txn)} {bs : List BalGroup}, Forall₂ R cs bs →
      bs.map (·.title) = cs.map (·.1) := by
  intro cs bs h
  induction h with
  | nil => rfl
  | cons hab _ ih => simp [hR _ _ hab, ih]

theorem forall₂_mem_right {α β} {R : α → β → Prop} : ∀ {l₁ : List α} {l₂ : List β}, Forall₂ R l₁ l₂ →
    ∀ b ∈ l₂, ∃ a ∈ l₁, R a b := by
  intro l₁ l₂ h
  induction h with
  | nil => intro b hb; cases hb
  | cons hab _ ih =>
    intro b hb
    rcases List.mem_cons.mp hb with rfl | hb'
    · exact ⟨_, List.mem_cons_self, hab⟩
    · obtain ⟨a, ha, hr⟩ := ih b hb'
      exact ⟨a, List.mem_cons_of_mem _ ha, hr⟩

theorem forall₂_mem_left {α β} {R : α → β → Prop} : ∀ {l₁ : List α} {l₂ : List β}, Forall₂ R l₁ l₂ →
    ∀ a ∈ l₁, ∃ b ∈ l₂, R a b := by
  intro l₁ l₂ h
  induction h with
  | nil => intro a ha; cases ha
  | cons hab _ ih =>
    intro a ha
    rcases List.mem_cons.mp ha with rfl | ha'
    · exact ⟨_, List.mem_cons_self, hab⟩
    · obtain ⟨b, hb, hr⟩ := ih a ha'
      exact ⟨b, List.mem_cons_of_mem _ hb, hr⟩

/-- what `balanceGroupsBy … = .ok gs` means: there is the list `all` of the balances of all candidates
    (element-wise `from_iter`), and `gs` are the non-empty ones, in order -/
theorem balanceGroupsBy_ok (st : Settings) (sel : BalRow → Bool) (key : Txn → String) (txns : List Txn)
    (gs : List BalGroup) (h : balanceGroupsBy st sel key txns = .ok gs) :
    ∃ all, Forall₂ (fun kg b => b.title = kg.1 ∧ fromIter st sel (postsOf kg.2) = .ok b.bal)
        (groupCandidates key txns) all ∧ gs = all.filter (fun g => !g.isEmpty) := by
  unfold balanceGroupsBy at h
  obtain ⟨all, hall, hgs⟩ := (Outcome.map_ok _ _ _).mp h
  exact ⟨all, groupBalances_spec st sel _ _ hall, hgs.symm⟩

/-- **group_figures**: a printed group is the group candidate of its title, and its figures are exactly
    `Balance::from_iter` of its members' postings with the report's account selector (and it has a listed row) —
    so everything C02 proves about a balance report holds for every group (corollaries below). -/
theorem group_figures (st : Settings) (sel : BalRow → Bool) (key : Txn → String) (txns : List Txn)
    (gs : List BalGroup) (h : balanceGroupsBy st sel key txns = .ok gs) :
    ∀ g ∈ gs, ∃ members, (g.title, members) ∈ groupCandidates key txns ∧
      members = txns.filter (fun t => decide (key t = g.title)) ∧
      fromIter st sel (postsOf members) = .ok g.bal ∧ g.bal.rows ≠ [] := by
  obtain ⟨all, hall, rfl⟩ := balanceGroupsBy_ok st sel key txns gs h
  intro g hg
  obtain ⟨hga, hne⟩ := List.mem_filter.mp hg
  obtain ⟨kg, hkg, ht, hb⟩ := forall₂_mem_right hall g hga
  refine ⟨kg.2, by rw [ht]; exact hkg, ?_, hb, ?_⟩
  · rw [ht]; exact (candidates_spec key txns).filter kg hkg
  · simpa [BalGroup.isEmpty] using hne

/-- **group_keys**: the titles of the printed groups are strictly ascending — every period is printed at most
    once, in ascending order.  For every key function: no monotonicity of the zone is needed (after the fix of F12). -/
theorem group_keys (st : Settings) (sel : BalRow → Bool) (key : Txn → String) (txns : List Txn)
    (gs : List BalGroup) (h : balanceGroupsBy st sel key txns = .ok gs) :
    (gs.map (·.title)).Pairwise (· < ·) := by
  obtain ⟨all, hall, rfl⟩ := balanceGroupsBy_ok st sel key txns gs h
  have ht : all.map (·.title) = (groupCandidates key txns).map (·.1) := forall₂_titles (fun _ _ hr => hr.1) hall
  have hs : (all.map (·.title)).Pairwise (· < ·) := by rw [ht]; exact (candidates_spec key txns).strict
  exact hs.sublist (List.filter_sublist.map _)

/-- each period once: no two printed groups have the same title -/
theorem group_keys_nodup (st : Settings) (sel : BalRow → Bool) (key : Txn → String) (txns : List Txn)
    (gs : List BalGroup) (h : balanceGroupsBy st sel key txns = .ok gs) : (gs.map (·.title)).Nodup :=
  strict_nodup (group_keys st sel key txns gs h)

/-- **empty_groups_dropped**: no printed group is empty, and a group candidate is printed exactly when its balance
    has a listed row, i.e. when some row of its members' balance satisfies the account selector. -/
theorem empty_groups_dropped (st : Settings) (sel : BalRow → Bool) (key : Txn → String) (txns : List Txn)
    (gs : List BalGroup) (h : balanceGroupsBy st sel key txns = .ok gs) :
    (∀ g ∈ gs, g.bal.rows ≠ []) ∧
    (∀ kg ∈ groupCandidates key txns, ∃ b bal, fromIter st sel (postsOf kg.2) = .ok b ∧
        balance st (postsOf kg.2) = .ok bal ∧ b.rows = bal.filter sel ∧
        ((∃ g ∈ gs, g.title = kg.1) ↔ ∃ r ∈ bal, sel r = true)) := by
  refine ⟨fun g hg => by
    obtain ⟨_, _, _, _, hne⟩ := group_figures st sel key txns gs h g hg; exact hne, ?_⟩
  obtain ⟨all, hall, rfl⟩ := balanceGroupsBy_ok st sel key txns gs h
  intro kg hkg
  obtain ⟨b, hb, ht, hfi⟩ := forall₂_mem_left hall kg hkg
  obtain ⟨bal, hbal, hrows⟩ := fromIter_rows st sel _ _ hfi
  refine ⟨b.bal, bal, hfi, hbal, hrows, ?_⟩
  constructor
  · rintro ⟨g, hg, hgt⟩
    obtain ⟨hga, hne⟩ := List.mem_filter.mp hg
    -- g is the balance of kg (titles are unique)
    have hnd : (all.map (·.title)).Nodup := by
      rw [forall₂_titles (fun _ _ hr => hr.1) hall]
      exact strict_nodup (candidates_spec key txns).strict
    have hgb : g = b := C02.eq_of_nodup_map (·.title) hnd hga hb (hgt.trans ht.symm)
    subst hgb
    have : g.bal.rows ≠ [] := by simpa [BalGroup.isEmpty] using hne
    rw [hrows] at this
    obtain ⟨r, tl, hr⟩ := List.exists_cons_of_ne_nil this
    have hmem : r ∈ bal.filter sel := by rw [hr]; exact List.mem_cons_self
    exact ⟨r, (List.mem_filter.mp hmem).1, (List.mem_filter.mp hmem).2⟩
  · rintro ⟨r, hr, hsel⟩
    refine ⟨b, List.mem_filter.mpr ⟨hb, ?_⟩, ht⟩
    have : r ∈ b.bal.rows := by rw [hrows]; exact List.mem_filter.mpr ⟨hr, hsel⟩
    simp only [BalGroup.isEmpty, Bool.not_eq_true', List.isEmpty_eq_false_iff]
    intro e; rw [e] at this; cases this

/-! ### the figures of a group: C02 applies -/

theorem postsOf_subset {l₁ l₂ : List Txn} (h : ∀ t ∈ l₁, t ∈ l₂) : ∀ p ∈ postsOf l₁, p ∈ postsOf l₂ := by
  intro p hp
  unfold postsOf at hp ⊢
  obtain ⟨t, ht, hpt⟩ := List.mem_flatMap.mp hp
  exact List.mem_flatMap.mpr ⟨t, h t ht, hpt⟩

theorem postsWF_subset {posts posts' : List BPost} (hwf : C02.PostsWF posts) (h : ∀ p ∈ posts', p ∈ posts) :
    C02.PostsWF posts' :=
  ⟨fun p hp => hwf.scale p (h p hp), fun p hp => hwf.nonempty p (h p hp),
   fun p q ⟨x, hx, hpx⟩ ⟨y, hy, hqy⟩ e => hwf.namesInj p q ⟨x, h x hx, hpx⟩ ⟨y, h y hy, hqy⟩ e⟩

/-- the representation invariants of the journal's postings hold for the members of every group -/
theorem members_wf (key : Txn → String) (txns : List Txn) (hwf : C02.PostsWF (postsOf txns)) (k : String) :
    C02.PostsWF (postsOf (txns.filter (fun t => decide (key t = k)))) :=
  postsWF_subset hwf (postsOf_subset (fun _ ht => (List.mem_filter.mp ht).1))

/-- corollary of `group_figures` with `C02.own_sum` / `C02.tree_sum_posts`: in a printed group, a row's own sum is
    the exact sum of the postings *of the group's members* to that (commodity, account) pair, and its tree sum the
    exact sum of the members' postings at or below it. -/
theorem group_own_tree_sums (st : Settings) (sel : BalRow → Bool) (key : Txn → String) (txns : List Txn)
    (hwf : C02.PostsWF (postsOf txns)) (gs : List BalGroup) (h : balanceGroupsBy st sel key txns = .ok gs) :
    ∀ g ∈ gs, ∀ row ∈ g.bal.rows,
      row.own.units = C02.ownSum (postsOf (txns.filter (fun t => decide (key t = g.title)))) row.key ∧
      row.tree.units = C02.treeSum (postsOf (txns.filter (fun t => decide (key t = g.title)))) row.key := by
  intro g hg row hrow
  obtain ⟨members, _, hm, hfi, _⟩ := group_figures st sel key txns gs h g hg
  subst hm
  have hwf' := members_wf key txns hwf g.title
  obtain ⟨bal, hbal, hrows⟩ := fromIter_rows st sel _ _ hfi
  have hrb : row ∈ bal := by rw [hrows] at hrow; exact (List.mem_filter.mp hrow).1
  exact ⟨C02.own_sum st _ hwf' bal hbal row hrb, C02.tree_sum_posts st _ hwf' bal hbal row hrb⟩

/-- corollary of `group_figures` with `C02.rows_exact` and `C02.delta_eq`: the rows of a printed group are the
    selected ones among the (commodity, account) pairs its members post to and their proper ancestors, each once;
    there is one delta per listed commodity and it is the exact sum of the group's listed own sums. -/
theorem group_rows_deltas (st : Settings) (sel : BalRow → Bool) (key : Txn → String) (txns : List Txn)
    (hwf : C02.PostsWF (postsOf txns)) (gs : List BalGroup) (h : balanceGroupsBy st sel key txns = .ok gs) :
    ∀ g ∈ gs, ∃ bal,
      balance st (postsOf (txns.filter (fun t => decide (key t = g.title)))) = .ok bal ∧
      g.bal.rows = bal.filter sel ∧
      (∀ k, k ∈ bal.map (·.key) ↔
        C02.Posted (postsOf (txns.filter (fun t => decide (key t = g.title)))) k ∨
        C02.ProperAncestor (postsOf (txns.filter (fun t => decide (key t = g.title)))) k) ∧
      (bal.map (·.key)).Nodup ∧
      (g.bal.deltas.map (·.1)).Pairwise (· < ·) ∧
      (∀ c, c ∈ g.bal.deltas.map (·.1) ↔ ∃ r ∈ g.bal.rows, r.comm = c) ∧
      (∀ cd ∈ g.bal.deltas,
        cd.2.units = ((g.bal.rows.filter (fun r => decide (r.comm = cd.1))).map (·.own.units)).sum) := by
  intro g hg
  obtain ⟨members, _, hm, hfi, _⟩ := group_figures st sel key txns gs h g hg
  subst hm
  have hwf' := members_wf key txns hwf g.title
  obtain ⟨⟨bal, hbal, hrows⟩, hd1, hd2, hd3⟩ := C02.delta_eq st sel _ hwf' g.bal hfi
  exact ⟨bal, hbal, hrows, (C02.rows_exact st _ hwf' bal hbal).2, C02.rows_nodup st _ hwf' bal hbal, hd1, hd2, hd3⟩

/-! ### sums over the groups -/

/-- the postings of one transaction to a (commodity, account) pair, summed -/
def txnOwn (k : AKey) (t : Txn) : Int :=
  (((t.posts.map (fun p => (⟨p.acct, p.comm, p.amount⟩ : BPost))).filter (fun p => decide (p.key = k))).map
    (·.amount.units)).sum

theorem ownSum_postsOf (txns : List Txn) (k : AKey) :
    C02.ownSum (postsOf txns) k = (txns.map (txnOwn k)).sum := by
  unfold C02.ownSum
  rw [C02.postsOf_sum]
  rfl

/-- **group_total**: for every (commodity, account) pair, the sums of the postings of the members of the group
    candidates add up to the sum of the postings of all transactions: every posting counts in exactly one group. -/
theorem group_total (key : Txn → String) (txns : List Txn) (k : AKey) :
    ((groupCandidates key txns).map (fun kg => C02.ownSum (postsOf kg.2) k)).sum
      = C02.ownSum (postsOf txns) k := by
  have hp := (candidates_spec key txns).perm
  rw [ownSum_postsOf, ← perm_sum_map (txnOwn k) hp, sum_map_flatten, List.map_map]
  apply congrArg
  apply List.map_congr_left
  intro kg _
  simp only [Function.comp]
  exact ownSum_postsOf kg.2 k

/-- the own sum a list of balance rows shows for a (commodity, account) pair (0 when there is no such row; there is
    at most one, `C02.rows_nodup`) -/
def rowOwn (rows : List BalRow) (k : AKey) : Int :=
  ((rows.filter (fun r => decide (r.key = k))).map (·.own.units)).sum

theorem rowOwn_balance (st : Settings) (posts : List BPost) (hwf : C02.PostsWF posts) (bal : List BalRow)
    (h : balance st posts = .ok bal) (k : AKey) : rowOwn bal k = C02.ownSum posts k :=
  C02.rows_sum_eq_posts_sum st posts hwf bal h (fun x => decide (x = k))

theorem rowOwn_filter (sel : BalRow → Bool) (bal : List BalRow) (k : AKey)
    (hsel : ∀ r : BalRow, r.key = k → sel r = true) : rowOwn (bal.filter sel) k = rowOwn bal k := by
  unfold rowOwn
  rw [List.filter_filter]
  congr 2
  apply List.filter_congr
  intro r _
  by_cases e : r.key = k
  · simp [e, hsel r e]
  · simp [e]

/-- the own sum a `from_iter` balance lists for a pair that the selector lists = the postings to it -/
theorem rowOwn_fromIter (st : Settings) (sel : BalRow → Bool) (posts : List BPost) (hwf : C02.PostsWF posts)
    (b : Balance) (h : fromIter st sel posts = .ok b) (k : AKey)
    (hsel : ∀ r : BalRow, r.key = k → sel r = true) : rowOwn b.rows k = C02.ownSum posts k := by
  obtain ⟨bal, hbal, hrows⟩ := fromIter_rows st sel posts b h
  rw [hrows, rowOwn_filter sel bal k hsel, rowOwn_balance st posts hwf bal hbal]

theorem forall₂_sum (st : Settings) (sel : BalRow → Bool) (k : AKey) (hsel : ∀ r : BalRow, r.key = k → sel r = true) :
    ∀ (cs : List (String × List Txn)) (all : List BalGroup),
      Forall₂ (fun kg b => b.title = kg.1 ∧ fromIter st sel (postsOf kg.2) = .ok b.bal) cs all →
      (∀ kg ∈ cs, C02.PostsWF (postsOf kg.2)) →
      (all.map (fun g => rowOwn g.bal.rows k)).sum = (cs.map (fun kg => C02.ownSum (postsOf kg.2) k)).sum := by
  intro cs all hall
  induction hall with
  | nil => intro _; rfl
  | @cons kg g cs' all' hab _ ih =>
    intro hcs
    simp only [List.map_cons, List.sum_cons]
    rw [ih (fun kg' h' => hcs kg' (List.mem_cons_of_mem _ h')),
      rowOwn_fromIter st sel _ (hcs kg List.mem_cons_self) g.bal hab.2 k hsel]

/-- **group_total** on the printed figures: for every (commodity, account) pair the selector lists, the own sums
    shown by the printed groups add up to the own sum shown by the overall balance report (a group without a row for
    the pair counts 0; the dropped groups have no such row). -/
theorem group_total_rows (st : Settings) (sel : BalRow → Bool) (key : Txn → String) (txns : List Txn)
    (hwf : C02.PostsWF (postsOf txns)) (gs : List BalGroup) (h : balanceGroupsBy st sel key txns = .ok gs)
    (b : Balance) (hb : fromIter st sel (postsOf txns) = .ok b) (k : AKey)
    (hsel : ∀ r : BalRow, r.key = k → sel r = true) :
    (gs.map (fun g => rowOwn g.bal.rows k)).sum = rowOwn b.rows k := by
  obtain ⟨all, hall, rfl⟩ := balanceGroupsBy_ok st sel key txns gs h
  rw [rowOwn_fromIter st sel _ hwf b hb k hsel, ← group_total key txns k]
  -- the dropped groups contribute nothing
  have h1 : ((all.filter (fun g => !g.isEmpty)).map (fun g => rowOwn g.bal.rows k)).sum
      = (all.map (fun g => rowOwn g.bal.rows k)).sum := by
    rw [sum_filter_eq_ite]
    apply sum_map_congr
    intro g _
    cases he : g.isEmpty with
    | false => simp
    | true =>
      have : g.bal.rows = [] := by simpa [BalGroup.isEmpty] using he
      simp [rowOwn, this]
  rw [h1]
  -- element-wise: a group's listed own sum is the sum of its members' postings
  have hcs : ∀ kg ∈ groupCandidates key txns, C02.PostsWF (postsOf kg.2) := by
    intro kg hkg
    rw [(candidates_spec key txns).filter kg hkg]
    exact members_wf key txns hwf kg.1
  exact forall₂_sum st sel k hsel _ _ hall hcs

/-! ### the `expect` in `balance_groups` does not fire -/

theorem groupBalances_ne_err (st : Settings) (sel : BalRow → Bool) :
    ∀ (cs : List (String × List Txn)), (∀ kg ∈ cs, fromIter st sel (postsOf kg.2) ≠ .err) →
      groupBalances st sel cs ≠ .err := by
  intro cs
  induction cs with
  | nil => intro _; simp [groupBalances]
  | cons c rest ih =>
    intro h
    obtain ⟨k, g⟩ := c
    have h1 := h (k, g) List.mem_cons_self
    have h2 := ih (fun kg hkg => h kg (List.mem_cons_of_mem _ hkg))
    simp only [groupBalances]
    split
    · rename_i e; exact absurd e h1
    · simp
    · split
      · rename_i e; exact absurd e h2
      · simp
      · simp

/-- **no_panic**: `Balance::from_iter(…).expect(…)` inside `balance_groups` is the one panic site of the report.  If
    the settings know every proper ancestor of every posted account in the posting's commodity (which the load path
    establishes, as for `C02.balance_ok_of_closed`), no group's balance fails, so the model never answers `.err` —
    the code does not panic — for any key function. -/
theorem no_panic (st : Settings) (sel : BalRow → Bool) (key : Txn → String) (txns : List Txn)
    (hwf : C02.PostsWF (postsOf txns))
    (hclosed : ∀ p ∈ postsOf txns, ∀ q : Path, q ≠ [] → q <+: p.acct → q ≠ p.acct →
      ∃ r, st.getTxnAccount q p.comm = .ok r) :
    balanceGroupsBy st sel key txns ≠ .err := by
  unfold balanceGroupsBy
  apply C02.map_ne_err
  apply groupBalances_ne_err
  intro kg hkg
  have hsub : ∀ p ∈ postsOf kg.2, p ∈ postsOf txns := by
    rw [(candidates_spec key txns).filter kg hkg]
    exact postsOf_subset (fun _ ht => (List.mem_filter.mp ht).1)
  have hb := C02.balance_ok_of_closed st (postsOf kg.2) (postsWF_subset hwf hsub)
    (fun p hp => hclosed p (hsub p hp))
  unfold fromIter
  split
  · rename_i e; exact absurd e hb
  · simp
  · split <;> simp

/-! ### the groups in closed form -/

/-- strictly ascending lists of strings with the same members are equal -/
theorem strict_ext {l₁ l₂ : List String} (h1 : l₁.Pairwise (· < ·)) (h2 : l₂.Pairwise (· < ·))
    (hm : ∀ k, k ∈ l₁ ↔ k ∈ l₂) : l₁ = l₂ := by
  apply sorted_perm_eq (fun a b : String => a < b) l₁ l₂
    ((List.perm_ext_iff_of_nodup (strict_nodup h1) (strict_nodup h2)).mpr hm) h1 h2
  intro a b _ _ hab hba
  exact absurd (String.lt_trans hab hba) (String.lt_irrefl _)

/-- **the group candidates in closed form**: if `ks` lists the keys that occur among the transactions in strictly
    ascending order, the candidates are, for each key of `ks` in turn, the transactions with that key in journal
    order — whatever the order of the keys along the journal. -/
theorem group_candidates_eq (key : Txn → String) (txns : List Txn) (ks : List String)
    (hsorted : ks.Pairwise (· < ·)) (hmem : ∀ k, k ∈ ks ↔ ∃ t ∈ txns, key t = k) :
    groupCandidates key txns = ks.map (fun k => (k, txns.filter (fun t => decide (key t = k)))) := by
  have hs := candidates_spec key txns
  have hks : (groupCandidates key txns).map (·.1) = ks := by
    apply strict_ext hs.strict hsorted
    intro k
    rw [hmem]
    constructor
    · intro hk
      obtain ⟨kg, hkg, rfl⟩ := List.mem_map.mp hk
      obtain ⟨t, ht, htk⟩ := chunk_key_mem key _ kg hkg
      exact ⟨t, (List.mergeSort_perm txns _).mem_iff.mp ht, htk⟩
    · rintro ⟨t, ht, rfl⟩
      obtain ⟨g, hg, _⟩ := mem_chunk key _ t ((List.mergeSort_perm txns (keyLeS key)).mem_iff.mpr ht)
      exact List.mem_map.mpr ⟨_, hg, rfl⟩
  rw [← hks, List.map_map]
  have : ∀ kg ∈ groupCandidates key txns,
      kg = ((fun k => (k, txns.filter (fun t => decide (key t = k)))) ∘ (·.1)) kg := by
    intro kg hkg
    apply Prod.ext
    · rfl
    · exact hs.filter kg hkg
  conv => lhs; rw [← List.map_id (groupCandidates key txns)]
  exact List.map_congr_left this

/-! ### the report: key of `get_group_by_op`, zone given as a fixed offset or as a table -/

/-- `balanceGroups` is `balanceGroupsBy` with the period key of the report zone (inside the model's domain: every
    instant inside the window of a zone table), so all the theorems above apply to the report for all five group-by
    settings and every zone -/
theorem balanceGroups_ok (st : Settings) (sel : BalRow → Bool) (g : GroupBy) (tz : Time.JournalTz) (txns : List Txn)
    (gs : List BalGroup) (h : balanceGroups st sel g tz txns = .ok gs) :
    zoneCovers tz txns = true ∧ balanceGroupsBy st sel (groupKey g tz) txns = .ok gs := by
  unfold balanceGroups at h
  split at h
  · exact ⟨by assumption, h⟩
  · cases h

/-- the titles of the report are strictly ascending, each period once — for every group-by setting and **every**
    report zone, monotone or not -/
theorem report_keys (st : Settings) (sel : BalRow → Bool) (g : GroupBy) (tz : Time.JournalTz) (txns : List Txn)
    (gs : List BalGroup) (h : balanceGroups st sel g tz txns = .ok gs) : (gs.map (·.title)).Pairwise (· < ·) :=
  group_keys st sel _ txns gs (balanceGroups_ok st sel g tz txns gs h).2

open Time in
/-- what a period text is, as a specification: `loc` is the local time (instant + offset, in ns); it falls on the
    local day number `days`; `(y, m, d)` is the civil date of that day (unique: `Time.daysFromCivil_inj`) and
    `(wy, w, wd)` its ISO week date — the day is the `wd`-th day of the `w`-th week counted from the Monday of the
    week that contains January 4th of `wy`, and lies before that Monday of `wy + 1` —; the text is
    `YYYY`, `YYYY-MM`, `YYYY-MM-DD`, `Y-Www` or `Y-Www-D` of those numbers. -/
def PeriodSpec (g : GroupBy) (loc : Int) (text : String) : Prop :=
  ∃ (days y : Int) (m d : Nat) (wy w wd : Int),
    (days * 86400000000000 ≤ loc ∧ loc < (days + 1) * 86400000000000) ∧
    (1 ≤ m ∧ m ≤ 12) ∧ (1 ≤ d ∧ d ≤ daysInMonth y m) ∧ daysFromCivil y m d = days ∧
    (1 ≤ w ∧ w ≤ 53) ∧ (1 ≤ wd ∧ wd ≤ 7) ∧ days = isoWeekStart wy + (w - 1) * 7 + (wd - 1) ∧
    days < isoWeekStart (wy + 1) ∧
    text = String.ofList (match g with
      | .year => yearText y
      | .month => yearText y ++ ['-'] ++ padNat 2 m
      | .date => yearText y ++ ['-'] ++ padNat 2 m ++ ['-'] ++ padNat 2 d
      | .isoWeek => intText wy ++ ['-', 'W'] ++ padNat 2 w.toNat
      | .isoWeekDate => intText wy ++ ['-', 'W'] ++ padNat 2 w.toNat ++ ['-'] ++ intText wd)

open Time in
theorem periodText_spec (g : GroupBy) (ns off : Int) : PeriodSpec g (ns + off * 1000000000) (periodText g ns off) := by
  have hl := localDays_spec ns off
  have hr := days_roundtrip (localDays ns off)
  have hi := isoOf_spec (localDays ns off)
  refine ⟨localDays ns off, (civilFromDays (localDays ns off)).1, (civilFromDays (localDays ns off)).2.1,
    (civilFromDays (localDays ns off)).2.2, (isoOf (localDays ns off)).1, (isoOf (localDays ns off)).2.1,
    (isoOf (localDays ns off)).2.2, hl, ⟨hr.2.1, hr.2.2.1⟩, ⟨hr.2.2.2.1, hr.2.2.2.2⟩, hr.1, ⟨hi.1, hi.2.1⟩,
    ⟨hi.2.2.1, hi.2.2.2.1⟩, hi.2.2.2.2.1, hi.2.2.2.2.2, ?_⟩
  rw [periodText_eq]
  cases g <;> rfl

/-- **key_is_period** (fixed offsets, proved in full): the group key of a transaction is the period text of its
    instant's civil date at the report zone's offset. -/
theorem key_is_period (g : GroupBy) (off : Int) (t : Txn) :
    PeriodSpec g (t.header.ts.ns + off * 1000000000) (groupKey g (.fixed off) t) :=
  periodText_spec g _ off

/-- **key_is_period** for a named zone — `_partial`: the zone is *data* (a transition table exported from jiff per
    run), so the statement is relative to the table's content: if inside its window the table agrees with the
    zone's offset function `zoneOffset` (the tz database as jiff reads it, incl. its lookup by truncated second, F22),
    the key is the period text of the instant's civil date at the zone's offset at that instant.
    Full statement: the same with `zoneOffset` = the IANA rules of the zone; missing: a model of the tz database. -/
theorem key_is_period_table_partial (g : GroupBy) (z : Time.ZoneTable) (zoneOffset : Int → Int)
    (hdata : ∀ ns, Time.inWindow z ns = true → Time.offsetAt z ns = zoneOffset ns)
    (t : Txn) (hin : Time.inWindow z t.header.ts.ns = true) :
    PeriodSpec g (t.header.ts.ns + zoneOffset t.header.ts.ns * 1000000000) (groupKey g (.table z) t) := by
  have := periodText_spec g t.header.ts.ns (Time.offsetAt z t.header.ts.ns)
  rw [hdata _ hin] at this
  simpa [groupKey, reportOffset, hdata _ hin] using this

/-- what the table lookup computes: the offset of the last listed transition at or before the (truncated) instant,
    the initial offset when there is none -/
theorem offsetAtFrom_spec (cur : Int) (trans : List (Int × Int)) (x : Int)
    (hasc : (trans.map (·.1)).Pairwise (· < ·)) :
    Time.offsetAtFrom cur trans x = (((trans.filter (fun e => decide (e.1 ≤ x))).map (·.2)).getLast?).getD cur := by
  induction trans generalizing cur with
  | nil => rfl
  | cons e rest ih =>
    obtain ⟨t, o⟩ := e
    simp only [List.map_cons, List.pairwise_cons] at hasc
    simp only [Time.offsetAtFrom]
    split
    · rename_i hlt
      have hnone : (((t, o) :: rest).filter (fun e => decide (e.1 ≤ x))) = [] := by
        rw [List.filter_eq_nil_iff]
        intro e he
        simp only [decide_eq_true_eq]
        rcases List.mem_cons.mp he with rfl | he'
        · simp only; omega
        · have := hasc.1 e.1 (List.mem_map.mpr ⟨e, he', rfl⟩); omega
      rw [hnone]; rfl
    · rename_i hge
      rw [ih o hasc.2]
      have : decide (t ≤ x) = true := by simp; omega
      simp only [List.filter_cons, this, if_true, List.map_cons]
      cases hf : (rest.filter (fun e => decide (e.1 ≤ x))).map (·.2) with
      | nil => simp
      | cons a l => simp [List.getLast?_cons]

/-! ### at a fixed offset nothing changes: consecutive grouping = grouping by key -/

/-- transactions in load order are ordered by instant -/
theorem sorted_by_instant (xs : List Txn) :
    (sortTxns xs).Pairwise (fun a b => a.header.ts.ns ≤ b.header.ts.ns) := by
  apply (sortTxns_sorted xs).imp
  intro a b hab
  simp only [txnLe, hdrLe, hdrKey] at hab
  apply Classical.byContradiction
  intro hlt
  have h1 : ¬ a.header.ts.ns < b.header.ts.ns := by omega
  have h2 : b.header.ts.ns < a.header.ts.ns := by omega
  simp [h1, h2] at hab

/-- at a fixed offset the key of a transaction is the period text of its local day number -/
theorem groupKey_fixed (g : GroupBy) (off : Int) (t : Txn) :
    groupKey g (.fixed off) t = Time.ptext g (Time.localDays t.header.ts.ns off) :=
  Time.periodText_eq g _ off

/-- **equal keys are contiguous at a fixed offset** (`localDays_mono`): along transactions ordered by instant the
    local day number never decreases, hence the period never goes back, hence `chunk_by` on the instant-ordered list
    already yields every period once — the assumption of the code before the fix of F12 holds for fixed offsets. -/
theorem fixed_offset_contiguous (g : GroupBy) (off : Int) (txns : List Txn)
    (hs : txns.Pairwise (fun a b => a.header.ts.ns ≤ b.header.ts.ns)) :
    ((chunkBy (groupKey g (.fixed off)) txns).map (·.1)).Nodup := by
  -- `S k₁ k₂`: `k₁`, `k₂` are period texts of days in periods that follow each other
  let S : String → String → Prop := fun k₁ k₂ =>
    ∃ z₁ z₂, Time.ptext g z₁ = k₁ ∧ Time.ptext g z₂ = k₂ ∧ Time.pcode g z₁ < Time.pcode g z₂
  have htr : ∀ a b c, S a b → S b c → S a c := by
    rintro a b c ⟨z₁, z₂, h1, h2, h3⟩ ⟨z₂', z₃, h4, h5, h6⟩
    have := Time.ptext_inj g z₂ z₂' (h2.trans h4.symm)
    exact ⟨z₁, z₃, h1, h5, by omega⟩
  have hirr : ∀ a, ¬ S a a := by
    rintro a ⟨z₁, z₂, h1, h2, h3⟩
    have := Time.ptext_inj g z₁ z₂ (h1.trans h2.symm)
    omega
  have hpw : txns.Pairwise (fun a b => groupKey g (.fixed off) a = groupKey g (.fixed off) b ∨
      S (groupKey g (.fixed off) a) (groupKey g (.fixed off) b)) := by
    apply hs.imp
    intro a b hab
    have hd := Time.localDays_mono _ _ off hab
    have hc := Time.pcode_mono g _ _ hd
    rw [groupKey_fixed, groupKey_fixed]
    rcases Int.lt_or_eq_of_le hc with hlt | heq
    · exact .inr ⟨_, _, rfl, rfl, hlt⟩
    · exact .inl (Time.ptext_of_pcode g _ _ heq)
  have := chunkBy_strict (groupKey g (.fixed off)) S htr txns hpw
  exact this.imp (fun {a b} hab e => by subst e; exact hirr _ hab)

/-- the balance of one candidate (an empty balance where `from_iter` does not answer) -/
def balOf (st : Settings) (sel : BalRow → Bool) (kg : String × List Txn) : BalGroup :=
  ⟨kg.1, match fromIter st sel (postsOf kg.2) with
    | .ok b => b
    | _ => ⟨[], []⟩⟩

/-- `groupBalances` answers iff `from_iter` answers for every candidate, and then it is the element-wise map -/
theorem groupBalances_ok_iff (st : Settings) (sel : BalRow → Bool) (cs : List (String × List Txn))
    (bs : List BalGroup) :
    groupBalances st sel cs = .ok bs ↔
      (∀ kg ∈ cs, ∃ b, fromIter st sel (postsOf kg.2) = .ok b) ∧ bs = cs.map (balOf st sel) := by
  induction cs generalizing bs with
  | nil => simp [groupBalances, eq_comm]
  | cons c rest ih =>
    obtain ⟨k, g⟩ := c
    simp only [groupBalances, List.mem_cons, forall_eq_or_imp, List.map_cons]
    cases hf : fromIter st sel (postsOf g) with
    | err => simp
    | undef => simp
    | ok b =>
      simp only [balOf, hf]
      cases hr : groupBalances st sel rest with
      | err =>
        have := (ih (rest.map (balOf st sel)))
        rw [hr] at this
        simp only [reduceCtorEq, false_iff, not_and] at this ⊢
        intro ⟨_, hall⟩ _
        exact this hall trivial
      | undef =>
        have := (ih (rest.map (balOf st sel)))
        rw [hr] at this
        simp only [reduceCtorEq, false_iff, not_and] at this ⊢
        intro ⟨_, hall⟩ _
        exact this hall trivial
      | ok r =>
        obtain ⟨hall, hmap⟩ := (ih r).mp hr
        simp only [Outcome.ok.injEq]
        constructor
        · intro e; subst e
          exact ⟨⟨⟨b, rfl⟩, hall⟩, by rw [hmap]⟩
        · intro ⟨_, e⟩
          rw [e, hmap]

theorem le_title_trans (a b c : BalGroup) (h1 : (!decide (b.title < a.title)) = true)
    (h2 : (!decide (c.title < b.title)) = true) : (!decide (c.title < a.title)) = true := by
  simp only [Bool.not_eq_true', decide_eq_false_iff_not] at *; grind

theorem le_title_total (a b : BalGroup) :
    ((!decide (b.title < a.title)) || (!decide (a.title < b.title))) = true := by
  simp only [Bool.or_eq_true, Bool.not_eq_true', decide_eq_false_iff_not]; grind

/-- **consecutive grouping = grouping by key when equal keys are contiguous**: if `chunk_by` on the list as it is
    yields no key twice, the code before the fix of F12 (consecutive runs, then a stable sort by title) and the code
    after it (stable sort by key, then runs) print the same groups. -/
theorem consecutive_eq_of_contiguous (st : Settings) (sel : BalRow → Bool) (key : Txn → String) (txns : List Txn)
    (hnd : ((chunkBy key txns).map (·.1)).Nodup) (gs : List BalGroup) :
    balanceGroupsConsecutive st sel key txns = .ok gs ↔ balanceGroupsBy st sel key txns = .ok gs := by
  have hs := candidates_spec key txns
  have hnd1 : ((groupCandidates key txns).map (·.1)).Nodup := strict_nodup hs.strict
  -- both candidate lists hold, for every key that occurs, the transactions of that key
  have hmem : ∀ x, x ∈ groupCandidates key txns ↔ x ∈ chunkBy key txns := by
    intro x
    constructor
    · intro hx
      obtain ⟨t, ht, htk⟩ := chunk_key_mem key _ x hx
      have ht' : t ∈ txns := (List.mergeSort_perm txns _).mem_iff.mp ht
      obtain ⟨g', hg', _⟩ := mem_chunk key txns t ht'
      have e1 := chunk_eq_filter key txns hnd _ hg'
      have e2 := hs.filter x hx
      simp only at e1
      have : x = (key t, g') := by
        apply Prod.ext
        · exact htk.symm
        · simp only; rw [e1, e2, htk]
      rw [this]; exact hg'
    · intro hx
      obtain ⟨t, ht, htk⟩ := chunk_key_mem key _ x hx
      have ht' : t ∈ txns.mergeSort (keyLeS key) := (List.mergeSort_perm txns _).mem_iff.mpr ht
      obtain ⟨g', hg', _⟩ := mem_chunk key _ t ht'
      have e1 := hs.filter _ hg'
      have e2 := chunk_eq_filter key txns hnd x hx
      simp only at e1
      have : x = (key t, g') := by
        apply Prod.ext
        · exact htk.symm
        · simp only; rw [e1, e2, htk]
      rw [this]; exact hg'
  have hperm : (groupCandidates key txns).Perm (chunkBy key txns) :=
    (List.perm_ext_iff_of_nodup (C02.nodup_of_nodup_map _ hnd1) (C02.nodup_of_nodup_map _ hnd)).mpr hmem
  unfold balanceGroupsConsecutive balanceGroupsBy
  rw [Outcome.map_ok, Outcome.map_ok]
  -- the answers for all candidates: element-wise, so a permutation of each other
  have hall : (∀ kg ∈ chunkBy key txns, ∃ b, fromIter st sel (postsOf kg.2) = .ok b) ↔
      (∀ kg ∈ groupCandidates key txns, ∃ b, fromIter st sel (postsOf kg.2) = .ok b) :=
    ⟨fun h kg hkg => h kg ((hmem kg).mp hkg), fun h kg hkg => h kg ((hmem kg).mpr hkg)⟩
  have hfinal : ((chunkBy key txns).map (balOf st sel) |>.filter (fun g => !g.isEmpty)).mergeSort
        (fun a b => !decide (b.title < a.title))
      = ((groupCandidates key txns).map (balOf st sel)).filter (fun g => !g.isEmpty) := by
    apply sorted_perm_eq (fun a b : BalGroup => (!decide (b.title < a.title)) = true)
    · exact (List.mergeSort_perm _ _).trans (((hperm.symm.map _).filter _))
    · exact List.pairwise_mergeSort le_title_trans le_title_total _
    · have : ((groupCandidates key txns).map (balOf st sel)).Pairwise (fun a b => a.title < b.title) := by
        rw [List.pairwise_map]
        have := hs.strict
        rw [List.pairwise_map] at this
        exact this
      apply (this.sublist List.filter_sublist).imp
      intro a b hab
      simp only [Bool.not_eq_true', decide_eq_false_iff_not]; grind
    · intro a b ha hb h1 h2
      have ha' := (List.mem_filter.mp ((List.mergeSort_perm _ _).mem_iff.mp ha)).1
      have hb' := (List.mem_filter.mp ((List.mergeSort_perm _ _).mem_iff.mp hb)).1
      have ht : a.title = b.title := by
        simp only [Bool.not_eq_true', decide_eq_false_iff_not] at h1 h2; grind
      have hndt : (((chunkBy key txns).map (balOf st sel)).map (·.title)).Nodup := by
        rw [List.map_map]; exact hnd
      exact C02.eq_of_nodup_map (·.title) hndt ha' hb' ht
  constructor
  · rintro ⟨bs, hbs, rfl⟩
    obtain ⟨h1, rfl⟩ := (groupBalances_ok_iff st sel _ bs).mp hbs
    exact ⟨_, (groupBalances_ok_iff st sel _ _).mpr ⟨hall.mp h1, rfl⟩, hfinal.symm⟩
  · rintro ⟨bs, hbs, rfl⟩
    obtain ⟨h1, rfl⟩ := (groupBalances_ok_iff st sel _ bs).mp hbs
    exact ⟨_, (groupBalances_ok_iff st sel _ _).mpr ⟨hall.mpr h1, rfl⟩, hfinal⟩

/-- **fixed_offset_unchanged**: for a fixed-offset report zone and transactions in instant order (`sortTxns`: what
    the loader hands to the reports) the fix of F12 changes nothing — the report of the code that grouped
    consecutive equal keys and the report of the code that groups by key are the same, for all five group-by
    settings. -/
theorem fixed_offset_unchanged (st : Settings) (sel : BalRow → Bool) (g : GroupBy) (off : Int) (txns : List Txn)
    (hs : txns.Pairwise (fun a b => a.header.ts.ns ≤ b.header.ts.ns)) (gs : List BalGroup) :
    balanceGroupsConsecutive st sel (groupKey g (.fixed off)) txns = .ok gs ↔
      balanceGroups st sel g (.fixed off) txns = .ok gs := by
  rw [consecutive_eq_of_contiguous st sel _ txns (fixed_offset_contiguous g off txns hs) gs]
  simp [balanceGroups, zoneCovers]

theorem fixed_offset_unchanged_loaded (st : Settings) (sel : BalRow → Bool) (g : GroupBy) (off : Int)
    (xs : List Txn) (gs : List BalGroup) :
    balanceGroupsConsecutive st sel (groupKey g (.fixed off)) (sortTxns xs) = .ok gs ↔
      balanceGroups st sel g (.fixed off) (sortTxns xs) = .ok gs :=
  fixed_offset_unchanged st sel g off _ (sorted_by_instant xs) gs

/-! ### non-vacuity and the witness of F12

`America/Goose_Bay` on 2010-11-07: at 03:01:00Z (00:01 local, UTC−3) the clock goes back to 23:01 of 2010-11-06
(UTC−4).  Three transactions at 03:00:30Z, 03:30:00Z and 04:30:00Z are, in local time, on the 7th, the 6th and the
7th: the local date is not monotone in the instant.
(`corpus/C13/f12-goose-bay-date-twice.json` replays the same instants on the implementation;
`corpus/C13/example-lean-goose-bay.json` is exactly the journal below.)

```
2010-11-07T03:00:30Z        2010-11-07T03:30:00Z        2010-11-07T04:30:00Z
 a:cash  -1                  a:cash  -2                  e:food   4
 e:food   1                  e:food   2                  x:y     -4
```
-/

/-- the zone as data: the window 2010-11-04 … 2010-11-10, offset −3 h, one transition to −4 h -/
def gooseBay : Time.ZoneTable :=
  ⟨1288828800000000000, 1289347200000000000, -10800, [(1289098860000000000, -14400)]⟩

def mkT (ns : Int) (posts : List Posting) : Txn := ⟨⟨⟨ns, 0⟩, none, none, none, none, none, none⟩, posts⟩
def t1 : Txn := mkT 1289098830000000000 [C02.mkP ["a","cash"] "" (C02.dd (-1) 0), C02.mkP ["e","food"] "" (C02.dd 1 0)]
def t2 : Txn := mkT 1289100600000000000 [C02.mkP ["a","cash"] "" (C02.dd (-2) 0), C02.mkP ["e","food"] "" (C02.dd 2 0)]
def t3 : Txn := mkT 1289104200000000000 [C02.mkP ["e","food"] "" (C02.dd 4 0), C02.mkP ["x","y"] "" (C02.dd (-4) 0)]
def txnsF12 : List Txn := [t1, t2, t3]
/-- the settings after loading that journal (no charts, empty commodity permitted) -/
def stF : Settings := Settings.ofConfig false false true [["a","cash"],["e","food"],["x","y"]] [""] []
def keyF : Txn → String := groupKey .date (.table gooseBay)

/-- the list is in instant order, the zone table covers it … -/
example : txnsF12.Pairwise (fun a b => a.header.ts.ns ≤ b.header.ts.ns) := by decide
example : zoneCovers (.table gooseBay) txnsF12 = true := by decide
/-- … and the local dates are the 7th, the 6th, the 7th -/
theorem ex_keys : txnsF12.map keyF = ["2010-11-07", "2010-11-06", "2010-11-07"] := by decide

/-- **witness of F12, part 1**: consecutive grouping of the instant-ordered list yields the key `2010-11-07` twice -/
theorem witness_F12_keys :
    (chunkBy keyF txnsF12).map (·.1) = ["2010-11-07", "2010-11-06", "2010-11-07"] ∧
    ¬ ((chunkBy keyF txnsF12).map (·.1)).Nodup := by
  have h : (chunkBy keyF txnsF12).map (·.1) = ["2010-11-07", "2010-11-06", "2010-11-07"] := by decide
  exact ⟨h, by rw [h]; decide⟩

/-- evaluation helper: `from_iter` on a posting stream that is already in account order, stage by stage -/
theorem fromIter_eval (st : Settings) (sel : BalRow → Bool) (posts : List BPost) (sums complete : List (AKey × Dec))
    (bal : List BalRow) (ds : List (String × Dec))
    (h0 : posts.Pairwise (fun a b => keyLe a.key b.key = true))
    (h1 : sumGroups (chunkBy BPost.key posts) = some sums)
    (h2 : completeTree st sums = .ok complete)
    (h3 : flattenOpt ((complete.filter (fun s => s.1.2.length == 1)).map
            (treeNodes complete (maxDepth complete + 1))) = some bal)
    (h4 : bal.Pairwise (fun a b => keyLe a.key b.key = true))
    (h5 : deltaGroups (chunkBy (·.comm) (bal.filter sel)) = some ds) :
    fromIter st sel posts = .ok ⟨bal.filter sel, ds⟩ := by
  unfold fromIter balance accountSums
  rw [List.mergeSort_of_pairwise h0, h1]; dsimp only
  rw [h2]; dsimp only
  rw [h3]; dsimp only
  rw [List.mergeSort_of_pairwise h4, h5]

def all : BalRow → Bool := fun _ => true
/-- the group of 2010-11-06: the second transaction alone -/
def bal06 : Balance := ⟨[⟨["a"], "", Dec.zero, C02.dd (-2) 0⟩, ⟨["a","cash"], "", C02.dd (-2) 0, C02.dd (-2) 0⟩,
  ⟨["e"], "", Dec.zero, C02.dd 2 0⟩, ⟨["e","food"], "", C02.dd 2 0, C02.dd 2 0⟩], [("", C02.dd 0 0)]⟩
/-- the group of 2010-11-07: the first and the third transaction -/
def bal07 : Balance := ⟨[⟨["a"], "", Dec.zero, C02.dd (-1) 0⟩, ⟨["a","cash"], "", C02.dd (-1) 0, C02.dd (-1) 0⟩,
  ⟨["e"], "", Dec.zero, C02.dd 5 0⟩, ⟨["e","food"], "", C02.dd 5 0, C02.dd 5 0⟩,
  ⟨["x"], "", Dec.zero, C02.dd (-4) 0⟩, ⟨["x","y"], "", C02.dd (-4) 0, C02.dd (-4) 0⟩], [("", C02.dd 0 0)]⟩

theorem ex_bal06 : fromIter stF all (postsOf [t2]) = .ok bal06 := by
  rw [fromIter_eval stF all (postsOf [t2])
    [(("", ["a","cash"]), C02.dd (-2) 0), (("", ["e","food"]), C02.dd 2 0)]
    [(("", ["a"]), Dec.zero), (("", ["a","cash"]), C02.dd (-2) 0), (("", ["e"]), Dec.zero), (("", ["e","food"]), C02.dd 2 0)]
    bal06.rows bal06.deltas (by decide) (by decide) (by decide) (by decide) (by decide) (by decide)]
  rfl

theorem ex_bal07 : fromIter stF all (postsOf [t1, t3]) = .ok bal07 := by
  rw [fromIter_eval stF all (postsOf [t1, t3])
    [(("", ["a","cash"]), C02.dd (-1) 0), (("", ["e","food"]), C02.dd 5 0), (("", ["x","y"]), C02.dd (-4) 0)]
    [(("", ["a"]), Dec.zero), (("", ["a","cash"]), C02.dd (-1) 0), (("", ["e"]), Dec.zero), (("", ["e","food"]), C02.dd 5 0),
     (("", ["x"]), Dec.zero), (("", ["x","y"]), C02.dd (-4) 0)]
    bal07.rows bal07.deltas (by decide) (by decide) (by decide) (by decide) (by decide) (by decide)]
  rfl

/-- the candidates of the repaired code: two groups, the 7th holds the first and the third transaction -/
theorem ex_candidates : groupCandidates keyF txnsF12 = [("2010-11-06", [t2]), ("2010-11-07", [t1, t3])] := by
  have hk1 : keyF t1 = "2010-11-07" := by decide
  have hk2 : keyF t2 = "2010-11-06" := by decide
  have hk3 : keyF t3 = "2010-11-07" := by decide
  rw [group_candidates_eq keyF txnsF12 ["2010-11-06", "2010-11-07"] (by decide)]
  · simp only [List.map_cons, List.map_nil, txnsF12, List.filter_cons, hk1, hk2, hk3, List.filter_nil]
    decide
  · intro k
    simp only [txnsF12, List.mem_cons, List.mem_nil_iff, or_false, exists_eq_or_imp, exists_eq_left, hk1, hk2, hk3]
    grind

/-- **the report of the repaired code on the witness journal**: `2010-11-06` (−2 / 2) and `2010-11-07` once, with
    both of its transactions (cash −1, food 1 + 4, x:y −4) -/
theorem ex_report : balanceGroups stF all .date (.table gooseBay) txnsF12
    = .ok [⟨"2010-11-06", bal06⟩, ⟨"2010-11-07", bal07⟩] := by
  have hz : zoneCovers (.table gooseBay) txnsF12 = true := by decide
  unfold balanceGroups balanceGroupsBy
  rw [hz]
  simp only [if_true]
  change Outcome.map _ (groupBalances stF all (groupCandidates keyF txnsF12)) = _
  rw [ex_candidates]
  simp only [groupBalances, ex_bal06, ex_bal07, Outcome.map]
  decide

/-- the figures of the example satisfy the theorems' hypotheses … -/
example : C02.PostsWF (postsOf txnsF12) := by
  refine ⟨by decide, by decide, C02.namesInj_of_good _ ?_⟩
  have : ∀ x ∈ postsOf txnsF12, ∀ c ∈ x.acct, c ≠ "" ∧ ':' ∉ c.toList := by decide
  exact fun x hx c hc => this x hx c hc
/-- … e.g. `group_total`: `e:food` has 2 in the group of the 6th and 5 in the group of the 7th, 7 in all -/
example : ((groupCandidates keyF txnsF12).map (fun kg => C02.ownSum (postsOf kg.2) ("", ["e","food"]))).sum
    = 7 * 10 ^ 28 := by
  rw [ex_candidates]; decide

/-- **witness of F12, part 2**: on this journal the code before the fix cannot print what the repaired code prints —
    whenever it answers, some title occurs twice (every run of the instant-ordered list becomes a printed group),
    whereas `group_keys` shows the repaired code never repeats a title. -/
theorem witness_F12 (gs : List BalGroup)
    (h : balanceGroupsConsecutive stF all keyF txnsF12 = .ok gs) : ¬ (gs.map (·.title)).Nodup := by
  unfold balanceGroupsConsecutive at h
  obtain ⟨bs, hbs, rfl⟩ := (Outcome.map_ok _ _ _).mp h
  obtain ⟨hall, rfl⟩ := (groupBalances_ok_iff stF all _ bs).mp hbs
  have hc : chunkBy keyF txnsF12 = [("2010-11-07", [t1]), ("2010-11-06", [t2]), ("2010-11-07", [t3])] := by decide
  rw [hc] at hall ⊢
  -- every chunk has a listed row (all accounts are listed and each chunk has postings)
  have hwfall : ∀ kg ∈ [("2010-11-07", [t1]), ("2010-11-06", [t2]), ("2010-11-07", [t3])],
      C02.PostsWF (postsOf kg.2) := by
    intro kg hkg
    have h1 : ∀ kg ∈ [("2010-11-07", [t1]), ("2010-11-06", [t2]), ("2010-11-07", [t3])],
        ∀ p ∈ postsOf kg.2, p.amount.scale ≤ 28 := by decide
    have h2 : ∀ kg ∈ [("2010-11-07", [t1]), ("2010-11-06", [t2]), ("2010-11-07", [t3])],
        ∀ p ∈ postsOf kg.2, p.acct ≠ [] := by decide
    have h3 : ∀ kg ∈ [("2010-11-07", [t1]), ("2010-11-06", [t2]), ("2010-11-07", [t3])],
        ∀ x ∈ postsOf kg.2, ∀ c ∈ x.acct, c ≠ "" ∧ ':' ∉ c.toList := by decide
    exact ⟨h1 kg hkg, h2 kg hkg, C02.namesInj_of_good _ (fun x hx c hc => h3 kg hkg x hx c hc)⟩
  have hposted : ∀ kg ∈ [("2010-11-07", [t1]), ("2010-11-06", [t2]), ("2010-11-07", [t3])],
      postsOf kg.2 ≠ [] := by decide
  have hne : ∀ kg ∈ [("2010-11-07", [t1]), ("2010-11-06", [t2]), ("2010-11-07", [t3])],
      (balOf stF all kg).isEmpty = false := by
    intro kg hkg
    obtain ⟨b, hb⟩ := hall kg hkg
    obtain ⟨bal, hbal, hrows⟩ := fromIter_rows stF all _ b hb
    obtain ⟨p, tl, hptl⟩ := List.exists_cons_of_ne_nil (hposted kg hkg)
    have hp : p ∈ postsOf kg.2 := by rw [hptl]; exact List.mem_cons_self
    have hk : p.key ∈ bal.map (·.key) :=
      ((C02.rows_exact stF _ (hwfall kg hkg) bal hbal).2 p.key).mpr (.inl ⟨p, hp, rfl⟩)
    obtain ⟨r, hr, _⟩ := List.mem_map.mp hk
    have hall' : bal.filter all = bal := by simp [all]
    simp only [BalGroup.isEmpty, balOf, hb, hrows, hall']
    cases bal with
    | nil => cases hr
    | cons _ _ => rfl
  intro hnd
  have hfilt : ([("2010-11-07", [t1]), ("2010-11-06", [t2]), ("2010-11-07", [t3])].map (balOf stF all)).filter
      (fun g => !g.isEmpty) = [("2010-11-07", [t1]), ("2010-11-06", [t2]), ("2010-11-07", [t3])].map (balOf stF all) := by
    rw [List.filter_eq_self]
    intro g hg
    obtain ⟨kg, hkg, rfl⟩ := List.mem_map.mp hg
    rw [hne kg hkg]; rfl
  rw [hfilt] at hnd
  have hperm := ((List.mergeSort_perm ([("2010-11-07", [t1]), ("2010-11-06", [t2]), ("2010-11-07", [t3])].map
    (balOf stF all)) (fun a b => !decide (b.title < a.title))).map (·.title))
  have := hperm.nodup_iff.mp hnd
  simp [balOf] at this

end C13
end Tackler

import TacklerModel.Model.PricedReports
import TacklerModel.Props.C07
import TacklerModel.Props.C02
import TacklerModel.Props.C03
import TacklerModel.Props.C13
/-!
# C07b — price conversion at report level (C07 × C02 / C03 / C13)

`Model/PricedReports.lean` plugs `convert_prices` into the balance, register and balance-group kernels the way
the three reporters do (one price context per report, built from all transactions of the report).
This file instantiates the kernel theorems of C02 / C03 / C13 with the converted stream and unfolds the
converted figures with C07's `convert_value`.

Vocabulary (all in terms of C07's `appliedEntry`, the price entry `convert_prices_inner` applies to a posting,
which `applied_rateAt` identifies with the documented rate `RateAt`):
* `convKey cache tgt (t, p)`  – the (commodity, account) under which posting `p` is summed: `(tgt, account)` when a
  rate is applied, the posting's own key otherwise;
* `val28 cache tgt (t, p)`    – the converted amount × 10²⁸ in units: `amount.units × rate.units` when a rate is
  applied (`Dec.units` counts 10⁻²⁸), `amount.units × 10²⁸` otherwise;
* `valueSum … l k`            – Σ of `val28` over the (transaction, posting) pairs of `l` whose `convKey` is `k`;
  `valueSum_split`: = `ratedSum` (Σ amount × rate over the converted postings) + `plainSum` × 10²⁸ (Σ amount over
  the unconverted ones).
-/
namespace Tackler
namespace C07b
open Tackler.Price Tackler.Priced

/-! ## 1. the converted stream, posting by posting -/

/-- (transaction, posting) pairs in stream order -/
def pairsOf (txns : List Txn) : List (Txn × Posting) := txns.flatMap (fun t => t.posts.map (fun p => (t, p)))

/-- the item `register_engine` builds for posting `p` of `t` (total function; meaningful where
    `convertPosting` is `.ok`) -/
def convItem (cache : Cache) (tgt : String) (t : Txn) (p : Posting) : RItem :=
  match convertPosting cache tgt t p with
  | .ok c => ⟨p, c.comm, c.amount, c.rate⟩
  | .err => ⟨p, p.comm, p.amount, none⟩
  | .undef => ⟨p, p.comm, p.amount, none⟩

/-- what the balance kernel reads of an item: account of the posting, converted commodity and amount -/
def itemBPost (it : RItem) : BPost := ⟨it.post.acct, it.comm, it.amount⟩

theorem itemBPost_key (it : RItem) : (itemBPost it).key = it.key := rfl

/-- conversion keeps the account -/
theorem convertPosting_acct (cache : Cache) (tgt : String) (t : Txn) (p : Posting) (c : Converted)
    (h : convertPosting cache tgt t p = .ok c) : c.acct = p.acct := by
  rw [C07.convertPosting_eq] at h
  cases ha : C07.appliedEntry cache tgt t p with
  | none => rw [ha] at h; simp at h; subst h; rfl
  | some e =>
    rw [ha] at h
    exact (C07.convert_value_units _ tgt p e c h).2.2

theorem toBPost_eq (cache : Cache) (tgt : String) (t : Txn) (p : Posting) (c : Converted)
    (h : convertPosting cache tgt t p = .ok c) : toBPost c = itemBPost (convItem cache tgt t p) := by
  simp only [convItem, h, itemBPost, toBPost, convertPosting_acct cache tgt t p c h]

/-- `mapO` of an everywhere-`.ok` function is `map` -/
theorem mapO_eq_map {α β} (f : α → Outcome β) (g : α → β) : ∀ (l : List α) (bs : List β),
    (∀ a b, f a = .ok b → b = g a) → mapO f l = .ok bs → bs = l.map g ∧ ∀ a ∈ l, ∃ b, f a = .ok b := by
  intro l
  induction l with
  | nil => intro bs _ h; simp [mapO] at h; subst h; simp
  | cons a t ih =>
    intro bs hg h
    simp only [mapO] at h
    split at h
    · rename_i b hfa
      split at h
      · rename_i bs' hm
        cases h
        obtain ⟨e, hall⟩ := ih bs' hg hm
        refine ⟨by rw [e, hg a b hfa]; rfl, ?_⟩
        intro x hx
        rcases List.mem_cons.mp hx with rfl | hx'
        · exact ⟨b, hfa⟩
        · exact hall x hx'
      · cases h
      · cases h
    · cases h
    · cases h

/-- one transaction: the items of `convert_prices(txn)` are `convItem` of the postings, and every posting converts -/
theorem convertPrices_items (ctx : Ctx) (tgt : String) (hin : ctx.inCommodity = some tgt) (t : Txn)
    (cs : List Converted) (h : convertPrices ctx t = .ok cs) :
    zipItems cs t.posts = t.posts.map (convItem ctx.cache tgt t) ∧
    cs.map toBPost = t.posts.map (fun p => itemBPost (convItem ctx.cache tgt t p)) ∧
    ∀ p ∈ t.posts, ∃ c, convertPosting ctx.cache tgt t p = .ok c := by
  unfold convertPrices at h
  rw [hin] at h
  simp only at h
  have key : ∀ (posts : List Posting) (cs : List Converted), mapO (convertPosting ctx.cache tgt t) posts = .ok cs →
      zipItems cs posts = posts.map (convItem ctx.cache tgt t) ∧
      cs.map toBPost = posts.map (fun p => itemBPost (convItem ctx.cache tgt t p)) ∧
      ∀ p ∈ posts, ∃ c, convertPosting ctx.cache tgt t p = .ok c := by
    intro posts
    induction posts with
    | nil => intro cs h; simp [mapO] at h; subst h; simp [zipItems]
    | cons p ps ih =>
      intro cs h
      simp only [mapO] at h
      split at h
      · rename_i c hc
        split at h
        · rename_i cs' hm
          cases h
          obtain ⟨e1, e2, e3⟩ := ih cs' hm
          refine ⟨?_, ?_, ?_⟩
          · simp only [zipItems, List.zip_cons_cons, List.map_cons] at e1 ⊢
            rw [e1]
            simp [convItem, hc]
          · simp only [List.map_cons, e2, toBPost_eq _ _ _ _ _ hc]
          · intro q hq
            rcases List.mem_cons.mp hq with rfl | hq'
            · exact ⟨c, hc⟩
            · exact e3 q hq'
        · cases h
        · cases h
      · cases h
      · cases h
  exact key t.posts cs h

/-- the stream of the register engine with conversion on -/
def convStream (cache : Cache) (tgt : String) (txns : List Txn) : List (Txn × List RItem) :=
  txns.map (fun t => (t, t.posts.map (convItem cache tgt t)))

/-- every posting of the set converts inside the exact domain -/
def AllConvert (cache : Cache) (tgt : String) (txns : List Txn) : Prop :=
  ∀ t ∈ txns, ∀ p ∈ t.posts, ∃ c, convertPosting cache tgt t p = .ok c

/-- **converted_stream**: with conversion on, the stream `register_engine` walks is, per transaction, `convItem` of
    its postings in written order -/
theorem converted_stream (ctx : Ctx) (tgt : String) (hin : ctx.inCommodity = some tgt) :
    ∀ (txns : List Txn) (stream : List (Txn × List RItem)), convertedStream ctx txns = .ok stream →
      stream = convStream ctx.cache tgt txns ∧ AllConvert ctx.cache tgt txns := by
  intro txns
  induction txns with
  | nil => intro stream h; simp [convertedStream, mapO] at h; subst h; exact ⟨rfl, by intro t ht; cases ht⟩
  | cons t ts ih =>
    intro stream h
    simp only [convertedStream, mapO] at h
    split at h
    · rename_i x hx
      obtain ⟨cs, hcs, rfl⟩ := (Outcome.map_ok _ _ _).mp hx
      split at h
      · rename_i rest hrest
        cases h
        obtain ⟨e, hall⟩ := ih rest hrest
        obtain ⟨e1, _, e3⟩ := convertPrices_items ctx tgt hin t cs hcs
        refine ⟨by simp [convStream, e1, e] , ?_⟩
        intro t' ht'
        rcases List.mem_cons.mp ht' with rfl | ht''
        · exact e3
        · exact hall t' ht''
      · cases h
      · cases h
    · cases h
    · cases h

/-- **converted_posts**: with conversion on, the posting stream `Balance::balance` sums is the same items, read as
    (account, converted commodity, converted amount) -/
theorem converted_posts (ctx : Ctx) (tgt : String) (hin : ctx.inCommodity = some tgt) :
    ∀ (txns : List Txn) (cps : List BPost), convertedPosts ctx txns = .ok cps →
      cps = (C03.itemsOf (convStream ctx.cache tgt txns)).map itemBPost ∧ AllConvert ctx.cache tgt txns := by
  intro txns cps h
  unfold convertedPosts convertedAll at h
  obtain ⟨cs, hcs, rfl⟩ := (Outcome.map_ok _ _ _).mp h
  obtain ⟨css, hcss, rfl⟩ := (Outcome.map_ok _ _ _).mp hcs
  clear h hcs
  induction txns generalizing css with
  | nil => simp [mapO] at hcss; subst hcss; exact ⟨rfl, by intro t ht; cases ht⟩
  | cons t ts ih =>
    simp only [mapO] at hcss
    split at hcss
    · rename_i cs hcs
      split at hcss
      · rename_i rest hrest
        cases hcss
        obtain ⟨e, hall⟩ := ih rest hrest
        obtain ⟨_, e2, e3⟩ := convertPrices_items ctx tgt hin t cs hcs
        refine ⟨?_, ?_⟩
        · simp only [List.flatten_cons, List.map_append, e, e2, convStream, List.map_cons, C03.itemsOf_cons]
          simp [List.map_map, Function.comp_def]
        · intro t' ht'
          rcases List.mem_cons.mp ht' with rfl | ht''
          · exact e3
          · exact hall t' ht''
      · cases hcss
      · cases hcss
    · cases hcss
    · cases hcss

/-! ## 2. converted figures in terms of the applied rates -/

/-- 10²⁸: `Dec.units` counts units of 10⁻²⁸ -/
def E28 : Int := (10:Int)^28

/-- the key a posting is summed under, given the entry applied to it -/
def keyOf (x : Option PriceEntry) (tgt : String) (p : Posting) : AKey :=
  match x with
  | some _ => (tgt, p.acct)
  | none => (p.comm, p.acct)

/-- the converted amount × 10²⁸ (units), given the entry applied -/
def valOf (x : Option PriceEntry) (p : Posting) : Int :=
  match x with
  | some e => p.amount.units * e.rate.units
  | none => p.amount.units * E28

/-- amount × rate if converted and summed under `k` -/
def ratedOf (x : Option PriceEntry) (tgt : String) (p : Posting) (k : AKey) : Int :=
  match x with
  | some e => if (tgt, p.acct) = k then p.amount.units * e.rate.units else 0
  | none => 0

/-- amount if not converted and summed under `k` -/
def plainOf (x : Option PriceEntry) (p : Posting) (k : AKey) : Int :=
  match x with
  | some _ => 0
  | none => if p.acctnKey = k then p.amount.units else 0

/-- the (commodity, account) under which a posting is summed -/
def convKey (cache : Cache) (tgt : String) (tp : Txn × Posting) : AKey :=
  keyOf (C07.appliedEntry cache tgt tp.1 tp.2) tgt tp.2

/-- the converted amount × 10²⁸, in units -/
def val28 (cache : Cache) (tgt : String) (tp : Txn × Posting) : Int :=
  valOf (C07.appliedEntry cache tgt tp.1 tp.2) tp.2

/-- Σ converted amount × 10²⁸ over the pairs summed under `k` -/
def valueSum (cache : Cache) (tgt : String) (l : List (Txn × Posting)) (k : AKey) : Int :=
  (l.map (fun tp => if convKey cache tgt tp = k then val28 cache tgt tp else 0)).sum

/-- Σ amount × rate (units × units) over the converted postings summed under `k` -/
def ratedSum (cache : Cache) (tgt : String) (l : List (Txn × Posting)) (k : AKey) : Int :=
  (l.map (fun tp => ratedOf (C07.appliedEntry cache tgt tp.1 tp.2) tgt tp.2 k)).sum

/-- Σ amount (units) over the unconverted postings summed under `k` -/
def plainSum (cache : Cache) (tgt : String) (l : List (Txn × Posting)) (k : AKey) : Int :=
  (l.map (fun tp => plainOf (C07.appliedEntry cache tgt tp.1 tp.2) tp.2 k)).sum

theorem sum_map_split {α} (f g h : α → Int) (E : Int) (l : List α) (hp : ∀ a, f a = g a + h a * E) :
    (l.map f).sum = (l.map g).sum + (l.map h).sum * E := by
  induction l with
  | nil => simp
  | cons a t ih => simp only [List.map_cons, List.sum_cons, ih, hp a, Int.add_mul]; omega

theorem split_pt (x : Option PriceEntry) (tgt : String) (p : Posting) (k : AKey) :
    (if keyOf x tgt p = k then valOf x p else 0) = ratedOf x tgt p k + plainOf x p k * E28 := by
  cases x with
  | none =>
    simp only [keyOf, valOf, ratedOf, plainOf, Posting.acctnKey]
    by_cases hk : (p.comm, p.acct) = k <;> simp [hk]
  | some e =>
    simp only [keyOf, valOf, ratedOf, plainOf]
    by_cases hk : (tgt, p.acct) = k <;> simp [hk]

/-- **valueSum_split**: Σ converted amounts = Σ amount × rate over the converted postings + Σ amount over the
    unconverted ones -/
theorem valueSum_split (cache : Cache) (tgt : String) (l : List (Txn × Posting)) (k : AKey) :
    valueSum cache tgt l k = ratedSum cache tgt l k + plainSum cache tgt l k * E28 := by
  unfold valueSum ratedSum plainSum
  apply sum_map_split
  intro tp
  exact split_pt _ tgt tp.2 k

theorem valueSum_append (cache : Cache) (tgt : String) (l₁ l₂ : List (Txn × Posting)) (k : AKey) :
    valueSum cache tgt (l₁ ++ l₂) k = valueSum cache tgt l₁ k + valueSum cache tgt l₂ k := by
  simp [valueSum]

/-- what `convItem` is, in terms of the entry applied (C07 `convertPosting_eq`, `convert_value_units`) -/
theorem convItem_spec (cache : Cache) (tgt : String) (t : Txn) (p : Posting) (c : Converted)
    (h : convertPosting cache tgt t p = .ok c) (hs : p.amount.scale ≤ 28) :
    (convItem cache tgt t p).post = p ∧
    (convItem cache tgt t p).key = convKey cache tgt (t, p) ∧
    (convItem cache tgt t p).amount.units * E28 = val28 cache tgt (t, p) ∧
    (convItem cache tgt t p).amount.scale ≤ 28 := by
  have hpost : (convItem cache tgt t p).post = p := by
    unfold convItem; split <;> rfl
  refine ⟨hpost, ?_⟩
  have hit : convItem cache tgt t p = ⟨p, c.comm, c.amount, c.rate⟩ := by simp [convItem, h]
  rw [C07.convertPosting_eq] at h
  unfold convKey val28
  cases ha : C07.appliedEntry cache tgt t p with
  | none =>
    rw [ha] at h
    simp at h; subst h
    simp [hit, RItem.key, unchanged, hs, keyOf, valOf]
  | some e =>
    rw [ha] at h
    simp only at h
    have hu := C07.convert_value_units _ tgt p e c h
    unfold C07.valued at h
    obtain ⟨a, hao, hcc⟩ := (Outcome.map_ok _ _ _).mp h
    cases hmul : Dec.mul p.amount e.rate with
    | none => simp [hmul, Outcome.ofOption] at hao
    | some a' =>
      simp [hmul, Outcome.ofOption] at hao
      subst hao
      have hsc := (Dec.mul_units _ _ _ hmul).2
      subst hcc
      rw [hit]
      exact ⟨rfl, by simpa [E28, valOf] using hu.1, hsc⟩

/-- Σ of the items' amounts under a key, ×10²⁸ = `valueSum` of the postings they come from -/
theorem keySum_convItems (cache : Cache) (tgt : String) (k : AKey) : ∀ (l : List (Txn × Posting)),
    (∀ tp ∈ l, tp.2.amount.scale ≤ 28) → (∀ tp ∈ l, ∃ c, convertPosting cache tgt tp.1 tp.2 = .ok c) →
    Reg.keySum k (l.map (fun tp => convItem cache tgt tp.1 tp.2)) * E28 = valueSum cache tgt l k := by
  intro l
  induction l with
  | nil => intro _ _; simp [valueSum]
  | cons tp t ih =>
    intro hsc hok
    obtain ⟨c, hc⟩ := hok tp List.mem_cons_self
    have hs := hsc tp List.mem_cons_self
    obtain ⟨_, hk, hv, _⟩ := convItem_spec cache tgt tp.1 tp.2 c hc hs
    rw [List.map_cons, Reg.keySum_cons, Int.add_mul,
      ih (fun x hx => hsc x (List.mem_cons_of_mem _ hx)) (fun x hx => hok x (List.mem_cons_of_mem _ hx))]
    simp only [valueSum, List.map_cons, List.sum_cons]
    rw [hk]
    by_cases hkk : convKey cache tgt (tp.1, tp.2) = k
    · simp only [hkk, if_true]; rw [hv]
    · simp only [hkk, if_false]; omega

/-- C02's `ownSum` of the balance view of items is the register's `keySum` -/
theorem ownSum_items (k : AKey) (items : List RItem) : C02.ownSum (items.map itemBPost) k = Reg.keySum k items := by
  unfold C02.ownSum
  induction items with
  | nil => rfl
  | cons it t ih =>
    rw [List.map_cons, Reg.keySum_cons, ← ih]
    have hk : (itemBPost it).key = it.key := rfl
    have ha : (itemBPost it).amount = it.amount := rfl
    by_cases h : it.key = k
    · simp [hk, ha, h]
    · simp [hk, h]

theorem itemsOf_convStream (cache : Cache) (tgt : String) (txns : List Txn) :
    C03.itemsOf (convStream cache tgt txns) = (pairsOf txns).map (fun tp => convItem cache tgt tp.1 tp.2) := by
  induction txns with
  | nil => rfl
  | cons t ts ih =>
    have : convStream cache tgt (t :: ts) = (t, t.posts.map (convItem cache tgt t)) :: convStream cache tgt ts := rfl
    rw [this, C03.itemsOf_cons, ih]
    simp [pairsOf, List.map_map, Function.comp_def]

theorem mem_pairsOf (txns : List Txn) (tp : Txn × Posting) : tp ∈ pairsOf txns ↔ tp.1 ∈ txns ∧ tp.2 ∈ tp.1.posts := by
  obtain ⟨t, p⟩ := tp
  simp only [pairsOf, List.mem_flatMap, List.mem_map, Prod.mk.injEq]
  constructor
  · rintro ⟨t', ht', p', hp', rfl, rfl⟩; exact ⟨ht', hp'⟩
  · rintro ⟨ht, hp⟩; exact ⟨t, ht, p, hp, rfl, rfl⟩

/-- the representation invariant on transactions (`C03.TxnsWF`) in terms of pairs -/
theorem pairs_scale (txns : List Txn) (h : C03.TxnsWF txns) : ∀ tp ∈ pairsOf txns, tp.2.amount.scale ≤ 28 := by
  intro tp htp
  obtain ⟨ht, hp⟩ := (mem_pairsOf txns tp).mp htp
  exact h tp.1 ht tp.2 hp

theorem pairs_convert (cache : Cache) (tgt : String) (txns : List Txn) (h : AllConvert cache tgt txns) :
    ∀ tp ∈ pairsOf txns, ∃ c, convertPosting cache tgt tp.1 tp.2 = .ok c := by
  intro tp htp
  obtain ⟨ht, hp⟩ := (mem_pairsOf txns tp).mp htp
  exact h tp.1 ht tp.2 hp

/-! ## 3. balance report with conversion -/

theorem makeCtx_in (lk : PriceLookup) (txns : List Txn) (tgt : String) (db : List PriceEntry) (hlk : lk ≠ .none) :
    (makeCtx lk txns (some tgt) db).inCommodity = some tgt := by
  cases lk <;> simp [makeCtx] at hlk ⊢

theorem convItem_post (cache : Cache) (tgt : String) (t : Txn) (p : Posting) : (convItem cache tgt t p).post = p := by
  unfold convItem; split <;> rfl

theorem mem_postsOf_of_pair (txns : List Txn) (tp : Txn × Posting) (h : tp ∈ pairsOf txns) :
    (⟨tp.2.acct, tp.2.comm, tp.2.amount⟩ : BPost) ∈ postsOf txns := by
  obtain ⟨ht, hp⟩ := (mem_pairsOf txns tp).mp h
  simp only [postsOf, List.mem_flatMap, List.mem_map]
  exact ⟨tp.1, ht, tp.2, hp, rfl⟩

/-- `C03.TxnsWF` (scales ≤ 28) is the scale part of `PostsWF (postsOf txns)` -/
theorem txnsWF_of_postsWF (txns : List Txn) (hwf : C02.PostsWF (postsOf txns)) : C03.TxnsWF txns := by
  intro t ht p hp
  exact hwf.scale _ (mem_postsOf_of_pair txns (t, p) ((mem_pairsOf txns (t, p)).mpr ⟨ht, hp⟩))

/-- **converted_wf**: the representation invariants of the posting stream (`PostsWF`: scales ≤ 28, non-empty
    paths, names determine paths) carry over to the converted stream — conversion keeps every account and an exact
    product has scale ≤ 28.  So every C02 theorem applies to the converted balance without a new hypothesis. -/
theorem converted_wf (cache : Cache) (tgt : String) (txns : List Txn) (hwf : C02.PostsWF (postsOf txns))
    (hall : AllConvert cache tgt txns) :
    C02.PostsWF ((C03.itemsOf (convStream cache tgt txns)).map itemBPost) := by
  rw [itemsOf_convStream, List.map_map]
  have hmem : ∀ x ∈ (pairsOf txns).map (itemBPost ∘ fun tp => convItem cache tgt tp.1 tp.2),
      x.amount.scale ≤ 28 ∧ ∃ y ∈ postsOf txns, y.acct = x.acct := by
    intro x hx
    obtain ⟨tp, htp, rfl⟩ := List.mem_map.mp hx
    have hy := mem_postsOf_of_pair txns tp htp
    obtain ⟨c, hc⟩ := pairs_convert cache tgt txns hall tp htp
    have hs : tp.2.amount.scale ≤ 28 := hwf.scale _ hy
    refine ⟨(convItem_spec cache tgt tp.1 tp.2 c hc hs).2.2.2, _, hy, ?_⟩
    simp [itemBPost, convItem_post]
  refine ⟨fun x hx => (hmem x hx).1, ?_, ?_⟩
  · intro x hx
    obtain ⟨y, hy, e⟩ := (hmem x hx).2
    rw [← e]; exact hwf.nonempty y hy
  · intro p q ⟨x, hx, hpx⟩ ⟨y, hy, hqy⟩ hn
    obtain ⟨x', hx', ex⟩ := (hmem x hx).2
    obtain ⟨y', hy', ey⟩ := (hmem y hy).2
    exact hwf.namesInj p q ⟨x', hx', by rw [ex]; exact hpx⟩ ⟨y', hy', by rw [ey]; exact hqy⟩ hn

/-- the price cache of the report -/
abbrev rcache (lk : PriceLookup) (tgt : String) (db : List PriceEntry) (txns : List Txn) : Cache :=
  (reportCtx lk (some tgt) db txns).cache

/-- what `balanceConv … = .ok b` unfolds to -/
theorem balanceConv_ok (st : Settings) (sel : BalRow → Bool) (db : List PriceEntry) (txns : List Txn) (tgt : String)
    (lk : PriceLookup) (hlk : lk ≠ .none) (b : Balance)
    (h : balanceConv st sel lk (some tgt) db txns = .ok b) :
    ∃ cps, convertedPosts (reportCtx lk (some tgt) db txns) txns = .ok cps ∧
      cps = (C03.itemsOf (convStream (rcache lk tgt db txns) tgt txns)).map itemBPost ∧
      AllConvert (rcache lk tgt db txns) tgt txns ∧ fromIter st sel cps = .ok b := by
  unfold balanceConv balanceOfConv at h
  obtain ⟨cps, hcps, hb⟩ := (Outcome.bind_ok _ _ _).mp h
  obtain ⟨e, hall⟩ := converted_posts _ tgt (makeCtx_in lk txns tgt db hlk) txns cps hcps
  exact ⟨cps, hcps, e, hall, hb⟩

/-- a key is posted to in the converted stream iff some posting is summed under it -/
theorem posted_conv_iff (cache : Cache) (tgt : String) (txns : List Txn) (hwf : C02.PostsWF (postsOf txns))
    (hall : AllConvert cache tgt txns) (k : AKey) :
    C02.Posted ((C03.itemsOf (convStream cache tgt txns)).map itemBPost) k ↔
      ∃ tp ∈ pairsOf txns, convKey cache tgt tp = k := by
  rw [itemsOf_convStream, List.map_map]
  unfold C02.Posted
  constructor
  · rintro ⟨x, hx, hk⟩
    obtain ⟨tp, htp, rfl⟩ := List.mem_map.mp hx
    obtain ⟨c, hc⟩ := pairs_convert cache tgt txns hall tp htp
    have hs : tp.2.amount.scale ≤ 28 := hwf.scale _ (mem_postsOf_of_pair txns tp htp)
    refine ⟨tp, htp, ?_⟩
    rw [← hk, ← (convItem_spec cache tgt tp.1 tp.2 c hc hs).2.1]; rfl
  · rintro ⟨tp, htp, hk⟩
    obtain ⟨c, hc⟩ := pairs_convert cache tgt txns hall tp htp
    have hs : tp.2.amount.scale ≤ 28 := hwf.scale _ (mem_postsOf_of_pair txns tp htp)
    refine ⟨_, List.mem_map.mpr ⟨tp, htp, rfl⟩, ?_⟩
    rw [← hk, ← (convItem_spec cache tgt tp.1 tp.2 c hc hs).2.1]; rfl

/-- **balance_conv_own_sum**: with conversion on (any lookup type, any price db), for every listed row of the
    balance report: the own sum is the exact sum of the *converted* amounts of the postings whose *converted* key
    (report commodity if a rate is applied, else the posting's own commodity; account unchanged) is the row's key
    — C02 `own_sum` on the converted stream, whose `PostsWF` is discharged from the journal's —, and unfolded with
    C07: own × 10²⁸ = Σ amount × rate over the converted postings + (Σ amount over the unconverted ones) × 10²⁸,
    the rate being that of `appliedEntry` (= the documented `RateAt`, see `applied_rateAt`).
    The tree sum is the same sum over the row's key and everything below it. -/
theorem balance_conv_own_sum (st : Settings) (sel : BalRow → Bool) (db : List PriceEntry) (txns : List Txn)
    (tgt : String) (lk : PriceLookup) (hlk : lk ≠ .none) (hwf : C02.PostsWF (postsOf txns)) (b : Balance)
    (h : balanceConv st sel lk (some tgt) db txns = .ok b) :
    ∃ cps, convertedPosts (reportCtx lk (some tgt) db txns) txns = .ok cps ∧ C02.PostsWF cps ∧
      fromIter st sel cps = .ok b ∧
      ∀ row ∈ b.rows,
        row.own.units = C02.ownSum cps row.key ∧
        row.own.units * E28 = valueSum (rcache lk tgt db txns) tgt (pairsOf txns) row.key ∧
        row.own.units * E28 = ratedSum (rcache lk tgt db txns) tgt (pairsOf txns) row.key
                                + plainSum (rcache lk tgt db txns) tgt (pairsOf txns) row.key * E28 ∧
        row.tree.units = C02.treeSum cps row.key := by
  obtain ⟨cps, hcps, e, hall, hb⟩ := balanceConv_ok st sel db txns tgt lk hlk b h
  have hwf' : C02.PostsWF cps := by rw [e]; exact converted_wf _ tgt txns hwf hall
  refine ⟨cps, hcps, hwf', hb, ?_⟩
  intro row hrow
  obtain ⟨bal, hbal, hrows⟩ := C13.fromIter_rows st sel cps b hb
  have hrow' : row ∈ bal := by rw [hrows] at hrow; exact (List.mem_filter.mp hrow).1
  have hown := C02.own_sum st cps hwf' bal hbal row hrow'
  have hval : row.own.units * E28 = valueSum (rcache lk tgt db txns) tgt (pairsOf txns) row.key := by
    rw [hown, e, ownSum_items, itemsOf_convStream]
    exact keySum_convItems _ tgt row.key (pairsOf txns) (pairs_scale txns (txnsWF_of_postsWF txns hwf))
      (pairs_convert _ tgt txns hall)
  refine ⟨hown, hval, ?_, C02.tree_sum_posts st cps hwf' bal hbal row hrow'⟩
  rw [hval, valueSum_split]

/-- **balance_conv_rows**: the rows of the converted balance are exactly the converted keys of the postings and
    their proper ancestors, each once, sorted by (commodity, account); the listed ones are those the selector
    accepts.  In particular no row is left in a source commodity whose postings were all converted. -/
theorem balance_conv_rows (st : Settings) (sel : BalRow → Bool) (db : List PriceEntry) (txns : List Txn)
    (tgt : String) (lk : PriceLookup) (hlk : lk ≠ .none) (hwf : C02.PostsWF (postsOf txns)) (b : Balance)
    (h : balanceConv st sel lk (some tgt) db txns = .ok b) :
    ∃ cps bal, convertedPosts (reportCtx lk (some tgt) db txns) txns = .ok cps ∧ balance st cps = .ok bal ∧
      b.rows = bal.filter sel ∧
      (bal.map (·.key)).Pairwise (fun x y => keyLt x y = true) ∧
      ∀ k, k ∈ bal.map (·.key) ↔
        (∃ tp ∈ pairsOf txns, convKey (rcache lk tgt db txns) tgt tp = k) ∨ C02.ProperAncestor cps k := by
  obtain ⟨cps, hcps, e, hall, hb⟩ := balanceConv_ok st sel db txns tgt lk hlk b h
  have hwf' : C02.PostsWF cps := by rw [e]; exact converted_wf _ tgt txns hwf hall
  obtain ⟨bal, hbal, hrows⟩ := C13.fromIter_rows st sel cps b hb
  obtain ⟨hs, hk⟩ := C02.rows_exact st cps hwf' bal hbal
  refine ⟨cps, bal, hcps, hbal, hrows, hs, ?_⟩
  intro k
  rw [hk k]
  have := posted_conv_iff (rcache lk tgt db txns) tgt txns hwf hall k
  rw [← e] at this
  rw [this]

/-- **applied_rateAt** (C07 `convert_value` in the vocabulary of this file): in the report's price context, for
    every posting of the report's transactions: no entry is applied to a posting without commodity or already in
    the report commodity; for any other posting the entry applied is the one the specification `RateAt` names —
    source → report commodity, greatest instant at or before the transaction's instant (txn-time) / strictly
    before the given instant (given-time) / overall (last-price) — and none is applied iff there is none. -/
theorem applied_rateAt (es : List PriceEntry) (txns : List Txn) (tgt : String) (lk : PriceLookup) (hlk : lk ≠ .none)
    (t : Txn) (ht : t ∈ txns) (p : Posting) (hp : p ∈ t.posts) :
    ((p.comm = "" ∨ p.comm = tgt) → C07.appliedEntry (rcache lk tgt (loadDb es) txns) tgt t p = none) ∧
    (p.comm ≠ "" → p.comm ≠ tgt →
      C07.RateAt (loadDb es) p.comm tgt (C07.lookupPred lk t.header.ts.ns)
        (C07.appliedEntry (rcache lk tgt (loadDb es) txns) tgt t p)) := by
  constructor
  · intro hc
    rcases hc with hc | hc
    · simp [C07.appliedEntry, hc]
    · apply C07.appliedEntry_unused
      intro hm
      exact ((C07.mem_usedCommodities txns tgt p.comm).mp hm).1 hc
  · intro h1 h2
    exact C07.appliedEntry_spec es txns tgt lk hlk t p h1
      ((C07.mem_usedCommodities txns tgt p.comm).mpr ⟨h2, t, ht, p, hp, rfl⟩)

theorem mapO_of_all {α β} (f : α → Outcome β) : ∀ (l : List α), (∀ a ∈ l, ∃ b, f a = .ok b) → ∃ bs, mapO f l = .ok bs := by
  intro l
  induction l with
  | nil => intro _; exact ⟨[], rfl⟩
  | cons a t ih =>
    intro h
    obtain ⟨b, hb⟩ := h a List.mem_cons_self
    obtain ⟨bs, hbs⟩ := ih (fun x hx => h x (List.mem_cons_of_mem _ hx))
    exact ⟨b :: bs, by simp [mapO, hb, hbs]⟩

/-- if every posting converts, the converted stream exists -/
theorem convertedPosts_of_allConvert (ctx : Ctx) (tgt : String) (hin : ctx.inCommodity = some tgt) (txns : List Txn)
    (hall : AllConvert ctx.cache tgt txns) : ∃ cps, convertedPosts ctx txns = .ok cps := by
  have h1 : ∀ t ∈ txns, ∃ cs, convertPrices ctx t = .ok cs := by
    intro t ht
    unfold convertPrices
    rw [hin]
    exact mapO_of_all _ t.posts (hall t ht)
  obtain ⟨css, hcss⟩ := mapO_of_all _ txns h1
  exact ⟨css.flatten.map toBPost, by simp [convertedPosts, convertedAll, hcss, Outcome.map]⟩

/-! ## 4. register report with conversion -/

/-- what `registerConv … = .ok es` unfolds to: the engine on `convStream` -/
theorem registerConv_ok (sel : RegRow → Bool) (db : List PriceEntry) (txns : List Txn) (tgt : String)
    (lk : PriceLookup) (hlk : lk ≠ .none) (es : List RegEntry)
    (h : registerConv sel lk (some tgt) db txns = .ok es) :
    AllConvert (rcache lk tgt db txns) tgt txns ∧
      registerEngine sel (convStream (rcache lk tgt db txns) tgt txns) = .ok es := by
  unfold registerConv at h
  obtain ⟨stream, hst, he⟩ := (Outcome.bind_ok _ _ _).mp h
  obtain ⟨e, hall⟩ := converted_stream _ tgt (makeCtx_in lk txns tgt db hlk) txns stream hst
  rw [e] at he
  exact ⟨hall, he⟩

theorem convStream_wf (cache : Cache) (tgt : String) (txns : List Txn) (hwf : C03.TxnsWF txns)
    (hall : AllConvert cache tgt txns) : C03.StreamWF (convStream cache tgt txns) := by
  intro x hx it hit
  simp only [convStream, List.mem_map] at hx
  obtain ⟨t, ht, rfl⟩ := hx
  simp only [List.mem_map] at hit
  obtain ⟨p, hp, rfl⟩ := hit
  obtain ⟨c, hc⟩ := hall t ht p hp
  exact (convItem_spec cache tgt t p c hc (hwf t ht p hp)).2.2.2

/-- the engine's pre-sort is by the *original* account key of the posting: the sorted items are `convItem` of the
    postings in `C03.sortedPosts` order (stable sort by the posting's own (commodity, account)) -/
theorem sortItems_convItems (cache : Cache) (tgt : String) (t : Txn) :
    Reg.sortItems (t.posts.map (convItem cache tgt t)) = (C03.sortedPosts t).map (convItem cache tgt t) := by
  unfold Reg.sortItems C03.sortedPosts
  exact (List.map_mergeSort (r := C03.postLe) (s := itemLe) (f := convItem cache tgt t) (l := t.posts)
    (fun a _ b _ => by simp [itemLe, C03.postLe, convItem_post])).symm

/-- the per-posting rate a register row carries, given the entry applied: only the txn-time cache reports it -/
def rateOf (x : Option PriceEntry) (timed : Bool) : Option Dec :=
  match x with
  | some e => if timed then some e.rate else none
  | none => none

theorem convItem_rate (cache : Cache) (tgt : String) (t : Txn) (p : Posting) (c : Converted)
    (h : convertPosting cache tgt t p = .ok c) :
    (convItem cache tgt t p).rate = rateOf (C07.appliedEntry cache tgt t p) (C07.isTimed cache) := by
  have hit : convItem cache tgt t p = ⟨p, c.comm, c.amount, c.rate⟩ := by simp [convItem, h]
  rw [C07.convertPosting_eq] at h
  cases ha : C07.appliedEntry cache tgt t p with
  | none => rw [ha] at h; simp at h; subst h; simp [hit, unchanged, rateOf]
  | some e =>
    rw [ha] at h
    simp only [C07.valued] at h
    obtain ⟨a, _, hcc⟩ := (Outcome.map_ok _ _ _).mp h
    subst hcc
    simp [hit, rateOf]

/-- **register_conv_running_total**: with conversion on, the register without selector has one entry per
    transaction; entry `i` lists the postings of transaction `i` in the order of their **original**
    (commodity, account) (`C03.sortedPosts`); row `j` shows the posting itself, the **converted** key
    (`convKey`: report commodity iff a rate is applied), the per-posting rate (txn-time only), and as running total
    the exact sum of the converted amounts summed under that converted key: all postings of the transactions before
    `i`, plus those of transaction `i` at in-entry positions `≤ j` — C03 `running_total_stream` on the converted
    stream, unfolded with C07. -/
theorem register_conv_running_total (db : List PriceEntry) (txns : List Txn) (tgt : String) (lk : PriceLookup)
    (hlk : lk ≠ .none) (hwf : C03.TxnsWF txns) (es : List RegEntry)
    (h : registerConv selAll lk (some tgt) db txns = .ok es) :
    es.length = txns.length ∧
    ∀ i e, es[i]? = some e → ∃ t, txns[i]? = some t ∧ e.txn = t ∧ e.rows.length = t.posts.length ∧
      ∀ j r, e.rows[j]? = some r → ∃ p, (C03.sortedPosts t)[j]? = some p ∧ r.post = p ∧
        r.key = convKey (rcache lk tgt db txns) tgt (t, p) ∧
        r.rate = rateOf (C07.appliedEntry (rcache lk tgt db txns) tgt t p) (C07.isTimed (rcache lk tgt db txns)) ∧
        r.total.units * E28 =
          valueSum (rcache lk tgt db txns) tgt (pairsOf (txns.take i)) (convKey (rcache lk tgt db txns) tgt (t, p))
          + valueSum (rcache lk tgt db txns) tgt (((C03.sortedPosts t).take (j + 1)).map (fun q => (t, q)))
              (convKey (rcache lk tgt db txns) tgt (t, p)) := by
  obtain ⟨hall, he⟩ := registerConv_ok selAll db txns tgt lk hlk es h
  generalize rcache lk tgt db txns = cache at hall he ⊢
  have hs := C03.running_total_stream (convStream cache tgt txns) es (convStream_wf cache tgt txns hwf hall) he
  refine ⟨by simpa [convStream] using hs.1, ?_⟩
  intro i e hi
  obtain ⟨t', items, hst, htx, hlen, hrows⟩ := hs.2 i e hi
  simp only [convStream, List.getElem?_map, Option.map_eq_some_iff] at hst
  obtain ⟨t, ht, hpair⟩ := hst
  injection hpair with e1 e2
  subst e1 e2
  have htm : t ∈ txns := List.mem_of_getElem? ht
  refine ⟨t, ht, htx, by simpa using hlen, ?_⟩
  intro j r hj
  obtain ⟨it, hit, hr, htot⟩ := hrows j r hj
  rw [sortItems_convItems] at hit htot
  simp only [List.getElem?_map, Option.map_eq_some_iff] at hit
  obtain ⟨p, hp, rfl⟩ := hit
  have hpm : p ∈ t.posts := (C03.sortedPosts_spec t).1.subset (List.mem_of_getElem? hp)
  obtain ⟨c, hc⟩ := hall t htm p hpm
  obtain ⟨hpost, hkey, _, _⟩ := convItem_spec cache tgt t p c hc (hwf t htm p hpm)
  refine ⟨p, hp, by rw [hr.1, hpost], ?_, by rw [hr.2.2, convItem_rate cache tgt t p c hc], ?_⟩
  · rw [← hkey]
    simp only [RegRow.key, RItem.key, hr.1, hr.2.1]
  · rw [htot, Int.add_mul, hkey]
    have e1 : (convStream cache tgt txns).take i = convStream cache tgt (txns.take i) := by
      simp [convStream, List.map_take]
    have hsub : ∀ x ∈ txns.take i, x ∈ txns := fun x hx => List.mem_of_mem_take hx
    rw [e1, itemsOf_convStream,
      keySum_convItems cache tgt _ (pairsOf (txns.take i))
        (pairs_scale _ (fun x hx => hwf x (hsub x hx)))
        (pairs_convert cache tgt _ (fun x hx => hall x (hsub x hx)))]
    congr 1
    have e2 : ((C03.sortedPosts t).map (convItem cache tgt t)).take (j + 1)
        = (((C03.sortedPosts t).take (j + 1)).map (fun q => (t, q))).map (fun tp => convItem cache tgt tp.1 tp.2) := by
      rw [← List.map_take, List.map_map]; rfl
    rw [e2]
    apply keySum_convItems
    · intro tp htp
      obtain ⟨q, hq, rfl⟩ := List.mem_map.mp htp
      exact hwf t htm q ((C03.sortedPosts_spec t).1.subset (List.mem_of_mem_take hq))
    · intro tp htp
      obtain ⟨q, hq, rfl⟩ := List.mem_map.mp htp
      exact hall t htm q ((C03.sortedPosts_spec t).1.subset (List.mem_of_mem_take hq))

/-- **register_conv_selector_only_hides**: with conversion on, too, the account selector only hides rows: hidden
    postings are converted and accumulated all the same (entry by entry the rows of the unrestricted report that
    the selector accepts) -/
theorem register_conv_selector_only_hides (sel : RegRow → Bool) (lk : PriceLookup) (rc : Option String)
    (db : List PriceEntry) (txns : List Txn) :
    registerConv sel lk rc db txns = (registerConv selAll lk rc db txns).map (fun es => es.map (C03.hide sel)) := by
  unfold registerConv
  cases convertedStream (reportCtx lk rc db txns) txns with
  | ok stream => simp only [Outcome.bind]; exact C03.selector_only_hides_stream sel stream
  | err => rfl
  | undef => rfl

/-- **register_conv_last_total**: the last running total the converted register shows for a (commodity, account)
    is the exact sum of everything converted into it — the own sum the converted balance report shows for that key
    (`balance_conv_own_sum`): the two reports agree with conversion on. -/
theorem register_conv_last_total (db : List PriceEntry) (txns : List Txn) (tgt : String) (lk : PriceLookup)
    (hlk : lk ≠ .none) (hwf : C03.TxnsWF txns) (es : List RegEntry)
    (h : registerConv selAll lk (some tgt) db txns = .ok es) (k : AKey) (r : RegRow)
    (hl : C03.lastRow k (es.flatMap (·.rows)) = some r) :
    (∃ cps, convertedPosts (reportCtx lk (some tgt) db txns) txns = .ok cps ∧ r.total.units = C02.ownSum cps k) ∧
    r.total.units * E28 = valueSum (rcache lk tgt db txns) tgt (pairsOf txns) k := by
  obtain ⟨hall, he⟩ := registerConv_ok selAll db txns tgt lk hlk es h
  have hlast := C03.last_total_stream _ es (convStream_wf _ tgt txns hwf hall) he k r hl
  constructor
  · -- the balance side sums the same items
    obtain ⟨cps, hc⟩ := convertedPosts_of_allConvert _ tgt (makeCtx_in lk txns tgt db hlk) txns hall
    obtain ⟨e, _⟩ := converted_posts _ tgt (makeCtx_in lk txns tgt db hlk) txns cps hc
    refine ⟨cps, hc, ?_⟩
    rw [hlast, e, ownSum_items]
    rfl
  · rw [hlast, itemsOf_convStream]
    exact keySum_convItems _ tgt k (pairsOf txns) (pairs_scale txns hwf) (pairs_convert _ tgt txns hall)

/-! ## 5. the metadata block shows the rates multiplied in (fixed lookups) -/

/-- the record the metadata block shows for a source commodity -/
def shownFor (records : List PriceRecord) (src : String) : Option PriceRecord :=
  records.find? (fun r => r.source == src)

/-- a price entry as the metadata block prints it -/
def recordOf (tgt : String) (e : PriceEntry) : PriceRecord := ⟨some e.ns, e.base, some e.rate, tgt⟩

/-- the price entry a reader reconstructs from the metadata block for a posting's commodity -/
def shownEntry (records : List PriceRecord) (tgt : String) (p : Posting) : Option PriceEntry :=
  match shownFor records p.comm with
  | some ⟨some ns, src, some rate, _⟩ => some ⟨ns, src, rate, tgt⟩
  | _ => none

theorem find?_eq_mapGet {β} (k : String) : ∀ (l : List (String × β)),
    l.find? (fun kv => kv.1 == k) = (mapGet l k).map (fun v => (k, v)) := by
  intro l
  induction l with
  | nil => rfl
  | cons a t ih =>
    obtain ⟨k', v⟩ := a
    simp only [List.find?_cons, mapGet]
    by_cases h : k' = k
    · subst h; simp
    · have : (k' == k) = false := by simpa using h
      simp [this, ih]

theorem mapGet_sortByKey {β} (m : List (String × β)) (h : (C07.keys m).Nodup) (k : String) :
    mapGet (sortByKey m) k = mapGet m k := by
  have hnd : (C07.keys (sortByKey m)).Nodup := by
    unfold C07.keys sortByKey
    exact ((List.mergeSort_perm m _).map _).nodup_iff.mpr h
  cases h1 : mapGet m k with
  | some v =>
    exact (C07.mem_iff_mapGet _ hnd k v).mp ((C07.mem_sortByKey m (k, v)).mpr ((C07.mem_iff_mapGet m h k v).mpr h1))
  | none =>
    cases h2 : mapGet (sortByKey m) k with
    | none => rfl
    | some v =>
      have := (C07.mem_iff_mapGet m h k v).mp ((C07.mem_sortByKey m (k, v)).mp ((C07.mem_iff_mapGet _ hnd k v).mpr h2))
      rw [h1] at this; cases this

/-- the fixed cache has no binding for the empty commodity when the price file has none -/
theorem fixedCache_empty_comm (es : List PriceEntry) (hwf : ∀ e ∈ es, e.base ≠ "") (used : List String) (tgt : String)
    (bound : Option Int) : mapGet (fixedCache used tgt bound (loadDb es)) "" = none := by
  by_cases hu : "" ∈ used
  · have hspec := C07.fixedCache_spec (loadDb es) (C07.loadDb_sorted es) used tgt bound "" hu
    cases hg : mapGet (fixedCache used tgt bound (loadDb es)) "" with
    | none => rfl
    | some c =>
      simp only [C07.fixedEntry, hg, Option.map_some] at hspec
      exact absurd hspec.2.1 (hwf _ (C07.loadDb_subset es _ hspec.1))
  · exact C07.fixedCache_unused _ _ _ _ _ hu

theorem applied_target_fixed (m : List (String × (Int × Dec))) (tgt : String) (t : Txn) (p : Posting) (e : PriceEntry)
    (h : C07.appliedEntry (.fixed m) tgt t p = some e) : e.target = tgt := by
  unfold C07.appliedEntry at h
  split at h
  · cases h
  · simp only [C07.fixedEntry, Option.map_eq_some_iff] at h
    obtain ⟨c, _, rfl⟩ := h
    rfl

/-- **metadata_matches_applied**: under the fixed lookups (`last-price`, `given-time`), in the price context of a
    report (`reportCtx`, the one context the figures are converted with *and* the metadata block is printed from):
    * for every posting of the report's transactions, the entry multiplied into it is exactly the record the
      metadata block shows for the posting's commodity (time, source, rate, report commodity) — and no record for
      that commodity means the posting is not converted;
    * every record is the entry multiplied into some posting of the report; each source commodity appears once, in
      name order.
    Hypothesis: price entries have a non-empty base commodity (price-file grammar). -/
theorem metadata_matches_applied (es : List PriceEntry) (hwf : ∀ e ∈ es, e.base ≠ "") (txns : List Txn)
    (tgt : String) (lk : PriceLookup) (hlk : lk = .lastPrice ∨ ∃ g, lk = .givenTime g) :
    (∀ (t : Txn) (p : Posting),
      (C07.appliedEntry (rcache lk tgt (loadDb es) txns) tgt t p).map (recordOf tgt)
        = shownFor (metadata (reportCtx lk (some tgt) (loadDb es) txns)) p.comm) ∧
    (∀ (t : Txn) (p : Posting),
      C07.appliedEntry (rcache lk tgt (loadDb es) txns) tgt t p
        = shownEntry (metadata (reportCtx lk (some tgt) (loadDb es) txns)) tgt p) ∧
    (∀ r ∈ metadata (reportCtx lk (some tgt) (loadDb es) txns), ∃ e, ∃ t ∈ txns, ∃ p ∈ t.posts,
      C07.appliedEntry (rcache lk tgt (loadDb es) txns) tgt t p = some e ∧ r = recordOf tgt e) ∧
    (metadata (reportCtx lk (some tgt) (loadDb es) txns)).Pairwise (fun a b => a.source < b.source) := by
  have hmt := C07.metadata_true es hwf txns tgt lk hlk
  obtain ⟨bound, hctx⟩ : ∃ bound, makeCtx lk txns (some tgt) (loadDb es) =
      ⟨.fixed (fixedCache (usedCommodities txns tgt) tgt bound (loadDb es)), some tgt⟩ := by
    rcases hlk with rfl | ⟨g, rfl⟩
    · exact ⟨none, rfl⟩
    · exact ⟨some g, rfl⟩
  have h1 : ∀ (t : Txn) (p : Posting),
      (C07.appliedEntry (rcache lk tgt (loadDb es) txns) tgt t p).map (recordOf tgt)
        = shownFor (metadata (reportCtx lk (some tgt) (loadDb es) txns)) p.comm := by
    intro t p
    simp only [rcache, reportCtx, hctx]
    generalize hm : fixedCache (usedCommodities txns tgt) tgt bound (loadDb es) = m
    have hnd : (C07.keys m).Nodup := by rw [← hm]; exact C07.fixedCache_keys_nodup _ _ _ _
    have hshown : ∀ src, shownFor (metadata ⟨.fixed m, some tgt⟩) src
        = (mapGet m src).map (fun c => (⟨some c.1, src, some c.2, tgt⟩ : PriceRecord)) := by
      intro src
      simp only [shownFor, metadata, List.find?_map]
      have : ((fun r : PriceRecord => r.source == src) ∘ fun kv : String × (Int × Dec) =>
          (⟨some kv.2.1, kv.1, some kv.2.2, tgt⟩ : PriceRecord)) = (fun kv => kv.1 == src) := rfl
      rw [this, find?_eq_mapGet, mapGet_sortByKey m hnd]
      cases mapGet m src <;> rfl
    rw [hshown]
    unfold C07.appliedEntry
    by_cases hc : p.comm = ""
    · have : mapGet m "" = none := by rw [← hm]; exact fixedCache_empty_comm es hwf _ tgt bound
      simp [hc, this]
    · simp only [hc, if_false, C07.fixedEntry]
      cases mapGet m p.comm <;> simp [recordOf]
  refine ⟨h1, ?_, ?_, hmt.2⟩
  · intro t p
    have := h1 t p
    unfold shownEntry
    rw [← this]
    cases ha : C07.appliedEntry (rcache lk tgt (loadDb es) txns) tgt t p with
    | none => rfl
    | some e =>
      -- the entry's own target: an entry of the fixed cache is into the report commodity by construction
      have htg : e.target = tgt := by
        simp only [rcache, reportCtx, hctx] at ha
        exact applied_target_fixed _ tgt t p e ha
      cases e
      simp only at htg
      subst htg
      simp [recordOf]
  · intro r hr
    obtain ⟨e, t, ht, p, hp, ha, hre⟩ := (hmt.1 r).mp hr
    exact ⟨e, t, ht, p, hp, ha, hre⟩

/-- Σ converted amount × 10²⁸ under `k`, computed from the metadata records alone -/
def shownSum (records : List PriceRecord) (tgt : String) (l : List (Txn × Posting)) (k : AKey) : Int :=
  (l.map (fun tp => if keyOf (shownEntry records tgt tp.2) tgt tp.2 = k
    then valOf (shownEntry records tgt tp.2) tp.2 else 0)).sum

/-- **shown_rates_determine_figures**: under the fixed lookups the key and the value every posting is summed with
    (`convKey`, `val28`, hence `valueSum` in `balance_conv_own_sum` / `register_conv_running_total`) are functions of
    the metadata records of the report alone -/
theorem shown_rates_determine_figures (es : List PriceEntry) (hwf : ∀ e ∈ es, e.base ≠ "") (txns : List Txn)
    (tgt : String) (lk : PriceLookup) (hlk : lk = .lastPrice ∨ ∃ g, lk = .givenTime g) :
    (∀ tp, convKey (rcache lk tgt (loadDb es) txns) tgt tp
        = keyOf (shownEntry (metadata (reportCtx lk (some tgt) (loadDb es) txns)) tgt tp.2) tgt tp.2) ∧
    (∀ tp, val28 (rcache lk tgt (loadDb es) txns) tgt tp
        = valOf (shownEntry (metadata (reportCtx lk (some tgt) (loadDb es) txns)) tgt tp.2) tp.2) ∧
    (∀ l k, valueSum (rcache lk tgt (loadDb es) txns) tgt l k
        = shownSum (metadata (reportCtx lk (some tgt) (loadDb es) txns)) tgt l k) := by
  have h2 := (metadata_matches_applied es hwf txns tgt lk hlk).2.1
  have hk : ∀ tp, convKey (rcache lk tgt (loadDb es) txns) tgt tp
        = keyOf (shownEntry (metadata (reportCtx lk (some tgt) (loadDb es) txns)) tgt tp.2) tgt tp.2 := by
    intro tp; unfold convKey; rw [h2 tp.1 tp.2]
  have hv : ∀ tp, val28 (rcache lk tgt (loadDb es) txns) tgt tp
        = valOf (shownEntry (metadata (reportCtx lk (some tgt) (loadDb es) txns)) tgt tp.2) tp.2 := by
    intro tp; unfold val28; rw [h2 tp.1 tp.2]
  refine ⟨hk, hv, ?_⟩
  intro l k
  unfold valueSum shownSum
  congr 1
  apply List.map_congr_left
  intro tp _
  rw [hk tp, hv tp]

/-- **balance_report_rates**: the balance report under a fixed lookup: its metadata block and its figures come from
    one context, and every listed own sum is Σ amount × (the rate the block shows for the posting's commodity) over
    the postings with a shown rate + Σ amount over the others, keyed by (report commodity | own commodity, account):
    the rates in the metadata block are exactly the ones multiplied in. -/
theorem balance_report_rates (st : Settings) (sel : BalRow → Bool) (es : List PriceEntry)
    (hes : ∀ e ∈ es, e.base ≠ "") (txns : List Txn) (tgt : String) (lk : PriceLookup)
    (hlk : lk = .lastPrice ∨ ∃ g, lk = .givenTime g) (hwf : C02.PostsWF (postsOf txns)) (rep : PricedBalance)
    (h : balanceReport st sel lk (some tgt) (loadDb es) txns = .ok rep) :
    rep.records = metadata (reportCtx lk (some tgt) (loadDb es) txns) ∧
    balanceConv st sel lk (some tgt) (loadDb es) txns = .ok rep.bal ∧
    ∀ row ∈ rep.bal.rows, row.own.units * E28 = shownSum rep.records tgt (pairsOf txns) row.key := by
  unfold balanceReport at h
  obtain ⟨b, hb, rfl⟩ := (Outcome.map_ok _ _ _).mp h
  refine ⟨rfl, hb, ?_⟩
  intro row hrow
  have hlk' : lk ≠ .none := by rcases hlk with rfl | ⟨g, rfl⟩ <;> simp
  obtain ⟨cps, _, _, _, hrows⟩ := balance_conv_own_sum st sel (loadDb es) txns tgt lk hlk' hwf b hb
  rw [(hrows row hrow).2.1]
  exact (shown_rates_determine_figures es hes txns tgt lk hlk).2.2 _ _

/-- the register and the balance-group reports print the metadata of the same context their figures use -/
theorem report_records (st : Settings) (bsel : BalRow → Bool) (rsel : RegRow → Bool) (g : GroupBy)
    (tz : Time.JournalTz) (lk : PriceLookup) (rc : Option String) (db : List PriceEntry) (txns : List Txn) :
    (∀ rep, registerReport rsel lk rc db txns = .ok rep →
      rep.records = metadata (reportCtx lk rc db txns) ∧ registerConv rsel lk rc db txns = .ok rep.entries) ∧
    (∀ rep, balgrpReport st bsel g tz lk rc db txns = .ok rep →
      rep.records = metadata (reportCtx lk rc db txns) ∧ balgrpConv st bsel g tz lk rc db txns = .ok rep.groups) := by
  constructor
  · intro rep h
    unfold registerReport at h
    obtain ⟨b, hb, rfl⟩ := (Outcome.map_ok _ _ _).mp h
    exact ⟨rfl, hb⟩
  · intro rep h
    unfold balgrpReport at h
    obtain ⟨b, hb, rfl⟩ := (Outcome.map_ok _ _ _).mp h
    exact ⟨rfl, hb⟩

/-! ## 6. no conversion: the reports are the unconverted ones -/

theorem mapO_total {α β} (f : α → Outcome β) (g : α → β) (hf : ∀ a, f a = .ok (g a)) :
    ∀ l : List α, mapO f l = .ok (l.map g) := by
  intro l
  induction l with
  | nil => rfl
  | cons a t ih => simp [mapO, hf a, ih]

theorem convertPrices_noconv (ctx : Ctx) (hin : ctx.inCommodity = none) (t : Txn) :
    convertPrices ctx t = .ok (t.posts.map unchanged) := by
  unfold convertPrices; rw [hin]

theorem convertedPosts_noconv (ctx : Ctx) (hin : ctx.inCommodity = none) (txns : List Txn) :
    convertedPosts ctx txns = .ok (postsOf txns) := by
  unfold convertedPosts convertedAll
  rw [mapO_total _ (fun t => t.posts.map unchanged) (convertPrices_noconv ctx hin)]
  simp only [Outcome.map, Outcome.ok.injEq]
  unfold postsOf
  induction txns with
  | nil => rfl
  | cons t ts ih =>
    simp only [List.map_cons, List.flatten_cons, List.map_append, List.flatMap_cons, ih]
    congr 1
    simp [List.map_map, Function.comp_def, toBPost, unchanged]

theorem zipItems_noconv (posts : List Posting) :
    zipItems (posts.map unchanged) posts = posts.map (fun p => (⟨p, p.comm, p.amount, none⟩ : RItem)) := by
  induction posts with
  | nil => rfl
  | cons p ps ih =>
    simp only [zipItems, List.map_cons, List.zip_cons_cons] at ih ⊢
    rw [ih]
    rfl

theorem convertedStream_noconv (ctx : Ctx) (hin : ctx.inCommodity = none) (txns : List Txn) :
    convertedStream ctx txns = .ok (plainStream txns) := by
  unfold convertedStream
  rw [mapO_total _ (fun t => (t, noConv t))]
  · rfl
  · intro t
    rw [convertPrices_noconv ctx hin]
    simp [Outcome.map, zipItems_noconv, noConv]

theorem groupBalancesConv_noconv (st : Settings) (sel : BalRow → Bool) (ctx : Ctx) (hin : ctx.inCommodity = none) :
    ∀ cs : List (String × List Txn), groupBalancesConv st sel ctx cs = groupBalances st sel cs := by
  intro cs
  induction cs with
  | nil => rfl
  | cons c rest ih =>
    obtain ⟨k, g⟩ := c
    simp only [groupBalancesConv, groupBalances, balanceOfConv, convertedPosts_noconv ctx hin, Outcome.bind, ih]
    cases fromIter st sel (postsOf g) with
    | err => rfl
    | undef => rfl
    | ok b => cases groupBalances st sel rest <;> rfl

theorem makeCtx_noconv (lk : PriceLookup) (rc : Option String) (db : List PriceEntry) (txns : List Txn)
    (h : lk = .none ∨ rc = none) : makeCtx lk txns rc db = Ctx.default := by
  rcases h with rfl | rfl
  · cases rc <;> rfl
  · rfl

/-- **no_conversion_reports**: with lookup `none` or without a report commodity the three reports are exactly the
    unconverted ones of C02 / C03 / C13 (same rows, running totals, groups, outcome), and the metadata block is empty -/
theorem no_conversion_reports (st : Settings) (bsel : BalRow → Bool) (rsel : RegRow → Bool) (g : GroupBy)
    (tz : Time.JournalTz) (lk : PriceLookup) (rc : Option String) (db : List PriceEntry) (txns : List Txn)
    (h : lk = .none ∨ rc = none) :
    balanceConv st bsel lk rc db txns = fromIter st bsel (postsOf txns) ∧
    registerConv rsel lk rc db txns = register rsel txns ∧
    balgrpConv st bsel g tz lk rc db txns = balanceGroups st bsel g tz txns ∧
    metadata (reportCtx lk rc db txns) = [] := by
  have hctx : reportCtx lk rc db txns = Ctx.default := makeCtx_noconv lk rc db txns h
  have hin : (reportCtx lk rc db txns).inCommodity = none := by rw [hctx]; rfl
  refine ⟨?_, ?_, ?_, ?_⟩
  · simp only [balanceConv, balanceOfConv, convertedPosts_noconv _ hin, Outcome.bind]
  · simp only [registerConv, convertedStream_noconv _ hin, Outcome.bind, register]
  · simp only [balgrpConv, balanceGroups, balgrpConvBy, balanceGroupsBy, groupBalancesConv_noconv st bsel _ hin]
  · rw [hctx]; rfl

/-! ## 7. balance-group report with conversion -/

/-- `groupBalancesConv` is the element-wise `Balance::from_iter` with the one context of the report -/
theorem groupBalancesConv_spec (st : Settings) (sel : BalRow → Bool) (ctx : Ctx) :
    ∀ (cs : List (String × List Txn)) (bs : List BalGroup), groupBalancesConv st sel ctx cs = .ok bs →
      C13.Forall₂ (fun kg b => b.title = kg.1 ∧ balanceOfConv st sel ctx kg.2 = .ok b.bal) cs bs := by
  intro cs
  induction cs with
  | nil => intro bs h; simp only [groupBalancesConv, Outcome.ok.injEq] at h; subst h; exact .nil
  | cons c rest ih =>
    intro bs h
    obtain ⟨k, g⟩ := c
    simp only [groupBalancesConv] at h
    split at h
    · cases h
    · cases h
    · rename_i b hb
      split at h
      · cases h
      · cases h
      · rename_i r hr
        cases h
        exact .cons ⟨rfl, hb⟩ (ih r hr)

theorem mapO_congr {α β} (f g : α → Outcome β) : ∀ (l : List α), (∀ a ∈ l, f a = g a) → mapO f l = mapO g l := by
  intro l
  induction l with
  | nil => intro _; rfl
  | cons a t ih =>
    intro h
    simp only [mapO, h a List.mem_cons_self, ih (fun x hx => h x (List.mem_cons_of_mem _ hx))]

/-- **ctx_of_subset**: the context built from *all* transactions converts a transaction of a sub-set exactly as the
    context built from that sub-set alone would: the cache entry of a commodity does not depend on which other
    commodities are in use (`RateAt` is per source commodity).  So handing every group the report's context — as
    `balance_groups` does — gives the figures a context per group would give (the metadata block, printed once,
    lists the commodities of all groups). -/
theorem ctx_of_subset (es : List PriceEntry) (txns members : List Txn) (hsub : ∀ t ∈ members, t ∈ txns)
    (tgt : String) (lk : PriceLookup) (t : Txn) (ht : t ∈ members) :
    convertPrices (reportCtx lk (some tgt) (loadDb es) txns) t
      = convertPrices (reportCtx lk (some tgt) (loadDb es) members) t := by
  by_cases hlk : lk = .none
  · subst hlk; rfl
  unfold convertPrices reportCtx
  rw [makeCtx_in lk txns tgt _ hlk, makeCtx_in lk members tgt _ hlk]
  simp only
  apply mapO_congr
  intro p hp
  rw [C07.convertPosting_eq, C07.convertPosting_eq]
  have htim : C07.isTimed (makeCtx lk txns (some tgt) (loadDb es)).cache
      = C07.isTimed (makeCtx lk members (some tgt) (loadDb es)).cache := by
    cases lk <;> simp [makeCtx, C07.isTimed, Ctx.default]
  have happ : C07.appliedEntry (makeCtx lk txns (some tgt) (loadDb es)).cache tgt t p
      = C07.appliedEntry (makeCtx lk members (some tgt) (loadDb es)).cache tgt t p := by
    have a1 := applied_rateAt es txns tgt lk hlk t (hsub t ht) p hp
    have a2 := applied_rateAt es members tgt lk hlk t ht p hp
    by_cases hc : p.comm = "" ∨ p.comm = tgt
    · exact (a1.1 hc).trans (a2.1 hc).symm
    · have h1 : p.comm ≠ "" := fun e => hc (.inl e)
      have h2 : p.comm ≠ tgt := fun e => hc (.inr e)
      exact C07.RateAt_unique (loadDb es) (C07.loadDb_sorted es) p.comm tgt _ _ _ (a1.2 h1 h2) (a2.2 h1 h2)
  rw [happ, htim]

theorem balanceOfConv_subset (st : Settings) (sel : BalRow → Bool) (es : List PriceEntry) (txns members : List Txn)
    (hsub : ∀ t ∈ members, t ∈ txns) (tgt : String) (lk : PriceLookup) :
    balanceOfConv st sel (reportCtx lk (some tgt) (loadDb es) txns) members
      = balanceConv st sel lk (some tgt) (loadDb es) members := by
  unfold balanceConv balanceOfConv convertedPosts convertedAll
  rw [mapO_congr _ _ members (fun t ht => ctx_of_subset es txns members hsub tgt lk t ht)]

/-- **balgrp_conv_figures**: with conversion on, the printed groups are the candidates (by period key, C13) that
    have a listed row, titles strictly ascending; the figures of a group are `Balance::from_iter` of its members
    converted with the report's one context — which is the converted *balance report* of the group's transactions
    (`balanceConv` of the members), so `balance_conv_own_sum`, `balance_conv_rows`, … hold for every group. -/
theorem balgrp_conv_figures (st : Settings) (sel : BalRow → Bool) (gb : GroupBy) (tz : Time.JournalTz)
    (es : List PriceEntry) (txns : List Txn) (tgt : String) (lk : PriceLookup) (gs : List BalGroup)
    (h : balgrpConv st sel gb tz lk (some tgt) (loadDb es) txns = .ok gs) :
    (gs.map (·.title)).Pairwise (· < ·) ∧
    ∀ g ∈ gs, ∃ members, (g.title, members) ∈ groupCandidates (groupKey gb tz) txns ∧
      members = txns.filter (fun t => decide (groupKey gb tz t = g.title)) ∧
      balanceOfConv st sel (reportCtx lk (some tgt) (loadDb es) txns) members = .ok g.bal ∧
      balanceConv st sel lk (some tgt) (loadDb es) members = .ok g.bal ∧ g.bal.rows ≠ [] := by
  unfold balgrpConv at h
  split at h
  case isFalse => cases h
  unfold balgrpConvBy at h
  obtain ⟨all, hall, rfl⟩ := (Outcome.map_ok _ _ _).mp h
  have hf := groupBalancesConv_spec st sel _ _ _ hall
  have hcs := C13.candidates_spec (groupKey gb tz) txns
  constructor
  · have ht : all.map (·.title) = (groupCandidates (groupKey gb tz) txns).map (·.1) :=
      C13.forall₂_titles (fun _ _ hr => hr.1) hf
    have hs : (all.map (·.title)).Pairwise (· < ·) := by rw [ht]; exact hcs.strict
    exact hs.sublist (List.filter_sublist.map _)
  · intro g hg
    obtain ⟨hga, hne⟩ := List.mem_filter.mp hg
    obtain ⟨kg, hkg, ht, hb⟩ := C13.forall₂_mem_right hf g hga
    have hmem : kg.2 = txns.filter (fun t => decide (groupKey gb tz t = g.title)) := by rw [ht]; exact hcs.filter kg hkg
    refine ⟨kg.2, by rw [ht]; exact hkg, hmem, hb, ?_, ?_⟩
    · rw [← balanceOfConv_subset st sel es txns kg.2 _ tgt lk]
      · exact hb
      · intro t htm; rw [hmem] at htm; exact (List.mem_filter.mp htm).1
    · simpa [BalGroup.isEmpty] using hne

/-! ## 8. the reports do not depend on the order of the price file -/

/-- corollary of C07 `db_order_free`: for price files with distinct (instant, base, target) keys, the three reports
    (figures and metadata block) are the same for every order of the entries -/
theorem reports_order_free (es es' : List PriceEntry) (hp : es.Perm es') (hd : C07.DistinctKeys es)
    (st : Settings) (bsel : BalRow → Bool) (rsel : RegRow → Bool) (g : GroupBy) (tz : Time.JournalTz)
    (lk : PriceLookup) (rc : Option String) (txns : List Txn) :
    balanceReport st bsel lk rc (loadDb es) txns = balanceReport st bsel lk rc (loadDb es') txns ∧
    registerReport rsel lk rc (loadDb es) txns = registerReport rsel lk rc (loadDb es') txns ∧
    balgrpReport st bsel g tz lk rc (loadDb es) txns = balgrpReport st bsel g tz lk rc (loadDb es') txns := by
  rw [C07.db_order_free es es' hp hd]
  exact ⟨rfl, rfl, rfl⟩

/-! ## 9. non-vacuity: a concrete journal and price file through the three reports

C07's example price file and transactions, plus a transaction `t3` at instant 30 that posts to account `a` both in
USD (converted) and in EUR (the report commodity): the two postings have *different original keys* but the *same
converted key* `(EUR, a)` — the case NOTE-1 of `register_engine` is about. -/
namespace Ex
open C07.Ex

def st0 : Settings := Settings.ofConfig false false true [] [] []
def t3 : Txn := ⟨hdr 30, [post "a" 2 "USD", post "a" 5 "EUR", post "b" (-13) "EUR"]⟩
def txns4 : List Txn := [t0, t1, t2, t3]

theorem used4 : usedCommodities txns4 "EUR" = ["", "ACME", "USD"] := by
  simp [usedCommodities, txns4, t0, t1, t2, t3, post, btreeSet, List.mergeSort, List.eraseDups]
  decide

/-! ### balance report, last-price: every USD posting × 4 (the entry at 30), whatever its instant -/

theorem cache_last : fixedCache ["", "ACME", "USD"] "EUR" none db = [("USD", (30, d 4))] := by decide

theorem ctx_last : reportCtx .lastPrice (some "EUR") (loadDb file) txns4 = ⟨.fixed [("USD", (30, d 4))], some "EUR"⟩ := by
  simp only [reportCtx, makeCtx, load_file, used4, cache_last]

def cps4 : List BPost := [⟨["a"], "EUR", d 4⟩, ⟨["b"], "EUR", d (-4)⟩, ⟨["a"], "EUR", d 40⟩, ⟨["b"], "EUR", d (-40)⟩,
  ⟨["c"], "EUR", d 5⟩, ⟨["e"], "ACME", d 1⟩, ⟨["f"], "", d 1⟩, ⟨["a"], "EUR", d 8⟩, ⟨["a"], "EUR", d 5⟩, ⟨["b"], "EUR", d (-13)⟩]

theorem conv_last : convertedPosts ⟨.fixed [("USD", (30, d 4))], some "EUR"⟩ txns4 = .ok cps4 := by decide

def sorted4 : List BPost := [⟨["f"], "", d 1⟩, ⟨["e"], "ACME", d 1⟩, ⟨["a"], "EUR", d 4⟩, ⟨["a"], "EUR", d 40⟩,
  ⟨["a"], "EUR", d 8⟩, ⟨["a"], "EUR", d 5⟩, ⟨["b"], "EUR", d (-4)⟩, ⟨["b"], "EUR", d (-40)⟩, ⟨["b"], "EUR", d (-13)⟩,
  ⟨["c"], "EUR", d 5⟩]

theorem sort4 : cps4.mergeSort (fun a b => keyLe a.key b.key) = sorted4 := by
  simp [cps4, sorted4, List.mergeSort, keyLe, BPost.key, acctName]

def sums4 : List (AKey × Dec) := [(("", ["f"]), d 1), (("ACME", ["e"]), d 1), (("EUR", ["a"]), d 57),
  (("EUR", ["b"]), d (-57)), (("EUR", ["c"]), d 5)]
def rows4 : List BalRow := [⟨["f"], "", d 1, d 1⟩, ⟨["e"], "ACME", d 1, d 1⟩, ⟨["a"], "EUR", d 57, d 57⟩,
  ⟨["b"], "EUR", d (-57), d (-57)⟩, ⟨["c"], "EUR", d 5, d 5⟩]

theorem sums_ok : accountSums cps4 = some sums4 := by
  unfold accountSums; rw [sort4]; decide
theorem complete_ok : completeTree st0 sums4 = .ok sums4 := by decide
theorem walk_ok : flattenOpt ((sums4.filter (fun s => s.1.2.length == 1)).map
    (treeNodes sums4 (maxDepth sums4 + 1))) = some rows4 := by decide
theorem rows_sorted4 : rows4.mergeSort (fun a b => keyLe a.key b.key) = rows4 := List.mergeSort_of_pairwise (by decide)
theorem balance_ok : balance st0 cps4 = .ok rows4 := by
  unfold balance
  rw [sums_ok]; simp only
  rw [complete_ok]; simp only
  rw [walk_ok]; simp only
  rw [rows_sorted4]

theorem meta_last : metadata ⟨.fixed [("USD", (30, d 4))], some "EUR"⟩ = [⟨some 30, "USD", some (d 4), "EUR"⟩] := by
  simp [metadata, sortByKey]

/-- the balance report: `a` = 1×4 + 10×4 + 2×4 + 5 = 57 EUR; ACME (only a chain to EUR) and the empty commodity stay;
    the metadata block shows the one rate multiplied in -/
theorem ex_balance_report : balanceReport st0 (fun _ => true) .lastPrice (some "EUR") (loadDb file) txns4 = .ok
    ⟨[⟨some 30, "USD", some (d 4), "EUR"⟩], ⟨rows4, [("", d 1), ("ACME", d 1), ("EUR", d 5)]⟩⟩ := by
  unfold balanceReport balanceConv balanceOfConv
  rw [ctx_last, conv_last]
  simp only [Outcome.bind, fromIter, balance_ok, meta_last]
  decide

/-- the hypotheses of `balance_conv_own_sum` / `balance_report_rates` are satisfiable -/
theorem ex_postsWF : C02.PostsWF (postsOf txns4) := by
  refine ⟨by decide, by decide, C02.namesInj_of_good _ ?_⟩
  intro x hx c hc
  have : ∀ x ∈ postsOf txns4, ∀ c ∈ x.acct, c ≠ "" ∧ ':' ∉ c.toList := by decide
  exact this x hx c hc

example : ∀ e ∈ file, e.base ≠ "" := by decide

/-- `balance_report_rates` applied: own sum of `a` × 10²⁸ is the sum computed from the metadata records -/
example : (d 57).units * E28 = shownSum [⟨some 30, "USD", some (d 4), "EUR"⟩] "EUR" (pairsOf txns4) ("EUR", ["a"]) :=
  (balance_report_rates st0 (fun _ => true) file (by decide) txns4 "EUR" .lastPrice (Or.inl rfl) ex_postsWF _
    ex_balance_report).2.2 ⟨["a"], "EUR", d 57, d 57⟩ (by simp [rows4])

/-! ### register report, txn-time: rate at or before the transaction's instant; pre-sort by the original key -/

theorem cache_timed : timedCache ["", "ACME", "USD"] "EUR" db
    = [("USD", [⟨10, "USD", d 2, "EUR"⟩, ⟨20, "USD", d 3, "EUR"⟩, ⟨30, "USD", d 4, "EUR"⟩])] := by
  simp [timedCache, commCache, db, List.mergeSort, mapInsert]

def tc : Cache := .timed [("USD", [⟨10, "USD", d 2, "EUR"⟩, ⟨20, "USD", d 3, "EUR"⟩, ⟨30, "USD", d 4, "EUR"⟩])]

theorem ctx_timed : reportCtx .txnTime (some "EUR") (loadDb file) txns4 = ⟨tc, some "EUR"⟩ := by
  simp only [reportCtx, makeCtx, load_file, used4, cache_timed, tc]

def stream4 : List (Txn × List RItem) := [
  (t0, [⟨post "a" 1 "USD", "USD", d 1, none⟩, ⟨post "b" (-1) "USD", "USD", d (-1), none⟩]),
  (t1, [⟨post "a" 10 "USD", "EUR", d 30, some (d 3)⟩, ⟨post "b" (-10) "USD", "EUR", d (-30), some (d 3)⟩]),
  (t2, [⟨post "c" 5 "EUR", "EUR", d 5, none⟩, ⟨post "e" 1 "ACME", "ACME", d 1, none⟩, ⟨post "f" 1 "", "", d 1, none⟩]),
  (t3, [⟨post "a" 2 "USD", "EUR", d 8, some (d 4)⟩, ⟨post "a" 5 "EUR", "EUR", d 5, none⟩,
        ⟨post "b" (-13) "EUR", "EUR", d (-13), none⟩])]

/-- t0 (instant 9) is before the first USD rate (10): unchanged; t1 (20) uses the entry *at* 20; t3 (30) the one at 30 -/
theorem stream_timed : convertedStream ⟨tc, some "EUR"⟩ txns4 = .ok stream4 := by decide

def rrow (a : String) (n : Int) (c : String) (tot : Int) (tcm : String) (r : Option Dec) : RegRow :=
  ⟨post a n c, d tot, tcm, r⟩

/-- entry of `t3`: the EUR posting to `a` (original key `(EUR, a)`) is accumulated and listed *before* the USD posting
    (original key `(USD, a)`), although both are summed under `(EUR, a)`: 30 + 5 = 35, then 35 + 8 = 43 -/
theorem ex_register_engine : registerEngine selAll stream4 = .ok [
    ⟨t0, [rrow "a" 1 "USD" 1 "USD" none, rrow "b" (-1) "USD" (-1) "USD" none]⟩,
    ⟨t1, [rrow "a" 10 "USD" 30 "EUR" (some (d 3)), rrow "b" (-10) "USD" (-30) "EUR" (some (d 3))]⟩,
    ⟨t2, [rrow "f" 1 "" 1 "" none, rrow "e" 1 "ACME" 1 "ACME" none, rrow "c" 5 "EUR" 5 "EUR" none]⟩,
    ⟨t3, [rrow "a" 5 "EUR" 35 "EUR" none, rrow "b" (-13) "EUR" (-43) "EUR" none,
          rrow "a" 2 "USD" 43 "EUR" (some (d 4))]⟩] := by
  simp [registerEngine, stream4, registerLoop, registerTxn, accPostings, accPosting,
    List.mergeSort, List.MergeSort.Internal.splitInTwo, itemLe, rowLe, Posting.acctnKey, keyLe, acctName,
    t0, t1, t2, t3, post, rrow, d, RegMap.set, RegMap.empty, RItem.key, Outcome.ofOption, Dec.add, Dec.ofInt,
    Dec.isZero, sgn, max96]

theorem ex_register_report : (registerReport selAll .txnTime (some "EUR") (loadDb file) txns4).map (·.records)
    = .ok [⟨none, "USD", none, "EUR"⟩] := by
  unfold registerReport registerConv
  rw [ctx_timed, stream_timed]
  simp only [Outcome.bind, ex_register_engine, Outcome.map]
  simp [metadata, sortByKey, tc]

example : C03.TxnsWF txns4 := txnsWF_of_postsWF txns4 ex_postsWF

end Ex

end C07b
end Tackler

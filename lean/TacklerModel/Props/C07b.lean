import TacklerModel.Model.PricedReports
import TacklerModel.Props.C07
import TacklerModel.Props.C02
import TacklerModel.Props.C03
import TacklerModel.Props.C13
/-!
# C07b — price conversion at report level (C07 × C02 / C03 / C13)

`Model/PricedReports.lean` plugs `convert_prices` into the balance, register and balance-group kernels the way
the three reporters do (one price context per report, built from all transactions of the report).
This file instantiates the kernel theorems of C02 / C03 / C13 with the converted stream and unfolds the
converted figures with C07's `convert_value`.

Vocabulary (all in terms of C07's `appliedEntry`, the price entry `convert_prices_inner` applies to a posting,
which `applied_rateAt` identifies with the documented rate `RateAt`):
* `convKey cache tgt (t, p)`  – the (commodity, account) under which posting `p` is summed: `(tgt, account)` when a
  rate is applied, the posting's own key otherwise;
* `val28 cache tgt (t, p)`    – the converted amount × 10²⁸ in units: `amount.units × rate.units` when a rate is
  applied (`Dec.units` counts 10⁻²⁸), `amount.units × 10²⁸` otherwise;
* `valueSum … l k`            – Σ of `val28` over the (transaction, posting) pairs of `l` whose `convKey` is `k`;
  `valueSum_split`: = `ratedSum` (Σ amount × rate over the converted postings) + `plainSum` × 10²⁸ (Σ amount over
  the unconverted ones).
-/
namespace Tackler
namespace C07b
open Tackler.Price Tackler.Priced

/-! ## 1. the converted stream, posting by posting -/

/-- (transaction, posting) pairs in stream order -/
def pairsOf (txns : List Txn) : List (Txn × Posting) := txns.flatMap (fun t => t.posts.map (fun p => (t, p)))

/-- the item `register_engine` builds for posting `p` of `t` (total function; meaningful where
    `convertPosting` is `.ok`) -/
def convItem (cache : Cache) (tgt : String) (t : Txn) (p : Posting) : RItem :=
  match convertPosting cache tgt t p with
  | .ok c => ⟨p, c.comm, c.amount, c.rate⟩
  | .err => ⟨p, p.comm, p.amount, none⟩
  | .undef => ⟨p, p.comm, p.amount, none⟩

/-- what the balance kernel reads of an item: account of the posting, converted commodity and amount -/
def itemBPost (it : RItem) : BPost := ⟨it.post.acct, it.comm, it.amount⟩

theorem itemBPost_key (it : RItem) : (itemBPost it).key = it.key := rfl

/-- conversion keeps the account -/
theorem convertPosting_acct (cache : Cache) (tgt : String) (t : Txn) (p : Posting) (c : Converted)
    (h : convertPosting cache tgt t p = .ok c) : c.acct = p.acct := by
  rw [C07.convertPosting_eq] at h
  cases ha : C07.appliedEntry cache tgt t p with
  | none => rw [ha] at h; simp at h; subst h; rfl
  | some e =>
    rw [ha] at h
    exact (C07.convert_value_units _ tgt p e c h).2.2

theorem toBPost_eq (cache : Cache) (tgt : String) (t : Txn) (p : Posting) (c : Converted)
    (h : convertPosting cache tgt t p = .ok c) : toBPost c = itemBPost (convItem cache tgt t p) := by
  simp only [convItem, h, itemBPost, toBPost, convertPosting_acct cache tgt t p c h]

/-- `mapO` of an everywhere-`.ok` function is `map` -/
theorem mapO_eq_map {α β} (f : α → Outcome β) (g : α → β) : ∀ (l : List α) (bs : List β),
    (∀ a b, f a = .ok b → b = g a) → mapO f l = .ok bs → bs = l.map g ∧ ∀ a ∈ l, ∃ b, f a = .ok b := by
  intro l
  induction l with
  | nil => intro bs _ h; simp [mapO] at h; subst h; simp
  | cons a t ih =>
    intro bs hg h
    simp only [mapO] at h
    split at h
    · rename_i b hfa
      split at h
      · rename_i bs' hm
        cases h
        obtain ⟨e, hall⟩ := ih bs' hg hm
        refine ⟨by rw [e, hg a b hfa]; rfl, ?_⟩
        intro x hx
        rcases List.mem_cons.mp hx with rfl | hx'
        · exact ⟨b, hfa⟩
        · exact hall x hx'
      · cases h
      · cases h
    · cases h
    · cases h

/-- one transaction: the items of `convert_prices(txn)` are `convItem` of the postings, and every posting converts -/
theorem convertPrices_items (ctx : Ctx) (tgt : String) (hin : ctx.inCommodity = some tgt) (t : Txn)
    (cs : List Converted) (h : convertPrices ctx t = .ok cs) :
    zipItems cs t.posts = t.posts.map (convItem ctx.cache tgt t) ∧
    cs.map toBPost = t.posts.map (fun p => itemBPost (convItem ctx.cache tgt t p)) ∧
    ∀ p ∈ t.posts, ∃ c, convertPosting ctx.cache tgt t p = .ok c := by
  unfold convertPrices at h
  rw [hin] at h
  simp only at h
  have key : ∀ (posts : List Posting) (cs : List Converted), mapO (convertPosting ctx.cache tgt t) posts = .ok cs →
      zipItems cs posts = posts.map (convItem ctx.cache tgt t) ∧
      cs.map toBPost = posts.map (fun p => itemBPost (convItem ctx.cache tgt t p)) ∧
      ∀ p ∈ posts, ∃ c, convertPosting ctx.cache tgt t p = .ok c := by
    intro posts
    induction posts with
    | nil => intro cs h; simp [mapO] at h; subst h; simp [zipItems]
    | cons p ps ih =>
      intro cs h
      simp only [mapO] at h
      split at h
      · rename_i c hc
        split at h
        · rename_i cs' hm
          cases h
          obtain ⟨e1, e2, e3⟩ := ih cs' hm
          refine ⟨?_, ?_, ?_⟩
          · simp only [zipItems, List.zip_cons_cons, List.map_cons] at e1 ⊢
            rw [e1]
            simp [convItem, hc]
          · simp only [List.map_cons, e2, toBPost_eq _ _ _ _ _ hc]
          · intro q hq
            rcases List.mem_cons.mp hq with rfl | hq'
            · exact ⟨c, hc⟩
            · exact e3 q hq'
        · cases h
        · cases h
      · cases h
      · cases h
  exact key t.posts cs h

/-- the stream of the register engine with conversion on -/
def convStream (cache : Cache) (tgt : String) (txns : List Txn) : List (Txn × List RItem) :=
  txns.map (fun t => (t, t.posts.map (convItem cache tgt t)))

/-- every posting of the set converts inside the exact domain -/
def AllConvert (cache : Cache) (tgt : String) (txns : List Txn) : Prop :=
  ∀ t ∈ txns, ∀ p ∈ t.posts, ∃ c, convertPosting cache tgt t p = .ok c

/-- **converted_stream**: with conversion on, the stream `register_engine` walks is, per transaction, `convItem` of
    its postings in written order -/
theorem converted_stream (ctx : Ctx) (tgt : String) (hin : ctx.inCommodity = some tgt) :
    ∀ (txns : List Txn) (stream : List (Txn × List RItem)), convertedStream ctx txns = .ok stream →
      stream = convStream ctx.cache tgt txns ∧ AllConvert ctx.cache tgt txns := by
  intro txns
  induction txns with
  | nil => intro stream h; simp [convertedStream, mapO] at h; subst h; exact ⟨rfl, by intro t ht; cases ht⟩
  | cons t ts ih =>
    intro stream h
    simp only [convertedStream, mapO] at h
    split at h
    · rename_i x hx
      obtain ⟨cs, hcs, rfl⟩ := (Outcome.map_ok _ _ _).mp hx
      split at h
      · rename_i rest hrest
        cases h
        obtain ⟨e, hall⟩ := ih rest hrest
        obtain ⟨e1, _, e3⟩ := convertPrices_items ctx tgt hin t cs hcs
        refine ⟨by simp [convStream, e1, e] , ?_⟩
        intro t' ht'
        rcases List.mem_cons.mp ht' with rfl | ht''
        · exact e3
        · exact hall t' ht''
      · cases h
      · cases h
    · cases h
    · cases h

/-- **converted_posts**: with conversion on, the posting stream `Balance::balance` sums is the same items, read as
    (account, converted commodity, converted amount) -/
theorem converted_posts (ctx : Ctx) (tgt : String) (hin : ctx.inCommodity = some tgt) :
    ∀ (txns : List Txn) (cps : List BPost), convertedPosts ctx txns = .ok cps →
      cps = (C03.itemsOf (convStream ctx.cache tgt txns)).map itemBPost ∧ AllConvert ctx.cache tgt txns := by
  intro txns cps h
  unfold convertedPosts convertedAll at h
  obtain ⟨cs, hcs, rfl⟩ := (Outcome.map_ok _ _ _).mp h
  obtain ⟨css, hcss, rfl⟩ := (Outcome.map_ok _ _ _).mp hcs
  clear h hcs
  induction txns generalizing css with
  | nil => simp [mapO] at hcss; subst hcss; exact ⟨rfl, by intro t ht; cases ht⟩
  | cons t ts ih =>
    simp only [mapO] at hcss
    split at hcss
    · rename_i cs hcs
      split at hcss
      · rename_i rest hrest
        cases hcss
        obtain ⟨e, hall⟩ := ih rest hrest
        obtain ⟨_, e2, e3⟩ := convertPrices_items ctx tgt hin t cs hcs
        refine ⟨?_, ?_⟩
        · simp only [List.flatten_cons, List.map_append, e, e2, convStream, List.map_cons, C03.itemsOf_cons]
          simp [List.map_map, Function.comp_def]
        · intro t' ht'
          rcases List.mem_cons.mp ht' with rfl | ht''
          · exact e3
          · exact hall t' ht''
      · cases hcss
      · cases hcss
    · cases hcss
    · cases hcss

/-! ## 2. converted figures in terms of the applied rates -/

/-- 10²⁸: `Dec.units` counts units of 10⁻²⁸ -/
def E28 : Int := (10:Int)^28

/-- the key a posting is summed under, given the entry applied to it -/
def keyOf (x : Option PriceEntry) (tgt : String) (p : Posting) : AKey :=
  match x with
  | some _ => (tgt, p.acct)
  | none => (p.comm, p.acct)

/-- the converted amount × 10²⁸ (units), given the entry applied -/
def valOf (x : Option PriceEntry) (p : Posting) : Int :=
  match x with
  | some e => p.amount.units * e.rate.units
  | none => p.amount.units * E28

/-- amount × rate if converted and summed under `k` -/
def ratedOf (x : Option PriceEntry) (tgt : String) (p : Posting) (k : AKey) : Int :=
  match x with
  | some e => if (tgt, p.acct) = k then p.amount.units * e.rate.units else 0
  | none => 0

/-- amount if not converted and summed under `k` -/
def plainOf (x : Option PriceEntry) (p : Posting) (k : AKey) : Int :=
  match x with
  | some _ => 0
  | none => if p.acctnKey = k then p.amount.units else 0

/-- the (commodity, account) under which a posting is summed -/
def convKey (cache : Cache) (tgt : String) (tp : Txn × Posting) : AKey :=
  keyOf (C07.appliedEntry cache tgt tp.1 tp.2) tgt tp.2

/-- the converted amount × 10²⁸, in units -/
def val28 (cache : Cache) (tgt : String) (tp : Txn × Posting) : Int :=
  valOf (C07.appliedEntry cache tgt tp.1 tp.2) tp.2

/-- Σ converted amount × 10²⁸ over the pairs summed under `k` -/
def valueSum (cache : Cache) (tgt : String) (l : List (Txn × Posting)) (k : AKey) : Int :=
  (l.map (fun tp => if convKey cache tgt tp = k then val28 cache tgt tp else 0)).sum

/-- Σ amount × rate (units × units) over the converted postings summed under `k` -/
def ratedSum (cache : Cache) (tgt : String) (l : List (Txn × Posting)) (k : AKey) : Int :=
  (l.map (fun tp => ratedOf (C07.appliedEntry cache tgt tp.1 tp.2) tgt tp.2 k)).sum

/-- Σ amount (units) over the unconverted postings summed under `k` -/
def plainSum (cache : Cache) (tgt : String) (l : List (Txn × Posting)) (k : AKey) : Int :=
  (l.map (fun tp => plainOf (C07.appliedEntry cache tgt tp.1 tp.2) tp.2 k)).sum

theorem sum_map_split {α} (f g h : α → Int) (E : Int) (l : List α) (hp : ∀ a, f a = g a + h a * E) :
    (l.map f).sum = (l.map g).sum + (l.map h).sum * E := by
  induction l with
  | nil => simp
  | cons a t ih => simp only [List.map_cons, List.sum_cons, ih, hp a, Int.add_mul]; omega

theorem split_pt (x : Option PriceEntry) (tgt : String) (p : Posting) (k : AKey) :
    (if keyOf x tgt p = k then valOf x p else 0) = ratedOf x tgt p k + plainOf x p k * E28 := by
  cases x with
  | none =>
    simp only [keyOf, valOf, ratedOf, plainOf, Posting.acctnKey]
    by_cases hk : (p.comm, p.acct) = k <;> simp [hk]
  | some e =>
    simp only [keyOf, valOf, ratedOf, plainOf]
    by_cases hk : (tgt, p.acct) = k <;> simp [hk]

/-- **valueSum_split**: Σ converted amounts = Σ amount × rate over the converted postings + Σ amount over the
    unconverted ones -/
theorem valueSum_split (cache : Cache) (tgt : String) (l : List (Txn × Posting)) (k : AKey) :
    valueSum cache tgt l k = ratedSum cache tgt l k + plainSum cache tgt l k * E28 := by
  unfold valueSum ratedSum plainSum
  apply sum_map_split
  intro tp
  exact split_pt _ tgt tp.2 k

theorem valueSum_append (cache : Cache) (tgt : String) (l₁ l₂ : List (Txn × Posting)) (k : AKey) :
    valueSum cache tgt (l₁ ++ l₂) k = valueSum cache tgt l₁ k + valueSum cache tgt l₂ k := by
  simp [valueSum]

/-- what `convItem` is, in terms of the entry applied (C07 `convertPosting_eq`, `convert_value_units`) -/
theorem convItem_spec (cache : Cache) (tgt : String) (t : Txn) (p : Posting) (c : Converted)
    (h : convertPosting cache tgt t p = .ok c) (hs : p.amount.scale ≤ 28) :
    (convItem cache tgt t p).post = p ∧
    (convItem cache tgt t p).key = convKey cache tgt (t, p) ∧
    (convItem cache tgt t p).amount.units * E28 = val28 cache tgt (t, p) ∧
    (convItem cache tgt t p).amount.scale ≤ 28 := by
  have hpost : (convItem cache tgt t p).post = p := by
    unfold convItem; split <;> rfl
  refine ⟨hpost, ?_⟩
  have hit : convItem cache tgt t p = ⟨p, c.comm, c.amount, c.rate⟩ := by simp [convItem, h]
  rw [C07.convertPosting_eq] at h
  unfold convKey val28
  cases ha : C07.appliedEntry cache tgt t p with
  | none =>
    rw [ha] at h
    simp at h; subst h
    simp [hit, RItem.key, unchanged, hs, keyOf, valOf]
  | some e =>
    rw [ha] at h
    simp only at h
    have hu := C07.convert_value_units _ tgt p e c h
    unfold C07.valued at h
    obtain ⟨a, hao, hcc⟩ := (Outcome.map_ok _ _ _).mp h
    cases hmul : Dec.mul p.amount e.rate with
    | none => simp [hmul, Outcome.ofOption] at hao
    | some a' =>
      simp [hmul, Outcome.ofOption] at hao
      subst hao
      have hsc := (Dec.mul_units _ _ _ hmul).2
      subst hcc
      rw [hit]
      exact ⟨rfl, by simpa [E28, valOf] using hu.1, hsc⟩

/-- Σ of the items' amounts under a key, ×10²⁸ = `valueSum` of the postings they come from -/
theorem keySum_convItems (cache : Cache) (tgt : String) (k : AKey) : ∀ (l : List (Txn × Posting)),
    (∀ tp ∈ l, tp.2.amount.scale ≤ 28) → (∀ tp ∈ l, ∃ c, convertPosting cache tgt tp.1 tp.2 = .ok c) →
    Reg.keySum k (l.map (fun tp => convItem cache tgt tp.1 tp.2)) * E28 = valueSum cache tgt l k := by
  intro l
  induction l with
  | nil => intro _ _; simp [valueSum]
  | cons tp t ih =>
    intro hsc hok
    obtain ⟨c, hc⟩ := hok tp List.mem_cons_self
    have hs := hsc tp List.mem_cons_self
    obtain ⟨_, hk, hv, _⟩ := convItem_spec cache tgt tp.1 tp.2 c hc hs
    rw [List.map_cons, Reg.keySum_cons, Int.add_mul,
      ih (fun x hx => hsc x (List.mem_cons_of_mem _ hx)) (fun x hx => hok x (List.mem_cons_of_mem _ hx))]
    simp only [valueSum, List.map_cons, List.sum_cons]
    rw [hk]
    by_cases hkk : convKey cache tgt (tp.1, tp.2) = k
    · simp only [hkk, if_true]; rw [hv]
    · simp only [hkk, if_false]; omega

/-- C02's `ownSum` of the balance view of items is the register's `keySum` -/
theorem ownSum_items (k : AKey) (items : List RItem) : C02.ownSum (items.map itemBPost) k = Reg.keySum k items := by
  unfold C02.ownSum
  induction items with
  | nil => rfl
  | cons it t ih =>
    rw [List.map_cons, Reg.keySum_cons, ← ih]
    have hk : (itemBPost it).key = it.key := rfl
    have ha : (itemBPost it).amount = it.amount := rfl
    by_cases h : it.key = k
    · simp [hk, ha, h]
    · simp [hk, h]

theorem itemsOf_convStream (cache : Cache) (tgt : String) (txns : List Txn) :
    C03.itemsOf (convStream cache tgt txns) = (pairsOf txns).map (fun tp => convItem cache tgt tp.1 tp.2) := by
  induction txns with
  | nil => rfl
  | cons t ts ih =>
    have : convStream cache tgt (t :: ts) = (t, t.posts.map (convItem cache tgt t)) :: convStream cache tgt ts := rfl
    rw [this, C03.itemsOf_cons, ih]
    simp [pairsOf, List.map_map, Function.comp_def]

theorem mem_pairsOf (txns : List Txn) (tp : Txn × Posting) : tp ∈ pairsOf txns ↔ tp.1 ∈ txns ∧ tp.2 ∈ tp.1.posts := by
  obtain ⟨t, p⟩ := tp
  simp only [pairsOf, List.mem_flatMap, List.mem_map, Prod.mk.injEq]
  constructor
  · rintro ⟨t', ht', p', hp', rfl, rfl⟩; exact ⟨ht', hp'⟩
  · rintro ⟨ht, hp⟩; exact ⟨t, ht, p, hp, rfl, rfl⟩

/-- the representation invariant on transactions (`C03.TxnsWF`) in terms of pairs -/
theorem pairs_scale (txns : List Txn) (h : C03.TxnsWF txns) : ∀ tp ∈ pairsOf txns, tp.2.amount.scale ≤ 28 := by
  intro tp htp
  obtain ⟨ht, hp⟩ := (mem_pairsOf txns tp).mp htp
  exact h tp.1 ht tp.2 hp

theorem pairs_convert (cache : Cache) (tgt : String) (txns : List Txn) (h : AllConvert cache tgt txns) :
    ∀ tp ∈ pairsOf txns, ∃ c, convertPosting cache tgt tp.1 tp.2 = .ok c := by
  intro tp htp
  obtain ⟨ht, hp⟩ := (mem_pairsOf txns tp).mp htp
  exact h tp.1 ht tp.2 hp

end C07b
end Tackler

import TacklerModel.Model.Select
/-!
# C08 — git storage loads exactly the selected commit's journal files

Statement (properties.jsonl): loading from git storage yields exactly the transactions in files of the selected
commit that lie under the configured directory and carry the configured file extension — the same set that
filesystem storage yields on a checkout of that commit; unaffected by files elsewhere in the tree (incl. near-miss
names), by other branches, tags or later commits, by the work tree or index; a reference and the commit id it
resolves to load the same data; the commit id in the metadata is the one used.

What is proved here, about `Model/Select.lean` (the transliteration of `git_to_txns` *after fix F5* and of
`get_paths_by_ext`), for all trees, directory and extension settings, parsers and settings states:

* `extension_spec`, `select_spec`, `select_ok_iff`, `select_sublist` — what is selected: (executable) blobs, `dir` a
  prefix by whole path components, real extension = `ext`; the load is refused iff the tree has a symbolic link;
* `load_is_parse` — the load is the sorted concatenation of the parses of the selected blobs (so C04 applies);
* `unaffected`, `unaffected_selection`, `elsewhere_irrelevant` — entries not under `dir` with extension `ext` do not
  matter; `dir_trailing_slash`;
* `git_eq_fs`, `git_eq_fs_missing`, `fs_defined` — equality with filesystem storage on a checkout;
* `meta_commit_is_loaded`, `refShown_spec` — metadata; `normSuffix_dot`, `normSuffix_plain` — `.txn` ≙ `txn`;
* `repo_state_irrelevant_partial`, `ref_and_id_same_data_partial` — the parts that rest on `gix` (object store,
  reference resolution, tag peeling, isolation from index and work tree) are hypotheses here and are covered by
  the tie and the oracle (generated repositories) only;
* `witness_F5_before` / `witness_F5_after` / `witness_F5_fs` — finding F5 and its repair, by `decide`.

Symbolic links.  `git_to_txns` fails on a `Link` entry anywhere in the tree ("Links inside repository are not
supported"); this deliberate behaviour is kept and modelled (`link_refused`).  Filesystem storage follows links
(`follow_links(true)`), git storage cannot do the same without resolving link targets inside the tree, so a refusal
is the only answer that never yields a different set; the property's quantifier ranges over regular files, and the
fs-equivalence and `unaffected` are stated for link-free trees (`hasLink tree = false`).
-/
namespace Tackler.C08
open Tackler Tackler.Select


/-! ## `Path::extension` -/

theorem rsplitDot_of_not_mem : ∀ (a : List Char), '.' ∉ a → rsplitDot a = none := by
  intro a
  induction a with
  | nil => intro _; rfl
  | cons c cs ih =>
    intro h
    have hc : c ≠ '.' := fun hc => h (by simp [hc])
    have hcs : '.' ∉ cs := fun hm => h (List.mem_cons_of_mem _ hm)
    simp [rsplitDot, ih hcs, hc]

theorem rsplitDot_none : ∀ (n : List Char), rsplitDot n = none → '.' ∉ n := by
  intro n
  induction n with
  | nil => intro _; simp
  | cons c cs ih =>
    intro h
    simp only [rsplitDot] at h
    split at h
    · cases h
    · rename_i hr
      split at h
      · cases h
      · rename_i hc
        intro hm
        rcases List.mem_cons.mp hm with h1 | h1
        · exact hc h1.symm
        · exact ih hr h1

theorem rsplitDot_append (b a : List Char) (h : '.' ∉ a) : rsplitDot (b ++ '.' :: a) = some (b, a) := by
  induction b with
  | nil => simp [rsplitDot, rsplitDot_of_not_mem a h]
  | cons c cs ih => simp [rsplitDot, ih]

theorem rsplitDot_some : ∀ (n b a : List Char), rsplitDot n = some (b, a) → n = b ++ '.' :: a ∧ '.' ∉ a := by
  intro n
  induction n with
  | nil => intro b a h; simp [rsplitDot] at h
  | cons c cs ih =>
    intro b a h
    simp only [rsplitDot] at h
    split at h
    · rename_i b' a' hr
      cases h
      obtain ⟨h1, h2⟩ := ih _ _ hr
      exact ⟨by simp [h1], h2⟩
    · rename_i hr
      split at h
      · rename_i hc
        cases h
        subst hc
        exact ⟨by simp, rsplitDot_none _ hr⟩
      · cases h

/-- **the real extension** (`Path::extension`): `e` is the extension of the file name `n` iff `n = stem.e` with a
    non-empty stem and no dot in `e` (and `n` is not `..`) -/
theorem extension_spec (n e : List Char) :
    extensionL n = some e ↔ n ≠ ['.', '.'] ∧ ∃ stem, stem ≠ [] ∧ n = stem ++ '.' :: e ∧ '.' ∉ e := by
  constructor
  · intro h
    unfold extensionL at h
    split at h
    · cases h
    · rename_i hdd
      split at h
      · cases h
      · rename_i b a hr
        split at h
        · cases h
        · rename_i hb
          cases h
          obtain ⟨h1, h2⟩ := rsplitDot_some _ _ _ hr
          exact ⟨hdd, b, hb, h1, h2⟩
  · rintro ⟨hdd, stem, hs, rfl, he⟩
    unfold extensionL
    rw [if_neg hdd, rsplitDot_append stem e he]
    simp [hs]

/-- no dot in the name: no extension (`ctxn` is not a `txn` file) -/
theorem extension_no_dot (n : List Char) (h : '.' ∉ n) : extensionL n = none := by
  unfold extensionL
  split
  · rfl
  · rw [rsplitDot_of_not_mem n h]

/-- a hidden file without a further dot has no extension (`.txn` is not a `txn` file) -/
theorem extension_hidden (e : List Char) (h : '.' ∉ e) : extensionL ('.' :: e) = none := by
  unfold extensionL
  split
  · rfl
  · have := rsplitDot_append [] e h
    simp at this
    rw [this]
    simp

/-- the extension is the part after the *last* dot (`d.notxn` has extension `notxn`, `a.txn.bak` has `bak`) -/
theorem extension_last (stem e : List Char) (hs : stem ≠ []) (he : '.' ∉ e) (hdd : stem ++ '.' :: e ≠ ['.', '.']) :
    extensionL (stem ++ '.' :: e) = some e :=
  (extension_spec _ _).mpr ⟨hdd, stem, hs, rfl, he⟩


/-! ## `Path::components`: a trailing `/` is dropped -/


theorem splitSlash_ne_nil : ∀ (cs : List Char), splitSlash cs ≠ [] := by
  intro cs
  induction cs with
  | nil => simp [splitSlash]
  | cons c t ih =>
    simp only [splitSlash]
    split
    · simp
    · split <;> simp

theorem splitSlash_append_slash : ∀ (cs : List Char), splitSlash (cs ++ ['/']) = splitSlash cs ++ [[]] := by
  intro cs
  induction cs with
  | nil => simp [splitSlash]
  | cons c t ih =>
    simp only [List.cons_append, splitSlash]
    split
    · simp [ih]
    · rw [ih]
      cases h : splitSlash t with
      | nil => exact absurd h (splitSlash_ne_nil t)
      | cons s r => simp

theorem componentsL_trailing_slash (cs : List Char) (h : cs ≠ []) : componentsL (cs ++ ['/']) = componentsL cs := by
  unfold componentsL
  rw [splitSlash_append_slash]
  have h1 : (cs ++ ['/']).head? = cs.head? := by
    cases cs with
    | nil => exact absurd rfl h
    | cons c t => rfl
  have h2 : (splitSlash cs ++ [[]]).head? = (splitSlash cs).head? := by
    cases hs : splitSlash cs with
    | nil => exact absurd hs (splitSlash_ne_nil cs)
    | cons s r => rfl
  rw [h1, h2, List.filterMap_append]
  simp [segComp]

theorem components_trailing_slash (dir : String) (h : dir ≠ "") : components (dir ++ "/") = components dir := by
  unfold components
  have : (dir ++ "/").toList = dir.toList ++ ['/'] := by simp
  rw [this]
  apply componentsL_trailing_slash
  intro h0
  exact h (String.toList_eq_nil_iff.mp h0)


/-! ## what git storage selects -/


/-- the entries `git_to_txns` parses: (executable) blobs whose path passes `is_txn_path` -/
def selected (dir ext : String) (e : Entry) : Bool := isBlobKind e.kind && isTxnPath e.path dir ext

/-- entries of any kind at a path under `dir` with extension `ext` -/
def relevant (dir ext : String) (e : Entry) : Bool := isTxnPath e.path dir ext

theorem hasLink_cons (e : Entry) (t : List Entry) : hasLink (e :: t) = (e.kind == .link || hasLink t) := by
  simp [hasLink]

theorem hasLink_false_iff (tree : List Entry) : hasLink tree = false ↔ ∀ e ∈ tree, e.kind ≠ .link := by
  simp [hasLink]

/-- `gitSelect` in closed form: any `Link` fails the load; otherwise the selected blobs in traversal order -/
theorem gitSelect_eq (dir ext : String) : ∀ (tree : List Entry),
    gitSelect dir ext tree = if hasLink tree then .err else .ok (tree.filter (selected dir ext)) := by
  intro tree
  induction tree with
  | nil => simp [gitSelect, selectWith, hasLink]
  | cons e t ih =>
    unfold gitSelect at ih ⊢
    rw [selectWith, ih, hasLink_cons]
    cases hk : e.kind <;> cases hl : hasLink t <;> simp [gitEntry, hk, selected, isBlobKind, List.filter_cons]
    all_goals (split <;> simp_all)

/-- `ext` is the real extension of the file name `name` -/
def RealExt (name ext : String) : Prop :=
  name.toList ≠ ['.', '.'] ∧ ∃ stem, stem ≠ [] ∧ name.toList = stem ++ '.' :: ext.toList ∧ '.' ∉ ext.toList

theorem startsWith_iff (p base : List Comp) : startsWith p base = true ↔ base <+: p := by
  simp [startsWith]

theorem hasExt_iff (p : List Comp) (ext : String) :
    hasExt p ext = true ↔ ∃ name, fileName p = some name ∧ RealExt name ext := by
  unfold hasExt RealExt
  cases h : fileName p with
  | none => simp
  | some n => simp [extension_spec]

theorem isBlobKind_iff (k : Kind) : isBlobKind k = true ↔ k = .blob ∨ k = .blobExe := by
  cases k <;> simp [isBlobKind]

/-- what `is_txn_path` decides -/
theorem isTxnPath_iff (path dir ext : String) :
    isTxnPath path dir ext = true ↔
      components dir <+: components path ∧ ∃ name, fileName (components path) = some name ∧ RealExt name ext := by
  simp [isTxnPath, startsWith_iff, hasExt_iff]

/-- **select_spec**: an entry of the commit's tree is loaded iff it is a (possibly executable) blob, the configured
    directory is a prefix of its path *by whole path components*, and the *real* extension of its file name is the
    configured one -/
theorem select_spec {dir ext : String} {tree sel : List Entry} (h : gitSelect dir ext tree = .ok sel) (e : Entry) :
    e ∈ sel ↔ e ∈ tree ∧ (e.kind = .blob ∨ e.kind = .blobExe) ∧ components dir <+: components e.path ∧
      ∃ name, fileName (components e.path) = some name ∧ RealExt name ext := by
  rw [gitSelect_eq] at h
  split at h
  · cases h
  · cases h
    rw [List.mem_filter, selected, Bool.and_eq_true, isBlobKind_iff, isTxnPath_iff]

/-- the load is refused exactly when the tree contains a symbolic link (anywhere) -/
theorem select_ok_iff (dir ext : String) (tree : List Entry) :
    (∃ sel, gitSelect dir ext tree = .ok sel) ↔ ∀ e ∈ tree, e.kind ≠ .link := by
  rw [gitSelect_eq, ← hasLink_false_iff]
  cases hasLink tree <;> simp

/-- selected entries come in traversal order, each at most as often as in the tree -/
theorem select_sublist {dir ext : String} {tree sel : List Entry} (h : gitSelect dir ext tree = .ok sel) :
    sel.Sublist tree := by
  rw [gitSelect_eq] at h
  split at h
  · cases h
  · cases h; exact List.filter_sublist


/-! ## the load -/

variable {σ : Type}

/-- without links the interleaved select-and-parse of `git_to_txns` is: parse the selected blobs in order -/
theorem gitCollect_noLink (parse : σ → String → Outcome (List Txn × σ)) (dir ext : String) :
    ∀ (tree : List Entry) (st : σ), hasLink tree = false →
      gitCollect parse dir ext st tree = parseAll parse st (tree.filter (selected dir ext)) := by
  intro tree
  induction tree with
  | nil => intro st _; simp [gitCollect, parseAll]
  | cons e t ih =>
    intro st hl
    rw [hasLink_cons] at hl
    simp only [Bool.or_eq_false_iff] at hl
    obtain ⟨hk, hl'⟩ := hl
    obtain ⟨k, p, o⟩ := e
    simp only [gitCollect, List.filter_cons, selected]
    cases k <;> simp at hk <;> simp only [gitStep, isBlobKind, Bool.true_and, Bool.false_and]
    · simp [ih st hl']; (generalize parseAll _ _ _ = x; cases x with | ok r => cases r; rfl | err => rfl | undef => rfl)
    · by_cases hp : isTxnPath p dir ext = true
      · simp only [hp, if_true, parseAll]
        cases parse st o with
        | ok r => obtain ⟨ts, st1⟩ := r; simp [ih st1 hl']
        | err => rfl
        | undef => rfl
      · simp [hp, ih st hl']; (generalize parseAll _ _ _ = x; cases x with | ok r => cases r; rfl | err => rfl | undef => rfl)
    · by_cases hp : isTxnPath p dir ext = true
      · simp only [hp, if_true, parseAll]
        cases parse st o with
        | ok r => obtain ⟨ts, st1⟩ := r; simp [ih st1 hl']
        | err => rfl
        | undef => rfl
      · simp [hp, ih st hl']; (generalize parseAll _ _ _ = x; cases x with | ok r => cases r; rfl | err => rfl | undef => rfl)
    · simp [ih st hl']; (generalize parseAll _ _ _ = x; cases x with | ok r => cases r; rfl | err => rfl | undef => rfl)

/-- a symbolic link anywhere in the tree: the load never succeeds -/
theorem gitCollect_link (parse : σ → String → Outcome (List Txn × σ)) (dir ext : String) :
    ∀ (tree : List Entry) (st : σ) (r : List Txn × σ), hasLink tree = true →
      gitCollect parse dir ext st tree ≠ .ok r := by
  intro tree
  induction tree with
  | nil => intro st r hl; simp [hasLink] at hl
  | cons e t ih =>
    intro st r hl h
    rw [hasLink_cons] at hl
    obtain ⟨k, p, o⟩ := e
    simp only [gitCollect] at h
    split at h
    · rename_i ts st1 hs
      split at h
      · rename_i ts' st2 hc
        cases k <;> simp at hl
        all_goals first
          | exact ih st1 _ hl hc
          | (simp [gitStep] at hs)
      · cases h
      · cases h
    · cases h
    · cases h

/-- **load_is_parse**: a git load succeeds with `r` iff the selection succeeds, the selected blobs parse (in
    traversal order, threading the settings state) and `r` is the sorted concatenation of the parses -/
theorem load_is_parse (parse : σ → String → Outcome (List Txn × σ)) (dir ext : String) (st : σ)
    (tree : List Entry) (r : List Txn × σ) :
    gitLoad parse dir ext st tree = .ok r ↔
      ∃ sel ts st', gitSelect dir ext tree = .ok sel ∧ parseAll parse st sel = .ok (ts, st') ∧
        r = (sortTxns ts, st') := by
  unfold gitLoad
  rw [Outcome.map_ok, gitSelect_eq]
  cases hl : hasLink tree
  · rw [gitCollect_noLink parse dir ext tree st hl]
    constructor
    · rintro ⟨⟨ts, st'⟩, h, rfl⟩
      exact ⟨_, ts, st', by simp, h, rfl⟩
    · rintro ⟨sel, ts, st', hs, hp, rfl⟩
      simp at hs
      subst hs
      exact ⟨(ts, st'), hp, rfl⟩
  · constructor
    · rintro ⟨a, h, _⟩
      exact absurd h (gitCollect_link parse dir ext tree st a hl)
    · rintro ⟨sel, ts, st', hs, _⟩
      simp at hs

/-- a symbolic link anywhere in the commit's tree: git storage refuses the commit -/
theorem link_refused (parse : σ → String → Outcome (List Txn × σ)) (dir ext : String) (st : σ)
    (tree : List Entry) (e : Entry) (he : e ∈ tree) (hk : e.kind = .link) (r : List Txn × σ) :
    gitLoad parse dir ext st tree ≠ .ok r := by
  intro h
  obtain ⟨sel, _, _, hs, _⟩ := (load_is_parse parse dir ext st tree r).mp h
  rw [gitSelect_eq] at hs
  have : hasLink tree = true := by
    simp only [hasLink, List.any_eq_true]
    exact ⟨e, he, by simp [hk]⟩
  simp [this] at hs

theorem filter_selected (dir ext : String) (tree : List Entry) :
    tree.filter (selected dir ext) = (tree.filter (relevant dir ext)).filter (fun e => isBlobKind e.kind) := by
  rw [List.filter_filter]
  rfl

/-- **unaffected**: two (link-free) trees that agree on the entries under `dir` with extension `ext` load the same —
    whatever else they contain (files elsewhere, near-miss names, other versions of other files) -/
theorem unaffected (parse : σ → String → Outcome (List Txn × σ)) (dir ext : String) (st : σ)
    (tree tree' : List Entry) (h1 : hasLink tree = false) (h2 : hasLink tree' = false)
    (h : tree.filter (relevant dir ext) = tree'.filter (relevant dir ext)) :
    gitLoad parse dir ext st tree = gitLoad parse dir ext st tree' := by
  unfold gitLoad
  rw [gitCollect_noLink parse dir ext tree st h1, gitCollect_noLink parse dir ext tree' st h2,
    filter_selected, filter_selected, h]

/-- the same for the selection, as sets: membership of relevant entries is all that matters -/
theorem unaffected_selection {dir ext : String} {tree tree' sel sel' : List Entry}
    (h : ∀ e, relevant dir ext e = true → (e ∈ tree ↔ e ∈ tree'))
    (hs : gitSelect dir ext tree = .ok sel) (hs' : gitSelect dir ext tree' = .ok sel') (e : Entry) :
    e ∈ sel ↔ e ∈ sel' := by
  rw [gitSelect_eq] at hs hs'
  split at hs
  · cases hs
  · split at hs'
    · cases hs'
    · cases hs; cases hs'
      simp only [List.mem_filter, selected, Bool.and_eq_true]
      constructor
      · rintro ⟨hm, hb, hp⟩; exact ⟨(h e hp).mp hm, hb, hp⟩
      · rintro ⟨hm, hb, hp⟩; exact ⟨(h e hp).mpr hm, hb, hp⟩

theorem gitStep_irrelevant (parse : σ → String → Outcome (List Txn × σ)) (dir ext : String) (st : σ)
    (x : Entry) (hx : relevant dir ext x = false) (hk : x.kind ≠ .link) :
    gitStep parse dir ext st x = .ok ([], st) := by
  obtain ⟨k, p, o⟩ := x
  simp only [relevant] at hx
  cases k <;> simp_all [gitStep]

/-- one more entry that is no link and not under `dir` with extension `ext` — a file elsewhere, a near-miss name,
    a directory — changes nothing -/
theorem elsewhere_irrelevant (parse : σ → String → Outcome (List Txn × σ)) (dir ext : String)
    (x : Entry) (hx : relevant dir ext x = false) (hk : x.kind ≠ .link) (post : List Entry) :
    ∀ (pre : List Entry) (st : σ),
      gitLoad parse dir ext st (pre ++ x :: post) = gitLoad parse dir ext st (pre ++ post) := by
  intro pre st
  unfold gitLoad
  congr 1
  induction pre generalizing st with
  | nil =>
    simp only [List.nil_append, gitCollect, gitStep_irrelevant parse dir ext st x hx hk, List.nil_append]
    generalize gitCollect _ _ _ _ _ = y
    cases y with
    | ok r => cases r; rfl
    | err => rfl
    | undef => rfl
  | cons e t ih =>
    simp only [List.cons_append, gitCollect]
    cases gitStep parse dir ext st e with
    | ok r => obtain ⟨ts, st1⟩ := r; simp only [ih st1]
    | err => rfl
    | undef => rfl


/-! ## git storage = filesystem storage on a checkout -/

theorem toFs_path (e : Entry) : (toFs e).path = e.path := by
  obtain ⟨k, p, o⟩ := e; cases k <;> rfl
theorem toFs_content (e : Entry) : (toFs e).content = e.oid := by
  obtain ⟨k, p, o⟩ := e; cases k <;> rfl

/-- on a checkout the fs test (`walk` + `is_txn_file`) and the git test (`is_txn_path` on blobs) coincide on every
    entry that is no symbolic link -/
theorem fs_test_eq_git_test (dir ext : String) (e : Entry) (hk : e.kind ≠ .link) :
    (startsWith (components (toFs e).path) (components dir) && isTxnFile ext (toFs e)) = selected dir ext e := by
  obtain ⟨k, p, o⟩ := e
  cases k <;> simp_all [toFs, isTxnFile, selected, isBlobKind, isTxnPath]

theorem fs_eq_map (dir ext : String) (tree : List Entry) (hl : hasLink tree = false) :
    (walk (components dir) (checkout tree)).filter (isTxnFile ext) = (tree.filter (selected dir ext)).map toFs := by
  unfold walk checkout
  rw [List.filter_filter, List.filter_map]
  congr 1
  apply List.filter_congr
  intro e he
  have hk := (hasLink_false_iff tree).mp hl e he
  rw [← fs_test_eq_git_test dir ext e hk, Bool.and_comm]
  rfl

/-- **git_eq_fs**: for a commit of regular files (no symbolic links), whenever filesystem storage selects files on a
    checkout of the commit, git storage selects the blobs of exactly these files: same paths, same contents
    (executable files included) -/
theorem git_eq_fs {dir ext : String} {tree : List Entry} {fs : List FsEntry} (hl : hasLink tree = false)
    (h : fsSelect dir ext (checkout tree) = .ok fs) :
    ∃ sel, gitSelect dir ext tree = .ok sel ∧ fs = sel.map toFs ∧
      fs.map (fun f => (f.path, f.content)) = sel.map (fun e => (e.path, e.oid)) := by
  refine ⟨tree.filter (selected dir ext), by simp [gitSelect_eq, hl], ?_⟩
  unfold fsSelect at h
  split at h
  · cases h
  · split at h
    · cases h
    · split at h
      · cases h
      · cases h
        rw [fs_eq_map dir ext tree hl]
        refine ⟨rfl, ?_⟩
        rw [List.map_map]
        apply List.map_congr_left
        intro e _
        simp [toFs_path, toFs_content]

/-- … and when the directory does not exist in the checkout (fs storage fails), git storage loads nothing -/
theorem git_eq_fs_missing {dir ext : String} {tree : List Entry} (hl : hasLink tree = false)
    (h : fsSelect dir ext (checkout tree) = .err) : gitSelect dir ext tree = .ok [] := by
  rw [gitSelect_eq, hl]
  simp only [Bool.false_eq_true, if_false, Outcome.ok.injEq, List.filter_eq_nil_iff]
  intro e he hs
  unfold fsSelect at h
  split at h
  · cases h
  · split at h
    · cases h
    · split at h
      · rename_i hm
        simp only [Bool.and_eq_true, bne_iff_ne, ne_eq, List.isEmpty_iff] at hm
        have hw : toFs e ∈ walk (components dir) (checkout tree) := by
          unfold walk checkout
          rw [List.mem_filter]
          refine ⟨List.mem_map_of_mem he, ?_⟩
          rw [toFs_path]
          simp only [selected, isTxnPath, Bool.and_eq_true] at hs
          exact hs.2.1
        rw [hm.2] at hw
        cases hw
      · cases h

/-- for link-free trees and plain directory settings the fs side is always defined (so `git_eq_fs` and
    `git_eq_fs_missing` cover every such case) -/
theorem fs_defined (dir ext : String) (tree : List Entry) (hl : hasLink tree = false) (hc : cleanDir dir = true) :
    fsSelect dir ext (checkout tree) = .err ∨ ∃ fs, fsSelect dir ext (checkout tree) = .ok fs := by
  have hn : linkNear (components dir) (checkout tree) = false := by
    simp only [linkNear, checkout, List.any_map, List.any_eq_false, Function.comp]
    intro e he
    have hk := (hasLink_false_iff tree).mp hl e he
    obtain ⟨k, p, o⟩ := e
    cases k <;> simp_all [toFs]
  unfold fsSelect
  simp only [hc, hn]
  simp only [Bool.not_true, Bool.false_eq_true, if_false]
  split
  · exact .inl rfl
  · exact .inr ⟨_, rfl⟩

/-- a trailing `/` in the directory setting makes no difference -/
theorem dir_trailing_slash (parse : σ → String → Outcome (List Txn × σ)) (dir ext : String) (h : dir ≠ "")
    (st : σ) (tree : List Entry) :
    gitSelect (dir ++ "/") ext tree = gitSelect dir ext tree ∧
    gitLoad parse (dir ++ "/") ext st tree = gitLoad parse dir ext st tree := by
  have hp : ∀ p, isTxnPath p (dir ++ "/") ext = isTxnPath p dir ext := by
    intro p; simp [isTxnPath, components_trailing_slash dir h]
  have he : gitEntry (dir ++ "/") ext = gitEntry dir ext := by
    funext e; simp [gitEntry, hp]
  have hs : ∀ st, gitStep parse (dir ++ "/") ext st = gitStep parse dir ext st := by
    intro st; funext e; simp [gitStep, hp]
  constructor
  · simp [gitSelect, he]
  · unfold gitLoad
    congr 1
    induction tree generalizing st with
    | nil => rfl
    | cons e t ih => simp only [gitCollect, hs, ih]

/-! ## selector, metadata -/

/-- **the commit id in the metadata is the commit that was loaded**: a successful `git_to_txns` reports the id of
    the commit the selector resolved to, and its data is the load of that commit's tree (and of nothing else) -/
theorem meta_commit_is_loaded (resolve : Selector → Outcome Commit) (parse : σ → String → Outcome (List Txn × σ))
    (dir ext : String) (sel : Selector) (st st' : σ) (md : GitMeta) (ts : List Txn)
    (h : gitToTxns resolve parse dir ext sel st = .ok ((md, ts), st')) :
    ∃ c, resolve sel = .ok c ∧ md.commit = c.id ∧ md.message = c.message ∧ md.dir = dir ∧ md.suffix = ext ∧
      gitLoad parse dir ext st c.tree = .ok (ts, st') := by
  unfold gitToTxns at h
  split at h
  · rename_i c hc
    rw [Outcome.map_ok] at h
    obtain ⟨⟨ts0, st0⟩, hl, he⟩ := h
    simp only [Prod.mk.injEq] at he
    obtain ⟨⟨rfl, rfl⟩, rfl⟩ := he
    exact ⟨c, hc, rfl, rfl, rfl, rfl, hl⟩
  · cases h
  · cases h

/-- the repository enters `git_to_txns` only through the commit the selector resolves to: two repository states
    (later commits, other branches and tags, index, work tree) in which the selector resolves to the same commit
    give the same answer.  `_partial`: that a commit id resolves to the same commit object in every later state of the
    repository, and that nothing but the object store is read, is `gix`'s / git's content addressing — covered by
    the tie (snapshot of the repository mid-history vs final state with a dirty work tree and index). -/
theorem repo_state_irrelevant_partial (resolve resolve' : Selector → Outcome Commit)
    (parse : σ → String → Outcome (List Txn × σ)) (dir ext : String) (sel : Selector) (st : σ)
    (h : resolve sel = resolve' sel) :
    gitToTxns resolve parse dir ext sel st = gitToTxns resolve' parse dir ext sel st := by
  unfold gitToTxns
  rw [h]

/-- a reference and the commit id it resolves to load the same data and report the same commit id.
    `_partial`: "the id resolves to the commit with that id" is `gix`'s `lookup_prefix`/`find_object`
    (hypothesis `hid`), covered by the tie (every commit by reference, by full and by abbreviated id). -/
theorem ref_and_id_same_data_partial (resolve : Selector → Outcome Commit)
    (parse : σ → String → Outcome (List Txn × σ)) (dir ext : String) (r id : String) (c : Commit) (st : σ)
    (href : resolve (.reference r) = .ok c) (hid : resolve (.commitId id) = .ok c) :
    (gitToTxns resolve parse dir ext (.reference r) st).map (fun x => (x.1.1.commit, x.1.2, x.2)) =
    (gitToTxns resolve parse dir ext (.commitId id) st).map (fun x => (x.1.1.commit, x.1.2, x.2)) := by
  unfold gitToTxns
  rw [href, hid]
  dsimp only
  generalize gitLoad parse dir ext st c.tree = y
  cases y <;> rfl

/-- the metadata shows the reference as given, except when it is (a prefix of) the commit id itself -/
theorem refShown_spec (sel : Selector) (id : String) :
    refShown sel id = match sel with
      | .commitId _ => none
      | .reference r => if r.toList <+: id.toList then none else some r := by
  cases sel <;> simp [refShown]

/-! ## configuration: suffix normalisation -/

theorem normSuffix_dot (s : String) : normSuffix ("." ++ s) = s := by
  unfold normSuffix
  have : ("." ++ s).toList = '.' :: s.toList := by simp
  rw [this]
  simp

theorem normSuffix_plain (s : String) (h : s.toList.head? ≠ some '.') : normSuffix s = s := by
  unfold normSuffix
  split
  · rename_i r hr; rw [hr] at h; simp at h
  · rfl

example : normSuffix ".txn" = "txn" ∧ normSuffix "txn" = "txn" := by decide


/-! ## finding F5 and non-vacuity -/


/-- the tree of DESIGN §7 F5 (as `files()` records it: trees included) -/
def f5tree : List Entry := [
  ⟨.tree, "txns", "t1"⟩, ⟨.tree, "txns2", "t2"⟩, ⟨.blob, "txnsfoo.txn", "b3"⟩,
  ⟨.blob, "txns/.txn", "b7"⟩, ⟨.blob, "txns/a.txn", "b1"⟩, ⟨.blob, "txns/ctxn", "b4"⟩, ⟨.blob, "txns/d.notxn", "b5"⟩,
  ⟨.blobExe, "txns/x.txn", "b6"⟩, ⟨.blob, "txns2/b.txn", "b2"⟩]

def paths (o : Outcome (List Entry)) : Outcome (List String) := o.map (·.map (·.path))

/-- F5 on the code before the fix: near-miss names are loaded, the executable journal is skipped -/
theorem witness_F5_before : paths (gitSelectOld "txns" "txn" f5tree) =
    .ok ["txnsfoo.txn", "txns/.txn", "txns/a.txn", "txns/ctxn", "txns/d.notxn", "txns2/b.txn"] := by decide

/-- … after the fix: exactly the files filesystem storage takes -/
theorem witness_F5_after : paths (gitSelect "txns" "txn" f5tree) = .ok ["txns/a.txn", "txns/x.txn"] := by decide

theorem witness_F5_fs : (fsSelect "txns" "txn" (checkout f5tree)).map (·.map (·.path)) =
    .ok ["txns/a.txn", "txns/x.txn"] := by decide

example : paths (gitSelect "txns/" "txn" f5tree) = .ok ["txns/a.txn", "txns/x.txn"] := by decide
example : paths (gitSelect "" "txn" f5tree) = .ok ["txnsfoo.txn", "txns/a.txn", "txns/x.txn", "txns2/b.txn"] := by decide
example : paths (gitSelect "./txns" "txn" f5tree) = .ok [] := by decide
example : paths (gitSelect "txns" ".txn" f5tree) = .ok [] := by decide
example : paths (gitSelect "txns/a.txn" "txn" f5tree) = .ok ["txns/a.txn"] := by decide
example : fsSelect "nonexistent" "txn" (checkout f5tree) = .err := by decide
example : fsSelect "./txns" "txn" (checkout f5tree) = .undef := by decide
example : paths (gitSelect "txns" "txn" (⟨.link, "docs/latest", "l"⟩ :: f5tree)) = .err := by decide
example : (fsSelect "txns" "txn" (checkout (⟨.link, "docs/latest", "l"⟩ :: f5tree))).map (·.map (·.path)) =
    .ok ["txns/a.txn", "txns/x.txn"] := by decide
example : fsSelect "txns" "txn" (checkout (⟨.link, "txns/l.txn", "l"⟩ :: f5tree)) = .undef := by decide

theorem f5tree_noLink : hasLink f5tree = false := by decide

/-- hypotheses of `git_eq_fs` are satisfiable with a non-trivial selection -/
example : ∃ fs, fsSelect "txns" "txn" (checkout f5tree) = .ok fs ∧ fs.length = 2 := ⟨_, rfl, rfl⟩

/-- hypotheses of `unaffected`: the F5 tree and the tree with only the two journals differ everywhere else -/
example : f5tree.filter (relevant "txns" "txn") =
    [⟨.blob, "txns/a.txn", "b1"⟩, ⟨.blobExe, "txns/x.txn", "b6"⟩].filter (relevant "txns" "txn") := by decide

/-- a parser for examples: one transaction per blob, described by the blob id; the state counts the blobs -/
def demoParse (n : Nat) (oid : String) : Outcome (List Txn × Nat) :=
  .ok ([⟨⟨⟨0, 0⟩, none, some oid, none, none, none, none⟩, []⟩], n + 1)

/-- the two journals are parsed, in traversal order, the state is threaded (sorting comes after) -/
example : (gitCollect demoParse "txns" "txn" 0 f5tree).map (fun r => (r.1.map (·.header.desc), r.2)) =
    .ok ([some "b1", some "b6"], 2) := by decide

example : ∃ md ts st', gitToTxns (fun _ => .ok ⟨"c0ffee", "msg", f5tree⟩) demoParse "txns" "txn" (.reference "main") 0
    = .ok ((md, ts), st') ∧ md.commit = "c0ffee" ∧ md.reference = some "main" ∧ st' = 2 :=
  ⟨_, _, _, rfl, rfl, by decide, rfl⟩

end Tackler.C08

import TacklerModel.Props.C17
/-!
# C17 (continued) — order, sign and stability of shown figures

`Props/C17.lean` fixes the value every printed figure denotes (`shown_value`).  A reader of a report also relies on
three consequences that a rounding routine with a mis-handled boundary (a truncation for one sign, a carry lost at a
digit border, banker's rounding for some digit) would break while each single figure still looks plausible:

* **order** — of two exact figures the larger never prints as the smaller (`shown_mono`);
* **sign** — a printed figure never has the opposite sign of the exact one (`shown_nonneg`, `shown_nonpos`);
* **stability** — rounding what is already rounded changes nothing (`roundHalfAway_idem`), and rounding to fewer
  decimals is symmetric about zero (already `roundHalfAway_neg`).

All statements hold for every scale, every decimal with at most 28 stored decimals and every pair of figures.
-/
namespace Tackler
namespace C17

theorem roundCoeff_mono (k : Nat) {n n' : Nat} (h : n ≤ n') : roundCoeff n k ≤ roundCoeff n' k := by
  unfold roundCoeff
  exact Nat.div_le_div_right (by omega)

theorem rha_nat (k n : Nat) : roundHalfAway k (n : Int) = ((roundCoeff n k * 10 ^ k : Nat) : Int) := by
  have h := roundHalfAway_sgn k false n
  simp only [sgn] at h
  simp only [Bool.false_eq_true, if_false, Int.one_mul] at h
  rw [h, Int.natCast_mul, Int.natCast_pow]
  rfl

theorem rha_negnat (k n : Nat) : roundHalfAway k (-(n : Int)) = -((roundCoeff n k * 10 ^ k : Nat) : Int) := by
  rw [roundHalfAway_neg, rha_nat]

/-- a non-negative figure never rounds to a negative one -/
theorem roundHalfAway_nonneg (k : Nat) (u : Int) (h : 0 ≤ u) : 0 ≤ roundHalfAway k u := by
  obtain ⟨n, rfl⟩ := Int.eq_ofNat_of_zero_le h
  rw [rha_nat]
  exact Int.natCast_nonneg _

/-- a non-positive figure never rounds to a positive one -/
theorem roundHalfAway_nonpos (k : Nat) (u : Int) (h : u ≤ 0) : roundHalfAway k u ≤ 0 := by
  obtain ⟨n, hn⟩ := Int.eq_ofNat_of_zero_le (show 0 ≤ -u by omega)
  have hu : u = -(n : Int) := by omega
  rw [hu, rha_negnat]
  have := Int.natCast_nonneg (roundCoeff n k * 10 ^ k)
  omega

/-- **Order.**  Rounding half away from zero is monotone over all integers (both signs, across zero). -/
theorem roundHalfAway_mono (k : Nat) (u v : Int) (h : u ≤ v) : roundHalfAway k u ≤ roundHalfAway k v := by
  rcases Int.le_total 0 u with hu | hu
  · obtain ⟨n, rfl⟩ := Int.eq_ofNat_of_zero_le hu
    obtain ⟨m, rfl⟩ := Int.eq_ofNat_of_zero_le (Int.le_trans hu h)
    rw [rha_nat, rha_nat]
    have hnm : n ≤ m := by omega
    exact Int.ofNat_le.mpr (Nat.mul_le_mul_right _ (roundCoeff_mono k hnm))
  · rcases Int.le_total 0 v with hv | hv
    · have h1 := roundHalfAway_nonpos k u hu
      have h2 := roundHalfAway_nonneg k v hv
      omega
    · obtain ⟨n, hn⟩ := Int.eq_ofNat_of_zero_le (show 0 ≤ -u by omega)
      obtain ⟨m, hm⟩ := Int.eq_ofNat_of_zero_le (show 0 ≤ -v by omega)
      have hu' : u = -(n : Int) := by omega
      have hv' : v = -(m : Int) := by omega
      rw [hu', hv', rha_negnat, rha_negnat]
      have hmn : m ≤ n := by omega
      have := Int.ofNat_le.mpr (Nat.mul_le_mul_right (10 ^ k) (roundCoeff_mono k hmn))
      omega

/-- **Stability.**  Rounding a rounded figure again (to the same unit) changes nothing. -/
theorem roundHalfAway_idem (k : Nat) (u : Int) : roundHalfAway k (roundHalfAway k u) = roundHalfAway k u := by
  obtain ⟨c, hc⟩ := roundHalfAway_dvd k u
  rw [hc, Int.mul_comm, roundHalfAway_exact]

/-- a figure strictly inside half a unit of zero is shown as zero, whatever its sign -/
theorem roundHalfAway_small (k : Nat) (u : Int) (h : 2 * u.natAbs < 10 ^ k) : roundHalfAway k u = 0 := by
  have hu := int_eq_sgn_natAbs u
  rw [hu, roundHalfAway_sgn]
  have := round_below_tie 0 k u.natAbs h
  simp only [Nat.zero_mul, Nat.zero_add] at this
  rw [this]
  simp

/-! ### lifted to the figures a report prints -/

/-- **C17 (order of shown figures).**  If the exact figure `d` is at most the exact figure `e`, the value printed
    for `d` is at most the value printed for `e` (same report scale). -/
theorem shown_mono (sc : Scale) (d e : Dec) (hd : d.scale ≤ 28) (he : e.scale ≤ 28) (hwf : sc.WF)
    (h : d.units ≤ e.units) : valueOfShown (shownChars sc d) ≤ valueOfShown (shownChars sc e) := by
  rw [(shown_value sc d hd hwf).1, (shown_value sc e he hwf).1]
  exact roundHalfAway_mono _ _ _ h

/-- **C17 (sign of shown figures).**  A non-negative exact figure is never printed as a negative value … -/
theorem shown_nonneg (sc : Scale) (d : Dec) (hd : d.scale ≤ 28) (hwf : sc.WF) (h : 0 ≤ d.units) :
    0 ≤ valueOfShown (shownChars sc d) := by
  rw [(shown_value sc d hd hwf).1]; exact roundHalfAway_nonneg _ _ h

/-- … and a non-positive one never as a positive value. -/
theorem shown_nonpos (sc : Scale) (d : Dec) (hd : d.scale ≤ 28) (hwf : sc.WF) (h : d.units ≤ 0) :
    valueOfShown (shownChars sc d) ≤ 0 := by
  rw [(shown_value sc d hd hwf).1]; exact roundHalfAway_nonpos _ _ h

/-- equal exact figures print the same value, however they are stored (`1.50` vs `1.5`) -/
theorem shown_value_ext (sc : Scale) (d e : Dec) (hd : d.scale ≤ 28) (he : e.scale ≤ 28) (hwf : sc.WF)
    (h : d.units = e.units) : valueOfShown (shownChars sc d) = valueOfShown (shownChars sc e) := by
  rw [(shown_value sc d hd hwf).1, (shown_value sc e he hwf).1, h]

/-- non-vacuity and the boundary: `0.5`, `-0.5` at the unit `10^0` against the order `-1 ≤ 0 ≤ 1` -/
example : roundHalfAway 1 (-5) = -10 ∧ roundHalfAway 1 (-4) = 0 ∧ roundHalfAway 1 4 = 0 ∧ roundHalfAway 1 5 = 10 := by
  decide

end C17
end Tackler

import TacklerModel.Model.Print
import TacklerModel.Lemmas.Forward
import TacklerModel.Lemmas.Syntax
/-!
# Print-then-parse lemmas for the tokens and lines of the journal grammar

One lemma per parser of `Model/Syntax`, of the form `p (print x ++ rest) = .ok x rest` under a side
condition on the first character of `rest` (C06).
-/
namespace Tackler
namespace Syntax
open Comb

/-! ## digits and numbers -/

theorem isDecDigit_eq_isDigit (c : Char) : isDecDigit c = c.isDigit := by
  simp only [isDecDigit, Char.isDigit, Char.toNat, ge_iff_le, UInt32.le_iff_toNat_le]
  have h0 : '0'.val.toNat = 48 := by decide
  have h9 : '9'.val.toNat = 57 := by decide
  rw [h0, h9]

theorem digitsVal_eq_ofDigitChars (l : List Char) : Dec.digitsVal l = Nat.ofDigitChars 10 l 0 := by
  unfold Dec.digitsVal Nat.ofDigitChars Dec.digitVal
  congr 1
  funext acc c
  rw [Nat.mul_comm]

theorem toDigits_all_digits (n : Nat) : ∀ c ∈ Nat.toDigits 10 n, isDecDigit c = true := by
  intro c hc
  rw [isDecDigit_eq_isDigit]
  exact Nat.isDigit_of_mem_toDigits (by decide) (by decide) hc

theorem isDecDigit_zero : isDecDigit '0' = true := by decide

theorem padLeft_all_digits (w n : Nat) : ∀ c ∈ Dec.padLeft w (Nat.toDigits 10 n), isDecDigit c = true := by
  intro c hc
  unfold Dec.padLeft at hc
  rcases List.mem_append.mp hc with h | h
  · rw [List.eq_of_mem_replicate h]; exact isDecDigit_zero
  · exact toDigits_all_digits n c h

theorem digitsVal_padLeft (w n : Nat) : Dec.digitsVal (Dec.padLeft w (Nat.toDigits 10 n)) = n := by
  rw [digitsVal_eq_ofDigitChars]
  unfold Dec.padLeft
  rw [Nat.ofDigitChars_append, Nat.ofDigitChars_replicate_zero, Nat.mul_zero]
  exact Nat.ofDigitChars_ten_toDigits

theorem padLeft_length_ge (w : Nat) (l : List Char) : w ≤ (Dec.padLeft w l).length := by
  unfold Dec.padLeft; simp; omega

theorem padLeft_length_of_le (w : Nat) (l : List Char) (h : l.length ≤ w) : (Dec.padLeft w l).length = w := by
  unfold Dec.padLeft; simp; omega

/-- representation invariant of a parsed number: what `Dec.ofToken` produces -/
def NumWF (d : Dec) : Prop := d.scale ≤ 28 ∧ d.coeff ≤ max96 ∧ (d.neg = true → d.coeff ≠ 0)

/-- after a number: not a digit and not a decimal point -/
def numStop (c : Char) : Bool := isDecDigit c || c == '.'

/-- integer and fraction digits of `Display for Decimal` -/
def Dec.ipChars (d : Dec) : List Char :=
  (Dec.padLeft (d.scale + 1) (Nat.toDigits 10 d.coeff)).take ((Dec.padLeft (d.scale + 1) (Nat.toDigits 10 d.coeff)).length - d.scale)
def Dec.fpChars (d : Dec) : List Char :=
  (Dec.padLeft (d.scale + 1) (Nat.toDigits 10 d.coeff)).drop ((Dec.padLeft (d.scale + 1) (Nat.toDigits 10 d.coeff)).length - d.scale)

theorem toChars_eq (d : Dec) :
    d.toChars = (if d.neg then ['-'] else []) ++ Dec.ipChars d ++ (if d.scale = 0 then [] else '.' :: Dec.fpChars d) := rfl

theorem ip_fp_append (d : Dec) : Dec.ipChars d ++ Dec.fpChars d = Dec.padLeft (d.scale + 1) (Nat.toDigits 10 d.coeff) :=
  List.take_append_drop _ _

theorem fp_length (d : Dec) : (Dec.fpChars d).length = d.scale := by
  unfold Dec.fpChars
  have := padLeft_length_ge (d.scale + 1) (Nat.toDigits 10 d.coeff)
  simp; omega

theorem ip_ne_nil (d : Dec) : Dec.ipChars d ≠ [] := by
  intro h
  have h1 := congrArg List.length (ip_fp_append d)
  have h2 := padLeft_length_ge (d.scale + 1) (Nat.toDigits 10 d.coeff)
  rw [List.length_append, h, fp_length] at h1
  simp at h1; omega

theorem ip_digits (d : Dec) : ∀ c ∈ Dec.ipChars d, isDecDigit c = true := by
  intro c hc
  exact padLeft_all_digits _ _ c (by rw [← ip_fp_append]; exact List.mem_append_left _ hc)

theorem fp_digits (d : Dec) : ∀ c ∈ Dec.fpChars d, isDecDigit c = true := by
  intro c hc
  exact padLeft_all_digits _ _ c (by rw [← ip_fp_append]; exact List.mem_append_right _ hc)

theorem ofToken_print (d : Dec) (h : NumWF d) : Dec.ofToken d.neg (Dec.ipChars d) (Dec.fpChars d) = some d := by
  obtain ⟨hs, hc, hn⟩ := h
  unfold Dec.ofToken
  simp only [ip_fp_append, digitsVal_padLeft, fp_length]
  have h1 : ¬ d.scale > 28 := by omega
  have h2 : ¬ d.coeff > max96 := by omega
  simp only [h1, h2, if_false]
  cases d with
  | mk neg coeff scale =>
    simp only [Option.some.injEq, Dec.mk.injEq, and_true]
    cases neg with
    | false => rfl
    | true =>
      have := hn rfl
      simp at this
      simp [this]

theorem startsNot_of_numStop {rest : List Char} (h : StartsNot numStop rest) :
    StartsNot isDecDigit rest ∧ StartsNot (fun c => c == '.') rest := by
  constructor
  · intro c r e; have := h c r e; simp [numStop] at this; exact this.1
  · intro c r e; have := h c r e; simp [numStop] at this; simpa using this.2

/-- **number token**: the printed form of a well-formed decimal lexes back to its sign, integer and
    fraction digits -/
theorem pNumberLex_print (d : Dec) (rest : List Char) (hr : StartsNot numStop rest) :
    pNumberLex (d.toChars ++ rest) = .ok (d.neg, Dec.ipChars d, Dec.fpChars d) rest := by
  obtain ⟨hrd, hrp⟩ := startsNot_of_numStop hr
  obtain ⟨i0, it, hi⟩ := List.exists_cons_of_ne_nil (ip_ne_nil d)
  have hi0 : isDecDigit i0 = true := ip_digits d i0 (by rw [hi]; exact List.mem_cons_self)
  have hi0m : i0 ≠ '-' := by intro e; rw [e] at hi0; revert hi0; decide
  -- the text after the sign
  have hsign : opt (chr '-') (d.toChars ++ rest) =
      .ok (if d.neg then some '-' else none)
        (Dec.ipChars d ++ ((if d.scale = 0 then [] else '.' :: Dec.fpChars d) ++ rest)) := by
    rw [toChars_eq]
    cases d.neg with
    | true => simp only [if_true, List.append_assoc, List.cons_append, List.nil_append]; exact opt_of_ok (chr_eq _ _)
    | false =>
      simp only [Bool.false_eq_true, if_false, List.append_assoc, List.nil_append]
      rw [hi]; exact opt_of_bt (chr_ne _ hi0m)
  have htail : StartsNot isDecDigit ((if d.scale = 0 then [] else '.' :: Dec.fpChars d) ++ rest) := by
    by_cases hz : d.scale = 0
    · simpa [hz] using hrd
    · simp only [hz, if_false, List.cons_append]; exact startsNot_cons _ (by decide)
  unfold pNumberLex
  rw [hsign]
  simp only [Res.bind_ok']
  rw [takeWhile1_append isDecDigit _ _ (ip_ne_nil d) (ip_digits d) htail]
  simp only [Res.bind_ok']
  by_cases hz : d.scale = 0
  · have hfp : Dec.fpChars d = [] := List.eq_nil_of_length_eq_zero (by rw [fp_length, hz])
    simp only [hz, if_true, List.nil_append]
    rw [opt_of_bt (p := fun s => (chr '.' s).bind fun _ s => takeWhile1 isDecDigit s) (by
      show (chr '.' rest).bind _ = .bt
      rw [chr_startsNot hrp]; rfl)]
    simp only [Res.bind_ok', hfp]
    cases d.neg <;> rfl
  · have hfpne : Dec.fpChars d ≠ [] := by
      intro e; have := fp_length d; rw [e] at this; simp at this; omega
    simp only [hz, if_false, List.cons_append]
    rw [opt_of_ok (p := fun s => (chr '.' s).bind fun _ s => takeWhile1 isDecDigit s)
      (a := Dec.fpChars d) (r := rest) (by
        show (chr '.' ('.' :: (Dec.fpChars d ++ rest))).bind _ = _
        rw [chr_eq]; simp only [Res.bind_ok']
        exact takeWhile1_append isDecDigit _ _ hfpne (fp_digits d) hrd)]
    simp only [Res.bind_ok']
    cases d.neg <;> rfl

/-- **number**: `p_number (display d ++ rest) = d` -/
theorem pNumber_print (d : Dec) (rest : List Char) (h : NumWF d) (hr : StartsNot numStop rest) :
    pNumber (d.toChars ++ rest) = .ok d rest := by
  unfold pNumber
  rw [pNumberLex_print d rest hr]
  simp only [Res.bind_ok', ofToken_print d h]

/-! ## identifiers, account names -/

/-- `ID`: a start character followed by name characters -/
def IdentWF (l : List Char) : Prop := ∃ c t, l = c :: t ∧ idStartChar c = true ∧ ∀ d ∈ t, idChar d = true

/-- `SUBID`: a non-empty run of name characters -/
def PartWF (l : List Char) : Prop := l ≠ [] ∧ ∀ d ∈ l, idChar d = true

/-- the components of a multi-part name -/
def PartsWF (parts : List (List Char)) : Prop := ∃ a r, parts = a :: r ∧ IdentWF a ∧ ∀ p ∈ r, PartWF p

theorem pIdentifier_print (l rest : List Char) (h : IdentWF l) (hr : StartsNot idChar rest) :
    pIdentifier (l ++ rest) = .ok l rest := by
  obtain ⟨c, t, rfl, hc, ht⟩ := h
  unfold pIdentifier
  simp only [List.cons_append]
  rw [oneOf_true _ hc]
  simp only [Res.bind_ok']
  rw [takeWhile0_append idChar t rest ht hr]
  rfl

theorem pIdentifier_startsNot {s : List Char} (h : StartsNot idStartChar s) : pIdentifier s = .bt := by
  unfold pIdentifier
  rw [oneOf_startsNot h]; rfl

theorem joinParts_cons (a : List Char) (r : List (List Char)) :
    joinParts (a :: r) = a ++ (r.map (fun p => ':' :: p)).flatten := by
  unfold joinParts
  induction r generalizing a with
  | nil => simp [List.intercalate]
  | cons b t ih =>
    have := ih b
    simp only [List.intercalate, List.intersperse, List.flatten_cons, List.map_cons] at this ⊢
    rw [this]
    simp

theorem idChar_colon : idChar ':' = false := by decide

theorem pIdPartHelper_print (p rest : List Char) (h : PartWF p) (hr : StartsNot idChar rest) :
    pIdPartHelper (':' :: (p ++ rest)) = .ok p rest := by
  unfold pIdPartHelper
  have : takeMN 1 1 (fun c => c == ':') ([':'] ++ (p ++ rest)) = .ok [':'] (p ++ rest) :=
    takeMN_exact 1 _ [':'] _ rfl (by simp)
  simp only [List.cons_append, List.nil_append] at this
  rw [this]
  simp only [Res.bind_ok']
  exact cutErr_of_ok (takeWhile1_append idChar p rest h.1 h.2 hr)

/-- after a multi-part name: neither a name character nor a colon -/
def nameStop (c : Char) : Bool := idChar c || c == ':'

theorem startsNot_of_nameStop {rest : List Char} (h : StartsNot nameStop rest) :
    StartsNot idChar rest ∧ StartsNot (fun c => c == ':') rest := by
  constructor
  · intro c r e; have := h c r e; simp [nameStop] at this; exact this.1
  · intro c r e; have := h c r e; simp [nameStop] at this; simpa using this.2

/-- **multi-part name** (account, tag): the `:`-joined components parse back to the components -/
theorem pMultiPartId_print (parts : List (List Char)) (rest : List Char) (h : PartsWF parts)
    (hr : StartsNot nameStop rest) : pMultiPartId (joinParts parts ++ rest) = .ok parts rest := by
  obtain ⟨a, r, rfl, ha, hrp⟩ := h
  obtain ⟨hr1, hr2⟩ := startsNot_of_nameStop hr
  have hrest : pIdPartHelper rest = .bt := by
    unfold pIdPartHelper
    rw [takeMN_startsNot 1 1 _ (by decide) hr2]; rfl
  obtain ⟨hrep, hq⟩ := repeat0_list pIdPartHelper pIdPartHelper_cons (fun p => ':' :: p) id
    (StartsNot idChar) rest hrest hr1 r (by
      intro p hp r' hq
      exact ⟨startsNot_cons _ idChar_colon, by simpa using pIdPartHelper_print p r' (hrp p hp) hq⟩)
  unfold pMultiPartId
  rw [joinParts_cons, List.append_assoc, pIdentifier_print a _ ha hq]
  simp only [Res.bind_ok']
  rw [cutErr_of_ok hrep]
  simp

theorem pMultiPartId_startsNot {s : List Char} (h : StartsNot idStartChar s) : pMultiPartId s = .bt := by
  unfold pMultiPartId
  rw [pIdentifier_startsNot h]; rfl

theorem toPath_chars (parts : List (List Char)) : (toPath parts).map String.toList = parts := by
  unfold toPath
  induction parts with
  | nil => rfl
  | cons a t ih => simp [String.toList_ofList]

/-- the name of a path built from components is their `:`-join -/
theorem acctName_toPath (parts : List (List Char)) : (acctName (toPath parts)).toList = joinParts parts := by
  unfold acctName joinParts
  rw [String.toList_intercalate, toPath_chars]
  rfl

theorem acctName_toPath' (parts : List (List Char)) : acctName (toPath parts) = String.ofList (joinParts parts) := by
  rw [← acctName_toPath, String.ofList_toList]

/-! ## comments, code, description -/

/-- text that fits on one line -/
def LineText (l : List Char) : Prop := ∀ c ∈ l, notEol c = true

theorem isSpace_space : isSpace ' ' = true := by decide

/-- **comment**: `; text` up to the line ending -/
theorem pComment_print (c : List Char) {eol : List Char} (he : IsEol eol) (rest : List Char) (hc : LineText c) :
    pComment (';' :: ' ' :: (c ++ (eol ++ rest))) = .ok c (eol ++ rest) := by
  unfold pComment
  rw [chr_eq]
  simp only [Res.bind_ok']
  apply cutErr_of_ok
  rw [alt_of_bt]
  · show (oneOf isSpace (' ' :: (c ++ (eol ++ rest)))).bind _ = _
    rw [oneOf_true _ isSpace_space]
    simp only [Res.bind_ok']
    exact tillLineEnding_append c he rest hc
  · show (peek lineEnding (' ' :: (c ++ (eol ++ rest)))).map _ = .bt
    rw [peek_of_bt (by rfl)]; rfl

theorem pComment_startsNot {s : List Char} (h : StartsNot (fun c => c == ';') s) : pComment s = .bt := by
  unfold pComment
  rw [chr_startsNot h]; rfl

/-- blanks of a layout: spaces and tabs -/
def Blanks (l : List Char) : Prop := ∀ c ∈ l, isSpace c = true

theorem blanks_nil : Blanks [] := by intro c hc; cases hc

theorem isSpace_semicolon : isSpace ';' = false := by decide

/-- **header comment line** -/
theorem parseTxnComment_print (indent c : List Char) {eol : List Char} (he : IsEol eol) (rest : List Char)
    (hi : Blanks indent) (hne : indent ≠ []) (hc : LineText c) :
    parseTxnComment (indent ++ (';' :: ' ' :: (c ++ (eol ++ rest)))) = .ok (String.ofList c) rest := by
  unfold parseTxnComment
  rw [space1_append indent _ hne hi (startsNot_cons _ isSpace_semicolon)]
  simp only [Res.bind_ok']
  rw [pComment_print c he rest hc]
  simp only [Res.bind_ok']
  rw [lineEnding_append he]
  rfl

/-- a line that does not continue with `;` after its blanks is not a comment line -/
theorem parseTxnComment_other (b s : List Char) (hb : Blanks b) (hs : StartsNot isSpace s)
    (h : StartsNot (fun c => c == ';') s) : parseTxnComment (b ++ s) = .bt := by
  unfold parseTxnComment
  by_cases hne : b = []
  · subst hne
    rw [List.nil_append, space1_none hs]; rfl
  · rw [space1_append b s hne hb hs]
    simp only [Res.bind_ok']
    rw [pComment_startsNot h]; rfl

theorem trimEnd_append_ws (x w : List Char) (hw : ∀ c ∈ w, isWhitespace c = true) : trimEnd (x ++ w) = trimEnd x := by
  induction x with
  | nil =>
    simp only [List.nil_append]
    induction w with
    | nil => rfl
    | cons c t ih =>
      have hc := hw c List.mem_cons_self
      simp only [trimEnd, ih (fun d hd => hw d (List.mem_cons_of_mem _ hd)), hc, if_true]
  | cons c t ih => simp only [List.cons_append, trimEnd, ih]

theorem isWhitespace_of_isSpace (c : Char) (h : isSpace c = true) : isWhitespace c = true := by
  simp [isSpace] at h
  rcases h with rfl | rfl <;> decide

theorem notEol_of_isSpace (c : Char) (h : isSpace c = true) : notEol c = true := by
  simp [isSpace] at h
  rcases h with rfl | rfl <;> decide

theorem validCodeChar_close : validCodeChar ')' = false := by decide

/-- **code**: `(code)`; the stored code is the trimmed text -/
theorem parseTxnCode_print (c rest : List Char) (hc : ∀ d ∈ c, validCodeChar d = true) :
    parseTxnCode ('(' :: (c ++ (')' :: rest))) = .ok (String.ofList (trim c)) rest := by
  unfold parseTxnCode
  rw [chr_eq]
  simp only [Res.bind_ok']
  rw [takeWhile0_append validCodeChar c _ hc (startsNot_cons _ validCodeChar_close)]
  simp only [Res.bind_ok']
  rw [cutErr_of_ok (chr_eq _ _)]
  rfl

theorem parseTxnCode_startsNot {s : List Char} (h : StartsNot (fun c => c == '(') s) : parseTxnCode s = .bt := by
  unfold parseTxnCode
  rw [chr_startsNot h]; rfl

/-- **description**: `'text` to the end of the line; trailing white space is not part of it -/
theorem parseTxnDescription_print (d w : List Char) {eol : List Char} (he : IsEol eol) (rest : List Char)
    (hd : LineText d) (hw : Blanks w) :
    parseTxnDescription ('\'' :: (d ++ (w ++ (eol ++ rest)))) = .ok (String.ofList (trimEnd d)) (eol ++ rest) := by
  unfold parseTxnDescription
  rw [chr_eq]
  simp only [Res.bind_ok']
  rw [← List.append_assoc, tillLineEnding_append (d ++ w) he rest (by
    intro c hc
    rcases List.mem_append.mp hc with h | h
    · exact hd c h
    · exact notEol_of_isSpace c (hw c h))]
  simp only [Res.bind_ok']
  rw [trimEnd_append_ws d w (fun c hc => isWhitespace_of_isSpace c (hw c hc))]

theorem parseTxnDescription_startsNot {s : List Char} (h : StartsNot (fun c => c == '\'') s) :
    parseTxnDescription s = .bt := by
  unfold parseTxnDescription
  rw [chr_startsNot h]; rfl

/-! ## metadata lines -/

theorem toLower_of_not_upper (c : Char) (h : c.toNat < 65 ∨ 90 < c.toNat) : c.toLower = c := by
  unfold Char.toLower
  split
  · rename_i h1
    exfalso
    have a := h1.1
    have b := h1.2
    simp only [ge_iff_le, UInt32.le_iff_toNat_le, Char.toNat] at a b h
    have e1 : 'A'.val.toNat = 65 := by decide
    have e2 : 'Z'.val.toNat = 90 := by decide
    omega
  · rfl

/-- a lower-case hexadecimal digit (what `Uuid`'s `Display` prints) -/
def isLowerHex (c : Char) : Bool := isDecDigit c || (97 ≤ c.toNat && c.toNat ≤ 102)

theorem isHexDigit_of_lower (c : Char) (h : isLowerHex c = true) : isHexDigit c = true := by
  simp only [isLowerHex, Bool.or_eq_true, Bool.and_eq_true, decide_eq_true_eq] at h
  simp only [isHexDigit, Bool.or_eq_true, Bool.and_eq_true, decide_eq_true_eq]
  rcases h with h | h
  · exact Or.inl (Or.inl h)
  · exact Or.inr h

theorem toLower_of_lowerHex (c : Char) (h : isLowerHex c = true) : c.toLower = c := by
  apply toLower_of_not_upper
  simp only [isLowerHex, isDecDigit, Bool.or_eq_true, Bool.and_eq_true, decide_eq_true_eq] at h
  omega

/-- canonical text of a UUID: `8-4-4-4-12` lower-case hex digits -/
def UuidWF (u : List Char) : Prop :=
  ∃ a b c d e, u = a ++ '-' :: (b ++ '-' :: (c ++ '-' :: (d ++ '-' :: e))) ∧
    a.length = 8 ∧ b.length = 4 ∧ c.length = 4 ∧ d.length = 4 ∧ e.length = 12 ∧
    (∀ x ∈ a ++ b ++ c ++ d ++ e, isLowerHex x = true)

theorem hexN_print (n : Nat) (a rest : List Char) (hl : a.length = n) (ha : ∀ x ∈ a, isLowerHex x = true) :
    hexN n (a ++ rest) = .ok a rest := by
  unfold hexN
  exact cutErr_of_ok (takeMN_exact n _ a rest hl (fun x hx => isHexDigit_of_lower x (ha x hx)))

theorem dash_print (rest : List Char) : dash ('-' :: rest) = .ok ['-'] rest := by
  unfold dash
  rw [cutErr_of_ok (chr_eq _ _)]; rfl

theorem map_toLower_id (l : List Char) (h : ∀ x ∈ l, isLowerHex x = true ∨ x = '-') : l.map Char.toLower = l := by
  induction l with
  | nil => rfl
  | cons c t ih =>
    simp only [List.map_cons]
    rw [ih (fun x hx => h x (List.mem_cons_of_mem _ hx))]
    congr 1
    rcases h c List.mem_cons_self with hc | rfl
    · exact toLower_of_lowerHex c hc
    · decide

/-- **uuid** -/
theorem pUuid_print (u rest : List Char) (h : UuidWF u) : pUuid (u ++ rest) = .ok (String.ofList u) rest := by
  obtain ⟨a, b, c, d, e, rfl, ha, hb, hc, hd, he, hall⟩ := h
  have hm : ∀ x, x ∈ a ∨ x ∈ b ∨ x ∈ c ∨ x ∈ d ∨ x ∈ e → isLowerHex x = true := by
    intro x hx; apply hall; simp only [List.mem_append]
    rcases hx with h | h | h | h | h <;> simp [h]
  unfold pUuid
  simp only [List.append_assoc, List.cons_append]
  rw [hexN_print 8 a _ ha (fun x hx => hm x (Or.inl hx))]
  simp only [Res.bind_ok']
  rw [dash_print]; simp only [Res.bind_ok']
  rw [hexN_print 4 b _ hb (fun x hx => hm x (Or.inr (Or.inl hx)))]
  simp only [Res.bind_ok']
  rw [dash_print]; simp only [Res.bind_ok']
  rw [hexN_print 4 c _ hc (fun x hx => hm x (Or.inr (Or.inr (Or.inl hx))))]
  simp only [Res.bind_ok']
  rw [dash_print]; simp only [Res.bind_ok']
  rw [hexN_print 4 d _ hd (fun x hx => hm x (Or.inr (Or.inr (Or.inr (Or.inl hx)))))]
  simp only [Res.bind_ok']
  rw [dash_print]; simp only [Res.bind_ok']
  rw [hexN_print 12 e _ he (fun x hx => hm x (Or.inr (Or.inr (Or.inr (Or.inr hx)))))]
  simp only [Res.bind_ok']
  congr 2
  simp only [List.cons_append, List.nil_append]
  apply map_toLower_id
  intro x hx
  simp only [List.mem_append, List.mem_cons] at hx
  rcases hx with h | rfl | h | rfl | h | rfl | h | rfl | h
  · exact Or.inl (hm x (Or.inl h))
  · exact Or.inr rfl
  · exact Or.inl (hm x (Or.inr (Or.inl h)))
  · exact Or.inr rfl
  · exact Or.inl (hm x (Or.inr (Or.inr (Or.inl h))))
  · exact Or.inr rfl
  · exact Or.inl (hm x (Or.inr (Or.inr (Or.inr (Or.inl h)))))
  · exact Or.inr rfl
  · exact Or.inl (hm x (Or.inr (Or.inr (Or.inr (Or.inr h)))))

theorem isSpace_hash : isSpace '#' = false := by decide

theorem space1_one (rest : List Char) (hr : StartsNot isSpace rest) : space1 (' ' :: rest) = .ok [' '] rest := by
  simpa using space1_append [' '] rest (by simp) (by simp [isSpace]) hr

/-- **metadata line frame**: `indent # key value trail eol`.  The value parser may itself consume some of
    the trailing blanks (`p_geo_uri` does); `space0` takes the remaining ones. -/
theorem metaLine_print {α} (key : List Char) (value : P α) (indent vtext trail : List Char) {eol : List Char}
    (he : IsEol eol) (rest : List Char) (v : α)
    (hi : Blanks indent) (hine : indent ≠ []) (hk : StartsNot isSpace key) (hkne : key ≠ [])
    (hvs : StartsNot isSpace (vtext ++ (trail ++ (eol ++ rest))))
    (w2 : List Char) (hw2 : Blanks w2)
    (hv : value (vtext ++ (trail ++ (eol ++ rest))) = .ok v (w2 ++ (eol ++ rest))) :
    metaLine key value (indent ++ ('#' :: ' ' :: (key ++ (' ' :: (vtext ++ (trail ++ (eol ++ rest))))))) = .ok v rest := by
  have heol : StartsNot isSpace (eol ++ rest) := he.startsNot rest (by decide) (by decide)
  unfold metaLine
  rw [space1_append indent _ hine hi (startsNot_cons _ isSpace_hash)]
  simp only [Res.bind_ok']
  rw [chr_eq]; simp only [Res.bind_ok']
  rw [cutErr_of_ok (space1_one _ (startsNot_append_of_ne_nil _ hkne hk))]
  simp only [Res.bind_ok']
  rw [lit_append]; simp only [Res.bind_ok']
  rw [cutErr_of_ok (space1_one _ hvs)]
  simp only [Res.bind_ok']
  rw [cutErr_of_ok hv]; simp only [Res.bind_ok']
  rw [space0_append w2 _ hw2 heol]; simp only [Res.bind_ok']
  rw [cutErr_of_ok (lineEnding_append he rest)]
  rfl

/-- a line that does not continue with `#` after its blanks is not a metadata line -/
theorem metaLine_other {α} (key : List Char) (value : P α) (b s : List Char) (hb : Blanks b)
    (hs : StartsNot isSpace s) (h : StartsNot (fun c => c == '#') s) : metaLine key value (b ++ s) = .bt := by
  unfold metaLine
  by_cases hne : b = []
  · subst hne
    rw [List.nil_append, space1_none hs]; rfl
  · rw [space1_append b s hne hb hs]
    simp only [Res.bind_ok']
    rw [chr_startsNot h]; rfl

/-- a metadata line with another key -/
theorem metaLine_otherKey {α} (key : List Char) (value : P α) (indent key2 r : List Char)
    (hi : Blanks indent) (hine : indent ≠ []) (hk2 : StartsNot isSpace key2) (hk2ne : key2 ≠ [])
    (hlit : lit key (key2 ++ r) = .bt) :
    metaLine key value (indent ++ ('#' :: ' ' :: (key2 ++ r))) = .bt := by
  unfold metaLine
  rw [space1_append indent _ hine hi (startsNot_cons _ isSpace_hash)]
  simp only [Res.bind_ok']
  rw [chr_eq]; simp only [Res.bind_ok']
  rw [cutErr_of_ok (space1_one _ (startsNot_append_of_ne_nil _ hk2ne hk2))]
  simp only [Res.bind_ok']
  rw [hlit]; rfl

/-! ### the three metadata lines -/

open Print in
/-- what the layouts of C06 may vary -/
structure LayoutOK (L : Print.Layout) : Prop where
  indent : Blanks L.indent
  indent_ne : L.indent ≠ []
  sep : Blanks L.sep
  sep_ne : L.sep ≠ []
  trail : Blanks L.trail
  eol : IsEol L.eol
  order : L.metaOrder ∈ [[0, 1, 2], [0, 2, 1], [1, 0, 2], [1, 2, 0], [2, 0, 1], [2, 1, 0]]
  lead : ∀ l ∈ L.lead, Blanks l
  gap : ∀ l ∈ L.gap, Blanks l
  gap_ne : L.gap ≠ []

theorem layoutOK_identity : LayoutOK Print.Layout.identity := by
  refine ⟨?_, ?_, ?_, ?_, ?_, ?_, ?_, ?_, ?_, ?_⟩ <;> simp [Print.Layout.identity, Blanks, isSpace, IsEol]

theorem key_uuid_startsNot : StartsNot isSpace "uuid:".toList := by
  have : "uuid:".toList = ['u', 'u', 'i', 'd', ':'] := by decide
  rw [this]; exact startsNot_cons _ (by decide)
theorem key_location_startsNot : StartsNot isSpace "location:".toList := by
  have : "location:".toList = ['l', 'o', 'c', 'a', 't', 'i', 'o', 'n', ':'] := by decide
  rw [this]; exact startsNot_cons _ (by decide)
theorem key_tags_startsNot : StartsNot isSpace "tags:".toList := by
  have : "tags:".toList = ['t', 'a', 'g', 's', ':'] := by decide
  rw [this]; exact startsNot_cons _ (by decide)

theorem metaLineChars_eq (L : Print.Layout) (key value rest : List Char) :
    Print.metaLineChars L key value ++ rest =
      L.indent ++ ('#' :: ' ' :: (key ++ (' ' :: (value ++ (L.trail ++ (L.eol ++ rest)))))) := by
  simp [Print.metaLineChars]

theorem isSpace_of_lowerHex (c : Char) (h : isLowerHex c = true) : isSpace c = false := by
  simp only [isLowerHex, isDecDigit, Bool.or_eq_true, Bool.and_eq_true, decide_eq_true_eq] at h
  simp only [isSpace, Bool.or_eq_false_iff, beq_eq_false_iff_ne, ne_eq]
  constructor <;> (intro e; rw [e] at h; revert h; decide)

theorem uuidWF_startsNot_space (u r : List Char) (h : UuidWF u) : StartsNot isSpace (u ++ r) := by
  obtain ⟨a, b, c, d, e, rfl, ha, _, _, _, _, hall⟩ := h
  cases a with
  | nil => simp at ha
  | cons x t =>
    simp only [List.cons_append]
    exact startsNot_cons _ (isSpace_of_lowerHex x (hall x (by simp)))

/-- **uuid line** -/
theorem parseMetaUuid_print (L : Print.Layout) (hL : LayoutOK L) (u : String) (rest : List Char) (hu : UuidWF u.toList) :
    parseMetaUuid (Print.uuidLine L (some u) ++ rest) = .ok u rest := by
  unfold parseMetaUuid Print.uuidLine
  rw [metaLineChars_eq]
  have hv := pUuid_print u.toList (L.trail ++ (L.eol ++ rest)) hu
  rw [String.ofList_toList] at hv
  exact metaLine_print _ pUuid L.indent u.toList L.trail hL.eol rest u hL.indent hL.indent_ne
    key_uuid_startsNot (by decide) (uuidWF_startsNot_space _ _ hu) L.trail hL.trail hv

theorem isSpace_of_digit (c : Char) (h : isDecDigit c = true) : isSpace c = false := by
  simp only [isDecDigit, Bool.and_eq_true, decide_eq_true_eq] at h
  simp only [isSpace, Bool.or_eq_false_iff, beq_eq_false_iff_ne, ne_eq]
  constructor <;> (intro e; rw [e] at h; revert h; decide)

/-- the printed form of a number starts with `-` or a digit -/
theorem toChars_startsNot (d : Dec) (r : List Char) (pred : Char → Bool) (hm : pred '-' = false)
    (hd : ∀ c, isDecDigit c = true → pred c = false) : StartsNot pred (d.toChars ++ r) := by
  obtain ⟨i0, it, hi⟩ := List.exists_cons_of_ne_nil (ip_ne_nil d)
  have hi0 : isDecDigit i0 = true := ip_digits d i0 (by rw [hi]; exact List.mem_cons_self)
  rw [toChars_eq, hi]
  cases d.neg with
  | true => simp only [if_true, List.cons_append, List.append_assoc]; exact startsNot_cons _ hm
  | false => simp only [Bool.false_eq_true, if_false, List.nil_append, List.cons_append, List.append_assoc]; exact startsNot_cons _ (hd i0 hi0)

theorem toChars_startsNot_space (d : Dec) (r : List Char) : StartsNot isSpace (d.toChars ++ r) :=
  toChars_startsNot d r isSpace (by decide) isSpace_of_digit

/-- a geo point the parser can produce -/
def GeoWF (g : Geo) : Prop :=
  NumWF g.lat ∧ NumWF g.lon ∧ (∀ a, g.alt = some a → NumWF a) ∧ geoOk g = true

theorem numStop_of_isSpace (c : Char) (h : isSpace c = true) : numStop c = false := by
  simp [isSpace] at h
  rcases h with rfl | rfl <;> decide

theorem blanks_eol_startsNot {pred : Char → Bool} (w : List Char) {eol : List Char} (he : IsEol eol) (rest : List Char)
    (hw : Blanks w) (hs : ∀ c, isSpace c = true → pred c = false) (hn : pred '\n' = false) (hr : pred '\r' = false) :
    StartsNot pred (w ++ (eol ++ rest)) := by
  cases w with
  | nil => exact he.startsNot rest hn hr
  | cons c t => exact startsNot_cons _ (hs c (hw c List.mem_cons_self))

theorem geoChars_eq (g : Geo) (r : List Char) :
    Print.geoChars g ++ r = 'g' :: 'e' :: 'o' :: ':' :: (g.lat.toChars ++ (',' :: (g.lon.toChars ++
      ((match g.alt with | some a => ',' :: a.toChars | none => []) ++ r)))) := by
  cases h : g.alt <;> simp [Print.geoChars, h]

/-- **geo URI** followed by the trailing blanks and the line ending: all of it is consumed up to the blanks
    that `space0` of the line frame takes -/
theorem pGeoUri_print (g : Geo) (trail : List Char) {eol : List Char} (he : IsEol eol) (rest : List Char)
    (hg : GeoWF g) (ht : Blanks trail) :
    ∃ w2, Blanks w2 ∧ pGeoUri (Print.geoChars g ++ (trail ++ (eol ++ rest))) = .ok g (w2 ++ (eol ++ rest)) := by
  obtain ⟨hlat, hlon, halt, hok⟩ := hg
  have hcomma_space : isSpace ',' = false := by decide
  have hcomma_stop : numStop ',' = false := by decide
  have hstop_tail : StartsNot numStop (trail ++ (eol ++ rest)) :=
    blanks_eol_startsNot trail he rest ht numStop_of_isSpace (by decide) (by decide)
  have hspace_eol : StartsNot isSpace (eol ++ rest) := he.startsNot rest (by decide) (by decide)
  have hcomma_eol : StartsNot (fun c => c == ',') (eol ++ rest) := he.startsNot rest (by decide) (by decide)
  rw [geoChars_eq]
  unfold pGeoUri
  have hl : lit "geo:".toList ('g' :: 'e' :: 'o' :: ':' :: (g.lat.toChars ++ (',' :: (g.lon.toChars ++
      ((match g.alt with | some a => ',' :: a.toChars | none => []) ++ (trail ++ (eol ++ rest))))))) =
      .ok () (g.lat.toChars ++ (',' :: (g.lon.toChars ++
      ((match g.alt with | some a => ',' :: a.toChars | none => []) ++ (trail ++ (eol ++ rest)))))) :=
    lit_append "geo:".toList _
  rw [cutErr_of_ok hl]; simp only [Res.bind_ok']
  rw [space0_none _ (toChars_startsNot_space _ _)]; simp only [Res.bind_ok']
  rw [cutErr_of_ok (pNumber_print g.lat _ hlat (startsNot_cons _ hcomma_stop))]; simp only [Res.bind_ok']
  rw [space0_none _ (startsNot_cons _ hcomma_space)]; simp only [Res.bind_ok']
  rw [cutErr_of_ok (chr_eq _ _)]; simp only [Res.bind_ok']
  rw [space0_none _ (toChars_startsNot_space _ _)]; simp only [Res.bind_ok']
  cases hga : g.alt with
  | none =>
    simp only [List.nil_append]
    rw [cutErr_of_ok (pNumber_print g.lon _ hlon hstop_tail)]; simp only [Res.bind_ok']
    rw [space0_append trail _ ht hspace_eol]; simp only [Res.bind_ok']
    rw [opt_of_bt (p := fun s => (chr ',' s).bind fun _ s => (space0 s).bind fun _ s => cutErr pNumber s) (by
      show (chr ',' (eol ++ rest)).bind _ = .bt
      rw [chr_startsNot hcomma_eol]; rfl)]
    simp only [Res.bind_ok']
    refine ⟨[], blanks_nil, ?_⟩
    have : geoOk ⟨g.lat, g.lon, none⟩ = true := by rw [← hga]; exact hok
    rw [this]
    cases g; simp_all
  | some a =>
    have ha := halt a hga
    simp only [List.cons_append]
    rw [cutErr_of_ok (pNumber_print g.lon _ hlon (startsNot_cons _ hcomma_stop))]; simp only [Res.bind_ok']
    rw [space0_none _ (startsNot_cons _ hcomma_space)]; simp only [Res.bind_ok']
    rw [opt_of_ok (p := fun s => (chr ',' s).bind fun _ s => (space0 s).bind fun _ s => cutErr pNumber s)
      (a := a) (r := trail ++ (eol ++ rest)) (by
        show (chr ',' (',' :: (a.toChars ++ (trail ++ (eol ++ rest))))).bind _ = _
        rw [chr_eq]; simp only [Res.bind_ok']
        rw [space0_none _ (toChars_startsNot_space _ _)]; simp only [Res.bind_ok']
        exact cutErr_of_ok (pNumber_print a _ ha hstop_tail))]
    simp only [Res.bind_ok']
    refine ⟨trail, ht, ?_⟩
    have : geoOk ⟨g.lat, g.lon, some a⟩ = true := by rw [← hga]; exact hok
    rw [this]
    cases g; simp_all

/-- **location line** -/
theorem parseMetaLocation_print (L : Print.Layout) (hL : LayoutOK L) (g : Geo) (rest : List Char) (hg : GeoWF g) :
    parseMetaLocation (Print.locationLine L (some g) ++ rest) = .ok g rest := by
  unfold parseMetaLocation Print.locationLine
  rw [metaLineChars_eq]
  obtain ⟨w2, hw2, hv⟩ := pGeoUri_print g L.trail hL.eol rest hg hL.trail
  refine metaLine_print _ pGeoUri L.indent (Print.geoChars g) L.trail hL.eol rest g hL.indent hL.indent_ne
    key_location_startsNot (by decide) ?_ w2 hw2 hv
  rw [geoChars_eq]; exact startsNot_cons _ (by decide)

/-! ### tags -/

theorem intercalate_cons (sep a : List Char) (r : List (List Char)) :
    sep.intercalate (a :: r) = a ++ (r.map (fun p => sep ++ p)).flatten := by
  induction r generalizing a with
  | nil => simp [List.intercalate]
  | cons b t ih =>
    have := ih b
    simp only [List.intercalate, List.intersperse, List.flatten_cons, List.map_cons] at this ⊢
    rw [this]
    simp

/-- tags as the parser produces them: a non-empty list of `:`-joined multi-part names -/
def TagsWF (tags : List String) : Prop :=
  ∃ p0 ps, tags = (p0 :: ps).map (fun parts => acctName (toPath parts)) ∧ ∀ parts ∈ p0 :: ps, PartsWF parts

theorem idStart_ne (c d : Char) (hc : idStartChar c = true) (hd : idStartChar d = false) : c ≠ d := by
  intro e; rw [e, hd] at hc; cases hc

theorem partsWF_startsNot (parts : List (List Char)) (r : List Char) (h : PartsWF parts) (pred : Char → Bool)
    (hp : ∀ c, idStartChar c = true → pred c = false) : StartsNot pred (joinParts parts ++ r) := by
  obtain ⟨a, t, rfl, ⟨c, u, rfl, hc, _⟩, _⟩ := h
  rw [joinParts_cons]
  simp only [List.cons_append, List.append_assoc]
  exact startsNot_cons _ (hp c hc)

theorem isSpace_of_idStart (c : Char) (h : idStartChar c = true) : isSpace c = false := by
  simp only [isSpace, Bool.or_eq_false_iff, beq_eq_false_iff_ne, ne_eq]
  exact ⟨idStart_ne c ' ' h (by decide), idStart_ne c '\t' h (by decide)⟩

theorem nameStop_of_isSpace (c : Char) (h : isSpace c = true) : nameStop c = false := by
  simp [isSpace] at h
  rcases h with rfl | rfl <;> decide

end Syntax
end Tackler

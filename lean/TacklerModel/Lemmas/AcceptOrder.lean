import TacklerModel.Props.C12
import TacklerModel.Lemmas.Order
import TacklerModel.Model.Syntax
/-!
# Acceptance is independent of the order in which transactions (and files) pass through `Settings`

`acceptJournal st rs` threads the settings through the transactions (`mapMS acceptTxn`): lax mode registers
every account (with its ancestors), commodity and tag it meets, strict mode registers the empty commodity.
This file proves that none of that makes the *result* depend on the order:

* `View s s'` — what acceptance can see of the settings: the three switches and, in strict mode, the charts as
  sets (the empty commodity apart: whether it is accepted is decided by `permitEmpty`, not by the chart).
  `acceptTxn_view`: two settings with the same view give the same three-valued outcome and the same
  transaction (`OutV`); `acceptTxn_step_view`: a successful step does not change the view.
* `acceptJournal_pointwise` — **each transaction is accepted as if it were alone**:
  `(acceptJournal st rs).map fst = seqO (rs.map (acc st))` with `acc st r = (acceptTxn st r).map fst`, where `seqO`
  is "all results, or the first failure".  `acc st` depends only on the view of `st` (`acc_congr`).
* `accept_perm` and corollaries — for `rs.Perm rs'`: accepted iff accepted; the accepted lists are `rs`/`rs'`
  mapped through the same function (`accept_as_map`), hence permutations of each other by the same
  permutation; both fail together.  The *class* of the failure (`err` / `undef`) is that of the first failing
  transaction, so it agrees whenever the journal does not contain both kinds (`status_perm`); with both kinds
  present it is the order that decides, `status_order_witness` is the concrete example.
* `Eff` — the effect of a successful run on the charts, as sets, in terms of the names the parse trees use
  (`acceptJournal_eff`); `final_state_perm`: the final states of two permuted runs have the same switches and
  the same charts as sets (`SameCharts`), and in lax mode both account charts are ancestor-closed.
* files: `acceptFiles_flatten` (threading through files = threading through the concatenation),
  `loadFiles_eq` (text level: files that parse), `loadTrees`.
-/
set_option linter.unusedSimpArgs false
set_option linter.unusedVariables false

namespace Tackler
namespace AcceptOrder
open C12

/-! ## 1. what acceptance sees of the settings -/

/-- same switches; in strict mode the same charts as sets (non-empty commodities) -/
structure View (s s' : Settings) : Prop where
  flags : Flags s' = Flags s
  accts : s.strict = true → ∀ p, p ∈ s'.accounts ↔ p ∈ s.accounts
  comms : s.strict = true → ∀ n, n ≠ "" → (n ∈ s'.commodities ↔ n ∈ s.commodities)
  tags : s.strict = true → ∀ t, t ∈ s'.tags ↔ t ∈ s.tags

theorem View.strict_eq {s s' : Settings} (h : View s s') : s'.strict = s.strict := strict_of_flags h.flags

theorem View.pe {s s' : Settings} (h : View s s') : s'.permitEmpty = s.permitEmpty := by
  have := h.flags; simp only [Flags, Prod.mk.injEq] at this; exact this.2.2

theorem View.audit {s s' : Settings} (h : View s s') : s'.audit = s.audit := by
  have := h.flags; simp only [Flags, Prod.mk.injEq] at this; exact this.2.1

theorem View.refl (s : Settings) : View s s := ⟨rfl, fun _ _ => Iff.rfl, fun _ _ _ => Iff.rfl, fun _ _ => Iff.rfl⟩

theorem View.symm {s s' : Settings} (h : View s s') : View s' s :=
  ⟨h.flags.symm, fun hs p => (h.accts (h.strict_eq ▸ hs) p).symm,
   fun hs n hn => (h.comms (h.strict_eq ▸ hs) n hn).symm, fun hs t => (h.tags (h.strict_eq ▸ hs) t).symm⟩

theorem View.trans {s t u : Settings} (h1 : View s t) (h2 : View t u) : View s u :=
  ⟨h2.flags.trans h1.flags,
   fun hs p => (h2.accts (h1.strict_eq.trans hs) p).trans (h1.accts hs p),
   fun hs n hn => (h2.comms (h1.strict_eq.trans hs) n hn).trans (h1.comms hs n hn),
   fun hs t => (h2.tags (h1.strict_eq.trans hs) t).trans (h1.tags hs t)⟩

theorem View.lax {s s' : Settings} (h : View s s') (hs : s.strict = false) : LaxRel s s' :=
  ⟨hs, h.strict_eq.trans hs, h.pe, h.audit⟩

theorem view_of_lax {s s' : Settings} (h : LaxRel s s') : View s s' := by
  refine ⟨?_, ?_, ?_, ?_⟩
  · simp [Flags, h.l, h.l', h.pe, h.audit]
  all_goals (intro hs; rw [h.l] at hs; cases hs)

/-- a frozen step (strict mode) keeps the view -/
theorem view_of_frozen {s t : Settings} (h : Frozen s t) : View s t :=
  ⟨h.flags, fun _ p => by rw [h.accounts], fun _ n hn => h.comms n hn, fun _ x => by rw [h.tags]⟩

/-- same outcome class, same value, same view of the resulting settings -/
def OutV {β : Type} (o o' : Outcome (β × Settings)) : Prop :=
  match o, o' with
  | .ok (b, t), .ok (b', t') => b = b' ∧ View t t'
  | .err, .err => True
  | .undef, .undef => True
  | _, _ => False

def OutVS (o o' : Outcome Settings) : Prop :=
  match o, o' with
  | .ok t, .ok t' => View t t'
  | .err, .err => True
  | .undef, .undef => True
  | _, _ => False

theorem OutV.elim {β : Type} {o o' : Outcome (β × Settings)} (h : OutV o o') :
    (o = .err ∧ o' = .err) ∨ (o = .undef ∧ o' = .undef) ∨
    ∃ b t t', o = .ok (b, t) ∧ o' = .ok (b, t') ∧ View t t' := by
  cases o with
  | ok r => cases o' with
    | ok r' =>
      obtain ⟨b, t⟩ := r; obtain ⟨b', t'⟩ := r'
      simp only [OutV] at h
      obtain ⟨rfl, hr⟩ := h
      exact .inr (.inr ⟨b, t, t', rfl, rfl, hr⟩)
    | err => simp [OutV] at h
    | undef => simp [OutV] at h
  | err => cases o' <;> simp_all [OutV]
  | undef => cases o' <;> simp_all [OutV]

theorem OutVS.elim {o o' : Outcome Settings} (h : OutVS o o') :
    (o = .err ∧ o' = .err) ∨ (o = .undef ∧ o' = .undef) ∨ ∃ t t', o = .ok t ∧ o' = .ok t' ∧ View t t' := by
  cases o with
  | ok t => cases o' with
    | ok t' => exact .inr (.inr ⟨t, t', rfl, rfl, h⟩)
    | err => simp [OutVS] at h
    | undef => simp [OutVS] at h
  | err => cases o' <;> simp_all [OutVS]
  | undef => cases o' <;> simp_all [OutVS]

theorem OutV.of_sim {β : Type} {o o' : Outcome (β × Settings)} (h : OutSim o o') : OutV o o' := by
  rcases h.elim with ⟨e, e'⟩ | ⟨e, e'⟩ | ⟨b, t, t', e, e', hr⟩
  · simp [e, e', OutV]
  · simp [e, e', OutV]
  · simp only [e, e', OutV, true_and]; exact view_of_lax hr

theorem OutV.inexact {β : Type} (b : Bool) : OutV (Outcome.inexact b : Outcome (β × Settings)) (Outcome.inexact b) := by
  cases b <;> simp [Outcome.inexact, OutV]

theorem OutV.map_fst {β : Type} {o o' : Outcome (β × Settings)} (h : OutV o o') :
    o.map Prod.fst = o'.map Prod.fst := by
  rcases h.elim with ⟨e, e'⟩ | ⟨e, e'⟩ | ⟨b, t, t', e, e', _⟩ <;> simp [e, e', Outcome.map]

/-! ### the three primitives -/

theorem goc_view (s s' : Settings) (n : String) (hv : View s s') :
    OutV (s.getOrCreateCommodity (some n)) (s'.getOrCreateCommodity (some n)) := by
  by_cases hs : s.strict = true
  · have hs' : s'.strict = true := hv.strict_eq.trans hs
    by_cases hn : n = ""
    · subst hn
      by_cases hpe : s.permitEmpty = true
      · have hpe' : s'.permitEmpty = true := hv.pe.trans hpe
        have e1 : s.getOrCreateCommodity (some "") = .ok ("", { s with commodities := insertNew s.commodities "" }) := by
          simp [Settings.getOrCreateCommodity, hpe]
        have e2 : s'.getOrCreateCommodity (some "") = .ok ("", { s' with commodities := insertNew s'.commodities "" }) := by
          simp [Settings.getOrCreateCommodity, hpe']
        rw [e1, e2]
        refine ⟨rfl, hv.flags, fun _ p => hv.accts hs p, ?_, fun _ t => hv.tags hs t⟩
        intro _ m hm
        simp only [mem_insertNew, hm, or_false]
        exact hv.comms hs m hm
      · have hpe' : ¬ s'.permitEmpty = true := fun h => hpe (hv.pe.symm.trans h)
        simp [Settings.getOrCreateCommodity, hpe, hpe', OutV]
    · have hc := hv.comms hs n hn
      by_cases hm : n ∈ s.commodities
      · have hm' : n ∈ s'.commodities := hc.mpr hm
        simp only [Settings.getOrCreateCommodity, hn, hm, hm', if_true, if_false, OutV, true_and]
        exact hv
      · have hm' : n ∉ s'.commodities := fun h => hm (hc.mp h)
        simp [Settings.getOrCreateCommodity, hs, hs', hn, hm, hm', OutV]
  · exact OutV.of_sim (goc_sim s s' n (hv.lax (by simpa using hs)))

theorem tag_view (s s' : Settings) (n : String) (hv : View s s') :
    OutV (s.getOrCreateTag n) (s'.getOrCreateTag n) := by
  by_cases hs : s.strict = true
  · have hs' : s'.strict = true := hv.strict_eq.trans hs
    simp only [Settings.getOrCreateTag, hs, hs']
    by_cases hn : n = ""
    · simp [hn, OutV]
    · have hc := hv.tags hs n
      by_cases hm : n ∈ s.tags
      · have hm' : n ∈ s'.tags := hc.mpr hm
        simp only [hn, hm, hm', if_true, if_false, OutV, true_and]
        exact hv
      · have hm' : n ∉ s'.tags := fun h => hm (hc.mp h)
        simp [hn, hm, hm', OutV]
  · exact OutV.of_sim (tag_sim s s' n (hv.lax (by simpa using hs)))

theorem gocta_view (s s' : Settings) (p : Path) (c : String) (hv : View s s') :
    OutV (s.getOrCreateTxnAccount p c) (s'.getOrCreateTxnAccount p c) := by
  by_cases hs : s.strict = true
  · have h := goc_view s s' c hv
    unfold Settings.getOrCreateTxnAccount
    rcases h.elim with ⟨e, e'⟩ | ⟨e, e'⟩ | ⟨b, t, t', e, e', hv1⟩
    · simp [e, e', OutV]
    · simp [e, e', OutV]
    · have ht : t.strict = true := by
        obtain ⟨_, _, _, hfl, _⟩ := goc_other _ _ _ _ e
        exact (strict_of_flags hfl).trans hs
      have ht' : t'.strict = true := hv1.strict_eq.trans ht
      have hc := hv1.accts ht p
      by_cases hm : p ∈ t.accounts
      · have hm' : p ∈ t'.accounts := hc.mpr hm
        simp only [e, e', hm, hm', ht, ht', if_true, OutV, true_and]
        exact hv1
      · have hm' : p ∉ t'.accounts := fun h => hm (hc.mp h)
        simp [e, e', hm, hm', ht, ht', OutV]
  · exact OutV.of_sim (gocta_sim s s' p c (hv.lax (by simpa using hs)))

/-! ### the composite steps (same skeleton as the `OutSim` family of C12, for `View`) -/

theorem mapMS_view {α β : Type} (f : Settings → α → Outcome (β × Settings))
    (hf : ∀ s s' a, View s s' → OutV (f s a) (f s' a)) :
    ∀ (l : List α) (s s' : Settings), View s s' → OutV (mapMS f s l) (mapMS f s' l) := by
  intro l
  induction l with
  | nil => intro s s' hv; simp only [mapMS, OutV, true_and]; exact hv
  | cons a t ih =>
    intro s s' hv
    have h := hf s s' a hv
    simp only [mapMS]
    cases e : f s a with
    | err => cases e' : f s' a <;> simp_all [OutV]
    | undef => cases e' : f s' a <;> simp_all [OutV]
    | ok r =>
      cases e' : f s' a with
      | err => simp_all [OutV]
      | undef => simp_all [OutV]
      | ok r' =>
        obtain ⟨b, s1⟩ := r
        obtain ⟨b', s1'⟩ := r'
        rw [e, e'] at h
        simp only [OutV] at h
        obtain ⟨rfl, hr1⟩ := h
        have h2 := ih s1 s1' hr1
        cases e2 : mapMS f s1 t with
        | err => cases e2' : mapMS f s1' t <;> simp_all [OutV]
        | undef => cases e2' : mapMS f s1' t <;> simp_all [OutV]
        | ok r2 =>
          cases e2' : mapMS f s1' t with
          | err => simp_all [OutV]
          | undef => simp_all [OutV]
          | ok r2' =>
            obtain ⟨bs, s2⟩ := r2
            obtain ⟨bs', s2'⟩ := r2'
            rw [e2, e2'] at h2
            simp only [OutV] at h2
            simp only [e2, e2', OutV, h2.1, true_and]
            exact h2.2

theorem registerUnit_view (s s' : Settings) (u : Option PostUnit) (hv : View s s') :
    OutVS (registerUnit s u) (registerUnit s' u) := by
  cases u with
  | none => simp only [registerUnit, OutVS]; exact hv
  | some pu =>
    rcases (goc_view s s' pu.comm hv).elim with ⟨e, e'⟩ | ⟨e, e'⟩ | ⟨b, t, t', e, e', hr1⟩
    · simp [registerUnit, e, e', OutVS]
    · simp [registerUnit, e, e', OutVS]
    · cases hcl : pu.closing with
      | none => simp only [registerUnit, e, e', hcl, OutVS]; exact hr1
      | some cl =>
        cases cl with
        | total v =>
          rcases (goc_view t t' v.comm hr1).elim with ⟨f, f'⟩ | ⟨f, f'⟩ | ⟨b2, t2, t2', f, f', hr2⟩
          · simp [registerUnit, e, e', hcl, f, f', Outcome.map, OutVS]
          · simp [registerUnit, e, e', hcl, f, f', Outcome.map, OutVS]
          · simp only [registerUnit, e, e', hcl, f, f', Outcome.map, OutVS]; exact hr2
        | unitPrice v =>
          rcases (goc_view t t' v.comm hr1).elim with ⟨f, f'⟩ | ⟨f, f'⟩ | ⟨b2, t2, t2', f, f', hr2⟩
          · simp [registerUnit, e, e', hcl, f, f', Outcome.map, OutVS]
          · simp [registerUnit, e, e', hcl, f, f', Outcome.map, OutVS]
          · simp only [registerUnit, e, e', hcl, f, f', Outcome.map, OutVS]; exact hr2

theorem handlePosting_view (s s' : Settings) (rp : RawPosting) (hv : View s s') :
    OutV (handlePosting s rp) (handlePosting s' rp) := by
  rcases (registerUnit_view s s' rp.unit hv).elim with ⟨e, e'⟩ | ⟨e, e'⟩ | ⟨t, t', e, e', hr1⟩
  · simp [handlePosting, e, e', OutV]
  · simp [handlePosting, e, e', OutV]
  · cases ev : valuePosition rp.amount rp.unit with
    | err => simp [handlePosting, e, e', ev, OutV]
    | undef => simp [handlePosting, e, e', ev, OutV]
    | ok vp =>
      rcases (gocta_view t t' rp.acct vp.postComm hr1).elim with ⟨g, g'⟩ | ⟨g, g'⟩ | ⟨a, t2, t2', g, g', hr2⟩
      · simp [handlePosting, e, e', ev, g, g', OutV]
      · simp [handlePosting, e, e', ev, g, g', OutV]
      · cases em : mkPosting ⟨a, vp.postComm, vp.postAmount, vp.txnAmount, vp.isTotal, vp.txnComm, rp.comment⟩ with
        | err => simp [handlePosting, e, e', ev, g, g', em, Outcome.map, OutV]
        | undef => simp [handlePosting, e, e', ev, g, g', em, Outcome.map, OutV]
        | ok q => simp only [handlePosting, e, e', ev, g, g', em, Outcome.map, OutV, true_and]; exact hr2

theorem acceptPostings_view (s s' : Settings) (posts : List RawPosting) (last : Option (Path × Option String))
    (hv : View s s') : OutV (acceptPostings s posts last) (acceptPostings s' posts last) := by
  rcases (mapMS_view handlePosting handlePosting_view posts s s' hv).elim with ⟨e, e'⟩ | ⟨e, e'⟩ | ⟨ps, t, t', e, e', hr1⟩
  · simp [acceptPostings, e, e', OutV]
  · simp [acceptPostings, e, e', OutV]
  · cases ps with
    | nil => simp [acceptPostings, e, e', OutV]
    | cons p0 rest =>
      cases last with
      | none => simp only [acceptPostings, e, e', OutV, true_and]; exact hr1
      | some ac =>
        obtain ⟨a, cmt⟩ := ac
        cases esum : txnSum (p0 :: rest) with
        | none => simp only [acceptPostings, e, e', esum]; exact OutV.inexact _
        | some sm =>
          rcases (gocta_view t t' a p0.txnComm hr1).elim with ⟨g, g'⟩ | ⟨g, g'⟩ | ⟨a', t2, t2', g, g', hr2⟩
          · simp [acceptPostings, e, e', esum, g, g', OutV]
          · simp [acceptPostings, e, e', esum, g, g', OutV]
          · cases em : mkPosting ⟨a', p0.txnComm, sm.negate, sm.negate, false, p0.txnComm, cmt⟩ with
            | err => simp [acceptPostings, e, e', esum, g, g', em, Outcome.map, OutV]
            | undef => simp [acceptPostings, e, e', esum, g, g', em, Outcome.map, OutV]
            | ok q => simp only [acceptPostings, e, e', esum, g, g', em, Outcome.map, OutV, true_and]; exact hr2

theorem acceptTags_view (s s' : Settings) (tags : List String) (hv : View s s') :
    OutVS (acceptTags s tags) (acceptTags s' tags) := by
  rcases (mapMS_view (fun s t => s.getOrCreateTag t) tag_view tags s s' hv).elim with
    ⟨e, e'⟩ | ⟨e, e'⟩ | ⟨bs, t, t', e, e', hr1⟩
  · simp [acceptTags, e, e', OutVS]
  · simp [acceptTags, e, e', OutVS]
  · by_cases hn : tags.Nodup
    · simp only [acceptTags, e, e', hn, if_true, OutVS]; exact hr1
    · simp [acceptTags, e, e', hn, OutVS]

theorem acceptHeader_view (s s' : Settings) (h : Header) (hv : View s s') :
    OutVS (acceptHeader s h) (acceptHeader s' h) := by
  cases hloc : h.location with
  | none =>
    cases ht : h.tags with
    | none =>
      by_cases ha : (s.audit && h.uuid.isNone) = true
      · simp [acceptHeader, hloc, ht, hv.audit, ha, OutVS]
      · simp only [acceptHeader, hloc, ht, hv.audit, ha, Bool.false_eq_true, if_false, OutVS]; exact hv
    | some ts =>
      rcases (acceptTags_view s s' ts hv).elim with ⟨e, e'⟩ | ⟨e, e'⟩ | ⟨t, t', e, e', hr1⟩
      · simp [acceptHeader, hloc, ht, e, e', OutVS]
      · simp [acceptHeader, hloc, ht, e, e', OutVS]
      · by_cases ha : (s.audit && h.uuid.isNone) = true
        · simp [acceptHeader, hloc, ht, hv.audit, e, e', ha, OutVS]
        · simp only [acceptHeader, hloc, ht, hv.audit, e, e', ha, Bool.false_eq_true, if_false, OutVS]; exact hr1
  | some g =>
    cases hg : geoOk g with
    | false => simp [acceptHeader, hloc, hg, OutVS]
    | true =>
      cases ht : h.tags with
      | none =>
        by_cases ha : (s.audit && h.uuid.isNone) = true
        · simp [acceptHeader, hloc, hg, ht, hv.audit, ha, OutVS]
        · simp only [acceptHeader, hloc, hg, ht, hv.audit, ha, Bool.false_eq_true, if_false, OutVS]; exact hv
      | some ts =>
        rcases (acceptTags_view s s' ts hv).elim with ⟨e, e'⟩ | ⟨e, e'⟩ | ⟨t, t', e, e', hr1⟩
        · simp [acceptHeader, hloc, hg, ht, e, e', OutVS]
        · simp [acceptHeader, hloc, hg, ht, e, e', OutVS]
        · by_cases ha : (s.audit && h.uuid.isNone) = true
          · simp [acceptHeader, hloc, hg, ht, hv.audit, e, e', ha, OutVS]
          · simp only [acceptHeader, hloc, hg, ht, hv.audit, e, e', ha, Bool.false_eq_true, if_false, OutVS]; exact hr1

theorem acceptTxn_view (s s' : Settings) (r : RawTxn) (hv : View s s') :
    OutV (acceptTxn s r) (acceptTxn s' r) := by
  rcases (acceptHeader_view s s' r.header hv).elim with ⟨e, e'⟩ | ⟨e, e'⟩ | ⟨t, t', e, e', hr1⟩
  · simp [acceptTxn, e, e', OutV]
  · simp [acceptTxn, e, e', OutV]
  · rcases (acceptPostings_view t t' r.posts r.last hr1).elim with ⟨g, g'⟩ | ⟨g, g'⟩ | ⟨ps, t2, t2', g, g', hr2⟩
    · simp [acceptTxn, e, e', g, g', OutV]
    · simp [acceptTxn, e, e', g, g', OutV]
    · cases ps with
      | nil => simp [acceptTxn, e, e', g, g', OutV]
      | cons p0 tl =>
        by_cases hany : (p0 :: tl).any (fun p => p.txnComm != p0.txnComm) = true
        · simp [acceptTxn, e, e', g, g', hany, OutV]
        · cases esum : txnSum (p0 :: tl) with
          | none =>
            simp only [acceptTxn, e, e', g, g', hany, esum, Bool.false_eq_true, if_false]
            exact OutV.inexact _
          | some sm =>
            by_cases hz : sm.isZero = true
            · simp only [acceptTxn, e, e', g, g', hany, esum, hz, if_true, Bool.false_eq_true, if_false, OutV, true_and]
              exact hr2
            · simp [acceptTxn, e, e', g, g', hany, esum, hz, OutV]

/-- a successful step does not change what acceptance sees -/
theorem acceptTxn_step_view (s : Settings) (r : RawTxn) (t : Txn) (s2 : Settings)
    (h : acceptTxn s r = .ok (t, s2)) : View s s2 := by
  by_cases hs : s.strict = true
  · exact view_of_frozen (acceptTxn_spec.frozen s r t s2 hs h)
  · have hfl := acceptTxn_spec.flags s r t s2 h
    have hl : s.strict = false := by simpa using hs
    exact view_of_lax ⟨hl, (strict_of_flags hfl).trans hl, by
      simp only [Flags, Prod.mk.injEq] at hfl; exact hfl.2.2, by
      simp only [Flags, Prod.mk.injEq] at hfl; exact hfl.2.1⟩

/-! ## 2. each transaction is accepted as if it were alone -/

/-- all results, or the first failure (`collect::<Result<Vec<_>, _>>()`) -/
def seqO {β : Type} : List (Outcome β) → Outcome (List β)
  | [] => .ok []
  | .ok b :: os =>
    (match seqO os with
     | .ok bs => .ok (b :: bs)
     | .err => .err
     | .undef => .undef)
  | .err :: _ => .err
  | .undef :: _ => .undef

/-- acceptance of one transaction on its own, from the initial settings: outcome class and transaction -/
def acc (st : Settings) (r : RawTxn) : Outcome Txn := (acceptTxn st r).map Prod.fst

def okOpt {β : Type} : Outcome β → Option β
  | .ok b => some b
  | _ => none

/-- `acc` as a partial function -/
def accO (st : Settings) (r : RawTxn) : Option Txn := okOpt (acc st r)

/-- `acc st` depends on the settings only through the switches and, in strict mode, the charts as sets -/
theorem acc_congr (s s' : Settings) (hv : View s s') (r : RawTxn) : acc s r = acc s' r :=
  (acceptTxn_view s s' r hv).map_fst

theorem accO_congr (s s' : Settings) (hv : View s s') (r : RawTxn) : accO s r = accO s' r := by
  unfold accO; rw [acc_congr s s' hv r]

/-- lax mode: `acc` does not depend on the charts at all -/
theorem acc_lax (s s' : Settings) (hs : s.strict = false) (hs' : s'.strict = false)
    (hpe : s'.permitEmpty = s.permitEmpty) (ha : s'.audit = s.audit) (r : RawTxn) : acc s r = acc s' r :=
  acc_congr s s' (view_of_lax ⟨hs, hs', hpe, ha⟩) r

theorem accept_from_view (st : Settings) : ∀ (rs : List RawTxn) (t : Settings), View st t →
    (mapMS acceptTxn t rs).map Prod.fst = seqO (rs.map (acc st)) := by
  intro rs
  induction rs with
  | nil => intro t _; simp [mapMS, seqO, Outcome.map]
  | cons a tl ih =>
    intro t hv
    have h := acceptTxn_view st t a hv
    simp only [List.map_cons, mapMS]
    rcases h.elim with ⟨e, e'⟩ | ⟨e, e'⟩ | ⟨b, s1, t1, e, e', hv1⟩
    · simp [acc, e, e', seqO, Outcome.map]
    · simp [acc, e, e', seqO, Outcome.map]
    · have hv' : View st t1 := (acceptTxn_step_view st a b s1 e).trans hv1
      have := ih t1 hv'
      simp only [acc, e, e', seqO, Outcome.map] at this ⊢
      rw [← this]
      cases mapMS acceptTxn t1 tl with
      | ok r => obtain ⟨bs, s3⟩ := r; rfl
      | err => rfl
      | undef => rfl

/-- **pointwise acceptance.**  The transactions a journal is accepted to, and its three-valued status, are those
    of its transactions taken one by one from the *initial* settings: nothing an earlier transaction registers
    changes how a later one is accepted. -/
theorem acceptJournal_pointwise (st : Settings) (rs : List RawTxn) :
    (acceptJournal st rs).map Prod.fst = seqO (rs.map (acc st)) :=
  accept_from_view st rs st (View.refl st)

theorem seqO_ok {β : Type} : ∀ (os : List (Outcome β)) (bs : List β), seqO os = .ok bs ↔ os = bs.map Outcome.ok := by
  intro os
  induction os with
  | nil =>
    intro bs
    cases bs <;> simp [seqO]
  | cons o tl ih =>
    intro bs
    cases o with
    | err => cases bs <;> simp [seqO]
    | undef => cases bs <;> simp [seqO]
    | ok b =>
      simp only [seqO]
      cases h : seqO tl with
      | err =>
        cases bs with
        | nil => simp
        | cons b' bs' =>
          simp only [List.map_cons, List.cons.injEq, Outcome.ok.injEq, reduceCtorEq, false_iff, not_and]
          intro _ e
          have := (ih bs').mpr e
          rw [h] at this; cases this
      | undef =>
        cases bs with
        | nil => simp
        | cons b' bs' =>
          simp only [List.map_cons, List.cons.injEq, Outcome.ok.injEq, reduceCtorEq, false_iff, not_and]
          intro _ e
          have := (ih bs').mpr e
          rw [h] at this; cases this
      | ok bs0 =>
        have h0 := (ih bs0).mp h
        cases bs with
        | nil => simp
        | cons b' bs' =>
          simp only [Outcome.ok.injEq, List.cons.injEq, List.map_cons]
          constructor
          · rintro ⟨rfl, rfl⟩; exact ⟨rfl, h0⟩
          · rintro ⟨rfl, e⟩
            refine ⟨rfl, ?_⟩
            have := (ih bs').mpr e
            rw [h] at this
            cases this; rfl

theorem map_fst_ok {β : Type} (o : Outcome (β × Settings)) (b : β) :
    o.map Prod.fst = .ok b ↔ ∃ s, o = .ok (b, s) := by
  cases o with
  | ok r => obtain ⟨b', s⟩ := r; simp [Outcome.map]
  | err => simp [Outcome.map]
  | undef => simp [Outcome.map]

theorem accO_eq_some (st : Settings) (r : RawTxn) (t : Txn) : accO st r = some t ↔ acc st r = .ok t := by
  unfold accO
  cases acc st r <;> simp [okOpt]

/-- **acceptance as a map.**  A journal is accepted to `ts` iff `ts` is `rs` mapped through `accO st`, every
    transaction being accepted on its own: `ts[i]` is the acceptance of `rs[i]`, wherever it stands. -/
theorem accept_as_map (st : Settings) (rs : List RawTxn) (ts : List Txn) :
    (∃ st', acceptJournal st rs = .ok (ts, st')) ↔ rs.map (accO st) = ts.map some := by
  rw [← map_fst_ok, acceptJournal_pointwise, seqO_ok]
  constructor
  · intro h
    have e1 : rs.map (accO st) = (rs.map (acc st)).map okOpt := by simp [List.map_map, accO, Function.comp_def]
    have e2 : ts.map some = (ts.map Outcome.ok).map (okOpt (β := Txn)) := by simp [List.map_map, okOpt, Function.comp_def]
    rw [e1, e2, h]
  · intro h
    apply List.ext_getElem
    · have := congrArg List.length h; simpa using this
    · intro i h1 h2
      have hi : i < rs.length := by simpa using h1
      have hi' : i < ts.length := by simpa using h2
      have := congrArg (fun l => l[i]?) h
      simp only [List.getElem?_map, List.getElem?_eq_getElem hi, List.getElem?_eq_getElem hi', Option.map_some,
        Option.some.injEq] at this
      simp only [List.getElem_map]
      exact (accO_eq_some st _ _).mp this

/-- every member of an accepted journal is accepted on its own to its image -/
theorem accept_members (st st' : Settings) (rs : List RawTxn) (ts : List Txn)
    (h : acceptJournal st rs = .ok (ts, st')) : ts = rs.filterMap (accO st) ∧ ∀ r ∈ rs, ∃ t ∈ ts, accO st r = some t := by
  have hm := (accept_as_map st rs ts).mp ⟨st', h⟩
  constructor
  · have : (rs.map (accO st)).filterMap id = (ts.map some).filterMap id := by rw [hm]
    simpa [List.filterMap_map, Function.comp_def] using this.symm
  · intro r hr
    have : accO st r ∈ ts.map some := by rw [← hm]; exact List.mem_map_of_mem hr
    obtain ⟨t, ht, e⟩ := List.mem_map.mp this
    exact ⟨t, ht, e.symm⟩

/-! ## 3. permuting the journal -/

/-- **order independence of acceptance.**  If `rs'` is a permutation of `rs`: one is accepted iff the other is,
    and then the accepted lists are `rs` and `rs'` mapped through the same function `accO st` — so `ts'` is `ts`
    rearranged by the same permutation. -/
theorem accept_perm (st st₁ : Settings) (rs rs' : List RawTxn) (ts : List Txn) (hp : rs.Perm rs')
    (h : acceptJournal st rs = .ok (ts, st₁)) :
    ∃ ts' st₁', acceptJournal st rs' = .ok (ts', st₁') ∧ rs.map (accO st) = ts.map some ∧
      rs'.map (accO st) = ts'.map some ∧ ts.Perm ts' := by
  have hm := (accept_as_map st rs ts).mp ⟨st₁, h⟩
  obtain ⟨e1, hall⟩ := accept_members st st₁ rs ts h
  have hm' : rs'.map (accO st) = (rs'.filterMap (accO st)).map some := by
    apply List.ext_getElem
    · simp only [List.length_map]
      have : ∀ l : List RawTxn, (∀ r ∈ l, (accO st r).isSome) → (l.filterMap (accO st)).length = l.length := by
        intro l
        induction l with
        | nil => intro _; rfl
        | cons a tl ih =>
          intro hl
          have ha := hl a List.mem_cons_self
          obtain ⟨x, hx⟩ := Option.isSome_iff_exists.mp ha
          simp [List.filterMap_cons, hx, ih (fun r hr => hl r (List.mem_cons_of_mem _ hr))]
      rw [this]
      intro r hr
      obtain ⟨t, _, e⟩ := hall r (hp.symm.subset hr)
      simp [e]
    · intro i h1 h2
      have key : ∀ l : List RawTxn, (∀ r ∈ l, (accO st r).isSome) → l.map (accO st) = (l.filterMap (accO st)).map some := by
        intro l
        induction l with
        | nil => intro _; rfl
        | cons a tl ih =>
          intro hl
          have ha := hl a List.mem_cons_self
          obtain ⟨x, hx⟩ := Option.isSome_iff_exists.mp ha
          simp [List.filterMap_cons, hx, ih (fun r hr => hl r (List.mem_cons_of_mem _ hr))]
      have hk := key rs' (by
        intro r hr
        obtain ⟨t, _, e⟩ := hall r (hp.symm.subset hr)
        simp [e])
      simp only [hk]
  obtain ⟨st₁', h'⟩ := (accept_as_map st rs' _).mpr hm'
  refine ⟨_, st₁', h', hm, hm', ?_⟩
  rw [e1]
  exact hp.filterMap _

/-- accepted iff accepted -/
theorem accept_ok_perm (st : Settings) (rs rs' : List RawTxn) (hp : rs.Perm rs') :
    (∃ r, acceptJournal st rs = .ok r) ↔ ∃ r, acceptJournal st rs' = .ok r := by
  constructor
  · rintro ⟨⟨ts, s1⟩, h⟩
    obtain ⟨ts', s1', h', _⟩ := accept_perm st s1 rs rs' ts hp h
    exact ⟨_, h'⟩
  · rintro ⟨⟨ts, s1⟩, h⟩
    obtain ⟨ts', s1', h', _⟩ := accept_perm st s1 rs' rs ts hp.symm h
    exact ⟨_, h'⟩

end AcceptOrder
end Tackler

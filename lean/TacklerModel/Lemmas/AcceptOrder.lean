import TacklerModel.Props.C12
import TacklerModel.Lemmas.Order
import TacklerModel.Model.Syntax
/-!
# Acceptance is independent of the order in which transactions (and files) pass through `Settings`

`acceptJournal st rs` threads the settings through the transactions (`mapMS acceptTxn`): lax mode registers
every account (with its ancestors), commodity and tag it meets, strict mode registers the empty commodity.
This file proves that none of that makes the *result* depend on the order:

* `View s s'` — what acceptance can see of the settings: the three switches and, in strict mode, the charts as
  sets (the empty commodity apart: whether it is accepted is decided by `permitEmpty`, not by the chart).
  `acceptTxn_view`: two settings with the same view give the same three-valued outcome and the same
  transaction (`OutV`); `acceptTxn_step_view`: a successful step does not change the view.
* `acceptJournal_pointwise` — **each transaction is accepted as if it were alone**:
  `(acceptJournal st rs).map fst = seqO (rs.map (acc st))` with `acc st r = (acceptTxn st r).map fst`, where `seqO`
  is "all results, or the first failure".  `acc st` depends only on the view of `st` (`acc_congr`).
* `accept_perm` and corollaries — for `rs.Perm rs'`: accepted iff accepted; the accepted lists are `rs`/`rs'`
  mapped through the same function (`accept_as_map`), hence permutations of each other by the same
  permutation; both fail together.  The *class* of the failure (`err` / `undef`) is that of the first failing
  transaction, so it agrees whenever the journal does not contain both kinds (`status_perm`); with both kinds
  present it is the order that decides, `status_order_witness` is the concrete example.
* `Eff` — the effect of a successful run on the charts, as sets, in terms of the names the parse trees use
  (`acceptJournal_eff`); `final_state_perm`: the final states of two permuted runs have the same switches and
  the same charts as sets (`SameCharts`), and in lax mode both account charts are ancestor-closed.
* files: `acceptFiles_flatten` (threading through files = threading through the concatenation),
  `loadFiles_eq` (text level: files that parse), `loadTrees`.
-/
set_option linter.unusedSimpArgs false
set_option linter.unusedVariables false

namespace Tackler
namespace AcceptOrder
open C12

/-! ## 1. what acceptance sees of the settings -/

/-- same switches; in strict mode the same charts as sets (non-empty commodities) -/
structure View (s s' : Settings) : Prop where
  flags : Flags s' = Flags s
  accts : s.strict = true → ∀ p, p ∈ s'.accounts ↔ p ∈ s.accounts
  comms : s.strict = true → ∀ n, n ≠ "" → (n ∈ s'.commodities ↔ n ∈ s.commodities)
  tags : s.strict = true → ∀ t, t ∈ s'.tags ↔ t ∈ s.tags

theorem View.strict_eq {s s' : Settings} (h : View s s') : s'.strict = s.strict := strict_of_flags h.flags

theorem View.pe {s s' : Settings} (h : View s s') : s'.permitEmpty = s.permitEmpty := by
  have := h.flags; simp only [Flags, Prod.mk.injEq] at this; exact this.2.2

theorem View.audit {s s' : Settings} (h : View s s') : s'.audit = s.audit := by
  have := h.flags; simp only [Flags, Prod.mk.injEq] at this; exact this.2.1

theorem View.refl (s : Settings) : View s s := ⟨rfl, fun _ _ => Iff.rfl, fun _ _ _ => Iff.rfl, fun _ _ => Iff.rfl⟩

theorem View.symm {s s' : Settings} (h : View s s') : View s' s :=
  ⟨h.flags.symm, fun hs p => (h.accts (h.strict_eq ▸ hs) p).symm,
   fun hs n hn => (h.comms (h.strict_eq ▸ hs) n hn).symm, fun hs t => (h.tags (h.strict_eq ▸ hs) t).symm⟩

theorem View.trans {s t u : Settings} (h1 : View s t) (h2 : View t u) : View s u :=
  ⟨h2.flags.trans h1.flags,
   fun hs p => (h2.accts (h1.strict_eq.trans hs) p).trans (h1.accts hs p),
   fun hs n hn => (h2.comms (h1.strict_eq.trans hs) n hn).trans (h1.comms hs n hn),
   fun hs t => (h2.tags (h1.strict_eq.trans hs) t).trans (h1.tags hs t)⟩

theorem View.lax {s s' : Settings} (h : View s s') (hs : s.strict = false) : LaxRel s s' :=
  ⟨hs, h.strict_eq.trans hs, h.pe, h.audit⟩

theorem view_of_lax {s s' : Settings} (h : LaxRel s s') : View s s' := by
  refine ⟨?_, ?_, ?_, ?_⟩
  · simp [Flags, h.l, h.l', h.pe, h.audit]
  all_goals (intro hs; rw [h.l] at hs; cases hs)

/-- a frozen step (strict mode) keeps the view -/
theorem view_of_frozen {s t : Settings} (h : Frozen s t) : View s t :=
  ⟨h.flags, fun _ p => by rw [h.accounts], fun _ n hn => h.comms n hn, fun _ x => by rw [h.tags]⟩

/-- same outcome class, same value, same view of the resulting settings -/
def OutV {β : Type} (o o' : Outcome (β × Settings)) : Prop :=
  match o, o' with
  | .ok (b, t), .ok (b', t') => b = b' ∧ View t t'
  | .err, .err => True
  | .undef, .undef => True
  | _, _ => False

def OutVS (o o' : Outcome Settings) : Prop :=
  match o, o' with
  | .ok t, .ok t' => View t t'
  | .err, .err => True
  | .undef, .undef => True
  | _, _ => False

theorem OutV.elim {β : Type} {o o' : Outcome (β × Settings)} (h : OutV o o') :
    (o = .err ∧ o' = .err) ∨ (o = .undef ∧ o' = .undef) ∨
    ∃ b t t', o = .ok (b, t) ∧ o' = .ok (b, t') ∧ View t t' := by
  cases o with
  | ok r => cases o' with
    | ok r' =>
      obtain ⟨b, t⟩ := r; obtain ⟨b', t'⟩ := r'
      simp only [OutV] at h
      obtain ⟨rfl, hr⟩ := h
      exact .inr (.inr ⟨b, t, t', rfl, rfl, hr⟩)
    | err => simp [OutV] at h
    | undef => simp [OutV] at h
  | err => cases o' <;> simp_all [OutV]
  | undef => cases o' <;> simp_all [OutV]

theorem OutVS.elim {o o' : Outcome Settings} (h : OutVS o o') :
    (o = .err ∧ o' = .err) ∨ (o = .undef ∧ o' = .undef) ∨ ∃ t t', o = .ok t ∧ o' = .ok t' ∧ View t t' := by
  cases o with
  | ok t => cases o' with
    | ok t' => exact .inr (.inr ⟨t, t', rfl, rfl, h⟩)
    | err => simp [OutVS] at h
    | undef => simp [OutVS] at h
  | err => cases o' <;> simp_all [OutVS]
  | undef => cases o' <;> simp_all [OutVS]

theorem OutV.of_sim {β : Type} {o o' : Outcome (β × Settings)} (h : OutSim o o') : OutV o o' := by
  rcases h.elim with ⟨e, e'⟩ | ⟨e, e'⟩ | ⟨b, t, t', e, e', hr⟩
  · simp [e, e', OutV]
  · simp [e, e', OutV]
  · simp only [e, e', OutV, true_and]; exact view_of_lax hr

theorem OutV.inexact {β : Type} (b : Bool) : OutV (Outcome.inexact b : Outcome (β × Settings)) (Outcome.inexact b) := by
  cases b <;> simp [Outcome.inexact, OutV]

theorem OutV.map_fst {β : Type} {o o' : Outcome (β × Settings)} (h : OutV o o') :
    o.map Prod.fst = o'.map Prod.fst := by
  rcases h.elim with ⟨e, e'⟩ | ⟨e, e'⟩ | ⟨b, t, t', e, e', _⟩ <;> simp [e, e', Outcome.map]

/-! ### the three primitives -/

theorem goc_view (s s' : Settings) (n : String) (hv : View s s') :
    OutV (s.getOrCreateCommodity (some n)) (s'.getOrCreateCommodity (some n)) := by
  by_cases hs : s.strict = true
  · have hs' : s'.strict = true := hv.strict_eq.trans hs
    by_cases hn : n = ""
    · subst hn
      by_cases hpe : s.permitEmpty = true
      · have hpe' : s'.permitEmpty = true := hv.pe.trans hpe
        have e1 : s.getOrCreateCommodity (some "") = .ok ("", { s with commodities := insertNew s.commodities "" }) := by
          simp [Settings.getOrCreateCommodity, hpe]
        have e2 : s'.getOrCreateCommodity (some "") = .ok ("", { s' with commodities := insertNew s'.commodities "" }) := by
          simp [Settings.getOrCreateCommodity, hpe']
        rw [e1, e2]
        refine ⟨rfl, hv.flags, fun _ p => hv.accts hs p, ?_, fun _ t => hv.tags hs t⟩
        intro _ m hm
        simp only [mem_insertNew, hm, or_false]
        exact hv.comms hs m hm
      · have hpe' : ¬ s'.permitEmpty = true := fun h => hpe (hv.pe.symm.trans h)
        simp [Settings.getOrCreateCommodity, hpe, hpe', OutV]
    · have hc := hv.comms hs n hn
      by_cases hm : n ∈ s.commodities
      · have hm' : n ∈ s'.commodities := hc.mpr hm
        simp only [Settings.getOrCreateCommodity, hn, hm, hm', if_true, if_false, OutV, true_and]
        exact hv
      · have hm' : n ∉ s'.commodities := fun h => hm (hc.mp h)
        simp [Settings.getOrCreateCommodity, hs, hs', hn, hm, hm', OutV]
  · exact OutV.of_sim (goc_sim s s' n (hv.lax (by simpa using hs)))

theorem tag_view (s s' : Settings) (n : String) (hv : View s s') :
    OutV (s.getOrCreateTag n) (s'.getOrCreateTag n) := by
  by_cases hs : s.strict = true
  · have hs' : s'.strict = true := hv.strict_eq.trans hs
    simp only [Settings.getOrCreateTag, hs, hs']
    by_cases hn : n = ""
    · simp [hn, OutV]
    · have hc := hv.tags hs n
      by_cases hm : n ∈ s.tags
      · have hm' : n ∈ s'.tags := hc.mpr hm
        simp only [hn, hm, hm', if_true, if_false, OutV, true_and]
        exact hv
      · have hm' : n ∉ s'.tags := fun h => hm (hc.mp h)
        simp [hn, hm, hm', OutV]
  · exact OutV.of_sim (tag_sim s s' n (hv.lax (by simpa using hs)))

theorem gocta_view (s s' : Settings) (p : Path) (c : String) (hv : View s s') :
    OutV (s.getOrCreateTxnAccount p c) (s'.getOrCreateTxnAccount p c) := by
  by_cases hs : s.strict = true
  · have h := goc_view s s' c hv
    unfold Settings.getOrCreateTxnAccount
    rcases h.elim with ⟨e, e'⟩ | ⟨e, e'⟩ | ⟨b, t, t', e, e', hv1⟩
    · simp [e, e', OutV]
    · simp [e, e', OutV]
    · have ht : t.strict = true := by
        obtain ⟨_, _, _, hfl, _⟩ := goc_other _ _ _ _ e
        exact (strict_of_flags hfl).trans hs
      have ht' : t'.strict = true := hv1.strict_eq.trans ht
      have hc := hv1.accts ht p
      by_cases hm : p ∈ t.accounts
      · have hm' : p ∈ t'.accounts := hc.mpr hm
        simp only [e, e', hm, hm', ht, ht', if_true, OutV, true_and]
        exact hv1
      · have hm' : p ∉ t'.accounts := fun h => hm (hc.mp h)
        simp [e, e', hm, hm', ht, ht', OutV]
  · exact OutV.of_sim (gocta_sim s s' p c (hv.lax (by simpa using hs)))

/-! ### the composite steps (same skeleton as the `OutSim` family of C12, for `View`) -/

theorem mapMS_view {α β : Type} (f : Settings → α → Outcome (β × Settings))
    (hf : ∀ s s' a, View s s' → OutV (f s a) (f s' a)) :
    ∀ (l : List α) (s s' : Settings), View s s' → OutV (mapMS f s l) (mapMS f s' l) := by
  intro l
  induction l with
  | nil => intro s s' hv; simp only [mapMS, OutV, true_and]; exact hv
  | cons a t ih =>
    intro s s' hv
    have h := hf s s' a hv
    simp only [mapMS]
    cases e : f s a with
    | err => cases e' : f s' a <;> simp_all [OutV]
    | undef => cases e' : f s' a <;> simp_all [OutV]
    | ok r =>
      cases e' : f s' a with
      | err => simp_all [OutV]
      | undef => simp_all [OutV]
      | ok r' =>
        obtain ⟨b, s1⟩ := r
        obtain ⟨b', s1'⟩ := r'
        rw [e, e'] at h
        simp only [OutV] at h
        obtain ⟨rfl, hr1⟩ := h
        have h2 := ih s1 s1' hr1
        cases e2 : mapMS f s1 t with
        | err => cases e2' : mapMS f s1' t <;> simp_all [OutV]
        | undef => cases e2' : mapMS f s1' t <;> simp_all [OutV]
        | ok r2 =>
          cases e2' : mapMS f s1' t with
          | err => simp_all [OutV]
          | undef => simp_all [OutV]
          | ok r2' =>
            obtain ⟨bs, s2⟩ := r2
            obtain ⟨bs', s2'⟩ := r2'
            rw [e2, e2'] at h2
            simp only [OutV] at h2
            simp only [e2, e2', OutV, h2.1, true_and]
            exact h2.2

theorem registerUnit_view (s s' : Settings) (u : Option PostUnit) (hv : View s s') :
    OutVS (registerUnit s u) (registerUnit s' u) := by
  cases u with
  | none => simp only [registerUnit, OutVS]; exact hv
  | some pu =>
    rcases (goc_view s s' pu.comm hv).elim with ⟨e, e'⟩ | ⟨e, e'⟩ | ⟨b, t, t', e, e', hr1⟩
    · simp [registerUnit, e, e', OutVS]
    · simp [registerUnit, e, e', OutVS]
    · cases hcl : pu.closing with
      | none => simp only [registerUnit, e, e', hcl, OutVS]; exact hr1
      | some cl =>
        cases cl with
        | total v =>
          rcases (goc_view t t' v.comm hr1).elim with ⟨f, f'⟩ | ⟨f, f'⟩ | ⟨b2, t2, t2', f, f', hr2⟩
          · simp [registerUnit, e, e', hcl, f, f', Outcome.map, OutVS]
          · simp [registerUnit, e, e', hcl, f, f', Outcome.map, OutVS]
          · simp only [registerUnit, e, e', hcl, f, f', Outcome.map, OutVS]; exact hr2
        | unitPrice v =>
          rcases (goc_view t t' v.comm hr1).elim with ⟨f, f'⟩ | ⟨f, f'⟩ | ⟨b2, t2, t2', f, f', hr2⟩
          · simp [registerUnit, e, e', hcl, f, f', Outcome.map, OutVS]
          · simp [registerUnit, e, e', hcl, f, f', Outcome.map, OutVS]
          · simp only [registerUnit, e, e', hcl, f, f', Outcome.map, OutVS]; exact hr2

theorem handlePosting_view (s s' : Settings) (rp : RawPosting) (hv : View s s') :
    OutV (handlePosting s rp) (handlePosting s' rp) := by
  rcases (registerUnit_view s s' rp.unit hv).elim with ⟨e, e'⟩ | ⟨e, e'⟩ | ⟨t, t', e, e', hr1⟩
  · simp [handlePosting, e, e', OutV]
  · simp [handlePosting, e, e', OutV]
  · cases ev : valuePosition rp.amount rp.unit with
    | err => simp [handlePosting, e, e', ev, OutV]
    | undef => simp [handlePosting, e, e', ev, OutV]
    | ok vp =>
      rcases (gocta_view t t' rp.acct vp.postComm hr1).elim with ⟨g, g'⟩ | ⟨g, g'⟩ | ⟨a, t2, t2', g, g', hr2⟩
      · simp [handlePosting, e, e', ev, g, g', OutV]
      · simp [handlePosting, e, e', ev, g, g', OutV]
      · cases em : mkPosting ⟨a, vp.postComm, vp.postAmount, vp.txnAmount, vp.isTotal, vp.txnComm, rp.comment⟩ with
        | err => simp [handlePosting, e, e', ev, g, g', em, Outcome.map, OutV]
        | undef => simp [handlePosting, e, e', ev, g, g', em, Outcome.map, OutV]
        | ok q => simp only [handlePosting, e, e', ev, g, g', em, Outcome.map, OutV, true_and]; exact hr2

theorem acceptPostings_view (s s' : Settings) (posts : List RawPosting) (last : Option (Path × Option String))
    (hv : View s s') : OutV (acceptPostings s posts last) (acceptPostings s' posts last) := by
  rcases (mapMS_view handlePosting handlePosting_view posts s s' hv).elim with ⟨e, e'⟩ | ⟨e, e'⟩ | ⟨ps, t, t', e, e', hr1⟩
  · simp [acceptPostings, e, e', OutV]
  · simp [acceptPostings, e, e', OutV]
  · cases ps with
    | nil => simp [acceptPostings, e, e', OutV]
    | cons p0 rest =>
      cases last with
      | none => simp only [acceptPostings, e, e', OutV, true_and]; exact hr1
      | some ac =>
        obtain ⟨a, cmt⟩ := ac
        cases esum : txnSum (p0 :: rest) with
        | none => simp only [acceptPostings, e, e', esum]; exact OutV.inexact _
        | some sm =>
          rcases (gocta_view t t' a p0.txnComm hr1).elim with ⟨g, g'⟩ | ⟨g, g'⟩ | ⟨a', t2, t2', g, g', hr2⟩
          · simp [acceptPostings, e, e', esum, g, g', OutV]
          · simp [acceptPostings, e, e', esum, g, g', OutV]
          · cases em : mkPosting ⟨a', p0.txnComm, sm.negate, sm.negate, false, p0.txnComm, cmt⟩ with
            | err => simp [acceptPostings, e, e', esum, g, g', em, Outcome.map, OutV]
            | undef => simp [acceptPostings, e, e', esum, g, g', em, Outcome.map, OutV]
            | ok q => simp only [acceptPostings, e, e', esum, g, g', em, Outcome.map, OutV, true_and]; exact hr2

theorem acceptTags_view (s s' : Settings) (tags : List String) (hv : View s s') :
    OutVS (acceptTags s tags) (acceptTags s' tags) := by
  rcases (mapMS_view (fun s t => s.getOrCreateTag t) tag_view tags s s' hv).elim with
    ⟨e, e'⟩ | ⟨e, e'⟩ | ⟨bs, t, t', e, e', hr1⟩
  · simp [acceptTags, e, e', OutVS]
  · simp [acceptTags, e, e', OutVS]
  · by_cases hn : tags.Nodup
    · simp only [acceptTags, e, e', hn, if_true, OutVS]; exact hr1
    · simp [acceptTags, e, e', hn, OutVS]

theorem acceptHeader_view (s s' : Settings) (h : Header) (hv : View s s') :
    OutVS (acceptHeader s h) (acceptHeader s' h) := by
  cases hloc : h.location with
  | none =>
    cases ht : h.tags with
    | none =>
      by_cases ha : (s.audit && h.uuid.isNone) = true
      · simp [acceptHeader, hloc, ht, hv.audit, ha, OutVS]
      · simp only [acceptHeader, hloc, ht, hv.audit, ha, Bool.false_eq_true, if_false, OutVS]; exact hv
    | some ts =>
      rcases (acceptTags_view s s' ts hv).elim with ⟨e, e'⟩ | ⟨e, e'⟩ | ⟨t, t', e, e', hr1⟩
      · simp [acceptHeader, hloc, ht, e, e', OutVS]
      · simp [acceptHeader, hloc, ht, e, e', OutVS]
      · by_cases ha : (s.audit && h.uuid.isNone) = true
        · simp [acceptHeader, hloc, ht, hv.audit, e, e', ha, OutVS]
        · simp only [acceptHeader, hloc, ht, hv.audit, e, e', ha, Bool.false_eq_true, if_false, OutVS]; exact hr1
  | some g =>
    cases hg : geoOk g with
    | false => simp [acceptHeader, hloc, hg, OutVS]
    | true =>
      cases ht : h.tags with
      | none =>
        by_cases ha : (s.audit && h.uuid.isNone) = true
        · simp [acceptHeader, hloc, hg, ht, hv.audit, ha, OutVS]
        · simp only [acceptHeader, hloc, hg, ht, hv.audit, ha, Bool.false_eq_true, if_false, OutVS]; exact hv
      | some ts =>
        rcases (acceptTags_view s s' ts hv).elim with ⟨e, e'⟩ | ⟨e, e'⟩ | ⟨t, t', e, e', hr1⟩
        · simp [acceptHeader, hloc, hg, ht, e, e', OutVS]
        · simp [acceptHeader, hloc, hg, ht, e, e', OutVS]
        · by_cases ha : (s.audit && h.uuid.isNone) = true
          · simp [acceptHeader, hloc, hg, ht, hv.audit, e, e', ha, OutVS]
          · simp only [acceptHeader, hloc, hg, ht, hv.audit, e, e', ha, Bool.false_eq_true, if_false, OutVS]; exact hr1

theorem acceptTxn_view (s s' : Settings) (r : RawTxn) (hv : View s s') :
    OutV (acceptTxn s r) (acceptTxn s' r) := by
  rcases (acceptHeader_view s s' r.header hv).elim with ⟨e, e'⟩ | ⟨e, e'⟩ | ⟨t, t', e, e', hr1⟩
  · simp [acceptTxn, e, e', OutV]
  · simp [acceptTxn, e, e', OutV]
  · rcases (acceptPostings_view t t' r.posts r.last hr1).elim with ⟨g, g'⟩ | ⟨g, g'⟩ | ⟨ps, t2, t2', g, g', hr2⟩
    · simp [acceptTxn, e, e', g, g', OutV]
    · simp [acceptTxn, e, e', g, g', OutV]
    · cases ps with
      | nil => simp [acceptTxn, e, e', g, g', OutV]
      | cons p0 tl =>
        by_cases hany : (p0 :: tl).any (fun p => p.txnComm != p0.txnComm) = true
        · simp [acceptTxn, e, e', g, g', hany, OutV]
        · cases esum : txnSum (p0 :: tl) with
          | none =>
            simp only [acceptTxn, e, e', g, g', hany, esum, Bool.false_eq_true, if_false]
            exact OutV.inexact _
          | some sm =>
            by_cases hz : sm.isZero = true
            · simp only [acceptTxn, e, e', g, g', hany, esum, hz, if_true, Bool.false_eq_true, if_false, OutV, true_and]
              exact hr2
            · simp [acceptTxn, e, e', g, g', hany, esum, hz, OutV]

/-- a successful step does not change what acceptance sees -/
theorem acceptTxn_step_view (s : Settings) (r : RawTxn) (t : Txn) (s2 : Settings)
    (h : acceptTxn s r = .ok (t, s2)) : View s s2 := by
  by_cases hs : s.strict = true
  · exact view_of_frozen (acceptTxn_spec.frozen s r t s2 hs h)
  · have hfl := acceptTxn_spec.flags s r t s2 h
    have hl : s.strict = false := by simpa using hs
    exact view_of_lax ⟨hl, (strict_of_flags hfl).trans hl, by
      simp only [Flags, Prod.mk.injEq] at hfl; exact hfl.2.2, by
      simp only [Flags, Prod.mk.injEq] at hfl; exact hfl.2.1⟩

/-! ## 2. each transaction is accepted as if it were alone -/

/-- all results, or the first failure (`collect::<Result<Vec<_>, _>>()`) -/
def seqO {β : Type} : List (Outcome β) → Outcome (List β)
  | [] => .ok []
  | .ok b :: os =>
    (match seqO os with
     | .ok bs => .ok (b :: bs)
     | .err => .err
     | .undef => .undef)
  | .err :: _ => .err
  | .undef :: _ => .undef

/-- acceptance of one transaction on its own, from the initial settings: outcome class and transaction -/
def acc (st : Settings) (r : RawTxn) : Outcome Txn := (acceptTxn st r).map Prod.fst

def okOpt {β : Type} : Outcome β → Option β
  | .ok b => some b
  | _ => none

/-- `acc` as a partial function -/
def accO (st : Settings) (r : RawTxn) : Option Txn := okOpt (acc st r)

/-- `acc st` depends on the settings only through the switches and, in strict mode, the charts as sets -/
theorem acc_congr (s s' : Settings) (hv : View s s') (r : RawTxn) : acc s r = acc s' r :=
  (acceptTxn_view s s' r hv).map_fst

theorem accO_congr (s s' : Settings) (hv : View s s') (r : RawTxn) : accO s r = accO s' r := by
  unfold accO; rw [acc_congr s s' hv r]

/-- lax mode: `acc` does not depend on the charts at all -/
theorem acc_lax (s s' : Settings) (hs : s.strict = false) (hs' : s'.strict = false)
    (hpe : s'.permitEmpty = s.permitEmpty) (ha : s'.audit = s.audit) (r : RawTxn) : acc s r = acc s' r :=
  acc_congr s s' (view_of_lax ⟨hs, hs', hpe, ha⟩) r

theorem accept_from_view (st : Settings) : ∀ (rs : List RawTxn) (t : Settings), View st t →
    (mapMS acceptTxn t rs).map Prod.fst = seqO (rs.map (acc st)) := by
  intro rs
  induction rs with
  | nil => intro t _; simp [mapMS, seqO, Outcome.map]
  | cons a tl ih =>
    intro t hv
    have h := acceptTxn_view st t a hv
    simp only [List.map_cons, mapMS]
    rcases h.elim with ⟨e, e'⟩ | ⟨e, e'⟩ | ⟨b, s1, t1, e, e', hv1⟩
    · simp [acc, e, e', seqO, Outcome.map]
    · simp [acc, e, e', seqO, Outcome.map]
    · have hv' : View st t1 := (acceptTxn_step_view st a b s1 e).trans hv1
      have := ih t1 hv'
      simp only [acc, e, e', seqO, Outcome.map] at this ⊢
      rw [← this]
      cases mapMS acceptTxn t1 tl with
      | ok r => obtain ⟨bs, s3⟩ := r; rfl
      | err => rfl
      | undef => rfl

/-- **pointwise acceptance.**  The transactions a journal is accepted to, and its three-valued status, are those
    of its transactions taken one by one from the *initial* settings: nothing an earlier transaction registers
    changes how a later one is accepted. -/
theorem acceptJournal_pointwise (st : Settings) (rs : List RawTxn) :
    (acceptJournal st rs).map Prod.fst = seqO (rs.map (acc st)) :=
  accept_from_view st rs st (View.refl st)

theorem seqO_ok {β : Type} : ∀ (os : List (Outcome β)) (bs : List β), seqO os = .ok bs ↔ os = bs.map Outcome.ok := by
  intro os
  induction os with
  | nil =>
    intro bs
    cases bs <;> simp [seqO]
  | cons o tl ih =>
    intro bs
    cases o with
    | err => cases bs <;> simp [seqO]
    | undef => cases bs <;> simp [seqO]
    | ok b =>
      simp only [seqO]
      cases h : seqO tl with
      | err =>
        cases bs with
        | nil => simp
        | cons b' bs' =>
          simp only [List.map_cons, List.cons.injEq, Outcome.ok.injEq, reduceCtorEq, false_iff, not_and]
          intro _ e
          have := (ih bs').mpr e
          rw [h] at this; cases this
      | undef =>
        cases bs with
        | nil => simp
        | cons b' bs' =>
          simp only [List.map_cons, List.cons.injEq, Outcome.ok.injEq, reduceCtorEq, false_iff, not_and]
          intro _ e
          have := (ih bs').mpr e
          rw [h] at this; cases this
      | ok bs0 =>
        have h0 := (ih bs0).mp h
        cases bs with
        | nil => simp
        | cons b' bs' =>
          simp only [Outcome.ok.injEq, List.cons.injEq, List.map_cons]
          constructor
          · rintro ⟨rfl, rfl⟩; exact ⟨rfl, h0⟩
          · rintro ⟨rfl, e⟩
            refine ⟨rfl, ?_⟩
            have := (ih bs').mpr e
            rw [h] at this
            cases this; rfl

theorem map_fst_ok {β : Type} (o : Outcome (β × Settings)) (b : β) :
    o.map Prod.fst = .ok b ↔ ∃ s, o = .ok (b, s) := by
  cases o with
  | ok r => obtain ⟨b', s⟩ := r; simp [Outcome.map]
  | err => simp [Outcome.map]
  | undef => simp [Outcome.map]

theorem accO_eq_some (st : Settings) (r : RawTxn) (t : Txn) : accO st r = some t ↔ acc st r = .ok t := by
  unfold accO
  cases acc st r <;> simp [okOpt]

/-- **acceptance as a map.**  A journal is accepted to `ts` iff `ts` is `rs` mapped through `accO st`, every
    transaction being accepted on its own: `ts[i]` is the acceptance of `rs[i]`, wherever it stands. -/
theorem accept_as_map (st : Settings) (rs : List RawTxn) (ts : List Txn) :
    (∃ st', acceptJournal st rs = .ok (ts, st')) ↔ rs.map (accO st) = ts.map some := by
  rw [← map_fst_ok, acceptJournal_pointwise, seqO_ok]
  constructor
  · intro h
    have e1 : rs.map (accO st) = (rs.map (acc st)).map okOpt := by simp [List.map_map, accO, Function.comp_def]
    have e2 : ts.map some = (ts.map Outcome.ok).map (okOpt (β := Txn)) := by simp [List.map_map, okOpt, Function.comp_def]
    rw [e1, e2, h]
  · intro h
    apply List.ext_getElem
    · have := congrArg List.length h; simpa using this
    · intro i h1 h2
      have hi : i < rs.length := by simpa using h1
      have hi' : i < ts.length := by simpa using h2
      have := congrArg (fun l => l[i]?) h
      simp only [List.getElem?_map, List.getElem?_eq_getElem hi, List.getElem?_eq_getElem hi', Option.map_some,
        Option.some.injEq] at this
      simp only [List.getElem_map]
      exact (accO_eq_some st _ _).mp this

/-- every member of an accepted journal is accepted on its own to its image -/
theorem accept_members (st st' : Settings) (rs : List RawTxn) (ts : List Txn)
    (h : acceptJournal st rs = .ok (ts, st')) : ts = rs.filterMap (accO st) ∧ ∀ r ∈ rs, ∃ t ∈ ts, accO st r = some t := by
  have hm := (accept_as_map st rs ts).mp ⟨st', h⟩
  constructor
  · have : (rs.map (accO st)).filterMap id = (ts.map some).filterMap id := by rw [hm]
    simpa [List.filterMap_map, Function.comp_def] using this.symm
  · intro r hr
    have : accO st r ∈ ts.map some := by rw [← hm]; exact List.mem_map_of_mem hr
    obtain ⟨t, ht, e⟩ := List.mem_map.mp this
    exact ⟨t, ht, e.symm⟩

theorem map_eq_filterMap_some {α β : Type} (f : α → Option β) : ∀ l : List α, (∀ r ∈ l, (f r).isSome) →
    l.map f = (l.filterMap f).map some := by
  intro l
  induction l with
  | nil => intro _; rfl
  | cons a tl ih =>
    intro hl
    have ha := hl a List.mem_cons_self
    obtain ⟨x, hx⟩ := Option.isSome_iff_exists.mp ha
    simp [List.filterMap_cons, hx, ih (fun r hr => hl r (List.mem_cons_of_mem _ hr))]

/-! ## 3. permuting the journal -/

/-- **order independence of acceptance.**  If `rs'` is a permutation of `rs`: one is accepted iff the other is,
    and then the accepted lists are `rs` and `rs'` mapped through the same function `accO st` — so `ts'` is `ts`
    rearranged by the same permutation. -/
theorem accept_perm (st st₁ : Settings) (rs rs' : List RawTxn) (ts : List Txn) (hp : rs.Perm rs')
    (h : acceptJournal st rs = .ok (ts, st₁)) :
    ∃ ts' st₁', acceptJournal st rs' = .ok (ts', st₁') ∧ rs.map (accO st) = ts.map some ∧
      rs'.map (accO st) = ts'.map some ∧ ts.Perm ts' := by
  have hm := (accept_as_map st rs ts).mp ⟨st₁, h⟩
  obtain ⟨e1, hall⟩ := accept_members st st₁ rs ts h
  have hm' : rs'.map (accO st) = (rs'.filterMap (accO st)).map some := by
    apply map_eq_filterMap_some
    intro r hr
    obtain ⟨t, _, e⟩ := hall r (hp.symm.subset hr)
    simp [e]
  obtain ⟨st₁', h'⟩ := (accept_as_map st rs' _).mpr hm'
  refine ⟨_, st₁', h', hm, hm', ?_⟩
  rw [e1]
  exact hp.filterMap _

/-- accepted iff accepted -/
theorem accept_ok_perm (st : Settings) (rs rs' : List RawTxn) (hp : rs.Perm rs') :
    (∃ r, acceptJournal st rs = .ok r) ↔ ∃ r, acceptJournal st rs' = .ok r := by
  constructor
  · rintro ⟨⟨ts, s1⟩, h⟩
    obtain ⟨ts', s1', h', _⟩ := accept_perm st s1 rs rs' ts hp h
    exact ⟨_, h'⟩
  · rintro ⟨⟨ts, s1⟩, h⟩
    obtain ⟨ts', s1', h', _⟩ := accept_perm st s1 rs' rs ts hp.symm h
    exact ⟨_, h'⟩

/-! ### the class of a failure -/

theorem seqO_err_mem {β : Type} : ∀ (os : List (Outcome β)), seqO os = .err → Outcome.err ∈ os := by
  intro os
  induction os with
  | nil => intro h; simp [seqO] at h
  | cons o tl ih =>
    intro h
    cases o with
    | err => exact List.mem_cons_self
    | undef => simp [seqO] at h
    | ok b =>
      simp only [seqO] at h
      cases e : seqO tl with
      | ok bs => rw [e] at h; cases h
      | undef => rw [e] at h; cases h
      | err => exact List.mem_cons_of_mem _ (ih e)

theorem seqO_undef_mem {β : Type} : ∀ (os : List (Outcome β)), seqO os = .undef → Outcome.undef ∈ os := by
  intro os
  induction os with
  | nil => intro h; simp [seqO] at h
  | cons o tl ih =>
    intro h
    cases o with
    | undef => exact List.mem_cons_self
    | err => simp [seqO] at h
    | ok b =>
      simp only [seqO] at h
      cases e : seqO tl with
      | ok bs => rw [e] at h; cases h
      | err => rw [e] at h; cases h
      | undef => exact List.mem_cons_of_mem _ (ih e)

/-- the status of a load: accepted / rejected / outside the modelled numeric domain -/
def status {β : Type} (o : Outcome β) : Outcome Unit := o.map (fun _ => ())

theorem journal_err_mem (st : Settings) (rs : List RawTxn) (h : acceptJournal st rs = .err) :
    ∃ r ∈ rs, acc st r = .err := by
  have := acceptJournal_pointwise st rs
  rw [h] at this
  have := seqO_err_mem _ this.symm
  obtain ⟨r, hr, e⟩ := List.mem_map.mp this
  exact ⟨r, hr, e⟩

theorem journal_undef_mem (st : Settings) (rs : List RawTxn) (h : acceptJournal st rs = .undef) :
    ∃ r ∈ rs, acc st r = .undef := by
  have := acceptJournal_pointwise st rs
  rw [h] at this
  have := seqO_undef_mem _ this.symm
  obtain ⟨r, hr, e⟩ := List.mem_map.mp this
  exact ⟨r, hr, e⟩

/-- **three-valued agreement.**  The status of a failing journal is that of its *first* failing transaction.
    Permuted journals therefore fail together, and with the same class whenever the journal does not contain
    both a transaction that is rejected on its own and one that is outside the modelled domain on its own. -/
theorem status_perm (st : Settings) (rs rs' : List RawTxn) (hp : rs.Perm rs')
    (hone : (∀ r ∈ rs, acc st r ≠ .undef) ∨ (∀ r ∈ rs, acc st r ≠ .err)) :
    status (acceptJournal st rs) = status (acceptJournal st rs') := by
  have hok := accept_ok_perm st rs rs' hp
  cases h : acceptJournal st rs with
  | ok r =>
    obtain ⟨r', h'⟩ := hok.mp ⟨r, h⟩
    simp [h', status, Outcome.map]
  | err =>
    cases h' : acceptJournal st rs' with
    | ok r' => obtain ⟨r, h2⟩ := hok.mpr ⟨r', h'⟩; rw [h] at h2; cases h2
    | err => rfl
    | undef =>
      obtain ⟨a, ha, ea⟩ := journal_err_mem st rs h
      obtain ⟨b, hb, eb⟩ := journal_undef_mem st rs' h'
      rcases hone with h1 | h1
      · exact absurd eb (h1 b (hp.symm.subset hb))
      · exact absurd ea (h1 a ha)
  | undef =>
    cases h' : acceptJournal st rs' with
    | ok r' => obtain ⟨r, h2⟩ := hok.mpr ⟨r', h'⟩; rw [h] at h2; cases h2
    | undef => rfl
    | err =>
      obtain ⟨a, ha, ea⟩ := journal_undef_mem st rs h
      obtain ⟨b, hb, eb⟩ := journal_err_mem st rs' h'
      rcases hone with h1 | h1
      · exact absurd ea (h1 a ha)
      · exact absurd eb (h1 b (hp.symm.subset hb))

/-- both fail, whatever the classes -/
theorem fail_perm (st : Settings) (rs rs' : List RawTxn) (hp : rs.Perm rs') :
    (acceptJournal st rs).isOk = (acceptJournal st rs').isOk := by
  have hok := accept_ok_perm st rs rs' hp
  cases h : acceptJournal st rs with
  | ok r => obtain ⟨r', h'⟩ := hok.mp ⟨r, h⟩; simp [h', Outcome.isOk]
  | err =>
    cases h' : acceptJournal st rs' with
    | ok r' => obtain ⟨r, h2⟩ := hok.mpr ⟨r', h'⟩; rw [h] at h2; cases h2
    | err => rfl
    | undef => rfl
  | undef =>
    cases h' : acceptJournal st rs' with
    | ok r' => obtain ⟨r, h2⟩ := hok.mpr ⟨r', h'⟩; rw [h] at h2; cases h2
    | err => rfl
    | undef => rfl

/-! ## 4. the effect of an accepted journal on the charts, as sets -/

/-- `q` is `p` or a non-empty proper prefix (ancestor) of it -/
def Anc (q p : Path) : Prop := q = p ∨ (q ≠ [] ∧ q <+: p)

/-- the charts of `s2` are those of `s` plus the names `A` (accounts, with their ancestors in lax mode),
    `C` (commodities), `T` (tags); the switches and the synthetic parents are unchanged -/
structure Eff (s s2 : Settings) (A : List Path) (C T : List String) : Prop where
  flags : Flags s2 = Flags s
  synthetic : s2.synthetic = s.synthetic
  comms : ∀ c, c ∈ s2.commodities ↔ c ∈ s.commodities ∨ c ∈ C
  tags : ∀ t, t ∈ s2.tags ↔ t ∈ s.tags ∨ t ∈ T
  acctsStrict : s.strict = true → s2.accounts = s.accounts
  acctsLax : s.strict = false → AncClosed s.accounts →
    AncClosed s2.accounts ∧ ∀ q, q ∈ s2.accounts ↔ q ∈ s.accounts ∨ ∃ p ∈ A, Anc q p

theorem Eff.refl (s : Settings) : Eff s s [] [] [] :=
  ⟨rfl, rfl, by simp, by simp, fun _ => rfl, fun _ h => ⟨h, by simp⟩⟩

theorem Eff.trans {s t u : Settings} {A A' : List Path} {C C' T T' : List String}
    (h1 : Eff s t A C T) (h2 : Eff t u A' C' T') : Eff s u (A ++ A') (C ++ C') (T ++ T') := by
  have hst : t.strict = s.strict := strict_of_flags h1.flags
  refine ⟨h2.flags.trans h1.flags, h2.synthetic.trans h1.synthetic, ?_, ?_, ?_, ?_⟩
  · intro c; rw [h2.comms, h1.comms]; simp [or_assoc]
  · intro c; rw [h2.tags, h1.tags]; simp [or_assoc]
  · intro hs; rw [h2.acctsStrict (hst.trans hs), h1.acctsStrict hs]
  · intro hs hcl
    obtain ⟨c1, m1⟩ := h1.acctsLax hs hcl
    obtain ⟨c2, m2⟩ := h2.acctsLax (hst.trans hs) c1
    refine ⟨c2, ?_⟩
    intro q
    rw [m2, m1]
    constructor
    · rintro ((h | ⟨p, hp, ha⟩) | ⟨p, hp, ha⟩)
      · exact .inl h
      · exact .inr ⟨p, List.mem_append_left _ hp, ha⟩
      · exact .inr ⟨p, List.mem_append_right _ hp, ha⟩
    · rintro (h | ⟨p, hp, ha⟩)
      · exact .inl (.inl h)
      · rcases List.mem_append.mp hp with hp | hp
        · exact .inl (.inr ⟨p, hp, ha⟩)
        · exact .inr ⟨p, hp, ha⟩

theorem Eff.congr {s t : Settings} {A A' : List Path} {C C' T T' : List String} (h : Eff s t A C T)
    (hA : ∀ x, x ∈ A' ↔ x ∈ A) (hC : ∀ x, x ∈ C' ↔ x ∈ C) (hT : ∀ x, x ∈ T' ↔ x ∈ T) : Eff s t A' C' T' := by
  refine ⟨h.flags, h.synthetic, ?_, ?_, h.acctsStrict, ?_⟩
  · intro c; rw [h.comms, hC]
  · intro c; rw [h.tags, hT]
  · intro hs hcl
    obtain ⟨c1, m1⟩ := h.acctsLax hs hcl
    refine ⟨c1, fun q => ?_⟩
    rw [m1]
    constructor
    · rintro (h | ⟨p, hp, ha⟩)
      · exact .inl h
      · exact .inr ⟨p, (hA p).mpr hp, ha⟩
    · rintro (h | ⟨p, hp, ha⟩)
      · exact .inl h
      · exact .inr ⟨p, (hA p).mp hp, ha⟩

/-- `build_account_tree` adds only ancestors of the account -/
theorem build_only (other : List Path) : ∀ (fuel : Nat) (target : List Path) (p q : Path),
    q ∈ buildAccountTree other fuel target p → q ∈ target ∨ (q ≠ [] ∧ q <+: p) := by
  intro fuel
  induction fuel with
  | zero => intro target p q h; simp only [buildAccountTree] at h; exact .inl h
  | succ fuel ih =>
    intro target p q h
    simp only [buildAccountTree] at h
    split at h
    · exact .inl h
    · split at h
      · exact .inl h
      · rename_i h1 _
        have hpre : parentPath p <+: p := List.dropLast_prefix p
        rcases ih _ _ _ h with hq | ⟨hq1, hq2⟩
        · rcases List.mem_append.mp hq with hq | hq
          · exact .inl hq
          · have : q = parentPath p := by simpa using hq
            subst this
            refine .inr ⟨?_, hpre⟩
            intro e
            have := parentPath_length p
            rw [e] at this
            simp at this
            omega
        · exact .inr ⟨hq1, hq2.trans hpre⟩

theorem goc_eff (s : Settings) (n c : String) (s1 : Settings)
    (h : s.getOrCreateCommodity (some n) = .ok (c, s1)) : Eff s s1 [] [n] [] := by
  obtain ⟨hacc, hsyn, htags, hfl, _, _⟩ := goc_other _ _ _ _ h
  refine ⟨hfl, hsyn, ?_, by simp [htags], fun _ => hacc, fun _ hcl => ⟨by rw [hacc]; exact hcl, by simp [hacc]⟩⟩
  simp only [Settings.getOrCreateCommodity] at h
  intro x
  (repeat' split at h) <;> first | (cases h; done) | (cases h; simp_all [mem_insertNew]; done) |
    (cases h; simp [mem_insertNew]; constructor <;> (intro hh; rcases hh with hh | hh <;> simp_all))

theorem tag_eff (s : Settings) (n b : String) (s1 : Settings)
    (h : s.getOrCreateTag n = .ok (b, s1)) : Eff s s1 [] [] [n] := by
  simp only [Settings.getOrCreateTag] at h
  (repeat' split at h) <;> first | (cases h; done) |
    (cases h; refine ⟨rfl, rfl, by simp, ?_, fun _ => rfl, fun _ hcl => ⟨hcl, by simp⟩⟩; intro t; simp; try (intro e; subst e; assumption))

theorem gocta_eff (s : Settings) (p : Path) (c : String) (b : Path) (s2 : Settings)
    (h : s.getOrCreateTxnAccount p c = .ok (b, s2)) : Eff s s2 [p] [c] [] := by
  obtain ⟨c', s1, hc, hcase⟩ := gocta_state _ _ _ _ _ h
  have e1 := goc_eff _ _ _ _ hc
  obtain ⟨g, hp, _⟩ := gocta_grow _ _ _ _ _ h
  have hacc1 : s1.accounts = s.accounts := (goc_other _ _ _ _ hc).1
  rcases hcase with ⟨hs, rfl⟩ | ⟨hs, hfl, hsyn, htags, hcomm, hacc, _⟩
  · refine ⟨e1.flags, e1.synthetic, e1.comms, e1.tags, e1.acctsStrict, ?_⟩
    intro hl; rw [hs] at hl; cases hl
  · refine ⟨g.flags, g.synthetic, ?_, ?_, ?_, ?_⟩
    · intro x; rw [hcomm]; exact e1.comms x
    · intro x; rw [htags]; exact e1.tags x
    · intro hst; rw [hs] at hst; cases hst
    · intro _ hcl
      have hcl2 := g.closed hs hcl
      refine ⟨hcl2, ?_⟩
      intro q
      constructor
      · intro hq
        rcases hacc with hacc | hacc <;> rw [hacc] at hq
        · rcases build_only [] _ _ _ _ hq with h1 | h1
          · exact .inl (hacc1 ▸ h1)
          · exact .inr ⟨p, by simp, .inr h1⟩
        · rcases build_only [] _ _ _ _ hq with h1 | h1
          · rcases List.mem_append.mp h1 with h1 | h1
            · exact .inl (hacc1 ▸ h1)
            · have : q = p := by simpa using h1
              exact .inr ⟨p, by simp, .inl this⟩
          · exact .inr ⟨p, by simp, .inr h1⟩
      · rintro (hq | ⟨p', hp', ha⟩)
        · exact g.accounts q hq
        · have : p' = p := by simpa using hp'
          subst this
          rcases ha with rfl | ⟨hne, hpre⟩
          · exact hp
          · exact closed_prefix (fun x => x ∈ s2.accounts) hcl2 p'.length p' q rfl hp hne hpre

/-- the commodity of the posting itself (`""` when it has none) -/
def postCommU : Option PostUnit → String
  | none => ""
  | some u => u.comm

/-- the commodities one posting line registers: those of its value position and the posting's own -/
def postingComms (rp : RawPosting) : List String := unitComms rp.unit ++ [postCommU rp.unit]

theorem valuePosition_names (amount : Dec) (unit : Option PostUnit) (vp : VP)
    (h : valuePosition amount unit = .ok vp) :
    vp.postComm = postCommU unit ∧ vp.txnComm ∈ unitComms unit ++ [postCommU unit] := by
  unfold valuePosition at h
  split at h
  · cases h; simp [postCommU]
  · rename_i u
    split at h
    · rename_i hcl
      split at h
      · cases h
      · cases h; simp [unitComms, hcl, postCommU]
    · rename_i v hcl
      (repeat' split at h) <;> first | (cases h; done) | (exact absurd h (Outcome.inexact_ne_ok _ _)) |
        (cases h; simp [unitComms, hcl, postCommU])
    · rename_i v hcl
      (repeat' split at h) <;> first | (cases h; done) | (exact absurd h (Outcome.inexact_ne_ok _ _)) |
        (cases h; simp [unitComms, hcl, postCommU])

theorem registerUnit_eff (s : Settings) (u : Option PostUnit) (s2 : Settings) (h : registerUnit s u = .ok s2) :
    Eff s s2 [] (unitComms u) [] := by
  rcases registerUnit_inv s u s2 h with ⟨rfl, rfl⟩ | ⟨pu, c1, rfl, hcl, h1⟩ | ⟨pu, v, c1, s1, c2, rfl, hcl, h1, h2⟩
  · exact Eff.refl _
  · simpa [unitComms, hcl] using goc_eff _ _ _ _ h1
  · have := (goc_eff _ _ _ _ h1).trans (goc_eff _ _ _ _ h2)
    rcases hcl with hcl | hcl <;> simpa [unitComms, hcl] using this

theorem handlePosting_eff (s : Settings) (rp : RawPosting) (p : Posting) (s2 : Settings)
    (h : handlePosting s rp = .ok (p, s2)) :
    Eff s s2 [rp.acct] (postingComms rp) [] ∧ p.txnComm ∈ postingComms rp := by
  obtain ⟨s1, vp, a, h1, h2, h3, h4⟩ := (handlePosting_ok _ _ _ _).mp h
  have := mkPosting_eq _ _ h4
  subst this
  obtain ⟨e1, e2⟩ := valuePosition_names _ _ _ h2
  have := (registerUnit_eff _ _ _ h1).trans (gocta_eff _ _ _ _ _ h3)
  rw [e1] at this
  exact ⟨by simpa [postingComms] using this, e2⟩

theorem mapMS_eff {α β : Type} (f : Settings → α → Outcome (β × Settings))
    (A : α → List Path) (C T : α → List String)
    (hf : ∀ s a b t, f s a = .ok (b, t) → Eff s t (A a) (C a) (T a)) :
    ∀ (l : List α) (s : Settings) (bs : List β) (t : Settings), mapMS f s l = .ok (bs, t) →
      Eff s t (l.flatMap A) (l.flatMap C) (l.flatMap T) := by
  intro l
  induction l with
  | nil => intro s bs t h; simp only [mapMS] at h; cases h; exact Eff.refl _
  | cons a tl ih =>
    intro s bs t h
    obtain ⟨b, s1, bs', h1, h2, rfl⟩ := (mapMS_cons_ok f s t a tl bs).mp h
    simpa [List.flatMap_cons] using (hf s a b s1 h1).trans (ih s1 bs' t h2)

/-- the accounts a transaction names: those of its posting lines and of the amount-less last one -/
def txnAccts (r : RawTxn) : List Path :=
  r.posts.flatMap (fun rp => [rp.acct]) ++ (match r.last with | some (a, _) => [a] | none => [])

/-- the commodities a transaction registers -/
def txnComms (r : RawTxn) : List String := r.posts.flatMap postingComms

theorem acceptPostings_eff (s : Settings) (r : RawTxn) (all : List Posting) (s2 : Settings)
    (h : acceptPostings s r.posts r.last = .ok (all, s2)) : Eff s s2 (txnAccts r) (txnComms r) [] := by
  obtain ⟨p0, rest, s1, h1, hcase⟩ := (acceptPostings_ok _ _ _ _ _).mp h
  have e1 := mapMS_eff handlePosting (fun rp => [rp.acct]) postingComms (fun _ => [])
    (fun s a b t hh => (handlePosting_eff s a b t hh).1) _ _ _ _ h1
  have e1' : Eff s s1 (r.posts.flatMap (fun rp => [rp.acct])) (txnComms r) [] :=
    e1.congr (fun _ => Iff.rfl) (fun _ => Iff.rfl) (by simp)
  rcases hcase with ⟨hl, _, rfl⟩ | ⟨a, cmt, sm, a', l, hl, _, hg, _, _⟩
  · simpa [txnAccts, hl] using e1'
  · have e2 := e1'.trans (gocta_eff _ _ _ _ _ hg)
    -- the last posting's commodity is the first posting's transaction commodity, already registered
    obtain ⟨rp, hrp, sa, sb, hh⟩ := mapMS_ok handlePosting r.posts s s1 (p0 :: rest) h1 p0 List.mem_cons_self
    have hmem : p0.txnComm ∈ txnComms r :=
      List.mem_flatMap.mpr ⟨rp, hrp, (handlePosting_eff _ _ _ _ hh).2⟩
    refine e2.congr ?_ ?_ (by simp)
    · intro x; simp [txnAccts, hl]
    · intro x
      simp only [List.mem_append, List.mem_singleton]
      constructor
      · exact fun hx => .inl hx
      · rintro (hx | rfl)
        · exact hx
        · exact hmem

def txnTagsL (r : RawTxn) : List String := txnTags r

theorem acceptTags_eff (s : Settings) (tags : List String) (s2 : Settings) (h : acceptTags s tags = .ok s2) :
    Eff s s2 [] [] tags := by
  obtain ⟨⟨bs, h1⟩, _⟩ := (acceptTags_ok _ _ _).mp h
  have := mapMS_eff (fun s t => s.getOrCreateTag t) (fun _ => []) (fun _ => []) (fun t => [t])
    (fun s a b t hh => tag_eff s a b t hh) _ _ _ _ h1
  exact this.congr (by simp) (by simp) (by simp)

theorem acceptHeader_eff (s : Settings) (r : RawTxn) (s2 : Settings) (hh : acceptHeader s r.header = .ok s2) :
    Eff s s2 [] [] (txnTags r) := by
  obtain ⟨_, _, hcase⟩ := (acceptHeader_ok _ _ _).mp hh
  rcases hcase with ⟨ht, rfl⟩ | ⟨ts, ht, h1⟩
  · simpa [txnTags, ht] using Eff.refl _
  · simpa [txnTags, ht] using acceptTags_eff _ _ _ h1

theorem acceptTxn_eff (s : Settings) (r : RawTxn) (t : Txn) (s2 : Settings) (h : acceptTxn s r = .ok (t, s2)) :
    Eff s s2 (txnAccts r) (txnComms r) (txnTags r) := by
  obtain ⟨s1, ps, h1, h2, _, _⟩ := (acceptTxn_ok _ _ _ _).mp h
  simpa using (acceptHeader_eff _ _ _ h1).trans (acceptPostings_eff _ _ _ _ h2)

/-- **the final charts** of an accepted journal, as sets: the initial charts plus every commodity and tag the
    journal names, plus (lax mode, from an ancestor-closed chart) every account it names with all its ancestors;
    in strict mode the account chart is unchanged. -/
theorem acceptJournal_eff (s : Settings) (rs : List RawTxn) (ts : List Txn) (s2 : Settings)
    (h : acceptJournal s rs = .ok (ts, s2)) :
    Eff s s2 (rs.flatMap txnAccts) (rs.flatMap txnComms) (rs.flatMap txnTags) :=
  mapMS_eff acceptTxn txnAccts txnComms txnTags acceptTxn_eff _ _ _ _ h

/-- same switches, same charts as sets -/
structure SameCharts (s s' : Settings) : Prop where
  flags : Flags s' = Flags s
  accounts : ∀ p, p ∈ s'.accounts ↔ p ∈ s.accounts
  synthetic : s'.synthetic = s.synthetic
  commodities : ∀ c, c ∈ s'.commodities ↔ c ∈ s.commodities
  tags : ∀ t, t ∈ s'.tags ↔ t ∈ s.tags

theorem SameCharts.refl (s : Settings) : SameCharts s s := ⟨rfl, fun _ => Iff.rfl, rfl, fun _ => Iff.rfl, fun _ => Iff.rfl⟩

theorem SameCharts.view {s s' : Settings} (h : SameCharts s s') : View s s' :=
  ⟨h.flags, fun _ p => h.accounts p, fun _ n _ => h.commodities n, fun _ t => h.tags t⟩

/-- the lookups the reports make do not tell such settings apart -/
theorem SameCharts.getTxnAccount {s s' : Settings} (h : SameCharts s s') (p : Path) (c : String) :
    s'.getTxnAccount p c = s.getTxnAccount p c := by
  unfold Settings.getTxnAccount
  by_cases h1 : c ∈ s.commodities <;> by_cases h2 : p ∈ s.accounts <;> by_cases h3 : p ∈ s.synthetic <;>
    simp [h1, h2, h3, h.commodities, h.accounts, h.synthetic]

theorem SameCharts.getCommodity {s s' : Settings} (h : SameCharts s s') (c : String) :
    s'.getCommodity c = s.getCommodity c := by
  unfold Settings.getCommodity
  by_cases h1 : c ∈ s.commodities <;> simp [h1, h.commodities]

theorem same_of_eff {s t t' : Settings} {A A' : List Path} {C C' T T' : List String}
    (h : Eff s t A C T) (h' : Eff s t' A' C' T') (hcl : s.strict = false → AncClosed s.accounts)
    (hA : ∀ x, x ∈ A ↔ x ∈ A') (hC : ∀ x, x ∈ C ↔ x ∈ C') (hT : ∀ x, x ∈ T ↔ x ∈ T') :
    SameCharts t t' ∧ (s.strict = false → AncClosed t.accounts ∧ AncClosed t'.accounts) := by
  refine ⟨⟨h'.flags.trans h.flags.symm, ?_, h'.synthetic.trans h.synthetic.symm, ?_, ?_⟩, ?_⟩
  · intro p
    by_cases hs : s.strict = true
    · rw [h.acctsStrict hs, h'.acctsStrict hs]
    · have hl : s.strict = false := by simpa using hs
      rw [(h.acctsLax hl (hcl hl)).2, (h'.acctsLax hl (hcl hl)).2]
      constructor
      · rintro (hq | ⟨x, hx, ha⟩)
        · exact .inl hq
        · exact .inr ⟨x, (hA x).mpr hx, ha⟩
      · rintro (hq | ⟨x, hx, ha⟩)
        · exact .inl hq
        · exact .inr ⟨x, (hA x).mp hx, ha⟩
  · intro c; rw [h.comms, h'.comms, hC]
  · intro c; rw [h.tags, h'.tags, hT]
  · intro hl; exact ⟨(h.acctsLax hl (hcl hl)).1, (h'.acctsLax hl (hcl hl)).1⟩

/-- **the final states of permuted journals agree on everything observable**: the switches, the synthetic parents,
    and the account / commodity / tag charts as sets; in lax mode both account charts are ancestor-closed.
    (`hcl`: in lax mode the initial account chart is ancestor-closed, as `Settings.ofConfig` builds it —
    `C12.ofConfig_closed`.) -/
theorem final_state_perm (st s₁ s₁' : Settings) (rs rs' : List RawTxn) (ts ts' : List Txn) (hp : rs.Perm rs')
    (hcl : st.strict = false → AncClosed st.accounts)
    (h : acceptJournal st rs = .ok (ts, s₁)) (h' : acceptJournal st rs' = .ok (ts', s₁')) :
    SameCharts s₁ s₁' ∧ (st.strict = false → AncClosed s₁.accounts ∧ AncClosed s₁'.accounts) :=
  same_of_eff (acceptJournal_eff _ _ _ _ h) (acceptJournal_eff _ _ _ _ h') hcl
    (fun _ => (hp.flatMap_right _).mem_iff) (fun _ => (hp.flatMap_right _).mem_iff) (fun _ => (hp.flatMap_right _).mem_iff)

/-! ## 5. headers, distinguishability -/

theorem acc_header (st : Settings) (r : RawTxn) (t : Txn) (h : acc st r = .ok t) : t.header = r.header := by
  obtain ⟨s2, h2⟩ := (map_fst_ok _ _).mp h
  obtain ⟨_, ps, _, _, rfl, _⟩ := (acceptTxn_ok _ _ _ _).mp h2
  rfl

/-- accepted transactions of pairwise distinguishable parse trees are pairwise distinguishable -/
theorem accepted_distinct (st st' : Settings) (rs : List RawTxn) (ts : List Txn)
    (h : acceptJournal st rs = .ok (ts, st'))
    (hd : ∀ a b, a ∈ rs → b ∈ rs → hdrKey a.header = hdrKey b.header → a = b) :
    ∀ a b, a ∈ ts → b ∈ ts → hdrKey a.header = hdrKey b.header → a = b := by
  obtain ⟨e, _⟩ := accept_members st st' rs ts h
  intro a b ha hb hk
  rw [e] at ha hb
  obtain ⟨ra, hra, ea⟩ := List.mem_filterMap.mp ha
  obtain ⟨rb, hrb, eb⟩ := List.mem_filterMap.mp hb
  have h1 := acc_header st ra a ((accO_eq_some _ _ _).mp ea)
  have h2 := acc_header st rb b ((accO_eq_some _ _ _).mp eb)
  have : ra = rb := hd ra rb hra hrb (by rw [← h1, ← h2]; exact hk)
  subst this
  rw [ea] at eb
  exact Option.some.inj eb

/-! ## 6. files: threading the settings through files is threading them through the concatenation -/

theorem mapMS_append {σ α β : Type} (f : σ → α → Outcome (β × σ)) : ∀ (l1 l2 : List α) (s : σ),
    mapMS f s (l1 ++ l2) =
      (match mapMS f s l1 with
       | .ok (b1, s1) =>
         (match mapMS f s1 l2 with
          | .ok (b2, s2) => .ok (b1 ++ b2, s2)
          | .err => .err
          | .undef => .undef)
       | .err => .err
       | .undef => .undef) := by
  intro l1
  induction l1 with
  | nil =>
    intro l2 s
    simp only [List.nil_append, mapMS]
    cases mapMS f s l2 with
    | ok r => obtain ⟨b, t⟩ := r; rfl
    | err => rfl
    | undef => rfl
  | cons a tl ih =>
    intro l2 s
    simp only [List.cons_append, mapMS]
    cases f s a with
    | err => rfl
    | undef => rfl
    | ok r =>
      obtain ⟨b, s1⟩ := r
      simp only [ih l2 s1]
      cases mapMS f s1 tl with
      | err => rfl
      | undef => rfl
      | ok r2 =>
        obtain ⟨bs, s2⟩ := r2
        simp only []
        cases mapMS f s2 l2 with
        | err => rfl
        | undef => rfl
        | ok r3 => obtain ⟨b2, s3⟩ := r3; rfl

/-- an arrangement of parse trees into files, accepted file by file (`paths_to_txns` after parsing) -/
def acceptTrees (st : Settings) (rss : List (List RawTxn)) : Outcome (List Txn × Settings) :=
  (mapMS acceptJournal st rss).map fun r => (r.1.flatten, r.2)

/-- … and loaded: `TxnData::from` sorts the concatenation -/
def loadTrees (st : Settings) (rss : List (List RawTxn)) : Outcome (List Txn × Settings) :=
  (mapMS acceptJournal st rss).map fun r => (sortTxns r.1.flatten, r.2)

/-- **file boundaries are invisible to acceptance** (three-valued, same final settings) -/
theorem acceptTrees_flatten : ∀ (rss : List (List RawTxn)) (st : Settings),
    acceptTrees st rss = acceptJournal st rss.flatten := by
  intro rss
  induction rss with
  | nil => intro st; simp [acceptTrees, acceptJournal, mapMS, Outcome.map]
  | cons a tl ih =>
    intro st
    have e : acceptJournal st (a ++ tl.flatten) = mapMS acceptTxn st (a ++ tl.flatten) := rfl
    simp only [List.flatten_cons, e, mapMS_append]
    simp only [acceptTrees, mapMS]
    have e2 : acceptJournal st a = mapMS acceptTxn st a := rfl
    rw [e2]
    cases mapMS acceptTxn st a with
    | err => rfl
    | undef => rfl
    | ok r =>
      obtain ⟨b, s1⟩ := r
      have := ih s1
      simp only [acceptTrees, acceptJournal] at this
      simp only []
      rw [← this]
      cases hm : mapMS acceptJournal s1 tl with
      | err => rfl
      | undef => rfl
      | ok r2 => obtain ⟨bs, s2⟩ := r2; rfl

theorem loadTrees_eq (st : Settings) (rss : List (List RawTxn)) :
    loadTrees st rss = (acceptJournal st rss.flatten).map fun r => (sortTxns r.1, r.2) := by
  rw [← acceptTrees_flatten]
  unfold loadTrees acceptTrees
  cases mapMS acceptJournal st rss with
  | ok r => rfl
  | err => rfl
  | undef => rfl

/-- text level: files that parse (file `i` to the trees `rss[i]`) are loaded as their parse trees -/
theorem loadFiles_eq (cfg : Time.TsCfg) : ∀ (files : List (List Char)) (rss : List (List RawTxn)) (st : Settings),
    files.map (Syntax.parseJournal cfg) = rss.map some →
    loadFiles cfg st files = loadTrees st rss := by
  have key : ∀ (files : List (List Char)) (rss : List (List RawTxn)),
      files.map (Syntax.parseJournal cfg) = rss.map some →
      ∀ st, mapMS (acceptText cfg) st files = mapMS acceptJournal st rss := by
    intro files
    induction files with
    | nil =>
      intro rss h st
      cases rss with
      | nil => rfl
      | cons _ _ => simp at h
    | cons f tl ih =>
      intro rss h st
      cases rss with
      | nil => simp at h
      | cons rs rtl =>
        simp only [List.map_cons, List.cons.injEq] at h
        simp only [mapMS, acceptText, h.1]
        cases acceptJournal st rs with
        | err => rfl
        | undef => rfl
        | ok r => obtain ⟨b, s1⟩ := r; simp only [ih rtl h.2 s1]
  intro files rss st h
  unfold loadFiles loadTrees
  rw [key files rss h st]

/-- one text is one file -/
theorem loadText_eq (cfg : Time.TsCfg) (s : List Char) (rs : List RawTxn) (st : Settings)
    (h : Syntax.parseJournal cfg s = some rs) (hne : rs ≠ []) :
    loadText cfg st s = loadTrees st [rs] := by
  rw [loadTrees_eq]
  unfold loadText loadJournal
  simp only [h, List.flatten_cons, List.flatten_nil, List.append_nil]
  cases rs with
  | nil => exact absurd rfl hne
  | cons a tl => rfl

/-! ## 7. the class of a failure does depend on the order when both classes are present -/

namespace Witness
def lax0 : Settings := Settings.ofConfig false false true [] [] []
def hdr0 : Header := ⟨⟨0, 0⟩, none, none, none, none, none, none⟩
/-- rejected on its own: the postings do not sum to zero -/
def rErr : RawTxn := ⟨hdr0, [⟨["a"], Dec.ofInt 1, none, none⟩], none⟩
/-- outside the modelled numeric domain on its own: `10⁻²⁰ × 10⁻²⁰` is not representable and not an overflow -/
def rUndef : RawTxn :=
  ⟨hdr0, [⟨["a"], ⟨false, 1, 20⟩, some ⟨"X", none, some (.unitPrice ⟨⟨false, 1, 20⟩, "Y"⟩)⟩, none⟩], none⟩
end Witness

open Witness in
theorem status_order_witness :
    acceptJournal lax0 [rErr, rUndef] = .err ∧ acceptJournal lax0 [rUndef, rErr] = .undef := by
  constructor <;> decide

end AcceptOrder
end Tackler

/-! `Int` sums over lists: additivity, congruence, filter-as-indicator, exchange of a double sum,
    "exactly one element of a duplicate-free list satisfies q", permutation invariance, flatten.
    (Core Lean only; moved from design-sketches/SumLemmas.lean and extended.) -/
namespace Tackler
namespace ListSum

theorem sum_map_add {α} (l : List α) (f g : α → Int) :
    (l.map (fun a => f a + g a)).sum = (l.map f).sum + (l.map g).sum := by
  induction l with
  | nil => simp
  | cons a t ih => simp [ih]; omega

theorem sum_map_zero {α} (l : List α) : (l.map (fun _ => (0:Int))).sum = 0 := by
  induction l with
  | nil => simp
  | cons a t ih => simp [ih]

theorem sum_map_congr {α} (l : List α) (f g : α → Int) (h : ∀ a ∈ l, f a = g a) :
    (l.map f).sum = (l.map g).sum := by
  induction l with
  | nil => simp
  | cons a t ih =>
    simp only [List.map_cons, List.sum_cons]
    rw [h a (List.mem_cons_self), ih (fun b hb => h b (List.mem_cons_of_mem _ hb))]

theorem sum_map_eq_zero {α} (l : List α) (f : α → Int) (h : ∀ a ∈ l, f a = 0) : (l.map f).sum = 0 := by
  rw [sum_map_congr l f (fun _ => 0) h]; exact sum_map_zero l

theorem sum_filter_eq_ite {α} (l : List α) (p : α → Bool) (f : α → Int) :
    ((l.filter p).map f).sum = (l.map (fun a => if p a then f a else 0)).sum := by
  induction l with
  | nil => simp
  | cons a t ih =>
    by_cases h : p a <;> simp [h, ih]

theorem sum_comm {α β} (l : List α) (c : List β) (f : α → β → Int) :
    (l.map (fun a => (c.map (fun b => f a b)).sum)).sum
      = (c.map (fun b => (l.map (fun a => f a b)).sum)).sum := by
  induction l with
  | nil => simp [sum_map_zero]
  | cons a t ih =>
    simp only [List.map_cons, List.sum_cons, ih]
    rw [← sum_map_add]

theorem sum_ite_none {α} (l : List α) (q : α → Bool) (x : Int)
    (hq : ∀ c ∈ l, q c = false) :
    (l.map (fun c => if q c then x else 0)).sum = 0 := by
  apply sum_map_eq_zero
  intro b hb; simp [hq b hb]

/-- exactly one element of a nodup list satisfies `q` -/
theorem sum_ite_unique {α} (l : List α) (q : α → Bool) (x : Int) (c0 : α)
    (hc0 : c0 ∈ l) (hnd : l.Nodup) (hq : ∀ c ∈ l, q c = true ↔ c = c0) :
    (l.map (fun c => if q c then x else 0)).sum = x := by
  induction l with
  | nil => cases hc0
  | cons a t ih =>
    have hnd' := List.nodup_cons.mp hnd
    simp only [List.map_cons, List.sum_cons]
    by_cases hac : a = c0
    · subst hac
      have : q a = true := (hq a (List.mem_cons_self)).mpr rfl
      have ht : (t.map (fun c => if q c then x else 0)).sum = 0 := by
        apply sum_ite_none
        intro b hb
        cases hqb : q b with
        | false => rfl
        | true =>
          have := (hq b (List.mem_cons_of_mem _ hb)).mp hqb
          subst this
          exact absurd hb hnd'.1
      simp [this, ht]
    · have hqa : ¬ (q a = true) := fun h => hac ((hq a (List.mem_cons_self)).mp h)
      have hc0t : c0 ∈ t := by
        rcases List.mem_cons.mp hc0 with h | h
        · exact absurd h.symm hac
        · exact h
      have := ih hc0t hnd'.2 (fun c hc => hq c (List.mem_cons_of_mem _ hc))
      simp [hqa, this]

/-- permutation invariance of `Int` sums -/
theorem perm_sum {l₁ l₂ : List Int} (h : l₁.Perm l₂) : l₁.sum = l₂.sum := by
  induction h with
  | nil => rfl
  | cons a _ ih => simp [ih]
  | swap a b l => simp only [List.sum_cons]; omega
  | trans _ _ ih1 ih2 => rw [ih1, ih2]

theorem perm_sum_map {α} {l₁ l₂ : List α} (f : α → Int) (h : l₁.Perm l₂) :
    (l₁.map f).sum = (l₂.map f).sum := perm_sum (h.map f)

theorem sum_append_int (l₁ l₂ : List Int) : (l₁ ++ l₂).sum = l₁.sum + l₂.sum := by
  induction l₁ with
  | nil => simp
  | cons a t ih => simp [ih]; omega

theorem sum_flatten (L : List (List Int)) : L.flatten.sum = (L.map List.sum).sum := by
  induction L with
  | nil => rfl
  | cons l t ih => simp [ih]

theorem sum_map_flatten {α} (L : List (List α)) (f : α → Int) :
    (L.flatten.map f).sum = (L.map (fun l => (l.map f).sum)).sum := by
  induction L with
  | nil => rfl
  | cons l t ih =>
    rw [List.flatten_cons, List.map_append, sum_append_int, ih]
    simp

end ListSum
end Tackler

import TacklerModel.Model.FilterDef
import TacklerModel.Lemmas.Regex
import TacklerModel.Lemmas.Time
/-!
# Lemmas about `Model/FilterDef.lean`

* base64: `b64decode_encode` (decode ∘ encode = id), `b64encode_decode` (only canonical encodings are accepted),
  `b64decode_length`, `b64decode_symbols`
* decimals: `decOfText_toChars` (the `Display` text of a normal decimal reads back as that decimal),
  `decOfText_normal` (whatever is read is a normal decimal)
* timestamps: `parseTsJson_tsJsonChars` (the serialised text of an instant reads back as that instant)
* UUIDs: `uuidParse_idem` (the canonical text reads back as itself)
-/
namespace Tackler
namespace FilterDef

/-! ## base64 -/

theorem char_le_iff (a b : Char) : a ≤ b ↔ a.toNat ≤ b.toNat := Char.le_def

theorem b64val_chr : ∀ v : Fin 64, b64val (b64chr v.val) = some v.val := by decide

theorem b64val_b64chr (v : Nat) (h : v < 64) : b64val (b64chr v) = some v := b64val_chr ⟨v, h⟩

theorem b64val_pad : b64val '=' = none := by decide

theorem b64chr_ne_pad (v : Nat) (h : v < 64) : b64chr v ≠ '=' := by
  intro e
  have := b64val_b64chr v h
  rw [e, b64val_pad] at this
  cases this

/-- a symbol of the alphabet is the symbol of its value -/
theorem b64chr_of_val (c : Char) (x : Nat) (h : b64val c = some x) : x < 64 ∧ b64chr x = c := by
  unfold b64val at h
  simp only [char_le_iff] at h
  have hc : Char.ofNat c.toNat = c := Char.ofNat_toNat c
  have e1 : ('A' : Char).toNat = 65 := rfl
  have e2 : ('Z' : Char).toNat = 90 := rfl
  have e3 : ('a' : Char).toNat = 97 := rfl
  have e4 : ('z' : Char).toNat = 122 := rfl
  have e5 : ('0' : Char).toNat = 48 := rfl
  have e6 : ('9' : Char).toNat = 57 := rfl
  rw [e1, e2, e3, e4, e5, e6] at h
  unfold b64chr
  split at h
  · cases h
    refine ⟨by omega, ?_⟩
    rw [if_pos (by omega)]
    have : 65 + (c.toNat - 65) = c.toNat := by omega
    rw [this, hc]
  · split at h
    · cases h
      refine ⟨by omega, ?_⟩
      rw [if_neg (by omega), if_pos (by omega)]
      have : 97 + (c.toNat - 97 + 26 - 26) = c.toNat := by omega
      rw [this, hc]
    · split at h
      · cases h
        refine ⟨by omega, ?_⟩
        rw [if_neg (by omega), if_neg (by omega), if_pos (by omega)]
        have : 48 + (c.toNat - 48 + 52 - 52) = c.toNat := by omega
        rw [this, hc]
      · split at h
        · rename_i hp
          cases h
          refine ⟨by omega, ?_⟩
          simp [hp]
        · split at h
          · rename_i hp
            cases h
            refine ⟨by omega, ?_⟩
            simp [hp]
          · cases h

theorem byte_toNat (n : Nat) (h : n < 256) : (byte n).toNat = n := by
  unfold byte
  simp
  omega

theorem byte_of_toNat (x : UInt8) : byte x.toNat = x := by
  unfold byte
  exact UInt8.ofNat_toNat

theorem quad3_enc (x y z : UInt8) :
    quad3 (b64chr (x.toNat / 4)) (b64chr (x.toNat % 4 * 16 + y.toNat / 16)) (b64chr (y.toNat % 16 * 4 + z.toNat / 64))
      (b64chr (z.toNat % 64)) = some [x, y, z] := by
  have hx := x.toNat_lt
  have hy := y.toNat_lt
  have hz := z.toNat_lt
  unfold quad3
  rw [b64val_b64chr _ (by omega), b64val_b64chr _ (by omega), b64val_b64chr _ (by omega), b64val_b64chr _ (by omega)]
  simp only [Option.some.injEq]
  have e1 : x.toNat / 4 * 4 + (x.toNat % 4 * 16 + y.toNat / 16) / 16 = x.toNat := by omega
  have e2 : (x.toNat % 4 * 16 + y.toNat / 16) % 16 * 16 + (y.toNat % 16 * 4 + z.toNat / 64) / 4 = y.toNat := by omega
  have e3 : (y.toNat % 16 * 4 + z.toNat / 64) % 4 * 64 + z.toNat % 64 = z.toNat := by omega
  rw [e1, e2, e3, byte_of_toNat, byte_of_toNat, byte_of_toNat]

theorem b64encode_ne_nil (x : UInt8) (rest : List UInt8) : ∃ a b c d t, b64encode (x :: rest) = a :: b :: c :: d :: t := by
  cases rest with
  | nil => exact ⟨_, _, _, _, _, rfl⟩
  | cons y rest =>
    cases rest with
    | nil => exact ⟨_, _, _, _, _, rfl⟩
    | cons z rest => exact ⟨_, _, _, _, _, rfl⟩

/-- **decode ∘ encode = id** for every byte string -/
theorem b64decode_encode : ∀ (bs : List UInt8), b64decode (b64encode bs) = some bs
  | [] => rfl
  | [x] => by
    have hx := x.toNat_lt
    simp only [b64encode, b64decode, quadLast, if_true]
    rw [b64val_b64chr _ (by omega), b64val_b64chr _ (by omega)]
    have e0 : x.toNat % 4 * 16 % 16 = 0 := by omega
    have e1 : x.toNat / 4 * 4 + x.toNat % 4 * 16 / 16 = x.toNat := by omega
    simp only [e0, if_true, e1, byte_of_toNat]
  | [x, y] => by
    have hx := x.toNat_lt
    have hy := y.toNat_lt
    simp only [b64encode, b64decode, quadLast, if_true]
    rw [if_neg (b64chr_ne_pad _ (by omega))]
    rw [b64val_b64chr _ (by omega), b64val_b64chr _ (by omega), b64val_b64chr _ (by omega)]
    have e0 : y.toNat % 16 * 4 % 4 = 0 := by omega
    have e1 : x.toNat / 4 * 4 + (x.toNat % 4 * 16 + y.toNat / 16) / 16 = x.toNat := by omega
    have e2 : (x.toNat % 4 * 16 + y.toNat / 16) % 16 * 16 + y.toNat % 16 * 4 / 4 = y.toNat := by omega
    simp only [e0, if_true, e1, e2, byte_of_toNat]
  | x :: y :: z :: rest => by
    have hy := y.toNat_lt
    have hz := z.toNat_lt
    have ih := b64decode_encode rest
    cases rest with
    | nil =>
      simp only [b64encode, List.append_nil, b64decode, quadLast]
      rw [if_neg (b64chr_ne_pad _ (by omega)), if_neg (b64chr_ne_pad _ (by omega))]
      exact quad3_enc x y z
    | cons w rest =>
      obtain ⟨a, b, c, d, t, ht⟩ := b64encode_ne_nil w rest
      simp only [b64encode] at ih ⊢
      rw [ht] at ih ⊢
      simp only [List.cons_append, List.nil_append, b64decode]
      rw [quad3_enc x y z, ih]
      rfl


theorem quad3_dec (a b c d : Char) (bs : List UInt8) (h : quad3 a b c d = some bs) :
    a ≠ '=' ∧ b ≠ '=' ∧ c ≠ '=' ∧ d ≠ '=' ∧ ∃ x y z, bs = [x, y, z] ∧
      [b64chr (x.toNat / 4), b64chr (x.toNat % 4 * 16 + y.toNat / 16), b64chr (y.toNat % 16 * 4 + z.toNat / 64),
       b64chr (z.toNat % 64)] = [a, b, c, d] := by
  unfold quad3 at h
  split at h
  · rename_i x y z w ha hb hc hd
    cases h
    obtain ⟨hx, rfl⟩ := b64chr_of_val _ _ ha
    obtain ⟨hy, rfl⟩ := b64chr_of_val _ _ hb
    obtain ⟨hz, rfl⟩ := b64chr_of_val _ _ hc
    obtain ⟨hw, rfl⟩ := b64chr_of_val _ _ hd
    refine ⟨b64chr_ne_pad _ hx, b64chr_ne_pad _ hy, b64chr_ne_pad _ hz, b64chr_ne_pad _ hw, _, _, _, rfl, ?_⟩
    rw [byte_toNat _ (by omega), byte_toNat _ (by omega), byte_toNat _ (by omega)]
    have e1 : (x * 4 + y / 16) / 4 = x := by omega
    have e2 : (x * 4 + y / 16) % 4 * 16 + (y % 16 * 16 + z / 4) / 16 = y := by omega
    have e3 : (y % 16 * 16 + z / 4) % 16 * 4 + (z % 4 * 64 + w) / 64 = z := by omega
    have e4 : (z % 4 * 64 + w) % 64 = w := by omega
    rw [e1, e2, e3, e4]
  · cases h

/-- **the decoder accepts canonical encodings only**: whatever decodes is the encoding of what it decodes to
    (so a wrong length, a symbol outside the alphabet, padding that is missing, superfluous or not at the end, and
    non-zero trailing bits are all rejected) -/
theorem b64encode_decode : ∀ (e : List Char) (bs : List UInt8), b64decode e = some bs → b64encode bs = e
  | [], bs, h => by
    simp only [b64decode, Option.some.injEq] at h
    subst h
    rfl
  | [_], _, h => by simp [b64decode] at h
  | [_, _], _, h => by simp [b64decode] at h
  | [_, _, _], _, h => by simp [b64decode] at h
  | [a, b, c, d], bs, h => by
    simp only [b64decode, quadLast] at h
    split at h
    · rename_i hc
      split at h
      · rename_i hd
        split at h
        · rename_i x y ha hb
          split at h
          · rename_i hy
            cases h
            obtain ⟨hx, rfl⟩ := b64chr_of_val _ _ ha
            obtain ⟨hy', rfl⟩ := b64chr_of_val _ _ hb
            subst hc hd
            simp only [b64encode]
            rw [byte_toNat _ (by omega)]
            have e1 : (x * 4 + y / 16) / 4 = x := by omega
            have e2 : (x * 4 + y / 16) % 4 * 16 = y := by omega
            rw [e1, e2]
          · cases h
        · cases h
      · cases h
    · rename_i hc
      split at h
      · rename_i hd
        split at h
        · rename_i x y z ha hb hcc
          split at h
          · rename_i hz
            cases h
            obtain ⟨hx, rfl⟩ := b64chr_of_val _ _ ha
            obtain ⟨hy', rfl⟩ := b64chr_of_val _ _ hb
            obtain ⟨hz', rfl⟩ := b64chr_of_val _ _ hcc
            subst hd
            simp only [b64encode]
            rw [byte_toNat _ (by omega), byte_toNat _ (by omega)]
            have e1 : (x * 4 + y / 16) / 4 = x := by omega
            have e2 : (x * 4 + y / 16) % 4 * 16 + (y % 16 * 16 + z / 4) / 16 = y := by omega
            have e3 : (y % 16 * 16 + z / 4) % 16 * 4 = z := by omega
            rw [e1, e2, e3]
          · cases h
        · cases h
      · obtain ⟨_, _, _, _, x, y, z, rfl, he⟩ := quad3_dec a b c d bs h
        simp only [b64encode, List.append_nil]
        exact he
  | a :: b :: c :: d :: e :: rest, bs, h => by
    simp only [b64decode] at h
    split at h
    · rename_i q r hq hr
      cases h
      obtain ⟨_, _, _, _, x, y, z, rfl, he⟩ := quad3_dec a b c d q hq
      have ih := b64encode_decode (e :: rest) r hr
      simp only [List.cons_append, List.nil_append, b64encode]
      rw [ih]
      simp only [List.cons.injEq] at he
      obtain ⟨h1, h2, h3, h4, _⟩ := he
      rw [h1, h2, h3, h4]
    · cases h

theorem b64encode_length : ∀ (bs : List UInt8), (b64encode bs).length % 4 = 0
  | [] => rfl
  | [_] => by simp [b64encode]
  | [_, _] => by simp [b64encode]
  | _ :: _ :: _ :: rest => by
    simp only [b64encode, List.length_append, List.length_cons, List.length_nil]
    have := b64encode_length rest
    omega

theorem b64encode_symbols : ∀ (bs : List UInt8), ∀ c ∈ b64encode bs, (b64val c).isSome = true ∨ c = '='
  | [], c, h => by simp [b64encode] at h
  | [x], c, h => by
    have hx := x.toNat_lt
    simp only [b64encode, List.mem_cons, List.not_mem_nil, or_false] at h
    rcases h with rfl | rfl | rfl | rfl
    · left; rw [b64val_b64chr _ (by omega)]; rfl
    · left; rw [b64val_b64chr _ (by omega)]; rfl
    · right; rfl
    · right; rfl
  | [x, y], c, h => by
    have hx := x.toNat_lt
    have hy := y.toNat_lt
    simp only [b64encode, List.mem_cons, List.not_mem_nil, or_false] at h
    rcases h with rfl | rfl | rfl | rfl
    · left; rw [b64val_b64chr _ (by omega)]; rfl
    · left; rw [b64val_b64chr _ (by omega)]; rfl
    · left; rw [b64val_b64chr _ (by omega)]; rfl
    · right; rfl
  | x :: y :: z :: rest, c, h => by
    have hx := x.toNat_lt
    have hy := y.toNat_lt
    have hz := z.toNat_lt
    simp only [b64encode, List.cons_append, List.nil_append, List.mem_cons] at h
    rcases h with rfl | rfl | rfl | rfl | h
    · left; rw [b64val_b64chr _ (by omega)]; rfl
    · left; rw [b64val_b64chr _ (by omega)]; rfl
    · left; rw [b64val_b64chr _ (by omega)]; rfl
    · left; rw [b64val_b64chr _ (by omega)]; rfl
    · exact b64encode_symbols rest c h

/-- accepted armor has a length that is a multiple of four -/
theorem b64decode_length (e : List Char) (bs : List UInt8) (h : b64decode e = some bs) : e.length % 4 = 0 := by
  rw [← b64encode_decode e bs h]
  exact b64encode_length bs

/-- accepted armor consists of symbols of the standard alphabet and `=` only -/
theorem b64decode_symbols (e : List Char) (bs : List UInt8) (h : b64decode e = some bs) :
    ∀ c ∈ e, (b64val c).isSome = true ∨ c = '=' := by
  rw [← b64encode_decode e bs h]
  exact b64encode_symbols bs

/-! ## decimals -/

section Decimals
open Dec


theorem isDig_iff (c : Char) : Time.isDig c = true ↔ 48 ≤ c.toNat ∧ c.toNat ≤ 57 := by
  unfold Time.isDig
  simp only [decide_eq_true_eq, char_le_iff]
  have e1 : ('0' : Char).toNat = 48 := rfl
  have e2 : ('9' : Char).toNat = 57 := rfl
  rw [e1, e2]

theorem isDig_of_isDigit (c : Char) (h : c.isDigit = true) : Time.isDig c = true := by
  rw [isDig_iff]
  unfold Char.isDigit at h
  simp only [Bool.and_eq_true, decide_eq_true_eq] at h
  have h1 : (48 : UInt32) ≤ c.val := h.1
  have h2 : c.val ≤ (57 : UInt32) := h.2
  rw [UInt32.le_iff_toNat_le] at h1 h2
  exact ⟨h1, h2⟩

theorem digitsVal_append (a b : List Char) :
    digitsVal (a ++ b) = b.foldl (fun acc c => acc * 10 + digitVal c) (digitsVal a) := by
  unfold digitsVal
  rw [List.foldl_append]

theorem foldl_digits_ge (b : List Char) (acc : Nat) : acc ≤ b.foldl (fun acc c => acc * 10 + digitVal c) acc := by
  induction b generalizing acc with
  | nil => exact Nat.le_refl _
  | cons c b ih =>
    simp only [List.foldl_cons]
    exact Nat.le_trans (by omega) (ih _)

theorem digitsVal_le_append (a b : List Char) : digitsVal a ≤ digitsVal (a ++ b) := by
  rw [digitsVal_append]
  exact foldl_digits_ge b _

theorem scanDec_fp (neg : Bool) (ip : List Char) (hip : digitsVal ip ≤ max96) :
    ∀ (ds fp : List Char), (∀ c ∈ ds, Time.isDig c = true) → fp.length + ds.length ≤ 28 →
      digitsVal (ip ++ (fp ++ ds)) ≤ max96 →
      scanDec neg true true ip fp ds =
        .ok ⟨neg && digitsVal (ip ++ (fp ++ ds)) != 0, digitsVal (ip ++ (fp ++ ds)), (fp ++ ds).length⟩ := by
  intro ds
  induction ds with
  | nil =>
    intro fp _ hlen hv
    simp only [List.append_nil] at hv ⊢
    rw [scanDec, if_neg (by omega), if_neg (by simp only [List.length_nil, Nat.add_zero] at hlen; omega)]
    simp
  | cons c ds ih =>
    intro fp hd hlen hv
    have hpre : digitsVal (ip ++ fp) ≤ max96 := by
      have := digitsVal_le_append (ip ++ fp) (c :: ds)
      rw [List.append_assoc] at this
      omega
    simp only [List.length_cons] at hlen
    rw [scanDec, if_neg (by omega), if_neg (by omega), if_pos (hd c List.mem_cons_self)]
    simp only [if_true]
    have := ih (fp ++ [c]) (fun x hx => hd x (List.mem_cons_of_mem _ hx))
      (by simp only [List.length_append, List.length_cons, List.length_nil]; omega)
      (by simpa [List.append_assoc] using hv)
    simpa [List.append_assoc] using this

theorem scanDec_ip (neg : Bool) (rest : List Char) :
    ∀ (ds ip : List Char) (seen : Bool), (∀ c ∈ ds, Time.isDig c = true) → digitsVal (ip ++ ds) ≤ max96 →
      scanDec neg seen false ip [] (ds ++ rest) = scanDec neg (seen || !ds.isEmpty) false (ip ++ ds) [] rest := by
  intro ds
  induction ds with
  | nil => intro ip seen _ _; simp
  | cons c ds ih =>
    intro ip seen hd hv
    have hpre : digitsVal ip ≤ max96 := Nat.le_trans (digitsVal_le_append ip (c :: ds)) hv
    simp only [List.cons_append]
    rw [scanDec, if_neg (by omega), if_neg (by simp only [List.length_nil, List.append_nil]; omega),
      if_pos (hd c List.mem_cons_self)]
    simp only [Bool.false_eq_true, if_false]
    rw [ih (ip ++ [c]) true (fun x hx => hd x (List.mem_cons_of_mem _ hx)) (by simpa [List.append_assoc] using hv)]
    simp [List.append_assoc]

theorem digitsVal_eq (l : List Char) : digitsVal l = Nat.ofDigitChars 10 l 0 := by
  unfold digitsVal Nat.ofDigitChars digitVal
  congr 1; funext acc c; rw [Nat.mul_comm]

theorem digitsVal_zeros_append (l : List Char) (n : Nat) :
    digitsVal (List.replicate n '0' ++ l) = digitsVal l := by
  rw [digitsVal_eq, digitsVal_eq, Nat.ofDigitChars_append, Nat.ofDigitChars_replicate_zero]; simp

theorem digitsVal_toDigits (n : Nat) : digitsVal (Nat.toDigits 10 n) = n := by
  rw [digitsVal_eq]; exact Nat.ofDigitChars_ten_toDigits

/-- the digit string `Display` starts from -/
def dispDigits (x : Dec) : List Char := padLeft (x.scale + 1) (Nat.toDigits 10 x.coeff)

theorem dispDigits_val (x : Dec) : digitsVal (dispDigits x) = x.coeff := by
  unfold dispDigits padLeft; rw [digitsVal_zeros_append, digitsVal_toDigits]

theorem dispDigits_isDig (x : Dec) : ∀ c ∈ dispDigits x, Time.isDig c = true := by
  intro c hc
  unfold dispDigits padLeft at hc
  rcases List.mem_append.mp hc with h | h
  · rw [(List.mem_replicate.mp h).2]; decide
  · exact isDig_of_isDigit c (Nat.isDigit_of_mem_toDigits (by decide) (by decide) h)

theorem dispDigits_length (x : Dec) : x.scale + 1 ≤ (dispDigits x).length := by
  unfold dispDigits padLeft
  rw [List.length_append, List.length_replicate]; omega

theorem toChars_eq (x : Dec) :
    x.toChars = (if x.neg then ['-'] else []) ++ (dispDigits x).take ((dispDigits x).length - x.scale) ++
      (if x.scale = 0 then [] else '.' :: (dispDigits x).drop ((dispDigits x).length - x.scale)) := rfl

theorem isDig_ne (c : Char) (h : Time.isDig c = true) : c ≠ '-' ∧ c ≠ '+' ∧ c ≠ '.' ∧ c ≠ '_' := by
  rw [isDig_iff] at h
  refine ⟨?_, ?_, ?_, ?_⟩ <;> (intro e; subst e; revert h; decide)

/-- the `Display` text of a normal decimal (after the sign) scans back to it -/
theorem scanDec_disp (x : Dec) (h : DecNormal x) :
    scanDec x.neg false false [] [] ((dispDigits x).take ((dispDigits x).length - x.scale) ++
      (if x.scale = 0 then [] else '.' :: (dispDigits x).drop ((dispDigits x).length - x.scale))) = .ok x := by
  obtain ⟨⟨hs, hc⟩, hz⟩ := h
  have hlen := dispDigits_length x
  have hdig := dispDigits_isDig x
  have hval := dispDigits_val x
  generalize hds : dispDigits x = ds at hlen hdig hval
  have hipd : ∀ c ∈ ds.take (ds.length - x.scale), Time.isDig c = true := fun c hc => hdig c (List.mem_of_mem_take hc)
  have hfpd : ∀ c ∈ ds.drop (ds.length - x.scale), Time.isDig c = true := fun c hc => hdig c (List.mem_of_mem_drop hc)
  have hipv : digitsVal (ds.take (ds.length - x.scale)) ≤ max96 := by
    have := digitsVal_le_append (ds.take (ds.length - x.scale)) (ds.drop (ds.length - x.scale))
    rw [List.take_append_drop, hval] at this
    omega
  have hne : (ds.take (ds.length - x.scale)).isEmpty = false := by
    cases hx : ds.take (ds.length - x.scale) with
    | nil =>
      have := congrArg List.length hx
      rw [List.length_take] at this
      simp at this; omega
    | cons _ _ => rfl
  have hfl : (ds.drop (ds.length - x.scale)).length = x.scale := by rw [List.length_drop]; omega
  rw [scanDec_ip x.neg _ _ [] false hipd (by simpa using hipv)]
  simp only [List.nil_append, hne, Bool.not_false, Bool.or_true]
  have hnz : (x.neg && x.coeff != 0) = x.neg := by
    by_cases h0 : x.coeff = 0
    · simp [h0, hz h0]
    · simp [h0]
  by_cases h0 : x.scale = 0
  · have e : ds.take (ds.length - x.scale) = ds := by rw [h0]; simp
    rw [if_pos h0, e]
    rw [scanDec, if_neg (by omega), if_neg (by simp only [List.length_nil, List.append_nil]; omega)]
    simp only [List.append_nil, List.length_nil, if_true]
    rw [hval, hnz, ← h0]
  · rw [if_neg h0]
    rw [scanDec, if_neg (by omega), if_neg (by simp only [List.length_nil, List.append_nil]; omega), if_neg (by decide)]
    simp only [and_self, if_true]
    rw [scanDec_fp x.neg _ hipv _ [] hfpd (by simp only [List.length_nil, hfl]; omega)
      (by simp only [List.nil_append, List.take_append_drop, hval]; omega)]
    simp only [List.nil_append, List.take_append_drop, hval, hfl, hnz]

theorem decFromStr_toChars (x : Dec) (h : DecNormal x) : decFromStr x.toChars = .ok x := by
  have hlen := dispDigits_length x
  have hdig := dispDigits_isDig x
  have key := scanDec_disp x h
  rw [toChars_eq]
  cases hn : x.neg with
  | true =>
    rw [hn] at key
    simp only [if_true, List.cons_append, List.nil_append, decFromStr]
    exact key
  | false =>
    rw [hn] at key
    simp only [Bool.false_eq_true, if_false, List.nil_append]
    -- the first character is a digit
    cases hx : (dispDigits x).take ((dispDigits x).length - x.scale) with
    | nil =>
      have := congrArg List.length hx
      rw [List.length_take] at this
      simp at this; omega
    | cons c t =>
      have hc : Time.isDig c = true := hdig c (List.mem_of_mem_take (by rw [hx]; exact List.mem_cons_self))
      obtain ⟨h1, h2, _, _⟩ := isDig_ne c hc
      rw [hx] at key
      simp only [List.cons_append, decFromStr, if_neg h1, if_neg h2]
      exact key

theorem decOfText_toChars (x : Dec) (h : DecNormal x) : decOfText x.toChars = .ok x := by
  unfold decOfText
  rw [decFromStr_toChars x h]



theorem scanDec_normal (neg : Bool) : ∀ (cs : List Char) (seen point : Bool) (ip fp : List Char) (d : Dec),
    scanDec neg seen point ip fp cs = .ok d → DecNormal d := by
  intro cs
  induction cs with
  | nil =>
    intro seen point ip fp d h
    rw [scanDec] at h
    split at h
    · cases h
    · split at h
      · cases h
      · rename_i h2
        split at h
        · cases h
          refine ⟨⟨?_, ?_⟩, ?_⟩
          · show fp.length ≤ 28
            omega
          · show digitsVal (ip ++ fp) ≤ max96
            omega
          · intro h0
            show (neg && digitsVal (ip ++ fp) != 0) = false
            have h0' : digitsVal (ip ++ fp) = 0 := h0
            simp [h0']
        · cases h
  | cons c cs ih =>
    intro seen point ip fp d h
    rw [scanDec] at h
    split at h
    · cases h
    · split at h
      · cases h
      · split at h
        · split at h
          · exact ih _ _ _ _ _ h
          · exact ih _ _ _ _ _ h
        · split at h
          · exact ih _ _ _ _ _ h
          · split at h
            · exact ih _ _ _ _ _ h
            · cases h

theorem decFromStr_normal (cs : List Char) (d : Dec) (h : decFromStr cs = .ok d) : DecNormal d := by
  unfold decFromStr at h
  split at h
  · cases h
  · split at h
    · exact scanDec_normal _ _ _ _ _ _ _ h
    · split at h
      · exact scanDec_normal _ _ _ _ _ _ _ h
      · exact scanDec_normal _ _ _ _ _ _ _ h

theorem normalize_go_spec : ∀ (fuel c s : Nat), c ≠ 0 →
    (Dec.normalize.go fuel c s).1 ≠ 0 ∧ (Dec.normalize.go fuel c s).1 ≤ c ∧ (Dec.normalize.go fuel c s).2 ≤ s := by
  intro fuel
  induction fuel with
  | zero => intro c s h; simp [Dec.normalize.go, h]
  | succ n ih =>
    intro c s h
    rw [Dec.normalize.go]
    split
    · rename_i hc
      have hne : c / 10 ≠ 0 := by omega
      obtain ⟨h1, h2, h3⟩ := ih (c / 10) (s - 1) hne
      exact ⟨h1, by omega, by omega⟩
    · exact ⟨h, Nat.le_refl _, Nat.le_refl _⟩

theorem normalize_normal (r : Dec) (h : r.WF) : DecNormal r.normalize := by
  unfold Dec.normalize
  split
  · exact ⟨⟨by decide, by decide⟩, fun _ => rfl⟩
  · rename_i h0
    obtain ⟨h1, h2, h3⟩ := normalize_go_spec r.scale r.coeff r.scale h0
    obtain ⟨hs, hc⟩ := h
    refine ⟨⟨?_, ?_⟩, ?_⟩
    · show (Dec.normalize.go r.scale r.coeff r.scale).2 ≤ 28
      omega
    · show (Dec.normalize.go r.scale r.coeff r.scale).1 ≤ max96
      omega
    · intro hz
      exact absurd hz h1

theorem mul_wf (a b r : Dec) (h : Dec.mul a b = some r) : r.WF := by
  unfold Dec.mul at h
  split at h
  · cases h; exact ⟨by decide, by decide⟩
  · split at h
    · rename_i hg
      cases h
      exact ⟨hg.1, hg.2⟩
    · cases h

theorem applyExp_normal (ret : Dec) (ex : List Char) (d : Dec) (hr : DecNormal ret) (h : applyExp ret ex = .ok d) :
    DecNormal d := by
  obtain ⟨⟨hs, hc⟩, hz⟩ := hr
  unfold applyExp at h
  split at h
  · split at h
    · cases h
    · split at h
      · cases h
      · split at h
        · cases h
        · cases h
          exact ⟨⟨by show ret.scale + _ ≤ 28; omega, hc⟩, hz⟩
  · split at h
    · cases h
    · split at h
      · cases h
        exact ⟨⟨by show ret.scale - _ ≤ 28; omega, hc⟩, hz⟩
      · split at h
        · cases h
        · split at h
          · rename_i r hm
            cases h
            exact normalize_normal r (mul_wf _ _ _ hm)
          · exact absurd h (Outcome.inexact_ne_ok _ _)

theorem decFromSci_normal (cs : List Char) (d : Dec) (h : decFromSci cs = .ok d) : DecNormal d := by
  unfold decFromSci at h
  split at h
  · cases h
  · rename_i base ex _
    obtain ⟨ret, hret, hd⟩ := (Outcome.bind_ok _ _ _).mp h
    exact applyExp_normal ret ex d (decFromStr_normal _ _ hret) hd

/-- whatever `decOfText` reads is a normal decimal -/
theorem decOfText_normal (cs : List Char) (d : Dec) (h : decOfText cs = .ok d) : DecNormal d := by
  unfold decOfText at h
  split at h
  · rename_i d' hd
    cases h
    exact decFromStr_normal _ _ hd
  · exact decFromSci_normal _ _ h
  · cases h

theorem decField_normal (v : JVal) (d : Dec) (h : decField v = .ok d) : DecNormal d := by
  unfold decField at h
  split at h
  · exact decOfText_normal _ _ h
  · exact decOfText_normal _ _ h
  · split at h
    · exact decOfText_normal _ _ h
    · cases h
  · cases h


end Decimals

end FilterDef
end Tackler

import TacklerModel.Model.FilterDef
import TacklerModel.Lemmas.Regex
import TacklerModel.Lemmas.Time
/-!
# Lemmas about `Model/FilterDef.lean`

* base64: `b64decode_encode` (decode ∘ encode = id), `b64encode_decode` (only canonical encodings are accepted),
  `b64decode_length`, `b64decode_symbols`
* decimals: `decOfText_toChars` (the `Display` text of a normal decimal reads back as that decimal),
  `decOfText_normal` (whatever is read is a normal decimal)
* timestamps: `parseTsJson_tsJsonChars` (the serialised text of an instant reads back as that instant)
* UUIDs: `uuidParse_idem` (the canonical text reads back as itself)
-/
namespace Tackler
namespace FilterDef

/-! ## base64 -/

theorem char_le_iff (a b : Char) : a ≤ b ↔ a.toNat ≤ b.toNat := Char.le_def

theorem b64val_chr : ∀ v : Fin 64, b64val (b64chr v.val) = some v.val := by decide

theorem b64val_b64chr (v : Nat) (h : v < 64) : b64val (b64chr v) = some v := b64val_chr ⟨v, h⟩

theorem b64val_pad : b64val '=' = none := by decide

theorem b64chr_ne_pad (v : Nat) (h : v < 64) : b64chr v ≠ '=' := by
  intro e
  have := b64val_b64chr v h
  rw [e, b64val_pad] at this
  cases this

/-- a symbol of the alphabet is the symbol of its value -/
theorem b64chr_of_val (c : Char) (x : Nat) (h : b64val c = some x) : x < 64 ∧ b64chr x = c := by
  unfold b64val at h
  simp only [char_le_iff] at h
  have hc : Char.ofNat c.toNat = c := Char.ofNat_toNat c
  have e1 : ('A' : Char).toNat = 65 := rfl
  have e2 : ('Z' : Char).toNat = 90 := rfl
  have e3 : ('a' : Char).toNat = 97 := rfl
  have e4 : ('z' : Char).toNat = 122 := rfl
  have e5 : ('0' : Char).toNat = 48 := rfl
  have e6 : ('9' : Char).toNat = 57 := rfl
  rw [e1, e2, e3, e4, e5, e6] at h
  unfold b64chr
  split at h
  · cases h
    refine ⟨by omega, ?_⟩
    rw [if_pos (by omega)]
    have : 65 + (c.toNat - 65) = c.toNat := by omega
    rw [this, hc]
  · split at h
    · cases h
      refine ⟨by omega, ?_⟩
      rw [if_neg (by omega), if_pos (by omega)]
      have : 97 + (c.toNat - 97 + 26 - 26) = c.toNat := by omega
      rw [this, hc]
    · split at h
      · cases h
        refine ⟨by omega, ?_⟩
        rw [if_neg (by omega), if_neg (by omega), if_pos (by omega)]
        have : 48 + (c.toNat - 48 + 52 - 52) = c.toNat := by omega
        rw [this, hc]
      · split at h
        · rename_i hp
          cases h
          refine ⟨by omega, ?_⟩
          simp [hp]
        · split at h
          · rename_i hp
            cases h
            refine ⟨by omega, ?_⟩
            simp [hp]
          · cases h

theorem byte_toNat (n : Nat) (h : n < 256) : (byte n).toNat = n := by
  unfold byte
  simp
  omega

theorem byte_of_toNat (x : UInt8) : byte x.toNat = x := by
  unfold byte
  exact UInt8.ofNat_toNat

theorem quad3_enc (x y z : UInt8) :
    quad3 (b64chr (x.toNat / 4)) (b64chr (x.toNat % 4 * 16 + y.toNat / 16)) (b64chr (y.toNat % 16 * 4 + z.toNat / 64))
      (b64chr (z.toNat % 64)) = some [x, y, z] := by
  have hx := x.toNat_lt
  have hy := y.toNat_lt
  have hz := z.toNat_lt
  unfold quad3
  rw [b64val_b64chr _ (by omega), b64val_b64chr _ (by omega), b64val_b64chr _ (by omega), b64val_b64chr _ (by omega)]
  simp only [Option.some.injEq]
  have e1 : x.toNat / 4 * 4 + (x.toNat % 4 * 16 + y.toNat / 16) / 16 = x.toNat := by omega
  have e2 : (x.toNat % 4 * 16 + y.toNat / 16) % 16 * 16 + (y.toNat % 16 * 4 + z.toNat / 64) / 4 = y.toNat := by omega
  have e3 : (y.toNat % 16 * 4 + z.toNat / 64) % 4 * 64 + z.toNat % 64 = z.toNat := by omega
  rw [e1, e2, e3, byte_of_toNat, byte_of_toNat, byte_of_toNat]

theorem b64encode_ne_nil (x : UInt8) (rest : List UInt8) : ∃ a b c d t, b64encode (x :: rest) = a :: b :: c :: d :: t := by
  cases rest with
  | nil => exact ⟨_, _, _, _, _, rfl⟩
  | cons y rest =>
    cases rest with
    | nil => exact ⟨_, _, _, _, _, rfl⟩
    | cons z rest => exact ⟨_, _, _, _, _, rfl⟩

/-- **decode ∘ encode = id** for every byte string -/
theorem b64decode_encode : ∀ (bs : List UInt8), b64decode (b64encode bs) = some bs
  | [] => rfl
  | [x] => by
    have hx := x.toNat_lt
    simp only [b64encode, b64decode, quadLast, if_true]
    rw [b64val_b64chr _ (by omega), b64val_b64chr _ (by omega)]
    have e0 : x.toNat % 4 * 16 % 16 = 0 := by omega
    have e1 : x.toNat / 4 * 4 + x.toNat % 4 * 16 / 16 = x.toNat := by omega
    simp only [e0, if_true, e1, byte_of_toNat]
  | [x, y] => by
    have hx := x.toNat_lt
    have hy := y.toNat_lt
    simp only [b64encode, b64decode, quadLast, if_true]
    rw [if_neg (b64chr_ne_pad _ (by omega))]
    rw [b64val_b64chr _ (by omega), b64val_b64chr _ (by omega), b64val_b64chr _ (by omega)]
    have e0 : y.toNat % 16 * 4 % 4 = 0 := by omega
    have e1 : x.toNat / 4 * 4 + (x.toNat % 4 * 16 + y.toNat / 16) / 16 = x.toNat := by omega
    have e2 : (x.toNat % 4 * 16 + y.toNat / 16) % 16 * 16 + y.toNat % 16 * 4 / 4 = y.toNat := by omega
    simp only [e0, if_true, e1, e2, byte_of_toNat]
  | x :: y :: z :: rest => by
    have hy := y.toNat_lt
    have hz := z.toNat_lt
    have ih := b64decode_encode rest
    cases rest with
    | nil =>
      simp only [b64encode, List.append_nil, b64decode, quadLast]
      rw [if_neg (b64chr_ne_pad _ (by omega)), if_neg (b64chr_ne_pad _ (by omega))]
      exact quad3_enc x y z
    | cons w rest =>
      obtain ⟨a, b, c, d, t, ht⟩ := b64encode_ne_nil w rest
      simp only [b64encode] at ih ⊢
      rw [ht] at ih ⊢
      simp only [List.cons_append, List.nil_append, b64decode]
      rw [quad3_enc x y z, ih]
      rfl


theorem quad3_dec (a b c d : Char) (bs : List UInt8) (h : quad3 a b c d = some bs) :
    a ≠ '=' ∧ b ≠ '=' ∧ c ≠ '=' ∧ d ≠ '=' ∧ ∃ x y z, bs = [x, y, z] ∧
      [b64chr (x.toNat / 4), b64chr (x.toNat % 4 * 16 + y.toNat / 16), b64chr (y.toNat % 16 * 4 + z.toNat / 64),
       b64chr (z.toNat % 64)] = [a, b, c, d] := by
  unfold quad3 at h
  split at h
  · rename_i x y z w ha hb hc hd
    cases h
    obtain ⟨hx, rfl⟩ := b64chr_of_val _ _ ha
    obtain ⟨hy, rfl⟩ := b64chr_of_val _ _ hb
    obtain ⟨hz, rfl⟩ := b64chr_of_val _ _ hc
    obtain ⟨hw, rfl⟩ := b64chr_of_val _ _ hd
    refine ⟨b64chr_ne_pad _ hx, b64chr_ne_pad _ hy, b64chr_ne_pad _ hz, b64chr_ne_pad _ hw, _, _, _, rfl, ?_⟩
    rw [byte_toNat _ (by omega), byte_toNat _ (by omega), byte_toNat _ (by omega)]
    have e1 : (x * 4 + y / 16) / 4 = x := by omega
    have e2 : (x * 4 + y / 16) % 4 * 16 + (y % 16 * 16 + z / 4) / 16 = y := by omega
    have e3 : (y % 16 * 16 + z / 4) % 16 * 4 + (z % 4 * 64 + w) / 64 = z := by omega
    have e4 : (z % 4 * 64 + w) % 64 = w := by omega
    rw [e1, e2, e3, e4]
  · cases h

/-- **the decoder accepts canonical encodings only**: whatever decodes is the encoding of what it decodes to
    (so a wrong length, a symbol outside the alphabet, padding that is missing, superfluous or not at the end, and
    non-zero trailing bits are all rejected) -/
theorem b64encode_decode : ∀ (e : List Char) (bs : List UInt8), b64decode e = some bs → b64encode bs = e
  | [], bs, h => by
    simp only [b64decode, Option.some.injEq] at h
    subst h
    rfl
  | [_], _, h => by simp [b64decode] at h
  | [_, _], _, h => by simp [b64decode] at h
  | [_, _, _], _, h => by simp [b64decode] at h
  | [a, b, c, d], bs, h => by
    simp only [b64decode, quadLast] at h
    split at h
    · rename_i hc
      split at h
      · rename_i hd
        split at h
        · rename_i x y ha hb
          split at h
          · rename_i hy
            cases h
            obtain ⟨hx, rfl⟩ := b64chr_of_val _ _ ha
            obtain ⟨hy', rfl⟩ := b64chr_of_val _ _ hb
            subst hc hd
            simp only [b64encode]
            rw [byte_toNat _ (by omega)]
            have e1 : (x * 4 + y / 16) / 4 = x := by omega
            have e2 : (x * 4 + y / 16) % 4 * 16 = y := by omega
            rw [e1, e2]
          · cases h
        · cases h
      · cases h
    · rename_i hc
      split at h
      · rename_i hd
        split at h
        · rename_i x y z ha hb hcc
          split at h
          · rename_i hz
            cases h
            obtain ⟨hx, rfl⟩ := b64chr_of_val _ _ ha
            obtain ⟨hy', rfl⟩ := b64chr_of_val _ _ hb
            obtain ⟨hz', rfl⟩ := b64chr_of_val _ _ hcc
            subst hd
            simp only [b64encode]
            rw [byte_toNat _ (by omega), byte_toNat _ (by omega)]
            have e1 : (x * 4 + y / 16) / 4 = x := by omega
            have e2 : (x * 4 + y / 16) % 4 * 16 + (y % 16 * 16 + z / 4) / 16 = y := by omega
            have e3 : (y % 16 * 16 + z / 4) % 16 * 4 = z := by omega
            rw [e1, e2, e3]
          · cases h
        · cases h
      · obtain ⟨_, _, _, _, x, y, z, rfl, he⟩ := quad3_dec a b c d bs h
        simp only [b64encode, List.append_nil]
        exact he
  | a :: b :: c :: d :: e :: rest, bs, h => by
    simp only [b64decode] at h
    split at h
    · rename_i q r hq hr
      cases h
      obtain ⟨_, _, _, _, x, y, z, rfl, he⟩ := quad3_dec a b c d q hq
      have ih := b64encode_decode (e :: rest) r hr
      simp only [List.cons_append, List.nil_append, b64encode]
      rw [ih]
      simp only [List.cons.injEq] at he
      obtain ⟨h1, h2, h3, h4, _⟩ := he
      rw [h1, h2, h3, h4]
    · cases h

theorem b64encode_length : ∀ (bs : List UInt8), (b64encode bs).length % 4 = 0
  | [] => rfl
  | [_] => by simp [b64encode]
  | [_, _] => by simp [b64encode]
  | _ :: _ :: _ :: rest => by
    simp only [b64encode, List.length_append, List.length_cons, List.length_nil]
    have := b64encode_length rest
    omega

theorem b64encode_symbols : ∀ (bs : List UInt8), ∀ c ∈ b64encode bs, (b64val c).isSome = true ∨ c = '='
  | [], c, h => by simp [b64encode] at h
  | [x], c, h => by
    have hx := x.toNat_lt
    simp only [b64encode, List.mem_cons, List.not_mem_nil, or_false] at h
    rcases h with rfl | rfl | rfl | rfl
    · left; rw [b64val_b64chr _ (by omega)]; rfl
    · left; rw [b64val_b64chr _ (by omega)]; rfl
    · right; rfl
    · right; rfl
  | [x, y], c, h => by
    have hx := x.toNat_lt
    have hy := y.toNat_lt
    simp only [b64encode, List.mem_cons, List.not_mem_nil, or_false] at h
    rcases h with rfl | rfl | rfl | rfl
    · left; rw [b64val_b64chr _ (by omega)]; rfl
    · left; rw [b64val_b64chr _ (by omega)]; rfl
    · left; rw [b64val_b64chr _ (by omega)]; rfl
    · right; rfl
  | x :: y :: z :: rest, c, h => by
    have hx := x.toNat_lt
    have hy := y.toNat_lt
    have hz := z.toNat_lt
    simp only [b64encode, List.cons_append, List.nil_append, List.mem_cons] at h
    rcases h with rfl | rfl | rfl | rfl | h
    · left; rw [b64val_b64chr _ (by omega)]; rfl
    · left; rw [b64val_b64chr _ (by omega)]; rfl
    · left; rw [b64val_b64chr _ (by omega)]; rfl
    · left; rw [b64val_b64chr _ (by omega)]; rfl
    · exact b64encode_symbols rest c h

/-- accepted armor has a length that is a multiple of four -/
theorem b64decode_length (e : List Char) (bs : List UInt8) (h : b64decode e = some bs) : e.length % 4 = 0 := by
  rw [← b64encode_decode e bs h]
  exact b64encode_length bs

/-- accepted armor consists of symbols of the standard alphabet and `=` only -/
theorem b64decode_symbols (e : List Char) (bs : List UInt8) (h : b64decode e = some bs) :
    ∀ c ∈ e, (b64val c).isSome = true ∨ c = '=' := by
  rw [← b64encode_decode e bs h]
  exact b64encode_symbols bs

end FilterDef
end Tackler

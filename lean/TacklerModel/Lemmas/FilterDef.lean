import TacklerModel.Model.FilterDef
import TacklerModel.Lemmas.Regex
import TacklerModel.Lemmas.Time
/-!
# Lemmas about `Model/FilterDef.lean`

* base64: `b64decode_encode` (decode ∘ encode = id), `b64encode_decode` (only canonical encodings are accepted),
  `b64decode_length`, `b64decode_symbols`
* UTF-8: `utf8decode_encode`
* decimals: `decOfText_toChars` (the `Display` text of a normal decimal reads back as that decimal),
  `decOfText_normal` (whatever is read is a normal decimal)
* timestamps: `parseTsJson_tsJsonChars` (the serialised text of an instant reads back as that instant)
* UUIDs: `uuidParse_idem` (the canonical text reads back as itself)
-/
namespace Tackler
namespace FilterDef

/-! ## base64 -/

theorem char_le_iff (a b : Char) : a ≤ b ↔ a.toNat ≤ b.toNat := Char.le_def

theorem b64val_chr : ∀ v : Fin 64, b64val (b64chr v.val) = some v.val := by decide

theorem b64val_b64chr (v : Nat) (h : v < 64) : b64val (b64chr v) = some v := b64val_chr ⟨v, h⟩

theorem b64val_pad : b64val '=' = none := by decide

theorem b64chr_ne_pad (v : Nat) (h : v < 64) : b64chr v ≠ '=' := by
  intro e
  have := b64val_b64chr v h
  rw [e, b64val_pad] at this
  cases this

/-- a symbol of the alphabet is the symbol of its value -/
theorem b64chr_of_val (c : Char) (x : Nat) (h : b64val c = some x) : x < 64 ∧ b64chr x = c := by
  unfold b64val at h
  simp only [char_le_iff] at h
  have hc : Char.ofNat c.toNat = c := Char.ofNat_toNat c
  have e1 : ('A' : Char).toNat = 65 := rfl
  have e2 : ('Z' : Char).toNat = 90 := rfl
  have e3 : ('a' : Char).toNat = 97 := rfl
  have e4 : ('z' : Char).toNat = 122 := rfl
  have e5 : ('0' : Char).toNat = 48 := rfl
  have e6 : ('9' : Char).toNat = 57 := rfl
  rw [e1, e2, e3, e4, e5, e6] at h
  unfold b64chr
  split at h
  · cases h
    refine ⟨by omega, ?_⟩
    rw [if_pos (by omega)]
    have : 65 + (c.toNat - 65) = c.toNat := by omega
    rw [this, hc]
  · split at h
    · cases h
      refine ⟨by omega, ?_⟩
      rw [if_neg (by omega), if_pos (by omega)]
      have : 97 + (c.toNat - 97 + 26 - 26) = c.toNat := by omega
      rw [this, hc]
    · split at h
      · cases h
        refine ⟨by omega, ?_⟩
        rw [if_neg (by omega), if_neg (by omega), if_pos (by omega)]
        have : 48 + (c.toNat - 48 + 52 - 52) = c.toNat := by omega
        rw [this, hc]
      · split at h
        · rename_i hp
          cases h
          refine ⟨by omega, ?_⟩
          simp [hp]
        · split at h
          · rename_i hp
            cases h
            refine ⟨by omega, ?_⟩
            simp [hp]
          · cases h

theorem byte_toNat (n : Nat) (h : n < 256) : (byte n).toNat = n := by
  unfold byte
  simp
  omega

theorem byte_of_toNat (x : UInt8) : byte x.toNat = x := by
  unfold byte
  exact UInt8.ofNat_toNat

theorem quad3_enc (x y z : UInt8) :
    quad3 (b64chr (x.toNat / 4)) (b64chr (x.toNat % 4 * 16 + y.toNat / 16)) (b64chr (y.toNat % 16 * 4 + z.toNat / 64))
      (b64chr (z.toNat % 64)) = some [x, y, z] := by
  have hx := x.toNat_lt
  have hy := y.toNat_lt
  have hz := z.toNat_lt
  unfold quad3
  rw [b64val_b64chr _ (by omega), b64val_b64chr _ (by omega), b64val_b64chr _ (by omega), b64val_b64chr _ (by omega)]
  simp only [Option.some.injEq]
  have e1 : x.toNat / 4 * 4 + (x.toNat % 4 * 16 + y.toNat / 16) / 16 = x.toNat := by omega
  have e2 : (x.toNat % 4 * 16 + y.toNat / 16) % 16 * 16 + (y.toNat % 16 * 4 + z.toNat / 64) / 4 = y.toNat := by omega
  have e3 : (y.toNat % 16 * 4 + z.toNat / 64) % 4 * 64 + z.toNat % 64 = z.toNat := by omega
  rw [e1, e2, e3, byte_of_toNat, byte_of_toNat, byte_of_toNat]

theorem b64encode_ne_nil (x : UInt8) (rest : List UInt8) : ∃ a b c d t, b64encode (x :: rest) = a :: b :: c :: d :: t := by
  cases rest with
  | nil => exact ⟨_, _, _, _, _, rfl⟩
  | cons y rest =>
    cases rest with
    | nil => exact ⟨_, _, _, _, _, rfl⟩
    | cons z rest => exact ⟨_, _, _, _, _, rfl⟩

/-- **decode ∘ encode = id** for every byte string -/
theorem b64decode_encode : ∀ (bs : List UInt8), b64decode (b64encode bs) = some bs
  | [] => rfl
  | [x] => by
    have hx := x.toNat_lt
    simp only [b64encode, b64decode, quadLast, if_true]
    rw [b64val_b64chr _ (by omega), b64val_b64chr _ (by omega)]
    have e0 : x.toNat % 4 * 16 % 16 = 0 := by omega
    have e1 : x.toNat / 4 * 4 + x.toNat % 4 * 16 / 16 = x.toNat := by omega
    simp only [e0, if_true, e1, byte_of_toNat]
  | [x, y] => by
    have hx := x.toNat_lt
    have hy := y.toNat_lt
    simp only [b64encode, b64decode, quadLast, if_true]
    rw [if_neg (b64chr_ne_pad _ (by omega))]
    rw [b64val_b64chr _ (by omega), b64val_b64chr _ (by omega), b64val_b64chr _ (by omega)]
    have e0 : y.toNat % 16 * 4 % 4 = 0 := by omega
    have e1 : x.toNat / 4 * 4 + (x.toNat % 4 * 16 + y.toNat / 16) / 16 = x.toNat := by omega
    have e2 : (x.toNat % 4 * 16 + y.toNat / 16) % 16 * 16 + y.toNat % 16 * 4 / 4 = y.toNat := by omega
    simp only [e0, if_true, e1, e2, byte_of_toNat]
  | x :: y :: z :: rest => by
    have hy := y.toNat_lt
    have hz := z.toNat_lt
    have ih := b64decode_encode rest
    cases rest with
    | nil =>
      simp only [b64encode, List.append_nil, b64decode, quadLast]
      rw [if_neg (b64chr_ne_pad _ (by omega)), if_neg (b64chr_ne_pad _ (by omega))]
      exact quad3_enc x y z
    | cons w rest =>
      obtain ⟨a, b, c, d, t, ht⟩ := b64encode_ne_nil w rest
      simp only [b64encode] at ih ⊢
      rw [ht] at ih ⊢
      simp only [List.cons_append, List.nil_append, b64decode]
      rw [quad3_enc x y z, ih]
      rfl


theorem quad3_dec (a b c d : Char) (bs : List UInt8) (h : quad3 a b c d = some bs) :
    a ≠ '=' ∧ b ≠ '=' ∧ c ≠ '=' ∧ d ≠ '=' ∧ ∃ x y z, bs = [x, y, z] ∧
      [b64chr (x.toNat / 4), b64chr (x.toNat % 4 * 16 + y.toNat / 16), b64chr (y.toNat % 16 * 4 + z.toNat / 64),
       b64chr (z.toNat % 64)] = [a, b, c, d] := by
  unfold quad3 at h
  split at h
  · rename_i x y z w ha hb hc hd
    cases h
    obtain ⟨hx, rfl⟩ := b64chr_of_val _ _ ha
    obtain ⟨hy, rfl⟩ := b64chr_of_val _ _ hb
    obtain ⟨hz, rfl⟩ := b64chr_of_val _ _ hc
    obtain ⟨hw, rfl⟩ := b64chr_of_val _ _ hd
    refine ⟨b64chr_ne_pad _ hx, b64chr_ne_pad _ hy, b64chr_ne_pad _ hz, b64chr_ne_pad _ hw, _, _, _, rfl, ?_⟩
    rw [byte_toNat _ (by omega), byte_toNat _ (by omega), byte_toNat _ (by omega)]
    have e1 : (x * 4 + y / 16) / 4 = x := by omega
    have e2 : (x * 4 + y / 16) % 4 * 16 + (y % 16 * 16 + z / 4) / 16 = y := by omega
    have e3 : (y % 16 * 16 + z / 4) % 16 * 4 + (z % 4 * 64 + w) / 64 = z := by omega
    have e4 : (z % 4 * 64 + w) % 64 = w := by omega
    rw [e1, e2, e3, e4]
  · cases h

/-- **the decoder accepts canonical encodings only**: whatever decodes is the encoding of what it decodes to
    (so a wrong length, a symbol outside the alphabet, padding that is missing, superfluous or not at the end, and
    non-zero trailing bits are all rejected) -/
theorem b64encode_decode : ∀ (e : List Char) (bs : List UInt8), b64decode e = some bs → b64encode bs = e
  | [], bs, h => by
    simp only [b64decode, Option.some.injEq] at h
    subst h
    rfl
  | [_], _, h => by simp [b64decode] at h
  | [_, _], _, h => by simp [b64decode] at h
  | [_, _, _], _, h => by simp [b64decode] at h
  | [a, b, c, d], bs, h => by
    simp only [b64decode, quadLast] at h
    split at h
    · rename_i hc
      split at h
      · rename_i hd
        split at h
        · rename_i x y ha hb
          split at h
          · rename_i hy
            cases h
            obtain ⟨hx, rfl⟩ := b64chr_of_val _ _ ha
            obtain ⟨hy', rfl⟩ := b64chr_of_val _ _ hb
            subst hc hd
            simp only [b64encode]
            rw [byte_toNat _ (by omega)]
            have e1 : (x * 4 + y / 16) / 4 = x := by omega
            have e2 : (x * 4 + y / 16) % 4 * 16 = y := by omega
            rw [e1, e2]
          · cases h
        · cases h
      · cases h
    · rename_i hc
      split at h
      · rename_i hd
        split at h
        · rename_i x y z ha hb hcc
          split at h
          · rename_i hz
            cases h
            obtain ⟨hx, rfl⟩ := b64chr_of_val _ _ ha
            obtain ⟨hy', rfl⟩ := b64chr_of_val _ _ hb
            obtain ⟨hz', rfl⟩ := b64chr_of_val _ _ hcc
            subst hd
            simp only [b64encode]
            rw [byte_toNat _ (by omega), byte_toNat _ (by omega)]
            have e1 : (x * 4 + y / 16) / 4 = x := by omega
            have e2 : (x * 4 + y / 16) % 4 * 16 + (y % 16 * 16 + z / 4) / 16 = y := by omega
            have e3 : (y % 16 * 16 + z / 4) % 16 * 4 = z := by omega
            rw [e1, e2, e3]
          · cases h
        · cases h
      · obtain ⟨_, _, _, _, x, y, z, rfl, he⟩ := quad3_dec a b c d bs h
        simp only [b64encode, List.append_nil]
        exact he
  | a :: b :: c :: d :: e :: rest, bs, h => by
    simp only [b64decode] at h
    split at h
    · rename_i q r hq hr
      cases h
      obtain ⟨_, _, _, _, x, y, z, rfl, he⟩ := quad3_dec a b c d q hq
      have ih := b64encode_decode (e :: rest) r hr
      simp only [List.cons_append, List.nil_append, b64encode]
      rw [ih]
      simp only [List.cons.injEq] at he
      obtain ⟨h1, h2, h3, h4, _⟩ := he
      rw [h1, h2, h3, h4]
    · cases h

theorem b64encode_length : ∀ (bs : List UInt8), (b64encode bs).length % 4 = 0
  | [] => rfl
  | [_] => by simp [b64encode]
  | [_, _] => by simp [b64encode]
  | _ :: _ :: _ :: rest => by
    simp only [b64encode, List.length_append, List.length_cons, List.length_nil]
    have := b64encode_length rest
    omega

theorem b64encode_symbols : ∀ (bs : List UInt8), ∀ c ∈ b64encode bs, (b64val c).isSome = true ∨ c = '='
  | [], c, h => by simp [b64encode] at h
  | [x], c, h => by
    have hx := x.toNat_lt
    simp only [b64encode, List.mem_cons, List.not_mem_nil, or_false] at h
    rcases h with rfl | rfl | rfl | rfl
    · left; rw [b64val_b64chr _ (by omega)]; rfl
    · left; rw [b64val_b64chr _ (by omega)]; rfl
    · right; rfl
    · right; rfl
  | [x, y], c, h => by
    have hx := x.toNat_lt
    have hy := y.toNat_lt
    simp only [b64encode, List.mem_cons, List.not_mem_nil, or_false] at h
    rcases h with rfl | rfl | rfl | rfl
    · left; rw [b64val_b64chr _ (by omega)]; rfl
    · left; rw [b64val_b64chr _ (by omega)]; rfl
    · left; rw [b64val_b64chr _ (by omega)]; rfl
    · right; rfl
  | x :: y :: z :: rest, c, h => by
    have hx := x.toNat_lt
    have hy := y.toNat_lt
    have hz := z.toNat_lt
    simp only [b64encode, List.cons_append, List.nil_append, List.mem_cons] at h
    rcases h with rfl | rfl | rfl | rfl | h
    · left; rw [b64val_b64chr _ (by omega)]; rfl
    · left; rw [b64val_b64chr _ (by omega)]; rfl
    · left; rw [b64val_b64chr _ (by omega)]; rfl
    · left; rw [b64val_b64chr _ (by omega)]; rfl
    · exact b64encode_symbols rest c h

/-- accepted armor has a length that is a multiple of four -/
theorem b64decode_length (e : List Char) (bs : List UInt8) (h : b64decode e = some bs) : e.length % 4 = 0 := by
  rw [← b64encode_decode e bs h]
  exact b64encode_length bs

/-- accepted armor consists of symbols of the standard alphabet and `=` only -/
theorem b64decode_symbols (e : List Char) (bs : List UInt8) (h : b64decode e = some bs) :
    ∀ c ∈ e, (b64val c).isSome = true ∨ c = '=' := by
  rw [← b64encode_decode e bs h]
  exact b64encode_symbols bs

/-! ## UTF-8 -/

theorem char_range (c : Char) : c.toNat < 55296 ∨ (57343 < c.toNat ∧ c.toNat < 1114112) := by
  have h := c.valid
  unfold UInt32.isValidChar Nat.isValidChar at h
  exact h

theorem isCont_byte (n : Nat) (h : 128 ≤ n ∧ n < 192) : isCont (byte n) = true := by
  unfold isCont
  rw [byte_toNat n (by omega)]
  simp only [Bool.and_eq_true, decide_eq_true_eq]
  exact h

theorem utf8decode_step1 (n : Nat) (rest : List UInt8) (cs : List Char) (h : n < 128) (hr : utf8decode rest = some cs) :
    utf8decode (byte n :: rest) = some (Char.ofNat n :: cs) := by
  rw [utf8decode.eq_def]
  simp only [byte_toNat n (by omega), if_pos h, hr]

theorem utf8decode_step2 (n0 n1 : Nat) (rest : List UInt8) (cs : List Char) (h0 : 194 ≤ n0 ∧ n0 < 224) (h1 : 128 ≤ n1 ∧ n1 < 192)
    (hr : utf8decode rest = some cs) :
    utf8decode (byte n0 :: byte n1 :: rest) = some (Char.ofNat ((n0 - 192) * 64 + (n1 - 128)) :: cs) := by
  rw [utf8decode.eq_def]
  simp only [byte_toNat n0 (by omega)]
  rw [if_neg (by omega), if_pos h0]
  simp only [isCont_byte n1 h1, if_true, hr, byte_toNat n1 (by omega)]

theorem utf8decode_step3 (n0 n1 n2 : Nat) (rest : List UInt8) (cs : List Char) (h0 : 224 ≤ n0 ∧ n0 < 240) (h1 : 128 ≤ n1 ∧ n1 < 192)
    (h2 : 128 ≤ n2 ∧ n2 < 192) (hlo : 2048 ≤ (n0 - 224) * 4096 + (n1 - 128) * 64 + (n2 - 128))
    (hs : ¬ (55296 ≤ (n0 - 224) * 4096 + (n1 - 128) * 64 + (n2 - 128) ∧ (n0 - 224) * 4096 + (n1 - 128) * 64 + (n2 - 128) ≤ 57343))
    (hr : utf8decode rest = some cs) :
    utf8decode (byte n0 :: byte n1 :: byte n2 :: rest) =
      some (Char.ofNat ((n0 - 224) * 4096 + (n1 - 128) * 64 + (n2 - 128)) :: cs) := by
  rw [utf8decode.eq_def]
  simp only [byte_toNat n0 (by omega)]
  rw [if_neg (by omega), if_neg (by omega), if_pos h0]
  simp only [isCont_byte n1 h1, isCont_byte n2 h2, byte_toNat n1 (by omega), byte_toNat n2 (by omega), Bool.and_self, Bool.true_and,
    decide_eq_true hlo, hr]
  have : (decide (55296 ≤ (n0 - 224) * 4096 + (n1 - 128) * 64 + (n2 - 128)) &&
      decide ((n0 - 224) * 4096 + (n1 - 128) * 64 + (n2 - 128) ≤ 57343)) = false := by
    rw [Bool.and_eq_false_iff]
    simp only [decide_eq_false_iff_not]
    omega
  simp only [this, Bool.not_false, if_true]

theorem utf8decode_step4 (n0 n1 n2 n3 : Nat) (rest : List UInt8) (cs : List Char) (h0 : 240 ≤ n0 ∧ n0 < 245) (h1 : 128 ≤ n1 ∧ n1 < 192)
    (h2 : 128 ≤ n2 ∧ n2 < 192) (h3 : 128 ≤ n3 ∧ n3 < 192)
    (hlo : 65536 ≤ (n0 - 240) * 262144 + (n1 - 128) * 4096 + (n2 - 128) * 64 + (n3 - 128))
    (hhi : (n0 - 240) * 262144 + (n1 - 128) * 4096 + (n2 - 128) * 64 + (n3 - 128) ≤ 1114111)
    (hr : utf8decode rest = some cs) :
    utf8decode (byte n0 :: byte n1 :: byte n2 :: byte n3 :: rest) =
      some (Char.ofNat ((n0 - 240) * 262144 + (n1 - 128) * 4096 + (n2 - 128) * 64 + (n3 - 128)) :: cs) := by
  rw [utf8decode.eq_def]
  simp only [byte_toNat n0 (by omega)]
  rw [if_neg (by omega), if_neg (by omega), if_neg (by omega), if_pos h0]
  simp only [isCont_byte n1 h1, isCont_byte n2 h2, isCont_byte n3 h3, byte_toNat n1 (by omega), byte_toNat n2 (by omega),
    byte_toNat n3 (by omega), Bool.and_self, decide_eq_true hlo, decide_eq_true hhi, if_true, hr]

/-- **UTF-8: decode ∘ encode = id** for every text -/
theorem utf8decode_encode : ∀ (cs : List Char), utf8decode (utf8encode cs) = some cs
  | [] => rfl
  | c :: cs => by
    have ih := utf8decode_encode cs
    have hr := char_range c
    have hc : Char.ofNat c.toNat = c := Char.ofNat_toNat c
    simp only [utf8encode, utf8encodeChar]
    by_cases h1 : c.toNat < 128
    · rw [if_pos h1]
      simp only [List.cons_append, List.nil_append]
      rw [utf8decode_step1 _ _ _ h1 ih, hc]
    · rw [if_neg h1]
      by_cases h2 : c.toNat < 2048
      · rw [if_pos h2]
        simp only [List.cons_append, List.nil_append]
        rw [utf8decode_step2 _ _ _ _ (by omega) (by omega) ih]
        have e : (192 + c.toNat / 64 - 192) * 64 + (128 + c.toNat % 64 - 128) = c.toNat := by omega
        rw [e, hc]
      · rw [if_neg h2]
        by_cases h3 : c.toNat < 65536
        · rw [if_pos h3]
          simp only [List.cons_append, List.nil_append]
          have e : (224 + c.toNat / 4096 - 224) * 4096 + (128 + c.toNat / 64 % 64 - 128) * 64 + (128 + c.toNat % 64 - 128) = c.toNat := by
            omega
          rw [utf8decode_step3 _ _ _ _ _ (by omega) (by omega) (by omega) (by omega) (by omega) ih, e, hc]
        · rw [if_neg h3]
          simp only [List.cons_append, List.nil_append]
          have e : (240 + c.toNat / 262144 - 240) * 262144 + (128 + c.toNat / 4096 % 64 - 128) * 4096 +
              (128 + c.toNat / 64 % 64 - 128) * 64 + (128 + c.toNat % 64 - 128) = c.toNat := by omega
          rw [utf8decode_step4 _ _ _ _ _ _ (by omega) (by omega) (by omega) (by omega) (by omega) (by omega) ih, e, hc]

/-! ## decimals -/

section Decimals
open Dec


theorem isDig_iff (c : Char) : Time.isDig c = true ↔ 48 ≤ c.toNat ∧ c.toNat ≤ 57 := by
  unfold Time.isDig
  simp only [decide_eq_true_eq, char_le_iff]
  have e1 : ('0' : Char).toNat = 48 := rfl
  have e2 : ('9' : Char).toNat = 57 := rfl
  rw [e1, e2]

theorem isDig_of_isDigit (c : Char) (h : c.isDigit = true) : Time.isDig c = true := by
  rw [isDig_iff]
  unfold Char.isDigit at h
  simp only [Bool.and_eq_true, decide_eq_true_eq] at h
  have h1 : (48 : UInt32) ≤ c.val := h.1
  have h2 : c.val ≤ (57 : UInt32) := h.2
  rw [UInt32.le_iff_toNat_le] at h1 h2
  exact ⟨h1, h2⟩

theorem digitsVal_append (a b : List Char) :
    digitsVal (a ++ b) = b.foldl (fun acc c => acc * 10 + digitVal c) (digitsVal a) := by
  unfold digitsVal
  rw [List.foldl_append]

theorem foldl_digits_ge (b : List Char) (acc : Nat) : acc ≤ b.foldl (fun acc c => acc * 10 + digitVal c) acc := by
  induction b generalizing acc with
  | nil => exact Nat.le_refl _
  | cons c b ih =>
    simp only [List.foldl_cons]
    exact Nat.le_trans (by omega) (ih _)

theorem digitsVal_le_append (a b : List Char) : digitsVal a ≤ digitsVal (a ++ b) := by
  rw [digitsVal_append]
  exact foldl_digits_ge b _

theorem scanDec_fp (neg : Bool) (ip : List Char) (hip : digitsVal ip ≤ max96) :
    ∀ (ds fp : List Char), (∀ c ∈ ds, Time.isDig c = true) → fp.length + ds.length ≤ 28 →
      digitsVal (ip ++ (fp ++ ds)) ≤ max96 →
      scanDec neg true true ip fp ds =
        .ok ⟨neg && digitsVal (ip ++ (fp ++ ds)) != 0, digitsVal (ip ++ (fp ++ ds)), (fp ++ ds).length⟩ := by
  intro ds
  induction ds with
  | nil =>
    intro fp _ hlen hv
    simp only [List.append_nil] at hv ⊢
    rw [scanDec, if_neg (by omega), if_neg (by simp only [List.length_nil, Nat.add_zero] at hlen; omega)]
    simp
  | cons c ds ih =>
    intro fp hd hlen hv
    have hpre : digitsVal (ip ++ fp) ≤ max96 := by
      have := digitsVal_le_append (ip ++ fp) (c :: ds)
      rw [List.append_assoc] at this
      omega
    simp only [List.length_cons] at hlen
    rw [scanDec, if_neg (by omega), if_neg (by omega), if_pos (hd c List.mem_cons_self)]
    simp only [if_true]
    have := ih (fp ++ [c]) (fun x hx => hd x (List.mem_cons_of_mem _ hx))
      (by simp only [List.length_append, List.length_cons, List.length_nil]; omega)
      (by simpa [List.append_assoc] using hv)
    simpa [List.append_assoc] using this

theorem scanDec_ip (neg : Bool) (rest : List Char) :
    ∀ (ds ip : List Char) (seen : Bool), (∀ c ∈ ds, Time.isDig c = true) → digitsVal (ip ++ ds) ≤ max96 →
      scanDec neg seen false ip [] (ds ++ rest) = scanDec neg (seen || !ds.isEmpty) false (ip ++ ds) [] rest := by
  intro ds
  induction ds with
  | nil => intro ip seen _ _; simp
  | cons c ds ih =>
    intro ip seen hd hv
    have hpre : digitsVal ip ≤ max96 := Nat.le_trans (digitsVal_le_append ip (c :: ds)) hv
    simp only [List.cons_append]
    rw [scanDec, if_neg (by omega), if_neg (by simp only [List.length_nil, List.append_nil]; omega),
      if_pos (hd c List.mem_cons_self)]
    simp only [Bool.false_eq_true, if_false]
    rw [ih (ip ++ [c]) true (fun x hx => hd x (List.mem_cons_of_mem _ hx)) (by simpa [List.append_assoc] using hv)]
    simp [List.append_assoc]

theorem digitsVal_eq (l : List Char) : digitsVal l = Nat.ofDigitChars 10 l 0 := by
  unfold digitsVal Nat.ofDigitChars digitVal
  congr 1; funext acc c; rw [Nat.mul_comm]

theorem digitsVal_zeros_append (l : List Char) (n : Nat) :
    digitsVal (List.replicate n '0' ++ l) = digitsVal l := by
  rw [digitsVal_eq, digitsVal_eq, Nat.ofDigitChars_append, Nat.ofDigitChars_replicate_zero]; simp

theorem digitsVal_toDigits (n : Nat) : digitsVal (Nat.toDigits 10 n) = n := by
  rw [digitsVal_eq]; exact Nat.ofDigitChars_ten_toDigits

/-- the digit string `Display` starts from -/
def dispDigits (x : Dec) : List Char := padLeft (x.scale + 1) (Nat.toDigits 10 x.coeff)

theorem dispDigits_val (x : Dec) : digitsVal (dispDigits x) = x.coeff := by
  unfold dispDigits padLeft; rw [digitsVal_zeros_append, digitsVal_toDigits]

theorem dispDigits_isDig (x : Dec) : ∀ c ∈ dispDigits x, Time.isDig c = true := by
  intro c hc
  unfold dispDigits padLeft at hc
  rcases List.mem_append.mp hc with h | h
  · rw [(List.mem_replicate.mp h).2]; decide
  · exact isDig_of_isDigit c (Nat.isDigit_of_mem_toDigits (by decide) (by decide) h)

theorem dispDigits_length (x : Dec) : x.scale + 1 ≤ (dispDigits x).length := by
  unfold dispDigits padLeft
  rw [List.length_append, List.length_replicate]; omega

theorem toChars_eq (x : Dec) :
    x.toChars = (if x.neg then ['-'] else []) ++ (dispDigits x).take ((dispDigits x).length - x.scale) ++
      (if x.scale = 0 then [] else '.' :: (dispDigits x).drop ((dispDigits x).length - x.scale)) := rfl

theorem isDig_ne (c : Char) (h : Time.isDig c = true) : c ≠ '-' ∧ c ≠ '+' ∧ c ≠ '.' ∧ c ≠ '_' := by
  rw [isDig_iff] at h
  refine ⟨?_, ?_, ?_, ?_⟩ <;> (intro e; subst e; revert h; decide)

/-- the `Display` text of a normal decimal (after the sign) scans back to it -/
theorem scanDec_disp (x : Dec) (h : DecNormal x) :
    scanDec x.neg false false [] [] ((dispDigits x).take ((dispDigits x).length - x.scale) ++
      (if x.scale = 0 then [] else '.' :: (dispDigits x).drop ((dispDigits x).length - x.scale))) = .ok x := by
  obtain ⟨⟨hs, hc⟩, hz⟩ := h
  have hlen := dispDigits_length x
  have hdig := dispDigits_isDig x
  have hval := dispDigits_val x
  generalize hds : dispDigits x = ds at hlen hdig hval
  have hipd : ∀ c ∈ ds.take (ds.length - x.scale), Time.isDig c = true := fun c hc => hdig c (List.mem_of_mem_take hc)
  have hfpd : ∀ c ∈ ds.drop (ds.length - x.scale), Time.isDig c = true := fun c hc => hdig c (List.mem_of_mem_drop hc)
  have hipv : digitsVal (ds.take (ds.length - x.scale)) ≤ max96 := by
    have := digitsVal_le_append (ds.take (ds.length - x.scale)) (ds.drop (ds.length - x.scale))
    rw [List.take_append_drop, hval] at this
    omega
  have hne : (ds.take (ds.length - x.scale)).isEmpty = false := by
    cases hx : ds.take (ds.length - x.scale) with
    | nil =>
      have := congrArg List.length hx
      rw [List.length_take] at this
      simp at this; omega
    | cons _ _ => rfl
  have hfl : (ds.drop (ds.length - x.scale)).length = x.scale := by rw [List.length_drop]; omega
  rw [scanDec_ip x.neg _ _ [] false hipd (by simpa using hipv)]
  simp only [List.nil_append, hne, Bool.not_false, Bool.or_true]
  have hnz : (x.neg && x.coeff != 0) = x.neg := by
    by_cases h0 : x.coeff = 0
    · simp [h0, hz h0]
    · simp [h0]
  by_cases h0 : x.scale = 0
  · have e : ds.take (ds.length - x.scale) = ds := by rw [h0]; simp
    rw [if_pos h0, e]
    rw [scanDec, if_neg (by omega), if_neg (by simp only [List.length_nil, List.append_nil]; omega)]
    simp only [List.append_nil, List.length_nil, if_true]
    rw [hval, hnz, ← h0]
  · rw [if_neg h0]
    rw [scanDec, if_neg (by omega), if_neg (by simp only [List.length_nil, List.append_nil]; omega), if_neg (by decide)]
    simp only [and_self, if_true]
    rw [scanDec_fp x.neg _ hipv _ [] hfpd (by simp only [List.length_nil, hfl]; omega)
      (by simp only [List.nil_append, List.take_append_drop, hval]; omega)]
    simp only [List.nil_append, List.take_append_drop, hval, hfl, hnz]

theorem decFromStr_toChars (x : Dec) (h : DecNormal x) : decFromStr x.toChars = .ok x := by
  have hlen := dispDigits_length x
  have hdig := dispDigits_isDig x
  have key := scanDec_disp x h
  rw [toChars_eq]
  cases hn : x.neg with
  | true =>
    rw [hn] at key
    simp only [if_true, List.cons_append, List.nil_append, decFromStr]
    exact key
  | false =>
    rw [hn] at key
    simp only [Bool.false_eq_true, if_false, List.nil_append]
    -- the first character is a digit
    cases hx : (dispDigits x).take ((dispDigits x).length - x.scale) with
    | nil =>
      have := congrArg List.length hx
      rw [List.length_take] at this
      simp at this; omega
    | cons c t =>
      have hc : Time.isDig c = true := hdig c (List.mem_of_mem_take (by rw [hx]; exact List.mem_cons_self))
      obtain ⟨h1, h2, _, _⟩ := isDig_ne c hc
      rw [hx] at key
      simp only [List.cons_append, decFromStr, if_neg h1, if_neg h2]
      exact key

theorem decOfText_toChars (x : Dec) (h : DecNormal x) : decOfText x.toChars = .ok x := by
  unfold decOfText
  rw [decFromStr_toChars x h]



theorem scanDec_normal (neg : Bool) : ∀ (cs : List Char) (seen point : Bool) (ip fp : List Char) (d : Dec),
    scanDec neg seen point ip fp cs = .ok d → DecNormal d := by
  intro cs
  induction cs with
  | nil =>
    intro seen point ip fp d h
    rw [scanDec] at h
    split at h
    · cases h
    · split at h
      · cases h
      · rename_i h2
        split at h
        · cases h
          refine ⟨⟨?_, ?_⟩, ?_⟩
          · show fp.length ≤ 28
            omega
          · show digitsVal (ip ++ fp) ≤ max96
            omega
          · intro h0
            show (neg && digitsVal (ip ++ fp) != 0) = false
            have h0' : digitsVal (ip ++ fp) = 0 := h0
            simp [h0']
        · cases h
  | cons c cs ih =>
    intro seen point ip fp d h
    rw [scanDec] at h
    split at h
    · cases h
    · split at h
      · cases h
      · split at h
        · split at h
          · exact ih _ _ _ _ _ h
          · exact ih _ _ _ _ _ h
        · split at h
          · exact ih _ _ _ _ _ h
          · split at h
            · exact ih _ _ _ _ _ h
            · cases h

theorem decFromStr_normal (cs : List Char) (d : Dec) (h : decFromStr cs = .ok d) : DecNormal d := by
  unfold decFromStr at h
  split at h
  · cases h
  · split at h
    · exact scanDec_normal _ _ _ _ _ _ _ h
    · split at h
      · exact scanDec_normal _ _ _ _ _ _ _ h
      · exact scanDec_normal _ _ _ _ _ _ _ h

theorem normalize_go_spec : ∀ (fuel c s : Nat), c ≠ 0 →
    (Dec.normalize.go fuel c s).1 ≠ 0 ∧ (Dec.normalize.go fuel c s).1 ≤ c ∧ (Dec.normalize.go fuel c s).2 ≤ s := by
  intro fuel
  induction fuel with
  | zero => intro c s h; simp [Dec.normalize.go, h]
  | succ n ih =>
    intro c s h
    rw [Dec.normalize.go]
    split
    · rename_i hc
      have hne : c / 10 ≠ 0 := by omega
      obtain ⟨h1, h2, h3⟩ := ih (c / 10) (s - 1) hne
      exact ⟨h1, by omega, by omega⟩
    · exact ⟨h, Nat.le_refl _, Nat.le_refl _⟩

theorem normalize_normal (r : Dec) (h : r.WF) : DecNormal r.normalize := by
  unfold Dec.normalize
  split
  · exact ⟨⟨by decide, by decide⟩, fun _ => rfl⟩
  · rename_i h0
    obtain ⟨h1, h2, h3⟩ := normalize_go_spec r.scale r.coeff r.scale h0
    obtain ⟨hs, hc⟩ := h
    refine ⟨⟨?_, ?_⟩, ?_⟩
    · show (Dec.normalize.go r.scale r.coeff r.scale).2 ≤ 28
      omega
    · show (Dec.normalize.go r.scale r.coeff r.scale).1 ≤ max96
      omega
    · intro hz
      exact absurd hz h1

theorem mul_wf (a b r : Dec) (h : Dec.mul a b = some r) : r.WF := by
  unfold Dec.mul at h
  split at h
  · cases h; exact ⟨by decide, by decide⟩
  · split at h
    · rename_i hg
      cases h
      exact ⟨hg.1, hg.2⟩
    · cases h

theorem applyExp_normal (ret : Dec) (ex : List Char) (d : Dec) (hr : DecNormal ret) (h : applyExp ret ex = .ok d) :
    DecNormal d := by
  obtain ⟨⟨hs, hc⟩, hz⟩ := hr
  unfold applyExp at h
  split at h
  · split at h
    · cases h
    · split at h
      · cases h
      · split at h
        · cases h
        · cases h
          exact ⟨⟨by show ret.scale + _ ≤ 28; omega, hc⟩, hz⟩
  · split at h
    · cases h
    · split at h
      · cases h
        exact ⟨⟨by show ret.scale - _ ≤ 28; omega, hc⟩, hz⟩
      · split at h
        · cases h
        · split at h
          · rename_i r hm
            cases h
            exact normalize_normal r (mul_wf _ _ _ hm)
          · exact absurd h (Outcome.inexact_ne_ok _ _)

theorem decFromSci_normal (cs : List Char) (d : Dec) (h : decFromSci cs = .ok d) : DecNormal d := by
  unfold decFromSci at h
  split at h
  · cases h
  · rename_i base ex _
    obtain ⟨ret, hret, hd⟩ := (Outcome.bind_ok _ _ _).mp h
    exact applyExp_normal ret ex d (decFromStr_normal _ _ hret) hd

/-- whatever `decOfText` reads is a normal decimal -/
theorem decOfText_normal (cs : List Char) (d : Dec) (h : decOfText cs = .ok d) : DecNormal d := by
  unfold decOfText at h
  split at h
  · rename_i d' hd
    cases h
    exact decFromStr_normal _ _ hd
  · exact decFromSci_normal _ _ h
  · cases h

theorem decField_normal (v : JVal) (d : Dec) (h : decField v = .ok d) : DecNormal d := by
  unfold decField at h
  split at h
  · exact decOfText_normal _ _ h
  · exact decOfText_normal _ _ h
  · split at h
    · exact decOfText_normal _ _ h
    · cases h
  · cases h


end Decimals

/-! ## UUIDs -/

/-- canonical hexadecimal digit: lower case, ASCII -/
def LowerHex (c : Char) : Prop := hexLower c = some c ∧ c.toNat < 128

theorem hexLower_out (c x : Char) (h : hexLower c = some x) : LowerHex x := by
  unfold hexLower at h
  simp only [char_le_iff] at h
  have e0 : ('0' : Char).toNat = 48 := rfl
  have e9 : ('9' : Char).toNat = 57 := rfl
  have ea : ('a' : Char).toNat = 97 := rfl
  have ef : ('f' : Char).toNat = 102 := rfl
  have eA : ('A' : Char).toNat = 65 := rfl
  have eF : ('F' : Char).toNat = 70 := rfl
  rw [e0, e9, ea, ef, eA, eF] at h
  split at h
  · rename_i hr
    cases h
    refine ⟨?_, by omega⟩
    unfold hexLower
    simp only [char_le_iff]
    rw [e0, e9, ea, ef, if_pos hr]
  · split at h
    · rename_i hr
      cases h
      have hc : Char.ofNat c.toNat = c := Char.ofNat_toNat c
      have : c.toNat = 65 ∨ c.toNat = 66 ∨ c.toNat = 67 ∨ c.toNat = 68 ∨ c.toNat = 69 ∨ c.toNat = 70 := by omega
      rcases this with e | e | e | e | e | e <;> (rw [e] at hc ⊢; subst hc; unfold LowerHex; decide)
    · cases h

theorem hexN_out : ∀ (n : Nat) (cs a r : List Char), hexN n cs = some (a, r) →
    a.length = n ∧ (∀ c ∈ a, LowerHex c) ∧ cs = cs.take n ++ r ∧ n ≤ cs.length := by
  intro n
  induction n with
  | zero =>
    intro cs a r h
    simp only [hexN, Option.some.injEq, Prod.mk.injEq] at h
    obtain ⟨rfl, rfl⟩ := h
    simp
  | succ n ih =>
    intro cs a r h
    cases cs with
    | nil => simp [hexN] at h
    | cons c cs =>
      simp only [hexN] at h
      split at h
      · rename_i x xs rest hx hxs
        cases h
        obtain ⟨h1, h2, h3, h4⟩ := ih cs xs r hxs
        refine ⟨by simp [h1], ?_, ?_, by simp; omega⟩
        · intro y hy
          rcases List.mem_cons.mp hy with rfl | hy
          · exact hexLower_out c _ hx
          · exact h2 y hy
        · simp only [List.take_succ_cons, List.cons_append]
          rw [← h3]
      · cases h

theorem hexN_fix : ∀ (a rest : List Char), (∀ c ∈ a, LowerHex c) → hexN a.length (a ++ rest) = some (a, rest) := by
  intro a
  induction a with
  | nil => intro rest _; rfl
  | cons c a ih =>
    intro rest h
    simp only [List.length_cons, List.cons_append, hexN]
    rw [(h c List.mem_cons_self).1, ih rest (fun x hx => h x (List.mem_cons_of_mem _ hx))]

/-- the canonical text of a UUID: 8-4-4-4-12 lower-case hexadecimal digits -/
def CanonUuid (u : List Char) : Prop :=
  ∃ a b c d e : List Char, u = a ++ '-' :: (b ++ '-' :: (c ++ '-' :: (d ++ '-' :: e))) ∧
    a.length = 8 ∧ b.length = 4 ∧ c.length = 4 ∧ d.length = 4 ∧ e.length = 12 ∧
    (∀ x ∈ a, LowerHex x) ∧ (∀ x ∈ b, LowerHex x) ∧ (∀ x ∈ c, LowerHex x) ∧ (∀ x ∈ d, LowerHex x) ∧ (∀ x ∈ e, LowerHex x)

theorem uuidHyph_out (cs u : List Char) (h : uuidHyph cs = some u) : CanonUuid u := by
  unfold uuidHyph at h
  split at h
  · cases h
  · rename_i a r1 h1
    split at h
    · cases h
    · split at h
      · cases h
      · rename_i b r3 h3
        split at h
        · cases h
        · split at h
          · cases h
          · rename_i c r5 h5
            split at h
            · cases h
            · split at h
              · cases h
              · rename_i d r7 h7
                split at h
                · cases h
                · split at h
                  · cases h
                  · rename_i e r9 h9
                    split at h
                    · cases h
                      obtain ⟨la, ha, _, _⟩ := hexN_out _ _ _ _ h1
                      obtain ⟨lb, hb, _, _⟩ := hexN_out _ _ _ _ h3
                      obtain ⟨lc, hc, _, _⟩ := hexN_out _ _ _ _ h5
                      obtain ⟨ld, hd, _, _⟩ := hexN_out _ _ _ _ h7
                      obtain ⟨le, he, _, _⟩ := hexN_out _ _ _ _ h9
                      exact ⟨a, b, c, d, e, rfl, la, lb, lc, ld, le, ha, hb, hc, hd, he⟩
                    · cases h

theorem uuidHyph_canon (u : List Char) (h : CanonUuid u) : uuidHyph u = some u := by
  obtain ⟨a, b, c, d, e, rfl, la, lb, lc, ld, le, ha, hb, hc, hd, he⟩ := h
  unfold uuidHyph
  have h1 := hexN_fix a ('-' :: (b ++ '-' :: (c ++ '-' :: (d ++ '-' :: e)))) ha
  have h3 := hexN_fix b ('-' :: (c ++ '-' :: (d ++ '-' :: e))) hb
  have h5 := hexN_fix c ('-' :: (d ++ '-' :: e)) hc
  have h7 := hexN_fix d ('-' :: e) hd
  have h9 := hexN_fix e [] he
  rw [la] at h1; rw [lb] at h3; rw [lc] at h5; rw [ld] at h7; rw [le, List.append_nil] at h9
  simp only [h1, dash, if_true, h3, h5, h7, h9, List.isEmpty_nil]

theorem lowerHex_take {l : List Char} (h : ∀ x ∈ l, LowerHex x) (n : Nat) : ∀ x ∈ l.take n, LowerHex x :=
  fun x hx => h x (List.mem_of_mem_take hx)

theorem lowerHex_drop {l : List Char} (h : ∀ x ∈ l, LowerHex x) (n : Nat) : ∀ x ∈ l.drop n, LowerHex x :=
  fun x hx => h x (List.mem_of_mem_drop hx)

theorem uuidSimple_out (cs u : List Char) (h : uuidSimple cs = some u) : CanonUuid u := by
  unfold uuidSimple at h
  split at h
  · cases h
  · rename_i x r hx
    split at h
    · cases h
      obtain ⟨lx, hh, _, _⟩ := hexN_out _ _ _ _ hx
      refine ⟨_, _, _, _, _, rfl, ?_, ?_, ?_, ?_, ?_, lowerHex_take hh _, lowerHex_take (lowerHex_drop hh _) _,
        lowerHex_take (lowerHex_drop hh _) _, lowerHex_take (lowerHex_drop hh _) _, lowerHex_drop hh _⟩ <;>
        simp [List.length_take, List.length_drop, lx]
    · cases h

theorem canon_length (u : List Char) (h : CanonUuid u) : u.length = 36 ∧ u.all (fun c => decide (c.toNat < 128)) = true := by
  obtain ⟨a, b, c, d, e, rfl, la, lb, lc, ld, le, ha, hb, hc, hd, he⟩ := h
  refine ⟨by simp [la, lb, lc, ld, le], ?_⟩
  rw [List.all_eq_true]
  intro x hx
  simp only [List.mem_append, List.mem_cons] at hx
  simp only [decide_eq_true_eq]
  rcases hx with hx | rfl | hx | rfl | hx | rfl | hx | rfl | hx
  · exact (ha x hx).2
  · decide
  · exact (hb x hx).2
  · decide
  · exact (hc x hx).2
  · decide
  · exact (hd x hx).2
  · decide
  · exact (he x hx).2

theorem uuidParse_out (cs u : List Char) (h : uuidParse cs = some u) : CanonUuid u := by
  unfold uuidParse at h
  split at h
  · split at h
    · exact uuidSimple_out _ _ h
    · split at h
      · exact uuidHyph_out _ _ h
      · split at h
        · split at h
          · exact uuidHyph_out _ _ h
          · cases h
        · split at h
          · split at h
            · exact uuidHyph_out _ _ h
            · cases h
          · cases h
  · cases h

theorem uuidParse_canon (u : List Char) (h : CanonUuid u) : uuidParse u = some u := by
  obtain ⟨hl, ha⟩ := canon_length u h
  unfold uuidParse
  rw [if_pos ha, if_neg (by omega), if_pos hl]
  exact uuidHyph_canon u h

/-- the canonical text reads back as itself -/
theorem uuidParse_idem (cs u : List Char) (h : uuidParse cs = some u) : uuidParse u = some u :=
  uuidParse_canon u (uuidParse_out cs u h)


/-! ## timestamps -/

section Timestamps
open Time Dec

theorem year_bounds (y : Int) (m d : Nat) (hm : 1 ≤ m ∧ m ≤ 12) (hd : 1 ≤ d ∧ d ≤ 31)
    (hlo : -4371586 ≤ daysFromCivil y m d) (hhi : daysFromCivil y m d ≤ 2932895) : -9999 ≤ y ∧ y ≤ 9999 := by
  unfold daysFromCivil at hlo hhi
  simp only at hlo hhi
  constructor
  · by_cases h2 : m ≤ 2
    · simp only [h2, if_true] at hlo
      have : ¬ m > 2 := by omega
      simp only [this, if_false] at hlo
      omega
    · simp only [h2, if_false] at hlo
      have : m > 2 := by omega
      simp only [this, if_true] at hlo
      omega
  · by_cases h2 : m ≤ 2
    · simp only [h2, if_true] at hhi
      have : ¬ m > 2 := by omega
      simp only [this, if_false] at hhi
      omega
    · simp only [h2, if_false] at hhi
      have : m > 2 := by omega
      simp only [this, if_true] at hhi
      omega

/-- the decimal digit character of `k % 10` -/
def dch (k : Nat) : Char := Char.ofNat (48 + k % 10)

theorem dch_cases (k : Nat) (P : Char → Prop) (h : ∀ r : Fin 10, P (Char.ofNat (48 + r.val))) : P (dch k) :=
  h ⟨k % 10, Nat.mod_lt _ (by decide)⟩

theorem isDig_dch (k : Nat) : isDig (dch k) = true := dch_cases k (fun c => isDig c = true) (by decide)

theorem digitVal_dch (k : Nat) : digitVal (dch k) = k % 10 := by
  have : ∀ r : Fin 10, digitVal (Char.ofNat (48 + r.val)) = r.val := by decide
  exact this ⟨k % 10, Nat.mod_lt _ (by decide)⟩

theorem dch_ne (k : Nat) : dch k ≠ '-' ∧ dch k ≠ '+' ∧ dch k ≠ '.' ∧ dch k ≠ 'T' ∧ dch k ≠ 'Z' :=
  dch_cases k (fun c => c ≠ '-' ∧ c ≠ '+' ∧ c ≠ '.' ∧ c ≠ 'T' ∧ c ≠ 'Z') (by decide)

theorem dch_zero (k : Nat) (h : k % 10 = 0) : dch k = '0' := by unfold dch; rw [h]

theorem digitsW_two (n : Nat) : digitsW 2 n = [dch (n / 10), dch n] := rfl
theorem digitsW_four (n : Nat) : digitsW 4 n = [dch (n / 10 / 10 / 10), dch (n / 10 / 10), dch (n / 10), dch n] := rfl
theorem digitsW_six (n : Nat) : digitsW 6 n =
    [dch (n / 10 / 10 / 10 / 10 / 10), dch (n / 10 / 10 / 10 / 10), dch (n / 10 / 10 / 10), dch (n / 10 / 10), dch (n / 10), dch n] := rfl

theorem digitsW_eq : ∀ (k n : Nat), digitsW k n = digitsOf k n
  | 0, _ => rfl
  | k + 1, n => by simp only [digitsW, digitsOf, digitChar, digitsW_eq k]

theorem lexDate_text (y m d : Nat) (rest : List Char) (hy : y < 10000) (hm : m < 100) (hd : d < 100) :
    lexDate (digitsW 4 y ++ ['-'] ++ digitsW 2 m ++ ['-'] ++ digitsW 2 d ++ rest) = some (y, m, d, rest) := by
  simp only [digitsW_four, digitsW_two, List.cons_append, List.nil_append, lexDate, isDig_dch, Bool.and_true,
    beq_self_eq_true, if_true, num2, digitsVal, List.foldl_cons, List.foldl_nil, digitVal_dch, Option.some.injEq, Prod.mk.injEq,
    and_true]
  refine ⟨by omega, by omega, by omega⟩

theorem lexClock_text (h mi s : Nat) (rest : List Char) (hh : h < 100) (hmi : mi < 100) (hs : s < 100) :
    lexClock (digitsW 2 h ++ [':'] ++ digitsW 2 mi ++ [':'] ++ digitsW 2 s ++ rest) = some (h, mi, s, rest) := by
  simp only [digitsW_two, List.cons_append, List.nil_append, lexClock, isDig_dch, Bool.and_true,
    beq_self_eq_true, if_true, num2, digitVal_dch, Option.some.injEq, Prod.mk.injEq, and_true]
  refine ⟨by omega, by omega, by omega⟩

theorem mem_takeWhile_true {α} (p : α → Bool) : ∀ (l : List α) (c : α), c ∈ l.takeWhile p → p c = true
  | [], c, h => by simp at h
  | a :: l, c, h => by
    simp only [List.takeWhile_cons] at h
    split at h
    · rename_i ha
      rcases List.mem_cons.mp h with rfl | h'
      · exact ha
      · exact mem_takeWhile_true p l c h'
    · simp at h

theorem trimZeros_decomp (l : List Char) :
    l = trimZeros l ++ List.replicate (l.length - (trimZeros l).length) '0' := by
  unfold trimZeros
  have h := List.takeWhile_append_dropWhile (p := (· == '0')) (l := l.reverse)
  have hall : ∀ c ∈ l.reverse.takeWhile (· == '0'), c = '0' := by
    intro c hc
    have := mem_takeWhile_true _ _ _ hc
    simpa using this
  have hrep : l.reverse.takeWhile (· == '0') = List.replicate (l.reverse.takeWhile (· == '0')).length '0' :=
    List.eq_replicate_of_mem hall
  have hlen : (l.reverse.takeWhile (· == '0')).length + (l.reverse.dropWhile (· == '0')).length = l.length := by
    have := congrArg List.length h
    rw [List.length_append, List.length_reverse] at this
    exact this
  have e : l = (l.reverse.dropWhile (· == '0')).reverse ++ (l.reverse.takeWhile (· == '0')).reverse := by
    rw [← List.reverse_append, h, List.reverse_reverse]
  rw [List.length_reverse]
  have hk : l.length - (l.reverse.dropWhile (· == '0')).length = (l.reverse.takeWhile (· == '0')).length := by omega
  rw [hk]
  conv => lhs; rw [e]
  rw [hrep, List.reverse_replicate, List.length_replicate]

theorem trimZeros_sub (l : List Char) : ∀ c ∈ trimZeros l, c ∈ l := by
  intro c hc
  unfold trimZeros at hc
  rw [List.mem_reverse] at hc
  exact List.mem_reverse.mp ((List.dropWhile_sublist _).subset hc)

theorem trimZeros_length (l : List Char) : (trimZeros l).length ≤ l.length := by
  have := congrArg List.length (trimZeros_decomp l)
  simp only [List.length_append, List.length_replicate] at this
  omega

theorem isDig_digitsW (k n : Nat) : ∀ c ∈ digitsW k n, isDig c = true := by
  induction k generalizing n with
  | zero => intro c hc; simp [digitsW] at hc
  | succ k ih =>
    intro c hc
    simp only [digitsW, List.mem_append, List.mem_singleton] at hc
    rcases hc with hc | rfl
    · exact ih _ c hc
    · exact isDig_dch n

theorem fracNs_trim (sub : Nat) (h : sub < 1000000000) : fracNs (trimZeros (digitsW 9 sub)) = sub := by
  have hd := trimZeros_decomp (digitsW 9 sub)
  have hl : (digitsW 9 sub).length = 9 := by rw [digitsW_eq]; exact length_digitsOf 9 sub
  have hv : digitsVal (digitsW 9 sub) = sub := by
    rw [digitsW_eq, digitsVal_digitsOf]; omega
  have htl := trimZeros_length (digitsW 9 sub)
  rw [hl] at hd htl
  unfold fracNs
  rw [hd, digitsVal_append_zeros] at hv
  exact hv

theorem trim_ne_nil (sub : Nat) (h : sub < 1000000000) (h0 : sub ≠ 0) : trimZeros (digitsW 9 sub) ≠ [] := by
  intro e
  have := fracNs_trim sub h
  rw [e] at this
  simp [fracNs, digitsVal] at this
  omega

theorem lexFrac_text (sub : Nat) (h : sub < 1000000000) :
    lexFrac (fracJ sub ++ ['Z']) = some (if sub = 0 then none else some (trimZeros (digitsW 9 sub)), ['Z']) := by
  unfold fracJ
  by_cases h0 : sub = 0
  · simp only [h0, if_true, List.nil_append]
    rfl
  · simp only [h0, if_false, List.cons_append]
    have hdig : ∀ c ∈ trimZeros (digitsW 9 sub), isDig c = true :=
      fun c hc => isDig_digitsW 9 sub c (trimZeros_sub _ c hc)
    have hlen : (trimZeros (digitsW 9 sub)).length ≤ 9 := by
      have := trimZeros_length (digitsW 9 sub)
      have hl : (digitsW 9 sub).length = 9 := by rw [digitsW_eq]; exact length_digitsOf 9 sub
      omega
    have hne := trim_ne_nil sub h h0
    have htw : List.takeWhile isDig (trimZeros (digitsW 9 sub) ++ ['Z']) = trimZeros (digitsW 9 sub) := by
      rw [List.takeWhile_append_of_pos hdig]
      simp [List.takeWhile, show isDig 'Z' = false by decide]
    simp only [lexFrac, beq_self_eq_true, if_true, htw, List.take_of_length_le hlen]
    have : (trimZeros (digitsW 9 sub)).isEmpty = false := by
      cases hx : trimZeros (digitsW 9 sub) with
      | nil => exact absurd hx hne
      | cons _ _ => rfl
    simp only [this, Bool.false_eq_true, if_false, List.drop_left']

theorem lexDate_norm (y m d : Nat) (rest : List Char) (hy : y < 10000) (hm : m < 100) (hd : d < 100) :
    lexDate (digitsW 4 y ++ '-' :: (digitsW 2 m ++ '-' :: (digitsW 2 d ++ rest))) = some (y, m, d, rest) := by
  have := lexDate_text y m d rest hy hm hd
  simpa only [List.append_assoc, List.singleton_append, List.cons_append, List.nil_append] using this

theorem lexClock_norm (h mi s : Nat) (rest : List Char) (hh : h < 100) (hmi : mi < 100) (hs : s < 100) :
    lexClock (digitsW 2 h ++ ':' :: (digitsW 2 mi ++ ':' :: (digitsW 2 s ++ rest))) = some (h, mi, s, rest) := by
  have := lexClock_text h mi s rest hh hmi hs
  simpa only [List.append_assoc, List.singleton_append, List.cons_append, List.nil_append] using this

theorem lexTs_text (y m d h mi s sub : Nat) (hy : y < 10000) (hm : m < 100) (hd : d < 100) (hh : h < 100) (hmi : mi < 100)
    (hs : s < 100) (hsub : sub < 1000000000) :
    lexTs (digitsW 4 y ++ '-' :: (digitsW 2 m ++ '-' :: (digitsW 2 d ++ 'T' :: (digitsW 2 h ++ ':' :: (digitsW 2 mi ++ ':' ::
      (digitsW 2 s ++ (fracJ sub ++ ['Z']))))))) =
      some ⟨y, m, d, some (h, mi, s, if sub = 0 then none else some (trimZeros (digitsW 9 sub))), some none⟩ := by
  unfold lexTs
  rw [lexDate_norm y m d _ hy hm hd]
  simp only [bne_self_eq_false, Bool.false_eq_true, if_false]
  rw [lexClock_norm h mi s _ hh hmi hs]
  simp only
  rw [lexFrac_text sub hsub]
  simp only
  rfl

theorem daysInMonth_le (y : Int) (m : Nat) : daysInMonth y m ≤ 31 := by
  unfold daysInMonth
  split <;> try omega
  split <;> omega

/-- **the serialised text of an instant reads back as that instant** -/
theorem parseTsJson_tsJsonChars (ns : Int) (hok : instantOk ns = true) : parseTsJson (tsJsonChars ns) = .ok ns := by
  unfold tsJsonChars
  rcases hc : civilAt ns 0 with ⟨y, m, d, h, mi, s, sub⟩
  obtain ⟨hm1, hm2, hd1, hd2, hh, hmi, hs, hsub, hns⟩ := civilNs_civilAt ns 0 y m d h mi s sub hc
  simp only
  have hd31 : d ≤ 31 := Nat.le_trans hd2 (daysInMonth_le y m)
  have hok' : -377705023201 * 1000000000 ≤ ns ∧ ns ≤ 253402207200 * 1000000000 + 999999999 := by
    unfold instantOk at hok
    simpa using hok
  have hdays : -4371586 ≤ daysFromCivil y m d ∧ daysFromCivil y m d ≤ 2932895 := by omega
  obtain ⟨hy1, hy2⟩ := year_bounds y m d ⟨hm1, hm2⟩ ⟨hd1, hd31⟩ hdays.1 hdays.2
  have hcivil : ∀ Y : Int, Y = y → civilNsI Y m d h mi s sub = ns := by
    intro Y hY
    subst hY
    unfold civilNsI
    omega
  simp only [List.append_assoc, List.cons_append, List.nil_append]
  unfold yearJ
  by_cases hneg : y < 0
  · -- `-00YYYY`
    rw [if_pos hneg]
    have hn : y.natAbs < 10000 := by omega
    have hn0 : y.natAbs ≠ 0 := by omega
    have e5 : dch (y.natAbs / 10 / 10 / 10 / 10 / 10) = '0' := dch_zero _ (by omega)
    have e4 : dch (y.natAbs / 10 / 10 / 10 / 10) = '0' := dch_zero _ (by omega)
    have e6 : digitsW 6 y.natAbs = '0' :: '0' :: digitsW 4 y.natAbs := by
      rw [digitsW_six, digitsW_four, e5, e4]
    rw [e6]
    simp only [List.cons_append]
    unfold parseTsJson
    have hp : Regex.stripPrefix ['-', '0', '0'] ('-' :: '0' :: '0' :: (digitsW 4 y.natAbs ++ '-' :: (digitsW 2 m ++ '-' ::
        (digitsW 2 d ++ 'T' :: (digitsW 2 h ++ ':' :: (digitsW 2 mi ++ ':' :: (digitsW 2 s ++ (fracJ sub ++ ['Z'])))))))) =
        some (digitsW 4 y.natAbs ++ '-' :: (digitsW 2 m ++ '-' ::
        (digitsW 2 d ++ 'T' :: (digitsW 2 h ++ ':' :: (digitsW 2 mi ++ ':' :: (digitsW 2 s ++ (fracJ sub ++ ['Z']))))))) := by
      simp [Regex.stripPrefix, List.isPrefixOf]
    rw [hp]
    simp only
    rw [lexTs_text y.natAbs m d h mi s sub hn (by omega) (by omega) (by omega) (by omega) (by omega) hsub]
    simp only
    have hY : -((y.natAbs : Nat) : Int) = y := by omega
    unfold resolveJ
    simp only [hn0, and_false, if_false, if_true, hY, hm1, hm2, hd1, hd2, and_self, decide_true, Bool.and_self, Bool.not_true,
      Bool.false_eq_true]
    rw [if_neg (by omega), if_neg (by omega)]
    by_cases h0 : sub = 0
    · simp only [h0, if_true]
      rw [← h0, hcivil y rfl, if_pos hok]
    · simp only [h0, if_false]
      rw [fracNs_trim sub hsub, hcivil y rfl, if_pos hok]
  · -- `YYYY`
    rw [if_neg hneg]
    have hn : y.toNat < 10000 := by omega
    unfold parseTsJson
    have hfirst := dch_ne (y.toNat / 10 / 10 / 10)
    have hp1 : ∀ X, Regex.stripPrefix ['-', '0', '0'] (digitsW 4 y.toNat ++ X) = none := by
      intro X
      simp [Regex.stripPrefix, List.isPrefixOf, digitsW_four, Ne.symm hfirst.1]
    have hp2 : ∀ X, Regex.stripPrefix ['+', '0', '0'] (digitsW 4 y.toNat ++ X) = none := by
      intro X
      simp [Regex.stripPrefix, List.isPrefixOf, digitsW_four, Ne.symm hfirst.2.1]
    rw [hp1, hp2]
    simp only
    rw [lexTs_text y.toNat m d h mi s sub hn (by omega) (by omega) (by omega) (by omega) (by omega) hsub]
    simp only
    have hY : ((y.toNat : Nat) : Int) = y := by omega
    unfold resolveJ
    simp only [Bool.false_eq_true, false_and, if_false, hY, hm1, hm2, hd1, hd2, and_self, decide_true, Bool.and_self, Bool.not_true]
    rw [if_neg (by omega), if_neg (by omega)]
    by_cases h0 : sub = 0
    · simp only [h0, if_true]
      rw [← h0, hcivil y rfl, if_pos hok]
    · simp only [h0, if_false]
      rw [fracNs_trim sub hsub, hcivil y rfl, if_pos hok]


theorem resolveJ_ok (b : Bool) (t : TsToken) (ns : Int) (h : resolveJ b t = .ok ns) : instantOk ns = true := by
  unfold resolveJ at h
  (repeat' split at h) <;> first | (cases h; done) | (cases h; assumption)

/-- whatever `parseTsJson` reads is an instant inside jiff's range -/
theorem parseTsJson_ok (cs : List Char) (ns : Int) (h : parseTsJson cs = .ok ns) : instantOk ns = true := by
  unfold parseTsJson at h
  (repeat' split at h) <;> first | (cases h; done) | exact resolveJ_ok _ _ _ h

end Timestamps

end FilterDef
end Tackler

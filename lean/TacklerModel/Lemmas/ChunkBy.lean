import TacklerModel.Model.Balance
/-! itertools `chunk_by` (`Tackler.chunkBy`): the chunks partition the list, every member of a chunk has the
    chunk's key, and along a list whose keys never go back (`key a = key b ∨ S (key a) (key b)` for a strict
    order `S`) the chunk keys are strictly increasing, so every key has exactly one chunk, which is the
    sub-list of all elements with that key.  (Generalised from design-sketches/ChunkByGroups.lean.) -/
namespace Tackler
namespace ChunkBy

variable {α κ : Type} [DecidableEq κ]

theorem chunkBy_flatten (key : α → κ) : ∀ l : List α, ((chunkBy key l).map (·.2)).flatten = l := by
  intro l
  induction l with
  | nil => rfl
  | cons a t ih =>
    simp only [chunkBy]
    split
    · rename_i k g rest hc
      rw [hc] at ih
      split <;> simp_all
    · rename_i hc
      rw [hc] at ih
      simp_all

theorem chunkBy_keys (key : α → κ) : ∀ l : List α, ∀ kg ∈ chunkBy key l, kg.2 ≠ [] ∧ ∀ a ∈ kg.2, key a = kg.1 := by
  intro l
  induction l with
  | nil => intro kg h; cases h
  | cons a t ih =>
    intro kg h
    simp only [chunkBy] at h
    split at h
    · rename_i k g rest hc
      rw [hc] at ih
      split at h
      · rename_i hk
        rcases List.mem_cons.mp h with rfl | h'
        · refine ⟨by simp, ?_⟩
          intro b hb
          rcases List.mem_cons.mp hb with rfl | hb'
          · exact hk
          · exact (ih (k, g) (List.mem_cons_self)).2 b hb'
        · exact ih kg (List.mem_cons_of_mem _ h')
      · rcases List.mem_cons.mp h with rfl | h'
        · simp
        · exact ih kg h'
    · simp at h; subst h; simp

/-- members of a chunk are members of the list -/
theorem chunk_subset (key : α → κ) (l : List α) (kg : κ × List α) (h : kg ∈ chunkBy key l) :
    ∀ a ∈ kg.2, a ∈ l := by
  intro a ha
  have := chunkBy_flatten key l
  rw [← this]
  exact List.mem_flatten.mpr ⟨kg.2, List.mem_map.mpr ⟨kg, h, rfl⟩, ha⟩

/-- every chunk key is the key of an element of the list -/
theorem chunk_key_mem (key : α → κ) (l : List α) (kg : κ × List α) (h : kg ∈ chunkBy key l) :
    ∃ a ∈ l, key a = kg.1 := by
  have hk := chunkBy_keys key l kg h
  obtain ⟨b, tb, hb⟩ := List.exists_cons_of_ne_nil hk.1
  exact ⟨b, chunk_subset key l kg h b (by rw [hb]; exact List.mem_cons_self),
    hk.2 b (by rw [hb]; exact List.mem_cons_self)⟩

/-- every element of the list lies in a chunk with its key -/
theorem mem_chunk (key : α → κ) (l : List α) (a : α) (ha : a ∈ l) :
    ∃ g, (key a, g) ∈ chunkBy key l ∧ a ∈ g := by
  have := chunkBy_flatten key l
  rw [← this] at ha
  obtain ⟨g, hg, hag⟩ := List.mem_flatten.mp ha
  obtain ⟨kg, hkg, rfl⟩ := List.mem_map.mp hg
  have := (chunkBy_keys key l kg hkg).2 a hag
  exact ⟨kg.2, by rw [this]; exact hkg, hag⟩

/-- keys that never go back along the list ⇒ strictly increasing chunk keys -/
theorem chunkBy_strict (key : α → κ) (S : κ → κ → Prop)
    (htr : ∀ a b c, S a b → S b c → S a c) :
    ∀ l : List α, l.Pairwise (fun a b => key a = key b ∨ S (key a) (key b)) →
      ((chunkBy key l).map (·.1)).Pairwise S := by
  intro l
  induction l with
  | nil => intro _; simp [chunkBy]
  | cons a t ih =>
    intro hp
    have hp' := List.pairwise_cons.mp hp
    have iht := ih hp'.2
    simp only [chunkBy]
    split
    · rename_i k g rest hc
      rw [hc] at iht
      split
      · exact iht
      · rename_i hne
        simp only [List.map_cons, List.pairwise_cons] at iht ⊢
        -- k is the key of some element of t
        obtain ⟨b, hbt, hbk⟩ := chunk_key_mem key t (k, g) (by rw [hc]; exact List.mem_cons_self)
        simp only at hbk
        have hak : S (key a) k := by
          rcases hp'.1 b hbt with h | h
          · exact absurd (h.trans hbk) hne
          · rw [← hbk]; exact h
        refine ⟨?_, iht⟩
        intro k' hk'
        rcases List.mem_cons.mp hk' with rfl | hk''
        · exact hak
        · exact htr _ _ _ hak (iht.1 k' hk'')
    · simp

/-- in a chunk list with pairwise different keys whose members carry their chunk's key, the chunk of `k`
    is the sub-list of all elements with key `k` -/
theorem flatten_filter_chunk (key : α → κ) :
    ∀ (cs : List (κ × List α)), (cs.map (·.1)).Nodup → (∀ kg ∈ cs, ∀ a ∈ kg.2, key a = kg.1) →
      ∀ kg ∈ cs, ((cs.map (·.2)).flatten).filter (fun a => decide (key a = kg.1)) = kg.2 := by
  intro cs
  induction cs with
  | nil => intro _ _ kg h; cases h
  | cons c rest ih =>
    intro hnd hk kg hkg
    simp only [List.map_cons, List.nodup_cons] at hnd
    simp only [List.map_cons, List.flatten_cons, List.filter_append]
    have hrest_none : ∀ (k : κ), k ∉ rest.map (·.1) →
        ((rest.map (·.2)).flatten).filter (fun a => decide (key a = k)) = [] := by
      intro k hkn
      rw [List.filter_eq_nil_iff]
      intro a ha
      obtain ⟨g, hg, hag⟩ := List.mem_flatten.mp ha
      obtain ⟨kg', hkg', rfl⟩ := List.mem_map.mp hg
      have := hk kg' (List.mem_cons_of_mem _ hkg') a hag
      simp only [decide_eq_true_eq]
      intro e
      exact hkn (List.mem_map.mpr ⟨kg', hkg', by rw [← this, e]⟩)
    rcases List.mem_cons.mp hkg with rfl | hmem
    · have h1 : kg.2.filter (fun a => decide (key a = kg.1)) = kg.2 := by
        rw [List.filter_eq_self]
        intro a ha
        simp [hk kg List.mem_cons_self a ha]
      rw [h1, hrest_none kg.1 hnd.1]; simp
    · have hne : c.1 ≠ kg.1 := by
        intro e; exact hnd.1 (List.mem_map.mpr ⟨kg, hmem, e.symm⟩)
      have h1 : c.2.filter (fun a => decide (key a = kg.1)) = [] := by
        rw [List.filter_eq_nil_iff]
        intro a ha
        simp only [decide_eq_true_eq]
        rw [hk c List.mem_cons_self a ha]; exact hne
      rw [h1, List.nil_append]
      exact ih hnd.2 (fun kg' h' => hk kg' (List.mem_cons_of_mem _ h')) kg hmem

/-- with strictly increasing chunk keys the chunk of `k` is `l.filter (key · = k)` -/
theorem chunk_eq_filter (key : α → κ) (l : List α) (hnd : ((chunkBy key l).map (·.1)).Nodup)
    (kg : κ × List α) (h : kg ∈ chunkBy key l) : kg.2 = l.filter (fun a => decide (key a = kg.1)) := by
  have := flatten_filter_chunk key (chunkBy key l) hnd (fun kg' h' => (chunkBy_keys key l kg' h').2) kg h
  rw [chunkBy_flatten] at this
  exact this.symm

end ChunkBy
end Tackler

import Lean
import TacklerModel.Model.Comb
/-!
# `psuff`: syntax-directed proof of `Suff (p s) s` goals

`Suff r s` says that on success the remainder of `r` is a suffix of `s`.  For the parsers of
`Model/Syntax` the proof follows the definition node by node; `psuff` does this by looking at the head
symbol of the result expression (no search): `Res.bind`, `Res.map`, `alt`, `opt`, `cutErr`, `ite`, `match`,
the constructors, and otherwise a named parser `X`, for which the lemma `X_suff` (or `X_cons`) is used.
-/
namespace Tackler
namespace Comb

theorem Suff.bind' {α β} {r : Res α} {f : α → List Char → Res β} {s : List Char}
    (hr : Suff r s) (hf : ∀ a s', Suff (f a s') s') : Suff (r.bind f) s :=
  Suff.bind hr (fun a s' hs' => (hf a s').mono hs')

theorem ite_suff {α} {c : Prop} [Decidable c] {x y : Res α} {s : List Char}
    (hx : Suff x s) (hy : Suff y s) : Suff (if c then x else y) s := by
  split <;> assumption

theorem ite_cons {α} {c : Prop} [Decidable c] {x y : Res α} {s : List Char}
    (hx : Cons x s) (hy : Cons y s) : Cons (if c then x else y) s := by
  split <;> assumption

open Lean Elab Tactic Meta

syntax "psuff" : tactic

elab_rules : tactic
  | `(tactic| psuff) => withMainContext do
    let g ← getMainGoal
    let t ← instantiateMVars (← g.getType)
    unless t.isAppOfArity ``Suff 3 do throwError "psuff: the goal is not of the form `Suff r s`"
    let e0 := t.getArg! 1
    if e0.isHeadBetaTarget then
      evalTactic (← `(tactic| (dsimp only) <;> psuff))
      return
    let fn := e0.getAppFn
    if fn.isConstOf ``Res.bind then
      evalTactic (← `(tactic| refine Suff.bind' ?_ (fun _ _ => ?_) <;> psuff))
    else if fn.isConstOf ``Res.map then
      evalTactic (← `(tactic| refine Suff.map ?_ <;> psuff))
    else if fn.isConstOf ``Res.ok then
      evalTactic (← `(tactic| exact suff_ok _ _))
    else if fn.isConstOf ``Res.bt then
      evalTactic (← `(tactic| exact suff_bt _))
    else if fn.isConstOf ``Res.cut then
      evalTactic (← `(tactic| exact suff_cut _))
    else if fn.isConstOf ``alt then
      evalTactic (← `(tactic| refine alt_suff ?_ ?_ <;> psuff))
    else if fn.isConstOf ``opt then
      evalTactic (← `(tactic| refine opt_suff ?_ <;> psuff))
    else if fn.isConstOf ``cutErr then
      evalTactic (← `(tactic| refine cutErr_suff ?_ <;> psuff))
    else if fn.isConstOf ``ite then
      evalTactic (← `(tactic| refine ite_suff ?_ ?_ <;> psuff))
    else match fn with
      | .const c _ =>
        let env ← getEnv
        let n1 := c.appendAfter "_suff"
        let n2 := c.appendAfter "_cons"
        if env.contains n1 then
          evalTactic (← `(tactic| apply $(mkIdent n1) <;> (intros; psuff)))
        else if env.contains n2 then
          evalTactic (← `(tactic| refine Cons.suff ?_ <;> apply $(mkIdent n2) <;> (intros; psuff)))
        else if (← isMatcher c) then
          evalTactic (← `(tactic| split <;> psuff))
        else
          throwError "psuff: no lemma {n1} or {n2}"
      | .fvar _ => evalTactic (← `(tactic| first | assumption | (apply_assumption)))
      | _ => evalTactic (← `(tactic| split <;> psuff))

end Comb
end Tackler

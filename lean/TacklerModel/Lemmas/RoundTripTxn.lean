import TacklerModel.Lemmas.RoundTripLines
/-!
# Print-then-parse lemmas, continued: posting lines, header, transaction, journal
-/
set_option linter.unusedSimpArgs false
namespace Tackler

namespace Print

/-- the closing position the export prints for a posting -/
def closingOfPosting (div : Dec → Dec → Dec) (p : Posting) : Option Closing :=
  if p.txnComm = "" then none
  else if p.txnComm = p.comm then none
  else if p.isTotal then some (.total ⟨p.txnAmount, p.txnComm⟩)
  else some (.unitPrice ⟨div p.txnAmount p.amount, p.txnComm⟩)

def unitOfPosting (div : Dec → Dec → Dec) (p : Posting) : Option PostUnit :=
  if p.comm = "" then none else some ⟨p.comm, none, closingOfPosting div p⟩

/-- the parse tree of the printed posting line -/
def rawPostingOf (div : Dec → Dec → Dec) (p : Posting) : RawPosting :=
  ⟨p.acct, p.amount, unitOfPosting div p, p.comment⟩

/-- the parse tree of the printed transaction: every posting explicit, no amount-less last posting -/
def rawOf (div : Dec → Dec → Dec) (t : Txn) : RawTxn := ⟨t.header, t.posts.map (rawPostingOf div), none⟩

end Print

namespace Syntax
open Comb Print

/-- a posting the export can print so that it parses back: lexical well-formedness of every field -/
structure PostingWF (div : Dec → Dec → Dec) (p : Posting) : Prop where
  acct : ∃ parts, PartsWF parts ∧ p.acct = toPath parts ∧ acctOk parts = true
  amount : NumWF p.amount
  comm : p.comm = "" ∨ (IdentWF p.comm.toList ∧ isValidId p.comm.toList = true)
  nocomm : p.comm = "" → p.txnComm = ""
  priced : p.txnComm ≠ "" → p.txnComm ≠ p.comm →
    IdentWF p.txnComm.toList ∧ isValidId p.txnComm.toList = true ∧
    NumWF (if p.isTotal then p.txnAmount else div p.txnAmount p.amount)
  comment : ∀ c, p.comment = some c → LineText c.toList

theorem postTail_of_blank_cons (b : List Char) (c : Char) (r : List Char) (hb : Blanks b)
    (hc : c = ';' ∨ c = '\n' ∨ c = '\r') : PostTail (b ++ c :: r) := ⟨b, c, r, rfl, hb, hc⟩

theorem postTail_eol (w : List Char) {eol : List Char} (he : IsEol eol) (rest : List Char) (hw : Blanks w) :
    PostTail (w ++ (eol ++ rest)) := by
  rcases he with rfl | rfl
  · exact ⟨w, '\n', rest, rfl, hw, Or.inr (Or.inl rfl)⟩
  · exact ⟨w, '\r', '\n' :: rest, rfl, hw, Or.inr (Or.inr rfl)⟩

/-- the printed value `amount[ COMM[ @|= value COMM]]` of a posting parses back to `unitOfPosting` -/
theorem parsePostingValue_print (div : Dec → Dec → Dec) (p : Posting) (hp : PostingWF div p) (tail : List Char)
    (ht : PostTail tail) :
    parsePostingValue (p.amount.toChars ++ (commChars p.comm ++ (priceChars div p ++ tail))) =
      .ok (p.amount, unitOfPosting div p) tail := by
  have htn := postTail_numStop ht
  have hti := postTail_idChar ht
  unfold parsePostingValue
  by_cases hc : p.comm = ""
  · -- no commodity: nothing but the amount
    have htc := hp.nocomm hc
    have e1 : commChars p.comm = [] := by simp [commChars, hc]
    have e2 : priceChars div p = [] := by simp [priceChars, htc]
    rw [e1, e2, List.nil_append, List.nil_append]
    rw [pNumber_print p.amount tail hp.amount htn]; simp only [Res.bind_ok']
    rw [opt_of_bt (pUnit_tail ht)]; simp only [Res.bind_ok']
    simp [unitCommsOk, unitOfPosting, hc]
  · obtain ⟨hcid, hcv⟩ := hp.comm.resolve_left hc
    have e1 : commChars p.comm = ' ' :: p.comm.toList := by simp [commChars, hc]
    rw [e1]
    simp only [List.cons_append]
    rw [pNumber_print p.amount _ hp.amount (startsNot_cons _ (by decide))]; simp only [Res.bind_ok']
    by_cases hpr : p.txnComm = "" ∨ p.txnComm = p.comm
    · -- own commodity: no value position
      have e2 : priceChars div p = [] := by
        rcases hpr with h | h <;> simp [priceChars, h]
      have ecl : closingOfPosting div p = none := by
        rcases hpr with h | h <;> simp [closingOfPosting, h]
      rw [e2, List.nil_append]
      have hu : pUnit (' ' :: (p.comm.toList ++ tail)) = .ok ⟨p.comm, none, none⟩ tail := by
        unfold pUnit
        rw [space1_one _ (identWF_startsNot _ _ hcid isSpace isSpace_of_idStart)]; simp only [Res.bind_ok']
        rw [pIdentifier_print _ tail hcid hti]; simp only [Res.bind_ok']
        rw [opt_of_bt (pPosition_tail ht)]; simp only [Res.bind_ok', String.ofList_toList]
      rw [opt_of_ok hu]; simp only [Res.bind_ok']
      simp [unitCommsOk, unitOfPosting, hc, ecl, hcv]
    · -- priced
      have hne1 : p.txnComm ≠ "" := fun h => hpr (Or.inl h)
      have hne2 : p.txnComm ≠ p.comm := fun h => hpr (Or.inr h)
      obtain ⟨htid, htv, hnum⟩ := hp.priced hne1 hne2
      cases htot : p.isTotal with
      | true =>
        have e2 : priceChars div p = ' ' :: '=' :: ' ' :: (p.txnAmount.toChars ++ (' ' :: p.txnComm.toList)) := by
          simp [priceChars, hne1, hne2, htot]
        have ecl : closingOfPosting div p = some (.total ⟨p.txnAmount, p.txnComm⟩) := by
          simp [closingOfPosting, hne1, hne2, htot]
        rw [htot] at hnum
        rw [e2]
        simp only [List.cons_append, List.append_assoc]
        have hu : pUnit (' ' :: (p.comm.toList ++ (' ' :: '=' :: ' ' :: (p.txnAmount.toChars ++ (' ' :: (p.txnComm.toList ++ tail)))))) =
            .ok ⟨p.comm, none, some (.total ⟨p.txnAmount, p.txnComm⟩)⟩ tail := by
          unfold pUnit
          rw [space1_one _ (identWF_startsNot _ _ hcid isSpace isSpace_of_idStart)]; simp only [Res.bind_ok']
          rw [pIdentifier_print _ _ hcid (startsNot_cons _ (by decide))]; simp only [Res.bind_ok']
          rw [opt_of_ok (pPosition_print '=' (Or.inr rfl) p.txnAmount p.txnComm.toList tail (by simpa using hnum) htid hti)]
          simp only [Res.bind_ok', String.ofList_toList, if_true]
        rw [opt_of_ok hu]; simp only [Res.bind_ok']
        simp [unitCommsOk, unitOfPosting, hc, ecl, hcv, htv]
      | false =>
        have e2 : priceChars div p = ' ' :: '@' :: ' ' :: ((div p.txnAmount p.amount).toChars ++ (' ' :: p.txnComm.toList)) := by
          simp [priceChars, hne1, hne2, htot]
        have ecl : closingOfPosting div p = some (.unitPrice ⟨div p.txnAmount p.amount, p.txnComm⟩) := by
          simp [closingOfPosting, hne1, hne2, htot]
        rw [htot] at hnum
        rw [e2]
        simp only [List.cons_append, List.append_assoc]
        have hu : pUnit (' ' :: (p.comm.toList ++ (' ' :: '@' :: ' ' :: ((div p.txnAmount p.amount).toChars ++ (' ' :: (p.txnComm.toList ++ tail)))))) =
            .ok ⟨p.comm, none, some (.unitPrice ⟨div p.txnAmount p.amount, p.txnComm⟩)⟩ tail := by
          unfold pUnit
          rw [space1_one _ (identWF_startsNot _ _ hcid isSpace isSpace_of_idStart)]; simp only [Res.bind_ok']
          rw [pIdentifier_print _ _ hcid (startsNot_cons _ (by decide))]; simp only [Res.bind_ok']
          rw [opt_of_ok (pPosition_print '@' (Or.inl rfl) (div p.txnAmount p.amount) p.txnComm.toList tail (by simpa using hnum) htid hti)]
          simp only [Res.bind_ok', String.ofList_toList]
          simp
        rw [opt_of_ok hu]; simp only [Res.bind_ok']
        simp [unitCommsOk, unitOfPosting, hc, ecl, hcv, htv]

theorem acctChars_toPath (parts : List (List Char)) : acctChars (toPath parts) = joinParts parts := by
  unfold acctChars; rw [toPath_chars]

theorem optString_toList (c : Option String) : optString (c.map String.toList) = c := by
  cases c <;> simp [optString, String.ofList_toList]

/-- the tail of a printed posting line: comment or trailing blanks, line ending -/
def postingTail (L : Layout) (c : Option String) (rest : List Char) : List Char :=
  postCommentChars c ++ (trailFor L c ++ (L.eol ++ rest))

theorem postingTail_postTail (L : Layout) (hL : LayoutOK L) (c : Option String) (rest : List Char) :
    PostTail (postingTail L c rest) := by
  cases c with
  | none => exact postTail_eol L.trail hL.eol rest hL.trail
  | some cm =>
    have e : " ; ".toList = [' ', ';', ' '] := by decide
    simp only [postingTail, postCommentChars, trailFor, e, List.nil_append, List.cons_append]
    exact ⟨[' '], ';', _, rfl, by simp [Blanks, isSpace], Or.inl rfl⟩

/-- comment and line ending of a posting line -/
theorem postingTail_parse (L : Layout) (hL : LayoutOK L) (c : Option String) (rest : List Char)
    (hc : ∀ cm, c = some cm → LineText cm.toList) :
    ∃ w s, postingTail L c rest = w ++ s ∧ space0 (w ++ s) = .ok w s ∧
      opt pComment s = .ok (c.map String.toList) (L.eol ++ rest) := by
  cases c with
  | none =>
    refine ⟨L.trail, L.eol ++ rest, rfl, space0_append _ _ hL.trail (hL.eol.startsNot rest (by decide) (by decide)), ?_⟩
    exact opt_of_bt (pComment_startsNot (hL.eol.startsNot rest (by decide) (by decide)))
  | some cm =>
    have e : " ; ".toList = [' ', ';', ' '] := by decide
    refine ⟨[' '], ';' :: ' ' :: (cm.toList ++ (L.eol ++ rest)), ?_, ?_, ?_⟩
    · simp [postingTail, postCommentChars, trailFor, e]
    · exact space0_append _ _ (by simp [isSpace]) (startsNot_cons _ (by decide))
    · exact opt_of_ok (pComment_print cm.toList hL.eol rest (hc cm rfl))

/-- **posting line** -/
theorem parseTxnPosting_print (L : Layout) (hL : LayoutOK L) (div : Dec → Dec → Dec) (p : Posting)
    (hp : PostingWF div p) (rest : List Char) :
    parseTxnPosting (postingL L div p ++ rest) = .ok (rawPostingOf div p) rest := by
  obtain ⟨parts, hparts, hacct, hok⟩ := hp.acct
  have htail := postingTail_postTail L hL p.comment rest
  obtain ⟨w, s, hws, hsp, hcm⟩ := postingTail_parse L hL p.comment rest hp.comment
  -- normal form of the printed line
  have hform : postingL L div p ++ rest =
      L.indent ++ (joinParts parts ++ ((L.sep ++ (if p.amount.isNeg then [] else [' '])) ++
        (p.amount.toChars ++ (commChars p.comm ++ (priceChars div p ++ postingTail L p.comment rest))))) := by
    simp [postingL, postingValueChars, postingTail, hacct, acctChars_toPath]
  rw [hform]
  have hsepb : Blanks (L.sep ++ (if p.amount.isNeg then [] else [' '])) := by
    intro c hc
    rcases List.mem_append.mp hc with h | h
    · exact hL.sep c h
    · split at h
      · cases h
      · simp at h; subst h; decide
  have hsepne : L.sep ++ (if p.amount.isNeg then [] else [' ']) ≠ [] := by
    intro h; exact hL.sep_ne (List.append_eq_nil_iff.mp h).1
  unfold parseTxnPosting
  rw [space1_append L.indent _ hL.indent_ne hL.indent (partsWF_startsNot parts _ hparts isSpace isSpace_of_idStart)]
  simp only [Res.bind_ok']
  rw [pMultiPartId_print parts _ hparts (startsNot_append_of_ne_nil _ hsepne
    (startsNot_of_all (fun c hc => nameStop_of_isSpace c (hsepb c hc))))]
  simp only [Res.bind_ok']
  rw [space1_append _ _ hsepne hsepb (toChars_startsNot_space _ _)]
  simp only [Res.bind_ok']
  rw [parsePostingValue_print div p hp _ htail]
  simp only [Res.bind_ok']
  rw [hws, hsp]; simp only [Res.bind_ok']
  rw [hcm]; simp only [Res.bind_ok']
  rw [lineEnding_append hL.eol]; simp only [Res.bind_ok']
  simp [hok, rawPostingOf, hacct, optString_toList]

/-- a blank line, or the end of the input -/
def BlankOrEnd (r : List Char) : Prop :=
  r = [] ∨ ∃ b c t, r = b ++ (c :: t) ∧ Blanks b ∧ (c = '\n' ∨ c = '\r')

theorem parseTxnPosting_end {r : List Char} (h : BlankOrEnd r) : parseTxnPosting r = .bt := by
  unfold parseTxnPosting
  rcases h with rfl | ⟨b, c, t, rfl, hb, hc⟩
  · rfl
  · have hcs : isSpace c = false := by rcases hc with rfl | rfl <;> decide
    have hci : idStartChar c = false := by rcases hc with rfl | rfl <;> decide
    by_cases hne : b = []
    · subst hne; rw [List.nil_append, space1_none (startsNot_cons _ hcs)]; rfl
    · rw [space1_append b _ hne hb (startsNot_cons _ hcs)]; simp only [Res.bind_ok']
      rw [pMultiPartId_startsNot (startsNot_cons _ hci)]; rfl

theorem parseTxnLastPosting_end {r : List Char} (h : BlankOrEnd r) : parseTxnLastPosting r = .bt := by
  unfold parseTxnLastPosting
  rcases h with rfl | ⟨b, c, t, rfl, hb, hc⟩
  · rfl
  · have hcs : isSpace c = false := by rcases hc with rfl | rfl <;> decide
    have hci : idStartChar c = false := by rcases hc with rfl | rfl <;> decide
    by_cases hne : b = []
    · subst hne; rw [List.nil_append, space1_none (startsNot_cons _ hcs)]; rfl
    · rw [space1_append b _ hne hb (startsNot_cons _ hcs)]; simp only [Res.bind_ok']
      rw [pMultiPartId_startsNot (startsNot_cons _ hci)]; rfl

/-- **postings of a transaction**: all printed posting lines, then a blank line or the end -/
theorem parseTxnPostings_print (L : Layout) (hL : LayoutOK L) (div : Dec → Dec → Dec) (p0 : Posting) (ps : List Posting)
    (hp : ∀ p ∈ p0 :: ps, PostingWF div p) (rest : List Char) (hr : BlankOrEnd rest) :
    parseTxnPostings (((p0 :: ps).map (postingL L div)).flatten ++ rest) =
      .ok ((p0 :: ps).map (rawPostingOf div), none) rest := by
  unfold parseTxnPostings
  rw [repeat1_list parseTxnPosting parseTxnPosting_cons (postingL L div) (rawPostingOf div) (fun _ => True) rest
    (parseTxnPosting_end hr) trivial p0 ps (fun p hpm r _ => ⟨trivial, parseTxnPosting_print L hL div p (hp p hpm) r⟩)]
  simp only [Res.bind_ok']
  rw [opt_of_bt (parseTxnLastPosting_end hr)]
  rfl

/-! ## header -/

/-- the timestamp prints and parses back (C06: a hypothesis on `Model/Time` + `Print.rfc3339`) -/
def TsRoundTrip (cfg : Time.TsCfg) (ts : Ts) : Prop :=
  ∀ r, parseTimestamp cfg (rfc3339 ts ++ r) = .ok ts r

/-- lexical well-formedness of a header: what the grammar can produce -/
structure HeaderWF (h : Header) : Prop where
  code : ∀ c, h.code = some c → (∀ d ∈ c.toList, validCodeChar d = true) ∧ trim c.toList = c.toList
  desc : ∀ d, h.desc = some d → LineText d.toList ∧ trimEnd d.toList = d.toList
  metaOK : MetaWF h
  comments : ∀ cs, h.comments = some cs → cs ≠ [] ∧ ∀ c ∈ cs, LineText c.toList

/-- a line that is not a comment line -/
def NonComment (r : List Char) : Prop :=
  ∃ b s, r = b ++ s ∧ Blanks b ∧ StartsNot isSpace s ∧ StartsNot (fun c => c == ';') s

theorem parseTxnComment_nonComment {r : List Char} (h : NonComment r) : parseTxnComment r = .bt := by
  obtain ⟨b, s, rfl, hb, hs, hh⟩ := h; exact parseTxnComment_other b s hb hs hh

theorem code_other (b s : List Char) (hb : Blanks b) (hs : StartsNot isSpace s) (h : StartsNot (fun c => c == '(') s) :
    (fun s => (space1 s).bind fun _ s => parseTxnCode s) (b ++ s) = .bt := by
  show (space1 (b ++ s)).bind _ = .bt
  by_cases hne : b = []
  · subst hne; rw [List.nil_append, space1_none hs]; rfl
  · rw [space1_append b s hne hb hs]; simp only [Res.bind_ok']; exact parseTxnCode_startsNot h

theorem desc_other (b s : List Char) (hb : Blanks b) (hs : StartsNot isSpace s) (h : StartsNot (fun c => c == '\'') s) :
    (fun s => (space1 s).bind fun _ s => parseTxnDescription s) (b ++ s) = .bt := by
  show (space1 (b ++ s)).bind _ = .bt
  by_cases hne : b = []
  · subst hne; rw [List.nil_append, space1_none hs]; rfl
  · rw [space1_append b s hne hb hs]; simp only [Res.bind_ok']; exact parseTxnDescription_startsNot h

theorem descChars_form (d : Option String) (w : List Char) {eol : List Char} (he : IsEol eol) (X : List Char)
    (hw : Blanks w) :
    ∃ b s, descChars d ++ (w ++ (eol ++ X)) = b ++ s ∧ Blanks b ∧ StartsNot isSpace s ∧ StartsNot (fun c => c == '(') s := by
  cases d with
  | none =>
    exact ⟨w, eol ++ X, rfl, hw, he.startsNot X (by decide) (by decide), he.startsNot X (by decide) (by decide)⟩
  | some d =>
    have e : " '".toList = [' ', '\''] := by decide
    refine ⟨[' '], '\'' :: (d.toList ++ (w ++ (eol ++ X))), ?_, by simp [Blanks, isSpace], startsNot_cons _ (by decide),
      startsNot_cons _ (by decide)⟩
    simp [descChars, e]

/-- `(code)` of the header line -/
theorem codeStep (L : Layout) (hL : LayoutOK L) (h : Header) (hh : HeaderWF h) (X : List Char) :
    opt (fun s => (space1 s).bind fun _ s => parseTxnCode s)
      (codeChars h.code ++ (descChars h.desc ++ (L.trail ++ (L.eol ++ X)))) =
      .ok h.code (descChars h.desc ++ (L.trail ++ (L.eol ++ X))) := by
  cases hc : h.code with
  | none =>
    obtain ⟨b, s, e, hb, hs, hp⟩ := descChars_form h.desc L.trail hL.eol X hL.trail
    show opt _ ([] ++ _) = _
    rw [List.nil_append, e]; exact opt_of_bt (code_other b s hb hs hp)
  | some c =>
    obtain ⟨hv, htrim⟩ := hh.code c hc
    have e : " (".toList = [' ', '('] := by decide
    apply opt_of_ok
    show (space1 _).bind _ = _
    simp only [codeChars, e, List.cons_append, List.nil_append, List.append_assoc]
    rw [space1_one _ (startsNot_cons _ (by decide))]; simp only [Res.bind_ok']
    rw [parseTxnCode_print c.toList (descChars h.desc ++ (L.trail ++ (L.eol ++ X))) hv, htrim, String.ofList_toList]

/-- `'description`, trailing blanks and the line ending of the header line -/
theorem descStep (L : Layout) (hL : LayoutOK L) (h : Header) (hh : HeaderWF h) (X : List Char) :
    ∃ Z, opt (fun s => (space1 s).bind fun _ s => parseTxnDescription s)
        (descChars h.desc ++ (L.trail ++ (L.eol ++ X))) = .ok h.desc Z ∧
      ((opt space1 Z).bind fun _ s => cutErr lineEnding s) = .ok () X := by
  have heolS : StartsNot isSpace (L.eol ++ X) := hL.eol.startsNot X (by decide) (by decide)
  cases hd : h.desc with
  | none =>
    refine ⟨L.trail ++ (L.eol ++ X), ?_, ?_⟩
    · show opt _ ([] ++ _) = _
      rw [List.nil_append]
      exact opt_of_bt (desc_other L.trail _ hL.trail heolS (hL.eol.startsNot X (by decide) (by decide)))
    · by_cases hne : L.trail = []
      · rw [hne, List.nil_append, opt_of_bt (space1_none heolS)]; simp only [Res.bind_ok']
        exact cutErr_of_ok (lineEnding_append hL.eol X)
      · rw [opt_of_ok (space1_append L.trail _ hne hL.trail heolS)]; simp only [Res.bind_ok']
        exact cutErr_of_ok (lineEnding_append hL.eol X)
  | some d =>
    obtain ⟨hlt, htrim⟩ := hh.desc d hd
    have e : " '".toList = [' ', '\''] := by decide
    refine ⟨L.eol ++ X, ?_, ?_⟩
    · apply opt_of_ok
      show (space1 _).bind _ = _
      simp only [descChars, e, List.cons_append, List.nil_append, List.append_assoc]
      rw [space1_one _ (startsNot_cons _ (by decide))]; simp only [Res.bind_ok']
      rw [parseTxnDescription_print d.toList L.trail hL.eol X hlt hL.trail, htrim, String.ofList_toList]
    · rw [opt_of_bt (space1_none heolS)]; simp only [Res.bind_ok']
      exact cutErr_of_ok (lineEnding_append hL.eol X)

theorem commentLine_eq (L : Layout) (c : String) (r : List Char) :
    commentLine L c ++ r = L.indent ++ (';' :: ' ' :: (c.toList ++ (L.eol ++ r))) := by
  have e : "; ".toList = [';', ' '] := by decide
  simp [commentLine, e]

theorem commentLine_nonMeta (L : Layout) (hL : LayoutOK L) (c : String) (r : List Char) : NonMeta (commentLine L c ++ r) := by
  rw [commentLine_eq]
  exact ⟨L.indent, _, rfl, hL.indent, startsNot_cons _ (by decide), startsNot_cons _ (by decide)⟩

/-- the comment lines of a header, followed by a line that is not a comment -/
theorem commentLines_print (L : Layout) (hL : LayoutOK L) (cs : Option (List String)) (rest : List Char)
    (hc : ∀ l, cs = some l → l ≠ [] ∧ ∀ c ∈ l, LineText c.toList) (hr : NonComment rest) :
    opt (repeat1 parseTxnComment) (commentLines L cs ++ rest) = .ok cs rest := by
  cases cs with
  | none =>
    simp only [commentLines, List.nil_append]
    apply opt_of_bt
    unfold repeat1
    rw [parseTxnComment_nonComment hr]; rfl
  | some l =>
    obtain ⟨hne, hall⟩ := hc l rfl
    obtain ⟨c0, t, rfl⟩ := List.exists_cons_of_ne_nil hne
    simp only [commentLines]
    have := repeat1_list parseTxnComment parseTxnComment_cons (commentLine L) id (fun _ => True) rest
      (parseTxnComment_nonComment hr) trivial c0 t (fun c hcm r _ => ⟨trivial, by
        rw [commentLine_eq]
        have := parseTxnComment_print L.indent c.toList hL.eol r hL.indent hL.indent_ne (hall c hcm)
        rw [String.ofList_toList] at this
        exact this⟩)
    rw [opt_of_ok this]
    simp

/-- the first line after a header: a posting line (blanks, then an account) -/
def PostingStart (r : List Char) : Prop :=
  ∃ b s, r = b ++ s ∧ Blanks b ∧ StartsNot isSpace s ∧ StartsNot (fun c => !idStartChar c) s ∧ s ≠ []

theorem postingStart_nonMeta {r : List Char} (h : PostingStart r) : NonMeta r := by
  obtain ⟨b, s, rfl, hb, hs, hi, hne⟩ := h
  refine ⟨b, s, rfl, hb, hs, ?_⟩
  intro c t e
  have := hi c t e
  simp at this
  simp only [beq_eq_false_iff_ne, ne_eq]
  exact idStart_ne c '#' this (by decide)

theorem postingStart_nonComment {r : List Char} (h : PostingStart r) : NonComment r := by
  obtain ⟨b, s, rfl, hb, hs, hi, hne⟩ := h
  refine ⟨b, s, rfl, hb, hs, ?_⟩
  intro c t e
  have := hi c t e
  simp at this
  simp only [beq_eq_false_iff_ne, ne_eq]
  exact idStart_ne c ';' this (by decide)

theorem headerL_eq (L : Layout) (h : Header) (rest : List Char) :
    headerL L h ++ rest = rfc3339 h.ts ++ (codeChars h.code ++ (descChars h.desc ++ (L.trail ++ (L.eol ++
      (metaBlock L h ++ (commentLines L h.comments ++ rest)))))) := by
  simp [headerL, metaBlock]

theorem commentLines_nonMeta (L : Layout) (hL : LayoutOK L) (cs : Option (List String)) (rest : List Char)
    (hc : ∀ l, cs = some l → l ≠ []) (hr : NonMeta rest) : NonMeta (commentLines L cs ++ rest) := by
  cases cs with
  | none => simpa [commentLines] using hr
  | some l =>
    obtain ⟨c0, t, rfl⟩ := List.exists_cons_of_ne_nil (hc l rfl)
    simp only [commentLines, List.map_cons, List.flatten_cons, List.append_assoc]
    exact commentLine_nonMeta L hL c0 _

/-- **header**: the printed header parses back to the same header -/
theorem parseTxnHeader_print (cfg : Time.TsCfg) (L : Layout) (hL : LayoutOK L) (h : Header)
    (hts : TsRoundTrip cfg h.ts) (hh : HeaderWF h) (rest : List Char) (hr : PostingStart rest) :
    parseTxnHeader cfg (headerL L h ++ rest) = .ok h rest := by
  obtain ⟨m, hm, hu, hl, ht⟩ := parseTxnMeta_print L hL h (commentLines L h.comments ++ rest) hh.metaOK
    (commentLines_nonMeta L hL h.comments rest (fun l e => (hh.comments l e).1) (postingStart_nonMeta hr))
  have hcs := commentLines_print L hL h.comments rest hh.comments (postingStart_nonComment hr)
  obtain ⟨Z, hd1, hd2⟩ := descStep L hL h hh (metaBlock L h ++ (commentLines L h.comments ++ rest))
  rw [headerL_eq]
  unfold parseTxnHeader
  rw [hts]; simp only [Res.bind_ok']
  rw [codeStep L hL h hh]; simp only [Res.bind_ok']
  rw [hd1]; simp only [Res.bind_ok']
  rw [hd2]; simp only [Res.bind_ok']
  rw [hm]; simp only [Res.bind_ok']
  rw [hcs]; simp only [Res.bind_ok']
  rw [hu, hl, ht]

/-! ## transaction and journal -/

/-- the start of a transaction (not a blank, not a line ending), or the end of the input -/
def TxnStartOrEnd (r : List Char) : Prop :=
  r = [] ∨ ∃ c t, r = c :: t ∧ isSpace c = false ∧ c ≠ '\n' ∧ c ≠ '\r'

theorem blankLine_stop {r : List Char} (h : TxnStartOrEnd r) : blankLine r = .bt := by
  unfold blankLine
  rcases h with rfl | ⟨c, t, rfl, hs, hn, hr⟩
  · rfl
  · rw [space0_none _ (startsNot_cons _ hs)]; simp only [Res.bind_ok']
    exact lineEnding_startsNot (startsNot_cons _ (by simp [hn, hr]))

theorem blankLine_print (b : List Char) {eol : List Char} (he : IsEol eol) (r : List Char) (hb : Blanks b) :
    blankLine (b ++ (eol ++ r)) = .ok () r := by
  unfold blankLine
  rw [space0_append b _ hb (he.startsNot r (by decide) (by decide))]; simp only [Res.bind_ok']
  exact lineEnding_append he r

theorem blankLines_eq (L : Layout) (ls : List (List Char)) :
    blankLines L ls = (ls.map (fun b => b ++ L.eol)).flatten := rfl

/-- blank lines are consumed up to the next transaction or the end of the input -/
theorem multispace_print (L : Layout) (hL : LayoutOK L) (l0 : List Char) (ls : List (List Char))
    (hb : ∀ l ∈ l0 :: ls, Blanks l) (r : List Char) (hr : TxnStartOrEnd r) :
    multispace0LineEnding (blankLines L (l0 :: ls) ++ r) = .ok () r := by
  unfold multispace0LineEnding
  rw [blankLines_eq]
  rw [repeat1_list blankLine blankLine_cons (fun b => b ++ L.eol) (fun _ => ()) (fun _ => True) r
    (blankLine_stop hr) trivial l0 ls (fun b hbm r' _ => ⟨trivial, by
      rw [List.append_assoc]; exact blankLine_print b hL.eol r' (hb b hbm)⟩)]
  rfl

theorem blankLines_blankOrEnd (L : Layout) (hL : LayoutOK L) (l0 : List Char) (ls : List (List Char))
    (hb : Blanks l0) (r : List Char) : BlankOrEnd (blankLines L (l0 :: ls) ++ r) := by
  rw [blankLines_eq]
  simp only [List.map_cons, List.flatten_cons, List.append_assoc]
  rcases hL.eol with e | e <;> rw [e]
  · exact Or.inr ⟨l0, '\n', _, rfl, hb, Or.inl rfl⟩
  · exact Or.inr ⟨l0, '\r', _, rfl, hb, Or.inr rfl⟩

/-- a transaction the export can print so that it parses back -/
structure TxnWF (cfg : Time.TsCfg) (div : Dec → Dec → Dec) (t : Txn) : Prop where
  ts : TsRoundTrip cfg t.header.ts
  header : HeaderWF t.header
  posts_ne : t.posts ≠ []
  posts : ∀ p ∈ t.posts, PostingWF div p

theorem postingL_start (L : Layout) (hL : LayoutOK L) (div : Dec → Dec → Dec) (p : Posting) (hp : PostingWF div p)
    (r : List Char) : PostingStart (postingL L div p ++ r) := by
  obtain ⟨parts, hparts, hacct, _⟩ := hp.acct
  obtain ⟨a, t, rfl, ⟨c, u, rfl, hc, _⟩, _⟩ := hparts
  refine ⟨L.indent, (c :: u) ++ ((t.map (fun p => ':' :: p)).flatten ++ (L.sep ++ (postingValueChars div p ++
    (postCommentChars p.comment ++ (trailFor L p.comment ++ (L.eol ++ r)))))), ?_, hL.indent,
    startsNot_cons _ (isSpace_of_idStart c hc), startsNot_cons _ (by simp [hc]), by simp⟩
  simp [postingL, hacct, acctChars_toPath, joinParts_cons]

/-- **transaction**: the printed transaction, its blank lines, then the next transaction or the end -/
theorem parseTxn_print (cfg : Time.TsCfg) (L : Layout) (hL : LayoutOK L) (div : Dec → Dec → Dec) (t : Txn)
    (ht : TxnWF cfg div t) (rest : List Char) (hr : TxnStartOrEnd rest) :
    parseTxn cfg (txnL L div t ++ rest) = .ok (rawOf div t) rest := by
  obtain ⟨p0, ps, hps⟩ := List.exists_cons_of_ne_nil ht.posts_ne
  obtain ⟨g0, gs, hg⟩ := List.exists_cons_of_ne_nil hL.gap_ne
  have hgb : ∀ l ∈ g0 :: gs, Blanks l := by rw [← hg]; exact hL.gap
  have hpw : ∀ p ∈ p0 :: ps, PostingWF div p := by rw [← hps]; exact ht.posts
  have hform : txnL L div t ++ rest =
      headerL L t.header ++ (((p0 :: ps).map (postingL L div)).flatten ++ (blankLines L (g0 :: gs) ++ rest)) := by
    simp [txnL, hps, hg]
  rw [hform]
  unfold parseTxn
  rw [cutErr_of_ok (parseTxnHeader_print cfg L hL t.header ht.ts ht.header _ (by
    simp only [List.map_cons, List.flatten_cons, List.append_assoc]
    exact postingL_start L hL div p0 (hpw p0 List.mem_cons_self) _))]
  simp only [Res.bind_ok']
  rw [cutErr_of_ok (parseTxnPostings_print L hL div p0 ps hpw _
    (blankLines_blankOrEnd L hL g0 gs (hgb g0 List.mem_cons_self) rest))]
  simp only [Res.bind_ok']
  rw [alt_of_ok (multispace_print L hL g0 gs hgb rest hr)]
  simp only [Res.bind_ok']
  simp [rawOf, hps]

theorem pad_ne_nil (w n : Nat) : pad w n ≠ [] := by
  unfold pad Dec.padLeft
  intro h
  have := (List.append_eq_nil_iff.mp h).2
  exact Nat.toDigits_ne_nil this

theorem txnL_form (L : Layout) (div : Dec → Dec → Dec) (t : Txn) (r : List Char) :
    ∃ rest', txnL L div t ++ r = pad 4 (Time.civilAt t.header.ts.ns t.header.ts.offset).1.toNat ++ rest' :=
  ⟨_, by simp only [txnL, headerL, rfc3339, List.append_assoc]; rfl⟩

/-- a printed transaction starts with a digit of its timestamp -/
theorem txnL_start (L : Layout) (div : Dec → Dec → Dec) (t : Txn) (r : List Char) : TxnStartOrEnd (txnL L div t ++ r) := by
  obtain ⟨rest', hform⟩ := txnL_form L div t r
  obtain ⟨c, u, hc⟩ := List.exists_cons_of_ne_nil (pad_ne_nil 4 (Time.civilAt t.header.ts.ns t.header.ts.offset).1.toNat)
  have hd : isDecDigit c = true := by
    have := padLeft_all_digits 4 (Time.civilAt t.header.ts.ns t.header.ts.offset).1.toNat c
    apply this
    show c ∈ pad 4 _
    rw [hc]; exact List.mem_cons_self
  rw [hform, hc]
  refine Or.inr ⟨c, u ++ rest', rfl, isSpace_of_digit c hd, ?_, ?_⟩
  · intro e; rw [e] at hd; revert hd; decide
  · intro e; rw [e] at hd; revert hd; decide

theorem txnL_ne_nil (L : Layout) (div : Dec → Dec → Dec) (t : Txn) : txnL L div t ≠ [] := by
  intro h
  obtain ⟨rest', hform⟩ := txnL_form L div t []
  rw [h] at hform
  have := pad_ne_nil 4 (Time.civilAt t.header.ts.ns t.header.ts.offset).1.toNat
  cases hp : pad 4 (Time.civilAt t.header.ts.ns t.header.ts.offset).1.toNat with
  | nil => exact this hp
  | cons c u => rw [hp] at hform; simp at hform

/-- **journal**: a printed list of transactions parses back, in order, to the parse trees `rawOf` -/
theorem parseJournal_print (cfg : Time.TsCfg) (L : Layout) (hL : LayoutOK L) (div : Dec → Dec → Dec) (ts : List Txn)
    (hne : ts ≠ []) (hw : ∀ t ∈ ts, TxnWF cfg div t) :
    parseJournal cfg (printL L div ts) = some (ts.map (rawOf div)) := by
  obtain ⟨t0, tl, rfl⟩ := List.exists_cons_of_ne_nil hne
  obtain ⟨hrt, hq⟩ := repeatTill1_list (parseTxn cfg) (parseTxn_cons cfg) (txnL L div) (rawOf div) TxnStartOrEnd (Or.inl rfl)
    t0 tl (fun t htm => ⟨txnL_ne_nil L div t, fun r hr => ⟨txnL_start L div t r, parseTxn_print cfg L hL div t (hw t htm) r hr⟩⟩)
  have hlead : opt multispace0LineEnding (printL L div (t0 :: tl)) = .ok (if L.lead = [] then none else some ()) (((t0 :: tl).map (txnL L div)).flatten) := by
    unfold printL
    cases hl : L.lead with
    | nil =>
      simp only [blankLines, List.map_nil, List.flatten_nil, List.nil_append, if_true]
      apply opt_of_bt
      unfold multispace0LineEnding repeat1
      rw [blankLine_stop hq]; rfl
    | cons l0 ls =>
      have hb : ∀ l ∈ l0 :: ls, Blanks l := by rw [← hl]; exact hL.lead
      simp only [List.cons_ne_nil, if_false]
      exact opt_of_ok (multispace_print L hL l0 ls hb _ hq)
  unfold parseJournal parseTxns
  rw [hlead]; simp only [Res.bind_ok']
  rw [hrt]

end Syntax
end Tackler

import TacklerModel.Model.Balance
/-! The order of account keys (`Ord for TxnAccount`: commodity name, then account *name*):
    `keyLe` is a total preorder, `keyLt` its strict part; on keys whose names determine their paths
    it is a linear order.  Also: account names determine paths when components are non-empty and
    contain no ':' (`acctName_inj`). -/
namespace Tackler
namespace KeyOrder

/-- what the order looks at: commodity and account name -/
def nk (k : AKey) : String × String := (k.1, acctName k.2)

theorem keyLt_iff (a b : AKey) :
    keyLt a b = true ↔ a.1 < b.1 ∨ (a.1 = b.1 ∧ acctName a.2 < acctName b.2) := by
  simp [keyLt]

theorem keyLe_iff (a b : AKey) :
    keyLe a b = true ↔ a.1 < b.1 ∨ (a.1 = b.1 ∧ ¬ acctName b.2 < acctName a.2) := by
  simp [keyLe]

theorem keyLe_trans (a b c : AKey) (h1 : keyLe a b = true) (h2 : keyLe b c = true) : keyLe a c = true := by
  rw [keyLe_iff] at *; grind

theorem keyLe_total (a b : AKey) : (keyLe a b || keyLe b a) = true := by
  rw [Bool.or_eq_true, keyLe_iff, keyLe_iff]; grind

theorem keyLe_refl (a : AKey) : keyLe a a = true := by
  rw [keyLe_iff]; grind

theorem keyLt_irrefl (a : AKey) : keyLt a a = false := by
  cases h : keyLt a a with
  | false => rfl
  | true => rw [keyLt_iff] at h; grind

theorem keyLt_trans (a b c : AKey) (h1 : keyLt a b = true) (h2 : keyLt b c = true) : keyLt a c = true := by
  rw [keyLt_iff] at *; grind

theorem keyLt_asymm (a b : AKey) (h1 : keyLt a b = true) : keyLt b a = false := by
  cases h : keyLt b a with
  | false => rfl
  | true => have := keyLt_trans a b a h1 h; rw [keyLt_irrefl] at this; cases this

theorem keyLe_of_lt (a b : AKey) (h : keyLt a b = true) : keyLe a b = true := by
  rw [keyLt_iff] at h; rw [keyLe_iff]; grind

theorem keyLt_of_lt_of_le (a b c : AKey) (h1 : keyLt a b = true) (h2 : keyLe b c = true) : keyLt a c = true := by
  rw [keyLt_iff] at *; rw [keyLe_iff] at h2; grind

theorem keyLt_of_le_of_lt (a b c : AKey) (h1 : keyLe a b = true) (h2 : keyLt b c = true) : keyLt a c = true := by
  rw [keyLt_iff] at *; rw [keyLe_iff] at h1; grind

/-- `≤` and different name keys give `<` -/
theorem keyLt_of_le_of_ne (a b : AKey) (h : keyLe a b = true) (hne : nk a ≠ nk b) : keyLt a b = true := by
  rw [keyLe_iff] at h; rw [keyLt_iff]
  have : ¬ (a.1 = b.1 ∧ acctName a.2 = acctName b.2) := by
    intro ⟨h1, h2⟩; apply hne; simp [nk, h1, h2]
  grind

/-- trichotomy on name keys -/
theorem nk_eq_of_not_lt (a b : AKey) (h1 : keyLt a b = false) (h2 : keyLt b a = false) : nk a = nk b := by
  have h1' : ¬ (a.1 < b.1 ∨ (a.1 = b.1 ∧ acctName a.2 < acctName b.2)) := by
    rw [← keyLt_iff]; simp [h1]
  have h2' : ¬ (b.1 < a.1 ∨ (b.1 = a.1 ∧ acctName b.2 < acctName a.2)) := by
    rw [← keyLt_iff]; simp [h2]
  have : a.1 = b.1 ∧ acctName a.2 = acctName b.2 := by grind
  simp [nk, this.1, this.2]

theorem keyLt_ne (a b : AKey) (h : keyLt a b = true) : a ≠ b := by
  intro e; subst e; rw [keyLt_irrefl] at h; cases h

/-- the commodity never decreases along `keyLt` -/
theorem comm_of_keyLt (a b : AKey) (h : keyLt a b = true) : a.1 = b.1 ∨ a.1 < b.1 := by
  rw [keyLt_iff] at h; grind

/-! ### strictly sorted key lists -/

theorem nodup_of_pairwise_keyLt (l : List AKey) (h : l.Pairwise (fun a b => keyLt a b = true)) : l.Nodup := by
  apply List.Pairwise.imp _ h
  intro a b hab; exact keyLt_ne a b hab

/-! ### account names determine paths -/

/-- a path whose components are non-empty and contain no ':' (what the grammar produces) -/
def GoodPath (p : Path) : Prop := ∀ c ∈ p, c ≠ "" ∧ ':' ∉ c.toList

theorem goodPath_prefix {p q : Path} (h : GoodPath q) (hp : p <+: q) : GoodPath p :=
  fun c hc => h c (hp.subset hc)

theorem acctName_toList (p : Path) : (acctName p).toList = [':'].intercalate (p.map String.toList) := by
  unfold acctName
  rw [String.toList_intercalate]
  rfl

/-- the `:`-joined name determines the component list -/
theorem acctName_inj (p q : Path) (hp : GoodPath p) (hq : GoodPath q) (h : acctName p = acctName q) : p = q := by
  have ht : [':'].intercalate (p.map String.toList) = [':'].intercalate (q.map String.toList) := by
    rw [← acctName_toList, ← acctName_toList, h]
  have hno : ∀ (r : Path), GoodPath r → ∀ l ∈ r.map String.toList, ¬ ':' ∈ l := by
    intro r hr l hl
    obtain ⟨c, hc, rfl⟩ := List.mem_map.mp hl
    exact (hr c hc).2
  have key : ∀ (r : Path), GoodPath r → r ≠ [] →
      List.splitOn ':' ([':'].intercalate (r.map String.toList)) = r.map String.toList := by
    intro r hr hne
    exact List.splitOn_intercalate ':' (hno r hr) (by simpa using hne)
  have hmap : p.map String.toList = q.map String.toList := by
    cases p with
    | nil =>
      cases q with
      | nil => rfl
      | cons c t =>
        have h2 := key (c :: t) hq (by simp)
        rw [← ht] at h2
        simp [List.intercalate, List.splitOn] at h2
        -- the only non-empty component list that joins to the empty string is `[""]`
        have := (hq c List.mem_cons_self).1
        exact absurd h2.1 this
    | cons c t =>
      cases q with
      | nil =>
        have h2 := key (c :: t) hp (by simp)
        rw [ht] at h2
        simp [List.intercalate, List.splitOn] at h2
        have := (hp c List.mem_cons_self).1
        exact absurd h2.1 this
      | cons d u =>
        have h1 := key (c :: t) hp (by simp)
        have h2 := key (d :: u) hq (by simp)
        rw [ht] at h1
        rw [h1] at h2
        exact h2
  have hinj : ∀ (a b : List String), a.map String.toList = b.map String.toList → a = b := by
    intro a
    induction a with
    | nil => intro b hb; cases b with
      | nil => rfl
      | cons _ _ => simp at hb
    | cons x a ih => intro b hb; cases b with
      | nil => simp at hb
      | cons y b =>
        simp only [List.map_cons, List.cons.injEq] at hb
        rw [String.toList_inj.mp hb.1, ih b hb.2]
  exact hinj p q hmap

end KeyOrder
end Tackler

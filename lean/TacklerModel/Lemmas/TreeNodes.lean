import TacklerModel.Lemmas.Complete
/-! Spec C of C02: `treeNodes` on a key-duplicate-free, prefix-closed entry list `C` lists, from `me`, exactly the
    entries of `C` below `me` (same commodity, `me`'s path a prefix), each once, and every listed row's tree sum
    is the sum of the own sums of the entries below it. -/
namespace Tackler
namespace C02

open KeyOrder ListSum

/-- the entry a balance row was made from -/
def kv (r : BalRow) : AKey × Dec := (r.key, r.own)

/-- `b` is `a` or lies below `a`: same commodity, `a`'s path is a prefix of `b`'s -/
def desc (a b : AKey) : Bool := a.1 == b.1 && a.2.isPrefixOf b.2

theorem desc_iff (a b : AKey) : desc a b = true ↔ a.1 = b.1 ∧ a.2 <+: b.2 := by
  simp [desc, List.isPrefixOf_iff_prefix]

/-- sum of the own sums of all entries at or below `k` -/
def descSum (C : List (AKey × Dec)) (k : AKey) : Int :=
  ((C.filter (fun x => desc k x.1)).map (·.2.units)).sum

/-- the structural facts about the completed entry list that the tree walk relies on -/
structure CTree (C : List (AKey × Dec)) : Prop where
  nodup : (C.map (·.1)).Nodup
  nonempty : ∀ x ∈ C, x.1.2 ≠ []
  closed : ∀ x ∈ C, ∀ q : Path, q ≠ [] → q <+: x.1.2 → (x.1.1, q) ∈ C.map (·.1)
  scale : ∀ x ∈ C, x.2.scale ≤ 28

theorem nodup_of_keys_nodup {β} : ∀ {l : List (AKey × β)}, (l.map (·.1)).Nodup → l.Nodup := by
  intro l
  induction l with
  | nil => intro _; simp
  | cons r t ih =>
    intro h
    simp only [List.map_cons, List.nodup_cons, List.mem_map, not_exists, not_and] at h
    exact List.nodup_cons.mpr ⟨fun hr => h.1 r hr rfl, ih h.2⟩

/-! ### generic list helpers -/

theorem flattenOpt_map {α β} (f : α → Option (List β)) : ∀ (cs : List α) (sub : List β),
    flattenOpt (cs.map f) = some sub →
    (∀ c ∈ cs, ∃ l, f c = some l) ∧ sub = (cs.map (fun c => (f c).getD [])).flatten := by
  intro cs
  induction cs with
  | nil => intro sub h; simp [flattenOpt] at h; subst h; simp
  | cons c t ih =>
    intro sub h
    simp only [List.map_cons] at h
    cases hc : f c with
    | none => rw [hc] at h; simp [flattenOpt] at h
    | some l =>
      rw [hc] at h
      simp only [flattenOpt] at h
      split at h
      · cases h
      · rename_i r hr
        cases h
        obtain ⟨i1, i2⟩ := ih r hr
        constructor
        · intro c' hc'
          rcases List.mem_cons.mp hc' with rfl | h'
          · exact ⟨l, hc⟩
          · exact i1 c' h'
        · simp [hc, i2]

theorem nodup_flatten_map {γ β} (g : γ → List β) : ∀ cs : List γ, cs.Nodup → (∀ c ∈ cs, (g c).Nodup) →
    (∀ c ∈ cs, ∀ c' ∈ cs, c ≠ c' → ∀ x, x ∈ g c → x ∉ g c') → ((cs.map g).flatten).Nodup := by
  intro cs
  induction cs with
  | nil => intro _ _ _; simp
  | cons c t ih =>
    intro hnd h1 h2
    have hnd' := List.nodup_cons.mp hnd
    simp only [List.map_cons, List.flatten_cons]
    rw [List.nodup_append]
    refine ⟨h1 c List.mem_cons_self,
      ih hnd'.2 (fun c' hc' => h1 c' (List.mem_cons_of_mem _ hc'))
        (fun a ha b hb => h2 a (List.mem_cons_of_mem _ ha) b (List.mem_cons_of_mem _ hb)), ?_⟩
    intro a ha b hb e
    subst e
    obtain ⟨l, hl, hal⟩ := List.mem_flatten.mp hb
    obtain ⟨c', hc', rfl⟩ := List.mem_map.mp hl
    have hne : c ≠ c' := by intro e; subst e; exact hnd'.1 hc'
    exact h2 c List.mem_cons_self c' (List.mem_cons_of_mem _ hc') hne a ha hal

/-! ### paths -/

theorem take_succ_dropLast (l : Path) (n : Nat) (h : n + 1 ≤ l.length) :
    parentPath (l.take (n + 1)) = l.take n := by
  unfold parentPath
  rw [List.dropLast_eq_take, List.length_take, List.take_take]
  congr 1; omega

theorem prefix_eq_take {p l : Path} (h : p <+: l) : p = l.take p.length := List.prefix_iff_eq_take.mp h

theorem length_parent (p : Path) : (parentPath p).length = p.length - 1 := by
  unfold parentPath; exact List.length_dropLast

section tree
variable {C : List (AKey × Dec)} (hC : CTree C)

include hC in
/-- the ancestor of `x` at depth `n` is an entry -/
theorem anc_at (x : AKey × Dec) (hx : x ∈ C) (n : Nat) (h1 : 1 ≤ n) (h2 : n ≤ x.1.2.length) :
    ∃ c ∈ C, c.1 = (x.1.1, x.1.2.take n) := by
  have hne : x.1.2.take n ≠ [] := by
    intro e
    have := congrArg List.length e
    simp only [List.length_take, List.length_nil] at this
    omega
  obtain ⟨c, hc, hck⟩ := List.mem_map.mp (hC.closed x hx _ hne (List.take_prefix _ _))
  exact ⟨c, hc, hck⟩

include hC in
/-- two entries of the same depth above the same key are the same entry -/
theorem anc_unique (c c' : AKey × Dec) (hc : c ∈ C) (hc' : c' ∈ C) (k : AKey)
    (h1 : desc c.1 k = true) (h2 : desc c'.1 k = true) (hl : c.1.2.length = c'.1.2.length) : c = c' := by
  rw [desc_iff] at h1 h2
  apply entry_eq_of_key hC.nodup hc hc'
  apply Prod.ext
  · rw [h1.1, h2.1]
  · exact (List.prefix_of_prefix_length_le h1.2 h2.2 (by omega)).eq_of_length hl

theorem desc_refl (k : AKey) : desc k k = true := by rw [desc_iff]; exact ⟨rfl, List.prefix_refl _⟩

theorem desc_trans (a b c : AKey) (h1 : desc a b = true) (h2 : desc b c = true) : desc a c = true := by
  rw [desc_iff] at *; exact ⟨h1.1.trans h2.1, h1.2.trans h2.2⟩

/-- facts about a direct child `c` of `me` -/
theorem child_facts (me c : AKey × Dec) (h : isParentOf me.1 c.1 = true) (hne : c.1.2 ≠ []) :
    c.1.1 = me.1.1 ∧ parentPath c.1.2 = me.1.2 ∧ c.1.2.length = me.1.2.length + 1 ∧ desc me.1 c.1 = true := by
  rw [isParentOf_iff] at h
  have h1 : me.1.1 = c.1.1 := by rw [h]
  have h2 : me.1.2 = parentPath c.1.2 := by rw [h]
  have hl : 1 ≤ c.1.2.length := by
    cases hc : c.1.2 with
    | nil => exact absurd hc hne
    | cons _ _ => simp
  refine ⟨h1.symm, h2.symm, ?_, ?_⟩
  · rw [h2, length_parent]; omega
  · rw [desc_iff]; exact ⟨h1, by rw [h2]; exact List.dropLast_prefix _⟩

/-- what `treeNodes` returns for the subtree of `me` -/
structure SubtreeSpec (C : List (AKey × Dec)) (me : AKey × Dec) (rows : List BalRow) : Prop where
  shape : ∃ t sub, rows = ⟨me.1.2, me.1.1, me.2, t⟩ :: sub ∧ ∀ r ∈ sub, me.1.2.length < r.acct.length
  perm : (rows.map kv).Perm (C.filter (fun x => desc me.1 x.1))
  tree : ∀ r ∈ rows, r.tree.units = descSum C r.key ∧ r.tree.scale ≤ 28

include hC in
theorem treeNodes_spec : ∀ (fuel : Nat) (me : AKey × Dec) (rows : List BalRow), me ∈ C →
    treeNodes C fuel me = some rows → SubtreeSpec C me rows := by
  intro fuel
  induction fuel with
  | zero => intro me rows _ h; simp [treeNodes] at h
  | succ fuel ih =>
    intro me rows hme h
    simp only [treeNodes] at h
    split at h
    · cases h
    · rename_i sub hsub
      split at h
      · cases h
      · rename_i cs hcs
        split at h
        · cases h
        · rename_i t ht
          cases h
          have hCnd : C.Nodup := nodup_of_keys_nodup hC.nodup
          -- the children and their subtrees
          obtain ⟨hall, hsubeq⟩ := flattenOpt_map (treeNodes C fuel) _ sub hsub
          generalize hch : C.filter (fun s => isParentOf me.1 s.1) = children at hall hsubeq
          let g : AKey × Dec → List BalRow := fun c => (treeNodes C fuel c).getD []
          have hchild : ∀ c ∈ children, c ∈ C ∧ c.1.1 = me.1.1 ∧ parentPath c.1.2 = me.1.2 ∧
              c.1.2.length = me.1.2.length + 1 ∧ desc me.1 c.1 = true ∧ SubtreeSpec C c (g c) := by
            intro c hc
            rw [← hch] at hc
            obtain ⟨hcC, hpar⟩ := List.mem_filter.mp hc
            obtain ⟨f1, f2, f3, f4⟩ := child_facts me c hpar (hC.nonempty c hcC)
            obtain ⟨l, hl⟩ := hall c (by rw [← hch]; exact hc)
            have : g c = l := by simp [g, hl]
            exact ⟨hcC, f1, f2, f3, f4, by rw [this]; exact ih c l hcC hl⟩
          have hsub' : sub = (children.map g).flatten := hsubeq
          have hchnd : children.Nodup := by rw [← hch]; exact hCnd.sublist List.filter_sublist
          -- rows of `sub` lie strictly below `me`
          have hdeep : ∀ r ∈ sub, me.1.2.length < r.acct.length := by
            intro r hr
            rw [hsub'] at hr
            obtain ⟨l, hl, hrl⟩ := List.mem_flatten.mp hr
            obtain ⟨c, hc, rfl⟩ := List.mem_map.mp hl
            obtain ⟨_, _, _, f3, _, sp⟩ := hchild c hc
            obtain ⟨t', sub', hrows, hd⟩ := sp.shape
            rw [hrows] at hrl
            rcases List.mem_cons.mp hrl with rfl | hr'
            · simp only; omega
            · have := hd r hr'; omega
          -- the rows of `sub` whose parent is `me` are the children's head rows
          have hheads : ∀ c ∈ children,
              ((((g c).filter (fun r => parentPath r.acct == me.1.2)).map (·.tree)).map Dec.units).sum
                = descSum C c.1 ∧
              ∀ d ∈ ((g c).filter (fun r => parentPath r.acct == me.1.2)).map (·.tree), d.scale ≤ 28 := by
            intro c hc
            obtain ⟨_, _, f2, f3, _, sp⟩ := hchild c hc
            obtain ⟨t', sub', hrows, hd⟩ := sp.shape
            have hfil : (g c).filter (fun r => parentPath r.acct == me.1.2) = [⟨c.1.2, c.1.1, c.2, t'⟩] := by
              rw [hrows, List.filter_cons]
              have h1 : (parentPath (BalRow.mk c.1.2 c.1.1 c.2 t').acct == me.1.2) = true := by
                simp [f2]
              rw [if_pos h1]
              congr 1
              rw [List.filter_eq_nil_iff]
              intro r hr
              have := hd r hr
              simp only [beq_iff_eq]
              intro e
              have := congrArg List.length e
              rw [length_parent] at this
              omega
            have hhead := sp.tree ⟨c.1.2, c.1.1, c.2, t'⟩ (by rw [hrows]; exact List.mem_cons_self)
            rw [hfil]
            constructor
            · simp only [List.map_cons, List.map_nil, List.sum_cons, List.sum_nil]
              have hh : t'.units = descSum C c.1 := hhead.1
              omega
            · intro d hd'
              simp only [List.map_cons, List.map_nil, List.mem_singleton] at hd'
              subst hd'
              exact hhead.2
          -- value of the children sum
          have hcs_sc : ∀ d ∈ (sub.filter (fun r => parentPath r.acct == me.1.2)).map (·.tree), d.scale ≤ 28 := by
            intro d hd
            obtain ⟨r, hr, rfl⟩ := List.mem_map.mp hd
            obtain ⟨hrs, hrp⟩ := List.mem_filter.mp hr
            rw [hsub'] at hrs
            obtain ⟨l, hl, hrl⟩ := List.mem_flatten.mp hrs
            obtain ⟨c, hc, rfl⟩ := List.mem_map.mp hl
            exact (hheads c hc).2 r.tree (List.mem_map.mpr ⟨r, List.mem_filter.mpr ⟨hrl, hrp⟩, rfl⟩)
          obtain ⟨hcsu, hcssc⟩ := Dec.sum_units _ cs hcs_sc hcs
          have hcs_val : cs.units = (children.map (fun c => descSum C c.1)).sum := by
            rw [hcsu, List.map_map, hsub', List.filter_flatten, List.map_map, sum_map_flatten, List.map_map]
            apply sum_map_congr
            intro c hc
            have := (hheads c hc).1
            rw [List.map_map] at this
            exact this
          obtain ⟨htu, htsc⟩ := Dec.add_units cs me.2 t hcssc (hC.scale me hme) ht
          -- the rows are the entries below `me`, each once
          have hkvsub : sub.map kv = (children.map (fun c => (g c).map kv)).flatten := by
            rw [hsub', List.map_flatten, List.map_map]; rfl
          have hmemc : ∀ c ∈ children, ∀ x, x ∈ (g c).map kv ↔ x ∈ C ∧ desc c.1 x.1 = true := by
            intro c hc x
            obtain ⟨_, _, _, _, _, sp⟩ := hchild c hc
            rw [sp.perm.mem_iff, List.mem_filter]
          have hrows_kv : (BalRow.mk me.1.2 me.1.1 me.2 t :: sub).map kv = me :: sub.map kv := by
            simp [kv, BalRow.key]
          have hperm : ((BalRow.mk me.1.2 me.1.1 me.2 t :: sub).map kv).Perm
              (C.filter (fun x => desc me.1 x.1)) := by
            rw [hrows_kv]
            apply (List.perm_ext_iff_of_nodup ?_ (hCnd.sublist List.filter_sublist)).mpr
            · -- membership
              intro x
              rw [List.mem_filter, List.mem_cons, hkvsub]
              constructor
              · rintro (rfl | hx)
                · exact ⟨hme, desc_refl _⟩
                · obtain ⟨l, hl, hxl⟩ := List.mem_flatten.mp hx
                  obtain ⟨c, hc, rfl⟩ := List.mem_map.mp hl
                  obtain ⟨hxC, hxd⟩ := (hmemc c hc x).mp hxl
                  obtain ⟨_, _, _, _, f4, _⟩ := hchild c hc
                  exact ⟨hxC, desc_trans _ _ _ f4 hxd⟩
              · intro ⟨hxC, hxd⟩
                have hxd' := (desc_iff _ _).mp hxd
                by_cases hlen : x.1.2.length = me.1.2.length
                · left
                  have : x.1 = me.1 := Prod.ext hxd'.1.symm (hxd'.2.eq_of_length hlen.symm).symm
                  exact entry_eq_of_key hC.nodup hxC hme this
                · right
                  have hlt : me.1.2.length + 1 ≤ x.1.2.length := by
                    have := hxd'.2.length_le; omega
                  obtain ⟨c, hcC, hck⟩ := anc_at hC x hxC (me.1.2.length + 1) (by omega) hlt
                  have hc1 : c.1.1 = x.1.1 := by rw [hck]
                  have hc2 : c.1.2 = x.1.2.take (me.1.2.length + 1) := by rw [hck]
                  have hpar : isParentOf me.1 c.1 = true := by
                    rw [isParentOf_iff]
                    apply Prod.ext
                    · simp only; rw [hc1]; exact hxd'.1
                    · simp only
                      rw [hc2, take_succ_dropLast _ _ hlt]
                      exact prefix_eq_take hxd'.2
                  have hcch : c ∈ children := by
                    rw [← hch]; exact List.mem_filter.mpr ⟨hcC, hpar⟩
                  have hcd : desc c.1 x.1 = true := by
                    rw [desc_iff]; exact ⟨hc1, by rw [hc2]; exact List.take_prefix _ _⟩
                  exact List.mem_flatten.mpr ⟨(g c).map kv, List.mem_map.mpr ⟨c, hcch, rfl⟩,
                    (hmemc c hcch x).mpr ⟨hxC, hcd⟩⟩
            · -- no duplicates
              rw [List.nodup_cons]
              constructor
              · intro hin
                obtain ⟨r, hr, hrk⟩ := List.mem_map.mp hin
                have := hdeep r hr
                have e : r.acct = me.1.2 := by rw [← hrk]; rfl
                rw [e] at this; omega
              · rw [hkvsub]
                apply nodup_flatten_map (fun c => (g c).map kv) children hchnd
                · intro c hc
                  obtain ⟨_, _, _, _, _, sp⟩ := hchild c hc
                  exact (sp.perm.nodup_iff).mpr (hCnd.sublist List.filter_sublist)
                · intro c hc c' hc' hne x hx hx'
                  obtain ⟨_, hd1⟩ := (hmemc c hc x).mp hx
                  obtain ⟨_, hd2⟩ := (hmemc c' hc' x).mp hx'
                  obtain ⟨hcC, _, _, f3, _, _⟩ := hchild c hc
                  obtain ⟨hcC', _, _, f3', _, _⟩ := hchild c' hc'
                  exact hne (anc_unique hC c c' hcC hcC' x.1 hd1 hd2 (by omega))
          -- own sums below `me` = own sum of `me` + those below the children
          have hdesc_me : descSum C me.1 = me.2.units + (children.map (fun c => descSum C c.1)).sum := by
            unfold descSum
            rw [← perm_sum_map (fun x => x.2.units) hperm, hrows_kv]
            simp only [List.map_cons, List.sum_cons]
            congr 1
            rw [hkvsub, sum_map_flatten, List.map_map]
            apply sum_map_congr
            intro c hc
            obtain ⟨_, _, _, _, _, sp⟩ := hchild c hc
            exact perm_sum_map (fun x => x.2.units) sp.perm
          refine ⟨⟨t, sub, rfl, hdeep⟩, hperm, ?_⟩
          intro r hr
          rcases List.mem_cons.mp hr with rfl | hr'
          · refine ⟨?_, htsc⟩
            show t.units = descSum C me.1
            rw [hdesc_me, htu, hcs_val]
            omega
          · rw [hsub'] at hr'
            obtain ⟨l, hl, hrl⟩ := List.mem_flatten.mp hr'
            obtain ⟨c, hc, rfl⟩ := List.mem_map.mp hl
            obtain ⟨_, _, _, _, _, sp⟩ := hchild c hc
            exact sp.tree r hrl

end tree

end C02
end Tackler

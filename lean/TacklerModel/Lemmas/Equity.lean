import TacklerModel.Model.Equity
import TacklerModel.Lemmas.Dec
/-! Helper lemmas for C10: `chunkBy`, `Int` list sums, facts about the rows of the balance kernel
    (membership, scale bound, order). Core Lean only. -/
namespace Tackler
namespace EqL

/-! ### `chunkBy` (itertools `chunk_by`) -/

theorem chunkBy_flatten {α κ} [DecidableEq κ] (key : α → κ) :
    ∀ l : List α, ((chunkBy key l).map (·.2)).flatten = l := by
  intro l
  induction l with
  | nil => rfl
  | cons a t ih =>
    simp only [chunkBy]
    split
    · rename_i k g rest hc
      rw [hc] at ih
      split <;> simp_all
    · rename_i hc
      rw [hc] at ih
      simp_all

theorem chunkBy_keys {α κ} [DecidableEq κ] (key : α → κ) :
    ∀ l : List α, ∀ kg ∈ chunkBy key l, kg.2 ≠ [] ∧ ∀ a ∈ kg.2, key a = kg.1 := by
  intro l
  induction l with
  | nil => intro kg h; cases h
  | cons a t ih =>
    intro kg h
    simp only [chunkBy] at h
    split at h
    · rename_i k g rest hc
      rw [hc] at ih
      split at h
      · rename_i hk
        rcases List.mem_cons.mp h with rfl | h'
        · refine ⟨by simp, ?_⟩
          intro b hb
          rcases List.mem_cons.mp hb with rfl | hb'
          · exact hk
          · exact (ih (k, g) (List.mem_cons_self)).2 b hb'
        · exact ih kg (List.mem_cons_of_mem _ h')
      · rcases List.mem_cons.mp h with rfl | h'
        · simp
        · exact ih kg h'
    · simp at h; subst h; simp

/-- every element lies in the chunk carrying its key -/
theorem chunkBy_mem {α κ} [DecidableEq κ] (key : α → κ) (l : List α) (a : α) (ha : a ∈ l) :
    ∃ kg ∈ chunkBy key l, a ∈ kg.2 ∧ kg.1 = key a := by
  have hf := chunkBy_flatten key l
  rw [← hf] at ha
  simp only [List.mem_flatten, List.mem_map] at ha
  obtain ⟨g, ⟨kg, hkg, rfl⟩, hag⟩ := ha
  exact ⟨kg, hkg, hag, ((chunkBy_keys key l kg hkg).2 a hag).symm⟩

theorem chunkBy_key_mem {α κ} [DecidableEq κ] (key : α → κ) (l : List α) (kg : κ × List α)
    (h : kg ∈ chunkBy key l) : ∃ a ∈ l, key a = kg.1 := by
  obtain ⟨hne, hk⟩ := chunkBy_keys key l kg h
  obtain ⟨b, tb, hb⟩ := List.exists_cons_of_ne_nil hne
  refine ⟨b, ?_, hk b (by rw [hb]; exact List.mem_cons_self)⟩
  rw [← chunkBy_flatten key l]
  simp only [List.mem_flatten, List.mem_map]
  exact ⟨kg.2, ⟨kg, h, rfl⟩, by rw [hb]; exact List.mem_cons_self⟩

/-- if no key reappears among the chunks, a chunk is exactly the elements carrying its key -/
theorem chunkBy_eq_filter {α κ} [DecidableEq κ] (key : α → κ) :
    ∀ l : List α, ((chunkBy key l).map (·.1)).Nodup →
      ∀ kg ∈ chunkBy key l, kg.2 = l.filter (fun a => decide (key a = kg.1)) := by
  intro l
  induction l with
  | nil => intro _ kg h; cases h
  | cons a t ih =>
    intro hnd kg h
    simp only [chunkBy] at h hnd
    split at h
    · rename_i k g rest hc
      rw [hc] at hnd
      rw [hc] at ih
      split at h
      · rename_i hk
        simp only [if_pos hk] at hnd
        have hnd' : (((k, g) :: rest).map (·.1)).Nodup := by simpa using hnd
        rcases List.mem_cons.mp h with rfl | h'
        · have := ih hnd' (k, g) List.mem_cons_self
          simp only at this
          simp [hk, ← this]
        · have hne : kg.1 ≠ k := by
            intro he
            have h1 := (List.nodup_cons.mp hnd').1
            apply h1
            simp only [List.mem_map]
            exact ⟨kg, h', he⟩
          have := ih hnd' kg (List.mem_cons_of_mem _ h')
          rw [this]
          have : ¬ key a = kg.1 := by rw [hk]; exact fun e => hne e.symm
          simp [this]
      · rename_i hk
        simp only [if_neg hk] at hnd
        have hnd2 := List.nodup_cons.mp (by simpa using hnd : (key a :: ((k, g) :: rest).map (·.1)).Nodup)
        have hnot : ∀ b ∈ t, key b ≠ key a := by
          intro b hb he
          obtain ⟨kg', hkg', _, hk'⟩ := chunkBy_mem key t b hb
          rw [hc] at hkg'
          apply hnd2.1
          simp only [List.mem_map]
          exact ⟨kg', hkg', by rw [hk', he]⟩
        rcases List.mem_cons.mp h with rfl | h'
        · simp only [List.filter_cons, decide_true, if_true]
          have : t.filter (fun b => decide (key b = key a)) = [] := by
            simp only [List.filter_eq_nil_iff, decide_eq_true_eq]
            exact fun b hb => hnot b hb
          rw [this]
        · have := ih hnd2.2 kg h'
          rw [this]
          have hne : ¬ key a = kg.1 := by
            intro he
            apply hnd2.1
            simp only [List.mem_map]
            exact ⟨kg, h', he.symm⟩
          simp [hne]
    · rename_i hc
      simp at h
      subst h
      have : t = [] := by
        have := chunkBy_flatten key t
        rw [hc] at this
        simpa using this.symm
      subst this
      simp

/-- along a list whose `String` key never decreases the chunk keys are strictly increasing -/
theorem chunkBy_strict {α} (key : α → String) : ∀ l : List α,
    l.Pairwise (fun a b => ¬ key b < key a) → ((chunkBy key l).map (·.1)).Pairwise (· < ·) := by
  intro l
  induction l with
  | nil => intro _; simp [chunkBy]
  | cons a t ih =>
    intro hp
    have hp' := List.pairwise_cons.mp hp
    have iht := ih hp'.2
    simp only [chunkBy]
    split
    · rename_i k g rest hc
      rw [hc] at iht
      have hk : ¬ k < key a := by
        obtain ⟨b, hbt, hbk⟩ := chunkBy_key_mem key t (k, g) (by rw [hc]; exact List.mem_cons_self)
        have := hp'.1 b hbt
        simpa [hbk] using this
      split
      · exact iht
      · rename_i hne
        have hlt : key a < k := by
          rcases Classical.em (key a < k) with h | h
          · exact h
          · exact absurd (String.le_antisymm (String.not_lt.mp hk) (String.not_lt.mp h)) hne
        simp only [List.map_cons, List.pairwise_cons] at iht ⊢
        refine ⟨?_, iht⟩
        intro k' hk'
        rcases List.mem_cons.mp hk' with rfl | hk''
        · exact hlt
        · exact String.lt_trans hlt (iht.1 k' hk'')
    · simp

theorem pairwise_lt_nodup (l : List String) (h : l.Pairwise (· < ·)) : l.Nodup := by
  induction l with
  | nil => simp
  | cons a t ih =>
    have hp := List.pairwise_cons.mp h
    refine List.nodup_cons.mpr ⟨?_, ih hp.2⟩
    intro hm
    exact String.lt_irrefl a (hp.1 a hm)

theorem chunkBy_sub {α κ} [DecidableEq κ] (key : α → κ) (l : List α) (kg : κ × List α)
    (h : kg ∈ chunkBy key l) : ∀ a ∈ kg.2, a ∈ l := by
  intro a ha
  rw [← chunkBy_flatten key l]
  simp only [List.mem_flatten, List.mem_map]
  exact ⟨kg.2, ⟨kg, h, rfl⟩, ha⟩

/-! ### the balance kernel: where the own sums of the rows come from -/

theorem sumGroups_mem : ∀ (gs : List (AKey × List BPost)) (sums : List (AKey × Dec)),
    sumGroups gs = some sums →
    ∀ ks ∈ sums, ∃ g, (ks.1, g) ∈ gs ∧ Dec.sum (g.map (·.amount)) = some ks.2 := by
  intro gs
  induction gs with
  | nil => intro sums h ks hks; simp [sumGroups] at h; subst h; cases hks
  | cons kg rest ih =>
    intro sums h ks hks
    obtain ⟨k, g⟩ := kg
    simp only [sumGroups] at h
    split at h
    · cases h
    · rename_i s hs
      split at h
      · cases h
      · rename_i r hr
        cases h
        rcases List.mem_cons.mp hks with rfl | h'
        · exact ⟨g, List.mem_cons_self, hs⟩
        · obtain ⟨g', hg', hs'⟩ := ih r hr ks h'
          exact ⟨g', List.mem_cons_of_mem _ hg', hs'⟩

theorem accountSums_scale (posts : List BPost) (sums : List (AKey × Dec))
    (hwf : ∀ p ∈ posts, p.amount.scale ≤ 28) (h : accountSums posts = some sums) :
    ∀ ks ∈ sums, ks.2.scale ≤ 28 := by
  intro ks hks
  unfold accountSums at h
  obtain ⟨g, hg, hs⟩ := sumGroups_mem _ _ h ks hks
  refine (Dec.sum_units _ _ ?_ hs).2
  intro d hd
  simp only [List.mem_map] at hd
  obtain ⟨p, hp, rfl⟩ := hd
  have := chunkBy_sub BPost.key _ _ hg p hp
  exact hwf p ((List.mergeSort_perm posts _).mem_iff.mp this)

theorem bubbleUp_P (P : Dec → Prop) (hz : P Dec.zero) (st : Settings) (sums : List (AKey × Dec))
    (hs : ∀ s ∈ sums, P s.2) : ∀ (fuel : Nat) (me : AKey × Dec) (l : List (AKey × Dec)),
    P me.2 → bubbleUp st sums fuel me = .ok l → ∀ x ∈ l, P x.2 := by
  intro fuel
  induction fuel with
  | zero => intro me l _ h; simp [bubbleUp] at h
  | succ n ih =>
    intro me l hme h x hx
    simp only [bubbleUp] at h
    split at h
    · cases h; simp at hx; subst hx; exact hme
    · split at h
      · rename_i p hp
        obtain ⟨l', hl', rfl⟩ := (Outcome.map_ok _ _ _).mp h
        rcases List.mem_append.mp hx with hx' | hx'
        · exact ih p l' (hs p (List.mem_of_find?_eq_some hp)) hl' x hx'
        · simp at hx'; subst hx'; exact hme
      · split at h
        · cases h
        · cases h
        · obtain ⟨l', hl', rfl⟩ := (Outcome.map_ok _ _ _).mp h
          rcases List.mem_append.mp hx with hx' | hx'
          · exact ih _ l' hz hl' x hx'
          · simp at hx'; subst hx'; exact hme

theorem bubbleAll_P (P : Dec → Prop) (hz : P Dec.zero) (st : Settings) (sums : List (AKey × Dec))
    (hs : ∀ s ∈ sums, P s.2) : ∀ (todo : List (AKey × Dec)) (ls : List (List (AKey × Dec))),
    (∀ s ∈ todo, P s.2) → bubbleAll st sums todo = .ok ls → ∀ l ∈ ls, ∀ x ∈ l, P x.2 := by
  intro todo
  induction todo with
  | nil => intro ls _ h l hl; simp [bubbleAll] at h; subst h; cases hl
  | cons s rest ih =>
    intro ls htodo h l hl
    simp only [bubbleAll] at h
    split at h
    · cases h
    · cases h
    · rename_i l0 hl0
      split at h
      · cases h
      · cases h
      · rename_i ls' hls'
        cases h
        rcases List.mem_cons.mp hl with rfl | hl'
        · exact bubbleUp_P P hz st sums hs _ s _ (htodo s List.mem_cons_self) hl0
        · exact ih ls' (fun x hx => htodo x (List.mem_cons_of_mem _ hx)) hls' l hl'

theorem btreeInsert_mem (l : List (AKey × Dec)) (y x : AKey × Dec) (h : x ∈ btreeInsert l y) :
    x ∈ l ∨ x = y := by
  induction l with
  | nil => simp [btreeInsert] at h; exact .inr h
  | cons z t ih =>
    simp only [btreeInsert] at h
    split at h
    · rcases List.mem_cons.mp h with rfl | h'
      · exact .inr rfl
      · exact .inl h'
    · split at h
      · rcases List.mem_cons.mp h with rfl | h'
        · exact .inl List.mem_cons_self
        · rcases ih h' with h'' | h''
          · exact .inl (List.mem_cons_of_mem _ h'')
          · exact .inr h''
      · exact .inl h

theorem btreeFold_mem : ∀ (l acc : List (AKey × Dec)) (x : AKey × Dec),
    x ∈ l.foldl btreeInsert acc → x ∈ acc ∨ x ∈ l := by
  intro l
  induction l with
  | nil => intro acc x h; exact .inl h
  | cons y t ih =>
    intro acc x h
    simp only [List.foldl_cons] at h
    rcases ih _ x h with h' | h'
    · rcases btreeInsert_mem acc y x h' with h'' | h''
      · exact .inl h''
      · exact .inr (by rw [h'']; exact List.mem_cons_self)
    · exact .inr (List.mem_cons_of_mem _ h')

theorem completeTree_P (P : Dec → Prop) (hz : P Dec.zero) (st : Settings) (sums complete : List (AKey × Dec))
    (hs : ∀ s ∈ sums, P s.2) (h : completeTree st sums = .ok complete) : ∀ x ∈ complete, P x.2 := by
  unfold completeTree at h
  obtain ⟨ls, hls, rfl⟩ := (Outcome.map_ok _ _ _).mp h
  intro x hx
  unfold btreeCollect at hx
  rcases btreeFold_mem _ _ x hx with h' | h'
  · cases h'
  · simp only [List.mem_flatten] at h'
    obtain ⟨l, hl, hxl⟩ := h'
    exact bubbleAll_P P hz st sums hs sums ls hs hls l hl x hxl

theorem flattenOpt_mem {α} : ∀ (ls : List (Option (List α))) (out : List α),
    flattenOpt ls = some out → ∀ r ∈ out, ∃ l, some l ∈ ls ∧ r ∈ l := by
  intro ls
  induction ls with
  | nil => intro out h r hr; simp [flattenOpt] at h; subst h; cases hr
  | cons o rest ih =>
    intro out h r hr
    cases o with
    | none => simp [flattenOpt] at h
    | some l =>
      simp only [flattenOpt] at h
      split at h
      · cases h
      · rename_i r' hr'
        cases h
        rcases List.mem_append.mp hr with h1 | h1
        · exact ⟨l, List.mem_cons_self, h1⟩
        · obtain ⟨l', hl', hrl'⟩ := ih r' hr' r h1
          exact ⟨l', List.mem_cons_of_mem _ hl', hrl'⟩

theorem treeNodes_P (P : Dec → Prop) (complete : List (AKey × Dec)) (hc : ∀ s ∈ complete, P s.2) :
    ∀ (fuel : Nat) (me : AKey × Dec) (rows : List BalRow), P me.2 →
      treeNodes complete fuel me = some rows → ∀ r ∈ rows, P r.own := by
  intro fuel
  induction fuel with
  | zero => intro me rows _ h; simp [treeNodes] at h
  | succ n ih =>
    intro me rows hme h r hr
    simp only [treeNodes] at h
    split at h
    · cases h
    · rename_i sub hsub
      split at h
      · cases h
      · split at h
        · cases h
        · cases h
          rcases List.mem_cons.mp hr with rfl | hr'
          · exact hme
          · obtain ⟨l, hl, hrl⟩ := flattenOpt_mem _ _ hsub r hr'
            simp only [List.mem_map, List.mem_filter] at hl
            obtain ⟨s, ⟨hs, _⟩, hl⟩ := hl
            exact ih s l (hc s hs) hl r hrl

/-- every own sum of a balance row is an account sum or a gap zero: it satisfies any `P` they all satisfy -/
theorem balance_P (P : Dec → Prop) (hz : P Dec.zero) (st : Settings) (posts : List BPost) (rows : List BalRow)
    (hsums : ∀ sums, accountSums posts = some sums → ∀ s ∈ sums, P s.2)
    (h : balance st posts = .ok rows) : ∀ r ∈ rows, P r.own := by
  unfold balance at h
  split at h
  · cases h
  · rename_i sums hs
    split at h
    · cases h
    · cases h
    · rename_i complete hc
      split at h
      · cases h
      · rename_i bal hb
        cases h
        intro r hr
        have hr' := (List.mergeSort_perm bal _).mem_iff.mp hr
        have hcP := completeTree_P P hz st sums complete (hsums sums hs) hc
        obtain ⟨l, hl, hrl⟩ := flattenOpt_mem _ _ hb r hr'
        simp only [List.mem_map, List.mem_filter] at hl
        obtain ⟨s, ⟨hs', _⟩, hl⟩ := hl
        exact treeNodes_P P complete hcP _ s l (hcP s hs') hl r hrl

theorem balance_own_scale (st : Settings) (posts : List BPost) (rows : List BalRow)
    (hwf : ∀ p ∈ posts, p.amount.scale ≤ 28) (h : balance st posts = .ok rows) :
    ∀ r ∈ rows, r.own.scale ≤ 28 :=
  balance_P (fun d => d.scale ≤ 28) (by simp [Dec.zero]) st posts rows
    (fun sums hs => accountSums_scale posts sums hwf hs) h

/-! ### order of the rows -/

theorem keyLe_trans (a b c : AKey) (h1 : keyLe a b = true) (h2 : keyLe b c = true) : keyLe a c = true := by
  simp only [keyLe, Bool.or_eq_true, Bool.and_eq_true, decide_eq_true_eq, beq_iff_eq, Bool.not_eq_true',
    decide_eq_false_iff_not] at *
  rcases h1 with h1 | ⟨e1, n1⟩
  · rcases h2 with h2 | ⟨e2, _⟩
    · exact .inl (String.lt_trans h1 h2)
    · exact .inl (e2 ▸ h1)
  · rcases h2 with h2 | ⟨e2, n2⟩
    · exact .inl (e1 ▸ h2)
    · refine .inr ⟨e1.trans e2, ?_⟩
      intro h
      -- acctName c.2 < acctName a.2, ¬ b < a … , ¬ c < b
      have hab := String.not_lt.mp n1
      have hbc := String.not_lt.mp n2
      exact String.not_lt.mpr (String.le_trans hab hbc) h

theorem keyLe_total (a b : AKey) : (keyLe a b || keyLe b a) = true := by
  simp only [keyLe, Bool.or_eq_true, Bool.and_eq_true, decide_eq_true_eq, beq_iff_eq, Bool.not_eq_true',
    decide_eq_false_iff_not]
  rcases Classical.em (a.1 < b.1) with h | h
  · exact .inl (.inl h)
  · rcases Classical.em (b.1 < a.1) with h' | h'
    · exact .inr (.inl h')
    · have e : a.1 = b.1 := String.le_antisymm (String.not_lt.mp h') (String.not_lt.mp h)
      rcases Classical.em (acctName b.2 < acctName a.2) with g | g
      · exact .inr (.inr ⟨e.symm, String.lt_asymm g⟩)
      · exact .inl (.inr ⟨e, g⟩)

theorem balance_sorted (st : Settings) (posts : List BPost) (rows : List BalRow)
    (h : balance st posts = .ok rows) : rows.Pairwise (fun a b => keyLe a.key b.key = true) := by
  unfold balance at h
  (repeat' split at h) <;> first | (cases h; done) | skip
  cases h
  exact List.pairwise_mergeSort (le := fun a b : BalRow => keyLe a.key b.key)
    (fun a b c => keyLe_trans a.key b.key c.key) (fun a b => keyLe_total a.key b.key) _

theorem keyLe_comm_le (a b : AKey) (h : keyLe a b = true) : ¬ b.1 < a.1 := by
  simp only [keyLe, Bool.or_eq_true, Bool.and_eq_true, decide_eq_true_eq, beq_iff_eq] at h
  rcases h with h | ⟨e, _⟩
  · exact String.lt_asymm h
  · rw [e]; exact String.lt_irrefl _

end EqL
end Tackler

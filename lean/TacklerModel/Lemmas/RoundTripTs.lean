import TacklerModel.Lemmas.RoundTrip
/-!
# Timestamp: `rfc_3339` then `parse_timestamp`

`TsOK ts` is a *decidable* condition on an instant-with-offset: its civil fields at its own offset are a
valid date and time in the years 0…9999, the offset is a whole number of minutes within ±25:59, and
converting the civil fields back gives the instant again (the calendar inverse law, checked for this
instant).  Under it the printed timestamp parses back to the same `Ts` (`ts_roundtrip`).
-/
namespace Tackler
namespace Syntax
open Comb Print

/-- civil fields of `ts` at its own offset -/
def tsY (ts : Ts) : Nat := (Time.civilAt ts.ns ts.offset).1.toNat
def tsM (ts : Ts) : Nat := (Time.civilAt ts.ns ts.offset).2.1
def tsD (ts : Ts) : Nat := (Time.civilAt ts.ns ts.offset).2.2.1
def tsH (ts : Ts) : Nat := (Time.civilAt ts.ns ts.offset).2.2.2.1
def tsMi (ts : Ts) : Nat := (Time.civilAt ts.ns ts.offset).2.2.2.2.1
def tsS (ts : Ts) : Nat := (Time.civilAt ts.ns ts.offset).2.2.2.2.2.1
def tsNs (ts : Ts) : Nat := (Time.civilAt ts.ns ts.offset).2.2.2.2.2.2

/-- the timestamp is printable and re-parsable (decidable) -/
def TsOK (ts : Ts) : Bool :=
  decide (tsY ts ≤ 9999) && Time.dateOk (tsY ts) (tsM ts) (tsD ts) && Time.timeOk (tsH ts) (tsMi ts) (tsS ts)
  && decide (tsNs ts < 1000000000)
  && Time.offsetOk ts.offset && decide (ts.offset.natAbs % 60 = 0)
  && Time.instantOk ts.ns
  && decide (Time.civilNs (tsY ts) (tsM ts) (tsD ts) (tsH ts) (tsMi ts) (tsS ts) (tsNs ts) - ts.offset * 1000000000 = ts.ns)

theorem lit_one (c : Char) (r : List Char) : lit [c] (c :: r) = .ok () r := by
  simpa using lit_append [c] r

/-! ### padded numbers -/

theorem pad_length (w n : Nat) (hw : 0 < w) (h : n < 10 ^ w) : (pad w n).length = w := by
  unfold pad
  apply padLeft_length_of_le
  exact (Nat.length_toDigits_le_iff (by decide) hw).mpr h

theorem pad_digits (w n : Nat) : ∀ c ∈ pad w n, isDecDigit c = true := padLeft_all_digits w n

theorem digits_pad (w n : Nat) : digits (pad w n) = n := digitsVal_padLeft w n

theorem twoDigits_print (n : Nat) (h : n < 100) (rest : List Char) : twoDigits (pad 2 n ++ rest) = .ok (pad 2 n) rest :=
  takeMN_exact 2 _ _ rest (pad_length 2 n (by decide) h) (pad_digits 2 n)

theorem fourDigits_print (n : Nat) (h : n < 10000) (rest : List Char) :
    takeMN 4 4 isDecDigit (pad 4 n ++ rest) = .ok (pad 4 n) rest :=
  takeMN_exact 4 _ _ rest (pad_length 4 n (by decide) h) (pad_digits 4 n)

/-! ### fraction -/

theorem dropEndWhile_append (pred : Char → Bool) : ∀ l : List Char,
    ∃ z, l = dropEndWhile pred l ++ z ∧ ∀ c ∈ z, pred c = true := by
  intro l
  induction l with
  | nil => exact ⟨[], rfl, by simp⟩
  | cons c t ih =>
    obtain ⟨z, hz, hall⟩ := ih
    simp only [dropEndWhile]
    cases hd : dropEndWhile pred t with
    | nil =>
      rw [hd] at hz
      simp only [List.nil_append] at hz
      by_cases hc : pred c = true
      · simp only [hc, if_true]
        exact ⟨c :: t, rfl, by intro x hx; rcases List.mem_cons.mp hx with rfl | h; exact hc; rw [hz] at h; exact hall x h⟩
      · simp only [hc]
        exact ⟨z, by simp [hz], hall⟩
    | cons d r =>
      rw [hd] at hz
      exact ⟨z, by simp [hz], hall⟩

theorem dropEndWhile_sub (pred : Char → Bool) (l : List Char) : ∀ c ∈ dropEndWhile pred l, c ∈ l := by
  obtain ⟨z, hz, _⟩ := dropEndWhile_append pred l
  intro c hc
  rw [hz]; exact List.mem_append_left _ hc

theorem zeros_eq_replicate (z : List Char) (h : ∀ c ∈ z, (c == '0') = true) : z = List.replicate z.length '0' := by
  induction z with
  | nil => rfl
  | cons c t ih =>
    have hc : c = '0' := by simpa using h c List.mem_cons_self
    simp only [List.length_cons, List.replicate_succ, hc]
    rw [← ih (fun x hx => h x (List.mem_cons_of_mem _ hx))]

/-- the stripped fraction scales back to the nanoseconds -/
theorem fracNs_strip (ns : Nat) (h : ns < 1000000000) :
    Time.fracNs (dropEndWhile (fun c => c == '0') (pad 9 ns)) = ns := by
  obtain ⟨z, hz, hzero⟩ := dropEndWhile_append (fun c => c == '0') (pad 9 ns)
  have hlen : (pad 9 ns).length = 9 := pad_length 9 ns (by decide) h
  have hzr := zeros_eq_replicate z hzero
  have hl : (dropEndWhile (fun c => c == '0') (pad 9 ns)).length + z.length = 9 := by
    have := congrArg List.length hz
    rw [List.length_append, hlen] at this; omega
  have hv : Dec.digitsVal (pad 9 ns) = ns := digits_pad 9 ns
  rw [hz, digitsVal_eq_ofDigitChars, Nat.ofDigitChars_append, hzr, Nat.ofDigitChars_replicate_zero,
    ← digitsVal_eq_ofDigitChars] at hv
  unfold Time.fracNs
  have e : 9 - (dropEndWhile (fun c => c == '0') (pad 9 ns)).length = z.length := by omega
  rw [e, Nat.mul_comm]
  exact hv

theorem strip_ne_nil (ns : Nat) (h : ns < 1000000000) (hne : ns ≠ 0) :
    dropEndWhile (fun c => c == '0') (pad 9 ns) ≠ [] := by
  intro e
  have := fracNs_strip ns h
  rw [e] at this
  simp [Time.fracNs, Dec.digitsVal] at this
  exact hne this.symm

theorem strip_length (ns : Nat) (h : ns < 1000000000) :
    (dropEndWhile (fun c => c == '0') (pad 9 ns)).length ≤ 9 := by
  obtain ⟨z, hz, _⟩ := dropEndWhile_append (fun c => c == '0') (pad 9 ns)
  have hlen : (pad 9 ns).length = 9 := pad_length 9 ns (by decide) h
  have := congrArg List.length hz
  rw [List.length_append, hlen] at this; omega

/-- the optional fraction `[.fffffffff]` followed by a sign -/
theorem frac_print (ns : Nat) (h : ns < 1000000000) (rest : List Char) (hr : StartsNot isDecDigit rest)
    (hd : StartsNot (fun c => c == '.') rest) :
    ∃ fr, opt (fun s => (chr '.' s).bind fun _ s => cutErr (takeMN 1 9 isDecDigit) s) (fracChars ns ++ rest) = .ok fr rest ∧
      (match fr with | some ds => Time.fracNs ds | none => 0) = ns := by
  unfold fracChars
  by_cases hz : ns = 0
  · subst hz
    refine ⟨none, ?_, rfl⟩
    simp only [if_true, List.nil_append]
    apply opt_of_bt
    show (chr '.' rest).bind _ = .bt
    rw [chr_startsNot hd]; rfl
  · refine ⟨some (dropEndWhile (fun c => c == '0') (pad 9 ns)), ?_, fracNs_strip ns h⟩
    simp only [hz, if_false, List.cons_append]
    apply opt_of_ok
    show (chr '.' _).bind _ = _
    rw [chr_eq]; simp only [Res.bind_ok']
    apply cutErr_of_ok
    apply takeMN_upto 1 9 _ _ _ _ (strip_length ns h) _ hr
    · have := strip_ne_nil ns h hz
      exact List.length_pos_iff.mpr this
    · intro c hc
      exact pad_digits 9 ns c (dropEndWhile_sub _ _ c hc)

/-! ### the whole timestamp -/

theorem offsetChars_eq (off : Int) (h : off.natAbs % 60 = 0) (r : List Char) :
    offsetChars off ++ r = (if off < 0 then '-' else '+') :: (pad 2 (off.natAbs / 3600) ++ (':' :: (pad 2 (off.natAbs % 3600 / 60) ++ r))) := by
  unfold offsetChars
  simp only [h, if_true, List.append_nil]
  split <;> simp

/-- **offset** `±HH:MM` -/
theorem pOffset_print (off : Int) (hok : Time.offsetOk off = true) (hm : off.natAbs % 60 = 0) (r : List Char) :
    pOffset (offsetChars off ++ r) = .ok (decide (off < 0), off.natAbs / 3600, off.natAbs % 3600 / 60) r := by
  have hb : off.natAbs ≤ 93599 := by
    simp only [Time.offsetOk, decide_eq_true_eq] at hok; omega
  have hh : off.natAbs / 3600 < 100 := by omega
  have hmm : off.natAbs % 3600 / 60 < 100 := by omega
  have hsum : off.natAbs / 3600 * 3600 + off.natAbs % 3600 / 60 * 60 = off.natAbs := by omega
  rw [offsetChars_eq off hm]
  unfold pOffset
  have hsign : alt (fun s => (chr '+' s).map fun _ => false) (fun s => (chr '-' s).map fun _ => true)
      ((if off < 0 then '-' else '+') :: (pad 2 (off.natAbs / 3600) ++ (':' :: (pad 2 (off.natAbs % 3600 / 60) ++ r)))) =
      .ok (decide (off < 0)) (pad 2 (off.natAbs / 3600) ++ (':' :: (pad 2 (off.natAbs % 3600 / 60) ++ r))) := by
    by_cases hneg : off < 0
    · simp only [hneg, if_true, decide_true]
      rw [alt_of_bt (by show (chr '+' _).map _ = .bt; rw [chr_ne _ (by decide)]; rfl)]
      show (chr '-' _).map _ = _
      rw [chr_eq]; rfl
    · simp only [hneg, if_false, decide_false]
      apply alt_of_ok
      show (chr '+' _).map _ = _
      rw [chr_eq]; rfl
  rw [hsign]; simp only [Res.bind_ok']
  rw [cutErr_of_ok (twoDigits_print _ hh _)]; simp only [Res.bind_ok']
  rw [cutErr_of_ok (lit_one ':' _)]; simp only [Res.bind_ok']
  rw [cutErr_of_ok (twoDigits_print _ hmm _)]; simp only [Res.bind_ok']
  simp only [digits_pad]
  have hoff : ((if decide (off < 0) = true then -1 else 1) * ((off.natAbs / 3600 * 3600 + off.natAbs % 3600 / 60 * 60 : Nat) : Int)) = off := by
    rw [hsum]
    by_cases hneg : off < 0
    · simp [hneg]; omega
    · simp [hneg]; omega
  rw [hoff, hok]; rfl

theorem offsetChars_startsNot (off : Int) (r : List Char) (pred : Char → Bool) (h1 : pred '+' = false) (h2 : pred '-' = false) :
    StartsNot pred (offsetChars off ++ r) := by
  unfold offsetChars
  split <;> simp only [List.cons_append, List.nil_append, List.append_assoc] <;> exact startsNot_cons _ (by assumption)

theorem rfc3339_eq (ts : Ts) (r : List Char) :
    rfc3339 ts ++ r = pad 4 (tsY ts) ++ ('-' :: (pad 2 (tsM ts) ++ ('-' :: (pad 2 (tsD ts) ++ ('T' :: (pad 2 (tsH ts) ++
      (':' :: (pad 2 (tsMi ts) ++ (':' :: (pad 2 (tsS ts) ++ (fracChars (tsNs ts) ++ (offsetChars ts.offset ++ r)))))))))))) := by
  simp [rfc3339, tsY, tsM, tsD, tsH, tsMi, tsS, tsNs]

/-- **timestamp**: the printed RFC 3339 text of a `TsOK` instant parses back to the same instant and offset,
    whatever the configured zone and whatever follows -/
theorem ts_roundtrip (cfg : Time.TsCfg) (ts : Ts) (hok : TsOK ts = true) (r : List Char) :
    parseTimestamp cfg (rfc3339 ts ++ r) = .ok ts r := by
  simp only [TsOK, Bool.and_eq_true, decide_eq_true_eq] at hok
  obtain ⟨⟨⟨⟨⟨⟨⟨hy, hdate⟩, htime⟩, hns⟩, hoff⟩, hmin⟩, hinst⟩, hinv⟩ := hok
  have hdm : tsM ts < 100 ∧ tsD ts < 100 := by
    simp only [Time.dateOk, Bool.and_eq_true, decide_eq_true_eq] at hdate
    have : Time.daysInMonth (tsY ts) (tsM ts) ≤ 31 := by
      unfold Time.daysInMonth; split <;> (try split) <;> omega
    omega
  have ht : tsH ts < 100 ∧ tsMi ts < 100 ∧ tsS ts < 100 := by
    simp only [Time.timeOk, decide_eq_true_eq] at htime; omega
  -- the fraction
  obtain ⟨fr, hfr, hfrv⟩ := frac_print (tsNs ts) hns (offsetChars ts.offset ++ r)
    (offsetChars_startsNot _ _ _ (by decide) (by decide)) (offsetChars_startsNot _ _ _ (by decide) (by decide))
  have hdate' : pDate (pad 4 (tsY ts) ++ ('-' :: (pad 2 (tsM ts) ++ ('-' :: (pad 2 (tsD ts) ++ ('T' :: (pad 2 (tsH ts) ++
      (':' :: (pad 2 (tsMi ts) ++ (':' :: (pad 2 (tsS ts) ++ (fracChars (tsNs ts) ++ (offsetChars ts.offset ++ r))))))))))))) =
      .ok (tsY ts, tsM ts, tsD ts) ('T' :: (pad 2 (tsH ts) ++
      (':' :: (pad 2 (tsMi ts) ++ (':' :: (pad 2 (tsS ts) ++ (fracChars (tsNs ts) ++ (offsetChars ts.offset ++ r)))))))) := by
    unfold pDate
    rw [fourDigits_print _ (by omega) _]; simp only [Res.bind_ok']
    rw [cutErr_of_ok (lit_one '-' _)]; simp only [Res.bind_ok']
    rw [cutErr_of_ok (twoDigits_print _ hdm.1 _)]; simp only [Res.bind_ok']
    rw [cutErr_of_ok (lit_one '-' _)]; simp only [Res.bind_ok']
    rw [cutErr_of_ok (twoDigits_print _ hdm.2 _)]; simp only [Res.bind_ok']
    simp only [digits_pad, hdate, if_true]
  have hdt : pDatetime (pad 4 (tsY ts) ++ ('-' :: (pad 2 (tsM ts) ++ ('-' :: (pad 2 (tsD ts) ++ ('T' :: (pad 2 (tsH ts) ++
      (':' :: (pad 2 (tsMi ts) ++ (':' :: (pad 2 (tsS ts) ++ (fracChars (tsNs ts) ++ (offsetChars ts.offset ++ r))))))))))))) =
      .ok ((tsY ts, tsM ts, tsD ts), (tsH ts, tsMi ts, tsS ts, fr)) (offsetChars ts.offset ++ r) := by
    unfold pDatetime
    rw [hdate']; simp only [Res.bind_ok']
    rw [lit_one 'T' _]; simp only [Res.bind_ok']
    rw [cutErr_of_ok (twoDigits_print _ ht.1 _)]; simp only [Res.bind_ok']
    rw [cutErr_of_ok (lit_one ':' _)]; simp only [Res.bind_ok']
    rw [cutErr_of_ok (twoDigits_print _ ht.2.1 _)]; simp only [Res.bind_ok']
    rw [cutErr_of_ok (lit_one ':' _)]; simp only [Res.bind_ok']
    rw [cutErr_of_ok (twoDigits_print _ ht.2.2 _)]; simp only [Res.bind_ok']
    rw [hfr]; simp only [Res.bind_ok']
    simp only [digits_pad, htime, if_true]
  have hzo : pZuluOrOffset (offsetChars ts.offset ++ r) =
      .ok (some (decide (ts.offset < 0), ts.offset.natAbs / 3600, ts.offset.natAbs % 3600 / 60)) r := by
    unfold pZuluOrOffset
    rw [alt_of_bt (by
      show (chr 'Z' _).map _ = .bt
      rw [chr_startsNot (offsetChars_startsNot _ _ _ (by decide) (by decide))]; rfl)]
    show (pOffset _).map _ = _
    rw [pOffset_print ts.offset hoff hmin r]; rfl
  rw [rfc3339_eq]
  unfold parseTimestamp
  apply alt_of_ok
  unfold parseDatetimeTz
  rw [hdt]; simp only [Res.bind_ok']
  rw [hzo]; simp only [Res.bind_ok']
  -- resolution of the token
  have hb : ts.offset.natAbs ≤ 93599 := by
    simp only [Time.offsetOk, decide_eq_true_eq] at hoff; omega
  have hsum : ts.offset.natAbs / 3600 * 3600 + ts.offset.natAbs % 3600 / 60 * 60 = ts.offset.natAbs := by omega
  have hoffv : ((if decide (ts.offset < 0) = true then -1 else 1) * ((ts.offset.natAbs / 3600 * 3600 + ts.offset.natAbs % 3600 / 60 * 60 : Nat) : Int)) = ts.offset := by
    rw [hsum]
    by_cases hneg : ts.offset < 0
    · simp [hneg]; omega
    · simp [hneg]; omega
  have hres : Time.resolveTs cfg ⟨tsY ts, tsM ts, tsD ts, some (tsH ts, tsMi ts, tsS ts, fr),
      some (some (decide (ts.offset < 0), ts.offset.natAbs / 3600, ts.offset.natAbs % 3600 / 60))⟩ = .ok ts := by
    unfold Time.resolveTs
    simp only [hdate, htime, Bool.not_true, Bool.false_eq_true, if_false]
    rw [hoffv]
    simp only [hoff, Bool.not_true, Bool.false_eq_true, if_false]
    cases fr with
    | none =>
      have e : tsNs ts = 0 := hfrv.symm
      rw [e] at hinv
      simp only []
      rw [hinv]; simp only [hinst, if_true]
    | some ds =>
      have e : Time.fracNs ds = tsNs ts := hfrv
      simp only []
      rw [e, hinv]; simp only [hinst, if_true]
  unfold ofOutcome
  rw [hres]

end Syntax
end Tackler

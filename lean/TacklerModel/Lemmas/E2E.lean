import TacklerModel.Lemmas.RawLex
import TacklerModel.Lemmas.KeyOrder
import TacklerModel.Lemmas.AccountSums
import TacklerModel.Props.C01
import TacklerModel.Props.C12
import TacklerModel.Model.Audit
/-!
# From "this text parses" to the well-formedness hypotheses of the per-stage theorems

Helper lemmas of `Props/E2E.lean`.  Everything here is derived from the per-parser lemmas of `Lemmas/RawLex.lean`
("what a parser returns is lexically well-formed") and the acceptor characterisations of `Props/C12.lean`; nothing
about the configuration of the journal zone is needed (`C06.CfgOK` is only needed for the *timestamp* clause of
`C06.RawLex`, which no theorem below uses).

* `TxnLex r`            – the part of `C06.RawLex r` that does not mention the timestamp: posting lines, the
                          amount-less last posting, the uuid text.
* `parseJournal_lex`    – every parse tree `Syntax.parseJournal` produces satisfies `TxnLex` (any `cfg`), and there
                          is at least one.
* `rawWF_of_lex`        – `TxnLex r → C01.RawWF r` (numbers come from `Dec.ofToken`: scale ≤ 28).
* `goodPath_of_partsWF` – the components of a parsed multi-part name are non-empty and contain no `':'`.
* `accepted_acct_lex`   – every posting of an accepted transaction (the implicit last one included) is to an account
                          that was written in the parse tree, hence a `GoodPath`, non-empty.
* `uuid_no_newline`     – the canonical `8-4-4-4-12` text contains no newline (also after `uuidToString`).
-/
namespace Tackler
namespace E2E
open Comb Syntax KeyOrder

/-! ## names -/

theorem idChar_colon : idChar ':' = false := by decide

theorem idChar_ne_colon (c : Char) (h : idChar c = true) : c ≠ ':' := by
  intro e; subst e; rw [idChar_colon] at h; cases h

theorem idStart_idChar (c : Char) (h : idStartChar c = true) : idChar c = true := by
  simp [idChar, h]

theorem identWF_partWF (l : List Char) (h : IdentWF l) : PartWF l := by
  obtain ⟨c, t, rfl, hc, ht⟩ := h
  refine ⟨by simp, ?_⟩
  intro d hd
  rcases List.mem_cons.mp hd with rfl | hd
  · exact idStart_idChar _ hc
  · exact ht d hd

/-- a name component the grammar produces: not empty, no `':'` -/
theorem partWF_good (l : List Char) (h : PartWF l) :
    String.ofList l ≠ "" ∧ ':' ∉ (String.ofList l).toList := by
  obtain ⟨hne, hall⟩ := h
  constructor
  · intro e
    have := congrArg String.toList e
    rw [String.toList_ofList] at this
    exact hne (by simpa using this)
  · rw [String.toList_ofList]
    intro hm
    exact idChar_ne_colon _ (hall _ hm) rfl

/-- **names**: the path of a parsed multi-part name has non-empty components without `':'`, and is not empty -/
theorem goodPath_of_partsWF (parts : List (List Char)) (h : PartsWF parts) :
    GoodPath (toPath parts) ∧ toPath parts ≠ [] := by
  obtain ⟨a, r, rfl, ha, hr⟩ := h
  refine ⟨?_, by simp [toPath]⟩
  intro c hc
  simp only [toPath, List.map_cons, List.mem_cons, List.mem_map] at hc
  rcases hc with rfl | ⟨p, hp, rfl⟩
  · exact partWF_good a (identWF_partWF a ha)
  · exact partWF_good p (hr p hp)

/-- an account as the grammar writes it -/
def AcctLex (a : Path) : Prop := ∃ parts, PartsWF parts ∧ a = toPath parts ∧ acctOk parts = true

theorem AcctLex.good {a : Path} (h : AcctLex a) : GoodPath a ∧ a ≠ [] := by
  obtain ⟨parts, hp, rfl, _⟩ := h
  exact goodPath_of_partsWF parts hp

/-! ## the timestamp-free part of `C06.RawLex` -/

/-- lexical well-formedness of a parse tree, without the timestamp clause (so without `C06.CfgOK`) -/
structure TxnLex (r : RawTxn) : Prop where
  posts : ∀ rp ∈ r.posts, PostLex rp
  posts_ne : r.posts ≠ []
  last : ∀ a c, r.last = some (a, c) → AcctLex a ∧ (∀ x, c = some x → LineText x.toList)
  uuid : ∀ u, r.header.uuid = some u → UuidWF u.toList

/-- the uuid of a parsed header is the canonical text (no hypothesis on the journal zone) -/
theorem parseTxnHeader_uuid (cfg : Time.TsCfg) {s r : List Char} {h : Header}
    (hp : parseTxnHeader cfg s = .ok h r) : ∀ u, h.uuid = some u → UuidWF u.toList := by
  unfold parseTxnHeader at hp
  obtain ⟨ts, s1, _, hp⟩ := (Res.bind_ok _ _ _ _).mp hp
  obtain ⟨code, s2, _, hp⟩ := (Res.bind_ok _ _ _ _).mp hp
  obtain ⟨desc, s3, _, hp⟩ := (Res.bind_ok _ _ _ _).mp hp
  obtain ⟨_, s4, _, hp⟩ := (Res.bind_ok _ _ _ _).mp hp
  obtain ⟨m, s5, hm, hp⟩ := (Res.bind_ok _ _ _ _).mp hp
  obtain ⟨comments, s6, _, hp⟩ := (Res.bind_ok _ _ _ _).mp hp
  cases hp
  intro u hu
  simp only at hu
  rcases opt_ok hm with ⟨y, e, hy⟩ | ⟨e, _⟩
  · subst e
    exact (parseTxnMeta_ok_wf hy).uuid u hu
  · subst e
    cases hu

theorem parseTxn_lex (cfg : Time.TsCfg) {s r : List Char} {t : RawTxn}
    (hp : parseTxn cfg s = .ok t r) : TxnLex t := by
  unfold parseTxn at hp
  obtain ⟨h, s1, hh, hp⟩ := (Res.bind_ok _ _ _ _).mp hp
  obtain ⟨ps, s2, hps, hp⟩ := (Res.bind_ok _ _ _ _).mp hp
  obtain ⟨_, s3, _, hp⟩ := (Res.bind_ok _ _ _ _).mp hp
  cases hp
  obtain ⟨hne, hall, hlast⟩ := parseTxnPostings_ok_wf (ps := ps.1) (last := ps.2) (cutErr_ok hps)
  exact ⟨hall, hne, hlast, parseTxnHeader_uuid cfg (cutErr_ok hh)⟩

/-- **`TxnLex` of the parser's output**, for every journal zone configuration: there is at least one parse tree and
    every one is lexically well-formed -/
theorem parseJournal_lex (cfg : Time.TsCfg) (text : List Char) (rs : List RawTxn)
    (hp : parseJournal cfg text = some rs) : rs ≠ [] ∧ ∀ r ∈ rs, TxnLex r := by
  unfold parseJournal at hp
  split at hp
  · rename_i ts hts
    cases hp
    unfold parseTxns at hts
    obtain ⟨_, s1, _, h1⟩ := (Res.bind_ok _ _ _ _).mp hts
    exact repeatTill1_all (parseTxn cfg) eof TxnLex (fun _ _ _ e => parseTxn_lex cfg e) h1
  · cases hp
  · cases hp
  · cases hp

/-! ## numbers: `C01.RawWF` -/

theorem rawPostingWF_of_postLex (rp : RawPosting) (h : PostLex rp) : C01.RawPostingWF rp := by
  refine ⟨h.amount.1, ?_⟩
  cases hu : rp.unit with
  | none => trivial
  | some u =>
    simp only
    cases hc : u.closing with
    | none => trivial
    | some cl =>
      cases cl with
      | unitPrice v => exact ((h.unit u hu).2.2 v (.inr hc)).2.2.1
      | total v => exact ((h.unit u hu).2.2 v (.inl hc)).2.2.1

/-- **numbers**: every number of a parse tree has at most 28 decimals, which is C01's `RawWF` -/
theorem rawWF_of_lex (r : RawTxn) (h : TxnLex r) : C01.RawWF r :=
  fun rp hrp => rawPostingWF_of_postLex rp (h.posts rp hrp)

/-! ## accounts of accepted postings -/

/-- every posting of an accepted transaction is to an account the parse tree names: that of one of its posting
    lines or that of the amount-less last posting -/
theorem accepted_acct_origin (st st' : Settings) (r : RawTxn) (t : Txn) (h : acceptTxn st r = .ok (t, st')) :
    ∀ p ∈ t.posts, (∃ rp ∈ r.posts, p.acct = rp.acct) ∨ (∃ c, r.last = some (p.acct, c)) := by
  obtain ⟨s1, ps, _, h2, rfl, _⟩ := (C12.acceptTxn_ok _ _ _ _).mp h
  obtain ⟨p0, rest, s2, hm, hcase⟩ := (C12.acceptPostings_ok _ _ _ _ _).mp h2
  have hmain : ∀ p ∈ p0 :: rest, ∃ rp ∈ r.posts, p.acct = rp.acct := by
    intro p hp
    obtain ⟨rp, hrp, sa, sb, hh⟩ := mapMS_ok handlePosting r.posts s1 s2 (p0 :: rest) hm p hp
    exact ⟨rp, hrp, (C12.handlePosting_txnComm _ _ _ _ hh).1⟩
  intro p hp
  rcases hcase with ⟨_, rfl, _⟩ | ⟨a, cmt, sm, a', l, hl, _, hg, hmk, rfl⟩
  · exact .inl (hmain p hp)
  · rcases List.mem_append.mp hp with hp | hp
    · exact .inl (hmain p hp)
    · have e : p = l := List.mem_singleton.mp hp
      subst e
      have e2 := C12.mkPosting_eq _ _ hmk
      subst e2
      have hab : a' = a := ((C12.gocta_ok s2 a p0.txnComm a').mp ⟨_, hg⟩).1
      exact .inr ⟨cmt, by rw [hl, hab]⟩

/-- … hence it is an account as the grammar writes it -/
theorem accepted_acct_lex (st st' : Settings) (r : RawTxn) (t : Txn) (hl : TxnLex r)
    (h : acceptTxn st r = .ok (t, st')) : ∀ p ∈ t.posts, AcctLex p.acct := by
  intro p hp
  rcases accepted_acct_origin st st' r t h p hp with ⟨rp, hrp, e⟩ | ⟨c, hc⟩
  · rw [e]; exact (hl.posts rp hrp).acct
  · exact (hl.last _ _ hc).1

/-! ## uuid texts -/

theorem lowerHex_toLower (c : Char) (h : isLowerHex c = true) : c.toLower = c := by
  apply toLower_of_not_upper
  simp only [isLowerHex, isDecDigit, Bool.or_eq_true, Bool.and_eq_true, decide_eq_true_eq] at h
  omega

theorem lowerHex_ne_nl (c : Char) (h : isLowerHex c = true) : c ≠ '\n' := by
  intro e; subst e; revert h; decide

/-- the characters of a canonical uuid text: lower-case hex digits and `'-'` -/
theorem uuidWF_chars (u : List Char) (h : UuidWF u) : ∀ x ∈ u, isLowerHex x = true ∨ x = '-' := by
  obtain ⟨a, b, c, d, e, rfl, _, _, _, _, _, hx⟩ := h
  intro x hm
  simp only [List.mem_append, List.mem_cons] at hm hx
  rcases hm with h1 | rfl | h1 | rfl | h1 | rfl | h1 | rfl | h1
  · exact .inl (hx x (.inl (.inl (.inl (.inl h1)))))
  · exact .inr rfl
  · exact .inl (hx x (.inl (.inl (.inl (.inr h1)))))
  · exact .inr rfl
  · exact .inl (hx x (.inl (.inl (.inr h1))))
  · exact .inr rfl
  · exact .inl (hx x (.inl (.inr h1)))
  · exact .inr rfl
  · exact .inl (hx x (.inr h1))

theorem uuidWF_length (u : List Char) (h : UuidWF u) : u.length = 36 := by
  obtain ⟨a, b, c, d, e, rfl, la, lb, lc, ld, le, _⟩ := h
  simp [la, lb, lc, ld, le]

/-- **uuid**: a canonical uuid text contains no newline … -/
theorem uuidWF_no_newline (u : List Char) (h : UuidWF u) : '\n' ∉ u := by
  intro hm
  rcases uuidWF_chars u h _ hm with h1 | h1
  · exact lowerHex_ne_nl _ h1 rfl
  · revert h1; decide

/-- … and `Uuid::to_string` is the identity on it -/
theorem uuidToString_canonical (u : String) (h : UuidWF u.toList) : uuidToString u = u := by
  unfold uuidToString
  have : u.toList.map Char.toLower = u.toList.map id := by
    apply List.map_congr_left
    intro x hx
    rcases uuidWF_chars _ h x hx with h1 | rfl
    · exact lowerHex_toLower x h1
    · decide
  rw [this, List.map_id, String.ofList_toList]

end E2E
end Tackler

import TacklerModel.Model.Time
/-!
# Lemmas about `Model/Time`

* `civil_roundtrip`, `days_roundtrip`: `daysFromCivil` and `civilFromDays` are mutually inverse — for every year
  (also negative) and every valid date, resp. every day number — and `civilFromDays` only yields valid dates.
  The argument is finite-free: both functions factor through `buildDays era yoe mp d` (era of 400 years, year of era,
  March-based month index, day); the two decoding steps (`yoe_roundtrip`/`yoe_decode`, `mp_roundtrip`) are linear
  integer arithmetic with divisions by literals, closed by `omega` after naming the century.
* `civilAt_civilNs`: an instant built from civil fields and an offset shows those fields at that offset.
* fraction scaling, ISO week dates.
-/
namespace Tackler
namespace Time

theorem isLeap_iff (y : Int) : isLeap y = true ↔ ((y % 4 = 0 ∧ y % 100 ≠ 0) ∨ y % 400 = 0) := by
  simp [isLeap]

/-! ### the two decoding steps of Hinnant's algorithm -/

theorem yoe_roundtrip (yoe doy doe : Int) (_h0 : 0 ≤ yoe) (_h1 : yoe ≤ 399) (_hd0 : 0 ≤ doy)
    (hd : doy ≤ 364 ∨ (doy = 365 ∧ yoe % 4 = 3 ∧ (yoe % 100 ≠ 99 ∨ yoe = 399)))
    (hdoe : doe = yoe * 365 + yoe / 4 - yoe / 100 + doy) :
    (doe - doe / 1460 + doe / 36524 - doe / 146096) / 365 = yoe := by
  have hc : yoe / 100 = 0 ∨ yoe / 100 = 1 ∨ yoe / 100 = 2 ∨ yoe / 100 = 3 := by omega
  have hf : doe / 1460 = yoe / 4 ∨ doe / 1460 = yoe / 4 + 1 := by omega
  have hg : doe / 36524 = yoe / 100 ∨ doe = 146096 := by
    rcases hc with hc | hc | hc | hc <;> omega
  have hh : doe / 146096 = 0 ∨ doe = 146096 := by omega
  rcases hc with hc | hc | hc | hc <;> rcases hf with hf | hf <;> rcases hg with hg | hg <;>
    rcases hh with hh | hh <;> omega

theorem yoe_decode (doe yoe : Int) (h0 : 0 ≤ doe) (h1 : doe ≤ 146096)
    (hy : yoe = (doe - doe / 1460 + doe / 36524 - doe / 146096) / 365) :
    0 ≤ yoe ∧ yoe ≤ 399 ∧ 0 ≤ doe - (365 * yoe + yoe / 4 - yoe / 100) ∧
    (doe - (365 * yoe + yoe / 4 - yoe / 100) ≤ 364 ∨
      (doe - (365 * yoe + yoe / 4 - yoe / 100) = 365 ∧ yoe % 4 = 3 ∧ (yoe % 100 ≠ 99 ∨ yoe = 399))) := by
  have hg : doe / 36524 = 0 ∨ doe / 36524 = 1 ∨ doe / 36524 = 2 ∨ doe / 36524 = 3 ∨ doe / 36524 = 4 := by omega
  have hh : doe / 146096 = 0 ∨ doe / 146096 = 1 := by omega
  have hc : yoe / 100 = doe / 36524 ∨ (doe / 36524 = 4 ∧ yoe = 399) ∨ (yoe / 100 + 1 = doe / 36524) := by
    rcases hg with hg | hg | hg | hg | hg <;> rcases hh with hh | hh <;> omega
  rcases hg with hg | hg | hg | hg | hg <;> rcases hh with hh | hh <;> rcases hc with hc | hc | hc <;> omega

theorem mp_roundtrip (mp d doy : Int) (_h0 : 0 ≤ mp) (_h1 : mp ≤ 11) (hd1 : 1 ≤ d)
    (hd : d ≤ (153 * (mp + 1) + 2) / 5 - (153 * mp + 2) / 5) (hdoy : doy = (153 * mp + 2) / 5 + d - 1) :
    (5 * doy + 2) / 153 = mp := by
  omega

/-! ### both functions factor through `buildDays` -/

/-- the day number of (era, year of era, March-based month index, day of month) -/
def buildDays (era yoe mp d : Int) : Int :=
  era * 146097 + (yoe * 365 + yoe / 4 - yoe / 100 + ((153 * mp + 2) / 5 + d - 1)) - 719468

/-- the side conditions under which `buildDays` corresponds to a valid civil date: year of era 0…399, month index
    0…11 (0 = March), day within the month's length, and day-of-year 365 (Feb 29) only when the *next* civil year
    is a leap year -/
def BuildOk (yoe mp d : Int) : Prop :=
  0 ≤ yoe ∧ yoe ≤ 399 ∧ 0 ≤ mp ∧ mp ≤ 11 ∧ 1 ≤ d ∧ d ≤ (153 * (mp + 1) + 2) / 5 - (153 * mp + 2) / 5 ∧
  ((153 * mp + 2) / 5 + d - 1 ≤ 364 ∨
    ((153 * mp + 2) / 5 + d - 1 = 365 ∧ yoe % 4 = 3 ∧ (yoe % 100 ≠ 99 ∨ yoe = 399)))

/-- civil month of a March-based month index -/
def monthOf (mp : Int) : Int := if mp < 10 then mp + 3 else mp - 9

/-- civil year of (era, year of era, month index) -/
def yearOf (era yoe mp : Int) : Int := if monthOf mp ≤ 2 then yoe + era * 400 + 1 else yoe + era * 400

theorem civilFromDays_build (era yoe mp d : Int) (h : BuildOk yoe mp d) :
    civilFromDays (buildDays era yoe mp d) = (yearOf era yoe mp, (monthOf mp).toNat, d.toNat) := by
  obtain ⟨h0, h1, hm0, hm1, hd1, hd, hleap⟩ := h
  unfold buildDays yearOf monthOf
  generalize hdoy : (153 * mp + 2) / 5 + d - 1 = doy at hleap
  generalize hdoe : yoe * 365 + yoe / 4 - yoe / 100 + doy = doe
  have hdoy0 : 0 ≤ doy := by omega
  have hyoe := yoe_roundtrip yoe doy doe h0 h1 hdoy0 hleap hdoe.symm
  have hmp := mp_roundtrip mp d doy hm0 hm1 hd1 hd hdoy.symm
  have hdoe0 : 0 ≤ doe ∧ doe ≤ 146096 := by
    rcases hleap with hl | hl <;> omega
  simp only [civilFromDays]
  have hz : era * 146097 + doe - 719468 + 719468 = era * 146097 + doe := by omega
  rw [hz]
  have he : (era * 146097 + doe) / 146097 = era := by omega
  rw [he]
  have hd2 : era * 146097 + doe - era * 146097 = doe := by omega
  rw [hd2, hyoe]
  have hdy : doe - (365 * yoe + yoe / 4 - yoe / 100) = doy := by omega
  rw [hdy, hmp]
  have hdd : doy - (153 * mp + 2) / 5 + 1 = d := by omega
  rw [hdd]

theorem exists_build (z : Int) : ∃ era yoe mp d, BuildOk yoe mp d ∧ z = buildDays era yoe mp d := by
  generalize hera : (z + 719468) / 146097 = era
  generalize hdoe : z + 719468 - era * 146097 = doe
  have hdoe0 : 0 ≤ doe ∧ doe ≤ 146096 := by omega
  have hz : z = era * 146097 + doe - 719468 := by omega
  clear hera hdoe
  generalize hyoe : (doe - doe / 1460 + doe / 36524 - doe / 146096) / 365 = yoe
  obtain ⟨hy0, hy1, hd0, hleap⟩ := yoe_decode doe yoe hdoe0.1 hdoe0.2 hyoe.symm
  clear hyoe
  generalize hdoy : doe - (365 * yoe + yoe / 4 - yoe / 100) = doy at hd0 hleap
  have hdoe' : doe = yoe * 365 + yoe / 4 - yoe / 100 + doy := by omega
  clear hdoy
  refine ⟨era, yoe, (5 * doy + 2) / 153, doy - (153 * ((5 * doy + 2) / 153) + 2) / 5 + 1, ?_, ?_⟩
  · unfold BuildOk
    rcases hleap with h | h <;> omega
  · unfold buildDays
    omega

theorem daysFromCivil_build (era yoe mp d : Int) (h : BuildOk yoe mp d) :
    daysFromCivil (yearOf era yoe mp) (monthOf mp).toNat d.toNat = buildDays era yoe mp d ∧
    1 ≤ (monthOf mp).toNat ∧ (monthOf mp).toNat ≤ 12 ∧ 1 ≤ d.toNat ∧
    d.toNat ≤ daysInMonth (yearOf era yoe mp) (monthOf mp).toNat := by
  obtain ⟨h0, h1, hm0, hm1, hd1, hd, hleap⟩ := h
  have hcases : mp = 0 ∨ mp = 1 ∨ mp = 2 ∨ mp = 3 ∨ mp = 4 ∨ mp = 5 ∨ mp = 6 ∨ mp = 7 ∨ mp = 8 ∨ mp = 9 ∨
      mp = 10 ∨ mp = 11 := by omega
  have hl := isLeap_iff (yoe + era * 400 + 1)
  rcases hcases with rfl | rfl | rfl | rfl | rfl | rfl | rfl | rfl | rfl | rfl | rfl | rfl
  all_goals
    simp [yearOf, monthOf, buildDays, daysFromCivil, daysInMonth, hl]
    refine ⟨?_, ?_, ?_⟩ <;> (try split) <;> omega

/-! ### the round trips -/

theorem daysFromCivil_eq_build (y : Int) (m d : Nat) :
    daysFromCivil y m d =
      buildDays ((if m ≤ 2 then y - 1 else y) / 400)
        ((if m ≤ 2 then y - 1 else y) - (if m ≤ 2 then y - 1 else y) / 400 * 400)
        (if m > 2 then (m : Int) - 3 else (m : Int) + 9) d := rfl

/-- `civilFromDays` inverts `daysFromCivil` on every valid date of every year -/
theorem civil_roundtrip (y : Int) (m d : Nat) (hm : 1 ≤ m ∧ m ≤ 12) (hd : 1 ≤ d ∧ d ≤ daysInMonth y m) :
    civilFromDays (daysFromCivil y m d) = (y, m, d) := by
  have hcases : m = 1 ∨ m = 2 ∨ m = 3 ∨ m = 4 ∨ m = 5 ∨ m = 6 ∨ m = 7 ∨ m = 8 ∨ m = 9 ∨ m = 10 ∨ m = 11 ∨
      m = 12 := by omega
  have hl := isLeap_iff y
  rw [daysFromCivil_eq_build]
  rcases hcases with rfl | rfl | rfl | rfl | rfl | rfl | rfl | rfl | rfl | rfl | rfl | rfl
  all_goals
    simp only [daysInMonth, hl] at hd
    rw [civilFromDays_build]
    · simp [yearOf, monthOf] <;> omega
    · simp [BuildOk]
      (try split at hd) <;> omega

/-- `daysFromCivil` inverts `civilFromDays` on every day number, and `civilFromDays` only yields valid dates -/
theorem days_roundtrip (z : Int) :
    daysFromCivil (civilFromDays z).1 (civilFromDays z).2.1 (civilFromDays z).2.2 = z ∧
    1 ≤ (civilFromDays z).2.1 ∧ (civilFromDays z).2.1 ≤ 12 ∧ 1 ≤ (civilFromDays z).2.2 ∧
    (civilFromDays z).2.2 ≤ daysInMonth (civilFromDays z).1 (civilFromDays z).2.1 := by
  obtain ⟨era, yoe, mp, d, hok, rfl⟩ := exists_build z
  rw [civilFromDays_build era yoe mp d hok]
  exact daysFromCivil_build era yoe mp d hok

/-- `daysFromCivil` is injective on valid dates -/
theorem daysFromCivil_inj (y₁ y₂ : Int) (m₁ d₁ m₂ d₂ : Nat) (hm₁ : 1 ≤ m₁ ∧ m₁ ≤ 12)
    (hd₁ : 1 ≤ d₁ ∧ d₁ ≤ daysInMonth y₁ m₁) (hm₂ : 1 ≤ m₂ ∧ m₂ ≤ 12) (hd₂ : 1 ≤ d₂ ∧ d₂ ≤ daysInMonth y₂ m₂)
    (h : daysFromCivil y₁ m₁ d₁ = daysFromCivil y₂ m₂ d₂) : (y₁, m₁, d₁) = (y₂, m₂, d₂) := by
  rw [← civil_roundtrip y₁ m₁ d₁ hm₁ hd₁, ← civil_roundtrip y₂ m₂ d₂ hm₂ hd₂, h]

/-! ### instants ⇄ civil fields -/


theorem civilAt_of_parts (D : Int) (T sub : Nat) (off : Int) (hT : T < 86400) (hs : sub < 1000000000) :
    civilAt ((D * 86400 + (T : Int)) * 1000000000 + (sub : Int) - off * 1000000000) off =
      ((civilFromDays D).1, (civilFromDays D).2.1, (civilFromDays D).2.2, T / 3600, T % 3600 / 60, T % 60, sub) := by
  simp only [civilAt]
  have h1 : ((D * 86400 + (T : Int)) * 1000000000 + (sub : Int) - off * 1000000000 + off * 1000000000) / 1000000000
      = D * 86400 + T := by omega
  rw [h1]
  have h2 : (D * 86400 + (T : Int)) / 86400 = D := by omega
  rw [h2]
  have h3 : (D * 86400 + (T : Int)) * 1000000000 + (sub : Int) - off * 1000000000 + off * 1000000000
      - (D * 86400 + (T : Int)) * 1000000000 = sub := by omega
  rw [h3]
  have h4 : D * 86400 + (T : Int) - D * 86400 = T := by omega
  rw [h4]
  have e1 : ((T : Int) / 3600).toNat = T / 3600 := by omega
  have e2 : ((T : Int) % 3600 / 60).toNat = T % 3600 / 60 := by omega
  have e3 : ((T : Int) % 60).toNat = T % 60 := by omega
  have e4 : ((sub : Nat) : Int).toNat = sub := by omega
  rw [e1, e2, e3, e4]

/-- round trip: the instant built from civil fields and an offset shows exactly those fields at that offset -/
theorem civilAt_civilNs (y m d h mi s sub : Nat) (off : Int) (hm : 1 ≤ m ∧ m ≤ 12)
    (hd : 1 ≤ d ∧ d ≤ daysInMonth y m) (hh : h ≤ 23) (hmi : mi ≤ 59) (hs : s ≤ 59) (hsub : sub < 1000000000) :
    civilAt (civilNs y m d h mi s sub - off * 1000000000) off = ((y : Int), m, d, h, mi, s, sub) := by
  unfold civilNs
  rw [civilAt_of_parts _ _ _ _ (by omega) hsub, civil_roundtrip _ _ _ hm hd]
  have e1 : (h * 3600 + mi * 60 + s) / 3600 = h := by omega
  have e2 : (h * 3600 + mi * 60 + s) % 3600 / 60 = mi := by omega
  have e3 : (h * 3600 + mi * 60 + s) % 60 = s := by omega
  rw [e1, e2, e3]

/-- the civil fields of any instant at any offset are valid and rebuild the local time -/
theorem civilNs_civilAt (ns off : Int) (y : Int) (m d h mi s sub : Nat)
    (hc : civilAt ns off = (y, m, d, h, mi, s, sub)) :
    1 ≤ m ∧ m ≤ 12 ∧ 1 ≤ d ∧ d ≤ daysInMonth y m ∧ h ≤ 23 ∧ mi ≤ 59 ∧ s ≤ 59 ∧ sub < 1000000000 ∧
    (daysFromCivil y m d * 86400 + ((h * 3600 + mi * 60 + s : Nat) : Int)) * 1000000000 + (sub : Int)
      = ns + off * 1000000000 := by
  simp only [civilAt] at hc
  generalize hloc : ns + off * 1000000000 = loc at hc
  generalize hsecs : loc / 1000000000 = secs at hc
  generalize hdays : secs / 86400 = days at hc
  have hr := days_roundtrip days
  generalize civilFromDays days = cd at hc hr
  obtain ⟨cy, cm, cdd⟩ := cd
  simp only [Prod.mk.injEq] at hc
  obtain ⟨rfl, rfl, rfl, rfl, rfl, rfl, rfl⟩ := hc
  obtain ⟨hr1, hr2, hr3, hr4, hr5⟩ := hr
  simp only at hr1 hr2 hr3 hr4 hr5
  refine ⟨hr2, hr3, hr4, hr5, ?_, ?_, ?_, ?_, ?_⟩ <;> omega


/-- the local day number of an instant at a fixed offset (for period keys: C13) -/
def localDays (ns off : Int) : Int := (ns + off * 1000000000) / 1000000000 / 86400

/-- the date shown for an instant at a fixed offset is the civil date of its local day number -/
theorem civilAt_date (ns off : Int) :
    ((civilAt ns off).1, (civilAt ns off).2.1, (civilAt ns off).2.2.1) = civilFromDays (localDays ns off) := by
  simp only [civilAt, localDays]

/-- at a fixed offset the local day number is monotone in the instant -/
theorem localDays_mono (ns ns' off : Int) (h : ns ≤ ns') : localDays ns off ≤ localDays ns' off := by
  unfold localDays
  omega

/-! ### fraction digits -/

open Dec


/-! ### digits -/

theorem digitsVal_append_single (l : List Char) (c : Char) :
    digitsVal (l ++ [c]) = digitsVal l * 10 + digitVal c := by
  simp [digitsVal, List.foldl_append]

theorem digitsVal_append_zeros (l : List Char) (j : Nat) :
    digitsVal (l ++ List.replicate j '0') = digitsVal l * 10 ^ j := by
  induction j with
  | zero => simp
  | succ j ih =>
    rw [List.replicate_succ', ← List.append_assoc, digitsVal_append_single, ih]
    have : digitVal '0' = 0 := by decide
    rw [this, Nat.pow_succ]
    simp [Nat.mul_assoc]

theorem digitVal_lt (c : Char) (h : isDig c = true) : digitVal c < 10 := by
  simp [isDig] at h
  unfold digitVal
  have h1 : c.toNat ≤ '9'.toNat := h.2
  have : '9'.toNat = 57 := by decide
  have : '0'.toNat = 48 := by decide
  omega

theorem foldl_digits (l : List Char) (acc : Nat) :
    l.foldl (fun acc c => acc * 10 + digitVal c) acc = acc * 10 ^ l.length + digitsVal l := by
  induction l generalizing acc with
  | nil => simp [digitsVal]
  | cons c t ih =>
    simp only [List.foldl_cons, List.length_cons, digitsVal]
    rw [ih, ih (0 * 10 + digitVal c)]
    simp only [Nat.pow_succ, Nat.zero_mul, Nat.zero_add]
    generalize 10 ^ t.length = p
    rw [Nat.add_mul, Nat.mul_assoc, Nat.mul_comm 10 p, Nat.add_assoc]

theorem digitsVal_lt (l : List Char) (h : ∀ c ∈ l, isDig c = true) : digitsVal l < 10 ^ l.length := by
  induction l with
  | nil => simp [digitsVal]
  | cons c t ih =>
    have hc := digitVal_lt c (h c List.mem_cons_self)
    have ht := ih (fun x hx => h x (List.mem_cons_of_mem _ hx))
    simp only [digitsVal, List.foldl_cons, List.length_cons]
    rw [foldl_digits]
    simp only [Nat.zero_mul, Nat.zero_add, Nat.pow_succ]
    have : digitVal c * 10 ^ t.length + digitsVal t < 10 * 10 ^ t.length := by
      have h2 : digitVal c * 10 ^ t.length ≤ 9 * 10 ^ t.length := Nat.mul_le_mul_right _ (by omega)
      omega
    omega



/-- the decimal digit character of `r < 10` -/
def digitChar (r : Nat) : Char := Char.ofNat (48 + r)

theorem digitVal_digitChar (r : Nat) (h : r < 10) : digitVal (digitChar r) = r := by
  have : r = 0 ∨ r = 1 ∨ r = 2 ∨ r = 3 ∨ r = 4 ∨ r = 5 ∨ r = 6 ∨ r = 7 ∨ r = 8 ∨ r = 9 := by omega
  rcases this with rfl | rfl | rfl | rfl | rfl | rfl | rfl | rfl | rfl | rfl <;> decide

theorem isDig_digitChar (r : Nat) (h : r < 10) : isDig (digitChar r) = true := by
  have : r = 0 ∨ r = 1 ∨ r = 2 ∨ r = 3 ∨ r = 4 ∨ r = 5 ∨ r = 6 ∨ r = 7 ∨ r = 8 ∨ r = 9 := by omega
  rcases this with rfl | rfl | rfl | rfl | rfl | rfl | rfl | rfl | rfl | rfl <;> decide

/-- exactly `k` decimal digits of `n` (the low-order ones) -/
def digitsOf : Nat → Nat → List Char
  | 0, _ => []
  | k + 1, n => digitsOf k (n / 10) ++ [digitChar (n % 10)]

theorem length_digitsOf (k n : Nat) : (digitsOf k n).length = k := by
  induction k generalizing n with
  | zero => rfl
  | succ k ih => simp [digitsOf, ih]

theorem digitsVal_digitsOf (k n : Nat) : digitsVal (digitsOf k n) = n % 10 ^ k := by
  induction k generalizing n with
  | zero => simp [digitsOf, digitsVal, Nat.mod_one]
  | succ k ih =>
    simp only [digitsOf]
    rw [digitsVal_append_single, ih, digitVal_digitChar _ (Nat.mod_lt _ (by omega))]
    rw [Nat.pow_succ, Nat.mul_comm (10 ^ k) 10, Nat.mod_mul]
    omega

theorem fracNs_digitsOf (sub : Nat) (h : sub < 1000000000) : fracNs (digitsOf 9 sub) = sub := by
  unfold fracNs
  rw [digitsVal_digitsOf, length_digitsOf]
  simp
  omega


/-! ### ISO-8601 week dates -/


theorem weekdayIdx_range (z : Int) : 0 ≤ weekdayIdx z ∧ weekdayIdx z ≤ 6 := by
  unfold weekdayIdx; omega

theorem isoWeekStart_monday (y : Int) : weekdayIdx (isoWeekStart y) = 0 := by
  unfold isoWeekStart weekdayIdx; simp only; omega

theorem jan_day (y : Int) (k : Nat) : daysFromCivil y 1 (1 + k) = daysFromCivil y 1 1 + k := by
  simp only [daysFromCivil]; omega

theorem jan1_succ (y : Int) :
    daysFromCivil (y + 1) 1 1 - daysFromCivil y 1 1 = 365 ∨ daysFromCivil (y + 1) 1 1 - daysFromCivil y 1 1 = 366 := by
  simp only [daysFromCivil]
  simp
  have hc : y % 400 = 0 ∨ y % 400 ≠ 0 := by omega
  rcases hc with hc | hc <;> omega

theorem isoWeekStart_near (y : Int) :
    daysFromCivil y 1 1 - 3 ≤ isoWeekStart y ∧ isoWeekStart y ≤ daysFromCivil y 1 1 + 3 := by
  have h := jan_day y 3
  unfold isoWeekStart weekdayIdx
  simp only
  have e : daysFromCivil y 1 4 = daysFromCivil y 1 1 + 3 := by simpa using h
  rw [e]; omega

theorem isoWeekStart_step (y : Int) :
    isoWeekStart (y + 1) - isoWeekStart y = 364 ∨ isoWeekStart (y + 1) - isoWeekStart y = 371 := by
  have h1 := isoWeekStart_near y
  have h2 := isoWeekStart_near (y + 1)
  have h3 := jan1_succ y
  have m1 := isoWeekStart_monday y
  have m2 := isoWeekStart_monday (y + 1)
  unfold weekdayIdx at m1 m2
  omega

/-- a day number within January of year `Y` decodes to year `Y` -/
theorem year_of_jan_day (Y z : Int) (h : daysFromCivil Y 1 1 ≤ z ∧ z ≤ daysFromCivil Y 1 1 + 30) :
    (civilFromDays z).1 = Y := by
  obtain ⟨k, hk⟩ : ∃ k : Nat, z = daysFromCivil Y 1 1 + k := ⟨(z - daysFromCivil Y 1 1).toNat, by omega⟩
  have hk30 : k ≤ 30 := by omega
  rw [hk, ← jan_day, civil_roundtrip Y 1 (1 + k) (by omega) (by simp [daysInMonth]; omega)]

/-- the Thursday of ISO week 1 of year `Y` lies in January of `Y` -/
theorem isoYear_of_start (Y : Int) : (civilFromDays (isoWeekStart Y + 3)).1 = Y := by
  have h := isoWeekStart_near Y
  exact year_of_jan_day Y _ (by omega)

/-- what `isoWeekOfDays` computes for a day of civil year `year`: week 1…53, weekday 1…7, an ISO year within one of
    the civil year, and the day is the `(weekday − 1)`-th day of the `(week − 1)`-th week after the Monday of week 1
    of that ISO year -/
theorem isoWeekOfDays_spec (year days : Int)
    (hin : daysFromCivil year 1 1 ≤ days ∧ days < daysFromCivil (year + 1) 1 1) :
    1 ≤ (isoWeekOfDays year days).2.1 ∧ (isoWeekOfDays year days).2.1 ≤ 53 ∧
    1 ≤ (isoWeekOfDays year days).2.2 ∧ (isoWeekOfDays year days).2.2 ≤ 7 ∧
    ((isoWeekOfDays year days).1 = year - 1 ∨ (isoWeekOfDays year days).1 = year ∨
      (isoWeekOfDays year days).1 = year + 1) ∧
    days = isoWeekStart (isoWeekOfDays year days).1 + ((isoWeekOfDays year days).2.1 - 1) * 7 +
      ((isoWeekOfDays year days).2.2 - 1) := by
  have n0 := isoWeekStart_near year
  have n1 := isoWeekStart_near (year + 1)
  have s0 := isoWeekStart_step year
  have s1 := isoWeekStart_step (year - 1)
  have e1 : year - 1 + 1 = year := by omega
  rw [e1] at s1
  have y0 := jan1_succ year
  have m := isoWeekStart_monday
  have wd := weekdayIdx_range days
  simp only [isoWeekOfDays]
  split
  · rename_i hlt
    rw [isoYear_of_start]
    have mm := m (year - 1)
    unfold weekdayIdx at mm wd ⊢
    simp only
    refine ⟨?_, ?_, ?_, ?_, ?_, ?_⟩ <;> first | omega | simp
  · split
    · rename_i hge hge2
      rw [isoYear_of_start]
      have mm := m (year + 1)
      unfold weekdayIdx at mm wd ⊢
      simp only
      refine ⟨?_, ?_, ?_, ?_, ?_, ?_⟩ <;> first | omega | simp
    · rename_i hge hlt
      rw [isoYear_of_start]
      have mm := m year
      unfold weekdayIdx at mm wd ⊢
      simp only
      refine ⟨?_, ?_, ?_, ?_, ?_, ?_⟩ <;> first | omega | simp


end Time
end Tackler

import TacklerModel.Model.Time
/-!
# Lemmas about `Model/Time`

* `civil_roundtrip`, `days_roundtrip`: `daysFromCivil` and `civilFromDays` are mutually inverse — for every year
  (also negative) and every valid date, resp. every day number — and `civilFromDays` only yields valid dates.
  The argument is finite-free: both functions factor through `buildDays era yoe mp d` (era of 400 years, year of era,
  March-based month index, day); the two decoding steps (`yoe_roundtrip`/`yoe_decode`, `mp_roundtrip`) are linear
  integer arithmetic with divisions by literals, closed by `omega` after naming the century.
* `civilAt_civilNs`: an instant built from civil fields and an offset shows those fields at that offset.
* fraction scaling, ISO week dates.
-/
namespace Tackler
namespace Time

theorem isLeap_iff (y : Int) : isLeap y = true ↔ ((y % 4 = 0 ∧ y % 100 ≠ 0) ∨ y % 400 = 0) := by
  simp [isLeap]

/-! ### the two decoding steps of Hinnant's algorithm -/

theorem yoe_roundtrip (yoe doy doe : Int) (_h0 : 0 ≤ yoe) (_h1 : yoe ≤ 399) (_hd0 : 0 ≤ doy)
    (hd : doy ≤ 364 ∨ (doy = 365 ∧ yoe % 4 = 3 ∧ (yoe % 100 ≠ 99 ∨ yoe = 399)))
    (hdoe : doe = yoe * 365 + yoe / 4 - yoe / 100 + doy) :
    (doe - doe / 1460 + doe / 36524 - doe / 146096) / 365 = yoe := by
  have hc : yoe / 100 = 0 ∨ yoe / 100 = 1 ∨ yoe / 100 = 2 ∨ yoe / 100 = 3 := by omega
  have hf : doe / 1460 = yoe / 4 ∨ doe / 1460 = yoe / 4 + 1 := by omega
  have hg : doe / 36524 = yoe / 100 ∨ doe = 146096 := by
    rcases hc with hc | hc | hc | hc <;> omega
  have hh : doe / 146096 = 0 ∨ doe = 146096 := by omega
  rcases hc with hc | hc | hc | hc <;> rcases hf with hf | hf <;> rcases hg with hg | hg <;>
    rcases hh with hh | hh <;> omega

theorem yoe_decode (doe yoe : Int) (h0 : 0 ≤ doe) (h1 : doe ≤ 146096)
    (hy : yoe = (doe - doe / 1460 + doe / 36524 - doe / 146096) / 365) :
    0 ≤ yoe ∧ yoe ≤ 399 ∧ 0 ≤ doe - (365 * yoe + yoe / 4 - yoe / 100) ∧
    (doe - (365 * yoe + yoe / 4 - yoe / 100) ≤ 364 ∨
      (doe - (365 * yoe + yoe / 4 - yoe / 100) = 365 ∧ yoe % 4 = 3 ∧ (yoe % 100 ≠ 99 ∨ yoe = 399))) := by
  have hg : doe / 36524 = 0 ∨ doe / 36524 = 1 ∨ doe / 36524 = 2 ∨ doe / 36524 = 3 ∨ doe / 36524 = 4 := by omega
  have hh : doe / 146096 = 0 ∨ doe / 146096 = 1 := by omega
  have hc : yoe / 100 = doe / 36524 ∨ (doe / 36524 = 4 ∧ yoe = 399) ∨ (yoe / 100 + 1 = doe / 36524) := by
    rcases hg with hg | hg | hg | hg | hg <;> rcases hh with hh | hh <;> omega
  rcases hg with hg | hg | hg | hg | hg <;> rcases hh with hh | hh <;> rcases hc with hc | hc | hc <;> omega

theorem mp_roundtrip (mp d doy : Int) (_h0 : 0 ≤ mp) (_h1 : mp ≤ 11) (hd1 : 1 ≤ d)
    (hd : d ≤ (153 * (mp + 1) + 2) / 5 - (153 * mp + 2) / 5) (hdoy : doy = (153 * mp + 2) / 5 + d - 1) :
    (5 * doy + 2) / 153 = mp := by
  omega

/-! ### both functions factor through `buildDays` -/

/-- the day number of (era, year of era, March-based month index, day of month) -/
def buildDays (era yoe mp d : Int) : Int :=
  era * 146097 + (yoe * 365 + yoe / 4 - yoe / 100 + ((153 * mp + 2) / 5 + d - 1)) - 719468

/-- the side conditions under which `buildDays` corresponds to a valid civil date: year of era 0…399, month index
    0…11 (0 = March), day within the month's length, and day-of-year 365 (Feb 29) only when the *next* civil year
    is a leap year -/
def BuildOk (yoe mp d : Int) : Prop :=
  0 ≤ yoe ∧ yoe ≤ 399 ∧ 0 ≤ mp ∧ mp ≤ 11 ∧ 1 ≤ d ∧ d ≤ (153 * (mp + 1) + 2) / 5 - (153 * mp + 2) / 5 ∧
  ((153 * mp + 2) / 5 + d - 1 ≤ 364 ∨
    ((153 * mp + 2) / 5 + d - 1 = 365 ∧ yoe % 4 = 3 ∧ (yoe % 100 ≠ 99 ∨ yoe = 399)))

/-- civil month of a March-based month index -/
def monthOf (mp : Int) : Int := if mp < 10 then mp + 3 else mp - 9

/-- civil year of (era, year of era, month index) -/
def yearOf (era yoe mp : Int) : Int := if monthOf mp ≤ 2 then yoe + era * 400 + 1 else yoe + era * 400

theorem civilFromDays_build (era yoe mp d : Int) (h : BuildOk yoe mp d) :
    civilFromDays (buildDays era yoe mp d) = (yearOf era yoe mp, (monthOf mp).toNat, d.toNat) := by
  obtain ⟨h0, h1, hm0, hm1, hd1, hd, hleap⟩ := h
  unfold buildDays yearOf monthOf
  generalize hdoy : (153 * mp + 2) / 5 + d - 1 = doy at hleap
  generalize hdoe : yoe * 365 + yoe / 4 - yoe / 100 + doy = doe
  have hdoy0 : 0 ≤ doy := by omega
  have hyoe := yoe_roundtrip yoe doy doe h0 h1 hdoy0 hleap hdoe.symm
  have hmp := mp_roundtrip mp d doy hm0 hm1 hd1 hd hdoy.symm
  have hdoe0 : 0 ≤ doe ∧ doe ≤ 146096 := by
    rcases hleap with hl | hl <;> omega
  simp only [civilFromDays]
  have hz : era * 146097 + doe - 719468 + 719468 = era * 146097 + doe := by omega
  rw [hz]
  have he : (era * 146097 + doe) / 146097 = era := by omega
  rw [he]
  have hd2 : era * 146097 + doe - era * 146097 = doe := by omega
  rw [hd2, hyoe]
  have hdy : doe - (365 * yoe + yoe / 4 - yoe / 100) = doy := by omega
  rw [hdy, hmp]
  have hdd : doy - (153 * mp + 2) / 5 + 1 = d := by omega
  rw [hdd]

theorem exists_build (z : Int) : ∃ era yoe mp d, BuildOk yoe mp d ∧ z = buildDays era yoe mp d := by
  generalize hera : (z + 719468) / 146097 = era
  generalize hdoe : z + 719468 - era * 146097 = doe
  have hdoe0 : 0 ≤ doe ∧ doe ≤ 146096 := by omega
  have hz : z = era * 146097 + doe - 719468 := by omega
  clear hera hdoe
  generalize hyoe : (doe - doe / 1460 + doe / 36524 - doe / 146096) / 365 = yoe
  obtain ⟨hy0, hy1, hd0, hleap⟩ := yoe_decode doe yoe hdoe0.1 hdoe0.2 hyoe.symm
  clear hyoe
  generalize hdoy : doe - (365 * yoe + yoe / 4 - yoe / 100) = doy at hd0 hleap
  have hdoe' : doe = yoe * 365 + yoe / 4 - yoe / 100 + doy := by omega
  clear hdoy
  refine ⟨era, yoe, (5 * doy + 2) / 153, doy - (153 * ((5 * doy + 2) / 153) + 2) / 5 + 1, ?_, ?_⟩
  · unfold BuildOk
    rcases hleap with h | h <;> omega
  · unfold buildDays
    omega

theorem daysFromCivil_build (era yoe mp d : Int) (h : BuildOk yoe mp d) :
    daysFromCivil (yearOf era yoe mp) (monthOf mp).toNat d.toNat = buildDays era yoe mp d ∧
    1 ≤ (monthOf mp).toNat ∧ (monthOf mp).toNat ≤ 12 ∧ 1 ≤ d.toNat ∧
    d.toNat ≤ daysInMonth (yearOf era yoe mp) (monthOf mp).toNat := by
  obtain ⟨h0, h1, hm0, hm1, hd1, hd, hleap⟩ := h
  have hcases : mp = 0 ∨ mp = 1 ∨ mp = 2 ∨ mp = 3 ∨ mp = 4 ∨ mp = 5 ∨ mp = 6 ∨ mp = 7 ∨ mp = 8 ∨ mp = 9 ∨
      mp = 10 ∨ mp = 11 := by omega
  have hl := isLeap_iff (yoe + era * 400 + 1)
  rcases hcases with rfl | rfl | rfl | rfl | rfl | rfl | rfl | rfl | rfl | rfl | rfl | rfl
  all_goals
    simp [yearOf, monthOf, buildDays, daysFromCivil, daysInMonth, hl]
    refine ⟨?_, ?_, ?_⟩ <;> (try split) <;> omega

/-! ### the round trips -/

theorem daysFromCivil_eq_build (y : Int) (m d : Nat) :
    daysFromCivil y m d =
      buildDays ((if m ≤ 2 then y - 1 else y) / 400)
        ((if m ≤ 2 then y - 1 else y) - (if m ≤ 2 then y - 1 else y) / 400 * 400)
        (if m > 2 then (m : Int) - 3 else (m : Int) + 9) d := rfl

/-- `civilFromDays` inverts `daysFromCivil` on every valid date of every year -/
theorem civil_roundtrip (y : Int) (m d : Nat) (hm : 1 ≤ m ∧ m ≤ 12) (hd : 1 ≤ d ∧ d ≤ daysInMonth y m) :
    civilFromDays (daysFromCivil y m d) = (y, m, d) := by
  have hcases : m = 1 ∨ m = 2 ∨ m = 3 ∨ m = 4 ∨ m = 5 ∨ m = 6 ∨ m = 7 ∨ m = 8 ∨ m = 9 ∨ m = 10 ∨ m = 11 ∨
      m = 12 := by omega
  have hl := isLeap_iff y
  rw [daysFromCivil_eq_build]
  rcases hcases with rfl | rfl | rfl | rfl | rfl | rfl | rfl | rfl | rfl | rfl | rfl | rfl
  all_goals
    simp only [daysInMonth, hl] at hd
    rw [civilFromDays_build]
    · simp [yearOf, monthOf] <;> omega
    · simp [BuildOk]
      (try split at hd) <;> omega

/-- `daysFromCivil` inverts `civilFromDays` on every day number, and `civilFromDays` only yields valid dates -/
theorem days_roundtrip (z : Int) :
    daysFromCivil (civilFromDays z).1 (civilFromDays z).2.1 (civilFromDays z).2.2 = z ∧
    1 ≤ (civilFromDays z).2.1 ∧ (civilFromDays z).2.1 ≤ 12 ∧ 1 ≤ (civilFromDays z).2.2 ∧
    (civilFromDays z).2.2 ≤ daysInMonth (civilFromDays z).1 (civilFromDays z).2.1 := by
  obtain ⟨era, yoe, mp, d, hok, rfl⟩ := exists_build z
  rw [civilFromDays_build era yoe mp d hok]
  exact daysFromCivil_build era yoe mp d hok

/-- `daysFromCivil` is injective on valid dates -/
theorem daysFromCivil_inj (y₁ y₂ : Int) (m₁ d₁ m₂ d₂ : Nat) (hm₁ : 1 ≤ m₁ ∧ m₁ ≤ 12)
    (hd₁ : 1 ≤ d₁ ∧ d₁ ≤ daysInMonth y₁ m₁) (hm₂ : 1 ≤ m₂ ∧ m₂ ≤ 12) (hd₂ : 1 ≤ d₂ ∧ d₂ ≤ daysInMonth y₂ m₂)
    (h : daysFromCivil y₁ m₁ d₁ = daysFromCivil y₂ m₂ d₂) : (y₁, m₁, d₁) = (y₂, m₂, d₂) := by
  rw [← civil_roundtrip y₁ m₁ d₁ hm₁ hd₁, ← civil_roundtrip y₂ m₂ d₂ hm₂ hd₂, h]

end Time
end Tackler

import TacklerModel.Model.Syntax
import TacklerModel.Lemmas.ParserTac
/-!
# Suffix / consumption lemmas for every parser of `Model/Syntax`

`X_suff : Suff (X s) s` – on success the remainder is a suffix of the input;
`X_cons : Cons (X s) s` – … a strictly shorter one (needed for every parser under `repeat`).
The proofs are mechanical (`psuff`, `pcons`): one combinator lemma per node of the parser's definition.
-/
namespace Tackler
namespace Comb

end Comb

namespace Syntax
open Comb

theorem pIdPart_cons (s : List Char) : Cons (pIdPart s) s := takeWhile1_cons _ s

theorem pIdentifier_cons (s : List Char) : Cons (pIdentifier s) s := by
  unfold pIdentifier
  exact Cons.bind (oneOf_cons _ s) (fun _ _ => by psuff)

theorem pIdPartHelper_cons (s : List Char) : Cons (pIdPartHelper s) s := by
  unfold pIdPartHelper
  exact Cons.bind (takeMN_cons 1 1 _ s (by decide)) (fun _ _ => by psuff)

theorem pMultiPartId_cons (s : List Char) : Cons (pMultiPartId s) s := by
  unfold pMultiPartId
  refine Cons.bind (pIdentifier_cons s) (fun _ s' => ?_)
  refine Suff.bind' (cutErr_suff (repeat0_suff _ (fun s => (pIdPartHelper_cons s).suff) s')) (fun _ _ => by psuff)

theorem pNumberLex_cons (s : List Char) : Cons (pNumberLex s) s := by
  unfold pNumberLex
  refine Cons.bind_right (by psuff) (fun _ s' => ?_)
  exact Cons.bind (takeWhile1_cons _ s') (fun _ _ => by psuff)

theorem pNumber_cons (s : List Char) : Cons (pNumber s) s := by
  unfold pNumber
  refine Cons.bind (pNumberLex_cons s) (fun _ _ => by psuff)

theorem pComment_cons (s : List Char) : Cons (pComment s) s := by
  unfold pComment
  exact Cons.bind (chr_cons _ s) (fun _ _ => by psuff)

theorem parseTxnComment_cons (s : List Char) : Cons (parseTxnComment s) s := by
  unfold parseTxnComment
  exact Cons.bind (space1_cons s) (fun _ _ => by psuff)

theorem pDate_cons (s : List Char) : Cons (pDate s) s := by
  unfold pDate
  exact Cons.bind (takeMN_cons 4 4 _ s (by decide)) (fun _ _ => by unfold twoDigits; psuff)

theorem ofOutcome_suff {α} (o : Outcome α) (s : List Char) : Suff (ofOutcome o s) s := by
  unfold ofOutcome; psuff

theorem parseDate_cons (cfg : Time.TsCfg) (s : List Char) : Cons (parseDate cfg s) s := by
  unfold parseDate
  exact Cons.bind (pDate_cons s) (fun _ _ => by psuff)

theorem pDatetime_cons (s : List Char) : Cons (pDatetime s) s := by
  unfold pDatetime
  exact Cons.bind (pDate_cons s) (fun _ _ => by unfold twoDigits; psuff)

theorem parseDatetime_cons (cfg : Time.TsCfg) (s : List Char) : Cons (parseDatetime cfg s) s := by
  unfold parseDatetime
  exact Cons.bind (pDatetime_cons s) (fun _ _ => by psuff)

theorem pOffset_suff (s : List Char) : Suff (pOffset s) s := by
  unfold pOffset twoDigits; psuff

theorem pZuluOrOffset_suff (s : List Char) : Suff (pZuluOrOffset s) s := by
  unfold pZuluOrOffset; psuff

theorem parseDatetimeTz_cons (cfg : Time.TsCfg) (s : List Char) : Cons (parseDatetimeTz cfg s) s := by
  unfold parseDatetimeTz
  exact Cons.bind (pDatetime_cons s) (fun _ _ => by psuff)

theorem parseTimestamp_cons (cfg : Time.TsCfg) (s : List Char) : Cons (parseTimestamp cfg s) s := by
  unfold parseTimestamp
  exact alt_cons (parseDatetimeTz_cons cfg s) (alt_cons (parseDatetime_cons cfg s)
    (alt_cons (parseDate_cons cfg s) (cons_bt s)))

theorem parseTxnCode_suff (s : List Char) : Suff (parseTxnCode s) s := by
  unfold parseTxnCode; psuff

theorem parseTxnDescription_suff (s : List Char) : Suff (parseTxnDescription s) s := by
  unfold parseTxnDescription; psuff

theorem pUuid_suff (s : List Char) : Suff (pUuid s) s := by
  unfold pUuid hexN dash; psuff

theorem metaLine_cons {α} (key : List Char) (value : P α) (hv : ∀ s, Suff (value s) s) (s : List Char) :
    Cons (metaLine key value s) s := by
  unfold metaLine
  refine Cons.bind (space1_cons s) (fun _ _ => ?_)
  refine Suff.bind' (by psuff) (fun _ _ => ?_)
  refine Suff.bind' (by psuff) (fun _ _ => ?_)
  refine Suff.bind' (by psuff) (fun _ _ => ?_)
  refine Suff.bind' (by psuff) (fun _ _ => ?_)
  refine Suff.bind' (cutErr_suff (hv _)) (fun _ _ => ?_)
  psuff

theorem parseMetaUuid_cons (s : List Char) : Cons (parseMetaUuid s) s :=
  metaLine_cons _ _ pUuid_suff s

theorem pGeoUri_suff (s : List Char) : Suff (pGeoUri s) s := by
  unfold pGeoUri; psuff

theorem parseMetaLocation_cons (s : List Char) : Cons (parseMetaLocation s) s :=
  metaLine_cons _ _ pGeoUri_suff s

theorem pTagTail_cons (s : List Char) : Cons (pTagTail s) s := by
  unfold pTagTail
  refine Cons.bind_right (space0_suff s) (fun _ s' => ?_)
  exact Cons.bind (chr_cons _ s') (fun _ _ => by psuff)

theorem pTags_suff (s : List Char) : Suff (pTags s) s := by
  unfold pTags
  refine Suff.bind' (by psuff) (fun _ s' => ?_)
  exact Suff.bind' (repeat0_suff _ (fun s => (pTagTail_cons s).suff) s') (fun _ _ => by psuff)

theorem parseMetaTags_cons (s : List Char) : Cons (parseMetaTags s) s :=
  metaLine_cons _ _ pTags_suff s

theorem parseTxnMeta_suff (s : List Char) : Suff (parseTxnMeta s) s := by
  unfold parseTxnMeta permutationUuidTagsOLocation permutationUuidLocationOTags permutationUuid
    permutationTagsUuidOLocation permutationTagsLocationOUuid permutationTags
    permutationLocationUuidOTags permutationLocationTagsOUuid permutationLocation
  psuff

theorem parseTxnHeader_cons (cfg : Time.TsCfg) (s : List Char) : Cons (parseTxnHeader cfg s) s := by
  unfold parseTxnHeader
  refine Cons.bind (parseTimestamp_cons cfg s) (fun _ _ => ?_)
  refine Suff.bind' (by psuff) (fun _ _ => ?_)
  refine Suff.bind' (by psuff) (fun _ _ => ?_)
  refine Suff.bind' (by psuff) (fun _ _ => ?_)
  refine Suff.bind' (by psuff) (fun _ s' => ?_)
  refine Suff.bind' (opt_suff (repeat1_cons _ parseTxnComment_cons s').suff) (fun _ _ => by psuff)

theorem pOpeningPos_suff (s : List Char) : Suff (pOpeningPos s) s := by
  unfold pOpeningPos; psuff

theorem pClosingPos_suff (s : List Char) : Suff (pClosingPos s) s := by
  unfold pClosingPos; psuff

theorem pPosition_suff (s : List Char) : Suff (pPosition s) s := by
  unfold pPosition; psuff

theorem pUnit_suff (s : List Char) : Suff (pUnit s) s := by
  unfold pUnit; psuff

theorem parsePostingValue_suff (s : List Char) : Suff (parsePostingValue s) s := by
  unfold parsePostingValue; psuff

theorem parseTxnPosting_cons (s : List Char) : Cons (parseTxnPosting s) s := by
  unfold parseTxnPosting
  exact Cons.bind (space1_cons s) (fun _ _ => by psuff)

theorem parseTxnLastPosting_cons (s : List Char) : Cons (parseTxnLastPosting s) s := by
  unfold parseTxnLastPosting
  exact Cons.bind (space1_cons s) (fun _ _ => by psuff)

theorem parseTxnPostings_cons (s : List Char) : Cons (parseTxnPostings s) s := by
  unfold parseTxnPostings
  exact Cons.bind (repeat1_cons _ parseTxnPosting_cons s) (fun _ _ => by psuff)

theorem blankLine_cons (s : List Char) : Cons (blankLine s) s := by
  unfold blankLine
  exact Cons.bind_right (space0_suff s) (fun _ s' => lineEnding_cons s')

theorem multispace0LineEnding_cons (s : List Char) : Cons (multispace0LineEnding s) s := by
  unfold multispace0LineEnding
  exact Cons.map (repeat1_cons _ blankLine_cons s)

theorem parseTxn_cons (cfg : Time.TsCfg) (s : List Char) : Cons (parseTxn cfg s) s := by
  unfold parseTxn
  exact Cons.bind (cutErr_cons (parseTxnHeader_cons cfg s)) (fun _ _ => by psuff)

theorem parseTxns_suff (cfg : Time.TsCfg) (s : List Char) : Suff (parseTxns cfg s) s := by
  unfold parseTxns
  refine Suff.bind' (by psuff) (fun _ s' => ?_)
  exact repeatTill1_suff _ _ (fun s => (parseTxn_cons cfg s).suff) eof_suff s'

end Syntax
end Tackler
